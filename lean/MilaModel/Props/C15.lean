/-
C15 — GameCube/Wii pack archive: build → parse is identity, the layout is aligned, and the parser
recovers the files of every conforming image.

Property theorems only (helper lemmas live in `MilaModel/Lemmas/Pack.lean`).  The model
(`Mila.Fe9Arc`) transcribes `src/fe9_arc.rs`; the specification (`Mila.Spec.Pack`) is written
from the property statement.  The tie model <-> Rust is the `pack` correspondence stream.
-/
import MilaModel.Model.Fe9Arc
import MilaModel.Spec.PackImage
import MilaModel.Lemmas.Pack
import MilaModel.Lemmas.SjisSub

namespace Mila.Props.C15
open Mila Mila.Fe9Arc Mila.PackLemmas
open Mila.Spec.Pack (At word EntryOk ConformsPack Aligned32 DistinctNames)

/-- **Parser clause.** For every image that conforms to the pack layout for the ordered files
`m` — wherever the names and bodies are placed, shared, overlapping or separated by gaps — the
parser returns exactly `m`, in record order.  `D` is the name domain on which the Shift-JIS codec
is faithful. -/
theorem pack_parse_conforming {c : Codec} {D : Str → Prop} (hf : c.Faithful D)
    {img : Bytes} {m : Files} (hc : ConformsPack c.enc img m) (hD : ∀ kv ∈ m, D kv.1)
    (hN : DistinctNames m) : parse c img = .ok m := by
  obtain ⟨_, hmagic, hcount, hE⟩ := hc
  have hbound : m.length = 0 ∨ 8 + 16 * (0 + m.length) ≤ img.length := by
    by_cases h0 : m.length = 0
    · exact Or.inl h0
    · right
      have hlast := hE (m.length - 1) (by omega)
      unfold EntryOk at hlast
      split at hlast
      · rename_i na fa sz b hna hfa hsz hb
        unfold word at hsz
        split at hsz
        · omega
        · exact absurd hsz (by simp)
      · exact absurd hlast id
  have hents := readEntries_ok img m.length 0 hbound
  have hfiles := readFiles_ok hf img m 0 [] (by simpa using hE) hD (by simpa [DistinctNames] using hN)
  simp only [Nat.mul_zero, Nat.add_zero] at hents
  simp only [List.nil_append] at hfiles
  unfold parse
  have hmm : Spec.Pack.MAGIC = MAGIC := rfl
  simp only [readBe_eq, hmagic, Nat.zero_add, hcount, ne_eq, hmm, not_true_eq_false, if_false, hents, hfiles]

/-- **Builder clause.** For every ordered list of up to 65535 files whose names the codec
represents, `serialize` succeeds, and (for images below 4 GiB, where the `as u32` casts are exact)
the image conforms to the pack layout for exactly these files — header count = number of files,
every recorded name offset, file offset and size exact — and every file address is a multiple
of 32.  Empty files and the empty archive are included (no hypothesis on contents). -/
theorem pack_serialize_conforms {c : Codec} {D : Str → Prop} (hf : c.Faithful D) (m : Files)
    (hD : ∀ kv ∈ m, D kv.1) (hlen : m.length ≤ 65535) :
    ∃ img, serialize c m = .ok img ∧
      (img.length < 2 ^ 32 → ConformsPack c.enc img m ∧ Aligned32 img m.length) := by
  have henc : ∀ kv ∈ m, c.enc kv.1 = some (encOf c kv) := by
    intro kv hkv
    obtain ⟨b, hb, _, _⟩ := hf kv.1 (hD kv hkv)
    simp [encOf, hb]
  exact ⟨imageOf c m, serialize_eq m henc, fun hsz => imageOf_conforms hf m hD hlen hsz⟩

/-- The layout relation is unambiguous: an image conforms to the pack layout for at most one
ordered set of distinctly named files of the domain. -/
theorem pack_conforming_unique {c : Codec} {D : Str → Prop} (hf : c.Faithful D) {img : Bytes}
    {m m' : Files} (hc : ConformsPack c.enc img m) (hc' : ConformsPack c.enc img m')
    (hD : ∀ kv ∈ m, D kv.1) (hD' : ∀ kv ∈ m', D kv.1) (hN : DistinctNames m)
    (hN' : DistinctNames m') : m = m' := by
  have := (pack_parse_conforming hf hc hD hN).symm.trans (pack_parse_conforming hf hc' hD' hN')
  injection this

/-- **Round trip.** Building a pack archive from an ordered set of up to 65535 distinctly named
files and parsing it returns the same names in the same order with the same contents. -/
theorem pack_roundtrip {c : Codec} {D : Str → Prop} (hf : c.Faithful D) (m : Files)
    (hD : ∀ kv ∈ m, D kv.1) (hN : DistinctNames m) (hlen : m.length ≤ 65535) :
    ∃ img, serialize c m = .ok img ∧ (img.length < 2 ^ 32 → parse c img = .ok m) := by
  obtain ⟨img, hs, hc⟩ := pack_serialize_conforms hf m hD hlen
  exact ⟨img, hs, fun hsz => pack_parse_conforming hf (hc hsz).1 hD hN⟩

/-- Consequently serialisation is injective on its domain: two different ordered file sets never
produce the same archive image (order, names and contents are all recoverable). -/
theorem pack_serialize_injective {c : Codec} {D : Str → Prop} (hf : c.Faithful D) (m m' : Files)
    (hD : ∀ kv ∈ m, D kv.1) (hD' : ∀ kv ∈ m', D kv.1) (hN : DistinctNames m)
    (hN' : DistinctNames m') (hlen : m.length ≤ 65535) (hlen' : m'.length ≤ 65535)
    {img : Bytes} (hs : serialize c m = .ok img) (hs' : serialize c m' = .ok img)
    (hsz : img.length < 2 ^ 32) : m = m' := by
  obtain ⟨i1, h1, p1⟩ := pack_roundtrip hf m hD hN hlen
  obtain ⟨i2, h2, p2⟩ := pack_roundtrip hf m' hD' hN' hlen'
  have e1 : i1 = img := by have := h1.symm.trans hs; injection this
  have e2 : i2 = img := by have := h2.symm.trans hs'; injection this
  subst e1
  subst e2
  have := (p1 hsz).symm.trans (p2 hsz)
  injection this

/-- The round trip with no assumption about the text encoding left: for the executable sub-codec
`sjisSub` (faithful on its whole alphabet, `sjisSub_faithful`), names of any length over ASCII,
kana, Greek and Cyrillic — including the names whose UTF-8 and Shift-JIS lengths coincide. -/
theorem pack_roundtrip_sjisSub (m : Files) (hD : ∀ kv ∈ m, Sjis.SubDomain kv.1) (hN : DistinctNames m)
    (hlen : m.length ≤ 65535) :
    ∃ img, serialize sjisSub m = .ok img ∧ (img.length < 2 ^ 32 → parse sjisSub img = .ok m) :=
  pack_roundtrip Mila.sjisSub_faithful m hD hN hlen

/-- Non-vacuity of the name domain: `"Ω2"` (a 2-byte/2-byte character followed by one ASCII
character — the shape on which an encoder that sizes its buffer by `len()` loses the last byte). -/
example : Sjis.SubDomain [0xCE, 0xA9, 0x32] ∧ sjisSub.enc [0xCE, 0xA9, 0x32] = some [0x83, 0xB6, 0x32] :=
  ⟨⟨[0x3A9, 0x32], by decide, by decide⟩, by decide⟩

/-- The empty archive: an 8-byte header padded to 32 bytes, parsed back as no files. -/
theorem pack_roundtrip_empty (c : Codec) :
    serialize c [] = .ok (beBytes 4 MAGIC ++ List.replicate 28 0) ∧
    parse c (beBytes 4 MAGIC ++ List.replicate 28 0) = .ok [] := by
  constructor <;> rfl

private theorem readBe_total (raw : Bytes) (pos k : Nat) : readBe raw pos k ≠ .panic := by
  unfold readBe; split <;> simp

private theorem readEntry_total (raw : Bytes) (pos : Nat) : readEntry raw pos ≠ .panic := by
  unfold readEntry
  repeat' split
  all_goals first | (rename_i h; exact absurd h (readBe_total _ _ _)) | simp

private theorem readEntries_total (raw : Bytes) : ∀ n pos, readEntries raw n pos ≠ .panic := by
  intro n; induction n with
  | zero => intro pos; simp [readEntries]
  | succ n ih =>
    intro pos
    unfold readEntries
    repeat' split
    all_goals first | (rename_i h; exact absurd h (ih _)) | (rename_i h; exact absurd h (readEntry_total _ _)) | simp

private theorem readFile_total (c : Codec) (raw : Bytes) (acc : Files) (e : Entry) :
    readFile c raw acc e ≠ .panic := by
  unfold readFile
  have hs : sjisAt c raw e.nameAddress ≠ .panic := by unfold sjisAt; split <;> simp
  split
  · simp only []; split <;> simp
  · simp
  · rename_i h; exact absurd h hs

private theorem readFiles_total (c : Codec) (raw : Bytes) : ∀ es acc, readFiles c raw acc es ≠ .panic := by
  intro es; induction es with
  | nil => intro acc; simp [readFiles]
  | cons e es ih =>
    intro acc
    unfold readFiles
    split
    · exact ih _
    · simp
    · rename_i h; exact absurd h (readFile_total _ _ _ _)

/-- The parser never panics, whatever the bytes (wrong magic, truncation, over-declared counts,
sizes or addresses): it returns files or an error. -/
theorem pack_parse_total (c : Codec) (raw : Bytes) : parse c raw ≠ .panic := by
  unfold parse
  repeat' split
  all_goals first
    | exact readFiles_total _ _ _ _
    | (rename_i h; exact absurd h (readEntries_total _ _ _))
    | (rename_i h; exact absurd h (readBe_total _ _ _))
    | simp

/-- A wrong magic number is an error (fix D7), for every continuation of the image. -/
theorem pack_bad_magic (c : Codec) (raw : Bytes) (v : Nat) (h : word raw 0 4 = some v)
    (hv : v ≠ Spec.Pack.MAGIC) : parse c raw = .err .BadMagic := by
  unfold parse
  have hv' : v ≠ MAGIC := hv
  simp [readBe_eq, h, hv']

/-! ### non-vacuity -/

/-- A codec that is faithful on NUL-free strings (bytes are their own encoding). -/
private def idCodec : Codec := ⟨some, id⟩

private theorem idCodec_faithful : idCodec.Faithful (fun s => (0 : UInt8) ∉ s) :=
  fun s hs => ⟨s, rfl, hs, rfl⟩

/-- The hypotheses are satisfiable by a non-trivial object: three files (one empty, one longer
than a padding block), and the library's image of them parses back. -/
example :
    let m : Files := [(bs ['a'], [1, 2, 3]), (bs ['b', 'c'], []), (bs ['d'], List.replicate 33 7)]
    (∀ kv ∈ m, (0 : UInt8) ∉ kv.1) ∧ DistinctNames m ∧ m.length ≤ 65535 ∧
    (∃ img, serialize idCodec m = .ok img ∧ img.length = 160 ∧ ConformsPack idCodec.enc img m ∧
      Aligned32 img 3 ∧ parse idCodec img = .ok m) := by
  refine ⟨by decide, by decide, by decide, _, rfl, by decide +kernel, by decide +kernel,
    by decide +kernel, by decide +kernel⟩

/-- A foreign image the library never writes (bodies before names, a shared body, an empty body
pointing into the header, garbage in the ignored words) conforms and is parsed. -/
example :
    let m : Files := [(bs ['x'], [9, 8]), (bs ['y'], [9, 8]), (bs ['z'], [])]
    let img : Bytes := beBytes 4 MAGIC ++ beBytes 2 3 ++ [0xAA, 0xBB]
      ++ [1, 2, 3, 4] ++ beBytes 4 58 ++ beBytes 4 56 ++ beBytes 4 2
      ++ [5, 6, 7, 8] ++ beBytes 4 60 ++ beBytes 4 56 ++ beBytes 4 2
      ++ [0, 0, 0, 0] ++ beBytes 4 62 ++ beBytes 4 3 ++ beBytes 4 0
      ++ [9, 8] ++ bs ['x'] ++ [0] ++ bs ['y'] ++ [0] ++ bs ['z'] ++ [0]
    ConformsPack idCodec.enc img m ∧ parse idCodec img = .ok m := by
  refine ⟨by decide +kernel, by decide +kernel⟩

end Mila.Props.C15
