/-
C04 — Cell access is bounds-safe, endian-correct and local; stream readers / writers are the
positional calls at their cursor plus the cursor law.

Model: `Model/BinArchive.lean`, `Model/BinStreams.lean`, op machine `Model/BinOps.lean`
(transcriptions of `src/bin_archive.rs`, `src/bin_streams.rs`).  Spec: `Spec/Cell.lean`.
`usize` is 64-bit: `a.size < 2^64` is the only hypothesis (a `Vec` never exceeds `isize::MAX`);
addresses and lengths are arbitrary naturals, so every 64-bit value is covered.
-/
import MilaModel.Lemmas.BinSys

namespace Mila.Props.C04
open Mila BinArchive Spec.Cell

/-- How the bit pattern `n` of a `t`-typed cell is read. -/
def interp (t : Ty) (n : Nat) : Int := if t.signed then signedOf (8 * t.width) n else (n : Int)

/-- The values of type `t`. -/
def InDomain (t : Ty) (v : Int) : Prop :=
  if t.signed then -(2 : Int) ^ (8 * t.width - 1) ≤ v ∧ v < (2 : Int) ^ (8 * t.width - 1)
  else 0 ≤ v ∧ v < (2 : Int) ^ (8 * t.width)

/-! ### reads -/

/-- Every typed read is: inside the data ⇒ the value stored there in the archive's endianness;
otherwise `OutOfBoundsAddress`.  Never a panic, for any address. -/
theorem readTy_eq (a : BinArchive) (t : Ty) (addr : Nat) :
    a.readTy t addr = if InRange a.size addr t.width
      then .ok (interp t (valueOf a.endian (slice a.data addr t.width))) else .err .OutOfBounds := by
  cases t <;>
    simp only [readTy, readU16, readU32, readF32Bits, readI8, readI16, readI32, readU8_eq, readUInt_eq,
      Ty.width, interp, Ty.signed] <;>
    split <;> simp_all [Res.map, toSigned_eq_signedOf]

theorem read_ok_iff (a : BinArchive) (t : Ty) (addr : Nat) :
    (a.readTy t addr).isOk = true ↔ InRange a.size addr t.width := by
  rw [readTy_eq]; split <;> simp [Res.isOk, *]

theorem read_err (a : BinArchive) (t : Ty) (addr : Nat) (h : ¬ InRange a.size addr t.width) :
    a.readTy t addr = .err .OutOfBounds := by
  rw [readTy_eq, if_neg h]

/-- `read_bytes`: succeeds iff `addr < size ∧ addr + len ≤ size` (for `len ≥ 1`: the whole
non-empty range lies inside), returns exactly those bytes, else `OutOfBoundsAddress`; no panic for
any 64-bit (indeed any) address and length — `addr + len` is a checked addition. -/
theorem readBytes_eq (a : BinArchive) (addr len : Nat) (hs : a.size < 2 ^ 64) :
    a.readBytes addr len = if InRange a.size addr len then .ok (slice a.data addr len)
      else .err .OutOfBounds := Mila.readBytes_eq a addr len hs

theorem readBytes_ok_iff (a : BinArchive) (addr len : Nat) (hs : a.size < 2 ^ 64) :
    (a.readBytes addr len).isOk = true ↔ InRange a.size addr len := by
  rw [readBytes_eq a addr len hs]; split <;> simp [Res.isOk, *]

/-- In the unchecked additions `address + w` of the typed accessors (`bin_archive.rs:421…`) the
sum is only evaluated after `address < size` has been established, so it cannot leave the machine
range: the result is the same in both arithmetic profiles. -/
theorem cell_add_in_range (a : BinArchive) (addr w : Nat) (hw : w ≤ 4) (hs : a.size < 2 ^ 63)
    (h : validateAddress addr a.size false = .ok ()) : add64 .checked addr w = .ok (addr + w)
      ∧ add64 .wrapping addr w = .ok (addr + w) := by
  rw [validateAddress_false] at h
  have : addr < a.size := by
    by_cases h' : addr < a.size
    · exact h'
    · simp [h'] at h
  have : addr + w < 2 ^ 64 := by omega
  simp [add64, addN, this]

/-! ### writes -/

private theorem layout_length (e : Endian) (w v : Nat) : (layout e w v).length = w := by
  simp [layout]

private theorem single_eq_layout (e : Endian) (n : Nat) (h : n < 256) : [UInt8.ofNat n] = layout e 1 n := by
  rw [← enc_layout_1]
  cases e <;> simp [Endian.enc, beBytes, leBytes, Nat.mod_eq_of_lt h]

/-- Every typed write is: inside the data ⇒ the addressed bytes become the endian layout of the
value's bit pattern and nothing else changes; otherwise `OutOfBoundsAddress` (and no new state). -/
theorem writeTy_eq (a : BinArchive) (t : Ty) (addr : Nat) (v : Int) :
    a.writeTy t addr v = if InRange a.size addr t.width
      then .ok { a with data := patch a.data addr (layout a.endian t.width (ofSigned (8 * t.width) v)) }
      else .err .OutOfBounds := by
  cases t <;>
    simp only [writeTy, writeI8, writeI16, writeI32, writeU16, writeU32, writeF32Bits, writeU8_eq,
      writeUInt_eq, Ty.width, enc_layout_2, enc_layout_4, Nat.reduceMul] <;>
    first
      | rfl
      | (rw [single_eq_layout a.endian _ (ofSigned_lt 8 v)]; done)
      | (rw [single_eq_layout a.endian _ (ofSigned_lt 8 v)]; rfl)

theorem write_ok_iff (a : BinArchive) (t : Ty) (addr : Nat) (v : Int) :
    (a.writeTy t addr v).isOk = true ↔ InRange a.size addr t.width := by
  rw [writeTy_eq]; split <;> simp [Res.isOk, *]

theorem write_err (a : BinArchive) (t : Ty) (addr : Nat) (v : Int) (h : ¬ InRange a.size addr t.width) :
    a.writeTy t addr v = .err .OutOfBounds := by
  rw [writeTy_eq, if_neg h]

/-- `write_local`: a successful write changes exactly the addressed bytes, to the endian layout
of the value, and leaves all five annotation collections and the endianness alone. -/
theorem write_local (a a' : BinArchive) (t : Ty) (addr : Nat) (v : Int) (h : a.writeTy t addr v = .ok a') :
    Replaced a.data a'.data addr (layout a.endian t.width (ofSigned (8 * t.width) v))
    ∧ a'.text = a.text ∧ a'.pointers = a.pointers ∧ a'.labels = a.labels
    ∧ a'.cstrings = a.cstrings ∧ a'.endian = a.endian := by
  rw [writeTy_eq] at h
  by_cases hr : InRange a.size addr t.width
  · rw [if_pos hr] at h
    injection h with h
    subst h
    refine ⟨?_, rfl, rfl, rfl, rfl, rfl⟩
    apply patch_replaced
    rw [layout_length]
    exact hr.2
  · rw [if_neg hr] at h; cases h

private theorem valueOf_layout (e : Endian) (t : Ty) (n : Nat) :
    valueOf e (layout e t.width n) = n % 256 ^ t.width := by
  cases t <;> simp only [Ty.width] <;>
    first
      | rw [← enc_layout_1, ← dec_eq_valueOf, dec_enc]
      | rw [← enc_layout_2, ← dec_eq_valueOf, dec_enc]
      | rw [← enc_layout_4, ← dec_eq_valueOf, dec_enc]

/-- `decode ∘ encode = id` on the values of each type (u8/u16/u32/i8/i16/i32, f32 as bits). -/
theorem decode_encode (e : Endian) (t : Ty) (v : Int) (hv : InDomain t v) :
    interp t (valueOf e (layout e t.width (ofSigned (8 * t.width) v))) = v := by
  rw [valueOf_layout]
  cases t <;>
    simp only [InDomain, Ty.signed, Ty.width, Nat.reduceMul, Nat.reduceSub, Int.reducePow, Int.reduceNeg,
      if_true, if_false, Bool.false_eq_true] at hv <;>
    simp only [interp, Ty.signed, Ty.width, signedOf, ofSigned, Nat.reduceMul, Nat.reduceSub, Nat.reducePow,
      if_true, if_false, Bool.false_eq_true] <;>
    (try split) <;> omega

/-- `read_write`: the matching read returns the written value unchanged (both endiannesses, every
type; NaN payloads are just bit patterns of `f32`). -/
theorem read_write (a a' : BinArchive) (t : Ty) (addr : Nat) (v : Int) (hv : InDomain t v)
    (h : a.writeTy t addr v = .ok a') : a'.readTy t addr = .ok v := by
  rw [writeTy_eq] at h
  by_cases hr : InRange a.size addr t.width
  · rw [if_pos hr] at h
    injection h with h
    subst h
    have hl := layout_length a.endian t.width (ofSigned (8 * t.width) v)
    have hlen : (patch a.data addr (layout a.endian t.width (ofSigned (8 * t.width) v))).length = a.data.length :=
      patch_length _ _ _ (by rw [hl]; exact hr.2)
    rw [readTy_eq]
    have hr' : InRange (BinArchive.size { a with data := patch a.data addr (layout a.endian t.width (ofSigned (8 * t.width) v)) }) addr t.width := by
      simpa [BinArchive.size, hlen] using hr
    rw [if_pos hr']
    have hs := slice_patch a.data addr (layout a.endian t.width (ofSigned (8 * t.width) v)) (by rw [hl]; exact hr.2)
    rw [hl] at hs
    simp only [hs]
    rw [decode_encode _ _ _ hv]
  · rw [if_neg hr] at h; cases h

/-- The same three facts for raw byte strings (`write_bytes` / `read_bytes`). -/
theorem writeBytes_eq (a : BinArchive) (addr : Nat) (v : Bytes) :
    a.writeBytes addr v = if InRange a.size addr v.length then .ok { a with data := patch a.data addr v }
      else .err .OutOfBounds := Mila.writeBytes_eq a addr v

theorem writeBytes_local (a a' : BinArchive) (addr : Nat) (v : Bytes) (h : a.writeBytes addr v = .ok a') :
    Replaced a.data a'.data addr v ∧ a'.text = a.text ∧ a'.pointers = a.pointers ∧ a'.labels = a.labels
    ∧ a'.cstrings = a.cstrings ∧ a'.endian = a.endian := by
  rw [writeBytes_eq] at h
  by_cases hr : InRange a.size addr v.length
  · rw [if_pos hr] at h
    injection h with h
    subst h
    exact ⟨patch_replaced _ _ _ hr.2, rfl, rfl, rfl, rfl, rfl⟩
  · rw [if_neg hr] at h; cases h

theorem readBytes_writeBytes (a a' : BinArchive) (addr : Nat) (v : Bytes) (hs : a.size < 2 ^ 64)
    (h : a.writeBytes addr v = .ok a') : a'.readBytes addr v.length = .ok v := by
  rw [writeBytes_eq] at h
  by_cases hr : InRange a.size addr v.length
  · rw [if_pos hr] at h
    injection h with h
    subst h
    have hlen : (patch a.data addr v).length = a.data.length := patch_length _ _ _ hr.2
    rw [Mila.readBytes_eq _ _ _ (by simpa [BinArchive.size, hlen] using hs)]
    rw [if_pos (by simpa [BinArchive.size, hlen] using hr)]
    simp [slice_patch a.data addr v hr.2]
  · rw [if_neg hr] at h; cases h

/-! ### never a panic; a failed access changes nothing -/

/-- No call of the machine — any typed, byte, annotation, relocation or stream call, at any
address / length / value — panics. -/
theorem no_panic (s : Sys) (op : Op) : (s.step op).2 ≠ .panic := Sys.step_ne_panic s op

/-- An access that returns an error leaves archive and cursors exactly as they were. -/
theorem err_unchanged (s : Sys) (op : Op) (e : Err) (hop : op ≠ .rSjis)
    (h : (s.step op).2 = .err e) : (s.step op).1 = s := Sys.step_err_unchanged s op e hop h

/-! ### annotation accessors never disturb raw bytes -/

/-- The annotation calls: string / pointer / label / c-string reads, writes and deletes, positional
and through the streams. -/
def isAnnot : Op → Bool
  | .readStr _ | .readPtr _ | .readLabels _ | .readCStr _ | .writeStr _ _ | .writePtr _ _
  | .writeCStr _ _ | .writeLabel _ _ | .writeLabels _ _ | .delStr _ | .delPtr _ | .delLabels _
  | .delLabel _ _ | .find _ | .ptrDests | .getLabels | .rStr | .rPtr | .rCStr | .rLabel _ | .rLabels
  | .wStr _ | .wPtr _ | .wCStr _ | .wLabel _ => true
  | _ => false

theorem annot_no_bytes (s : Sys) (op : Op) (h : isAnnot op = true) :
    (s.step op).1.arch.data = s.arch.data := by
  cases op <;> simp [isAnnot] at h <;> simp only [Sys.step, Sys.qry]
  case wStr v => exact Sys.wr_step_data s 4 (fun a p => a.writeString p v) (fun a' h' => writeString_data _ _ _ _ h')
  case wPtr v => exact Sys.wr_step_data s 4 (fun a p => a.writePointer p v) (fun a' h' => writePointer_data _ _ _ _ h')
  case wCStr v => exact Sys.wr_step_data s 4 (fun a p => a.writeCString p v) (fun a' h' => writeCString_data _ _ _ _ h')
  case wLabel v => exact Sys.wr_step_data s 0 (fun a p => a.writeLabel p v) (fun a' h' => writeLabel_data _ _ _ _ h')
  all_goals first
    | rfl
    | (rw [Sys.rd_arch]; done)
    | exact Sys.upd_data _ _ (fun a' h' => writeString_data _ _ _ _ h')
    | exact Sys.upd_data _ _ (fun a' h' => writePointer_data _ _ _ _ h')
    | exact Sys.upd_data _ _ (fun a' h' => writeCString_data _ _ _ _ h')
    | exact Sys.upd_data _ _ (fun a' h' => writeLabel_data _ _ _ _ h')
    | exact Sys.upd_data _ _ (fun a' h' => writeLabels_data _ _ _ _ h')
    | exact Sys.upd_data _ _ (fun a' h' => deleteString_data _ _ _ h')
    | exact Sys.upd_data _ _ (fun a' h' => deletePointer_data _ _ _ h')
    | exact Sys.upd_data _ _ (fun a' h' => deleteLabels_data _ _ _ h')
    | exact Sys.upd_data _ _ (fun a' h' => deleteLabel_data _ _ _ _ h')

/-! ### stream readers / writers = positional calls + cursor law -/

/-- The positional call a stream call performs at the current cursors, with the distance the
reader / writer cursor advances when it succeeds.  (Empty `read_bytes` / `write_bytes` succeed at
any cursor and have no positional twin; `seek` / `skip` / `tell` only concern the cursor.) -/
def twin (s : Sys) : Op → Option (Op × Nat × Nat)
  | .rRead t => some (.read t s.rpos, t.width, 0)
  | .rBytes n => if n = 0 then none else some (.readBytes s.rpos n, n, 0)
  | .rStr => some (.readStr s.rpos, 4, 0)
  | .rPtr => some (.readPtr s.rpos, 4, 0)
  | .rCStr => some (.readCStr s.rpos, 4, 0)
  | .rLabels => some (.readLabels s.rpos, 0, 0)
  | .wWrite t v => some (.write t s.wpos v, 0, t.width)
  | .wBytes v => if v.isEmpty then none else some (.writeBytes s.wpos v, 0, v.length)
  | .wStr v => some (.writeStr s.wpos v, 0, 4)
  | .wPtr v => some (.writePtr s.wpos v, 0, 4)
  | .wCStr v => some (.writeCStr s.wpos v, 0, 4)
  | .wLabel v => some (.writeLabel s.wpos v, 0, 0)
  | .wAlloc n ge => if s.wpos = s.arch.size then some (.allocEnd n, 0, 0) else some (.allocate s.wpos n ge, 0, 0)
  | .wAllocEnd n => some (.allocEnd n, 0, 0)
  | _ => none

/-- A stream call executed as its positional twin followed by the cursor law. -/
def stepTwin (s : Sys) (op : Op) : Sys × Res Out :=
  match twin s op with
  | some (p, dr, dw) =>
    match s.step p with
    | (s', .ok o) => ({ s' with rpos := s.rpos + dr, wpos := s.wpos + dw }, .ok o)
    | (_, r) => (s, r)
  | none => s.step op

private theorem upd_map (s : Sys) (r : Res BinArchive) (k : Nat) :
    s.wr (r.map (fun a => (⟨a, s.wpos + k⟩ : Writer))) =
      match s.upd r with
      | (s', .ok o) => ({ s' with rpos := s.rpos + 0, wpos := s.wpos + k }, .ok o)
      | (_, r') => (s, r') := by
  cases r <;> simp [Sys.wr, Sys.upd, Res.map]

private theorem wr_step (s : Sys) (k : Nat) (call : BinArchive → Nat → Res BinArchive) :
    s.wr (s.writer.step k call) =
      match s.upd (call s.arch s.wpos) with
      | (s', .ok o) => ({ s' with rpos := s.rpos + 0, wpos := s.wpos + k }, .ok o)
      | (_, r') => (s, r') := by
  simp only [Writer.step, Sys.writer]
  cases call s.arch s.wpos <;> simp [Sys.wr, Sys.upd]

private theorem rd_step {α : Type} (s : Sys) (k : Nat) (call : Nat → Res α) (f : α → Out) :
    s.rd (s.reader.step k call) f =
      match s.qry (call s.rpos) f with
      | (s', .ok o) => ({ s' with rpos := s.rpos + k, wpos := s.wpos + 0 }, .ok o)
      | (_, r') => (s, r') := by
  simp only [Reader.step, Sys.reader]
  cases call s.rpos <;> simp [Sys.rd, Sys.qry, Res.map]

/-- `stream_eq_positional`, one step: every reader / writer call returns what the positional call
at the cursor returns, changes the archive in the same way, advances its cursor by the width of the
access when it succeeds and leaves everything alone when it fails; label calls (`rLabels`,
`wLabel`) and `allocate` never move a cursor. -/
theorem stream_eq_positional (s : Sys) (op : Op) : s.step op = stepTwin s op := by
  unfold stepTwin
  cases op <;> simp only [twin]
  case rRead t =>
    simp only [Sys.step, Reader.readTy_eq, Sys.reader]
    cases s.arch.readTy t s.rpos <;> simp [Sys.rd, Sys.qry, Res.map]
  case rBytes n =>
    by_cases hn : n = 0
    · subst hn; rfl
    · simp only [if_neg hn, Sys.step, Reader.readBytesFull, Reader.readBytes, Sys.reader,
        Reader.readBytesFailPos]
      cases s.arch.readBytes s.rpos n <;> simp [Sys.qry, Res.map]
  case rStr => simp only [Sys.step, Reader.readString]; exact rd_step s 4 _ _
  case rPtr => simp only [Sys.step, Reader.readPointer]; exact rd_step s 4 _ _
  case rCStr => simp only [Sys.step, Reader.readCStringRaw]; exact rd_step s 4 _ _
  case rLabels =>
    simp only [Sys.step, Reader.readLabels, Sys.reader, Sys.qry]
    cases s.arch.readLabels s.rpos <;> simp [Res.map]
  case wWrite t v =>
    simp only [Sys.step, Writer.writeTy_eq, Sys.writer]
    exact upd_map s _ _
  case wBytes v =>
    by_cases hv : v.isEmpty = true
    · simp only [hv, if_true, Sys.step, Writer.writeBytes]
    · rcases hx : s.arch.writeBytes s.wpos v with a | e | _ <;>
        simp [hv, Sys.step, Writer.writeBytes, Sys.writer, Sys.upd, hx, Res.map]
  case wStr v => simp only [Sys.step, Writer.writeString]; exact wr_step s 4 _
  case wPtr v => simp only [Sys.step, Writer.writePointer]; exact wr_step s 4 _
  case wCStr v => simp only [Sys.step, Writer.writeCString]; exact wr_step s 4 _
  case wLabel v => simp only [Sys.step, Writer.writeLabel]; exact wr_step s 0 _
  case wAlloc n ge =>
    by_cases h : s.wpos = s.arch.size
    · simp [Sys.step, Writer.allocate, Sys.writer, h, Sys.wr]
    · rcases hx : s.arch.allocate s.wpos n ge with a | e | _ <;>
        simp [h, Sys.step, Writer.allocate, Sys.writer, Sys.upd, Sys.wr, hx]
  case wAllocEnd n => simp [Sys.step]

/-- A label read through the reader never moves the cursor or changes the archive, whatever the
index. -/
theorem reader_label_no_move (s : Sys) (i : Nat) : (s.step (.rLabel i)).1 = s := rfl

/-- Lifted over histories: any interleaving of stream and positional calls computes the same
states and the same results as the history in which every stream call is replaced by its
positional twin at the then-current cursor plus the cursor law. -/
def runTwin (s : Sys) : List Op → Sys × List (Res Out)
  | [] => (s, [])
  | op :: ops =>
    let (s', r) := stepTwin s op
    let (s'', rs) := runTwin s' ops
    (s'', r :: rs)

theorem history_stream_eq_positional (s : Sys) (ops : List Op) : s.run ops = runTwin s ops := by
  induction ops generalizing s with
  | nil => rfl
  | cons op ops ih => simp only [Sys.run, runTwin, stream_eq_positional, ih]

/-! ### non-vacuity -/

/-- A 4-byte big-endian archive: `write_i16(1, -2)` succeeds, stores `FF FE` at 1..2 and reads back. -/
example : ((BinArchive.new .big).allocateAtEnd 4).size = 4 ∧ InRange 4 1 2 ∧ InDomain .i16 (-2)
    ∧ layout .big 2 (ofSigned 16 (-2)) = [0xFF, 0xFE] ∧ layout .little 2 (ofSigned 16 (-2)) = [0xFE, 0xFF] := by
  refine ⟨rfl, by decide, by simp [InDomain, Ty.signed, Ty.width], by decide, by decide⟩

example : (((BinArchive.new .big).allocateAtEnd 4).writeTy .i16 1 (-2)).isOk = true :=
  (write_ok_iff _ _ _ _).mpr (by decide)

example : ¬ InRange 8 4 (2 ^ 64 - 3) ∧ ¬ InRange 8 (2 ^ 64 - 1) 1 := by decide

end Mila.Props.C04
