/-
C03 — Allocate / deallocate / truncate relocate every annotation consistently.

Model: `Model/BinArchive.lean` (`allocate`, `deallocate`, `truncate`, `allocateAtEnd`, the
`adjust_*` / `filter_*` helpers incl. the `HashMap → map → collect` shape), `Model/BinStreams.lean`
(`Writer.allocate`), op machine `Model/BinOps.lean`.  Spec: `Spec/Reloc.lean`.

The theorems are stated on the *entry lists* of the four maps (the multiset of entries, in
iteration order): the model's result is literally the specification's image of the entry list.
That is only true because keys stay distinct (`KeysNodup`): `UMap.collect` would silently merge
colliding keys, so each theorem also proves that the keys of the result are distinct again.
-/
import MilaModel.Lemmas.BinInv

namespace Mila.Props.C03
open Mila BinArchive Spec.Reloc UMap

/-- The content the statement talks about: data and the entry lists of the four maps. -/
def content (a : BinArchive) : Content := ⟨a.data, a.text, a.pointers, a.labels, a.cstrings⟩

/-! ### allocate -/

theorem allocate_eq (a : BinArchive) (addr n : Nat) (ge : Bool) :
    a.allocate addr n ge =
      if addr ≤ a.size then
        if addr % 4 = 0 ∧ n % 4 = 0 then
          .ok { a with
            data := a.data.take addr ++ List.replicate n 0 ++ a.data.drop addr
            text := adjustText a.text addr n false
            labels := adjustLabels a.labels addr n false ge
            pointers := adjustPointers a.pointers addr n false ge
            cstrings := adjustCStrings a.cstrings addr n false }
        else .err .Unaligned
      else .err .OutOfBounds := by
  unfold allocate
  rw [validateAddress_true]
  unfold validateAlignment
  by_cases h1 : addr ≤ a.size <;> by_cases h2 : addr % 4 = 0 <;> by_cases h3 : n % 4 = 0 <;> simp [h1, h2, h3]

/-- `allocate_spec`: an in-range, aligned insert request is accepted and the result is the
specification's image: data spliced with `n` zero bytes, strings / pointer cells / pending
c-string uses shifted by `shiftAt`, labels and pointer targets by `shiftAfter … ge`; every entry
of every map is the image of exactly one entry before (nothing lost, nothing invented), and keys
are distinct again. -/
theorem allocate_spec (a : BinArchive) (addr n : Nat) (ge : Bool) (h : KeysNodup a)
    (hacc : allocAccepted a.size addr n) :
    ∃ a', a.allocate addr n ge = .ok a' ∧ content a' = allocated addr n ge (content a)
      ∧ a'.endian = a.endian ∧ KeysNodup a' := by
  obtain ⟨ht, hp, hl, hc⟩ := h
  rw [allocate_eq, if_pos hacc.1, if_pos hacc.2]
  refine ⟨_, rfl, ?_, rfl, ?_⟩
  · simp only [content, allocated, adjustText_add _ _ _ ht, adjustLabels_add _ _ _ _ hl,
      adjustPointers_add _ _ _ _ hp, adjustCStrings_eq _ _ _ _ hc, adjustPointer_add]
  · simp only [KeysNodup, adjustText_add _ _ _ ht, adjustLabels_add _ _ _ _ hl,
      adjustPointers_add _ _ _ _ hp, adjustCStrings_eq _ _ _ _ hc]
    refine ⟨?_, ?_, ?_, ?_⟩
    · rw [keys_mapKey]; exact nodup_map_of_inj_on _ _ (fun x _ y _ => shiftAt_inj addr n x y) ht
    · have : keys (a.pointers.map (fun p => (shiftAt addr n p.1, shiftAfter addr n ge p.2)))
          = (keys a.pointers).map (shiftAt addr n) := by
        simp [keys, List.map_map, Function.comp_def]
      rw [this]; exact nodup_map_of_inj_on _ _ (fun x _ y _ => shiftAt_inj addr n x y) hp
    · rw [keys_mapKey]; exact nodup_map_of_inj_on _ _ (fun x _ y _ => shiftAfter_inj addr n ge x y) hl
    · rw [keys_mapVal]; exact hc

/-- A misaligned or out-of-range insert request is rejected (out-of-range is reported first). -/
theorem allocate_rejected (a : BinArchive) (addr n : Nat) (ge : Bool)
    (hrej : ¬ allocAccepted a.size addr n) :
    a.allocate addr n ge = .err (if addr ≤ a.size then .Unaligned else .OutOfBounds) := by
  rw [allocate_eq]
  unfold allocAccepted at hrej
  by_cases h1 : addr ≤ a.size
  · have : ¬ (addr % 4 = 0 ∧ n % 4 = 0) := fun h2 => hrej ⟨h1, h2⟩
    simp [h1, this]
  · simp [h1]

/-- Appending (`allocate_at_end`) is always accepted and moves nothing. -/
theorem allocate_at_end_spec (a : BinArchive) (n : Nat) :
    content (a.allocateAtEnd n) = appended n (content a) ∧ (a.allocateAtEnd n).endian = a.endian
      ∧ (KeysNodup a → KeysNodup (a.allocateAtEnd n)) :=
  ⟨rfl, rfl, fun h => h⟩

/-- The writer's `allocate` at the end of the archive is an append: accepted for every amount,
aligned or not. -/
theorem writer_allocate_at_end (w : Writer) (n : Nat) (ge : Bool) (h : w.pos = w.archive.size) :
    w.allocate n ge = .ok { w with archive := w.archive.allocateAtEnd n } := by
  unfold Writer.allocate; rw [if_pos h]

/-- …and before the end it is `BinArchive::allocate` at the cursor, which does not move. -/
theorem writer_allocate_inside (w : Writer) (n : Nat) (ge : Bool) (h : w.pos ≠ w.archive.size) :
    w.allocate n ge = (w.archive.allocate w.pos n ge).map (fun a => { w with archive := a }) := by
  unfold Writer.allocate; rw [if_neg h]
  cases w.archive.allocate w.pos n ge <;> rfl

/-- The same statement address by address (what `read_string` / `read_labels` / `read_pointer`
return): the string of cell `x` is found at `shiftAt addr n x` and the `n` inserted bytes carry no
string; labels move by `shiftAfter … ge`; a pointer cell moves by `shiftAt`, its target by
`shiftAfter … ge`.  A key collision in `collect` would make these false. -/
theorem allocate_lookup (a a' : BinArchive) (addr n : Nat) (ge : Bool) (h : KeysNodup a)
    (hok : a.allocate addr n ge = .ok a') :
    (∀ x, lookup a'.text (shiftAt addr n x) = lookup a.text x)
    ∧ (∀ y, inside addr n y = true → lookup a'.text y = none ∧ lookup a'.pointers y = none)
    ∧ (∀ x, lookup a'.labels (shiftAfter addr n ge x) = lookup a.labels x)
    ∧ (∀ x, lookup a'.pointers (shiftAt addr n x) = (lookup a.pointers x).map (shiftAfter addr n ge)) := by
  by_cases hacc : allocAccepted a.size addr n
  · obtain ⟨a'', h1, hc, _, _⟩ := allocate_spec a addr n ge h hacc
    rw [h1] at hok
    injection hok with hok
    subst hok
    have ht : a''.text = a.text.map (fun p => (shiftAt addr n p.1, p.2)) := congrArg Content.text hc
    have hl : a''.labels = a.labels.map (fun p => (shiftAfter addr n ge p.1, p.2)) := congrArg Content.labels hc
    have hp : a''.pointers = a.pointers.map (fun p => (shiftAt addr n p.1, shiftAfter addr n ge p.2)) :=
      congrArg Content.ptrs hc
    have hzone : ∀ y, inside addr n y = true → ∀ x, shiftAt addr n x ≠ y := by
      intro y hy x
      simp [inside] at hy
      unfold shiftAt; split <;> omega
    refine ⟨?_, ?_, ?_, ?_⟩
    · intro x
      rw [ht]
      simpa using lookup_mapKey_inj a.text (shiftAt addr n) id (shiftAt_inj addr n) x
    · intro y hy
      rw [ht, hp]
      exact ⟨by simpa using lookup_mapKey_none a.text (shiftAt addr n) id y (hzone y hy),
        lookup_mapKey_none a.pointers (shiftAt addr n) (shiftAfter addr n ge) y (hzone y hy)⟩
    · intro x
      rw [hl]
      simpa using lookup_mapKey_inj a.labels (shiftAfter addr n ge) id (shiftAfter_inj addr n ge) x
    · intro x
      rw [hp]
      exact lookup_mapKey_inj a.pointers (shiftAt addr n) (shiftAfter addr n ge) (shiftAt_inj addr n) x
  · rw [allocate_rejected a addr n ge hacc] at hok
    cases hok

/-! ### deallocate -/

/-- What `deallocate` builds once the request is accepted (`bin_archive.rs:670-684`). -/
def deallocResult (a : BinArchive) (addr n : Nat) (ge : Bool) : BinArchive :=
  { a with
    data := a.data.take addr ++ a.data.drop (addr + n)
    text := adjustText (filterTextOrLabels a.text addr n) addr n true
    labels := adjustLabels (filterTextOrLabels a.labels addr n) addr n true ge
    pointers := adjustPointers (filterPointers a.pointers addr n) addr n true ge
    cstrings := adjustCStrings
      (filterCStrings a.cstrings (fun x => !inRange addr n x)) addr n true }

theorem deallocate_eq (a : BinArchive) (addr n : Nat) (ge : Bool) (hs : a.size < 2 ^ 64) :
    a.deallocate addr n ge =
      if addr < a.size ∧ addr + n ≤ a.size then
        if addr % 4 = 0 ∧ n % 4 = 0 then .ok (deallocResult a addr n ge)
        else .err .Unaligned
      else .err .OutOfBounds := by
  unfold deallocate deallocResult
  rw [validateRange_eq _ _ _ hs]
  unfold validateAlignment Spec.Cell.InRange
  by_cases h1 : addr < a.size ∧ addr + n ≤ a.size <;> by_cases h2 : addr % 4 = 0 <;>
    by_cases h3 : n % 4 = 0 <;> simp [h1, h2, h3]

private theorem deallocResult_spec (a : BinArchive) (addr n : Nat) (ge : Bool) (h : KeysNodup a) :
    content (deallocResult a addr n ge) = deallocated addr n (content a)
      ∧ KeysNodup (deallocResult a addr n ge) := by
  obtain ⟨ht, hp, hl, hc⟩ := h
  constructor
  · simp only [deallocResult, content, deallocated, dealloc_text _ _ _ ht, dealloc_labels _ _ _ _ hl,
      dealloc_pointers _ _ _ _ hp, dealloc_cstrings _ _ _ hc]
  · simp only [deallocResult, KeysNodup, dealloc_text _ _ _ ht, dealloc_labels _ _ _ _ hl,
      dealloc_pointers _ _ _ _ hp, dealloc_cstrings _ _ _ hc]
    refine ⟨?_, ?_, ?_, ?_⟩
    · exact nodup_keys_pull _ addr n (not_inside_of_mem_filter _ addr n) (keys_filter_nodup _ _ ht)
    · have hin : ∀ p ∈ a.pointers.filter (fun p => !inside addr n p.1 && !inside addr n p.2),
          inside addr n p.1 = false := by
        intro p hp'
        have := (List.mem_filter.mp hp').2
        simp at this; exact this.1
      have hk : keys ((a.pointers.filter (fun p => !inside addr n p.1 && !inside addr n p.2)).map
          (fun p => (pull addr n p.1, pull addr n p.2)))
          = keys ((a.pointers.filter (fun p => !inside addr n p.1 && !inside addr n p.2)).map
          (fun p => (pull addr n p.1, p.2))) := by
        simp [keys, List.map_map, Function.comp_def]
      rw [hk]
      exact nodup_keys_pull _ addr n hin (keys_filter_nodup _ _ hp)
    · exact nodup_keys_pull _ addr n (not_inside_of_mem_filter _ addr n) (keys_filter_nodup _ _ hl)
    · rw [keys_mapVal]; exact keys_cstr_filter_nodup _ _ hc

/-- `deallocate_spec`: an in-range, aligned remove request is accepted and the result is the
specification's image: exactly the bytes `[addr, addr+n)` go, the annotations located in the range
go, the pointers whose cell **or target** lies in it go, c-string uses in it go (and c-strings
without a use left), everything else is shifted back — whatever the `ge` flag. -/
theorem deallocate_spec (a : BinArchive) (addr n : Nat) (ge : Bool) (h : KeysNodup a)
    (hs : a.size < 2 ^ 64) (hacc : deallocAccepted a.size addr n) :
    ∃ a', a.deallocate addr n ge = .ok a' ∧ content a' = deallocated addr n (content a)
      ∧ a'.endian = a.endian ∧ KeysNodup a' := by
  rw [deallocate_eq _ _ _ _ hs, if_pos ⟨hacc.1, hacc.2.1⟩, if_pos hacc.2.2]
  exact ⟨_, rfl, (deallocResult_spec a addr n ge h).1, rfl, (deallocResult_spec a addr n ge h).2⟩

/-- Whenever `deallocate` succeeds (no hypothesis on the size), the request was in range and the
result is the specification's image. -/
theorem deallocate_ok (a a' : BinArchive) (addr n : Nat) (ge : Bool) (h : KeysNodup a)
    (hok : a.deallocate addr n ge = .ok a') :
    deallocAccepted a.size addr n ∧ content a' = deallocated addr n (content a) ∧ KeysNodup a' := by
  unfold deallocate at hok
  split at hok <;> try (cases hok; done)
  rename_i end_ hr
  have hrange : addr < a.size ∧ addr + n ≤ a.size := by
    unfold validateRange at hr
    rw [validateAddress_false, validateAddress_true] at hr
    by_cases h1 : addr < a.size <;> by_cases h2 : addr + n ≤ a.size <;> simp [h1, h2] at hr
    exact ⟨h1, h2⟩
  unfold validateAlignment at hok
  by_cases h2 : addr % 4 = 0 <;> by_cases h3 : n % 4 = 0 <;> simp [h2, h3] at hok
  subst hok
  exact ⟨⟨hrange.1, hrange.2, h2, h3⟩, deallocResult_spec a addr n ge h⟩

/-- A misaligned, out-of-range or overflowing remove request is rejected (range first). -/
theorem deallocate_rejected (a : BinArchive) (addr n : Nat) (ge : Bool) (hs : a.size < 2 ^ 64)
    (hrej : ¬ deallocAccepted a.size addr n) :
    a.deallocate addr n ge
      = .err (if addr < a.size ∧ addr + n ≤ a.size then .Unaligned else .OutOfBounds) := by
  rw [deallocate_eq _ _ _ _ hs]
  unfold deallocAccepted at hrej
  by_cases h1 : addr < a.size ∧ addr + n ≤ a.size
  · have : ¬ (addr % 4 = 0 ∧ n % 4 = 0) := fun h2 => hrej ⟨h1.1, h1.2, h2⟩
    simp [h1, this]
  · simp [h1]

/-! ### truncate -/

/-- `truncate_spec`: a cut at or beyond the end is the identity; otherwise the data is cut and
every string, pointer cell, label and pending c-string use located at or beyond the cut is removed
(c-strings without a use left too), everything below is untouched.  Pointer *targets* are not
filtered — the statement does not ask for it (DESIGN N3). -/
theorem truncate_spec (a : BinArchive) (cut : Nat) (h : KeysNodup a) :
    content (a.truncate cut) = truncated cut (content a) ∧ (a.truncate cut).endian = a.endian
      ∧ KeysNodup (a.truncate cut) := by
  obtain ⟨ht, hp, hl, hc⟩ := h
  unfold BinArchive.truncate truncated
  by_cases hcut : cut ≥ a.data.length
  · simp only [hcut, if_true, content]
    exact ⟨trivial, trivial, ht, hp, hl, hc⟩
  · simp only [hcut, if_false, content, filterCStrings_eq _ _ hc]
    refine ⟨trivial, trivial, keys_filter_nodup _ _ ht, keys_filter_nodup _ _ hp, keys_filter_nodup _ _ hl,
      keys_cstr_filter_nodup _ _ hc⟩

/-! ### rejected requests leave the archive unchanged -/

/-- `rejected_unchanged`: in the op machine (`&mut self` methods that return before mutating) a
rejected request — any call that returns an error — leaves archive and cursors exactly as they
were. -/
theorem rejected_unchanged (s : Sys) (op : Op) (e : Err) (hop : op ≠ .rSjis)
    (h : (s.step op).2 = .err e) : (s.step op).1 = s := Sys.step_err_unchanged s op e hop h

/-! ### history invariant -/

private theorem mem_keys_map {ν μ : Type} (m : UMap Nat ν) (f : Nat → Nat) (g : Nat × ν → μ) (k' : Nat)
    (h : k' ∈ keys (m.map (fun p => (f p.1, g p)))) : ∃ k ∈ keys m, k' = f k := by
  simp only [keys, List.map_map, List.mem_map, Function.comp_def] at *
  obtain ⟨p, hp, rfl⟩ := h
  exact ⟨p.1, ⟨p, hp, rfl⟩, rfl⟩

private theorem shiftAt_le (a n x : Nat) : shiftAt a n x ≤ x + n := by unfold shiftAt; split <;> omega
private theorem shiftAfter_le (a n : Nat) (ge : Bool) (x : Nat) : shiftAfter a n ge x ≤ x + n := by
  unfold shiftAfter; split <;> omega

private theorem inv_allocate (a a' : BinArchive) (addr n : Nat) (ge : Bool) (hi : Inv a)
    (hok : a.allocate addr n ge = .ok a') : Inv a' := by
  by_cases hacc : allocAccepted a.size addr n
  · obtain ⟨a'', h1, hc, _, hk⟩ := allocate_spec a addr n ge hi.1 hacc
    rw [h1] at hok; injection hok with hok; subst hok
    refine ⟨hk, ?_⟩
    have hd : a''.data = a.data.take addr ++ List.replicate n 0 ++ a.data.drop addr := congrArg Content.data hc
    have ht : a''.text = a.text.map (fun p => (shiftAt addr n p.1, p.2)) := congrArg Content.text hc
    have hl : a''.labels = a.labels.map (fun p => (shiftAfter addr n ge p.1, p.2)) := congrArg Content.labels hc
    have hp : a''.pointers = a.pointers.map (fun p => (shiftAt addr n p.1, shiftAfter addr n ge p.2)) :=
      congrArg Content.ptrs hc
    have hcs : a''.cstrings = a.cstrings.map (fun p => (p.1, p.2.map (shiftAt addr n))) := congrArg Content.cstrs hc
    have hsz : a''.size = a.size + n := by
      have := hacc.1
      simp only [BinArchive.size] at *
      rw [hd]; simp; omega
    obtain ⟨b1, b2, b3, b4⟩ := hi.2
    refine ⟨?_, ?_, ?_, ?_⟩
    · intro k hk'
      rw [ht] at hk'
      obtain ⟨k0, hk0, rfl⟩ := mem_keys_map a.text (shiftAt addr n) (fun p => p.2) k hk'
      have := b1 k0 hk0; have := shiftAt_le addr n k0; omega
    · intro k hk'
      rw [hp] at hk'
      obtain ⟨k0, hk0, rfl⟩ := mem_keys_map a.pointers (shiftAt addr n) (fun p => shiftAfter addr n ge p.2) k hk'
      have := b2 k0 hk0; have := shiftAt_le addr n k0; omega
    · intro k hk'
      rw [hl] at hk'
      obtain ⟨k0, hk0, rfl⟩ := mem_keys_map a.labels (shiftAfter addr n ge) (fun p => p.2) k hk'
      have := b3 k0 hk0; have := shiftAfter_le addr n ge k0; omega
    · intro p hp' x hx
      rw [hcs, List.mem_map] at hp'
      obtain ⟨q, hq, rfl⟩ := hp'
      simp only [List.mem_map] at hx
      obtain ⟨y, hy, rfl⟩ := hx
      have := b4 q hq y hy; have := shiftAt_le addr n y; omega
  · rw [allocate_rejected a addr n ge hacc] at hok; cases hok

private theorem pull_lt (a n x s : Nat) (hx : inside a n x = false) (hs : a + n ≤ s) (h : x < s) :
    pull a n x < s - n := by
  unfold pull; simp [inside] at hx; split <;> omega

private theorem pull_le (a n x s : Nat) (hx : inside a n x = false) (hs : a + n ≤ s) (h : x ≤ s) :
    pull a n x ≤ s - n := by
  unfold pull; simp [inside] at hx; split <;> omega

private theorem inv_deallocate (a a' : BinArchive) (addr n : Nat) (ge : Bool) (hi : Inv a)
    (hok : a.deallocate addr n ge = .ok a') : Inv a' := by
  obtain ⟨hacc, hc, hk⟩ := deallocate_ok a a' addr n ge hi.1 hok
  refine ⟨hk, ?_⟩
  have hd : a'.data = a.data.take addr ++ a.data.drop (addr + n) := congrArg Content.data hc
  have ht : a'.text = (a.text.filter (fun p => !inside addr n p.1)).map (fun p => (pull addr n p.1, p.2)) :=
    congrArg Content.text hc
  have hl : a'.labels = (a.labels.filter (fun p => !inside addr n p.1)).map (fun p => (pull addr n p.1, p.2)) :=
    congrArg Content.labels hc
  have hp : a'.pointers = (a.pointers.filter (fun p => !inside addr n p.1 && !inside addr n p.2)).map
      (fun p => (pull addr n p.1, pull addr n p.2)) := congrArg Content.ptrs hc
  have hcs : a'.cstrings = ((a.cstrings.map (fun p => (p.1, p.2.filter (fun x => !inside addr n x)))).filter
      (fun p => !p.2.isEmpty)).map (fun p => (p.1, p.2.map (pull addr n))) := congrArg Content.cstrs hc
  have hsz : a'.size = a.size - n := by
    have h1 := hacc.1; have h2 := hacc.2.1
    simp only [BinArchive.size] at *
    rw [hd]; simp; omega
  obtain ⟨b1, b2, b3, b4⟩ := hi.2
  have hle := hacc.2.1
  refine ⟨?_, ?_, ?_, ?_⟩
  · intro k hk'
    rw [ht] at hk'
    simp only [keys, List.map_map, List.mem_map, Function.comp_def] at hk'
    obtain ⟨p, hp', rfl⟩ := hk'
    rw [hsz]
    exact pull_lt addr n p.1 a.size (not_inside_of_mem_filter _ _ _ p hp') hle
      (b1 p.1 (by simp only [keys, List.mem_map]; exact ⟨p, (List.mem_filter.mp hp').1, rfl⟩))
  · intro k hk'
    rw [hp] at hk'
    simp only [keys, List.map_map, List.mem_map, Function.comp_def] at hk'
    obtain ⟨p, hp', rfl⟩ := hk'
    rw [hsz]
    have hin : inside addr n p.1 = false := by
      have := (List.mem_filter.mp hp').2
      simp at this; exact this.1
    exact pull_lt addr n p.1 a.size hin hle
      (b2 p.1 (by simp only [keys, List.mem_map]; exact ⟨p, (List.mem_filter.mp hp').1, rfl⟩))
  · intro k hk'
    rw [hl] at hk'
    simp only [keys, List.map_map, List.mem_map, Function.comp_def] at hk'
    obtain ⟨p, hp', rfl⟩ := hk'
    rw [hsz]
    exact pull_le addr n p.1 a.size (not_inside_of_mem_filter _ _ _ p hp') hle
      (b3 p.1 (by simp only [keys, List.mem_map]; exact ⟨p, (List.mem_filter.mp hp').1, rfl⟩))
  · intro p hp' x hx
    rw [hcs, List.mem_map] at hp'
    obtain ⟨q, hq, rfl⟩ := hp'
    have hq1 := (List.mem_filter.mp hq).1
    rw [List.mem_map] at hq1
    obtain ⟨r, hr, rfl⟩ := hq1
    simp only [List.mem_map] at hx
    obtain ⟨y, hy, rfl⟩ := hx
    have hy' := List.mem_filter.mp hy
    rw [hsz]
    exact pull_lt addr n y a.size (by simpa using hy'.2) hle (b4 r hr y hy'.1)

private theorem inv_truncate (a : BinArchive) (cut : Nat) (hi : Inv a) : Inv (a.truncate cut) := by
  obtain ⟨hc, _, hk⟩ := truncate_spec a cut hi.1
  refine ⟨hk, ?_⟩
  obtain ⟨b1, b2, b3, b4⟩ := hi.2
  unfold BinArchive.truncate
  by_cases hcut : cut ≥ a.data.length
  · simp only [hcut, if_true]; exact ⟨b1, b2, b3, b4⟩
  · simp only [hcut, if_false]
    have hsz : (a.data.take cut).length = cut := by simp; omega
    refine ⟨?_, ?_, ?_, ?_⟩
    · intro k hk'
      simp only [keys, List.mem_map, BinArchive.size] at hk' ⊢
      obtain ⟨p, hp', rfl⟩ := hk'
      rw [hsz]; simpa using (List.mem_filter.mp hp').2
    · intro k hk'
      simp only [keys, List.mem_map, BinArchive.size] at hk' ⊢
      obtain ⟨p, hp', rfl⟩ := hk'
      rw [hsz]; simpa using (List.mem_filter.mp hp').2
    · intro k hk'
      simp only [keys, List.mem_map, BinArchive.size] at hk' ⊢
      obtain ⟨p, hp', rfl⟩ := hk'
      rw [hsz]
      have : p.1 < cut := by simpa using (List.mem_filter.mp hp').2
      omega
    · intro p hp' x hx
      simp only [BinArchive.size]
      rw [hsz]
      rw [filterCStrings_eq _ _ hi.1.2.2.2] at hp'
      have hp1 := (List.mem_filter.mp hp').1
      rw [List.mem_map] at hp1
      obtain ⟨q, _, rfl⟩ := hp1
      simpa using (List.mem_filter.mp hx).2

private theorem inv_allocateAtEnd (a : BinArchive) (n : Nat) (hi : Inv a) : Inv (a.allocateAtEnd n) := by
  refine ⟨hi.1, ?_⟩
  obtain ⟨b1, b2, b3, b4⟩ := hi.2
  have hsz : (a.allocateAtEnd n).size = a.size + n := by simp [allocateAtEnd, BinArchive.size]
  refine ⟨?_, ?_, ?_, ?_⟩
  · intro k hk; rw [hsz]; have := b1 k hk; omega
  · intro k hk; rw [hsz]; have := b2 k hk; omega
  · intro k hk; rw [hsz]; have := b3 k hk; omega
  · intro p hp x hx; rw [hsz]; have := b4 p hp x hx; omega

private theorem inv_upd (s : Sys) (r : Res BinArchive) (h : ∀ a', r = .ok a' → Inv a') (hi : Inv s.arch) :
    Inv (s.upd r).1.arch := by
  cases r <;> simp_all [Sys.upd]

private theorem inv_wr (s : Sys) (r : Res Writer) (h : ∀ w, r = .ok w → Inv w.archive) (hi : Inv s.arch) :
    Inv (s.wr r).1.arch := by
  cases r <;> simp_all [Sys.wr]

private theorem inv_wr_step (s : Sys) (k : Nat) (call : BinArchive → Nat → Res BinArchive)
    (h : ∀ a', call s.arch s.wpos = .ok a' → Inv a') (hi : Inv s.arch) :
    Inv (s.wr (s.writer.step k call)).1.arch := by
  apply inv_wr _ _ _ hi
  intro w hw
  simp only [Writer.step, Sys.writer] at hw
  cases hc : call s.arch s.wpos <;> simp [hc] at hw
  subst hw
  exact h _ hc

/-- One call of the machine keeps the invariant (distinct keys in every map, every annotation
inside the data), whatever the call, its addresses, amounts and values. -/
theorem step_inv (s : Sys) (op : Op) (hi : Inv s.arch) : Inv (s.step op).1.arch := by
  cases op <;> simp only [Sys.step, Sys.qry]
  case allocEnd n => exact inv_allocateAtEnd _ n hi
  case wAllocEnd n => exact inv_allocateAtEnd _ n hi
  case truncate c => exact inv_truncate _ c hi
  case allocate x n ge => exact inv_upd _ _ (fun a' h => inv_allocate _ _ _ _ _ hi h) hi
  case deallocate x n ge => exact inv_upd _ _ (fun a' h => inv_deallocate _ _ _ _ _ hi h) hi
  case write t x v => exact inv_upd _ _ (fun a' h => inv_of_fields _ _ (writeTy_fields _ _ _ _ _ h) hi) hi
  case writeBytes x v => exact inv_upd _ _ (fun a' h => inv_of_fields _ _ (writeBytes_fields _ _ _ _ h) hi) hi
  case writeStr x v => exact inv_upd _ _ (fun a' h => inv_writeString _ _ _ _ h hi) hi
  case writePtr x v => exact inv_upd _ _ (fun a' h => inv_writePointer _ _ _ _ h hi) hi
  case writeCStr x v => exact inv_upd _ _ (fun a' h => inv_writeCString _ _ _ _ h hi) hi
  case writeLabel x v => exact inv_upd _ _ (fun a' h => inv_writeLabel _ _ _ _ h hi) hi
  case writeLabels x v => exact inv_upd _ _ (fun a' h => inv_writeLabels _ _ _ _ h hi) hi
  case delStr x => exact inv_upd _ _ (fun a' h => inv_deleteString _ _ _ h hi) hi
  case delPtr x => exact inv_upd _ _ (fun a' h => inv_deletePointer _ _ _ h hi) hi
  case delLabels x => exact inv_upd _ _ (fun a' h => inv_deleteLabels _ _ _ h hi) hi
  case delLabel x i => exact inv_upd _ _ (fun a' h => inv_deleteLabel _ _ _ _ h hi) hi
  case wWrite t v =>
    apply inv_wr _ _ _ hi
    intro w hw
    rw [Writer.writeTy_eq] at hw
    cases hc : s.writer.archive.writeTy t s.writer.pos v <;> simp [hc, Res.map] at hw
    subst hw
    exact inv_of_fields _ _ (writeTy_fields _ _ _ _ _ hc) hi
  case wBytes v =>
    simp only [Writer.writeBytes]
    split
    · exact hi
    · cases hc : s.writer.archive.writeBytes s.writer.pos v <;> simp only [] <;> try exact hi
      exact inv_of_fields _ _ (writeBytes_fields _ _ _ _ hc) hi
  case wStr v => exact inv_wr_step s 4 _ (fun a' h => inv_writeString _ _ _ _ h hi) hi
  case wPtr v => exact inv_wr_step s 4 _ (fun a' h => inv_writePointer _ _ _ _ h hi) hi
  case wCStr v => exact inv_wr_step s 4 _ (fun a' h => inv_writeCString _ _ _ _ h hi) hi
  case wLabel v => exact inv_wr_step s 0 _ (fun a' h => inv_writeLabel _ _ _ _ h hi) hi
  case wAlloc n ge =>
    apply inv_wr _ _ _ hi
    intro w hw
    simp only [Writer.allocate, Sys.writer] at hw
    by_cases hpos : s.wpos = s.arch.size
    · simp [hpos] at hw
      subst hw; exact inv_allocateAtEnd _ n hi
    · cases hc : s.arch.allocate s.wpos n ge <;> simp [hc, hpos] at hw
      subst hw
      exact inv_allocate _ _ _ _ _ hi hc
  all_goals first
    | exact hi
    | (rw [Sys.rd_arch]; exact hi)
    | (split <;> exact hi)
    | (simp only [Reader.readBytesFull]; split <;> exact hi)
    | (simp only [Reader.readSjisRawFull]; split <;> exact hi)

/-- `history`: after every sequence of allocate, allocate-at-end, deallocate, truncate, write and
delete calls (and every other call of the machine, positional or through the streams), with all
addresses, amounts and both `ge` flags, every map still has distinct keys — so no relocation ever
merged two annotations — and every annotation lies inside the data (labels at most at the end). -/
theorem history (e : Endian) (ops : List Op) : Inv ((Sys.init e).final ops).arch := by
  have gen : ∀ (ops : List Op) (s : Sys), Inv s.arch → Inv (s.final ops).arch := by
    intro ops
    induction ops with
    | nil => intro s hs; exact hs
    | cons op ops ih =>
      intro s hs
      have := ih (s.step op).1 (step_inv s op hs)
      simpa [Sys.final, Sys.run] using this
  exact gen ops _ (inv_new e)

/-- Hence every accepted relocation in any history is the specification's image with nothing
merged: the hypotheses of `allocate_spec` / `deallocate_spec` / `truncate_spec` hold in every
reachable state. -/
theorem history_keys (e : Endian) (ops : List Op) : KeysNodup ((Sys.init e).final ops).arch :=
  (history e ops).1

/-! ### aligned histories keep whole cells inside the data, pairwise disjoint -/

/-- Every annotation sits on a cell boundary and the data is a whole number of cells. -/
def Aligned (a : BinArchive) : Prop :=
  a.size % 4 = 0 ∧ (∀ k ∈ keys a.text, k % 4 = 0) ∧ (∀ k ∈ keys a.pointers, k % 4 = 0)
  ∧ (∀ k ∈ keys a.labels, k % 4 = 0) ∧ (∀ p ∈ a.cstrings, ∀ x ∈ p.2, x % 4 = 0)

/-- The calls of an *aligned* history: annotations are written at cell addresses, the data grows
and is cut by whole cells (relocation requests need no side condition: misaligned ones are
rejected).  Everything else — reads, typed and byte writes at any address, deletes, cursor
movements — is unrestricted. -/
def OpAligned (s : Sys) : Op → Prop
  | .allocEnd n | .wAllocEnd n => n % 4 = 0
  | .wAlloc n _ => n % 4 = 0
  | .truncate c => c % 4 = 0
  | .writeStr x (some _) | .writePtr x (some _) | .writeCStr x _ | .writeLabel x _ | .writeLabels x _ => x % 4 = 0
  | .wStr (some _) | .wPtr (some _) | .wCStr _ | .wLabel _ => s.wpos % 4 = 0
  | _ => True

private theorem aligned_of_fields (a a' : BinArchive)
    (h : a'.text = a.text ∧ a'.pointers = a.pointers ∧ a'.labels = a.labels ∧ a'.cstrings = a.cstrings
      ∧ a'.size = a.size) (hi : Aligned a) : Aligned a' := by
  obtain ⟨h1, h2, h3, h4, h5⟩ := h
  unfold Aligned at *
  rw [h1, h2, h3, h4, h5]
  exact hi

private theorem aligned_insert {ν : Type} (m : UMap Nat ν) (x : Nat) (v : ν) (hx : x % 4 = 0)
    (h : ∀ k ∈ keys m, k % 4 = 0) : ∀ k ∈ keys (UMap.insert m x v), k % 4 = 0 := by
  intro k hk
  rcases (mem_keys_insert _ _ _ _).mp hk with rfl | hk
  · exact hx
  · exact h k hk

private theorem aligned_filter {ν : Type} (m : UMap Nat ν) (f : Nat × ν → Bool)
    (h : ∀ k ∈ keys m, k % 4 = 0) : ∀ k ∈ keys (m.filter f), k % 4 = 0 :=
  fun k hk => h k (mem_keys_filter _ _ _ hk)

private theorem aligned_writeString (a a' : BinArchive) (x : Nat) (v : Option Str)
    (hx : v.isSome → x % 4 = 0) (h : a.writeString x v = .ok a') (hi : Aligned a) : Aligned a' := by
  unfold writeString deleteString at h
  obtain ⟨h0, h1, h2, h3, h4⟩ := hi
  split at h
  · split at h <;> try (cases h; done)
    injection h with h; subst h
    exact ⟨h0, aligned_insert _ _ _ (hx rfl) h1, h2, h3, h4⟩
  · split at h <;> try (cases h; done)
    injection h with h; subst h
    exact ⟨h0, aligned_filter _ _ h1, h2, h3, h4⟩

private theorem aligned_writePointer (a a' : BinArchive) (x : Nat) (v : Option Nat)
    (hx : v.isSome → x % 4 = 0) (h : a.writePointer x v = .ok a') (hi : Aligned a) : Aligned a' := by
  unfold writePointer deletePointer at h
  obtain ⟨h0, h1, h2, h3, h4⟩ := hi
  split at h
  · split at h <;> try (cases h; done)
    injection h with h; subst h
    exact ⟨h0, h1, aligned_insert _ _ _ (hx rfl) h2, h3, h4⟩
  · split at h <;> try (cases h; done)
    injection h with h; subst h
    exact ⟨h0, h1, aligned_filter _ _ h2, h3, h4⟩

private theorem aligned_writeCString (a a' : BinArchive) (x : Nat) (v : Str) (hx : x % 4 = 0)
    (h : a.writeCString x v = .ok a') (hi : Aligned a) : Aligned a' := by
  unfold writeCString at h
  obtain ⟨h0, h1, h2, h3, h4⟩ := hi
  split at h <;> try (cases h; done)
  injection h with h; subst h
  refine ⟨h0, h1, h2, h3, ?_⟩
  intro p hp y hy
  rcases mem_insert _ _ _ _ hp with rfl | hp
  · simp only [List.mem_append, List.mem_singleton] at hy
    rcases hy with hy | rfl
    · cases hg : UMap.get a.cstrings v with
      | none => simp [hg] at hy
      | some b =>
        simp [hg] at hy
        exact h4 _ (get_mem _ _ _ hg) y hy
    · exact hx
  · exact h4 p hp y hy

private theorem aligned_labels (a : BinArchive) (l : UMap Nat (List Str)) (hl : ∀ k ∈ keys l, k % 4 = 0)
    (hi : Aligned a) : Aligned { a with labels := l } :=
  ⟨hi.1, hi.2.1, hi.2.2.1, hl, hi.2.2.2.2⟩

private theorem aligned_writeLabel (a a' : BinArchive) (x : Nat) (v : Str) (hx : x % 4 = 0)
    (h : a.writeLabel x v = .ok a') (hi : Aligned a) : Aligned a' := by
  unfold writeLabel at h
  split at h <;> try (cases h; done)
  split at h <;>
    (injection h with h; subst h; exact aligned_labels a _ (aligned_insert _ _ _ hx hi.2.2.2.1) hi)

private theorem aligned_writeLabels (a a' : BinArchive) (x : Nat) (v : List Str) (hx : x % 4 = 0)
    (h : a.writeLabels x v = .ok a') (hi : Aligned a) : Aligned a' := by
  unfold writeLabels at h
  split at h <;> try (cases h; done)
  injection h with h; subst h
  exact aligned_labels a _ (aligned_insert _ _ _ hx hi.2.2.2.1) hi

private theorem aligned_deleteLabels (a a' : BinArchive) (x : Nat)
    (h : a.deleteLabels x = .ok a') (hi : Aligned a) : Aligned a' := by
  unfold deleteLabels at h
  split at h <;> try (cases h; done)
  injection h with h; subst h
  exact aligned_labels a _ (aligned_filter _ _ hi.2.2.2.1) hi

private theorem aligned_deleteLabel (a a' : BinArchive) (x i : Nat)
    (h : a.deleteLabel x i = .ok a') (hi : Aligned a) : Aligned a' := by
  unfold deleteLabel at h
  split at h <;> try (cases h; done)
  split at h
  · rename_i b hg
    split at h
    · injection h with h; subst h
      have hx : x % 4 = 0 := by
        apply hi.2.2.2.1
        have := get_mem _ _ _ hg
        simp only [keys, List.mem_map]
        exact ⟨_, this, rfl⟩
      exact aligned_labels a _ (aligned_insert _ _ _ hx hi.2.2.2.1) hi
    · cases h
  · injection h with h; subst h; exact hi

private theorem shiftAt_mod (a n x : Nat) (_ha : a % 4 = 0) (hn : n % 4 = 0) (hx : x % 4 = 0) :
    shiftAt a n x % 4 = 0 := by unfold shiftAt; split <;> omega
private theorem shiftAfter_mod (a n : Nat) (ge : Bool) (x : Nat) (hn : n % 4 = 0) (hx : x % 4 = 0) :
    shiftAfter a n ge x % 4 = 0 := by unfold shiftAfter; split <;> omega
private theorem pull_mod (a n x : Nat) (hn : n % 4 = 0) (hx : x % 4 = 0) : pull a n x % 4 = 0 := by
  unfold pull; split <;> omega

private theorem aligned_allocate (a a' : BinArchive) (addr n : Nat) (ge : Bool) (hk : KeysNodup a)
    (hi : Aligned a) (hok : a.allocate addr n ge = .ok a') : Aligned a' := by
  by_cases hacc : allocAccepted a.size addr n
  · obtain ⟨a'', h1, hc, _, _⟩ := allocate_spec a addr n ge hk hacc
    rw [h1] at hok; injection hok with hok; subst hok
    have hd : a''.data = a.data.take addr ++ List.replicate n 0 ++ a.data.drop addr := congrArg Content.data hc
    have ht : a''.text = a.text.map (fun p => (shiftAt addr n p.1, p.2)) := congrArg Content.text hc
    have hl : a''.labels = a.labels.map (fun p => (shiftAfter addr n ge p.1, p.2)) := congrArg Content.labels hc
    have hp : a''.pointers = a.pointers.map (fun p => (shiftAt addr n p.1, shiftAfter addr n ge p.2)) :=
      congrArg Content.ptrs hc
    have hcs : a''.cstrings = a.cstrings.map (fun p => (p.1, p.2.map (shiftAt addr n))) := congrArg Content.cstrs hc
    obtain ⟨h0, b1, b2, b3, b4⟩ := hi
    obtain ⟨hle, ha, hn⟩ := hacc
    refine ⟨?_, ?_, ?_, ?_, ?_⟩
    · simp only [BinArchive.size] at *
      rw [hd]; simp; omega
    · intro k hk'
      rw [ht] at hk'
      obtain ⟨k0, hk0, rfl⟩ := mem_keys_map a.text (shiftAt addr n) (fun p => p.2) k hk'
      exact shiftAt_mod _ _ _ ha hn (b1 k0 hk0)
    · intro k hk'
      rw [hp] at hk'
      obtain ⟨k0, hk0, rfl⟩ := mem_keys_map a.pointers (shiftAt addr n) (fun p => shiftAfter addr n ge p.2) k hk'
      exact shiftAt_mod _ _ _ ha hn (b2 k0 hk0)
    · intro k hk'
      rw [hl] at hk'
      obtain ⟨k0, hk0, rfl⟩ := mem_keys_map a.labels (shiftAfter addr n ge) (fun p => p.2) k hk'
      exact shiftAfter_mod _ _ _ _ hn (b3 k0 hk0)
    · intro p hp' x hx
      rw [hcs, List.mem_map] at hp'
      obtain ⟨q, hq, rfl⟩ := hp'
      simp only [List.mem_map] at hx
      obtain ⟨y, hy, rfl⟩ := hx
      exact shiftAt_mod _ _ _ ha hn (b4 q hq y hy)
  · rw [allocate_rejected a addr n ge hacc] at hok; cases hok

private theorem aligned_deallocate (a a' : BinArchive) (addr n : Nat) (ge : Bool) (hk : KeysNodup a)
    (hi : Aligned a) (hok : a.deallocate addr n ge = .ok a') : Aligned a' := by
  obtain ⟨hacc, hc, _⟩ := deallocate_ok a a' addr n ge hk hok
  have hd : a'.data = a.data.take addr ++ a.data.drop (addr + n) := congrArg Content.data hc
  have ht : a'.text = (a.text.filter (fun p => !inside addr n p.1)).map (fun p => (pull addr n p.1, p.2)) :=
    congrArg Content.text hc
  have hl : a'.labels = (a.labels.filter (fun p => !inside addr n p.1)).map (fun p => (pull addr n p.1, p.2)) :=
    congrArg Content.labels hc
  have hp : a'.pointers = (a.pointers.filter (fun p => !inside addr n p.1 && !inside addr n p.2)).map
      (fun p => (pull addr n p.1, pull addr n p.2)) := congrArg Content.ptrs hc
  have hcs : a'.cstrings = ((a.cstrings.map (fun p => (p.1, p.2.filter (fun x => !inside addr n x)))).filter
      (fun p => !p.2.isEmpty)).map (fun p => (p.1, p.2.map (pull addr n))) := congrArg Content.cstrs hc
  obtain ⟨h0, b1, b2, b3, b4⟩ := hi
  obtain ⟨hlt, hle, ha, hn⟩ := hacc
  refine ⟨?_, ?_, ?_, ?_, ?_⟩
  · simp only [BinArchive.size] at *
    rw [hd]; simp; omega
  · intro k hk'
    rw [ht] at hk'
    simp only [keys, List.map_map, List.mem_map, Function.comp_def] at hk'
    obtain ⟨p, hp', rfl⟩ := hk'
    exact pull_mod _ _ _ hn (b1 p.1 (by simp only [keys, List.mem_map]; exact ⟨p, (List.mem_filter.mp hp').1, rfl⟩))
  · intro k hk'
    rw [hp] at hk'
    simp only [keys, List.map_map, List.mem_map, Function.comp_def] at hk'
    obtain ⟨p, hp', rfl⟩ := hk'
    exact pull_mod _ _ _ hn (b2 p.1 (by simp only [keys, List.mem_map]; exact ⟨p, (List.mem_filter.mp hp').1, rfl⟩))
  · intro k hk'
    rw [hl] at hk'
    simp only [keys, List.map_map, List.mem_map, Function.comp_def] at hk'
    obtain ⟨p, hp', rfl⟩ := hk'
    exact pull_mod _ _ _ hn (b3 p.1 (by simp only [keys, List.mem_map]; exact ⟨p, (List.mem_filter.mp hp').1, rfl⟩))
  · intro p hp' x hx
    rw [hcs, List.mem_map] at hp'
    obtain ⟨q, hq, rfl⟩ := hp'
    have hq1 := (List.mem_filter.mp hq).1
    rw [List.mem_map] at hq1
    obtain ⟨r, hr, rfl⟩ := hq1
    simp only [List.mem_map] at hx
    obtain ⟨y, hy, rfl⟩ := hx
    exact pull_mod _ _ _ hn (b4 r hr y (List.mem_filter.mp hy).1)

private theorem aligned_truncate (a : BinArchive) (cut : Nat) (hcut4 : cut % 4 = 0) (hk : KeysNodup a)
    (hi : Aligned a) : Aligned (a.truncate cut) := by
  obtain ⟨h0, b1, b2, b3, b4⟩ := hi
  unfold BinArchive.truncate
  by_cases hcut : cut ≥ a.data.length
  · simp only [hcut, if_true]; exact ⟨h0, b1, b2, b3, b4⟩
  · simp only [hcut, if_false]
    refine ⟨?_, aligned_filter _ _ b1, aligned_filter _ _ b2, aligned_filter _ _ b3, ?_⟩
    · simp only [BinArchive.size]; simp; omega
    · intro p hp' x hx
      rw [filterCStrings_eq _ _ hk.2.2.2] at hp'
      have hp1 := (List.mem_filter.mp hp').1
      rw [List.mem_map] at hp1
      obtain ⟨q, hq, rfl⟩ := hp1
      exact b4 q hq x (List.mem_filter.mp hx).1

private theorem aligned_allocateAtEnd (a : BinArchive) (n : Nat) (hn : n % 4 = 0) (hi : Aligned a) :
    Aligned (a.allocateAtEnd n) := by
  obtain ⟨h0, b1, b2, b3, b4⟩ := hi
  refine ⟨?_, b1, b2, b3, b4⟩
  simp only [allocateAtEnd, BinArchive.size] at *
  simp; omega

private theorem aligned_upd (s : Sys) (r : Res BinArchive) (h : ∀ a', r = .ok a' → Aligned a')
    (hi : Aligned s.arch) : Aligned (s.upd r).1.arch := by
  cases r <;> simp_all [Sys.upd]

private theorem aligned_wr (s : Sys) (r : Res Writer) (h : ∀ w, r = .ok w → Aligned w.archive)
    (hi : Aligned s.arch) : Aligned (s.wr r).1.arch := by
  cases r <;> simp_all [Sys.wr]

private theorem aligned_wr_step (s : Sys) (k : Nat) (call : BinArchive → Nat → Res BinArchive)
    (h : ∀ a', call s.arch s.wpos = .ok a' → Aligned a') (hi : Aligned s.arch) :
    Aligned (s.wr (s.writer.step k call)).1.arch := by
  apply aligned_wr _ _ _ hi
  intro w hw
  simp only [Writer.step, Sys.writer] at hw
  cases hc : call s.arch s.wpos <;> simp [hc] at hw
  subst hw
  exact h _ hc

/-- One aligned call keeps every annotation on a cell boundary and the data a whole number of cells. -/
theorem step_aligned (s : Sys) (op : Op) (hk : KeysNodup s.arch) (hi : Aligned s.arch)
    (hop : OpAligned s op) : Aligned (s.step op).1.arch := by
  cases op <;> simp only [Sys.step, Sys.qry]
  case allocEnd n => exact aligned_allocateAtEnd _ n hop hi
  case wAllocEnd n => exact aligned_allocateAtEnd _ n hop hi
  case truncate c => exact aligned_truncate _ c hop hk hi
  case allocate x n ge => exact aligned_upd _ _ (fun a' h => aligned_allocate _ _ _ _ _ hk hi h) hi
  case deallocate x n ge => exact aligned_upd _ _ (fun a' h => aligned_deallocate _ _ _ _ _ hk hi h) hi
  case write t x v => exact aligned_upd _ _ (fun a' h => aligned_of_fields _ _ (writeTy_fields _ _ _ _ _ h) hi) hi
  case writeBytes x v => exact aligned_upd _ _ (fun a' h => aligned_of_fields _ _ (writeBytes_fields _ _ _ _ h) hi) hi
  case writeStr x v =>
    refine aligned_upd _ _ (fun a' h => aligned_writeString _ _ _ _ ?_ h hi) hi
    intro hv; cases v <;> simp_all [OpAligned]
  case writePtr x v =>
    refine aligned_upd _ _ (fun a' h => aligned_writePointer _ _ _ _ ?_ h hi) hi
    intro hv; cases v <;> simp_all [OpAligned]
  case writeCStr x v => exact aligned_upd _ _ (fun a' h => aligned_writeCString _ _ _ _ hop h hi) hi
  case writeLabel x v => exact aligned_upd _ _ (fun a' h => aligned_writeLabel _ _ _ _ hop h hi) hi
  case writeLabels x v => exact aligned_upd _ _ (fun a' h => aligned_writeLabels _ _ _ _ hop h hi) hi
  case delStr x =>
    exact aligned_upd _ _ (fun a' h => aligned_writeString _ _ x none (by simp) (by simpa [writeString] using h) hi) hi
  case delPtr x =>
    exact aligned_upd _ _ (fun a' h => aligned_writePointer _ _ x none (by simp) (by simpa [writePointer] using h) hi) hi
  case delLabels x => exact aligned_upd _ _ (fun a' h => aligned_deleteLabels _ _ _ h hi) hi
  case delLabel x i => exact aligned_upd _ _ (fun a' h => aligned_deleteLabel _ _ _ _ h hi) hi
  case wWrite t v =>
    apply aligned_wr _ _ _ hi
    intro w hw
    rw [Writer.writeTy_eq] at hw
    cases hc : s.writer.archive.writeTy t s.writer.pos v <;> simp [hc, Res.map] at hw
    subst hw
    exact aligned_of_fields _ _ (writeTy_fields _ _ _ _ _ hc) hi
  case wBytes v =>
    simp only [Writer.writeBytes]
    split
    · exact hi
    · cases hc : s.writer.archive.writeBytes s.writer.pos v <;> simp only [] <;> try exact hi
      exact aligned_of_fields _ _ (writeBytes_fields _ _ _ _ hc) hi
  case wStr v =>
    refine aligned_wr_step s 4 _ (fun a' h => aligned_writeString _ _ _ _ ?_ h hi) hi
    intro hv; cases v <;> simp_all [OpAligned]
  case wPtr v =>
    refine aligned_wr_step s 4 _ (fun a' h => aligned_writePointer _ _ _ _ ?_ h hi) hi
    intro hv; cases v <;> simp_all [OpAligned]
  case wCStr v => exact aligned_wr_step s 4 _ (fun a' h => aligned_writeCString _ _ _ _ hop h hi) hi
  case wLabel v => exact aligned_wr_step s 0 _ (fun a' h => aligned_writeLabel _ _ _ _ hop h hi) hi
  case wAlloc n ge =>
    apply aligned_wr _ _ _ hi
    intro w hw
    simp only [Writer.allocate, Sys.writer] at hw
    by_cases hpos : s.wpos = s.arch.size
    · simp [hpos] at hw
      subst hw; exact aligned_allocateAtEnd _ n hop hi
    · cases hc : s.arch.allocate s.wpos n ge <;> simp [hc, hpos] at hw
      subst hw
      exact aligned_allocate _ _ _ _ _ hk hi hc
  all_goals first
    | exact hi
    | (rw [Sys.rd_arch]; exact hi)
    | (split <;> exact hi)
    | (simp only [Reader.readBytesFull]; split <;> exact hi)
    | (simp only [Reader.readSjisRawFull]; split <;> exact hi)

/-- A history all of whose calls are aligned in the state they are issued in. -/
def RunAligned : Sys → List Op → Prop
  | _, [] => True
  | s, op :: ops => OpAligned s op ∧ RunAligned (s.step op).1 ops

/-- `history` for aligned histories (the way the library itself uses archives): in every reachable
state each string cell, pointer cell and pending c-string use is a whole 4-byte cell inside the
data on a cell boundary, labels sit on cell boundaries up to the end address, and two different
cells of one map never overlap — the cell part of C01's well-formedness, so the state serialises
with every annotated cell inside the data.  (Pointer *targets* are not constrained: truncate does
not filter them, DESIGN N3.) -/
theorem history_aligned (e : Endian) (ops : List Op) (hr : RunAligned (Sys.init e) ops) :
    let a := ((Sys.init e).final ops).arch
    (∀ k ∈ keys a.text, k % 4 = 0 ∧ k + 4 ≤ a.size)
    ∧ (∀ k ∈ keys a.pointers, k % 4 = 0 ∧ k + 4 ≤ a.size)
    ∧ (∀ p ∈ a.cstrings, ∀ x ∈ p.2, x % 4 = 0 ∧ x + 4 ≤ a.size)
    ∧ (∀ k ∈ keys a.labels, k % 4 = 0 ∧ k ≤ a.size)
    ∧ (∀ k ∈ keys a.text, ∀ k' ∈ keys a.text, k ≠ k' → k + 4 ≤ k' ∨ k' + 4 ≤ k)
    ∧ (∀ k ∈ keys a.pointers, ∀ k' ∈ keys a.pointers, k ≠ k' → k + 4 ≤ k' ∨ k' + 4 ≤ k) := by
  have gen : ∀ (ops : List Op) (s : Sys), Inv s.arch → Aligned s.arch → RunAligned s ops →
      Inv (s.final ops).arch ∧ Aligned (s.final ops).arch := by
    intro ops
    induction ops with
    | nil => intro s h1 h2 _; exact ⟨h1, h2⟩
    | cons op ops ih =>
      intro s h1 h2 h3
      have := ih (s.step op).1 (step_inv s op h1) (step_aligned s op h1.1 h2 h3.1) h3.2
      simpa [Sys.final, Sys.run] using this
  have h0 : Aligned (Sys.init e).arch := by
    simp [Aligned, Sys.init, BinArchive.new, BinArchive.size, keys]
  obtain ⟨⟨_, b1, b2, b3, b4⟩, ⟨a0, a1, a2, a3, a4⟩⟩ := gen ops _ (inv_new e) h0 hr
  refine ⟨?_, ?_, ?_, ?_, ?_, ?_⟩
  · intro k hk; have := b1 k hk; have := a1 k hk; omega
  · intro k hk; have := b2 k hk; have := a2 k hk; omega
  · intro p hp x hx; have := b4 p hp x hx; have := a4 p hp x hx; omega
  · intro k hk; exact ⟨a3 k hk, b3 k hk⟩
  · intro k hk k' hk' hne; have := a1 k hk; have := a1 k' hk'; omega
  · intro k hk k' hk' hne; have := a2 k hk; have := a2 k' hk'; omega

/-! ### non-vacuity -/

/-- A 3-cell archive with a string at 4, a pointer 8 → 4 and a label at 4 has distinct keys; the
relocation images are the expected ones. -/
example :
    let a : BinArchive := ⟨List.replicate 12 0, [(4, bs ['s'])], [(8, 4)], [(4, [bs ['L']])], [(bs ['c'], [0])], .little⟩
    KeysNodup a ∧ allocAccepted a.size 4 8 ∧ deallocAccepted a.size 0 4
    ∧ (allocated 4 8 false (content a)).text = [(12, bs ['s'])]
    ∧ (allocated 4 8 false (content a)).labels = [(4, [bs ['L']])]
    ∧ (allocated 4 8 true (content a)).labels = [(12, [bs ['L']])]
    ∧ (allocated 4 8 true (content a)).ptrs = [(16, 12)]
    ∧ (deallocated 4 4 (content a)).ptrs = []
    ∧ (deallocated 0 4 (content a)).ptrs = [(4, 0)]
    ∧ (deallocated 0 4 (content a)).cstrs = [] := by
  refine ⟨by simp [KeysNodup, keys], by decide, by decide, by decide, by decide, by decide, by decide,
    by decide, by decide, by decide⟩

end Mila.Props.C03
