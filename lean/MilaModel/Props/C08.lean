/-
C08 — LZ10 compression emits a valid stream that expands to the input.

Model: `Mila.Lz.compress10` (src/lz10.rs:16-63) with `occurrence` (src/lz13.rs:7-38);
library decoder model `decompress10`.  Specification: `Mila.Spec.Lz` (`Encodes false`, `Valid false`,
`expand`).  Lemmas: `LzSearch` (search soundness), `LzSteps` (greedy token sequence ⇒ valid and
expands to the input), `LzCompress`/`LzCompress10` (loop invariant: bytes = flag groups of those
tokens), `LzDecode` (decoder simulation).
-/
import MilaModel.Model.Lz
import MilaModel.Spec.LzStream
import MilaModel.Lemmas.LzCompress10
import MilaModel.Lemmas.LzDecode
import MilaModel.Props.C11

namespace Mila.Props.C08
open Mila Mila.Lz Mila.Spec.Lz

private theorem lenOk10 : ∀ len, 3 ≤ len → len ≤ 0x12 → lenOk false len := by
  intro len h1 h2; simp [lenOk]; omega

/-- For every input shorter than 16 MiB, LZ10 compression succeeds and returns a well-formed
stream — type byte 0x10, 24-bit length = input length, flag groups of eight tokens, every
back-reference of length 3–18 and displacement 1–4096 inside the data already produced, nothing
left over — whose expansion by the independent reference expander is exactly the input. -/
theorem lz10_correct (x : BA) (_hx : x.size < 2 ^ 24) :
    ∃ out toks, compress10 x = .ok out ∧ Encodes false x.size toks out.toList ∧
      Valid false toks ∧ expand toks = x := by
  obtain ⟨out, toks, body, h1, h2, h3, h4⟩ := compress10_post x
  obtain ⟨v, ag, sz, _⟩ := stepsTo_sound x 0x12 false lenOk10 toks x.size h4
  exact ⟨out, toks, h1, ⟨body, h2, h3⟩, v, agree_eq ag sz⟩

/-- The output is a conforming stream in the sense of C11 … -/
theorem lz10_conforms (x : BA) (hx : x.size < 2 ^ 24) :
    ∃ out toks, compress10 x = .ok out ∧ Conforms false toks out.toList ∧ expand toks = x := by
  obtain ⟨out, toks, h1, h2, h3, h4⟩ := lz10_correct x hx
  refine ⟨out, toks, h1, ⟨h3, by rw [h4]; exact h2, by rw [h4]; simpa using hx⟩, h4⟩

/-- … so the library's own decompressor (LZ10 and LZ13 entry points) gives back the input. -/
theorem lz10_roundtrip (x : BA) (hx : x.size < 2 ^ 24) :
    ∃ out, compress10 x = .ok out ∧ decompress10 out.toList = .ok x ∧
      Format.decompress .lz10 out.toList = .ok x := by
  obtain ⟨out, toks, h1, h2, h3⟩ := lz10_conforms x hx
  have hd := decompressLz_encodes false _ toks out.toList h2.2.1 h2.1 (by simp [expand]) h2.2.2
  rw [h3] at hd
  exact ⟨out, h1, by simp [decompress10, hd], by simp [Format.decompress, decompress10, hd]⟩

/-- Compression never fails or panics, whatever the input length (the header then carries the
length modulo 2^24). -/
theorem lz10_total (x : BA) : ∃ out, compress10 x = .ok out := by
  obtain ⟨out, _, _, h1, _⟩ := compress10_post x
  exact ⟨out, h1⟩

/-- Consequently LZ10 compression is injective below 16 MiB: two different inputs never share a
compressed image (nothing is lost that decompression would need). -/
theorem lz10_injective (x y : BA) (hx : x.size < 2 ^ 24) (hy : y.size < 2 ^ 24)
    (h : compress10 x = compress10 y) : x = y := by
  obtain ⟨ox, hx1, hx2, _⟩ := lz10_roundtrip x hx
  obtain ⟨oy, hy1, hy2, _⟩ := lz10_roundtrip y hy
  have : ox = oy := by
    have := hx1.symm.trans (h.trans hy1)
    injection this
  subst this
  have := hx2.symm.trans hy2
  injection this

/-- The first four bytes of every LZ10 image below 16 MiB are the type byte and the input length,
little endian — the part of the contract a foreign decoder reads first, stated without the
specification's vocabulary. -/
theorem lz10_header (x : BA) (hx : x.size < 2 ^ 24) :
    ∃ out rest, compress10 x = .ok out ∧
      out.toList = 0x10 :: UInt8.ofNat (x.size % 256) :: UInt8.ofNat (x.size / 256 % 256) ::
        UInt8.ofNat (x.size / 65536 % 256) :: rest := by
  obtain ⟨out, toks, h1, ⟨body, h2, _⟩, _, _⟩ := lz10_correct x hx
  refine ⟨out, body, h1, ?_⟩
  rw [h2]
  simp [header, leBytes, Nat.div_div_eq_div_mul]

/-- Interoperability of the two entry points: the LZ13 decompressor (struct and
`CompressionFormat::LZ13`), which accepts bare LZ10/LZ11 streams, also gives back the input on
every LZ10 image — a file written with one format setting and read with the other is not lost. -/
theorem lz10_read_by_lz13 (x : BA) (hx : x.size < 2 ^ 24) :
    ∃ out, compress10 x = .ok out ∧ decompress13 out.toList = .ok x ∧
      Format.decompress .lz13 out.toList = .ok x := by
  obtain ⟨out, toks, h1, h2, h3⟩ := lz10_conforms x hx
  have h := C11.lz13_decompress_bare false toks out.toList h2
  rw [h3] at h
  exact ⟨out, h1, h.1, h.2⟩

/-! Non-vacuity: the hypotheses are satisfiable by concrete inputs (the empty one included). -/
example : ∃ out, compress10 #[1, 1, 1, 1, 1, 1, 2] = .ok out ∧
    decompress10 out.toList = .ok #[1, 1, 1, 1, 1, 1, 2] :=
  let ⟨out, h1, h2, _⟩ := lz10_roundtrip #[1, 1, 1, 1, 1, 1, 2] (by decide)
  ⟨out, h1, h2⟩
example : ∃ out, compress10 #[] = .ok out ∧ decompress10 out.toList = .ok #[] :=
  let ⟨out, h1, h2, _⟩ := lz10_roundtrip #[] (by decide)
  ⟨out, h1, h2⟩

end Mila.Props.C08
