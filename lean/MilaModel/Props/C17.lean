/-
C17 — Animation-set file round trip, size formula, idempotent re-serialisation.

Model: `Mila.Aset` (`MilaModel/Model/Aset.lean`, a transcription of `src/aset.rs`).
Specification: `Mila.Spec.Aset` (domain `WF`, size formula `dataSize`).
Layering: `from_archive` is proved correct on *every* archive that shows the declarative layout of
the file (`Aset.Layout`, stated with lookups only); `serialize` builds an archive with that layout;
the layout is carried along `SameContent` — the conclusion of property C01 (bin-archive
serialize → parse), which enters the file-level theorems as the named hypothesis `BinRoundTrip`.
-/
import MilaModel.Lemmas.AsetBuild
import MilaModel.Lemmas.ComposeAset
import MilaModel.Spec.Aset
import MilaModel.Lemmas.SjisSub

namespace Mila.Props.C17
open Mila Mila.Aset Mila.Layered BinArchive

/-- The property's quantifier: 257 clip names, every set has 257 entries. -/
abbrev WF (f : ASetFile) : Prop := Spec.Aset.WF f.animClipTable f.sets

/-! ### a set of 257 entries is rebuilt exactly -/

private theorem slotVals_eq (s : List (Option Str)) (i : Nat) :
    ∀ (n j : Nat), slotVals s i n j = (List.range' j n).map (fun j => (s[i * 32 + j + 1]?).join) := by
  intro n
  induction n with
  | zero => intro j; rfl
  | succ n ih => intro j; simp [slotVals, List.range'_succ, ih]

private theorem groupsVals_eq (s : List (Option Str)) :
    ∀ (n i : Nat), groupsVals s n i
      = ((List.range' i n).flatMap (fun g => (List.range' 0 32).map (fun j => g * 32 + j + 1))).map
          (fun k => (s[k]?).join) := by
  intro n
  induction n with
  | zero => intro i; rfl
  | succ n ih =>
    intro i
    simp only [groupsVals, List.range'_succ, List.flatMap_cons, List.map_append, ih, slotVals_eq,
      List.map_map]
    rfl

private theorem slotIndex_eq :
    (List.range' 0 8).flatMap (fun g => (List.range' 0 32).map (fun j => g * 32 + j + 1))
      = List.range' 1 256 := by decide +kernel

private theorem map_getElem?_join (s : List (Option Str)) :
    (List.range' 0 s.length).map (fun k => (s[k]?).join) = s := by
  apply List.ext_getElem?
  intro k
  by_cases hk : k < s.length
  · rw [List.getElem?_map, List.getElem?_range' (by omega)]
    simp [List.getElem?_eq_getElem hk]
  · rw [List.getElem?_eq_none (by simpa using hk), List.getElem?_eq_none (by simpa using hk)]

private theorem setVal_eq (s : List (Option Str)) (h : s.length = 257) : setVal s = s := by
  have h1 := map_getElem?_join s
  rw [h, show (257 : Nat) = 256 + 1 from rfl, List.range'_succ, List.map_cons] at h1
  unfold setVal
  rw [groupsVals_eq, slotIndex_eq]
  exact h1

private theorem sets_map_setVal (sets : List (List (Option Str))) (h : ∀ s ∈ sets, s.length = 257) :
    sets.map setVal = sets := by
  induction sets with
  | nil => rfl
  | cons s rest ih =>
    simp only [List.map_cons]
    rw [setVal_eq s (h s (by simp)), ih (fun t ht => h t (by simp [ht]))]

private theorem wf_nonempty {f : ASetFile} (h : WF f) : ∀ s ∈ f.sets, s ≠ [] := by
  intro s hs e
  have := h.2 s hs
  rw [e] at this; simp at this

/-! ### round trip -/

/-- `serialize` never fails before the bin-archive stage, on the whole domain. -/
theorem aset_build_ok (f : ASetFile) (h : WF f) : ∃ a, build f = .ok a := by
  obtain ⟨a, ha, _, _⟩ := build_layout f (wf_nonempty h) (by rw [h.1]; omega)
  exact ⟨a, ha⟩

/-- **Round trip on the un-serialised archive**: reading the archive that `serialize` builds
returns the file — meta, all 257 clip names, every set with its label and all 256 slots. -/
theorem aset_roundtrip (f : ASetFile) (h : WF f) :
    ∃ a, build f = .ok a ∧ fromArchive a = .ok f := by
  obtain ⟨a, ha, hl, _⟩ := build_layout f (wf_nonempty h) (by rw [h.1]; omega)
  refine ⟨a, ha, ?_⟩
  rw [fromArchive_layout f a h.1 hl, sets_map_setVal f.sets h.2]

/-- Consequently building the archive is injective on well-formed files: two different animation
set files never build the same archive. -/
theorem aset_build_injective (f g : ASetFile) (hf : WF f) (hg : WF g) (h : build f = build g) :
    f = g := by
  obtain ⟨a, ha, ra⟩ := aset_roundtrip f hf
  obtain ⟨b, hb, rb⟩ := aset_roundtrip g hg
  have e : a = b := by have := ha.symm.trans (h.trans hb); injection this
  subst e
  have := ra.symm.trans rb
  injection this

/-- **Layering**: `from_archive` depends only on the archive's content — any archive with the same
content as the one `serialize` built (same size, raw bytes outside string cells, string per cell,
label bucket per address) is read to the same value. -/
theorem aset_layering (f : ASetFile) (h : WF f) {a b : BinArchive} (ha : build f = .ok a)
    (hab : SameContent a b) : fromArchive b = fromArchive a := by
  obtain ⟨a', ha', hl, hp⟩ := build_layout f (wf_nonempty h) (by rw [h.1]; omega)
  rw [ha] at ha'
  cases ha'
  rw [fromArchive_layout f b h.1 (hl.transfer hp hab), fromArchive_layout f a h.1 hl]

/-- **File-level round trip**, given the bin-archive round trip (property C01) for the archive
that `serialize` builds: `from_archive(from_bytes(serialize(f))) = f`. -/
theorem aset_file_roundtrip (c : Codec) (f : ASetFile) (h : WF f)
    (hC01 : ∀ a, build f = .ok a → BinRoundTrip c a) :
    ∀ bytes, serialize c f = .ok bytes →
      ∃ b, BinArchive.parse c .little bytes = .ok b ∧ fromArchive b = .ok f := by
  intro bytes hs
  obtain ⟨a, ha, hl, hp⟩ := build_layout f (wf_nonempty h) (by rw [h.1]; omega)
  unfold Aset.serialize at hs
  rw [ha] at hs
  obtain ⟨b, hb, hab⟩ := hC01 a ha bytes hs
  rw [hl.little] at hb
  refine ⟨b, hb, ?_⟩
  rw [fromArchive_layout f b h.1 (hl.transfer hp hab), sets_map_setVal f.sets h.2]

/-! ### size formula -/

private theorem present_eq_spec (s : List (Option Str)) (k : Nat) :
    present s k = Spec.Aset.slotPresent s k := by
  unfold present Spec.Aset.slotPresent
  cases s[k]? with
  | none => rfl
  | some o => cases o <;> rfl

private theorem stringsIn_eq_spec (s : List (Option Str)) (g : Nat) :
    stringsIn s g = Spec.Aset.groupSlots s g := by
  unfold stringsIn Spec.Aset.groupSlots
  congr 1
  funext j
  rw [present_eq_spec, Nat.mul_comm]

private theorem setFlags_ne_zero_iff (s : List (Option Str)) (g : Nat) :
    setFlags s g ≠ 0 ↔ Spec.Aset.groupSlots s g ≠ 0 := by
  rw [← stringsIn_eq_spec]
  apply not_congr
  constructor
  · exact stringsIn_eq_zero s g
  · intro h
    rw [setFlags_eq_zero]
    intro j hj
    unfold stringsIn at h
    rw [List.countP_eq_zero] at h
    have := h j (List.mem_range.2 hj)
    simpa using this

private theorem setCells_cost (s : List (Option Str)) :
    4 * (setCells s).length = Spec.Aset.setCost s := by
  rw [setCells_length]
  unfold Spec.Aset.setCost Spec.Aset.nonEmptyGroups Spec.Aset.presentSlots flagsToWrite stringsToWrite
  have h1 : (List.range 8).countP (fun g => decide (setFlags s g ≠ 0))
      = (List.range 8).countP (fun g => decide (Spec.Aset.groupSlots s g ≠ 0)) := by
    congr 1; funext g; rw [decide_eq_decide]; exact setFlags_ne_zero_iff s g
  have h2 : (List.range 8).map (stringsIn s) = (List.range 8).map (Spec.Aset.groupSlots s) := by
    congr 1; funext g; exact stringsIn_eq_spec s g
  rw [h1, h2]; omega

private theorem setsCells_cost (sets : List (List (Option Str))) :
    4 * (setsCells sets).length = (sets.map Spec.Aset.setCost).sum := by
  induction sets with
  | nil => rfl
  | cons s rest ih =>
    simp only [setsCells, List.flatMap_cons, List.length_append, List.map_cons, List.sum_cons] at ih ⊢
    rw [← ih, ← setCells_cost]; omega

/-- **Size formula**: the data section has `12 + 4·257 + Σ_sets 4·(1 + nonEmptyGroups + presentSlots)`
bytes — an absent slot costs nothing, a group without a present slot costs nothing. -/
theorem aset_size (f : ASetFile) (h : WF f) {a : BinArchive} (ha : build f = .ok a) :
    a.size = Spec.Aset.dataSize f.sets := by
  obtain ⟨a', ha', hl, _⟩ := build_layout f (wf_nonempty h) (by rw [h.1]; omega)
  rw [ha] at ha'
  cases ha'
  rw [hl.size]
  unfold Spec.Aset.dataSize
  simp only [fileCells, headerCells, List.length_append, List.length_cons, List.length_nil,
    List.length_map, h.1]
  rw [← setsCells_cost]; omega

/-- The size survives the bin-archive round trip (C01 preserves the size). -/
theorem aset_file_size (c : Codec) (f : ASetFile) (h : WF f)
    (hC01 : ∀ a, build f = .ok a → BinRoundTrip c a) :
    ∀ bytes, serialize c f = .ok bytes →
      ∃ b, BinArchive.parse c .little bytes = .ok b ∧ b.size = Spec.Aset.dataSize f.sets := by
  intro bytes hs
  obtain ⟨a, ha, hl, _⟩ := build_layout f (wf_nonempty h) (by rw [h.1]; omega)
  unfold Aset.serialize at hs
  rw [ha] at hs
  obtain ⟨b, hb, hab⟩ := hC01 a ha bytes hs
  rw [hl.little] at hb
  exact ⟨b, hb, by rw [hab.size]; exact aset_size f h ha⟩

private theorem sum_countP_flatMap (P : Nat → Bool) (L : List Nat) (M : Nat → List Nat) :
    (L.map (fun g => (M g).countP P)).sum = (L.flatMap M).countP P := by
  induction L with
  | nil => rfl
  | cons x L ih => simp [List.flatMap_cons, List.countP_append, ih]

/-- The group-wise count of the specification is the plain count of present names among
entries 1..256 of the set. -/
theorem presentSlots_eq_presentNames (s : List (Option Str)) (h : s.length = 257) :
    Spec.Aset.presentSlots s = Spec.Aset.presentNames s := by
  have inner : ∀ (P : Nat → Bool) (g : Nat), (List.range 32).countP (fun j => P (32 * g + j + 1))
      = ((List.range' 0 32).map (fun j => g * 32 + j + 1)).countP P := by
    intro P g
    rw [List.countP_map, List.range_eq_range']
    apply List.countP_congr
    intro j _
    simp [Nat.mul_comm]
  have hidx : ∀ (P : Nat → Bool), ((List.range 8).map (fun g =>
      (List.range 32).countP (fun j => P (32 * g + j + 1)))).sum = (List.range' 1 256).countP P := by
    intro P
    simp only [inner]
    rw [sum_countP_flatMap, List.range_eq_range', slotIndex_eq]
  unfold Spec.Aset.presentSlots Spec.Aset.groupSlots
  refine (hidx (Spec.Aset.slotPresent s)).trans ?_
  unfold Spec.Aset.presentNames
  have h1 := map_getElem?_join s
  rw [h, show (257 : Nat) = 256 + 1 from rfl, List.range'_succ, List.map_cons] at h1
  have h2 : s.drop 1 = (List.range' 1 256).map (fun k => (s[k]?).join) := by
    have := congrArg (List.drop 1) h1
    simpa using this.symm
  rw [h2, List.countP_map]
  congr 1
  funext k
  unfold Spec.Aset.slotPresent
  simp only [Function.comp]
  cases s[k]? with
  | none => rfl
  | some o => cases o <;> rfl

/-! ### idempotent re-serialisation -/

/-- **Idempotence**: re-serialising the value re-read from the serialised file gives the same
bytes (given C01 for the built archive). -/
theorem aset_idempotent (c : Codec) (f : ASetFile) (h : WF f)
    (hC01 : ∀ a, build f = .ok a → BinRoundTrip c a) :
    ∀ bytes, serialize c f = .ok bytes →
      ∃ b f', BinArchive.parse c .little bytes = .ok b ∧ fromArchive b = .ok f'
        ∧ serialize c f' = .ok bytes := by
  intro bytes hs
  obtain ⟨b, hb, hf⟩ := aset_file_roundtrip c f h hC01 bytes hs
  exact ⟨b, f, hb, hf, hs⟩

/-! ### non-vacuity -/

/-- A non-trivial file of the domain: labelled set with a sparse group, an unlabelled empty set. -/
def sample : ASetFile :=
  ⟨some (bs ['m']), List.replicate 256 none ++ [some (bs ['c'])],
   [some (bs ['L']) :: (List.replicate 31 none ++ [some []] ++ List.replicate 224 none),
    List.replicate 257 none]⟩

example : WF sample := by decide +kernel

example : Spec.Aset.dataSize sample.sets = 12 + 4 * 257 + 4 * 3 + 4 * 1 := by decide +kernel

/-- `SameContent` is satisfiable (reflexivity), so the layering hypothesis is not vacuous. -/
example (a : BinArchive) : SameContent a a := SameContent.refl a

/-! ### composition with C01: the hypothesis `hC01` discharged

`BinRoundTrip c a` is now a *theorem* for every archive `serialize` builds: the built archive is in
C01's quantifier (one string per 4-aligned cell inside the data, no pointers or pending c-strings,
one non-empty label bucket per address `≤ size`: `Compose.tidy_aset_build` + `build_layout`), so
`C01.parse_serialize` applies.  What remains are the property's own domain hypotheses: the codec is
faithful on `D`, every string of the file (and the reserved table label) is in `D`
(`Compose.AsetStrsIn`), the 257-entry shapes (`WF`), and the 32-bit format's size limit on the image
(`Ser.imageSize`: header, data, tables and text section of the built archive). -/

/-- **C01 instantiated**: the bin-archive round trip holds of every archive `serialize` builds. -/
theorem aset_bin_roundtrip (c : Codec) (D : Str → Prop) (hf : c.Faithful D) (f : ASetFile) (h : WF f)
    (hD : Compose.AsetStrsIn D f) :
    ∀ a, build f = .ok a → Ser.imageSize c a < 2 ^ 32 → BinRoundTrip c a :=
  fun _ ha small =>
    Compose.aset_binRoundTrip c D hf f (wf_nonempty h) (by rw [h.1]; omega) hD ha small

/-- `serialize` succeeds on the whole domain, with an image of the prescribed size. -/
theorem aset_serialize_ok (c : Codec) (D : Str → Prop) (hf : c.Faithful D) (f : ASetFile) (h : WF f)
    (hD : Compose.AsetStrsIn D f) (small : ∀ a, build f = .ok a → Ser.imageSize c a < 2 ^ 32) :
    ∃ a bytes, build f = .ok a ∧ serialize c f = .ok bytes ∧ bytes.length = Ser.imageSize c a := by
  obtain ⟨a, ha, _, hp⟩ := build_layout f (wf_nonempty h) (by rw [h.1]; omega)
  obtain ⟨bytes, hs, hl⟩ := (Compose.tidy_aset_build f hD ha).serialize_ok hp c hf (small a ha)
  refine ⟨a, bytes, ha, ?_, hl⟩
  unfold Aset.serialize
  rw [ha]; exact hs

/-- **File-level round trip, unconditional**: `serialize` succeeds and
`from_archive(from_bytes(serialize(f))) = f`. -/
theorem aset_file_roundtrip_unconditional (c : Codec) (D : Str → Prop) (hf : c.Faithful D)
    (f : ASetFile) (h : WF f) (hD : Compose.AsetStrsIn D f)
    (small : ∀ a, build f = .ok a → Ser.imageSize c a < 2 ^ 32) :
    ∃ bytes b, serialize c f = .ok bytes ∧ BinArchive.parse c .little bytes = .ok b ∧
      fromArchive b = .ok f := by
  obtain ⟨_, bytes, _, hs, _⟩ := aset_serialize_ok c D hf f h hD small
  obtain ⟨b, hb, hfa⟩ := aset_file_roundtrip c f h
    (fun a ha => aset_bin_roundtrip c D hf f h hD a ha (small a ha)) bytes hs
  exact ⟨bytes, b, hs, hb, hfa⟩

/-- **Size of the re-parsed file, unconditional.** -/
theorem aset_file_size_unconditional (c : Codec) (D : Str → Prop) (hf : c.Faithful D)
    (f : ASetFile) (h : WF f) (hD : Compose.AsetStrsIn D f)
    (small : ∀ a, build f = .ok a → Ser.imageSize c a < 2 ^ 32) :
    ∃ bytes b, serialize c f = .ok bytes ∧ BinArchive.parse c .little bytes = .ok b ∧
      b.size = Spec.Aset.dataSize f.sets := by
  obtain ⟨_, bytes, _, hs, _⟩ := aset_serialize_ok c D hf f h hD small
  obtain ⟨b, hb, hsz⟩ := aset_file_size c f h
    (fun a ha => aset_bin_roundtrip c D hf f h hD a ha (small a ha)) bytes hs
  exact ⟨bytes, b, hs, hb, hsz⟩

/-- **Idempotence, unconditional**: re-serialising the value re-read from the serialised file gives
the same bytes. -/
theorem aset_idempotent_unconditional (c : Codec) (D : Str → Prop) (hf : c.Faithful D)
    (f : ASetFile) (h : WF f) (hD : Compose.AsetStrsIn D f)
    (small : ∀ a, build f = .ok a → Ser.imageSize c a < 2 ^ 32) :
    ∃ bytes b f', serialize c f = .ok bytes ∧ BinArchive.parse c .little bytes = .ok b ∧
      fromArchive b = .ok f' ∧ serialize c f' = .ok bytes := by
  obtain ⟨bytes, b, hs, hb, hfa⟩ := aset_file_roundtrip_unconditional c D hf f h hD small
  exact ⟨bytes, b, f, hs, hb, hfa, hs⟩

/-- The file-level round trip with no assumption about the text encoding left (`Mila.sjisSub_faithful`). -/
theorem aset_file_roundtrip_sjisSub (f : ASetFile) (h : WF f) (hD : Compose.AsetStrsIn Sjis.SubDomain f)
    (small : ∀ a, build f = .ok a → Ser.imageSize sjisSub a < 2 ^ 32) :
    ∃ bytes b, serialize sjisSub f = .ok bytes ∧ BinArchive.parse sjisSub .little bytes = .ok b ∧
      fromArchive b = .ok f :=
  aset_file_roundtrip_unconditional sjisSub Sjis.SubDomain Mila.sjisSub_faithful f h hD small

/-- Non-vacuity of the composed theorems: the identity codec is faithful on NUL-free strings and
every string of `sample` (and the table label) is NUL-free. -/
example : (⟨fun s => some s, id⟩ : Codec).Faithful (fun s => (0 : UInt8) ∉ s) ∧
    Compose.AsetStrsIn (fun s => (0 : UInt8) ∉ s) sample := by
  refine ⟨fun s hs => ⟨s, rfl, hs, rfl⟩, ⟨by decide, ?_, ?_, ?_⟩⟩
  · intro s hs; cases hs; decide
  · intro s hs
    simp only [sample, List.mem_append, List.mem_replicate, List.mem_singleton] at hs
    rcases hs with ⟨_, hs⟩ | hs
    · cases hs
    · cases hs; decide
  · intro set hset s hs
    simp only [sample, List.mem_cons, List.mem_nil_iff, or_false] at hset
    rcases hset with rfl | rfl
    · simp only [List.mem_cons, List.mem_append, List.mem_replicate, List.mem_nil_iff, or_false,
        Option.some.injEq, reduceCtorEq, and_false, false_or, or_false] at hs
      rcases hs with rfl | rfl <;> decide
    · simp only [List.mem_replicate] at hs
      cases hs.2

/-- All hypotheses of the composed theorems together, the size limit included, hold of a concrete
file (meta string, one empty set) over the identity codec; the image size is evaluated in the kernel. -/
example :
    let c : Codec := ⟨fun s => some s, id⟩
    let D : Str → Prop := fun s => (0 : UInt8) ∉ s
    let f : ASetFile := ⟨some (bs ['m']), List.replicate 257 none, [List.replicate 257 none]⟩
    c.Faithful D ∧ WF f ∧ Compose.AsetStrsIn D f ∧
      ∀ a, build f = .ok a → Ser.imageSize c a < 2 ^ 32 := by
  refine ⟨fun s hs => ⟨s, rfl, hs, rfl⟩, by decide +kernel, ⟨by decide, ?_, ?_, ?_⟩, ?_⟩
  · intro s hs; cases hs; decide
  · intro s hs; simp only [List.mem_replicate] at hs; cases hs.2
  · intro set hset s hs
    simp only [List.mem_singleton] at hset
    subst hset
    simp only [List.mem_replicate] at hs; cases hs.2
  · intro a ha
    have h : (match build ⟨some (bs ['m']), List.replicate 257 none, [List.replicate 257 none]⟩ with
        | .ok a => decide (Ser.imageSize ⟨fun s => some s, id⟩ a < 2 ^ 32)
        | _ => false) = true := by decide +kernel
    rw [ha] at h
    simpa using h

end Mila.Props.C17
