/-
Specification for C06, written from the property statement and the published encodings (no model
import): an independent *reference reader* of a serialised text archive.

The file is a bin archive image: a 0x20-byte header (`u32` at 4 = data size, at 8 = pointer count,
at 12 = label count, in the archive's byte order), the data region, the pointer table (4 bytes per
entry), the label table (`u32` address, `u32` name offset per entry) and the text pool holding the
NUL-terminated label names.  A text archive has no pointers.  The property says: every message starts
on a 4-byte boundary of the data region and carries its key as the label of that address; reading the
file back yields the title (UTF-16 format), the keys in order and every message.
-/
import MilaModel.Basic

namespace Mila.Spec.TextImage

def word (big : Bool) (b : Bytes) (pos : Nat) : Option Nat :=
  if pos + 4 ≤ b.length then
    let w := (b.drop pos).take 4
    some (if big then ofBe w else ofLe w)
  else none

/-- Bytes from `pos` up to the first NUL (excluded); `none` if there is none. -/
def cstr : Bytes → Option Bytes
  | [] => none
  | b :: rest => if b = 0 then some [] else (cstr rest).map (b :: ·)

/-- UTF-16 code units (little-endian byte pairs) up to the unit 0000; `none` if unterminated. -/
def units : Bytes → Option (List Nat)
  | lo :: hi :: rest =>
    if lo = 0 ∧ hi = 0 then some [] else (units rest).map ((lo.toNat + 256 * hi.toNat) :: ·)
  | _ => none

/-- Number of bytes a unit string occupies, terminator included. -/
def unitsLen (us : List Nat) : Nat := 2 * us.length + 2

/-- UTF-16 decoding (RFC 2781 §2.2): `W1` outside D800–DFFF is the character; a high surrogate
must be followed by a low one, giving `0x10000 + ((W1 - D800) << 10 | (W2 - DC00))`; anything else is
an error. -/
def scalarsOfUnits : List Nat → Option (List Nat)
  | [] => some []
  | w1 :: rest =>
    if w1 < 0xD800 ∨ w1 > 0xDFFF then (scalarsOfUnits rest).map (w1 :: ·)
    else if w1 ≤ 0xDBFF then
      match rest with
      | w2 :: rest' =>
        if 0xDC00 ≤ w2 ∧ w2 ≤ 0xDFFF then
          (scalarsOfUnits rest').map ((0x10000 + (w1 - 0xD800) * 0x400 + (w2 - 0xDC00)) :: ·)
        else none
      | [] => none
    else none

/-- UTF-8 (RFC 3629 §3) of one scalar value. -/
def utf8Of (c : Nat) : Bytes :=
  if c ≤ 0x7F then [UInt8.ofNat c]
  else if c ≤ 0x7FF then [UInt8.ofNat (0xC0 ||| (c >>> 6)), UInt8.ofNat (0x80 ||| (c &&& 0x3F))]
  else if c ≤ 0xFFFF then
    [UInt8.ofNat (0xE0 ||| (c >>> 12)), UInt8.ofNat (0x80 ||| ((c >>> 6) &&& 0x3F)),
     UInt8.ofNat (0x80 ||| (c &&& 0x3F))]
  else
    [UInt8.ofNat (0xF0 ||| (c >>> 18)), UInt8.ofNat (0x80 ||| ((c >>> 12) &&& 0x3F)),
     UInt8.ofNat (0x80 ||| ((c >>> 6) &&& 0x3F)), UInt8.ofNat (0x80 ||| (c &&& 0x3F))]

/-- The message stored at `off` in `data`, as a UTF-8 string, and the number of bytes it occupies
before padding.  `sjisDec` is the Shift-JIS decoder (a parameter). -/
def messageAt (unicode : Bool) (sjisDec : Bytes → Bytes) (data : Bytes) (off : Nat) :
    Option (Bytes × Nat) :=
  if unicode then
    match units (data.drop off) with
    | some us => (scalarsOfUnits us).map (fun cs => (cs.flatMap utf8Of, unitsLen us))
    | none => none
  else
    (cstr (data.drop off)).map (fun b => (sjisDec b, b.length + 1))

structure Image where
  data : Bytes
  /-- label table in file order: (address, name) -/
  labels : List (Nat × Bytes)
  deriving Repr

/-- Reference reader of the container (pointer-free images only). -/
def readImage (big : Bool) (sjisDec : Bytes → Bytes) (file : Bytes) : Option Image := do
  if file.length < 0x20 then none
  let total ← word big file 0
  let dataSize ← word big file 4
  let ptrCount ← word big file 8
  let labelCount ← word big file 12
  if total ≠ file.length ∨ ptrCount ≠ 0 then none
  let tableAt := 0x20 + dataSize
  let textAt := tableAt + 8 * labelCount
  if textAt > file.length then none
  let labels ← (List.range labelCount).mapM (fun i => do
    let addr ← word big file (tableAt + 8 * i)
    let nameOff ← word big file (tableAt + 8 * i + 4)
    let name ← cstr (file.drop (textAt + nameOff))
    pure (addr, sjisDec name))
  pure ⟨(file.drop 0x20).take dataSize, labels⟩

def up4 (n : Nat) : Nat := (n + 3) / 4 * 4

/-- Walk the expected entries over the image: entry `i` must sit at the running offset `off`
(a multiple of 4), be labelled with its key (and nothing else), read back as its message, and the
next entry starts at the next 4-byte boundary after it; zero padding in between; at the end the
data region is exhausted.  Returns a reason on failure. -/
def walk (unicode : Bool) (sjisDec : Bytes → Bytes) (img : Image) :
    Nat → List (Bytes × Bytes) → Option String
  | off, [] => if off = img.data.length then none else some "data region continues after the last message"
  | off, (k, m) :: rest =>
    if off % 4 ≠ 0 then some "message offset not a multiple of 4"
    else if (img.labels.filter (fun l => l.1 = off)).map (·.2) ≠ [k] then
      some "labels at the message offset are not exactly [key]"
    else match messageAt unicode sjisDec img.data off with
      | none => some "message unreadable at its offset"
      | some (s, len) =>
        if s ≠ m then some "message at its offset differs"
        else if ((img.data.drop (off + len)).take (up4 (off + len) - (off + len))).any (· ≠ 0) then
          some "non-zero padding"
        else walk unicode sjisDec img (up4 (off + len)) rest

/-- The layout clause + what an independent reader recovers from the file. -/
def checkFile (unicode big : Bool) (sjisDec : Bytes → Bytes) (file : Bytes)
    (title : Bytes) (entries : List (Bytes × Bytes)) : Option String :=
  match readImage big sjisDec file with
  | none => some "not a pointer-free bin archive image with exact header totals"
  | some img =>
    if img.labels.length ≠ entries.length then some "label count differs from the number of entries"
    else if unicode then
      match messageAt false sjisDec img.data 0 with
      | none => some "title unreadable"
      | some (s, len) =>
        if s ≠ title then some "title differs" else walk unicode sjisDec img (up4 len) entries
    else walk unicode sjisDec img 0 entries

end Mila.Spec.TextImage
