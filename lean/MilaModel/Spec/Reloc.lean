/-
Specification of relocation (C03), written from the property statement alone:

  "Inserting n zero bytes at address a shifts the data and every string, pointer cell and pending
   c-string located at or after a by n, and every label and pointer target located after a (or at
   a, when inclusive shifting is requested) by n, losing and inventing nothing.  Removing a range
   deletes exactly the bytes and annotations inside it and the pointers that point into it and
   shifts the rest back; truncating at a cell boundary removes every byte and annotation at or
   beyond the cut.  Misaligned or out-of-range insert and remove requests are rejected and leave
   the archive unchanged (appending at the end is always accepted)."

The *content* of an archive is its data plus the four annotation collections as entry lists
(multisets: order is immaterial, every theorem and the oracle compare them up to permutation or
under a canonical sort).  Nothing here mentions the model.
-/
import MilaModel.Basic

namespace Mila.Spec.Reloc

/-- "located at or after `a`": shifted by `n`. -/
def shiftAt (a n x : Nat) : Nat := if a ≤ x then x + n else x

/-- "located after `a` (or at `a`, when inclusive shifting is requested)": shifted by `n`. -/
def shiftAfter (a n : Nat) (ge : Bool) (x : Nat) : Nat :=
  if a < x ∨ (ge = true ∧ x = a) then x + n else x

/-- `x` lies inside the removed range `[a, a+n)`. -/
def inside (a n x : Nat) : Bool := decide (a ≤ x) && decide (x < a + n)

/-- "shifts the rest back": an address outside the removed range after the removal. -/
def pull (a n x : Nat) : Nat := if a + n ≤ x then x - n else x

/-- What the statement calls "the archive": bytes and annotations. -/
structure Content where
  data : Bytes
  /-- string cells: (cell address, string) -/
  text : List (Nat × Bytes)
  /-- pointer cells: (cell address, target) -/
  ptrs : List (Nat × Nat)
  /-- labels: (address, names in order) -/
  labels : List (Nat × List Bytes)
  /-- pending c-strings: (string, cell addresses in order) -/
  cstrs : List (Bytes × List Nat)
  deriving Repr, DecidableEq

/-- An insert request is accepted iff it is in range and aligned. -/
def allocAccepted (size a n : Nat) : Prop := a ≤ size ∧ a % 4 = 0 ∧ n % 4 = 0

instance (size a n : Nat) : Decidable (allocAccepted size a n) := by
  unfold allocAccepted; infer_instance

/-- Inserting `n` zero bytes at `a`. -/
def allocated (a n : Nat) (ge : Bool) (c : Content) : Content where
  data := c.data.take a ++ List.replicate n 0 ++ c.data.drop a
  text := c.text.map (fun p => (shiftAt a n p.1, p.2))
  ptrs := c.ptrs.map (fun p => (shiftAt a n p.1, shiftAfter a n ge p.2))
  labels := c.labels.map (fun p => (shiftAfter a n ge p.1, p.2))
  cstrs := c.cstrs.map (fun p => (p.1, p.2.map (shiftAt a n)))

/-- Appending `n` zero bytes: nothing moves. -/
def appended (n : Nat) (c : Content) : Content := { c with data := c.data ++ List.replicate n 0 }

/-- A remove request is accepted iff the (possibly empty) range starts inside the data, ends
inside or at the end of it, and is aligned. -/
def deallocAccepted (size a n : Nat) : Prop := a < size ∧ a + n ≤ size ∧ a % 4 = 0 ∧ n % 4 = 0

instance (size a n : Nat) : Decidable (deallocAccepted size a n) := by
  unfold deallocAccepted; infer_instance

/-- Removing the range `[a, a+n)`: bytes and annotations inside it go, pointers with source or
target inside it go, c-string uses inside it go (a c-string without a use left goes), the rest is
shifted back.  (The inclusive-shift flag has no influence: everything at `a` is inside the range
when `n > 0` and nothing moves when `n = 0`.) -/
def deallocated (a n : Nat) (c : Content) : Content where
  data := c.data.take a ++ c.data.drop (a + n)
  text := (c.text.filter (fun p => !inside a n p.1)).map (fun p => (pull a n p.1, p.2))
  ptrs := (c.ptrs.filter (fun p => !inside a n p.1 && !inside a n p.2)).map
    (fun p => (pull a n p.1, pull a n p.2))
  labels := (c.labels.filter (fun p => !inside a n p.1)).map (fun p => (pull a n p.1, p.2))
  cstrs := ((c.cstrs.map (fun p => (p.1, p.2.filter (fun x => !inside a n x)))).filter
    (fun p => !p.2.isEmpty)).map (fun p => (p.1, p.2.map (pull a n)))

/-- Truncating at `cut`: a cut at or beyond the end changes nothing; otherwise every byte and
every annotation located at or beyond the cut goes, everything below stays.  (Pointer *targets*
are not filtered: the statement does not ask for it.) -/
def truncated (cut : Nat) (c : Content) : Content :=
  if cut ≥ c.data.length then c else
  { data := c.data.take cut
    text := c.text.filter (fun p => p.1 < cut)
    ptrs := c.ptrs.filter (fun p => p.1 < cut)
    labels := c.labels.filter (fun p => p.1 < cut)
    cstrs := (c.cstrs.map (fun p => (p.1, p.2.filter (fun x => x < cut)))).filter
      (fun p => !p.2.isEmpty) }

/-! ### the statement on lookups

For an archive whose cells are distinct, the entry-list images above say, address by address: -/

/-- lookup in an entry list (first match). -/
def lookup {ν : Type} (m : List (Nat × ν)) (k : Nat) : Option ν :=
  (m.find? (fun p => p.1 = k)).map (·.2)

end Mila.Spec.Reloc
