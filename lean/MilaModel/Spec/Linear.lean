/-
Specification of channel expansion (C19): a `b`-bit channel value `v` stands for the intensity
`v / (2^b - 1)`; its 8-bit rendering `c` is *within one quantisation step of the linear expansion*
when `|c - 255·v/(2^b-1)| ≤ 255/(2^b-1)` (cross-multiplied below so that it stays in `Nat`).
Also the per-format channel layouts of the 3DS formats and of GameCube/Wii RGB5A3, from the
hardware documentation (3dbrew "PICA200 texture formats", YAGCD §17 "RGB5A3").
Independent of the model.
-/
import MilaModel.Basic

namespace Mila.Spec.Linear

/-- `c` is an 8-bit value within one quantisation step of the linear expansion of the `b`-bit
value `v`. -/
def withinStep (b v c : Nat) : Prop :=
  c ≤ 255 ∧ c * (2 ^ b - 1) ≤ 255 * v + 255 ∧ 255 * v ≤ c * (2 ^ b - 1) + 255

instance (b v c : Nat) : Decidable (withinStep b v c) := by unfold withinStep; infer_instance

/-- The exact linear expansion rounded to nearest, `round(255·v/(2^b-1))` (for reference; the
8-, 4- and 1-bit channels of the model hit it exactly). -/
def expand (b v : Nat) : Nat := (2 * 255 * v + (2 ^ b - 1)) / (2 * (2 ^ b - 1))

/-- Source of an output channel inside the texel value: `width` bits starting at bit `shift`;
`one` = the format stores no alpha, the texel is opaque (alpha 1.0, rendered 255); `absent` = the
format stores no colour (A8) and the property does not say what the unused colour is. -/
inductive Src
  | bits (shift width : Nat)
  | one
  | absent
  deriving DecidableEq, Repr

/-- Channel layout of a texel format: bytes per texel (little-endian value) and the sources of
R, G, B, A. -/
structure Layout where
  bytes : Nat
  r : Src
  g : Src
  b : Src
  a : Src
  deriving Repr

/-- The 3DS formats of the property, by `pixel_format` number. -/
def layout : Nat → Option Layout
  | 0 => some ⟨4, .bits 24 8, .bits 16 8, .bits 8 8, .bits 0 8⟩      -- RGBA8
  | 2 => some ⟨2, .bits 11 5, .bits 6 5, .bits 1 5, .bits 0 1⟩        -- RGBA5551
  | 3 => some ⟨2, .bits 11 5, .bits 5 6, .bits 0 5, .one⟩             -- RGB565 (opaque)
  | 4 => some ⟨2, .bits 12 4, .bits 8 4, .bits 4 4, .bits 0 4⟩        -- RGBA4
  | 5 => some ⟨2, .bits 8 8, .bits 8 8, .bits 8 8, .bits 0 8⟩         -- LA8 (luminance replicated)
  | 7 => some ⟨1, .bits 0 8, .bits 0 8, .bits 0 8, .one⟩              -- L8 (opaque)
  | 8 => some ⟨1, .absent, .absent, .absent, .bits 0 8⟩               -- A8
  | _ => none

/-- The channel `c` is an admissible rendering of source `s` of texel value `value`. -/
def chanOk (s : Src) (value c : Nat) : Prop :=
  match s with
  | .bits shift width => withinStep width (value / 2 ^ shift % 2 ^ width) c
  | .one => c = 255
  | .absent => c ≤ 255

instance (s : Src) (value c : Nat) : Decidable (chanOk s value c) := by
  unfold chanOk; cases s <;> infer_instance

/-- An RGBA pixel is an admissible rendering of the texel `value` in layout `l`. -/
def pixelOk (l : Layout) (value r g b a : Nat) : Prop :=
  chanOk l.r value r ∧ chanOk l.g value g ∧ chanOk l.b value b ∧ chanOk l.a value a

instance (l : Layout) (value r g b a : Nat) : Decidable (pixelOk l value r g b a) := by
  unfold pixelOk; infer_instance

/-- RGB5A3 (big-endian 16-bit): top bit set = RGB555 opaque, top bit clear = A3 RGB444. -/
def rgb5a3Layout (value : Nat) : Layout :=
  if value / 2 ^ 15 % 2 = 1 then ⟨2, .bits 10 5, .bits 5 5, .bits 0 5, .one⟩
  else ⟨2, .bits 8 4, .bits 4 4, .bits 0 4, .bits 12 3⟩

/-- little-endian value of the `n` bytes at `pos` of `d` (bytes beyond the end count as 0; every
use is inside the payload). -/
def leAt (d : Array UInt8) (pos : Nat) : Nat → Nat
  | 0 => 0
  | n + 1 => (d.getD pos 0).toNat + 256 * leAt d (pos + 1) n

/-- big-endian 16-bit value at `pos`. -/
def be16At (d : Array UInt8) (pos : Nat) : Nat := (d.getD pos 0).toNat * 256 + (d.getD (pos + 1) 0).toNat

end Mila.Spec.Linear
