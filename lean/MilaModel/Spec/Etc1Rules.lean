/-
Specification of ETC1 block decoding (C19), transcribed from the Khronos extension
`OES_compressed_ETC1_RGB8_texture` (section 3.9.X "ETC1 Compressed Texture Image Formats"),
independent of the model.  A block is a 64-bit word (bit 63 = first bit of the big-endian byte
stream; the 3DS stores the word little-endian, which is the container's business).

  bits 63..32  colour / table / mode part
    individual mode (diff bit = 0):  R1 63..60  R2 59..56  G1 55..52  G2 51..48  B1 47..44  B2 43..40
    differential mode (diff bit = 1): R1' 63..59 dR2 58..56 G1' 55..51 dG2 50..48 B1' 47..43 dB2 42..40
    table codeword 1: 39..37   table codeword 2: 36..34   diff bit: 33   flip bit: 32
  bits 31..16  most significant bits of the 16 pixel indices, bits 15..0 the least significant bits;
    texel (x, y) has index number x*4 + y (column-major: a e i m / b f j n / ...).

Base colours: 4-bit values are extended to 8 bits by replicating the four bits; 5-bit values by
replicating the top three bits; the second 5-bit colour is R1' + dR2 with dR2 a 3-bit two's
complement number, and the sum must lie in 0..31 (otherwise the block is not a legal ETC1 block).
flip = 0: subblocks are 2×4 side by side (subblock 1 = left); flip = 1: 4×2 on top of each other
(subblock 1 = top).  Pixel index (msb, lsb): 00 → +a, 01 → +b, 10 → −a, 11 → −b with (a, b) from
the intensity table; the result is clamped to 0..255 per channel.
-/
import MilaModel.Basic
import MilaModel.Spec.Morton
import MilaModel.Spec.Linear

namespace Mila.Spec.Etc1

/-- bits `hi..lo` (width `w`) of the block word. -/
def field (word lo w : Nat) : Nat := word / 2 ^ lo % 2 ^ w

/-- Intensity modifier table (Table 3.17.2): `(a, b)` = small and large magnitude. -/
def intensity : Nat → Int × Int
  | 0 => (2, 8) | 1 => (5, 17) | 2 => (9, 29) | 3 => (13, 42)
  | 4 => (18, 60) | 5 => (24, 80) | 6 => (33, 106) | _ => (47, 183)

/-- Modifier selected by a pixel index `(msb, lsb)` (Table 3.17.3). -/
def modifier (codeword msb lsb : Nat) : Int :=
  let (a, b) := intensity codeword
  match msb, lsb with
  | 0, 0 => a
  | 0, _ => b
  | _, 0 => -a
  | _, _ => -b

/-- 3-bit two's complement. -/
def delta3 (d : Nat) : Int := if d < 4 then (d : Int) else (d : Int) - 8

/-- 4 → 8 bits by replication. -/
def ext4 (v : Nat) : Int := (v * 16 + v : Nat)
/-- 5 → 8 bits by replication of the three top bits. -/
def ext5 (v : Int) : Int := v * 8 + v / 4

def diffBit (word : Nat) : Bool := field word 33 1 = 1
def flipBit (word : Nat) : Bool := field word 32 1 = 1

/-- The 5-bit second base colour of channel `ch` (0 = R, 1 = G, 2 = B) in differential mode. -/
def diffSecond (word ch : Nat) : Int := (field word (59 - 8 * ch) 5 : Nat) + delta3 (field word (56 - 8 * ch) 3)

/-- A legal ETC1 block: in differential mode every second base colour stays within 0..31. -/
def Legal (word : Nat) : Prop :=
  diffBit word = true → ∀ ch, ch < 3 → 0 ≤ diffSecond word ch ∧ diffSecond word ch ≤ 31

instance (word : Nat) : Decidable (Legal word) := by unfold Legal; infer_instance

/-- Base colour of subblock `sub` (1 or 2), channel `ch`, as an 8-bit value. -/
def base (word sub ch : Nat) : Int :=
  if diffBit word then
    if sub = 1 then ext5 (field word (59 - 8 * ch) 5 : Nat) else ext5 (diffSecond word ch)
  else
    if sub = 1 then ext4 (field word (60 - 8 * ch) 4) else ext4 (field word (56 - 8 * ch) 4)

/-- Subblock (1 or 2) of texel `(x, y)`, `x, y` in 0..3. -/
def subblock (word x y : Nat) : Nat :=
  if flipBit word then (if y < 2 then 1 else 2) else (if x < 2 then 1 else 2)

def clamp255 (v : Int) : Int := max 0 (min 255 v)

/-- Decoded channel `ch` of texel `(x, y)`. -/
def channel (word x y ch : Nat) : Int :=
  let sub := subblock word x y
  let codeword := if sub = 1 then field word 37 3 else field word 34 3
  let i := x * 4 + y
  clamp255 (base word sub ch + modifier codeword (field word (16 + i) 1) (field word i 1))

/-- ETC1A4: the 4-bit alpha of texel `(x, y)` in the 64-bit alpha word (nibble number x*4 + y). -/
def alphaNibble (alphas x y : Nat) : Nat := alphas / 2 ^ (4 * (x * 4 + y)) % 16

/-- The 64-bit colour word of the block that holds pixel `(x, y)` of a `w` pixels wide ETC1
(8-byte blocks) or ETC1A4 (16-byte blocks, alpha word first) payload; words are little-endian. -/
def wordAt (data : Array UInt8) (w : Nat) (alpha : Bool) (x y : Nat) : Nat :=
  Linear.leAt data (Morton.etcBlock w x y * (if alpha then 16 else 8) + (if alpha then 8 else 0)) 8

/-- The 64-bit alpha word of that block (all ones when the format has no alpha). -/
def alphaWordAt (data : Array UInt8) (w : Nat) (alpha : Bool) (x y : Nat) : Nat :=
  if alpha then Linear.leAt data (Morton.etcBlock w x y * 16) 8 else 0xFFFFFFFFFFFFFFFF

end Mila.Spec.Etc1
