/-
Specification for C16, written from the property statement alone (does not mention the model).

An arc image is a bin archive whose *content* `K` — data bytes, string cells and labels — has
  * a label `Count` whose lowest address holds the little-endian number of files,
  * a label `Info` whose lowest address starts a table of 16-byte records
    `(string cell: name, u32 index, u32 size, u32 offset)`, one per file, in any order,
  * either a 0x60-byte zero header (then offsets are relative to its end) or a non-zero first
    data word (then offsets are relative to the start of the data); when no file has a body the
    question does not arise and only the first data word has to exist,
  * for every record the file's bytes at `data[offset + padding ..][.. size]`, wherever that is.
The witnesses (`countAddr`, `infoAddr`) make every clause decidable, so the same definition
judges the images the harness builds.  "Lowest address" is what makes the lookup deterministic
when a label name occurs more than once.
-/
import MilaModel.Basic

namespace Mila.Spec.Arc

/-- Content of a bin archive as far as arc extraction is concerned. -/
structure Content where
  data : Bytes
  /-- string cells: `(cell address, string)` -/
  strings : List (Nat × Bytes)
  /-- labels: `(address, label)`, several per address allowed -/
  labels : List (Nat × Bytes)

abbrev Files := List (Bytes × Bytes)

def COUNT : Bytes := bs ['C', 'o', 'u', 'n', 't']
def INFO : Bytes := bs ['I', 'n', 'f', 'o']

/-- The little-endian 32-bit word at `off`, if inside the data. -/
def u32le (data : Bytes) (off : Nat) : Option Nat :=
  if off + 4 ≤ data.length then some (ofLe ((data.drop off).take 4)) else none

/-- `x` is the lowest address that carries the label `l`. -/
def LowestLabel (K : Content) (l : Bytes) (x : Nat) : Prop :=
  (x, l) ∈ K.labels ∧ ∀ q ∈ K.labels, q.2 = l → x ≤ q.1

instance (K : Content) (l : Bytes) (x : Nat) : Decidable (LowestLabel K l x) := by
  unfold LowestLabel; exact inferInstance

/-- No address carries the label `l`. -/
def NoLabel (K : Content) (l : Bytes) : Prop := ∀ q ∈ K.labels, q.2 ≠ l

/-- A string cell holds one string. -/
def StringsFunctional (K : Content) : Prop := (K.strings.map (·.1)).Nodup

/-- The 0x60-byte zero header is present (`padded`), or the data starts with a non-zero word. -/
def HeaderOk (K : Content) (padded : Bool) : Prop :=
  if padded then 0x60 ≤ K.data.length ∧ K.data.take 0x60 = List.replicate 0x60 0
  else match u32le K.data 0 with
    | some w => w ≠ 0
    | none => False

def padding (padded : Bool) : Nat := if padded then 0x60 else 0

/-- The header question is settled (`HeaderOk`), or it does not arise: no file has a body — an
arc without records or with empty files only never uses an offset, so any data region whose first
word can be read will do (e.g. the empty unpadded arc: the count word 0 alone). -/
def HeaderFits (K : Content) (files : List (Bytes × Bytes)) (padded : Bool) : Prop :=
  HeaderOk K padded ∨ ((u32le K.data 0).isSome ∧ ∀ f ∈ files, f.2 = [])

/-- Record `i` of the table at `infoAddr` names `name` (a string cell) and declares `size`
bytes at offset `off`; its index word is inside the data. -/
def RecordAt (K : Content) (infoAddr i : Nat) (name : Bytes) (size off : Nat) : Prop :=
  (infoAddr + 16 * i, name) ∈ K.strings ∧
  infoAddr + 16 * i + 8 ≤ K.data.length ∧
  u32le K.data (infoAddr + 16 * i + 8) = some size ∧
  u32le K.data (infoAddr + 16 * i + 12) = some off

/-- The bytes of `body` are the data range starting at `start` (an empty body is anywhere). -/
def BodyAt (K : Content) (start : Nat) (body : Bytes) : Prop :=
  (K.data.drop start).take body.length = body

/-- The declared range `[start, start + size)` is not empty and leaves the data. -/
def RangeLeaves (K : Content) (start size : Nat) : Prop := 0 < size ∧ K.data.length < start + size

instance (K : Content) (start size : Nat) : Decidable (RangeLeaves K start size) := by
  unfold RangeLeaves; exact inferInstance

/-- Record `i` describes the file `f` and the file's bytes are where the record says. -/
def FileOk (K : Content) (padded : Bool) (infoAddr i : Nat) (f : Bytes × Bytes) : Prop :=
  match u32le K.data (infoAddr + 16 * i + 12) with
  | some off => RecordAt K infoAddr i f.1 f.2.length off ∧ BodyAt K (off + padding padded) f.2
  | none => False

instance (K : Content) (padded : Bool) (infoAddr i : Nat) (f : Bytes × Bytes) :
    Decidable (FileOk K padded infoAddr i f) := by
  unfold FileOk RecordAt BodyAt; split <;> exact inferInstance

/-- The content `K` is an arc of `files` (records in list order), with the given label addresses. -/
def ConformsArcAt (K : Content) (files : Files) (padded : Bool) (countAddr infoAddr : Nat) : Prop :=
  StringsFunctional K ∧
  LowestLabel K COUNT countAddr ∧ LowestLabel K INFO infoAddr ∧
  HeaderFits K files padded ∧
  u32le K.data countAddr = some files.length ∧
  ∀ i, (h : i < files.length) → FileOk K padded infoAddr i files[i]

instance (K : Content) (padded : Bool) : Decidable (HeaderOk K padded) := by
  unfold HeaderOk; split
  · exact inferInstance
  · split <;> exact inferInstance

instance (K : Content) (files : Files) (padded : Bool) : Decidable (HeaderFits K files padded) := by
  unfold HeaderFits; exact inferInstance

instance (K : Content) (files : Files) (padded : Bool) (ca ia : Nat) :
    Decidable (ConformsArcAt K files padded ca ia) := by
  unfold ConformsArcAt StringsFunctional; exact inferInstance

def ConformsArc (K : Content) (files : Files) (padded : Bool) : Prop :=
  ∃ countAddr infoAddr, ConformsArcAt K files padded countAddr infoAddr

def DistinctNames (files : Files) : Prop := (files.map (·.1)).Nodup

instance (files : Files) : Decidable (DistinctNames files) := by unfold DistinctNames; exact inferInstance

instance (K : Content) (l : Bytes) : Decidable (NoLabel K l) := by unfold NoLabel; exact inferInstance

end Mila.Spec.Arc
