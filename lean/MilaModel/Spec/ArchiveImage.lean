/-
Specification of the bin-archive file format (C01, C02), written from the property statements
alone.  It does not mention the model.

* `Content`  — what an archive *means*: raw data, one string / pointer per annotated cell, label
  lists per address.
* `Conforms enc e file K` — declarative relation "`file` is an image of `K`": header totals exact,
  pointer table = the annotated cells in **any** order, each string cell holds an offset at which
  (anywhere in the text section, shared or duplicated) the encoded string sits NUL-terminated
  inside the file, label table = **any** interleaving of the per-address label lists that keeps
  each address's own order.
* `conformsB` — the executable reading of `Conforms` used as oracle by the driver.
* `canonical enc e K` — the one image the library is supposed to write for `K` (no c-strings).

Strings are UTF-8 byte strings; the text codec is the parameter `enc` (`none` = not encodable).
-/
import MilaModel.Basic

namespace Mila.Spec.Image

/-- The content of an archive.  Lists stand for finite maps (keys distinct, see `Content.WF`);
their order carries no meaning. -/
structure Content where
  data : Bytes
  strings : List (Nat × Bytes)
  pointers : List (Nat × Nat)
  labels : List (Nat × List Bytes)
  deriving Repr

namespace Content

def size (K : Content) : Nat := K.data.length

/-- Addresses of the annotated 4-byte cells. -/
def cells (K : Content) : List Nat := K.pointers.map (·.1) ++ K.strings.map (·.1)

/-- Byte `i` of the data lies inside an annotated cell. -/
def covered (K : Content) (i : Nat) : Prop := ∃ x ∈ K.cells, x ≤ i ∧ i < x + 4

instance (K : Content) (i : Nat) : Decidable (K.covered i) := by unfold covered; infer_instance

/-- Labels of address `x` in their order (`[]` when there is none). -/
def labelsAt (K : Content) (x : Nat) : List Bytes :=
  ((K.labels.find? (fun p => p.1 = x)).map (·.2)).getD []

/-- Number of label-table entries. -/
def labelCount (K : Content) : Nat := (K.labels.map (·.2.length)).sum

/-- Offset of the text section relative to the start of the data. -/
def textStart (K : Content) : Nat := K.data.length + 4 * K.cells.length + 8 * K.labelCount

/-- The quantifier of C01/C02: annotated cells pairwise disjoint and inside the data, pointer
targets and label addresses `≤ size`, one entry per key. -/
structure WF (K : Content) : Prop where
  inside : ∀ x ∈ K.cells, x + 4 ≤ K.data.length
  disjoint : K.cells.Pairwise (fun x y => x + 4 ≤ y ∨ y + 4 ≤ x)
  targets : ∀ p ∈ K.pointers, p.2 ≤ K.data.length
  labelKeys : (K.labels.map (·.1)).Nodup
  labelAddrs : ∀ p ∈ K.labels, p.1 ≤ K.data.length

end Content

/-! ### reading an image -/

/-- The 32-bit word at `pos`, if four bytes are there. -/
def wordAt (e : Endian) (f : Bytes) (pos : Nat) : Option Nat :=
  if pos + 4 ≤ f.length then some (e.dec ((f.drop pos).take 4)) else none

/-- `b ++ [0]` sits at `pos`, inside `f`. -/
def StrAt (f : Bytes) (pos : Nat) (b : Bytes) : Prop := (f.drop pos).take (b.length + 1) = b ++ [0]

instance (f : Bytes) (pos : Nat) (b : Bytes) : Decidable (StrAt f pos b) := by
  unfold StrAt; infer_instance

/-- `file` is a conforming image of the content `K`. -/
structure Conforms (enc : Bytes → Option Bytes) (e : Endian) (f : Bytes) (K : Content) : Prop where
  /-- header totals are exact -/
  hSize : wordAt e f 0 = some f.length
  hData : wordAt e f 4 = some K.data.length
  hPtrs : wordAt e f 8 = some K.cells.length
  hLbls : wordAt e f 12 = some K.labelCount
  /-- data and both tables are inside the file -/
  fits : 0x20 + K.textStart ≤ f.length
  /-- the data bytes are `K`'s, except inside annotated cells -/
  dataEq : ∀ i, i < K.data.length → ¬ K.covered i → f[0x20 + i]? = K.data[i]?
  /-- the pointer table lists exactly the annotated cells, each once, in any order -/
  ptrTable : ∃ t : List Nat, t.Perm K.cells ∧
    ∀ i, (h : i < t.length) → wordAt e f (0x20 + K.data.length + 4 * i) = some t[i]
  /-- a pointer cell stores its target -/
  ptrCells : ∀ p ∈ K.pointers, wordAt e f (0x20 + p.1) = some p.2
  /-- a string cell stores an offset into the text section where the encoded string sits -/
  strCells : ∀ p ∈ K.strings, ∃ v b, wordAt e f (0x20 + p.1) = some v ∧ K.textStart ≤ v ∧
    enc p.2 = some b ∧ StrAt f (0x20 + v) b
  /-- the label table `(address, name offset)`: each name resolves inside the file, and the
      entries of every address, in table order, are that address's labels in their order -/
  lblTable : ∃ t : List (Nat × Nat × Bytes), t.length = K.labelCount ∧
    (∀ i, (h : i < t.length) →
      wordAt e f (0x20 + K.data.length + 4 * K.cells.length + 8 * i) = some t[i].1 ∧
      wordAt e f (0x20 + K.data.length + 4 * K.cells.length + 8 * i + 4) = some t[i].2.1 ∧
      ∃ b, enc t[i].2.2 = some b ∧ StrAt f (0x20 + K.textStart + t[i].2.1) b) ∧
    ∀ x, (t.filter (fun r => r.1 = x)).map (·.2.2) = K.labelsAt x

/-! ### executable oracle -/

def wordsFrom (e : Endian) (f : Bytes) (pos : Nat) : Nat → Option (List Nat)
  | 0 => some []
  | n + 1 => do
    let w ← wordAt e f pos
    let r ← wordsFrom e f (pos + 4) n
    pure (w :: r)

/-- `n` label-table entries `(address, name offset)` from `pos`. -/
def pairsFrom (e : Endian) (f : Bytes) (pos : Nat) : Nat → Option (List (Nat × Nat))
  | 0 => some []
  | n + 1 => do
    let a ← wordAt e f pos
    let o ← wordAt e f (pos + 4)
    let r ← pairsFrom e f (pos + 8) n
    pure ((a, o) :: r)

/-- Number of occurrences of the address `x`. -/
def countAddr (x : Nat) (l : List Nat) : Nat := (l.filter (· = x)).length

/-- Walks the label table; `seen` = addresses of the entries consumed so far.  The `k`-th entry
of an address must resolve to the `k`-th label of that address. -/
def checkLabels (enc : Bytes → Option Bytes) (f : Bytes) (K : Content) (textPos : Nat) :
    List Nat → List (Nat × Nat) → Bool
  | _, [] => true
  | seen, r :: rest =>
    match (K.labelsAt r.1)[countAddr r.1 seen]? with
    | none => false
    | some name =>
      match enc name with
      | none => false
      | some b => decide (StrAt f (textPos + r.2) b) && checkLabels enc f K textPos (r.1 :: seen) rest

/-! The clauses of `Conforms`, one executable check each. -/

/-- One pass over two byte lists: equal wherever the position (counted from `i`) is not covered. -/
def agreeOff (K : Content) : Nat → Bytes → Bytes → Bool
  | _, [], [] => true
  | i, x :: xs, y :: ys => (decide (K.covered i) || x == y) && agreeOff K (i + 1) xs ys
  | _, _, _ => false

def chkData (f : Bytes) (K : Content) : Bool :=
  agreeOff K 0 ((f.drop 0x20).take K.data.length) K.data

def chkPtrTable (e : Endian) (f : Bytes) (K : Content) : Bool :=
  match wordsFrom e f (0x20 + K.data.length) K.cells.length with
  | none => false
  | some t => t.isPerm K.cells

def chkPtrCells (e : Endian) (f : Bytes) (K : Content) : Bool :=
  K.pointers.all (fun p => wordAt e f (0x20 + p.1) == some p.2)

def chkStrCells (enc : Bytes → Option Bytes) (e : Endian) (f : Bytes) (K : Content) : Bool :=
  K.strings.all (fun p =>
    match wordAt e f (0x20 + p.1), enc p.2 with
    | some v, some b => decide (K.textStart ≤ v) && decide (StrAt f (0x20 + v) b)
    | _, _ => false)

def chkLabelTable (enc : Bytes → Option Bytes) (e : Endian) (f : Bytes) (K : Content) : Bool :=
  match pairsFrom e f (0x20 + K.data.length + 4 * K.cells.length) K.labelCount with
  | none => false
  | some lt =>
    checkLabels enc f K (0x20 + K.textStart) [] lt &&
    K.labels.all (fun p => countAddr p.1 (lt.map (·.1)) == (K.labelsAt p.1).length)

/-- Decision procedure for `Conforms`.  Returns the first violated clause
(`Lemmas/SerOracle.lean`: `conformsCheck … = none → Conforms …`). -/
def conformsCheck (enc : Bytes → Option Bytes) (e : Endian) (f : Bytes) (K : Content) :
    Option String :=
  if !(wordAt e f 0 == some f.length) then some "header: file size" else
  if !(wordAt e f 4 == some K.data.length) then some "header: data size" else
  if !(wordAt e f 8 == some K.cells.length) then some "header: pointer count" else
  if !(wordAt e f 12 == some K.labelCount) then some "header: label count" else
  if !(decide (0x20 + K.textStart ≤ f.length)) then some "tables outside the file" else
  if !(chkData f K) then some "data bytes differ outside annotated cells" else
  if !(chkPtrTable e f K) then some "pointer table is not the set of annotated cells (or outside the file)" else
  if !(chkPtrCells e f K) then some "pointer cell does not hold its target" else
  if !(chkStrCells enc e f K) then some "string cell does not resolve to its string in the text section" else
  if !(chkLabelTable enc e f K) then
    some "label table is not an order-preserving interleaving of all the labels (or outside the file)"
  else none

def conformsB (enc : Bytes → Option Bytes) (e : Endian) (f : Bytes) (K : Content) : Bool :=
  (conformsCheck enc e f K).isNone

/-! ### the canonical image -/

/-- Lexicographic `≤` induced by `le` (with `=` decidable): the order of `Vec<T>`. -/
def lexLe {α : Type} [DecidableEq α] (le : α → α → Bool) : List α → List α → Bool
  | [], _ => true
  | _ :: _, [] => false
  | x :: xs, y :: ys => if x = y then lexLe le xs ys else le x y

/-- Byte strings in lexicographic byte order (the order of Rust `String`s). -/
def strLe (a b : Bytes) : Bool := lexLe (fun x y : UInt8 => decide (x ≤ y)) a b

/-- Label buckets: by name list, ties by address. -/
def bucketLe (x y : Nat × List Bytes) : Bool :=
  if x.2 = y.2 then decide (x.1 ≤ y.1) else lexLe strLe x.2 y.2

def byAddr {β : Type} (x y : Nat × β) : Bool := decide (x.1 ≤ y.1)

/-- Keep the first occurrence of every element. -/
def dedupAux {α : Type} [DecidableEq α] (seen : List α) : List α → List α
  | [] => []
  | x :: xs => if x ∈ seen then dedupAux seen xs else x :: dedupAux (x :: seen) xs

def dedup {α : Type} [DecidableEq α] (l : List α) : List α := dedupAux [] l

/-- A stored string: its encoding and the terminating NUL. -/
def entry (enc : Bytes → Option Bytes) (s : Bytes) : Bytes := (enc s).getD [] ++ [0]

/-- Offset of `s` in the concatenation of the entries of `l`. -/
def offsetIn (enc : Bytes → Option Bytes) : List Bytes → Bytes → Nat
  | [], _ => 0
  | x :: xs, s => if x = s then 0 else (entry enc x).length + offsetIn enc xs s

def words (e : Endian) (l : List Nat) : Bytes := l.flatMap (fun v => e.enc 4 v)

/-- Overwrite the word at each listed cell. -/
def patchWords (e : Endian) (data : Bytes) (ws : List (Nat × Nat)) : Bytes :=
  ws.foldl (fun d w => d.take w.1 ++ e.enc 4 w.2 ++ d.drop (w.1 + 4)) data

/-! The canonical image of `K` (C02), piece by piece. -/

/-- Internal pointers ascending by cell address. -/
def sortedPointers (K : Content) : List (Nat × Nat) := K.pointers.mergeSort byAddr

/-- Strings ascending by cell address ("order of use"). -/
def sortedStrings (K : Content) : List (Nat × Bytes) := K.strings.mergeSort byAddr

/-- Labels ascending by address (little-endian) or by name list, then address (big-endian). -/
def sortedLabels (e : Endian) (K : Content) : List (Nat × List Bytes) :=
  match e with
  | .little => K.labels.mergeSort byAddr
  | .big => K.labels.mergeSort bucketLe

/-- The label table entries `(address, name)` in table order. -/
def labelEntries (e : Endian) (K : Content) : List (Nat × Bytes) :=
  (sortedLabels e K).flatMap (fun p => p.2.map (fun n => (p.1, n)))

/-- The strings of the text section: label names in table order, then strings in order of first
use, every distinct string once. -/
def stored (e : Endian) (K : Content) : List Bytes :=
  dedup ((labelEntries e K).map (·.2) ++ (sortedStrings K).map (·.2))

/-- String cells grouped by string in order of first use, ascending inside a group. -/
def stringGroups (K : Content) : List Nat :=
  (dedup ((sortedStrings K).map (·.2))).flatMap
    (fun s => ((sortedStrings K).filter (fun p => p.2 = s)).map (·.1))

/-- The pointer table: internal pointer cells ascending, then the string groups. -/
def ptrTable (K : Content) : List Nat := (sortedPointers K).map (·.1) ++ stringGroups K

def canonTextStart (e : Endian) (K : Content) : Nat :=
  K.data.length + 4 * (ptrTable K).length + 8 * (labelEntries e K).length

/-- The data with every pointer word and string offset patched in. -/
def canonData (enc : Bytes → Option Bytes) (e : Endian) (K : Content) : Bytes :=
  patchWords e K.data (sortedPointers K ++
    (sortedStrings K).map (fun p => (p.1, canonTextStart e K + offsetIn enc (stored e K) p.2)))

def labelTable (enc : Bytes → Option Bytes) (e : Endian) (K : Content) : List Nat :=
  (labelEntries e K).flatMap (fun p => [p.1, offsetIn enc (stored e K) p.2])

def textSection (enc : Bytes → Option Bytes) (e : Endian) (K : Content) : Bytes :=
  (stored e K).flatMap (entry enc)

/-- The canonical image of `K` (C02): header totals; data with the pointer words patched;
internal pointer cells ascending, then string cells grouped by string in order of first use
(ascending inside a group); labels ascending by address (little-endian) or by name list then
address (big-endian); text section = label names in table order, then strings in order of first
use, every distinct string stored once. -/
def canonical (enc : Bytes → Option Bytes) (e : Endian) (K : Content) : Bytes :=
  words e [0x20 + canonTextStart e K + (textSection enc e K).length, K.data.length,
      (ptrTable K).length, (labelEntries e K).length] ++ List.replicate 16 0
    ++ canonData enc e K ++ words e (ptrTable K) ++ words e (labelTable enc e K)
    ++ textSection enc e K

end Mila.Spec.Image
