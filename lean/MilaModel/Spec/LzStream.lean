/-
Specification of LZ10 / LZ11 streams (C08–C11), written from the property statements and the
published format, independent of `Model/*`.

* tokens `lit b | ref len disp`, `expand` (byte-at-a-time copy, so overlapping copies are defined);
* validity (`ValidFrom`): length range of the format, displacement 1…4096 and within the output
  produced so far;
* the byte-level grammar `Encodes ext n toks s`: type byte, 24-bit little-endian length (LZ11: a zero
  24-bit field is followed by a 32-bit length), flag bytes MSB first each followed by its ≤ 8
  tokens, nothing left over; unused bits of the last flag byte are arbitrary;
* a spec *encoder* (`encode`) and an independent spec *parser* (`parse`) used by the oracle.
-/
import MilaModel.Basic

namespace Mila.Spec.Lz

/-- A decoded LZ token. `disp` is the distance back from the write position (1 = previous byte). -/
inductive Tok
  | lit (b : UInt8)
  | ref (len disp : Nat)
  deriving DecidableEq, Repr, Inhabited

def Tok.isRef : Tok → Bool
  | .lit _ => false
  | .ref _ _ => true

/-- Number of bytes a token produces. -/
def Tok.size : Tok → Nat
  | .lit _ => 1
  | .ref len _ => len

/-- Copy `n` bytes from `disp` back, one byte at a time (the source may overlap the bytes being
written). -/
def copyBack (out : Array UInt8) (disp : Nat) : Nat → Array UInt8
  | 0 => out
  | n + 1 => copyBack (out.push (out.getD (out.size - disp) 0)) disp n

def expandFrom (out : Array UInt8) : List Tok → Array UInt8
  | [] => out
  | .lit b :: ts => expandFrom (out.push b) ts
  | .ref len disp :: ts => expandFrom (copyBack out disp len) ts

/-- The data a token list stands for. -/
def expand (toks : List Tok) : Array UInt8 := expandFrom #[] toks

/-- Format of the stream body: LZ10 (`ext = false`) or LZ11 (`ext = true`). -/
def lenOk (ext : Bool) (len : Nat) : Prop :=
  if ext then 3 ≤ len ∧ len ≤ 65808 else 3 ≤ len ∧ len ≤ 18

instance (ext : Bool) (len : Nat) : Decidable (lenOk ext len) := by unfold lenOk; infer_instance

/-- Every back-reference has a legal length, displacement 1…4096, and reaches only into the
`have` bytes produced so far. -/
def ValidFrom (ext : Bool) : Nat → List Tok → Prop
  | _, [] => True
  | have_, .lit _ :: ts => ValidFrom ext (have_ + 1) ts
  | have_, .ref len disp :: ts =>
    lenOk ext len ∧ 1 ≤ disp ∧ disp ≤ 4096 ∧ disp ≤ have_ ∧ ValidFrom ext (have_ + len) ts

def Valid (ext : Bool) (toks : List Tok) : Prop := ValidFrom ext 0 toks

instance decValidFrom (ext : Bool) : (h : Nat) → (ts : List Tok) → Decidable (ValidFrom ext h ts)
  | _, [] => isTrue trivial
  | h, .lit _ :: ts => decValidFrom ext (h + 1) ts
  | h, .ref len disp :: ts =>
    have := decValidFrom ext (h + len) ts
    by unfold ValidFrom; infer_instance

/-! ### Token bytes -/

/-- The bytes of one token. A reference of length `len` has exactly one encoding:
LZ10: `(len-3)<<4 | (disp-1)>>8, (disp-1)&0xFF`;
LZ11: 3…16 in two bytes (high nibble `len-1` ≥ 2), 17…272 in three (high nibble 0),
273…65808 in four (high nibble 1). -/
def tokBytes (ext : Bool) : Tok → Bytes
  | .lit b => [b]
  | .ref len disp =>
    let d := disp - 1
    if !ext then
      [UInt8.ofNat (16 * (len - 3) + d / 256), UInt8.ofNat (d % 256)]
    else if len ≤ 16 then
      [UInt8.ofNat (16 * (len - 1) + d / 256), UInt8.ofNat (d % 256)]
    else if len ≤ 272 then
      let v := len - 17
      [UInt8.ofNat (v / 16), UInt8.ofNat (16 * (v % 16) + d / 256), UInt8.ofNat (d % 256)]
    else
      let v := len - 273
      [UInt8.ofNat (16 + v / 4096), UInt8.ofNat (v / 16 % 256),
       UInt8.ofNat (16 * (v % 16) + d / 256), UInt8.ofNat (d % 256)]

/-- Bit `7 - i` of the flag byte says whether token `i` of the group is a reference; bits beyond
the group are unconstrained. -/
def FlagOk (f : UInt8) (g : List Tok) : Prop :=
  ∀ i (h : i < g.length), f.toNat.testBit (7 - i) = (g[i]).isRef

/-- Flag groups: every group but the last holds exactly eight tokens. -/
inductive Groups (ext : Bool) : List Tok → Bytes → Prop
  | nil : Groups ext [] []
  | group (f : UInt8) (g rest : List Tok) (bs : Bytes) :
      g ≠ [] → g.length ≤ 8 → (rest ≠ [] → g.length = 8) → FlagOk f g → Groups ext rest bs →
      Groups ext (g ++ rest) (f :: (g.flatMap (tokBytes ext) ++ bs))

/-- Stream header: type byte and 24-bit length; LZ11 stores a length that does not fit (or is
zero) as a zero field followed by a 32-bit length. -/
def header (ext : Bool) (n : Nat) : Bytes :=
  if ext then
    if n = 0 ∨ 2 ^ 24 ≤ n then 0x11 :: 0 :: 0 :: 0 :: leBytes 4 n
    else 0x11 :: leBytes 3 n
  else 0x10 :: leBytes 3 n

/-- `s` is a well-formed stream announcing `n` bytes and carrying the tokens `toks`. -/
def Encodes (ext : Bool) (n : Nat) (toks : List Tok) (s : Bytes) : Prop :=
  ∃ body, s = header ext n ++ body ∧ Groups ext toks body

/-- A complete conforming stream for `toks`: valid tokens, announced length = expansion length,
length representable in the format. -/
def Conforms (ext : Bool) (toks : List Tok) (s : Bytes) : Prop :=
  Valid ext toks ∧ Encodes ext (expand toks).size toks s ∧
    (expand toks).size < (if ext then 2 ^ 32 else 2 ^ 24)

/-! ### Spec encoder (token list → bytes) -/

/-- Flag value of a group: bit `7 - i` set iff token `i` is a reference. -/
def flagOf : Nat → List Tok → Nat
  | _, [] => 0
  | i, t :: ts => (if t.isRef then 2 ^ (7 - i) else 0) ||| flagOf (i + 1) ts

/-- Encode the groups; `junk` supplies the unused low bits of the last flag byte. -/
def encodeGroups (ext : Bool) (junk : UInt8) : Nat → List Tok → Bytes
  | 0, _ => []
  | _, [] => []
  | fuel + 1, toks =>
    let g := toks.take 8
    let rest := toks.drop 8
    let f := flagOf 0 g
    let f := if rest.isEmpty then f ||| junk.toNat % 2 ^ (8 - g.length) else f
    UInt8.ofNat f :: g.flatMap (tokBytes ext) ++ encodeGroups ext junk fuel rest

def encode (ext : Bool) (junk : UInt8) (toks : List Tok) : Bytes :=
  header ext (expand toks).size ++ encodeGroups ext junk toks.length toks

/-! ### Spec parser (independent decoder used as oracle) -/

inductive ParseErr
  | empty | shortHeader | unknownType | truncated | refBeforeStart | leftover | overshoot | nonCanonical
  deriving DecidableEq, Repr

def ParseErr.name : ParseErr → String
  | .empty => "empty" | .shortHeader => "short-header" | .unknownType => "unknown-type"
  | .truncated => "truncated" | .refBeforeStart => "ref-before-start" | .leftover => "leftover-bytes"
  | .overshoot => "length-overshoot" | .nonCanonical => "non-canonical-extended-length"

/-- Parse one token whose flag bit is `isRef`; `have_` = bytes produced so far. -/
def parseTok (ext : Bool) (isRef : Bool) (have_ : Nat) (s : Bytes) : Except ParseErr (Tok × Bytes) :=
  if !isRef then
    match s with
    | b :: s => .ok (.lit b, s)
    | [] => .error .truncated
  else
    match s with
    | b0 :: b1 :: s =>
      let b0 := b0.toNat
      let b1 := b1.toNat
      let fin (len disp : Nat) (s : Bytes) : Except ParseErr (Tok × Bytes) :=
        if disp ≤ have_ then .ok (.ref len disp, s) else .error .refBeforeStart
      if !ext then fin (b0 / 16 + 3) (b0 % 16 * 256 + b1 + 1) s
      else if b0 / 16 ≥ 2 then fin (b0 / 16 + 1) (b0 % 16 * 256 + b1 + 1) s
      else if b0 / 16 = 0 then
        match s with
        | b2 :: s => fin (b0 % 16 * 16 + b1 / 16 + 17) (b1 % 16 * 256 + b2.toNat + 1) s
        | [] => .error .truncated
      else
        match s with
        | b2 :: b3 :: s =>
          fin (b0 % 16 * 4096 + b1 * 16 + b2.toNat / 16 + 273) (b2.toNat % 16 * 256 + b3.toNat + 1) s
        | _ => .error .truncated
    | _ => .error .truncated

/-- Parse the tokens governed by one flag byte, from bit `7 - i` down. -/
def parseGroup (ext : Bool) (n : Nat) (f : Nat) : Nat → Nat → Bytes → List Tok →
    Except ParseErr (Nat × Bytes × List Tok)
  | 0, have_, s, acc => .ok (have_, s, acc)
  | k + 1, have_, s, acc =>
    if have_ ≥ n then .ok (have_, s, acc)
    else
      match parseTok ext (f.testBit k) have_ s with
      | .error e => .error e
      | .ok (t, s') => parseGroup ext n f k (have_ + t.size) s' (t :: acc)

def parseGroups (ext : Bool) (n : Nat) : Nat → Nat → Bytes → List Tok → Except ParseErr (List Tok)
  | 0, _, _, _ => .error .truncated
  | fuel + 1, have_, s, acc =>
    if have_ > n then .error .overshoot
    else if have_ = n then (if s.isEmpty then .ok acc.reverse else .error .leftover)
    else
      match s with
      | [] => .error .truncated
      | f :: s =>
        match parseGroup ext n f.toNat 8 have_ s acc with
        | .error e => .error e
        | .ok (have', s', acc') => parseGroups ext n fuel have' s' acc'

/-- Parse a whole LZ10/LZ11 stream: `(ext, n, toks)`. -/
def parse (s : Bytes) : Except ParseErr (Bool × Nat × List Tok) :=
  match s with
  | [] => .error .empty
  | t :: l0 :: l1 :: l2 :: body =>
    if t ≠ 0x10 ∧ t ≠ 0x11 then .error .unknownType else
    let ext := t == 0x11
    let n := ofLe [l0, l1, l2]
    if n = 0 ∧ ext then
      match body with
      | a :: b :: c :: d :: body =>
        let n := ofLe [a, b, c, d]
        -- the extended word is for lengths the 24-bit field cannot hold (and for 0)
        if n ≠ 0 ∧ n < 2 ^ 24 then .error .nonCanonical else
        (parseGroups ext n (body.length + 1) 0 body []).map (fun toks => (ext, n, toks))
      | _ => .error .truncated
    else (parseGroups ext n (body.length + 1) 0 body []).map (fun toks => (ext, n, toks))
  | t :: _ => if t ≠ 0x10 ∧ t ≠ 0x11 then .error .unknownType else .error .shortHeader

/-- Executable validity check (same as `decide (Valid ext toks)`, linear). -/
def validB (ext : Bool) (toks : List Tok) : Bool := decide (ValidFrom ext 0 toks)

end Mila.Spec.Lz
