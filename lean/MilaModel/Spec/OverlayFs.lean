/-
Specification for C12 / C13 (and the filesystem clause of C14), written from the property
statements.  It does not mention the model.

The observable state of a layered filesystem is one *directory walk* per layer: the finite set of
entries (relative path as a list of plain components ↦ regular file with its stored bytes, or
directory).  Layers are listed lowest priority first; the last one is the highest-priority layer.
Everything here is either a declarative predicate or the simplest reference algorithm over walks
(top-down search, union), executable so that the driver can judge the implementation's own
directory walks and return values with it.
-/
import MilaModel.Basic
import MilaModel.Spec.LocalizeTable

namespace Mila.Spec.Overlay

inductive Kind
  | file (b : Bytes)
  | dir
  deriving DecidableEq, Repr

/-- Relative path of plain components. -/
abbrev Path := List Bytes

/-- Directory walk of one layer (the layer root itself is not listed). -/
abbrev Walk := List (Path × Kind)

/-- What the walk shows at a path; the layer root always exists and is a directory. -/
def Walk.at (w : Walk) (c : Path) : Option Kind :=
  if c = [] then some .dir else (w.find? (fun e => decide (e.1 = c))).map (·.2)

/-- A location named by a path string of the domain: its components and whether the string ends
in `/` (or is empty), in which case it can only denote a directory. -/
structure Loc where
  comps : Path
  dirOnly : Bool
  deriving DecidableEq, Repr

def slash : UInt8 := 0x2F

/-- Path strings of the domain: plain components separated by single slashes, optionally one
trailing slash; the empty string names the layer root. -/
def locOf (p : Bytes) : Option Loc :=
  if p = [] then some ⟨[], true⟩ else
  let pieces := splitOn' slash p
  let (cs, trailing) :=
    if pieces.length ≥ 2 ∧ pieces.getLast? = some [] then (pieces.dropLast, true) else (pieces, false)
  if cs.all (fun c => decide (Spec.Loc.Plain c)) then some ⟨cs, trailing⟩ else none

def Walk.fileAt (w : Walk) (q : Loc) : Option Bytes :=
  if q.dirOnly then none else
  match w.at q.comps with
  | some (.file b) => some b
  | _ => none

def Walk.dirAt (w : Walk) (q : Loc) : Bool := w.at q.comps = some .dir

def Walk.existsAt (w : Walk) (q : Loc) : Bool := (w.fileAt q).isSome || w.dirAt q

/-! ### walks of real directory trees, and the kernel's path walk -/

/-- What every directory walk of a real tree satisfies: no path is reported twice, the root is not
reported, and the parent directory of every reported entry is itself reported as a directory. -/
def Walk.IsTree (w : Walk) : Prop :=
  (w.map (·.1)).Nodup ∧ (∀ e ∈ w, e.1 ≠ []) ∧ (∀ e ∈ w, w.at e.1.dropLast = some .dir)

/-- Non-empty proper prefixes of a path (its ancestors below the root). -/
def ancestors (c : Path) : List Path := (List.range (c.length - 1)).map (fun i => c.take (i + 1))

/-- The kernel's path walk on the tree a walk describes: an entry is reached only through
directories (`stat("file/x")` = ENOTDIR even if some stale entry were recorded below the file). -/
def Walk.posixAt (w : Walk) (c : Path) : Option Kind :=
  if (ancestors c).all (fun a => decide (w.at a = some .dir)) then w.at c else none

def Walk.posixFileAt (w : Walk) (q : Loc) : Option Bytes :=
  if q.dirOnly then none else
  match w.posixAt q.comps with
  | some (.file b) => some b
  | _ => none

/-! ### C12: top layer wins -/

/-- Stored bytes of the highest-priority layer that contains the file. -/
def topFile (ws : List Walk) (q : Loc) : Option Bytes := ws.reverse.findSome? (fun w => w.fileAt q)

def anyExists (ws : List Walk) (q : Loc) : Bool := ws.any (fun w => w.existsAt q)
def anyFile (ws : List Walk) (q : Loc) : Bool := ws.any (fun w => (w.fileAt q).isSome)
def anyDir (ws : List Walk) (q : Loc) : Bool := ws.any (fun w => w.dirAt q)

/-- Index of the highest-priority layer in which the path exists. -/
def topExists : List Walk → Loc → Option Nat
  | [], _ => none
  | w :: rest, q =>
    match topExists rest q with
    | some i => some (i + 1)
    | none => if w.existsAt q then some 0 else none

/-- The same search with the kernel's path walk in every layer. -/
def topFilePosix (ws : List Walk) (q : Loc) : Option Bytes := ws.reverse.findSome? (fun w => w.posixFileAt q)

/-- Declarative reading of `topFile`: layer `i` has the file and no higher layer has it. -/
def IsTopFile (ws : List Walk) (q : Loc) (b : Bytes) : Prop :=
  ∃ lo w hi, ws = lo ++ w :: hi ∧ w.fileAt q = some b ∧ ∀ w' ∈ hi, w'.fileAt q = none

/-! ### C12: writes stay on top -/

def properPrefixes (c : Path) : List Path := (List.range (c.length - 1)).map (fun i => c.take (i + 1))

/-- Two walks show the same tree. -/
def sameTree (a b : Walk) : Bool :=
  a.all (fun e => decide (e.1 ≠ [] ∧ b.at e.1 = some e.2)) && b.all (fun e => decide (e.1 ≠ [] ∧ a.at e.1 = some e.2))

/-- `after` is `before` plus (possibly) directories on the way to `c`, nothing else. -/
def onlyAncestorDirsAdded (before after : Walk) (c : Path) : Bool :=
  before.all (fun e => decide (after.at e.1 = some e.2)) &&
  after.all (fun e => decide (before.at e.1 = some e.2) ||
    (decide (before.at e.1 = none) && decide (e.2 = .dir) && (properPrefixes c).contains e.1))

def notFile : Option Kind → Bool
  | some (.file _) => false
  | _ => true

/-- A write can be carried out in the top layer: the path names a file position whose ancestors
are not regular files and which is not itself a directory. -/
def writable (top : Walk) (q : Loc) : Bool :=
  !q.dirOnly && !q.comps.isEmpty &&
  (properPrefixes q.comps).all (fun a => notFile (top.at a)) &&
  decide (top.at q.comps ≠ some .dir)

/-- The top layer after a successful write of stored bytes `s` at `q`: the file is there, its
ancestors are directories, every other path is as before. -/
def writtenTop (before after : Walk) (q : Loc) (s : Bytes) : Bool :=
  decide (after.at q.comps = some (.file s)) &&
  (properPrefixes q.comps).all (fun a => decide (after.at a = some .dir)) &&
  before.all (fun e => decide (e.1 = q.comps) || decide (after.at e.1 = some e.2)) &&
  after.all (fun e => decide (e.1 = q.comps) || decide (before.at e.1 = some e.2) ||
    (decide (before.at e.1 = none) && decide (e.2 = .dir) && (properPrefixes q.comps).contains e.1))

/-- A directory can be created: no component on the way (the path itself included) is a regular file. -/
def dirCreatable (top : Walk) (q : Loc) : Bool :=
  ((properPrefixes q.comps) ++ [q.comps]).all (fun a => notFile (top.at a))

def createdTop (before after : Walk) (q : Loc) : Bool :=
  ((properPrefixes q.comps) ++ [q.comps]).all (fun a => decide (after.at a = some .dir)) &&
  before.all (fun e => decide (after.at e.1 = some e.2)) &&
  after.all (fun e => decide (before.at e.1 = some e.2) ||
    (decide (before.at e.1 = none) && decide (e.2 = .dir) && ((properPrefixes q.comps) ++ [q.comps]).contains e.1))

/-- Lower layers are untouched by a write (same walks, entry for entry). -/
def lowerUntouched (before after : List Walk) : Bool :=
  decide (before.length = after.length) && decide (before.dropLast = after.dropLast)

/-! ### C12: configuration per game -/

inductive Endianness | big | little
  deriving DecidableEq, Repr
inductive TextEnc | shiftJis | utf16
  deriving DecidableEq, Repr
inductive LzFormat | lz10 | lz13
  deriving DecidableEq, Repr

structure Config where
  endian : Endianness
  text : TextEnc
  lz : LzFormat
  deriving DecidableEq, Repr

/-- "big-endian, Shift-JIS text and LZ10 for FE9/FE10; little-endian, UTF-16 text and LZ13 for FE13-FE15". -/
def config : Spec.Loc.Game → Config
  | .FE9 => ⟨.big, .shiftJis, .lz10⟩
  | .FE10 => ⟨.big, .shiftJis, .lz10⟩
  | .FE13 => ⟨.little, .utf16, .lz13⟩
  | .FE14 => ⟨.little, .utf16, .lz13⟩
  | .FE15 => ⟨.little, .utf16, .lz13⟩

/-- The file-name suffixes that mark compressed files. -/
def suffixes : LzFormat → List Bytes
  | .lz10 => [bs ['.', 'c', 'm', 's'], bs ['.', 'c', 'm', 'p']]
  | .lz13 => [bs ['.', 'l', 'z']]

def hasCompressedSuffix (g : Spec.Loc.Game) (path : Bytes) : Bool :=
  (suffixes (config g).lz).any (fun s => s.isSuffixOf path)

/-! ### C13: listings -/

/-- The small glob family of the property. -/
inductive Pat
  | all                          -- no pattern, or `**/*`: everything below, recursively
  | children                     -- `*`
  | childrenExt (ext : Bytes)    -- `*.ext`
  | allExt (ext : Bytes)         -- `**/*.ext`
  | inDir (lit : Bytes)          -- `lit/*`
  deriving DecidableEq, Repr

def dotExt (ext : Bytes) : Bytes := 0x2E :: ext

/-- Does the path `rel`, relative to the listed directory, match? -/
def Pat.matches : Pat → Path → Bool
  | .all, rel => !rel.isEmpty
  | .children, rel => rel.length == 1
  | .childrenExt ext, rel =>
    match rel with
    | [n] => (dotExt ext).isSuffixOf n
    | _ => false
  | .allExt ext, rel =>
    match rel.getLast? with
    | some n => (dotExt ext).isSuffixOf n
    | none => false
  | .inDir lit, rel =>
    match rel with
    | [a, _] => a == lit
    | _ => false

/-- The caller's pattern string; `none` = no pattern given. -/
def Pat.glob : Pat → List (Option Bytes)
  | .all => [none, some (bs ['*', '*', '/', '*'])]
  | .children => [some (bs ['*'])]
  | .childrenExt ext => [some (bs ['*'] ++ dotExt ext)]
  | .allExt ext => [some (bs ['*', '*', '/', '*'] ++ dotExt ext)]
  | .inDir lit => [some (lit ++ bs ['/', '*'])]

/-- Entries of one layer found under directory `d` (files and directories, `d` itself excluded);
nothing if `d` is not a directory of that layer. -/
def entriesUnder (w : Walk) (d : Path) (p : Pat) : List Path :=
  if w.at d = some .dir then
    (w.filter (fun e => d.isPrefixOf e.1 && decide (d.length < e.1.length) && p.matches (e.1.drop d.length))).map (·.1)
  else []

/-- Immediate child directories of `d` in one layer. -/
def childDirs (w : Walk) (d : Path) : List Path :=
  if w.at d = some .dir then
    (w.filter (fun e => d.isPrefixOf e.1 && decide (e.1.length = d.length + 1) && decide (e.2 = .dir))).map (·.1)
  else []

/-- A layer-relative path as the string the API returns. -/
def showPath (c : Path) : Bytes := joinWith slash c

/-- Byte-wise lexicographic strict order (the order of Rust `String`s). -/
def ltB : Bytes → Bytes → Bool
  | _, [] => false
  | [], _ :: _ => true
  | a :: as, b :: bs => a < b || (a == b && ltB as bs)

/-- `result` is the ascending, duplicate-free enumeration of the union over all layers. -/
def IsSortedUnion (perLayer : List (List Path)) (result : List Bytes) : Prop :=
  result.Pairwise (fun a b => ltB a b = true) ∧
  ∀ x, x ∈ result ↔ ∃ es ∈ perLayer, ∃ c ∈ es, x = showPath c

def IsListing (ws : List Walk) (d : Path) (p : Pat) (result : List Bytes) : Prop :=
  IsSortedUnion (ws.map (fun w => entriesUnder w d p)) result

def IsSubdirListing (ws : List Walk) (d : Path) (result : List Bytes) : Prop :=
  IsSortedUnion (ws.map (fun w => childDirs w d)) result

def strictlyAscending : List Bytes → Bool
  | [] => true
  | [_] => true
  | a :: b :: rest => ltB a b && strictlyAscending (b :: rest)

/-- Executable form of `IsSortedUnion` (the driver's oracle). -/
def checkSortedUnion (perLayer : List (List Path)) (result : List Bytes) : Bool :=
  strictlyAscending result &&
  result.all (fun x => perLayer.any (fun es => es.any (fun c => showPath c == x))) &&
  perLayer.all (fun es => es.all (fun c => result.contains (showPath c)))

end Mila.Spec.Overlay
