/-
Specification for C18 (asset binary), written from the property statement only — no reference to
the model.  A spec has a name cell, 33 optional strings (fields 1..=33) and 18 optional typed
fields (fields 34..=51: a presence flag and a 4-byte value).  Fields 32..=51 are the *extended*
fields.

The property: re-reading a serialised binary returns the same header flags and the same specs —
every optional string, and every typed field together with its presence flag (an absent typed
field carries no value in the file: it reads back as the default, `normalize`); the short record
form (4 flag bytes) is used exactly when no extended field is present (otherwise 8 flag bytes, and
bit 0 of the first byte marks it); a record occupies exactly the bytes its flags announce
(flag bytes + name cell + one word per announced field); re-serialising reproduces the bytes.
-/
import MilaModel.Basic

namespace Mila.Spec.Asset

/-- Domain of one spec: 33 optional strings, 18 typed fields of 4 bytes each. -/
def WF (strs : List (Option Bytes)) (vals : List (Bool × Bytes)) : Prop :=
  strs.length = 33 ∧ vals.length = 18 ∧ ∀ v ∈ vals, v.2.length = 4

instance (strs : List (Option Bytes)) (vals : List (Bool × Bytes)) : Decidable (WF strs vals) := by
  unfold WF; exact inferInstance

/-- What "the same typed fields together with their presence flags" means for a `(use, value)`
pair: a field that is not in use has no value in the file and reads back as zero. -/
def normalizeVals (vals : List (Bool × Bytes)) : List (Bool × Bytes) :=
  vals.map (fun v => if v.1 then v else (false, [0, 0, 0, 0]))

/-- Number of present fields. -/
def presentCount (strs : List (Option Bytes)) (vals : List (Bool × Bytes)) : Nat :=
  strs.countP (·.isSome) + vals.countP (·.1)

/-- Some extended field (string 32, 33 or any typed field) is present. -/
def extended (strs : List (Option Bytes)) (vals : List (Bool × Bytes)) : Bool :=
  (strs.drop 31).any (·.isSome) || vals.any (·.1)

def flagBytes (strs : List (Option Bytes)) (vals : List (Bool × Bytes)) : Nat :=
  if extended strs vals then 8 else 4

/-- Length of one record. -/
def recordLen (strs : List (Option Bytes)) (vals : List (Bool × Bytes)) : Nat :=
  flagBytes strs vals + 4 + 4 * presentCount strs vals

/-- Size of the data section: header flags, the records, the terminator. -/
def dataSize (specs : List (List (Option Bytes) × List (Bool × Bytes))) : Nat :=
  4 + (specs.map (fun s => recordLen s.1 s.2)).sum + 4

/-- Is field `i` (1..=51) present? -/
def fieldPresent (strs : List (Option Bytes)) (vals : List (Bool × Bytes)) (i : Nat) : Bool :=
  if i = 0 then false
  else if i ≤ 33 then (match strs[i - 1]? with | some (some _) => true | _ => false)
  else (match vals[i - 34]? with | some (true, _) => true | _ => false)

/-! ### What the flag bytes of a record announce -/

def popcount8 (b : Nat) : Nat := (List.range 8).countP (fun i => b.testBit i)

/-- Bit `i` of a flag vector (byte `i / 8`, bit `i % 8`). -/
def flagAt (flags : List Nat) (i : Nat) : Bool := (flags.getD (i / 8) 0).testBit (i % 8)

/-- The record is in the long form (bit 0 of its first byte). -/
def marked (flags : List Nat) : Bool := flagAt flags 0

/-- Number of fields a flag vector announces (every set bit except the marker). -/
def announcedFields (flags : List Nat) : Nat :=
  (flags.map popcount8).sum - (if marked flags then 1 else 0)

/-- Bytes a record with these flag bytes occupies: flags, name cell, one word per announced field. -/
def announcedLen (flags : List Nat) : Nat := flags.length + 4 + 4 * announcedFields flags

/-- Walk `n` records of a data section starting at `off`, reading only flag bytes: for each record
its flag vector; `none` if the data ends early.  (Independent reader used by the oracle.) -/
def walk (data : Bytes) : Nat → Nat → Option (List (List Nat) × Nat)
  | 0, off => some ([], off)
  | n + 1, off =>
    match data[off]? with
    | none => none
    | some b0 =>
      let k := if b0.toNat.testBit 0 then 8 else 4
      if off + k ≤ data.length then
        let flags := ((data.drop off).take k).map (·.toNat)
        match walk data n (off + announcedLen flags) with
        | some (rest, e) => some (flags :: rest, e)
        | none => none
      else none

end Mila.Spec.Asset
