/-
Specification for C15, written from the property statement alone (does not mention the model).

A *pack image* for an ordered list of named files `m` is any byte string in which
  * bytes 0..4 are the magic "pack", bytes 4..6 the big-endian number of files,
  * the 16-byte record `i` (at `8 + 16 i`) holds, after four ignored bytes, three big-endian
    words: a name address, a file address and the exact file size,
  * at the name address the encoded name sits, NUL terminated, inside the image,
  * at the file address the file's bytes sit inside the image.
Nothing is said about *where* names and bodies are placed: they may come in any order, be
shared, overlap, or leave gaps.  `enc` is the text encoding of names (Shift-JIS in mila).
All clauses are decidable, so the same definition is the oracle that judges the implementation's
images in the correspondence check.
-/
import MilaModel.Basic

namespace Mila.Spec.Pack

abbrev Files := List (Bytes × Bytes)

def MAGIC : Nat := 0x7061636B

/-- `b` occupies `img[off .. off + b.length]` (entirely inside the image). -/
def At (img : Bytes) (off : Nat) (b : Bytes) : Prop :=
  off + b.length ≤ img.length ∧ (img.drop off).take b.length = b

instance (img : Bytes) (off : Nat) (b : Bytes) : Decidable (At img off b) := by
  unfold At; exact inferInstance

/-- The big-endian `k`-byte number stored at `off`, if those bytes are inside the image. -/
def word (img : Bytes) (off k : Nat) : Option Nat :=
  if off + k ≤ img.length then some (ofBe ((img.drop off).take k)) else none

/-- Record `i` describes the file `kv` and its name and body are where the record says. -/
def EntryOk (enc : Bytes → Option Bytes) (img : Bytes) (i : Nat) (kv : Bytes × Bytes) : Prop :=
  match word img (8 + 16 * i + 4) 4, word img (8 + 16 * i + 8) 4, word img (8 + 16 * i + 12) 4,
      enc kv.1 with
  | some nameAddr, some fileAddr, some size, some name =>
    size = kv.2.length ∧ At img nameAddr (name ++ [0]) ∧ At img fileAddr kv.2
  | _, _, _, _ => False

instance (enc : Bytes → Option Bytes) (img : Bytes) (i : Nat) (kv : Bytes × Bytes) :
    Decidable (EntryOk enc img i kv) := by
  unfold EntryOk; split <;> exact inferInstance

/-- `img` is a pack image of the ordered files `m`. -/
def ConformsPack (enc : Bytes → Option Bytes) (img : Bytes) (m : Files) : Prop :=
  m.length ≤ 65535 ∧
  word img 0 4 = some MAGIC ∧
  word img 4 2 = some m.length ∧
  ∀ i, (h : i < m.length) → EntryOk enc img i m[i]

instance (enc : Bytes → Option Bytes) (img : Bytes) (m : Files) : Decidable (ConformsPack enc img m) := by
  unfold ConformsPack; exact inferInstance

/-- Every recorded file address of the first `n` records is a multiple of 32. -/
def Aligned32 (img : Bytes) (n : Nat) : Prop :=
  ∀ i, i < n → match word img (8 + 16 * i + 8) 4 with
    | some fileAddr => fileAddr % 32 = 0
    | none => False

instance (img : Bytes) (n : Nat) : Decidable (Aligned32 img n) := by
  unfold Aligned32
  have : ∀ i, Decidable (match word img (8 + 16 * i + 8) 4 with
    | some fileAddr => fileAddr % 32 = 0
    | none => False) := fun i => by split <;> exact inferInstance
  exact inferInstance

/-- Names are pairwise distinct (the quantifier of the property: "distinct names"). -/
def DistinctNames (m : Files) : Prop := (m.map (·.1)).Nodup

instance (m : Files) : Decidable (DistinctNames m) := by unfold DistinctNames; exact inferInstance

/-! ### Linear-time evaluation on a byte array

`ConformsPack` / `Aligned32` above are evaluated on lists, which costs `O(offset)` per access:
fine for the ordinary stream, hopeless for images of 32768–65535 files.  `fastCheck` evaluates the
very same clauses (magic, count, three words per record, exact size, NUL-terminated encoded name
inside the image, body inside the image, file address ≡ 0 mod 32) with `O(1)` access; the driver
cross-checks it against the declarative definition on every large case of at most 300 files. -/

def beWord (b : ByteArray) (off k : Nat) : Option Nat :=
  if off + k ≤ b.size then
    some ((List.range k).foldl (fun acc j => acc * 256 + (b.get! (off + j)).toNat) 0)
  else none

def holdsAt (b : ByteArray) (off : Nat) (x : Bytes) : Bool :=
  decide (off + x.length ≤ b.size) && go x off
where
  go : Bytes → Nat → Bool
    | [], _ => true
    | v :: vs, o => b.get! o == v && go vs (o + 1)

/-- The first violated clause of `ConformsPack enc img [file 0, …, file (n-1)] ∧ Aligned32 img n`,
or `none` when all hold. -/
def fastCheck (enc : Bytes → Option Bytes) (img : ByteArray) (n : Nat) (file : Nat → Bytes × Bytes) :
    Option String := Id.run do
  if n > 65535 then return some "more than 65535 files"
  if beWord img 0 4 != some MAGIC then return some "magic"
  if beWord img 4 2 != some n then return some "header count differs from the number of files"
  for i in [0:n] do
    let kv := file i
    match beWord img (8 + 16 * i + 4) 4, beWord img (8 + 16 * i + 8) 4, beWord img (8 + 16 * i + 12) 4,
        enc kv.1 with
    | some nameAddr, some fileAddr, some size, some name =>
      if size != kv.2.length then return some s!"record {i}: size"
      if !holdsAt img nameAddr (name ++ [0]) then return some s!"record {i}: name not at its address"
      if !holdsAt img fileAddr kv.2 then return some s!"record {i}: body not at its address"
      if fileAddr % 32 != 0 then return some s!"record {i}: file address not a multiple of 32"
    | _, _, _, _ => return some s!"record {i}: outside the image / name not encodable"
  return none

end Mila.Spec.Pack
