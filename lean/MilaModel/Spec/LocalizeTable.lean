/-
Specification for C14, written from the property statement alone (does not mention the model).
A relative path of plain components `d₁/…/dₙ/l` localises to `d₁/…/dₙ ++ marker ++ l`; a
single component `c` to `c ++ marker`.  `marker g lang` is the text inserted *between* the
directory part and the final component, slash included.
-/
import MilaModel.Basic

namespace Mila.Spec.Loc

inductive Game | FE9 | FE10 | FE13 | FE14 | FE15
  deriving DecidableEq, Repr
inductive Language | EnglishNA | EnglishEU | Japanese | Spanish | French | Italian | German | Dutch
  deriving DecidableEq, Repr

/-- 3DS games: a language directory; GameCube/Wii games: a file-name prefix. `none` = unsupported. -/
def langDir : Game → Language → Option Bytes
  | .FE13, .Japanese => some (bs []) | .FE14, .Japanese => some (bs [])
  | .FE13, .EnglishNA => some (bs ['E', '/']) | .FE13, .EnglishEU => some (bs ['U', '/']) | .FE13, .Spanish => some (bs ['S', '/'])
  | .FE13, .French => some (bs ['F', '/']) | .FE13, .German => some (bs ['G', '/']) | .FE13, .Italian => some (bs ['I', '/'])
  | .FE13, .Dutch => none
  | .FE14, .EnglishNA => some (bs ['@', 'E', '/']) | .FE14, .EnglishEU => some (bs ['@', 'U', '/']) | .FE14, .Spanish => some (bs ['@', 'S', '/'])
  | .FE14, .French => some (bs ['@', 'F', '/']) | .FE14, .German => some (bs ['@', 'G', '/']) | .FE14, .Italian => some (bs ['@', 'I', '/'])
  | .FE14, .Dutch => none
  | .FE15, .EnglishNA => some (bs ['@', 'N', 'O', 'A', '_', 'E', 'N', '/']) | .FE15, .EnglishEU => some (bs ['@', 'N', 'O', 'E', '_', 'E', 'N', '/'])
  | .FE15, .Japanese => some (bs ['@', 'J', '/']) | .FE15, .Spanish => some (bs ['@', 'N', 'O', 'E', '_', 'S', 'P', '/'])
  | .FE15, .French => some (bs ['@', 'N', 'O', 'E', '_', 'F', 'R', '/']) | .FE15, .German => some (bs ['@', 'N', 'O', 'E', '_', 'G', 'E', '/'])
  | .FE15, .Italian => some (bs ['@', 'N', 'O', 'E', '_', 'I', 'T', '/']) | .FE15, .Dutch => some (bs ['@', 'N', 'O', 'E', '_', 'D', 'U', '/'])
  -- file-name prefixes
  | .FE9, .Japanese => some (bs []) | .FE9, .EnglishNA => some (bs []) | .FE9, .EnglishEU => some (bs [])
  | .FE9, .Spanish => some (bs ['s', '_']) | .FE9, .German => some (bs ['d', '_']) | .FE9, .Italian => some (bs ['i', '_'])
  | .FE9, .French => some (bs ['f', '_']) | .FE9, .Dutch => none
  | .FE10, .Japanese => some (bs []) | .FE10, .EnglishNA => some (bs ['e', '_']) | .FE10, .EnglishEU => some (bs ['e', '_'])
  | .FE10, .Spanish => some (bs ['s', '_']) | .FE10, .German => some (bs ['d', '_']) | .FE10, .Italian => some (bs ['i', '_'])
  | .FE10, .French => some (bs ['f', '_']) | .FE10, .Dutch => none

def slash : UInt8 := 0x2F

/-- A plain component: non-empty, no `/`, and neither `.` nor `..`. -/
def Plain (c : Bytes) : Prop := c ≠ [] ∧ slash ∉ c ∧ c ≠ [0x2E] ∧ c ≠ [0x2E, 0x2E]

instance (c : Bytes) : Decidable (Plain c) := by unfold Plain; exact inferInstance

/-- Expected result for directory components `dir` (possibly none) and last component `l`. -/
def expected (g : Game) (lang : Language) (dir : List Bytes) (l : Bytes) : Option Bytes :=
  match langDir g lang with
  | none => none
  | some m =>
    if dir.isEmpty then some (l ++ slash :: m)
    else some (joinWith slash dir ++ slash :: (m ++ l))

end Mila.Spec.Loc
