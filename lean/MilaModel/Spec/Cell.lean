/-
Specification of cell access (C04), written from the property statement alone:

  "a typed read or write succeeds exactly when the whole (non-empty) accessed range lies inside
   the data region; otherwise it returns an out-of-bounds error, changes nothing and never panics
   ...  A successful write changes only the addressed bytes, lays the value out in the archive's
   endianness and is returned unchanged by the matching read."

Nothing here mentions the model (only `Endian` as a two-valued tag from `Basic`).
-/
import MilaModel.Basic

namespace Mila.Spec.Cell

/-- The accessed range `[addr, addr+len)` lies inside a data region of `size` bytes.  For
`len ≥ 1` the first conjunct is implied; it is kept because the statement is about non-empty
ranges and the code applies it to empty ones too. -/
def InRange (size addr len : Nat) : Prop := addr < size ∧ addr + len ≤ size

instance (size addr len : Nat) : Decidable (InRange size addr len) := by
  unfold InRange; infer_instance

/-- Byte `i` of a `w`-byte value `v` in the given endianness: little-endian stores the least
significant byte first, big-endian the most significant byte first. -/
def byteAt (e : Endian) (w v i : Nat) : UInt8 :=
  match e with
  | .little => UInt8.ofNat (v / 256 ^ i % 256)
  | .big => UInt8.ofNat (v / 256 ^ (w - 1 - i) % 256)

/-- The `w` bytes of `v`. -/
def layout (e : Endian) (w v : Nat) : Bytes := (List.range w).map (byteAt e w v)

/-- The value a `w`-byte field holds (big-endian: the same sum with the bytes taken last to first). -/
def valueOf (e : Endian) (b : Bytes) : Nat :=
  match e with
  | .little => b.foldr (fun x acc => x.toNat + 256 * acc) 0
  | .big => b.reverse.foldr (fun x acc => x.toNat + 256 * acc) 0

/-- Two's-complement reading of a `bits`-bit pattern. -/
def signedOf (bits n : Nat) : Int :=
  if n < 2 ^ (bits - 1) then (n : Int) else (n : Int) - ((2 ^ bits : Nat) : Int)

/-- "changes only the addressed bytes": `d'` is `d` with `[addr, addr+v.length)` replaced by `v`. -/
def Replaced (d d' : Bytes) (addr : Nat) (v : Bytes) : Prop :=
  d'.length = d.length ∧ (∀ i, i < v.length → d'[addr + i]? = v[i]?) ∧
  (∀ i, i < addr ∨ addr + v.length ≤ i → d'[i]? = d[i]?)

/-- Executable form of `Replaced` for the oracle. -/
def replacedB (d d' : Bytes) (addr : Nat) (v : Bytes) : Bool :=
  d' == d.take addr ++ v ++ d.drop (addr + v.length)

end Mila.Spec.Cell
