/-
Syntax of the operations of the `binops` stream (C03, C04): one public call of
`src/bin_archive.rs` / `src/bin_streams.rs` per constructor.  Pure syntax, shared by the model
(`Model/BinOps.lean` gives it the semantics transcribed from the Rust) and by the specification
oracle (`Driver/BinopsOracle.lean`, which judges the implementation's output without the model).
Strings are UTF-8 byte strings.
-/
import MilaModel.Basic

namespace Mila

/-- Value types of the typed accessors. -/
inductive Ty
  | u8 | u16 | u32 | i8 | i16 | i32 | f32
  deriving DecidableEq, Repr

def Ty.width : Ty → Nat
  | .u8 | .i8 => 1
  | .u16 | .i16 => 2
  | .u32 | .i32 | .f32 => 4

def Ty.signed : Ty → Bool
  | .i8 | .i16 | .i32 => true
  | _ => false

/-- One public call. -/
inductive Op
  -- relocation
  | allocEnd (n : Nat)
  | allocate (addr n : Nat) (ge : Bool)
  | deallocate (addr n : Nat) (ge : Bool)
  | truncate (addr : Nat)
  -- positional cell access
  | read (t : Ty) (addr : Nat)
  | write (t : Ty) (addr : Nat) (v : Int)
  | readBytes (addr n : Nat)
  | writeBytes (addr : Nat) (v : Bytes)
  -- positional annotation access
  | readStr (addr : Nat) | readPtr (addr : Nat) | readLabels (addr : Nat) | readCStr (addr : Nat)
  | writeStr (addr : Nat) (v : Option Bytes)
  | writePtr (addr : Nat) (v : Option Nat)
  | writeCStr (addr : Nat) (v : Bytes)
  | writeLabel (addr : Nat) (v : Bytes)
  | writeLabels (addr : Nat) (v : List Bytes)
  | delStr (addr : Nat) | delPtr (addr : Nat) | delLabels (addr : Nat) | delLabel (addr idx : Nat)
  | find (s : Bytes) | ptrDests | getLabels
  -- reader
  | rSeek (p : Nat) | rSkip (n : Nat) | rTell
  | rRead (t : Ty) | rBytes (n : Nat) | rStr | rPtr | rCStr | rLabel (i : Nat) | rLabels | rSjis
  -- writer
  | wSeek (p : Nat) | wSkip (n : Nat) | wTell | wSize
  | wWrite (t : Ty) (v : Int) | wBytes (v : Bytes)
  | wStr (v : Option Bytes) | wPtr (v : Option Nat) | wCStr (v : Bytes) | wLabel (v : Bytes)
  | wAlloc (n : Nat) (ge : Bool) | wAllocEnd (n : Nat)
  deriving Repr

end Mila
