/-
Specification of texel placement (C19), written from the property statement and the hardware
documentation, independent of the model:

* 3DS (PICA200) textures are stored as 8×8 tiles in row-major tile order; inside a tile the 64
  texels are in Z-order (Morton order): the bits of `x` occupy the even bit positions of the texel
  index and the bits of `y` the odd ones.
* ETC1 textures use the same 8×8 tiles, each made of 2×2 blocks of 4×4 texels in Z-order.
* GameCube/Wii CI8 images are stored as 8×4 blocks (8 wide, 4 high) in row-major block order,
  row-major inside the block, the image being padded to whole blocks.
-/
import MilaModel.Basic

namespace Mila.Spec.Morton

/-- bit `k` of `n`. -/
def bit (n k : Nat) : Nat := n / 2 ^ k % 2

/-- Z-order index of `(x, y)` inside an 8×8 tile. -/
def interleave (x y : Nat) : Nat :=
  bit x 0 + 2 * bit y 0 + 4 * bit x 1 + 8 * bit y 1 + 16 * bit x 2 + 32 * bit y 2

/-- Column and row of the `i`-th texel of a tile (inverse of `interleave`). -/
def mortonX (i : Nat) : Nat := bit i 0 + 2 * bit i 2 + 4 * bit i 4
def mortonY (i : Nat) : Nat := bit i 1 + 2 * bit i 3 + 4 * bit i 5

/-- Index (in texels) of pixel `(x, y)` in the payload of a `w` pixels wide texture. -/
def tileOffset (w x y : Nat) : Nat := ((y / 8) * (w / 8) + x / 8) * 64 + interleave (x % 8) (y % 8)

/-- Index (in blocks) of the ETC1 block that holds pixel `(x, y)`. -/
def etcBlock (w x y : Nat) : Nat := ((y / 8) * (w / 8) + x / 8) * 4 + (y % 8 / 4) * 2 + x % 8 / 4

/-- Width padded to whole 8-pixel blocks. -/
def pad8 (w : Nat) : Nat := (w + 7) / 8 * 8

/-- Index (in bytes) of pixel `(x, y)` of a CI8 image whose padded width is `aw`. -/
def ci8Offset (aw x y : Nat) : Nat := ((y / 4) * (aw / 8) + x / 8) * 32 + (y % 4) * 8 + x % 8

/-- A side length of the property's domain: a power of two, at least 8. -/
def PowerOfTwoFrom8 (n : Nat) : Prop := ∃ k, 3 ≤ k ∧ n = 2 ^ k

end Mila.Spec.Morton
