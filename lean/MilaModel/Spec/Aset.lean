/-
Specification for C17 (animation-set file), written from the property statement only — no
reference to the model.  A *set* is a list of optional names: entry 0 is the set's label, entries
1..=256 are its slots, organised as 8 groups of 32 consecutive slots.

The property: re-reading a serialised file returns the same value (meta, 257 clip names, sets with
label and every slot); the data section costs one word per present slot, one per group that has a
present slot, one per set, plus the fixed header (12 bytes) and the clip table (257 words); absent
slots and entirely absent groups cost nothing; re-serialising the re-read value gives the same bytes.
-/
import MilaModel.Basic

namespace Mila.Spec.Aset

abbrev Name := Option Bytes
abbrev ASet := List Name

/-- The property's domain: 257 clip names and 257 entries (label + 256 slots) per set. -/
def WF (clip : List Name) (sets : List ASet) : Prop :=
  clip.length = 257 ∧ ∀ s ∈ sets, s.length = 257

instance (clip : List Name) (sets : List ASet) : Decidable (WF clip sets) := by
  unfold WF; exact inferInstance

/-- Slot `k` (1..=256) of the set holds a name. -/
def slotPresent (s : ASet) (k : Nat) : Bool :=
  match s[k]? with
  | some (some _) => true
  | _ => false

/-- Number of present slots in group `g` (slots `32 g + 1 ..= 32 g + 32`). -/
def groupSlots (s : ASet) (g : Nat) : Nat :=
  (List.range 32).countP (fun j => slotPresent s (32 * g + j + 1))

/-- Number of present slots of a set. -/
def presentSlots (s : ASet) : Nat := ((List.range 8).map (groupSlots s)).sum

/-- Number of groups with at least one present slot. -/
def nonEmptyGroups (s : ASet) : Nat := (List.range 8).countP (fun g => groupSlots s g ≠ 0)

/-- Bytes a set costs: its flag word, one word per non-empty group, one word per present slot. -/
def setCost (s : ASet) : Nat := 4 * (1 + nonEmptyGroups s + presentSlots s)

/-- Size of the data section of the serialised file. -/
def dataSize (sets : List ASet) : Nat := 12 + 4 * 257 + (sets.map setCost).sum

/-- The same count said without groups: present names among entries 1.. of the set. -/
def presentNames (s : ASet) : Nat := (s.drop 1).countP (·.isSome)

/-- Little-endian `u32` at `off` of a byte image (`none` outside). -/
def wordAt (b : Bytes) (off : Nat) : Option Nat :=
  if off + 4 ≤ b.length then some (ofLe ((b.drop off).take 4)) else none

end Mila.Spec.Aset
