/-
Specification of the four texture containers (C20): what it means for a byte string to *contain*
a list of textures.  Written from the format documentation (3dbrew CTPK / BCH / CGFX, YAGCD TPL),
independent of the model.  Each `Conforms*` is a decidable predicate on `(file, textures)`: it
fixes only the bytes the format defines — header fields, pointer fields, the NUL-terminated
names and the payloads — and says nothing about where tables, names and payloads sit, nor about
any other byte of the file.  Pointers are followed by *reading the pointer field of the file*, so
every placement that the pointer arithmetic of the format can express is covered (no library
writer is involved).

All offsets are 32-bit: a conforming file is shorter than 2^32 bytes and every pointer sum stays
below 2^32.
-/
import MilaModel.Spec.Linear
import MilaModel.Spec.Morton

namespace Mila.Spec.Tex
open Mila.Spec.Linear

abbrev Buf := Array UInt8

/-- A texture as packed into a container. -/
structure Tex where
  /-- the name the reader must report (UTF-8) -/
  name : Bytes
  /-- the name bytes as stored in the file, without the terminator -/
  stored : Bytes
  width : Nat
  height : Nat
  format : Nat
  payload : Buf
  /-- TPL only: the palette data (big-endian RGB5A3 entries) -/
  palette : Buf
  deriving Repr

/-- Bits per pixel of the supported 3DS formats. -/
def bitsPerPixel : Nat → Option Nat
  | 0 => some 32                                   -- RGBA8
  | 2 => some 16 | 3 => some 16 | 4 => some 16 | 5 => some 16   -- RGBA5551 RGB565 RGBA4 LA8
  | 7 => some 8 | 8 => some 8                      -- L8 A8
  | 12 => some 4 | 13 => some 8                    -- ETC1 ETC1A4
  | _ => none

def isPow2From8 (n : Nat) : Bool := 8 ≤ n && n == 2 ^ Nat.log2 n

/-- A 3DS texture of the property's domain: supported format, power-of-two sides from 8 up
(bounded by the 16-bit fields of the containers), payload of exactly the required size. -/
def valid3ds (t : Tex) : Bool :=
  match bitsPerPixel t.format with
  | none => false
  | some bits =>
    isPow2From8 t.width && isPow2From8 t.height && t.width < 2 ^ 16 && t.height < 2 ^ 16 &&
    t.payload.size * 8 == bits * t.width * t.height

def u8At (f : Buf) (off : Nat) : Nat := leAt f off 1
def u16At (f : Buf) (off : Nat) : Nat := leAt f off 2
def u32At (f : Buf) (off : Nat) : Nat := leAt f off 4
def be16 (f : Buf) (off : Nat) : Nat := be16At f off
def be32 (f : Buf) (off : Nat) : Nat := be16At f off * 65536 + be16At f (off + 2)

/-- the bytes `b` sit at offset `off`. -/
def hasBytes (f : Buf) (off : Nat) (b : Buf) : Bool :=
  off + b.size ≤ f.size && f.extract off (off + b.size) == b

/-- the NUL-free string `s` followed by a NUL sits at offset `off`. -/
def hasCStr (f : Buf) (off : Nat) (s : Bytes) : Bool :=
  !s.contains 0 && off + s.length + 1 ≤ f.size && (f.extract off (off + s.length)).toList == s &&
    f.getD (off + s.length) 1 == 0

/-- `all` over a list with the element index. -/
def allIdx {α : Type} (p : Nat → α → Bool) : Nat → List α → Bool
  | _, [] => true
  | i, x :: xs => p i x && allIdx p (i + 1) xs

/-! ### CTPK (3dbrew "CTPK"): 0x20-byte header, 0x20-byte texture entries from 0x20 on -/

/-- Entry at `e`: name pointer (absolute) at +0, data offset (relative to the header's texture
section pointer `base`) at +8, format at +0xC, width and height at +0x10 / +0x12. -/
def ctpkEntry (f : Buf) (base e : Nat) (t : Tex) : Bool :=
  e + 0x20 ≤ f.size &&
  hasCStr f (u32At f e) t.stored &&
  base + u32At f (e + 8) < 2 ^ 32 && hasBytes f (base + u32At f (e + 8)) t.payload &&
  u32At f (e + 0xC) == t.format && u16At f (e + 0x10) == t.width && u16At f (e + 0x12) == t.height

/-- Where the payload of texture `i` sits. -/
def ctpkPayloadAt (f : Buf) (i : Nat) : Nat := u32At f 8 + u32At f (0x20 + 0x20 * i + 8)

/-- `sjis` is the Shift-JIS decoder (not modelled: the reported name is whatever it makes of the
stored bytes). -/
def ConformsCtpk (sjis : Bytes → Option Bytes) (f : Buf) (texs : List Tex) : Bool :=
  f.size < 2 ^ 32 && 0x20 ≤ f.size && texs.length < 2 ^ 16 &&
  u16At f 6 == texs.length &&
  allIdx (fun i t => ctpkEntry f (u32At f 8) (0x20 + 0x20 * i) t && valid3ds t && sjis t.stored == some t.name)
    0 texs

/-! ### BCH (3dbrew "BCH"): header with section addresses; content table; per-texture descriptor
and command block -/

/-- Does the header carry the two extended fields?  Documented as "backward compatibility >
0x20"; `none` for the values 21..32 where the library (`> 20`) and the documentation differ
(N2) — such files are not claimed either way. -/
def bchExtended (compat : Nat) : Option Bool :=
  if compat ≤ 20 then some false else if compat > 0x20 then some true else none

def bchHeaderLen (ext : Bool) : Nat := if ext then 64 else 56

/-- Texture `i`: table entry → descriptor (command offset at +0, name offset at +0x1C) → command
block (height +0, width +2, data offset +0x10, format +0x18); offsets are relative to the
contents / commands / strings / raw-data sections. -/
def bchTable (f : Buf) : Nat := u32At f 8 + u32At f (u32At f 8 + 0x24)
def bchDesc (f : Buf) (i : Nat) : Nat := u32At f 8 + u32At f (bchTable f + 4 * i)
def bchCmd (f : Buf) (i : Nat) : Nat := u32At f 16 + u32At f (bchDesc f i)
/-- Where the payload of texture `i` sits. -/
def bchPayloadAt (f : Buf) (i : Nat) : Nat := u32At f 20 + u32At f (bchCmd f i + 0x10)

def bchTexture (f : Buf) (i : Nat) (t : Tex) : Bool :=
  let ent := bchTable f + 4 * i
  let desc := bchDesc f i
  let cmd := bchCmd f i
  let nameAt := u32At f 12 + u32At f (desc + 0x1C)
  let dataAt := bchPayloadAt f i
  ent + 4 ≤ f.size && desc + 0x20 ≤ f.size && cmd + 0x1C ≤ f.size &&
  ent < 2 ^ 32 && desc < 2 ^ 32 && cmd < 2 ^ 32 && nameAt < 2 ^ 32 && dataAt < 2 ^ 32 &&
  hasCStr f nameAt t.stored &&
  u16At f cmd == t.height && u16At f (cmd + 2) == t.width && u32At f (cmd + 0x18) == t.format &&
  hasBytes f dataAt t.payload

/-- Well-formed UTF-8 (Unicode 15, Table 3-7), as a checker on byte strings. -/
def cont (b : UInt8) : Bool := 0x80 ≤ b && b ≤ 0xBF
def utf8 : Bytes → Bool
  | [] => true
  | a :: rest =>
    if a ≤ 0x7F then utf8 rest
    else match rest with
      | [] => false
      | b :: r1 =>
        if 0xC2 ≤ a && a ≤ 0xDF then cont b && utf8 r1
        else match r1 with
          | [] => false
          | c :: r2 =>
            if a == 0xE0 then 0xA0 ≤ b && b ≤ 0xBF && cont c && utf8 r2
            else if a == 0xED then 0x80 ≤ b && b ≤ 0x9F && cont c && utf8 r2
            else if 0xE1 ≤ a && a ≤ 0xEF then cont b && cont c && utf8 r2
            else match r2 with
              | [] => false
              | d :: r3 =>
                if a == 0xF0 then 0x90 ≤ b && b ≤ 0xBF && cont c && cont d && utf8 r3
                else if a == 0xF4 then 0x80 ≤ b && b ≤ 0x8F && cont c && cont d && utf8 r3
                else if 0xF1 ≤ a && a ≤ 0xF3 then cont b && cont c && cont d && utf8 r3
                else false

/-- A UTF-8 name is stored verbatim. -/
def utf8Name (t : Tex) : Bool := t.stored == t.name && utf8 t.name

def ConformsBch (f : Buf) (texs : List Tex) : Bool :=
  f.size < 2 ^ 32 && 8 ≤ f.size && u32At f 0 == 0x484342 &&
  match bchExtended (u8At f 4) with
  | none => false
  | some ext =>
    let contents := u32At f 8
    bchHeaderLen ext ≤ f.size && contents + 0x2C ≤ f.size && bchTable f < 2 ^ 32 &&
    u32At f (contents + 0x28) == texs.length &&
    allIdx (fun i t => bchTexture f i t && valid3ds t && utf8Name t) 0 texs

/-! ### CGFX (3dbrew "CGFX"): header, DATA block with 16 (count, self-relative offset) pairs,
entry 1 → texture DICT → TXOB objects.  A self-relative offset is relative to the position of the
offset field itself. -/

def selfRel (f : Buf) (field : Nat) : Nat := field + u32At f field

/-- TXOB at `t0`: name offset field at +0xC, height +0x18, width +0x1C, format +0x34, data size
+0x44, data offset field +0x48. -/
def cgfxTxob (f : Buf) (t0 : Nat) (t : Tex) : Bool :=
  t0 + 0x4C ≤ f.size &&
  selfRel f (t0 + 0xC) < 2 ^ 32 && hasCStr f (selfRel f (t0 + 0xC)) t.stored &&
  u32At f (t0 + 0x18) == t.height && u32At f (t0 + 0x1C) == t.width && u32At f (t0 + 0x34) == t.format &&
  u32At f (t0 + 0x44) == t.payload.size &&
  selfRel f (t0 + 0x48) < 2 ^ 32 && hasBytes f (selfRel f (t0 + 0x48)) t.payload

/-- TXOB of texture `i` and where its payload sits. -/
def cgfxTxobAt (f : Buf) (i : Nat) : Nat := selfRel f (selfRel f 0x28 + 0x1C + 16 * i + 12)
def cgfxPayloadAt (f : Buf) (i : Nat) : Nat := selfRel f (cgfxTxobAt f i + 0x48)

def ConformsCgfx (f : Buf) (texs : List Tex) : Bool :=
  f.size < 2 ^ 32 && 0x9C ≤ f.size && u32At f 0 == 0x58464743 &&
  (List.range 16).all (fun j => selfRel f (0x20 + 8 * j) < 2 ^ 32) &&
  let dict := selfRel f 0x28
  dict + 0x1C + 16 * texs.length ≤ f.size &&
  u32At f (dict + 8) == texs.length &&
  allIdx (fun i t =>
    let e := dict + 0x1C + 16 * i
    selfRel f (e + 8) < 2 ^ 32 && selfRel f (e + 12) < 2 ^ 32 &&
    cgfxTxob f (cgfxTxobAt f i) t && valid3ds t && utf8Name t) 0 texs

/-! ### TPL (YAGCD §15 "TPL"): big-endian; header (magic, count, table pointer); table of
(image header pointer, palette header pointer); all pointers absolute -/

def pad (n k : Nat) : Nat := (n + k - 1) / k * k

/-- A CI8 image with an RGB5A3 palette: payload = 8×4-blocked indices of the padded image; every
index of a texel *inside* `width × height` is inside the palette.  Padding texels (outside the
image, inside the block-aligned payload) are not part of the image and may hold any byte. -/
def validTpl (t : Tex) : Bool :=
  t.format == 9 && 1 ≤ t.width && 1 ≤ t.height && t.width < 2 ^ 16 && t.height < 2 ^ 16 &&
  t.payload.size == pad t.height 4 * pad t.width 8 &&
  t.palette.size % 2 == 0 && 2 ≤ t.palette.size && t.palette.size / 2 < 2 ^ 16 &&
  (List.range t.height).all (fun y => (List.range t.width).all (fun x =>
    (t.payload.getD (Morton.ci8Offset (pad t.width 8) x y) 0).toNat < t.palette.size / 2)) &&
  t.name == [] && t.stored == []

/-- Image header at `ih` (36 bytes): height, width, format, data pointer; palette header at `ph`
(12 bytes): entry count, format (2 = RGB5A3), data pointer. -/
def tplItem (f : Buf) (item : Nat) (t : Tex) : Bool :=
  let ih := be32 f item
  let ph := be32 f (item + 4)
  item + 8 ≤ f.size && ih + 36 ≤ f.size && ph + 12 ≤ f.size &&
  be16 f ih == t.height && be16 f (ih + 2) == t.width && be32 f (ih + 4) == t.format &&
  hasBytes f (be32 f (ih + 8)) t.payload &&
  be16 f ph * 2 == t.palette.size && be32 f (ph + 4) == 2 &&
  hasBytes f (be32 f (ph + 8)) t.palette

/-- Where the image data and the palette data of texture `i` sit. -/
def tplPayloadAt (f : Buf) (i : Nat) : Nat := be32 f (be32 f (be32 f 8 + 8 * i) + 8)
def tplPaletteAt (f : Buf) (i : Nat) : Nat := be32 f (be32 f (be32 f 8 + 8 * i + 4) + 8)

def ConformsTpl (f : Buf) (texs : List Tex) : Bool :=
  f.size < 2 ^ 32 && 12 ≤ f.size && be32 f 0 == 0x0020AF30 &&
  be32 f 4 == texs.length &&
  allIdx (fun i t => tplItem f (be32 f 8 + 8 * i) t && validTpl t) 0 texs

/-! ### payload extents (for the truncation clause) -/

/-- A cut at `k` (the file keeps its first `k` bytes) removes part of the byte range
`[off, off+len)`. -/
def cuts (k off len : Nat) : Bool := off < off + len && k < off + len

end Mila.Spec.Tex
