/-
Specification for C07, written from the property statement alone (no model import).

A *history* is the chronological list of calls made on an archive that started empty.  Everything
below is a function of the history only:

* `birth h k`   — index (in `h`) of the `set` call that created the *current incarnation* of `k`;
                  `none` when `k` is absent (never set, or deleted since).  Re-setting a present key
                  keeps its birth; deleting forgets it; setting it again gives a new, later birth.
* `lastSet h k` — the message passed to the latest `set k _` of the current incarnation.
* key order     — `KeysSpec h keys`: `keys` are exactly the keys with a birth, listed by
                  strictly increasing birth.
* escaping      — `unescape` turns every two-character sequence backslash,`n` into a newline
                  (what is stored); `escape` turns every newline into backslash,`n` (what a lookup
                  returns).
-/
import MilaModel.Basic

namespace Mila.Spec.TextMap

inductive Op
  | set (k m : Bytes)
  | del (k : Bytes)
  | title (t : Bytes)
  | has (k : Bytes)
  | get (k : Bytes)
  deriving DecidableEq, Repr

/-- `birth` on the history listed newest call first. -/
def birthR : List Op → Bytes → Option Nat
  | [], _ => none
  | .set k' _ :: older, k =>
    if k' = k then
      match birthR older k with
      | some i => some i
      | none => some older.length
    else birthR older k
  | .del k' :: older, k => if k' = k then none else birthR older k
  | _ :: older, k => birthR older k

def birth (h : List Op) (k : Bytes) : Option Nat := birthR h.reverse k

def lastSetR : List Op → Bytes → Option Bytes
  | [], _ => none
  | .set k' m :: older, k => if k' = k then some m else lastSetR older k
  | .del k' :: older, k => if k' = k then none else lastSetR older k
  | _ :: older, k => lastSetR older k

def lastSet (h : List Op) (k : Bytes) : Option Bytes := lastSetR h.reverse k

def titleR : List Op → Bytes
  | [] => []
  | .title t :: _ => t
  | _ :: older => titleR older

/-- The title is the last one set (initially empty). -/
def titleOf (h : List Op) : Bytes := titleR h.reverse

def isSet : Op → Bool
  | .set _ _ => true
  | _ => false

/-- The dirty flag: some `set` has happened. -/
def anySet (h : List Op) : Bool := h.any isSet

/-- Key order: exactly the keys alive after `h`, by strictly increasing birth. -/
def KeysSpec (h : List Op) (keys : List Bytes) : Prop :=
  (∀ k, k ∈ keys ↔ (birth h k).isSome) ∧
  keys.Pairwise (fun a b => ∃ i j, birth h a = some i ∧ birth h b = some j ∧ i < j)

/-! ### newline escaping -/

def backslash : UInt8 := 0x5C
def letterN : UInt8 := 0x6E
def newline : UInt8 := 0x0A

/-- Every sequence backslash,`n` (scanning left to right) becomes one newline. -/
def unescape : Bytes → Bytes
  | [] => []
  | [b] => [b]
  | b :: b' :: rest =>
    if b = backslash ∧ b' = letterN then newline :: unescape rest else b :: unescape (b' :: rest)

/-- Every newline becomes backslash,`n`. -/
def escape : Bytes → Bytes
  | [] => []
  | b :: tl => if b = newline then backslash :: letterN :: escape tl else b :: escape tl

/-- `m` contains no escape sequence. -/
def NoSeq : Bytes → Prop
  | [] => True
  | [_] => True
  | b :: b' :: rest => ¬ (b = backslash ∧ b' = letterN) ∧ NoSeq (b' :: rest)

/-- What the archive stores for `k` after `h`. -/
def valueOf (h : List Op) (k : Bytes) : Option Bytes := (lastSet h k).map unescape

/-- What a lookup of `k` returns after `h`. -/
def lookupOf (h : List Op) (k : Bytes) : Option Bytes := (valueOf h k).map escape

/-! ### executable form for the oracle -/

def opKey : Op → Option Bytes
  | .set k _ => some k
  | .del k => some k
  | .has k => some k
  | .get k => some k
  | .title _ => none

def strictlyIncreasing : List Nat → Bool
  | [] => true
  | [_] => true
  | a :: b :: rest => a < b && strictlyIncreasing (b :: rest)

/-- Decides `KeysSpec h keys` (keys that never occur in `h` have no birth, so only the keys that
occur in `h` need to be looked for). -/
def checkKeys (h : List Op) (keys : List Bytes) : Bool :=
  keys.all (fun k => (birth h k).isSome) &&
  strictlyIncreasing (keys.filterMap (birth h)) &&
  ((h.filterMap opKey).eraseDups).all (fun k => !(birth h k).isSome || keys.contains k)

end Mila.Spec.TextMap
