/-
Sorting lemmas for C01/C02: a stable sort whose comparator is a total preorder and antisymmetric
on the elements present yields the same list for every permutation of its input; the orders used
by `serialize` (byte strings, label buckets) are such comparators.
-/
import MilaModel.Model.BinArchive
import MilaModel.Spec.ArchiveImage

namespace Mila.Ser
open Mila.BinArchive
open Spec.Image (lexLe strLe bucketLe byAddr)

/-- Entries of an association list with distinct keys are determined by their key. -/
theorem eq_of_key_eq {α β : Type} {l : List (α × β)} (nd : (l.map (·.1)).Nodup) {a b : α × β}
    (ha : a ∈ l) (hb : b ∈ l) (hk : a.1 = b.1) : a = b := by
  induction l with
  | nil => cases ha
  | cons x xs ih =>
    simp only [List.map_cons, List.nodup_cons, List.mem_map, not_exists, not_and] at nd
    rcases List.mem_cons.mp ha with rfl | ha' <;> rcases List.mem_cons.mp hb with rfl | hb'
    · rfl
    · exact absurd hk.symm (nd.1 b hb')
    · exact absurd hk (nd.1 a ha')
    · exact ih nd.2 ha' hb'

/-- A comparator fit for sorting: transitive and total. -/
structure IsPreorder {α : Type} (le : α → α → Bool) : Prop where
  trans : ∀ a b c, le a b = true → le b c = true → le a c = true
  total : ∀ a b, (le a b || le b a) = true

theorem sorted_mergeSort {α : Type} {le : α → α → Bool} (h : IsPreorder le) (l : List α) :
    (l.mergeSort le).Pairwise (fun a b => le a b = true) :=
  List.pairwise_mergeSort h.trans h.total l

/-- Two sorted permutations of each other are equal when the order is antisymmetric on them. -/
theorem eq_of_sorted_perm {α : Type} {le : α → α → Bool} {l₁ l₂ : List α}
    (anti : ∀ a b, a ∈ l₁ → b ∈ l₁ → le a b = true → le b a = true → a = b)
    (s₁ : l₁.Pairwise (fun a b => le a b = true)) (s₂ : l₂.Pairwise (fun a b => le a b = true))
    (p : l₁.Perm l₂) : l₁ = l₂ :=
  List.Perm.eq_of_pairwise (le := fun a b => le a b = true)
    (fun a b ha hb => anti a b ha (p.mem_iff.mpr hb)) s₁ s₂ p

/-- **Permutation invariance of a sort with a unique key.** -/
theorem mergeSort_eq_of_perm {α : Type} {le : α → α → Bool} (h : IsPreorder le) {l₁ l₂ : List α}
    (anti : ∀ a b, a ∈ l₁ → b ∈ l₁ → le a b = true → le b a = true → a = b)
    (p : l₁.Perm l₂) : l₁.mergeSort le = l₂.mergeSort le := by
  apply eq_of_sorted_perm _ (sorted_mergeSort h _) (sorted_mergeSort h _)
  · exact ((List.mergeSort_perm l₁ le).trans p).trans (List.mergeSort_perm l₂ le).symm
  · intro a b ha hb
    exact anti a b (List.mem_mergeSort.mp ha) (List.mem_mergeSort.mp hb)

/-- Filtering commutes with such a sort. -/
theorem filter_mergeSort {α : Type} {le : α → α → Bool} (h : IsPreorder le) (p : α → Bool) (l : List α)
    (anti : ∀ a b, a ∈ l → b ∈ l → le a b = true → le b a = true → a = b) :
    (l.mergeSort le).filter p = (l.filter p).mergeSort le := by
  apply eq_of_sorted_perm _ ((sorted_mergeSort h _).filter p) (sorted_mergeSort h _)
  · exact ((List.mergeSort_perm l le).filter p).trans (List.mergeSort_perm _ le).symm
  · intro a b ha hb
    exact anti a b (List.mem_mergeSort.mp (List.mem_filter.mp ha).1)
      (List.mem_mergeSort.mp (List.mem_filter.mp hb).1)

/-! ### sorting pairs by their first component -/

theorem bySource_preorder {β : Type} : IsPreorder (bySource (β := β)) where
  trans := by intro a b c; simp [bySource]; omega
  total := by intro a b; simp [bySource]; omega

theorem bySource_anti {β : Type} {l : List (Nat × β)} (nd : (l.map (·.1)).Nodup) :
    ∀ a b, a ∈ l → b ∈ l → bySource a b = true → bySource b a = true → a = b := by
  intro a b ha hb h1 h2
  simp [bySource] at h1 h2
  have hk : a.1 = b.1 := by omega
  exact eq_of_key_eq nd ha hb hk

/-! ### lexicographic orders -/

section lex
variable {α : Type} [DecidableEq α] {le : α → α → Bool}

theorem lexLe_refl (l : List α) : lexLe le l l = true := by
  induction l with
  | nil => rfl
  | cons x xs ih => simp [lexLe, ih]

theorem lexLe_total (tot : ∀ a b, (le a b || le b a) = true) :
    ∀ l₁ l₂ : List α, (lexLe le l₁ l₂ || lexLe le l₂ l₁) = true := by
  intro l₁
  induction l₁ with
  | nil => intro l₂; simp [lexLe]
  | cons x xs ih =>
    intro l₂
    cases l₂ with
    | nil => simp [lexLe]
    | cons y ys =>
      by_cases hxy : x = y
      · subst hxy; simpa [lexLe] using ih ys
      · have hyx : ¬ y = x := fun h => hxy h.symm
        simpa [lexLe, hxy, hyx] using tot x y

theorem lexLe_antisymm (anti : ∀ a b, le a b = true → le b a = true → a = b) :
    ∀ l₁ l₂ : List α, lexLe le l₁ l₂ = true → lexLe le l₂ l₁ = true → l₁ = l₂ := by
  intro l₁
  induction l₁ with
  | nil => intro l₂; cases l₂ <;> simp [lexLe]
  | cons x xs ih =>
    intro l₂
    cases l₂ with
    | nil => simp [lexLe]
    | cons y ys =>
      by_cases hxy : x = y
      · subst hxy; simp [lexLe]; exact ih ys
      · have hyx : ¬ y = x := fun h => hxy h.symm
        simp only [lexLe, if_neg hxy, if_neg hyx]
        intro h1 h2; exact absurd (anti x y h1 h2) hxy

theorem lexLe_trans (tr : ∀ a b c, le a b = true → le b c = true → le a c = true)
    (anti : ∀ a b, le a b = true → le b a = true → a = b) :
    ∀ l₁ l₂ l₃ : List α, lexLe le l₁ l₂ = true → lexLe le l₂ l₃ = true → lexLe le l₁ l₃ = true := by
  intro l₁
  induction l₁ with
  | nil => intro l₂ l₃ _ _; simp [lexLe]
  | cons x xs ih =>
    intro l₂ l₃
    cases l₂ with
    | nil => simp [lexLe]
    | cons y ys =>
      cases l₃ with
      | nil => simp [lexLe]
      | cons z zs =>
        by_cases hxy : x = y
        · subst hxy
          by_cases hxz : x = z
          · subst hxz; simp only [lexLe, if_true]; exact ih ys zs
          · simp only [lexLe, if_true, if_neg hxz]; intro _ h; exact h
        · by_cases hyz : y = z
          · subst hyz; simp only [lexLe, if_true, if_neg hxy]; intro h _; exact h
          · by_cases hxz : x = z
            · subst hxz
              have hyx : ¬ y = x := fun h => hxy h.symm
              simp only [lexLe, if_neg hxy, if_neg hyx, if_true]
              intro h1 h2; exact absurd (anti x y h1 h2) hxy
            · simp only [lexLe, if_neg hxy, if_neg hyz, if_neg hxz]; exact tr x y z

end lex

theorem u8le_total (a b : UInt8) : (decide (a ≤ b) || decide (b ≤ a)) = true := by
  simp; exact UInt8.le_total a b

theorem strLe_total (a b : Bytes) : (strLe a b || strLe b a) = true :=
  lexLe_total (fun x y => u8le_total x y) a b

theorem strLe_antisymm (a b : Bytes) : strLe a b = true → strLe b a = true → a = b :=
  lexLe_antisymm (fun x y h1 h2 => by simp at h1 h2; exact UInt8.le_antisymm h1 h2) a b

theorem strLe_trans (a b c : Bytes) : strLe a b = true → strLe b c = true → strLe a c = true :=
  lexLe_trans (fun x y z h1 h2 => by simp at h1 h2 ⊢; exact UInt8.le_trans h1 h2)
    (fun x y h1 h2 => by simp at h1 h2; exact UInt8.le_antisymm h1 h2) a b c

theorem strLe_preorder : IsPreorder strLe := ⟨strLe_trans, strLe_total⟩

theorem namesLe_total (a b : List Bytes) : (lexLe strLe a b || lexLe strLe b a) = true :=
  lexLe_total strLe_total a b
theorem namesLe_antisymm (a b : List Bytes) :
    lexLe strLe a b = true → lexLe strLe b a = true → a = b :=
  lexLe_antisymm strLe_antisymm a b
theorem namesLe_trans (a b c : List Bytes) :
    lexLe strLe a b = true → lexLe strLe b c = true → lexLe strLe a c = true :=
  lexLe_trans strLe_trans strLe_antisymm a b c

theorem bucketLe_iff (a b : Nat × List Bytes) : bucketLe a b = true ↔
    (a.2 = b.2 ∧ a.1 ≤ b.1) ∨ (a.2 ≠ b.2 ∧ lexLe strLe a.2 b.2 = true) := by
  unfold bucketLe
  by_cases h : a.2 = b.2 <;> simp [h]

/-- The big-endian bucket order is a total preorder … -/
theorem bucketLe_preorder : IsPreorder bucketLe where
  total := by
    intro a b
    rw [Bool.or_eq_true, bucketLe_iff, bucketLe_iff]
    by_cases h : a.2 = b.2
    · have h' := h.symm
      rcases Nat.le_total a.1 b.1 with hl | hl
      · exact Or.inl (Or.inl ⟨h, hl⟩)
      · exact Or.inr (Or.inl ⟨h', hl⟩)
    · have h' : b.2 ≠ a.2 := fun e => h e.symm
      have := namesLe_total a.2 b.2
      rw [Bool.or_eq_true] at this
      rcases this with t | t
      · exact Or.inl (Or.inr ⟨h, t⟩)
      · exact Or.inr (Or.inr ⟨h', t⟩)
  trans := by
    intro a b c
    rw [bucketLe_iff, bucketLe_iff, bucketLe_iff]
    rintro (⟨e1, l1⟩ | ⟨n1, l1⟩) (⟨e2, l2⟩ | ⟨n2, l2⟩)
    · exact Or.inl ⟨e1.trans e2, Nat.le_trans l1 l2⟩
    · exact Or.inr ⟨fun e => n2 (e1 ▸ e), e1 ▸ l2⟩
    · exact Or.inr ⟨fun e => n1 (e.trans e2.symm), e2 ▸ l1⟩
    · by_cases hac : a.2 = c.2
      · rw [← hac] at l2
        exact absurd (namesLe_antisymm _ _ l1 l2) n1
      · exact Or.inr ⟨hac, namesLe_trans _ _ _ l1 l2⟩

/-- … and antisymmetric on maps (distinct addresses): this is exactly the tie-break of fix D2. -/
theorem bucketLe_anti (a b : Nat × List Bytes) (h1 : bucketLe a b = true) (h2 : bucketLe b a = true) :
    a = b := by
  rw [bucketLe_iff] at h1 h2
  rcases h1 with ⟨e1, l1⟩ | ⟨n1, l1⟩ <;> rcases h2 with ⟨e2, l2⟩ | ⟨n2, l2⟩
  · exact Prod.ext (Nat.le_antisymm l1 l2) e1
  · exact absurd e1.symm n2
  · exact absurd e2.symm n1
  · exact absurd (namesLe_antisymm _ _ l1 l2) n1

/-! ### the model's comparators are the specification's -/

theorem bytesLe_eq : ∀ a b : Bytes, bytesLe a b = strLe a b := by
  intro a
  induction a with
  | nil => intro b; simp [bytesLe, strLe, lexLe]
  | cons x xs ih =>
    intro b
    cases b with
    | nil => simp [bytesLe, strLe, lexLe]
    | cons y ys =>
      simp only [bytesLe, strLe, lexLe]
      by_cases hxy : x = y
      · subst hxy; simp [ih ys, strLe, UInt8.lt_irrefl]
      · simp only [hxy, if_false]
        by_cases hlt : x < y
        · simp [hlt, UInt8.le_of_lt hlt]
        · have hyx : y < x := by
            rcases UInt8.lt_or_lt_of_ne hxy with h | h
            · exact absurd h hlt
            · exact h
          simp [hlt, hyx, UInt8.not_le.mpr hyx]

theorem bucketCmpLe_eq : ∀ a b : List Str, bucketCmpLe a b = lexLe strLe a b := by
  intro a
  induction a with
  | nil => intro b; simp [bucketCmpLe, lexLe]
  | cons x xs ih =>
    intro b
    cases b with
    | nil => simp [bucketCmpLe, lexLe]
    | cons y ys => simp [bucketCmpLe, lexLe, ih ys, bytesLe_eq]

theorem labelLe_big : labelLe .big = bucketLe := by
  funext x y; simp [labelLe, bucketLe, bucketCmpLe_eq]

theorem labelLe_little : labelLe .little = byAddr := by
  funext x y; simp [labelLe, byAddr]

theorem bySource_eq_byAddr {β : Type} : bySource (β := β) = byAddr := by
  funext x y; simp [bySource, byAddr]

theorem labelLe_preorder (e : Endian) : IsPreorder (labelLe e) := by
  cases e
  · rw [labelLe_little, ← bySource_eq_byAddr]; exact bySource_preorder
  · rw [labelLe_big]; exact bucketLe_preorder

theorem labelLe_anti (e : Endian) {l : List (Nat × List Str)} (nd : (l.map (·.1)).Nodup) :
    ∀ a b, a ∈ l → b ∈ l → labelLe e a b = true → labelLe e b a = true → a = b := by
  cases e
  · rw [labelLe_little, ← bySource_eq_byAddr]; exact bySource_anti nd
  · rw [labelLe_big]; intro a b _ _; exact bucketLe_anti a b

end Mila.Ser
