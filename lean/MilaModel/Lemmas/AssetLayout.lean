/-
C18: the declarative cell layout of one asset record and of the whole binary, and the proof that
`from_stream` / `from_archive` return the (normalised) value on every archive with that layout.
-/
import MilaModel.Lemmas.AssetFlags
import MilaModel.Lemmas.AsetCells
import MilaModel.Spec.Asset

namespace Mila.Asset
open Mila BinArchive Layered

def bytesOf (fl : List Nat) : Bytes := fl.map UInt8.ofNat

/-- The flag bytes of a record: one raw cell (short form) or two (long form). -/
def flagCells (s : AssetSpec) : List Cell :=
  if isLong s then [.raw (bytesOf ((finalFlags s).take 4)), .raw (bytesOf ((finalFlags s).drop 4))]
  else [.raw (bytesOf (finalFlags s))]

/-- The cell of field `i`, if the field is present. -/
def fieldCell (s : AssetSpec) (i : Nat) : List Cell :=
  match kindOf i with
  | .str =>
    match strField s i with
    | some v => [.str (some v)]
    | none => []
  | .color => if (valField s i).1 then [.raw (swap02 (valField s i).2)] else []
  | _ => if (valField s i).1 then [.raw (leBytes 4 (ofLe (valField s i).2))] else []

def fieldsCells (s : AssetSpec) (is : List Nat) : List Cell := is.flatMap (fieldCell s)

/-- The cells of a record: flags, name, fields 1..31, and in the long form fields 32..51. -/
def recordCells (s : AssetSpec) : List Cell :=
  flagCells s ++ [.str s.name] ++ fieldsCells s (List.range' 1 31)
    ++ (if isLong s then fieldsCells s (List.range' 32 20) else [])

/-- The value read back: typed fields that are not in use come back as the default. -/
def normalize (s : AssetSpec) : AssetSpec := { s with vals := Spec.Asset.normalizeVals s.vals }

/-- Domain of one spec (the Rust struct has exactly these fields). -/
def SpecWF (s : AssetSpec) : Prop := Spec.Asset.WF s.strs s.vals

theorem valField_length (s : AssetSpec) (h : SpecWF s) (i : Nat) : (valField s i).2.length = 4 := by
  unfold valField
  rw [List.getD_eq_getElem?_getD]
  cases hv : s.vals[i - 34]? with
  | none => rfl
  | some v => exact h.2.2 v (List.mem_of_getElem? hv)

theorem swap02_swap02 : ∀ (x : Bytes), swap02 (swap02 x) = x
  | [] => rfl
  | [_] => rfl
  | [_, _] => rfl
  | [_, _, _] => rfl
  | [_, _, _, _] => rfl
  | _ :: _ :: _ :: _ :: _ :: _ => rfl

theorem swap02_length (x : Bytes) : (swap02 x).length = x.length := by
  unfold swap02; split <;> rfl

/-! ### reading the flag bytes -/

theorem toNat_bytesOf (fl : List Nat) (h : ∀ x ∈ fl, x < 256) : (bytesOf fl).map (·.toNat) = fl := by
  induction fl with
  | nil => rfl
  | cons x fl ih =>
    simp only [bytesOf, List.map_cons, List.map_map] at ih ⊢
    rw [ih (fun y hy => h y (by simp [hy]))]
    congr 1
    have := h x (by simp)
    simp [UInt8.toNat_ofNat']; omega

theorem flagCells_slice (s : AssetSpec) (b : BinArchive) (p : Nat)
    (hc : cellsAt b p (flagCells s)) :
    p + (finalFlags s).length ≤ b.size
      ∧ slice b.data p (finalFlags s).length = bytesOf (finalFlags s) := by
  unfold flagCells at hc
  by_cases hl : isLong s
  · simp only [hl, if_true] at hc
    obtain ⟨⟨h1, h2, _⟩, ⟨h3, h4, _⟩, _⟩ := hc
    have hlen : (finalFlags s).length = 4 + 4 := by rw [finalFlags_length]; simp [hl]
    refine ⟨by omega, ?_⟩
    rw [hlen, slice_add, h2, h4]
    simp only [bytesOf, ← List.map_append, List.take_append_drop]
  · simp only [hl, if_false] at hc
    obtain ⟨⟨h1, h2, _⟩, _⟩ := hc
    have hlen : (finalFlags s).length = 4 := by rw [finalFlags_length]; simp [hl]
    exact ⟨by omega, by rw [hlen]; exact h2⟩

/-- Reading the first byte and the `flag_count` further bytes yields the flag vector. -/
theorem read_flags (s : AssetSpec) (b : BinArchive) (hsmall : b.size < 2 ^ 64) (p : Nat)
    (hc : cellsAt b p (flagCells s)) :
    ∃ raw more, Reader.readU8 b ⟨p⟩ = .ok (raw, ⟨p + 1⟩)
      ∧ Reader.readBytes b ⟨p + 1⟩ (if raw &&& 1 = 1 then 7 else 3)
          = .ok (more, ⟨p + (finalFlags s).length⟩)
      ∧ raw :: more.map (·.toNat) = finalFlags s
      ∧ ((if raw &&& 1 = 1 then 7 else 3) > 3 ↔ isLong s) := by
  obtain ⟨hfit, hs⟩ := flagCells_slice s b p hc
  have hlen := finalFlags_length s
  obtain ⟨f0, ft, hf⟩ : ∃ f0 ft, finalFlags s = f0 :: ft := by
    cases hff : finalFlags s with
    | nil => rw [hff] at hlen; split at hlen <;> simp at hlen
    | cons x xs => exact ⟨x, xs, rfl⟩
  have hmark := marker_final s
  rw [hf] at hs hfit hmark
  simp only [List.length_cons, List.getD_cons_zero] at hs hfit hmark
  have hp : p < b.data.length := by unfold size at hfit; omega
  rw [slice_succ _ _ _ hp] at hs
  simp only [bytesOf, List.map_cons, List.cons.injEq] at hs
  have hlt := finalFlags_lt s
  rw [hf] at hlt
  have hf0 : f0 < 256 := hlt f0 (by simp)
  have hraw : (b.data.getD p 0).toNat = f0 := by
    rw [List.getD_eq_getElem?_getD, List.getElem?_eq_getElem hp]
    simp only [Option.getD_some]
    rw [hs.1]; simp [UInt8.toNat_ofNat']; omega
  have hcount : (if f0 &&& 1 = 1 then 7 else 3) = ft.length := by
    rw [hf] at hlen
    simp only [List.length_cons] at hlen
    by_cases hl : isLong s
    · rw [if_pos (hmark.2 hl)]; simp [hl] at hlen; omega
    · rw [if_neg (fun e => hl (hmark.1 e))]; simp [hl] at hlen; omega
  refine ⟨f0, slice b.data (p + 1) ft.length, ?_, ?_, ?_, ?_⟩
  · rw [readU8_at (by unfold size; exact hp), hraw]
  · rw [hcount, readBytes_slice b hsmall _ _ (by omega), hf]
    simp only [List.length_cons, Res.ok.injEq, Prod.mk.injEq, true_and]
    congr 1; omega
  · rw [hf, hs.2]
    congr 1
    exact toNat_bytesOf ft (fun x hx => hlt x (by simp [hx]))
  · rw [hcount]
    rw [hf] at hlen
    simp only [List.length_cons] at hlen
    by_cases hl : isLong s <;> simp [hl] at hlen ⊢ <;> omega

/-! ### reading fields -/

theorem kindOf_str (i : Nat) (h : i ≤ 33) : kindOf i = .str := by simp [kindOf, h]

theorem kindOf_ne_str (i : Nat) (h : 34 ≤ i) : kindOf i ≠ .str := by
  unfold kindOf
  have : ¬ i ≤ 33 := by omega
  simp only [this, if_false]
  split
  · simp
  · split <;> simp

theorem fieldCell_str_none (s : AssetSpec) (i : Nat) (h : i ≤ 33) (hv : strField s i = none) :
    fieldCell s i = [] := by
  unfold fieldCell; rw [kindOf_str i h]; simp [hv]

theorem fieldCell_str_some (s : AssetSpec) (i : Nat) (h : i ≤ 33) (v : Str)
    (hv : strField s i = some v) : fieldCell s i = [.str (some v)] := by
  unfold fieldCell; rw [kindOf_str i h]; simp [hv]

theorem fieldCell_val_false (s : AssetSpec) (i : Nat) (h : 34 ≤ i) (hu : (valField s i).1 = false) :
    fieldCell s i = [] := by
  unfold fieldCell
  cases hk : kindOf i with
  | str => exact absurd hk (kindOf_ne_str i h)
  | color => simp [hu]
  | f32 => simp [hu]
  | u32 => simp [hu]

theorem fieldCell_color (s : AssetSpec) (i : Nat) (hk : kindOf i = .color)
    (hu : (valField s i).1 = true) : fieldCell s i = [.raw (swap02 (valField s i).2)] := by
  unfold fieldCell; rw [hk]; simp [hu]

theorem fieldCell_word (s : AssetSpec) (i : Nat) (hk : kindOf i = .f32 ∨ kindOf i = .u32)
    (hu : (valField s i).1 = true) :
    fieldCell s i = [.raw (leBytes 4 (ofLe (valField s i).2))] := by
  unfold fieldCell
  rcases hk with hk | hk <;> rw [hk] <;> simp [hu]

theorem readStrs_layout (s : AssetSpec) (b : BinArchive) :
    ∀ (is : List Nat) (p : Nat),
      (∀ i ∈ is, 1 ≤ i ∧ i ≤ 33 ∧ i / 8 < (finalFlags s).length) →
      cellsAt b p (fieldsCells s is) →
      readStrs b (finalFlags s) is ⟨p⟩
        = .ok (is.map (strField s), ⟨p + 4 * (fieldsCells s is).length⟩) := by
  intro is
  induction is with
  | nil => intro p _ _; simp [readStrs, fieldsCells]
  | cons i is ih =>
    intro p hi hc
    obtain ⟨h1, h2, h3⟩ := hi i (by simp)
    have hi' : ∀ j ∈ is, 1 ≤ j ∧ j ≤ 33 ∧ j / 8 < (finalFlags s).length :=
      fun j hj => hi j (by simp [hj])
    have hcons : fieldsCells s (i :: is) = fieldCell s i ++ fieldsCells s is := by
      simp [fieldsCells]
    rw [hcons] at hc ⊢
    rw [cellsAt_append] at hc
    have hbit := flagBit_final s i h1 (by omega)
    have hpres : present s i = (strField s i).isSome := by
      unfold present
      have : ¬ i = 0 := by omega
      simp [this, h2]
    unfold readStrs readFlagStr
    have hge : ¬ i / 8 ≥ (finalFlags s).length := by omega
    simp only [hge, decide_false, Bool.false_or, hbit, hpres]
    cases hv : strField s i with
    | none =>
      rw [fieldCell_str_none s i h2 hv] at hc ⊢
      simp only [Option.isSome_none, Bool.not_false, if_true]
      have h2' := hc.2
      simp only [List.length_nil, Nat.mul_zero, Nat.add_zero] at h2'
      rw [ih p hi' h2']
      simp [hv]
    | some v =>
      rw [fieldCell_str_some s i h2 v hv] at hc ⊢
      simp only [Option.isSome_some, Bool.not_true, Bool.false_eq_true, if_false]
      rw [readString_str hc.1.1]
      simp only
      have h2' := hc.2
      simp only [List.length_cons, List.length_nil] at h2'
      rw [ih (p + 4) hi' (by simpa using h2')]
      simp only [List.map_cons, hv, List.length_append, List.length_cons, List.length_nil,
        Res.ok.injEq, Prod.mk.injEq, true_and]
      congr 1; omega

/-- A typed field as it is read back. -/
def normVal (v : Bool × Bytes) : Bool × Bytes := if v.1 then v else (false, zero4)

theorem readVal_layout (s : AssetSpec) (hwf : SpecWF s) (b : BinArchive) (he : b.endian = .little)
    (hsmall : b.size < 2 ^ 64) (i p : Nat) (h1 : 34 ≤ i) (h2 : i ≤ 51) (hc : cellsAt b p (fieldCell s i)) :
    readVal b (finalFlags s) i ⟨p⟩
      = .ok (normVal (valField s i), ⟨p + 4 * (fieldCell s i).length⟩) := by
  have hbit := flagBit_final s i (by omega) h2
  have hpres : present s i = (valField s i).1 := by
    unfold present
    have : ¬ i = 0 := by omega
    have h33 : ¬ i ≤ 33 := by omega
    simp [this, h33, h2]
  have hlen := valField_length s hwf i
  unfold readVal
  rw [hbit, hpres]
  cases hu : (valField s i).1 with
  | false =>
    rw [fieldCell_val_false s i h1 hu]
    simp [normVal, hu]
  | true =>
    simp only [if_true]
    have hnv : normVal (valField s i) = (true, (valField s i).2) := by
      simp only [normVal, hu, if_true]
      rw [← hu]
    cases hkk : kindOf i with
    | str => exact absurd hkk (kindOf_ne_str i h1)
    | color =>
      rw [fieldCell_color s i hkk hu] at hc ⊢
      obtain ⟨⟨hfit, hsl, _⟩, _⟩ := hc
      unfold readColor
      rw [readBytes_slice b hsmall 4 p hfit, hsl]
      simp only [swap02_swap02, hnv, List.length_cons, List.length_nil]
    | f32 =>
      rw [fieldCell_word s i (Or.inl hkk) hu] at hc ⊢
      rw [readU32_raw he hc.1]
      simp only [hnv, List.length_cons, List.length_nil, Res.ok.injEq, Prod.mk.injEq, and_true]
      rw [leBytes_ofLe4 _ (length_leBytes 4 _), leBytes_ofLe4 _ hlen]
      exact ⟨trivial, rfl⟩
    | u32 =>
      rw [fieldCell_word s i (Or.inr hkk) hu] at hc ⊢
      rw [readU32_raw he hc.1]
      simp only [hnv, List.length_cons, List.length_nil, Res.ok.injEq, Prod.mk.injEq, and_true]
      rw [leBytes_ofLe4 _ (length_leBytes 4 _), leBytes_ofLe4 _ hlen]
      exact ⟨trivial, rfl⟩

theorem readVals_layout (s : AssetSpec) (hwf : SpecWF s) (b : BinArchive) (he : b.endian = .little)
    (hsmall : b.size < 2 ^ 64) :
    ∀ (is : List Nat) (p : Nat), (∀ i ∈ is, 34 ≤ i ∧ i ≤ 51) →
      cellsAt b p (fieldsCells s is) →
      readVals b (finalFlags s) is ⟨p⟩
        = .ok (is.map (fun i => normVal (valField s i)), ⟨p + 4 * (fieldsCells s is).length⟩) := by
  intro is
  induction is with
  | nil => intro p _ _; simp [readVals, fieldsCells]
  | cons i is ih =>
    intro p hi hc
    obtain ⟨h1, h2⟩ := hi i (by simp)
    have hcons : fieldsCells s (i :: is) = fieldCell s i ++ fieldsCells s is := by
      simp [fieldsCells]
    rw [hcons] at hc ⊢
    rw [cellsAt_append] at hc
    unfold readVals
    rw [readVal_layout s hwf b he hsmall i p h1 h2 hc.1]
    simp only
    rw [ih (p + 4 * (fieldCell s i).length) (fun j hj => hi j (by simp [hj])) hc.2]
    simp only [List.map_cons, List.length_append, Res.ok.injEq, Prod.mk.injEq, true_and]
    congr 1; omega

end Mila.Asset
