/-
`UMap` facts for C03: with distinct keys `iter().map(…).collect()` loses nothing (`collect` is the
identity), and the standard operations keep the keys distinct.
-/
import MilaModel.Model.UMap

namespace Mila
namespace UMap
variable {κ ν : Type} [DecidableEq κ]

theorem nodup_map_of_inj_on {α β : Type} (l : List α) (f : α → β)
    (h : ∀ x ∈ l, ∀ y ∈ l, f x = f y → x = y) (hn : l.Nodup) : (l.map f).Nodup := by
  induction l with
  | nil => simp
  | cons a l ih =>
    rw [List.nodup_cons] at hn
    rw [List.map_cons, List.nodup_cons]
    constructor
    · intro hm
      rw [List.mem_map] at hm
      obtain ⟨b, hb, hfb⟩ := hm
      have : b = a := h b (List.mem_cons_of_mem _ hb) a (List.mem_cons_self ..) hfb
      subst this
      exact hn.1 hb
    · exact ih (fun x hx y hy => h x (List.mem_cons_of_mem _ hx) y (List.mem_cons_of_mem _ hy)) hn.2

theorem any_key_iff (m : UMap κ ν) (k : κ) : m.any (fun p => p.1 = k) = true ↔ k ∈ keys m := by
  simp [keys, List.any_eq_true]

theorem insert_of_not_mem (m : UMap κ ν) (k : κ) (v : ν) (h : k ∉ keys m) : insert m k v = m ++ [(k, v)] := by
  unfold insert
  rw [if_neg]
  rw [any_key_iff]; exact h

private theorem foldl_insert (ps acc : List (κ × ν)) (h : (acc.map (·.1) ++ ps.map (·.1)).Nodup) :
    ps.foldl (fun m p => insert m p.1 p.2) acc = acc ++ ps := by
  induction ps generalizing acc with
  | nil => simp
  | cons p ps ih =>
    have hp : p.1 ∉ keys acc := by
      intro hm
      rw [List.nodup_append] at h
      exact h.2.2 _ hm _ (by simp) rfl
    rw [List.foldl_cons, insert_of_not_mem acc p.1 p.2 hp]
    rw [ih]
    · simp
    · simpa using h

/-- With distinct keys, `collect` (`HashMap::from_iter`) keeps every entry: no collision. -/
theorem collect_eq_of_nodup (ps : List (κ × ν)) (h : (ps.map (·.1)).Nodup) : collect ps = ps := by
  unfold collect
  rw [foldl_insert ps [] (by simpa using h)]
  simp

omit [DecidableEq κ] in
theorem keys_filter_nodup (m : UMap κ ν) (f : κ × ν → Bool) (h : (keys m).Nodup) :
    (keys (m.filter f)).Nodup := by
  unfold keys at *
  exact List.Nodup.sublist (List.Sublist.map _ List.filter_sublist) h

theorem keys_remove_nodup (m : UMap κ ν) (k : κ) (h : (keys m).Nodup) : (keys (remove m k)).Nodup :=
  keys_filter_nodup m _ h

theorem keys_insert (m : UMap κ ν) (k : κ) (v : ν) :
    keys (insert m k v) = if k ∈ keys m then keys m else keys m ++ [k] := by
  unfold insert
  by_cases hk : k ∈ keys m
  · rw [if_pos ((any_key_iff m k).mpr hk), if_pos hk]
    unfold keys
    rw [List.map_map]
    apply List.map_congr_left
    intro p _
    by_cases hp : p.1 = k <;> simp [hp]
  · rw [if_neg (by rw [any_key_iff]; exact hk), if_neg hk]
    simp [keys]

theorem keys_insert_nodup (m : UMap κ ν) (k : κ) (v : ν) (h : (keys m).Nodup) :
    (keys (insert m k v)).Nodup := by
  rw [keys_insert]
  split
  · exact h
  · rename_i hk
    rw [List.nodup_append]
    refine ⟨h, by simp, ?_⟩
    intro a ha b hb
    simp at hb
    subst hb
    intro hab; subst hab; exact hk ha

theorem mem_keys_insert (m : UMap κ ν) (k k' : κ) (v : ν) :
    k' ∈ keys (insert m k v) ↔ k' = k ∨ k' ∈ keys m := by
  rw [keys_insert]
  split
  · rename_i hk
    constructor
    · intro h; exact Or.inr h
    · rintro (rfl | h)
      · exact hk
      · exact h
  · simp [or_comm]

omit [DecidableEq κ] in
theorem mem_keys_filter (m : UMap κ ν) (f : κ × ν → Bool) (k : κ) (h : k ∈ keys (m.filter f)) :
    k ∈ keys m := by
  unfold keys at *
  rw [List.mem_map] at *
  obtain ⟨p, hp, rfl⟩ := h
  exact ⟨p, (List.mem_filter.mp hp).1, rfl⟩

end UMap
end Mila
