/-
Composition glue, C08/C09/C10/C11 → C12: the abstract `Lz` parameter of the filesystem model
instantiated with the LZ models of `Model/Lz.lean`, and the facts the filesystem theorems need
about that instance.

Representation gap: the filesystem model moves `Bytes = List UInt8`, the LZ model compresses an
`Array UInt8` (`BA`) into an `Array UInt8` and decompresses a `List UInt8` into an `Array UInt8`.
The adapter converts with `List.toArray` / `Array.toList`, which are mutually inverse and preserve
the length — nothing else is needed.
-/
import MilaModel.Model.LayeredFs
import MilaModel.Props.C08
import MilaModel.Props.C09
import MilaModel.Props.C10

namespace Mila.Compose
open Mila Mila.LayeredFs

/-- The LZ format behind a configuration value. -/
def lzFormat : LzKind → Mila.Lz.Format
  | .lz10 => .lz10
  | .lz13 => .lz13

/-- **The concrete LZ instance**: `CompressionFormat::{compress, decompress}` as modelled in
`Model/Lz.lean`, on byte lists. -/
def realLz (k : LzKind) : Lz where
  compress b := (Mila.Lz.Format.compress (lzFormat k) b.toArray).map Array.toList
  decompress s := (Mila.Lz.Format.decompress (lzFormat k) s).map Array.toList

/-- Any environment with its two LZ slots replaced by the concrete instance. -/
def withRealLz (E : Env) : Env := { E with lz10 := realLz .lz10, lz13 := realLz .lz13 }

theorem withRealLz_lz (E : Env) (k : LzKind) : (withRealLz E).lz k = realLz k := by
  cases k <;> rfl

/-- What `realLz.compress` returns, in terms of the array model. -/
theorem realLz_compress_ok {k : LzKind} {b c : Bytes} (h : (realLz k).compress b = .ok c) :
    ∃ out, Mila.Lz.Format.compress (lzFormat k) b.toArray = .ok out ∧ c = out.toList := by
  unfold realLz at h
  simp only at h
  cases hc : Mila.Lz.Format.compress (lzFormat k) b.toArray with
  | ok out => rw [hc] at h; simp only [Res.map, Res.ok.injEq] at h; exact ⟨out, rfl, h.symm⟩
  | err e => rw [hc] at h; simp [Res.map] at h
  | panic => rw [hc] at h; simp [Res.map] at h

/-- **C08 + C09 (with C11's decoder) on byte lists**: for every payload shorter than 16 MiB — the
empty one included — whatever the concrete compressor returns, the concrete decompressor turns back
into the payload. -/
theorem realLz_roundtrip (k : LzKind) (b : Bytes) (hb : b.length < 2 ^ 24) :
    ∀ c, (realLz k).compress b = .ok c → (realLz k).decompress c = .ok b := by
  intro c h
  obtain ⟨out, hc, rfl⟩ := realLz_compress_ok h
  have hx : b.toArray.size < 2 ^ 24 := by simpa using hb
  unfold realLz
  simp only
  cases k with
  | lz10 =>
    obtain ⟨out', h1, _, h3⟩ := Props.C08.lz10_roundtrip b.toArray hx
    have : out' = out := by
      have hc' : Mila.Lz.compress10 b.toArray = .ok out := hc
      rw [h1] at hc'; exact Res.ok.inj hc'
    subst this
    have h3' : Mila.Lz.Format.decompress (lzFormat .lz10) out'.toList = .ok b.toArray := h3
    rw [h3']
    simp [Res.map]
  | lz13 =>
    obtain ⟨out', h1, _, h3⟩ := Props.C09.lz13_roundtrip b.toArray hx
    have : out' = out := by
      have hc' : (Mila.Lz.compress13 b.toArray).1 = .ok out := hc
      rw [h1] at hc'; exact Res.ok.inj hc'
    subst this
    have h3' : Mila.Lz.Format.decompress (lzFormat .lz13) out'.toList = .ok b.toArray := h3
    rw [h3']
    simp [Res.map]

/-- The concrete compressor never fails (C08 `lz10_total`, C09 `lz13_total`), so a write on a
compressed path is never rejected by the LZ stage. -/
theorem realLz_compress_total (k : LzKind) (b : Bytes) : ∃ c, (realLz k).compress b = .ok c := by
  cases k with
  | lz10 =>
    obtain ⟨out, h⟩ := Props.C08.lz10_total b.toArray
    refine ⟨out.toList, ?_⟩
    show (Mila.Lz.compress10 b.toArray).map Array.toList = _
    rw [h]; rfl
  | lz13 =>
    obtain ⟨⟨out, h⟩, _⟩ := Props.C09.lz13_total b.toArray
    refine ⟨out.toList, ?_⟩
    show ((Mila.Lz.compress13 b.toArray).1).map Array.toList = _
    rw [h]; rfl

/-- Header bytes of a stored stream: 4 for LZ10; for LZ13 the 4-byte wrapper plus the LZ11 header
(4 bytes, 8 for the empty payload, which needs the extended length word). -/
def lzHeaderLen (k : LzKind) (n : Nat) : Nat :=
  match k with
  | .lz10 => 4
  | .lz13 => if n = 0 then 12 else 8

/-- **C10 on byte lists**: the compressed form of `n` bytes is at most the header, the `n` bytes and
one flag byte per eight of them. -/
theorem realLz_size_bound (k : LzKind) (b c : Bytes) (h : (realLz k).compress b = .ok c) :
    c.length ≤ lzHeaderLen k b.length + b.length + (b.length + 7) / 8 := by
  obtain ⟨out, hc, rfl⟩ := realLz_compress_ok h
  have hsz : b.toArray.size = b.length := by simp
  cases k with
  | lz10 =>
    obtain ⟨out', h1, h2⟩ := Props.C10.expansion_bound10 b.toArray
    have : out' = out := by
      have hc' : Mila.Lz.compress10 b.toArray = .ok out := hc
      rw [h1] at hc'; exact Res.ok.inj hc'
    subst this
    rw [hsz] at h2
    simpa [lzHeaderLen] using h2
  | lz13 =>
    obtain ⟨out', h1, h2⟩ := Props.C10.expansion_bound13 b.toArray
    have : out' = out := by
      have hc' : (Mila.Lz.compress13 b.toArray).1 = .ok out := hc
      rw [h1] at hc'; exact Res.ok.inj hc'
    subst this
    rw [hsz] at h2
    simpa [lzHeaderLen] using h2

end Mila.Compose
