/-
C19: the ETC1 decoder (`Etc1.decode`) puts texel `(X % 4, Y % 4)` of block number
`etcBlock w X Y` at pixel `(X, Y)` — for every width and height that are powers of two from 8 up
(below 2^16), in both arithmetic profiles, by an invariant over the six nested loops
(tile_y, tile_x, block_y, block_x over the state `(pos, bmp)`, then pixel_y, pixel_x over `bmp`).
-/
import MilaModel.Lemmas.PixelLoops
import MilaModel.Spec.Morton

namespace Mila.Etc1
open Pixel Spec.Morton

/-- Bytes per 4×4 block: 8 colour bytes, preceded by 8 alpha bytes in ETC1A4. -/
def blockBytes (alpha : Bool) : Nat := if alpha then 16 else 8

/-- The byte the decoder must leave at channel `c` of pixel `(X, Y)`. -/
def expByte (data : Buf) (w : Nat) (alpha : Bool) (X Y c : Nat) : UInt8 :=
  let bi := Spec.Morton.etcBlock w X Y
  let alphas := if alpha then data.leN (bi * blockBytes alpha) 8 else 0xFFFFFFFFFFFFFFFF
  let pixels := data.leN (bi * blockBytes alpha + (if alpha then 8 else 0)) 8
  Pixel.chanByte (texel alphas pixels (X % 4) (Y % 4)) c

/-! ### Powers of two from 8 up -/

theorem pow2_split {n : Nat} (h : PowerOfTwoFrom8 n) : ∃ m, 0 < m ∧ n = m * 8 ∧ 2 ^ m.log2 = m := by
  obtain ⟨k, hk, rfl⟩ := h
  obtain ⟨j, rfl⟩ : ∃ j, k = j + 3 := ⟨k - 3, by omega⟩
  refine ⟨2 ^ j, Nat.two_pow_pos j, ?_, ?_⟩
  · rw [Nat.pow_add]
  · rw [Nat.log2_two_pow]

theorem pow2_mod8 {n : Nat} (h : PowerOfTwoFrom8 n) : n % 8 = 0 := by
  obtain ⟨m, _, rfl, _⟩ := pow2_split h
  omega

theorem tileCount_pow2 {n : Nat} (h : Spec.Morton.PowerOfTwoFrom8 n) : tileCount n = n / 8 := by
  obtain ⟨m, _, rfl, hm⟩ := pow2_split h
  unfold tileCount
  have h1 : (m * 8 + 7) / 8 = m := by omega
  have h2 : m * 8 / 8 = m := by omega
  rw [h1, h2, hm]

/-! ### The walk -/

/-- The block of pixel `(X, Y)` is decoded before block `(ty, tx, qy, qx)`. -/
def BeforeB (ty tx qy qx X Y : Nat) : Prop :=
  Y / 8 < ty ∨ (Y / 8 = ty ∧ (X / 8 < tx ∨ (X / 8 = tx ∧
    (Y % 8 / 4 < qy ∨ (Y % 8 / 4 = qy ∧ X % 8 / 4 < qx)))))

/-- Pixel `(X, Y)` lies in block `(ty, tx, qy, qx)`. -/
def InB (ty tx qy qx X Y : Nat) : Prop :=
  Y / 8 = ty ∧ X / 8 = tx ∧ Y % 8 / 4 = qy ∧ X % 8 / 4 = qx

/-- Pixel `(X, Y)` is written before the step `(py, px)` of block `(ty, tx, qy, qx)`. -/
def BeforeP (ty tx qy qx py px X Y : Nat) : Prop :=
  BeforeB ty tx qy qx X Y ∨ (InB ty tx qy qx X Y ∧ (Y % 4 < py ∨ (Y % 4 = py ∧ X % 4 < px)))

/-- Invariant of the two pixel loops of a block (state = `bmp`). -/
structure PInv (E : Nat → Nat → Nat → UInt8) (w h ty tx qy qx py px : Nat) (bmp : Buf) : Prop where
  size : bmp.size = 4 * (h * w)
  pix : ∀ X Y c, X < w → Y < h → c < 4 → BeforeP ty tx qy qx py px X Y →
    bmp.getD ((Y * w + X) * 4 + c) 0 = E X Y c

theorem pixel_ok {E : Nat → Nat → Nat → UInt8} {w h ty tx qy qx py px alphas pixels : Nat}
    (hw : w % 8 = 0) (hh : h % 8 = 0) (hty : ty < h / 8) (htx : tx < w / 8)
    (hqy : qy < 2) (hqx : qx < 2) (hpy : py < 4) (hpx : px < 4)
    (hE : ∀ X Y c, InB ty tx qy qx X Y → E X Y c = chanByte (texel alphas pixels (X % 4) (Y % 4)) c)
    (bmp : Buf) (inv : PInv E w h ty tx qy qx py px bmp) :
    ∃ bmp', (if px + qx * 4 + tx * 8 ≥ w ∨ py + qy * 4 + ty * 8 ≥ h then Res.ok bmp
        else put4 bmp (((py + qy * 4 + ty * 8) * w + (px + qx * 4 + tx * 8)) * 4)
          (texel alphas pixels px py)) = .ok bmp' ∧
      PInv E w h ty tx qy qx py (px + 1) bmp' := by
  generalize hx : px + qx * 4 + tx * 8 = x
  generalize hy : py + qy * 4 + ty * 8 = y
  have hX : x < w := by omega
  have hY : y < h := by omega
  have hidx := idx_lt hX hY
  have hguard : ¬ (x ≥ w ∨ y ≥ h) := by omega
  have hput : (y * w + x) * 4 + 3 < bmp.size := by rw [inv.size]; omega
  have hput4 : (y * w + x) * 4 + 4 ≤ bmp.size := by omega
  refine ⟨_, by rw [if_neg hguard, put4, if_pos hput], ?_, ?_⟩
  · simp only [Array.size_setIfInBounds]; exact inv.size
  · intro X Y c hXw hYh hc hbef
    rw [set4_getD _ _ _ hput4]
    by_cases hsame : X = x ∧ Y = y
    · obtain ⟨rfl, rfl⟩ := hsame
      have hin : (Y * w + X) * 4 ≤ (Y * w + X) * 4 + c ∧ (Y * w + X) * 4 + c < (Y * w + X) * 4 + 4 := by omega
      rw [if_pos hin, Nat.add_sub_cancel_left]
      have h1 : X % 4 = px := by omega
      have h2 : Y % 4 = py := by omega
      rw [hE X Y c ⟨by omega, by omega, by omega, by omega⟩, h1, h2]
    · have hne : Y * w + X ≠ y * w + x := by
        intro heq
        have := idx_inj hXw hX heq
        omega
      have hout : ¬ ((y * w + x) * 4 ≤ (Y * w + X) * 4 + c ∧ (Y * w + X) * 4 + c < (y * w + x) * 4 + 4) := by
        omega
      rw [if_neg hout]
      apply inv.pix X Y c hXw hYh hc
      rcases hbef with hb | ⟨hin, hb⟩
      · exact Or.inl hb
      · refine Or.inr ⟨hin, ?_⟩
        obtain ⟨i1, i2, i3, i4⟩ := hin
        omega

theorem blockPixels_ok {E : Nat → Nat → Nat → UInt8} {w h ty tx qy qx alphas pixels : Nat}
    (hw : w % 8 = 0) (hh : h % 8 = 0) (hty : ty < h / 8) (htx : tx < w / 8)
    (hqy : qy < 2) (hqx : qx < 2)
    (hE : ∀ X Y c, InB ty tx qy qx X Y → E X Y c = chanByte (texel alphas pixels (X % 4) (Y % 4)) c)
    (bmp : Buf) (inv : PInv E w h ty tx qy qx 0 0 bmp) :
    ∃ bmp', blockPixels w h ty tx qy qx alphas pixels bmp = .ok bmp' ∧
      PInv E w h ty tx qy qx 4 0 bmp' := by
  unfold blockPixels
  refine forRange_inv _ (fun py b => PInv E w h ty tx qy qx py 0 b) 4 bmp inv ?_
  intro py b hpy inv
  have inner := forRange_inv
    (fun pixel_x bmp =>
      if pixel_x + qx * 4 + tx * 8 ≥ w ∨ py + qy * 4 + ty * 8 ≥ h then Res.ok bmp
      else put4 bmp (((py + qy * 4 + ty * 8) * w + (pixel_x + qx * 4 + tx * 8)) * 4)
        (texel alphas pixels pixel_x py))
    (fun px b => PInv E w h ty tx qy qx py px b) 4 b inv
    (fun px b hpx inv => pixel_ok hw hh hty htx hqy hqx hpy hpx hE b inv)
  obtain ⟨b', hb', inv'⟩ := inner
  refine ⟨b', hb', inv'.size, ?_⟩
  intro X Y c hX hY hc hbef
  apply inv'.pix X Y c hX hY hc
  rcases hbef with hb | ⟨hin, hb⟩
  · exact Or.inl hb
  · refine Or.inr ⟨hin, ?_⟩
    omega

/-- Invariant of the four block loops (state = `(pos, bmp)`). -/
structure BInv (data : Buf) (w h : Nat) (alpha : Bool) (ty tx qy qx : Nat) (s : Nat × Buf) : Prop where
  pos : s.1 = ((ty * (w / 8) + tx) * 4 + qy * 2 + qx) * blockBytes alpha
  size : s.2.size = 4 * (h * w)
  pix : ∀ X Y c, X < w → Y < h → c < 4 → BeforeB ty tx qy qx X Y →
    s.2.getD ((Y * w + X) * 4 + c) 0 = expByte data w alpha X Y c

theorem blockStep_ok {data : Buf} {w h : Nat} {alpha : Bool} {ty tx qy qx : Nat}
    (hw : w % 8 = 0) (hh : h % 8 = 0)
    (hd : data.size = (h / 8 * (w / 8) * 4) * blockBytes alpha)
    (hty : ty < h / 8) (htx : tx < w / 8) (hqy : qy < 2) (hqx : qx < 2) (s : Nat × Buf)
    (inv : BInv data w h alpha ty tx qy qx s) :
    ∃ s', blockStep data w h alpha ty tx qy qx s = .ok s' ∧ BInv data w h alpha ty tx qy (qx + 1) s' := by
  have hk : (ty * (w / 8) + tx) * 4 + qy * 2 + qx + 1 ≤ h / 8 * (w / 8) * 4 := by
    have : (ty + 1) * (w / 8) ≤ h / 8 * (w / 8) := Nat.mul_le_mul_right _ hty
    rw [Nat.succ_mul] at this
    omega
  have hread : s.1 + blockBytes alpha ≤ data.size := by
    rw [inv.pos, hd, ← Nat.succ_mul]
    exact Nat.mul_le_mul_right _ hk
  have hE : ∀ X Y c, InB ty tx qy qx X Y → expByte data w alpha X Y c =
      chanByte (texel (if alpha then data.leN s.1 8 else 0xFFFFFFFFFFFFFFFF)
        (data.leN (if alpha then s.1 + 8 else s.1) 8) (X % 4) (Y % 4)) c := by
    intro X Y c hin
    obtain ⟨i1, i2, i3, i4⟩ := hin
    have hb : etcBlock w X Y = (ty * (w / 8) + tx) * 4 + qy * 2 + qx := by
      unfold etcBlock; rw [i1, i2, i3, i4]
    have hp := inv.pos
    simp only [expByte, hb, ← hp]
    cases alpha <;> simp
  obtain ⟨bmp', hbp, inv'⟩ := blockPixels_ok (E := expByte data w alpha) hw hh hty htx hqy hqx hE s.2
    ⟨inv.size, fun X Y c hX hY hc hbef => inv.pix X Y c hX hY hc (by
      rcases hbef with hb | ⟨_, hb⟩
      · exact hb
      · omega)⟩
  refine ⟨(s.1 + blockBytes alpha, bmp'), ?_, ?_, inv'.size, ?_⟩
  · have hread' : s.1 + (if alpha = true then 16 else 8) ≤ data.size := hread
    simp only [blockStep, if_pos hread', hbp]
    rfl
  · show s.1 + blockBytes alpha = _
    rw [inv.pos, ← Nat.succ_mul]
    rfl
  · intro X Y c hX hY hc hbef
    apply inv'.pix X Y c hX hY hc
    by_cases hin : InB ty tx qy qx X Y
    · exact Or.inr ⟨hin, Or.inl (by omega)⟩
    · refine Or.inl ?_
      unfold BeforeB at hbef ⊢
      unfold InB at hin
      omega

/-- The whole walk: every pixel holds its texel of its block. -/
theorem walk_ok {data : Buf} {w h : Nat} {alpha : Bool} (hw : w % 8 = 0) (hh : h % 8 = 0)
    (hd : data.size = (h / 8 * (w / 8) * 4) * blockBytes alpha)
    (bmp : Buf) (hb : bmp.size = 4 * (h * w)) :
    ∃ s', forRange (h / 8) (fun tile_y st =>
        forRange (w / 8) (fun tile_x st =>
          forRange 2 (fun block_y st =>
            forRange 2 (fun block_x st =>
              blockStep data w h alpha tile_y tile_x block_y block_x st) st) st) st) (0, bmp) = .ok s' ∧
      s'.2.size = 4 * (h * w) ∧
      ∀ X Y c, X < w → Y < h → c < 4 → s'.2.getD ((Y * w + X) * 4 + c) 0 = expByte data w alpha X Y c := by
  have outer := forRange_inv
    (fun tile_y st => forRange (w / 8) (fun tile_x st =>
      forRange 2 (fun block_y st =>
        forRange 2 (fun block_x st =>
          blockStep data w h alpha tile_y tile_x block_y block_x st) st) st) st)
    (fun ty s => BInv data w h alpha ty 0 0 0 s) (h / 8) (0, bmp)
    ⟨by simp, hb, by intro X Y c _ _ _ hbef; unfold BeforeB at hbef; omega⟩
    (by
      intro ty s hty inv
      have l2 := forRange_inv
        (fun tile_x st => forRange 2 (fun block_y st =>
          forRange 2 (fun block_x st =>
            blockStep data w h alpha ty tile_x block_y block_x st) st) st)
        (fun tx s => BInv data w h alpha ty tx 0 0 s) (w / 8) s inv
        (by
          intro tx s htx inv
          have l3 := forRange_inv
            (fun block_y st => forRange 2 (fun block_x st =>
              blockStep data w h alpha ty tx block_y block_x st) st)
            (fun qy s => BInv data w h alpha ty tx qy 0 s) 2 s inv
            (by
              intro qy s hqy inv
              have l4 := forRange_inv
                (fun block_x st => blockStep data w h alpha ty tx qy block_x st)
                (fun qx s => BInv data w h alpha ty tx qy qx s) 2 s inv
                (fun qx s hqx inv => blockStep_ok hw hh hd hty htx hqy hqx s inv)
              obtain ⟨s', hs', inv'⟩ := l4
              refine ⟨s', hs', ?_, inv'.size, ?_⟩
              · have e : (ty * (w / 8) + tx) * 4 + qy * 2 + 2 = (ty * (w / 8) + tx) * 4 + (qy + 1) * 2 + 0 := by
                  omega
                rw [inv'.pos, e]
              · intro X Y c hX hY hc hbef
                apply inv'.pix X Y c hX hY hc
                unfold BeforeB at hbef ⊢
                omega)
          obtain ⟨s', hs', inv'⟩ := l3
          refine ⟨s', hs', ?_, inv'.size, ?_⟩
          · have e : (ty * (w / 8) + tx) * 4 + 2 * 2 + 0 = (ty * (w / 8) + (tx + 1)) * 4 + 0 * 2 + 0 := by
              omega
            rw [inv'.pos, e]
          · intro X Y c hX hY hc hbef
            apply inv'.pix X Y c hX hY hc
            unfold BeforeB at hbef ⊢
            omega)
      obtain ⟨s', hs', inv'⟩ := l2
      refine ⟨s', hs', ?_, inv'.size, ?_⟩
      · have e : (ty * (w / 8) + w / 8) * 4 + 0 * 2 + 0 = ((ty + 1) * (w / 8) + 0) * 4 + 0 * 2 + 0 := by
          rw [Nat.succ_mul]; rfl
        rw [inv'.pos, e]
      · intro X Y c hX hY hc hbef
        apply inv'.pix X Y c hX hY hc
        unfold BeforeB at hbef ⊢
        have : X / 8 < w / 8 := by omega
        omega)
  obtain ⟨s', hs', inv'⟩ := outer
  refine ⟨s', hs', inv'.size, ?_⟩
  intro X Y c hX hY hc
  apply inv'.pix X Y c hX hY hc
  unfold BeforeB
  have : Y / 8 < h / 8 := by omega
  omega

theorem mulN_ok {bits : Nat} (p : Profile) {a b : Nat} (h : a * b < 2 ^ bits) :
    mulN bits p a b = .ok (a * b) := by
  simp [mulN, h]

/-- C19, ETC1: on power-of-two sizes the decoder succeeds (both profiles) and pixel `(X, Y)` holds
texel `(X % 4, Y % 4)` of block `etcBlock w X Y`. -/
theorem decode_ok (p : Profile) (data : Buf) (w h : Nat) (alpha : Bool)
    (hw : Spec.Morton.PowerOfTwoFrom8 w) (hh : Spec.Morton.PowerOfTwoFrom8 h)
    (hwb : w < 2 ^ 16) (hhb : h < 2 ^ 16)
    (hd : data.size = (h / 8 * (w / 8) * 4) * blockBytes alpha) :
    ∃ bmp, decode p data w h alpha = .ok bmp ∧ bmp.size = 4 * (h * w) ∧
      ∀ X Y c, X < w → Y < h → c < 4 →
        bmp.getD ((Y * w + X) * 4 + c) 0 = expByte data w alpha X Y c := by
  have hwh : w * h < 2 ^ 16 * 2 ^ 16 := Nat.mul_lt_mul'' hwb hhb
  have hassoc : 4 * w * h = 4 * (h * w) := by rw [Nat.mul_assoc, Nat.mul_comm w h]
  have h1 : mulN 64 p 4 w = .ok (4 * w) := mulN_ok p (by omega)
  have h2 : mulN 64 p (4 * w) h = .ok (4 * w * h) := mulN_ok p (by rw [hassoc, Nat.mul_comm h w]; omega)
  have halloc : 4 * w * h < allocLimit := by rw [hassoc, Nat.mul_comm h w]; unfold allocLimit; omega
  obtain ⟨s', hs', hsz, hpix⟩ := walk_ok (alpha := alpha) (pow2_mod8 hw) (pow2_mod8 hh) hd
    (Buf.zeros (4 * w * h)) (by rw [Buf.zeros, Array.size_replicate, hassoc])
  refine ⟨s'.2, ?_, hsz, hpix⟩
  simp only [decode, bind, Res.bind, h1, h2, if_pos halloc, pure, tileCount_pow2 hw, tileCount_pow2 hh, hs']

end Mila.Etc1
