/-
Composition glue, C01 → C06/C17/C18: the bin-archive round trip of property C01 (`Ser.parse_serialize`,
stated with `RoundTrip` / `Parsed`) implies the `BinRoundTrip` / `SameContent` hypothesis that the
layered formats take, for every archive of C01's domain that has no pending c-string and no empty
label bucket (an empty bucket is not content: the parser cannot recreate it).
-/
import MilaModel.Lemmas.SerObs
import MilaModel.Lemmas.AsetCells

namespace Mila.Compose
open Mila Mila.BinArchive Mila.Ser Mila.Layered Mila.Spec.Image

section
variable {c : Codec} {D : Str → Prop} {a b : BinArchive} {f : Bytes}

/-- Without c-strings every pointer lookup survives. -/
theorem rt_pointer_get (h : RoundTrip c D a f b) (hC : a.cstrings = []) (x : Nat) :
    UMap.get b.pointers x = UMap.get a.pointers x := by
  cases hg : UMap.get a.pointers x with
  | some v =>
    have hm : (x, v) ∈ a.pointers :=
      (mem_iff_get (List.nodup_append.mp (List.nodup_append.mp (archCells_nodup h.wf)).1).1 (x, v)).mpr hg
    exact rt_pointer h hm
  | none =>
    apply rt_pointer_none h
    · exact (get_eq_none_iff a.pointers x).mp hg
    · intro q hq; rw [hC] at hq; cases hq

/-- Label buckets survive exactly (not only up to `getD []`) when the original has no empty one. -/
theorem rt_labels_get (h : RoundTrip c D a f b) (hne : ∀ p ∈ a.labels, p.2 ≠ []) (x : Nat) :
    UMap.get b.labels x = UMap.get a.labels x := by
  have hl := rt_labels h x
  cases ha : UMap.get a.labels x with
  | some l =>
    have hm : (x, l) ∈ a.labels := (mem_iff_get h.wf.labelKeys (x, l)).mpr ha
    have hl0 : l ≠ [] := hne _ hm
    rw [ha] at hl
    cases hb : UMap.get b.labels x with
    | some l' => rw [hb] at hl; simp only [Option.getD_some] at hl; rw [hl]
    | none => rw [hb] at hl; simp only [Option.getD_some, Option.getD_none] at hl; exact absurd hl.symm hl0
  | none =>
    rw [ha] at hl
    cases hb : UMap.get b.labels x with
    | none => rfl
    | some l' =>
      rw [hb] at hl
      simp only [Option.getD_some, Option.getD_none] at hl
      have hm : (x, l') ∈ b.labels := (mem_iff_get h.parsed.labelKeys (x, l')).mpr hb
      exact absurd hl (h.parsed.nonempty _ hm)

/-- **C01's conclusion, in the form the layered formats use.** -/
theorem sameContent_of_roundTrip (h : RoundTrip c D a f b) (hC : a.cstrings = [])
    (hne : ∀ p ∈ a.labels, p.2 ≠ []) : SameContent a b where
  size := by rw [rt_size h, cstrPool_nil c a hC]; rfl
  endian := h.parsed.endian
  text := rt_string h
  pointers := rt_pointer_get h hC
  labels := rt_labels_get h hne
  raw := by
    intro p _ hfree
    apply List.ext_getElem?
    intro i
    rw [BinArchive.getElem?_slice, BinArchive.getElem?_slice]
    by_cases hi : i < 4
    · rw [if_pos hi, if_pos hi, rt_bytes h (p + i), cstrPool_nil c a hC, List.append_nil]
      intro x hx
      unfold archCells at hx
      rw [hC] at hx
      simp only [List.flatMap_nil, List.append_nil, List.mem_append, List.mem_map] at hx
      by_cases hov : x < p + 4 ∧ p < x + 4
      · obtain ⟨ht, hp⟩ := hfree x hov.1 hov.2
        rcases hx with ⟨q, hq, rfl⟩ | ⟨q, hq, rfl⟩
        · exact absurd rfl ((get_eq_none_iff a.pointers q.1).mp hp q hq)
        · exact absurd rfl ((get_eq_none_iff a.text q.1).mp ht q hq)
      · omega
    · rw [if_neg hi, if_neg hi]

end

/-- **`BinRoundTrip` is a theorem** (property C01) for every archive of C01's quantifier — cells
pairwise disjoint and inside the data, targets and labels `≤ size` — over a codec faithful on its
strings, with an image below 4 GiB, no pending c-string and no empty label bucket. -/
theorem binRoundTrip_of_C01 (c : Codec) (D : Str → Prop) (a : BinArchive) (wf : ArchWF a)
    (hf : c.Faithful D) (dom : InDomain D a) (small : imageSize c a < 2 ^ 32)
    (hC : a.cstrings = []) (hne : ∀ p ∈ a.labels, p.2 ≠ []) : BinRoundTrip c a := by
  intro bytes hs
  obtain ⟨f, b, hs', hb, hc, hp⟩ := Ser.parse_serialize c D a wf hf dom small
  have hs'' : BinArchive.serialize c a = .ok bytes := hs
  rw [hs''] at hs'
  cases hs'
  exact ⟨b, hb, sameContent_of_roundTrip ⟨wf, hf, dom, hc, hp⟩ hC hne⟩

/-- With no annotated cell at all (no strings, pointers, c-strings) the data block survives
byte for byte. -/
theorem data_eq_of_roundTrip {c : Codec} {D : Str → Prop} {a b : BinArchive} {f : Bytes}
    (h : RoundTrip c D a f b) (hT : a.text = []) (hP : a.pointers = []) (hC : a.cstrings = []) :
    b.data = a.data := by
  apply List.ext_getElem?
  intro i
  rw [rt_bytes h i, cstrPool_nil c a hC, List.append_nil]
  intro x hx
  unfold archCells at hx
  rw [hT, hP, hC] at hx
  simp at hx

end Mila.Compose
