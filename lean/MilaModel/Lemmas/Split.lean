/- Helper lemmas about `splitOn'` / `joinWith` (used by C14 and the filesystem properties). -/
import MilaModel.Basic

namespace Mila
variable {α : Type} [DecidableEq α]

theorem splitOn'_ne_nil (sep : α) (l : List α) : splitOn' sep l ≠ [] := by
  induction l with
  | nil => simp [splitOn']
  | cons x xs ih =>
    unfold splitOn'
    split
    · simp
    · split <;> simp

theorem splitOn'_nosep (sep : α) (p : List α) (h : sep ∉ p) : splitOn' sep p = [p] := by
  induction p with
  | nil => simp [splitOn']
  | cons x xs ih =>
    have hx : x ≠ sep := by intro e; apply h; simp [e]
    have hxs : sep ∉ xs := by intro e; apply h; simp [e]
    unfold splitOn'
    simp [hx, ih hxs]

theorem splitOn'_append_sep (sep : α) (p rest : List α) (h : sep ∉ p) :
    splitOn' sep (p ++ sep :: rest) = p :: splitOn' sep rest := by
  induction p with
  | nil => simp [splitOn']
  | cons x xs ih =>
    have hx : x ≠ sep := by intro e; apply h; simp [e]
    have hxs : sep ∉ xs := by intro e; apply h; simp [e]
    show splitOn' sep (x :: (xs ++ sep :: rest)) = _
    conv => lhs; unfold splitOn'
    simp [hx, ih hxs]

/-- Splitting the join of separator-free pieces gives the pieces back. -/
theorem splitOn'_joinWith (sep : α) (ps : List (List α)) (hne : ps ≠ [])
    (h : ∀ p ∈ ps, sep ∉ p) : splitOn' sep (joinWith sep ps) = ps := by
  induction ps with
  | nil => exact absurd rfl hne
  | cons p ps ih =>
    cases ps with
    | nil => simp [joinWith, splitOn'_nosep sep p (h p (by simp))]
    | cons q qs =>
      have hp : sep ∉ p := h p (by simp)
      have : splitOn' sep (joinWith sep (q :: qs)) = q :: qs :=
        ih (by simp) (fun r hr => h r (by simp [hr]))
      simp [joinWith, splitOn'_append_sep sep p _ hp, this]

omit [DecidableEq α] in
theorem joinWith_append_singleton (sep : α) (ps : List (List α)) (l : List α) (hne : ps ≠ []) :
    joinWith sep (ps ++ [l]) = joinWith sep ps ++ sep :: l := by
  induction ps with
  | nil => exact absurd rfl hne
  | cons p ps ih =>
    cases ps with
    | nil => simp [joinWith]
    | cons q qs =>
      have := ih (by simp)
      simp [joinWith] at this ⊢
      exact this

end Mila
