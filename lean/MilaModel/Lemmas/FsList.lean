/- Listings (C13): one layer's `list` / `subdirectories` against the specification's per-layer
entries, and the union loop. -/
import MilaModel.Model.LayeredFs
import MilaModel.Spec.OverlayFs
import MilaModel.Lemmas.FsBridge
import MilaModel.Lemmas.FsGlob
import MilaModel.Lemmas.FsSort

namespace Mila.LayeredFs
open Mila.Spec.Overlay (Walk Kind Loc locOf Pat entriesUnder childDirs showPath)

theorem showPath_eq_render (c : Comps) : showPath c = render c := rfl

theorem collect_ok (f : Layer → Res (List Bytes)) (g : Layer → List Bytes) (ls : List Layer)
    (h : ∀ l ∈ ls, f l = .ok (g l)) : Fs.collect f ls = .ok (ls.flatMap g) := by
  induction ls with
  | nil => rfl
  | cons l rest ih =>
    have h1 := h l (by simp)
    have h2 := ih (fun x hx => h x (by simp [hx]))
    simp [Fs.collect, h1, h2]

/-- One layer's `list` on a domain directory with a pattern of the family is the specification's
per-layer entry list, rendered. -/
theorem layer_list_eq (l : Layer) {d : Bytes} {q : Loc} (h : locOf d = some q)
    (pt : Pat) (pat : Option Bytes) (g : Glob) (hc : Compiles pat g)
    (hm : ∀ rel, g.matches rel = pt.matches rel) :
    l.list d pat = .ok ((entriesUnder (walkOf l) q.comps pt).map showPath) := by
  unfold Layer.list entriesUnder
  rw [stat_of_locOf l h]
  have hcomp : Glob.parse (pat.getD Layer.defaultPattern) = some g := hc
  cases hg : l.get q.comps with
  | none =>
    have : ¬ (walkOf l).at q.comps = some .dir := by rw [at_dir_iff, hg]; simp
    simp [this]
  | some n =>
    cases n with
    | file b =>
      have : ¬ (walkOf l).at q.comps = some .dir := by rw [at_dir_iff, hg]; simp
      cases hd : q.dirOnly <;> simp [this, hcomp]
    | dir =>
      have : (walkOf l).at q.comps = some .dir := by rw [at_dir_iff, hg]
      simp only [this, if_true, hcomp, parsePath_of_locOf h]
      congr 1
      unfold Layer.globUnder walkOf
      rw [List.filter_map, List.map_map, List.map_map]
      have hf : ((fun e : List Bytes × Kind => q.comps.isPrefixOf e.1 && decide (q.comps.length < e.1.length) &&
            pt.matches (List.drop q.comps.length e.1)) ∘ fun e : Comps × Node => (e.1, kindOf e.2)) =
          (fun e : Comps × Node => q.comps.isPrefixOf e.1 && decide (q.comps.length < e.1.length) &&
            g.matches (List.drop q.comps.length e.1)) := by
        funext e; simp [hm]
      rw [hf]
      rfl

theorem layer_subdirs_eq (l : Layer) {d : Bytes} {q : Loc} (h : locOf d = some q) :
    l.subdirectories d = .ok ((childDirs (walkOf l) q.comps).map showPath) := by
  unfold Layer.subdirectories childDirs
  rw [stat_of_locOf l h]
  cases hg : l.get q.comps with
  | none =>
    have : ¬ (walkOf l).at q.comps = some .dir := by rw [at_dir_iff, hg]; simp
    simp [this]
  | some n =>
    cases n with
    | file b =>
      have : ¬ (walkOf l).at q.comps = some .dir := by rw [at_dir_iff, hg]; simp
      cases hd : q.dirOnly <;> simp [this]
    | dir =>
      have : (walkOf l).at q.comps = some .dir := by rw [at_dir_iff, hg]
      simp only [this, if_true, parsePath_of_locOf h]
      congr 1
      unfold Layer.globUnder walkOf
      rw [List.filter_map, List.map_map, List.map_map, List.filter_filter]
      have hf : ((fun e : List Bytes × Kind => q.comps.isPrefixOf e.1 && decide (e.1.length = q.comps.length + 1) &&
            decide (e.2 = Kind.dir)) ∘ fun e : Comps × Node => (e.1, kindOf e.2)) =
          (fun e : Comps × Node => decide (e.2 = Node.dir) && (q.comps.isPrefixOf e.1 && decide (q.comps.length < e.1.length) &&
            (Glob.chain [[Tok.star]]).matches (List.drop q.comps.length e.1))) := by
        funext e
        obtain ⟨c, n⟩ := e
        have hk : decide (kindOf n = Kind.dir) = decide (n = Node.dir) := by cases n <;> simp [kindOf]
        simp only [Function.comp, hk, Glob.matches]
        by_cases hp : q.comps.isPrefixOf c = true
        · simp only [hp, Bool.true_and]
          have hmc : matchChain [[Tok.star]] (List.drop q.comps.length c) =
              decide ((List.drop q.comps.length c).length = 1) := by
            cases hdr : List.drop q.comps.length c with
            | nil => simp [matchChain]
            | cons a rest =>
              cases rest with
              | nil => simp [matchChain, wild_star_any]
              | cons b r => simp [matchChain]
          rw [hmc, List.length_drop]
          have : (decide (q.comps.length < c.length) && decide (c.length - q.comps.length = 1)) =
              decide (c.length = q.comps.length + 1) := by
            rw [Bool.eq_iff_iff]; simp; omega
          rw [Bool.and_comm, this]
        · simp [hp]
      rw [hf]
      rfl

/-- The union loop followed by `HashSet` + `sort()` yields the specification's sorted union. -/
theorem sortedUnion_of_layers (ls : List Layer) (f : Layer → Res (List Bytes)) (per : Walk → List (List Bytes))
    (h : ∀ l ∈ ls, f l = .ok ((per (walkOf l)).map showPath)) :
    ∃ r, (match Fs.collect f ls with
        | .ok all => (.ok (Fs.sortSet all) : Res (List Bytes))
        | .err e => .err e
        | .panic => .panic) = .ok r ∧
      Spec.Overlay.IsSortedUnion ((ls.map walkOf).map per) r := by
  rw [collect_ok f (fun l => (per (walkOf l)).map showPath) ls h]
  refine ⟨_, rfl, Fs.sortSet_strict _, ?_⟩
  intro x
  rw [Fs.mem_sortSet]
  simp only [List.mem_flatMap, List.mem_map, List.map_map]
  constructor
  · rintro ⟨l, hl, c, hc, rfl⟩
    exact ⟨per (walkOf l), ⟨l, hl, rfl⟩, c, hc, rfl⟩
  · rintro ⟨es, ⟨l, hl, rfl⟩, c, hc, rfl⟩
    exact ⟨l, hl, c, hc, rfl⟩

end Mila.LayeredFs
