/-
Helper lemmas for C16 (3DS arc): the bin-archive primitives used by `arc.rs` expressed over the
*content* of an archive (data bytes, string cells, labels), and the loops of `Arc.fromArchive`.
-/
import MilaModel.Model.Arc
import MilaModel.Spec.ArcImage

namespace Mila.ArcLemmas
open Mila Mila.Arc Mila.BinArchive
open Mila.Spec.Arc (Content u32le LowestLabel NoLabel RecordAt BodyAt RangeLeaves)

/-- The content of a bin archive that arc extraction looks at. -/
def contentOf (a : BinArchive) : Content :=
  ⟨a.data, a.text, a.labels.flatMap (fun p => p.2.map (fun l => (p.1, l)))⟩

/-! ### numbers -/

theorem ofLe_lt (b : Bytes) : ofLe b < 256 ^ b.length := by
  induction b with
  | nil => simp [ofLe]
  | cons x xs ih =>
    have hx : x.toNat < 256 := x.toNat_lt
    simp only [ofLe, List.length_cons, Nat.pow_succ]
    omega

theorem ofBe_lt (b : Bytes) : ofBe b < 256 ^ b.length := by
  have := ofLe_lt b.reverse; simpa [ofBe] using this

theorem dec_lt (e : Endian) (b : Bytes) : e.dec b < 256 ^ b.length := by
  cases e
  · exact ofLe_lt b
  · exact ofBe_lt b

theorem u32le_lt {d : Bytes} {off v : Nat} (h : u32le d off = some v) : v < 2 ^ 32 := by
  unfold u32le at h
  split at h
  · have hv := Option.some.inj h
    rw [← hv]
    have hl : ((d.drop off).take 4).length = 4 := by simp; omega
    have := ofLe_lt ((d.drop off).take 4)
    rw [hl] at this; exact this
  · exact absurd h (by simp)

/-! ### cell reads over the content -/

theorem readU32_eq (a : BinArchive) (hle : a.endian = .little) (addr : Nat) :
    a.readU32 addr = match u32le a.data addr with
      | some v => .ok v
      | none => .err .OutOfBounds := by
  unfold BinArchive.readU32 readUInt validateCell validateAddress u32le BinArchive.size slice
  by_cases h1 : addr ≥ a.data.length
  · have : ¬ addr + 4 ≤ a.data.length := by omega
    simp [h1, this]
  · by_cases h2 : addr + 4 > a.data.length
    · have : ¬ addr + 4 ≤ a.data.length := by omega
      simp [h1, h2, this]
    · have : addr + 4 ≤ a.data.length := by omega
      simp [h1, h2, this, hle, Endian.dec]

theorem readU32_lt (a : BinArchive) (addr v : Nat) (h : a.readU32 addr = .ok v) : v < 2 ^ 32 := by
  unfold BinArchive.readU32 readUInt at h
  split at h
  · have hv := Res.ok.inj h
    rename_i hc
    have hl : (slice a.data addr 4).length = 4 := by
      unfold validateCell validateAddress BinArchive.size at hc
      unfold slice
      by_cases h1 : addr ≥ a.data.length
      · simp [h1] at hc
      · by_cases h2 : addr + 4 > a.data.length
        · simp [h1, h2] at hc
        · simp; omega
    have := dec_lt a.endian (slice a.data addr 4)
    rw [hl] at this; rw [← hv]; exact this
  · exact absurd h (by simp)
  · exact absurd h (by simp)

theorem readString_eq (a : BinArchive) (addr : Nat) :
    a.readString addr = if addr + 4 ≤ a.data.length then .ok (a.text.get addr) else .err .OutOfBounds := by
  unfold BinArchive.readString validateCell validateAddress BinArchive.size
  by_cases h1 : addr ≥ a.data.length
  · have : ¬ addr + 4 ≤ a.data.length := by omega
    simp [h1, this]
  · by_cases h2 : addr + 4 > a.data.length
    · have : ¬ addr + 4 ≤ a.data.length := by omega
      simp [h1, h2, this]
    · have : addr + 4 ≤ a.data.length := by omega
      simp [h1, h2, this]

/-! ### maps and labels -/

theorem get_of_mem {ν : Type} : ∀ (m : UMap Nat ν) (k : Nat) (v : ν),
    (m.map (·.1)).Nodup → (k, v) ∈ m → UMap.get m k = some v := by
  intro m
  induction m with
  | nil => intro k v _ h; simp at h
  | cons p ps ih =>
    intro k v hn hm
    simp only [List.map_cons, List.nodup_cons] at hn
    simp only [List.mem_cons] at hm
    unfold UMap.get
    rcases hm with rfl | hm
    · simp
    · have hne : p.1 ≠ k := by
        intro e; apply hn.1; rw [e]; exact List.mem_map.mpr ⟨(k, v), hm, rfl⟩
      simp only [List.find?_cons, hne, decide_false]
      exact ih k v hn.2 hm

theorem get_none {ν : Type} (m : UMap Nat ν) (k : Nat) (h : ∀ v, (k, v) ∉ m) : UMap.get m k = none := by
  unfold UMap.get
  rw [Option.map_eq_none_iff, List.find?_eq_none]
  intro p hp; simp; intro e; exact h p.2 (by rw [← e]; exact hp)

theorem mem_labels (a : BinArchive) (x : Nat) (l : Str) :
    (x, l) ∈ (contentOf a).labels ↔ ∃ bucket, (x, bucket) ∈ a.labels ∧ l ∈ bucket := by
  simp only [contentOf, List.mem_flatMap, List.mem_map]
  constructor
  · rintro ⟨p, hp, l', hl', he⟩
    have h1 : p.1 = x := (Prod.mk.inj he).1
    have h2 : l' = l := (Prod.mk.inj he).2
    subst h1; subst h2; exact ⟨p.2, hp, hl'⟩
  · rintro ⟨b, hb, hl⟩; exact ⟨(x, b), hb, l, hl, rfl⟩

theorem mem_candidates (a : BinArchive) (l : Str) (x : Nat) :
    x ∈ (a.labels.filter (fun p => p.2.contains l)).map (·.1) ↔ (x, l) ∈ (contentOf a).labels := by
  rw [mem_labels]
  simp only [List.mem_map, List.mem_filter, List.contains_iff_mem]
  constructor
  · rintro ⟨p, ⟨hp, hl⟩, rfl⟩; exact ⟨p.2, hp, hl⟩
  · rintro ⟨b, hb, hl⟩; exact ⟨(x, b), ⟨hb, hl⟩, rfl⟩

theorem findLabel_some (a : BinArchive) (l : Str) (x : Nat) (h : LowestLabel (contentOf a) l x) :
    a.findLabelAddress l = some x := by
  unfold findLabelAddress
  rw [List.min?_eq_some_iff]
  refine ⟨(mem_candidates a l x).mpr h.1, ?_⟩
  intro y hy
  exact h.2 (y, l) ((mem_candidates a l y).mp hy) rfl

theorem findLabel_none (a : BinArchive) (l : Str) (h : NoLabel (contentOf a) l) :
    a.findLabelAddress l = none := by
  unfold findLabelAddress
  rw [List.min?_eq_none_iff]
  apply List.eq_nil_iff_forall_not_mem.mpr
  intro y hy
  exact h (y, l) ((mem_candidates a l y).mp hy) rfl

/-- A label that occurs somewhere is found, at its lowest address. -/
theorem findLabel_exists (a : BinArchive) (l : Str) (x : Nat) (h : (x, l) ∈ (contentOf a).labels) :
    ∃ y, a.findLabelAddress l = some y ∧ LowestLabel (contentOf a) l y := by
  unfold findLabelAddress
  cases hm : ((a.labels.filter (fun p => p.2.contains l)).map (·.1)).min? with
  | none =>
    rw [List.min?_eq_none_iff] at hm
    have := (mem_candidates a l x).mpr h
    rw [hm] at this; simp at this
  | some y =>
    rw [List.min?_eq_some_iff] at hm
    refine ⟨y, rfl, (mem_candidates a l y).mp hm.1, ?_⟩
    intro q hq hql
    have : (q.1, l) ∈ (contentOf a).labels := by rw [← hql]; exact hq
    exact hm.2 q.1 ((mem_candidates a l q.1).mpr this)

/-! ### `read_bytes` of the stream reader -/

theorem readBytes_ok (a : BinArchive) (n s : Nat) (hn : 0 < n) (h : s + n ≤ a.data.length)
    (h64 : s + n < 2 ^ 64) :
    readerReadBytes a ⟨s⟩ n = .ok ((a.data.drop s).take n, ⟨s + n⟩) := by
  have h0 : n ≠ 0 := by omega
  have h1 : ¬ s ≥ a.data.length := by omega
  have h2 : ¬ s + n ≥ 2 ^ 64 := by omega
  have h3 : ¬ s + n > a.data.length := by omega
  simp [readerReadBytes, h0, BinArchive.readBytes, validateRange, validateAddress, BinArchive.size,
    h1, h2, h3, slice]

theorem readBytes_zero (a : BinArchive) (s : Nat) : readerReadBytes a ⟨s⟩ 0 = .ok ([], ⟨s⟩) := rfl

theorem readBytes_err (a : BinArchive) (n s : Nat) (hn : 0 < n) (h : a.data.length < s + n) :
    readerReadBytes a ⟨s⟩ n = .err .OutOfBounds := by
  have h0 : n ≠ 0 := by omega
  by_cases h1 : s ≥ a.data.length
  · simp [readerReadBytes, h0, BinArchive.readBytes, validateRange, validateAddress, BinArchive.size, h1]
  · by_cases h2 : s + n ≥ 2 ^ 64
    · simp [readerReadBytes, h0, BinArchive.readBytes, validateRange, validateAddress, BinArchive.size, h1, h2]
    · have h3 : s + n > a.data.length := h
      simp [readerReadBytes, h0, BinArchive.readBytes, validateRange, validateAddress, BinArchive.size,
        h1, h2, h3]

/-! ### the record table -/

/-- A record as the specification describes it: name, size, offset. -/
abbrev RecD := Str × Nat × Nat

def idxAt (a : BinArchive) (ia k : Nat) : Nat := (u32le a.data (ia + 16 * k + 4)).getD 0

/-- The entries the metadata loop collects for the records `rs` starting at table index `k`. -/
def entriesR (a : BinArchive) (pad ia : Nat) : Nat → List RecD → List ArcEntry
  | _, [] => []
  | k, r :: rs => ⟨r.1, idxAt a ia k, r.2.1, r.2.2 + pad⟩ :: entriesR a pad ia (k + 1) rs

theorem forall_idx_cons {α : Type} {P : Nat → α → Prop} {k : Nat} {x : α} {xs : List α}
    (h : ∀ i, (hi : i < (x :: xs).length) → P (k + i) (x :: xs)[i]) :
    P k x ∧ ∀ i, (hi : i < xs.length) → P (k + 1 + i) xs[i] := by
  refine ⟨?_, ?_⟩
  · have := h 0 (by simp)
    simp only [Nat.add_zero, List.getElem_cons_zero] at this; exact this
  · intro i hi
    have := h (i + 1) (by simp; exact hi)
    simp only [List.getElem_cons_succ] at this
    have e : k + (i + 1) = k + 1 + i := by omega
    rw [e] at this; exact this

theorem readerU32 (a : BinArchive) (hle : a.endian = .little) (pos v : Nat)
    (h : u32le a.data pos = some v) : Reader.readU32 a ⟨pos⟩ = .ok (v, ⟨pos + 4⟩) := by
  simp [Reader.readU32, Reader.step, readU32_eq a hle, h]

theorem readRecord_ok (p : Profile) (a : BinArchive) (hle : a.endian = .little)
    (hnd : (a.text.map (·.1)).Nodup) (pad : Nat) (hpad : pad ≤ 0x60) (ia k : Nat)
    (name : Str) (size off : Nat) (h : RecordAt (contentOf a) ia k name size off) :
    readRecord p a pad ⟨ia + 16 * k⟩ =
      .ok (⟨name, idxAt a ia k, size, off + pad⟩, ⟨ia + 16 * (k + 1)⟩) := by
  obtain ⟨hname, hlen, hsize, hoff⟩ := h
  simp only [contentOf] at hname hlen hsize hoff
  have h1 : Reader.readString a ⟨ia + 16 * k⟩ = .ok (some name, ⟨ia + 16 * k + 4⟩) := by
    have : ia + 16 * k + 4 ≤ a.data.length := by omega
    simp [Reader.readString, Reader.step, readString_eq, this, get_of_mem a.text _ _ hnd hname]
  have hidx : u32le a.data (ia + 16 * k + 4) = some (idxAt a ia k) := by
    have : ia + 16 * k + 4 + 4 ≤ a.data.length := by omega
    simp [idxAt, u32le, this]
  have h2 := readerU32 a hle _ _ hidx
  have e8 : ia + 16 * k + 4 + 4 = ia + 16 * k + 8 := by omega
  have e12 : ia + 16 * k + 8 + 4 = ia + 16 * k + 12 := by omega
  have h3 := readerU32 a hle _ _ hsize
  have h4 := readerU32 a hle _ _ hoff
  have hadd : add64 p off pad = .ok (off + pad) := by
    have := u32le_lt hoff
    have hlt : off + pad < 2 ^ 64 := by omega
    simp [add64, addN, hlt]
  have e16 : ia + 16 * k + 12 + 4 = ia + 16 * (k + 1) := by omega
  simp only [readRecord, h1, h2, e8, h3, e12, h4, hadd, e16]

/-- Every record of `rs` is readable at consecutive table slots from index `k`. -/
def RecsAt (a : BinArchive) (ia : Nat) : Nat → List RecD → Prop
  | _, [] => True
  | k, r :: rs => RecordAt (contentOf a) ia k r.1 r.2.1 r.2.2 ∧ RecsAt a ia (k + 1) rs

theorem recsAt_of_forall (a : BinArchive) (ia : Nat) : ∀ (rs : List RecD) (k : Nat),
    (∀ i, (hi : i < rs.length) → RecordAt (contentOf a) ia (k + i) rs[i].1 rs[i].2.1 rs[i].2.2) →
    RecsAt a ia k rs := by
  intro rs
  induction rs with
  | nil => intro k _; trivial
  | cons r rs ih =>
    intro k h
    obtain ⟨h0, hrest⟩ := forall_idx_cons
      (P := fun i (r : RecD) => RecordAt (contentOf a) ia i r.1 r.2.1 r.2.2) h
    exact ⟨h0, ih (k + 1) hrest⟩

theorem recsAt_bounded (a : BinArchive) (ia : Nat) : ∀ (rs : List RecD) (k : Nat), RecsAt a ia k rs →
    ∀ r ∈ rs, r.2.1 < 2 ^ 32 ∧ r.2.2 < 2 ^ 32 := by
  intro rs
  induction rs with
  | nil => intro k _ r hr; simp at hr
  | cons x xs ih =>
    intro k h r hr
    obtain ⟨h0, hrest⟩ := h
    simp only [List.mem_cons] at hr
    rcases hr with rfl | hr
    · exact ⟨u32le_lt h0.2.2.1, u32le_lt h0.2.2.2⟩
    · exact ih (k + 1) hrest r hr

/-- The metadata loop over a readable prefix `rs` of the table, followed by `n` more records. -/
theorem readRecords_prefix (p : Profile) (a : BinArchive) (hle : a.endian = .little)
    (hnd : (a.text.map (·.1)).Nodup) (pad : Nat) (hpad : pad ≤ 0x60) (ia : Nat) :
    ∀ (rs : List RecD) (k : Nat), RecsAt a ia k rs →
      ∀ n, readRecords p a pad (rs.length + n) ⟨ia + 16 * k⟩ =
        match readRecords p a pad n ⟨ia + 16 * (k + rs.length)⟩ with
        | .ok (es, r) => .ok (entriesR a pad ia k rs ++ es, r)
        | .err e => .err e
        | .panic => .panic := by
  intro rs
  induction rs with
  | nil =>
    intro k _ n
    simp only [List.length_nil, Nat.zero_add, Nat.add_zero, entriesR, List.nil_append]
    cases readRecords p a pad n ⟨ia + 16 * k⟩ with
    | ok v => rfl
    | err e => rfl
    | panic => rfl
  | cons r rs ih =>
    intro k h n
    obtain ⟨h0, hrest⟩ := h
    have hr := readRecord_ok p a hle hnd pad hpad ia k r.1 r.2.1 r.2.2 h0
    have hlen : (r :: rs).length + n = (rs.length + n) + 1 := by simp; omega
    rw [hlen]
    simp only [readRecords, hr]
    rw [ih (k + 1) hrest n]
    have e : k + 1 + rs.length = k + (r :: rs).length := by simp; omega
    rw [e]
    cases readRecords p a pad n ⟨ia + 16 * (k + (r :: rs).length)⟩ with
    | ok v => simp [entriesR]
    | err e => rfl
    | panic => rfl

/-! ### the file loop -/

/-- The declared range of record `r` lies inside the data (an empty range is anywhere). -/
def InRange (a : BinArchive) (pad : Nat) (r : RecD) : Prop :=
  r.2.1 = 0 ∨ r.2.2 + pad + r.2.1 ≤ a.data.length

/-- Size and offset are 32-bit values (they were read from `u32` cells). -/
def Bounded (r : RecD) : Prop := r.2.1 < 2 ^ 32 ∧ r.2.2 < 2 ^ 32

theorem readBytes_inRange (a : BinArchive) (s n : Nat) (h : n = 0 ∨ s + n ≤ a.data.length)
    (h64 : s + n < 2 ^ 64) :
    ∃ r', readerReadBytes a ⟨s⟩ n = .ok ((a.data.drop s).take n, r') := by
  by_cases hz : n = 0
  · subst hz; exact ⟨⟨s⟩, by simp [readBytes_zero]⟩
  · rcases h with h | h
    · exact absurd h hz
    · exact ⟨_, readBytes_ok a n s (by omega) h h64⟩

theorem insert_fresh (m : UMap Str Bytes) (k : Str) (v : Bytes) (h : k ∉ m.map (·.1)) :
    UMap.insert m k v = m ++ [(k, v)] := by
  unfold UMap.insert
  have : m.any (fun p => decide (p.1 = k)) = false := by
    rw [List.any_eq_false]; intro q hq; simp; intro e; apply h; rw [← e]
    exact List.mem_map.mpr ⟨q, hq, rfl⟩
  simp [this]

theorem extract_ok (a : BinArchive) (pad ia : Nat) (hpad : pad ≤ 0x60) :
    ∀ (rs : List RecD) (k : Nat) (acc : UMap Str Bytes),
    (∀ r ∈ rs, InRange a pad r) → (∀ r ∈ rs, Bounded r) → (acc.map (·.1) ++ rs.map (·.1)).Nodup →
    extract a (entriesR a pad ia k rs) acc =
      .ok (acc ++ rs.map (fun r => (r.1, (a.data.drop (r.2.2 + pad)).take r.2.1))) := by
  intro rs
  induction rs with
  | nil => intro k acc _ _ _; simp [entriesR, extract]
  | cons r rs ih =>
    intro k acc hin hbd hnd
    obtain ⟨hb1, hb2⟩ := hbd r (by simp)
    obtain ⟨r', hrb⟩ := readBytes_inRange a (r.2.2 + pad) r.2.1 (hin r (by simp)) (by omega)
    have hfresh : r.1 ∉ acc.map (·.1) := by
      intro hm
      rw [List.nodup_append] at hnd
      exact hnd.2.2 _ hm _ (by simp) rfl
    simp only [entriesR, extract, hrb, insert_fresh acc r.1 _ hfresh]
    rw [ih (k + 1) _ (fun x hx => hin x (by simp [hx])) (fun x hx => hbd x (by simp [hx]))
      (by simpa [List.append_assoc] using hnd)]
    simp [List.append_assoc]

theorem extract_err (a : BinArchive) (pad ia : Nat) (hpad : pad ≤ 0x60) :
    ∀ (pre : List RecD) (k : Nat) (acc : UMap Str Bytes)
    (r : RecD) (post : List RecD), (∀ r' ∈ pre, InRange a pad r') → (∀ r' ∈ pre, Bounded r') → 0 < r.2.1 →
    a.data.length < r.2.2 + pad + r.2.1 →
    extract a (entriesR a pad ia k (pre ++ r :: post)) acc = .err .OutOfBounds := by
  intro pre
  induction pre with
  | nil =>
    intro k acc r post _ _ hpos hout
    simp only [List.nil_append, entriesR, extract, readBytes_err a r.2.1 (r.2.2 + pad) hpos hout]
  | cons x xs ih =>
    intro k acc r post hin hbd hpos hout
    obtain ⟨hb1, hb2⟩ := hbd x (by simp)
    obtain ⟨r', hrb⟩ := readBytes_inRange a (x.2.2 + pad) x.2.1 (hin x (by simp)) (by omega)
    simp only [List.cons_append, entriesR, extract, hrb]
    exact ih (k + 1) _ r post (fun y hy => hin y (by simp [hy])) (fun y hy => hbd y (by simp [hy])) hpos hout

/-! ### `fromArchive` over a readable table -/

/-- Both labels resolve, the first data word and the count word are readable. -/
structure TableOk (a : BinArchive) (ca ia w n : Nat) : Prop where
  hle : a.endian = .little
  hnd : (a.text.map (·.1)).Nodup
  hcount : LowestLabel (contentOf a) Spec.Arc.COUNT ca
  hinfo : LowestLabel (contentOf a) Spec.Arc.INFO ia
  hw : u32le a.data 0 = some w
  hn : u32le a.data ca = some n

def padOf (w : Nat) : Nat := if w = 0 then 0x60 else 0

theorem padOf_le (w : Nat) : padOf w ≤ 0x60 := by unfold padOf; split <;> omega

theorem fromArchive_table (p : Profile) (a : BinArchive) {ca ia w n : Nat} (t : TableOk a ca ia w n) :
    fromArchive p a = match readRecords p a (padOf w) n ⟨ia⟩ with
      | .ok (entries, _) => extract a entries []
      | .err e => .err e
      | .panic => .panic := by
  have h1 : a.findLabelAddress COUNT = some ca := findLabel_some a _ _ t.hcount
  have h2 : a.findLabelAddress INFO = some ia := findLabel_some a _ _ t.hinfo
  have h3 : a.readU32 0 = .ok w := by simp [readU32_eq a t.hle, t.hw]
  have h4 := readerU32 a t.hle _ _ t.hn
  simp only [fromArchive, h1, h2, h3, h4, Reader.seek, padOf]
  rfl

/-- All `rs.length` records readable: the result is the file loop over their entries. -/
theorem fromArchive_records (p : Profile) (a : BinArchive) {ca ia w : Nat} (rs : List RecD)
    (t : TableOk a ca ia w rs.length) (hrs : RecsAt a ia 0 rs) :
    fromArchive p a = extract a (entriesR a (padOf w) ia 0 rs) [] := by
  rw [fromArchive_table p a t]
  have := readRecords_prefix p a t.hle t.hnd (padOf w) (padOf_le w) ia rs 0 hrs 0
  simp only [Nat.add_zero, Nat.mul_zero, Nat.zero_add, readRecords] at this
  rw [this]; simp

/-- A readable prefix `rs`, then a record whose name cell is inside the data but holds no string. -/
theorem fromArchive_missing_name (p : Profile) (a : BinArchive) {ca ia w n : Nat} (rs : List RecD)
    (t : TableOk a ca ia w n) (hrs : RecsAt a ia 0 rs) (hlt : rs.length < n)
    (hcell : ia + 16 * rs.length + 4 ≤ a.data.length)
    (hno : ∀ s, (ia + 16 * rs.length, s) ∉ a.text) :
    fromArchive p a = .err .MissingName := by
  rw [fromArchive_table p a t]
  obtain ⟨m, hm⟩ : ∃ m, n = rs.length + (m + 1) := ⟨n - rs.length - 1, by omega⟩
  have := readRecords_prefix p a t.hle t.hnd (padOf w) (padOf_le w) ia rs 0 hrs (m + 1)
  simp only [Nat.mul_zero, Nat.add_zero, Nat.zero_add] at this
  rw [hm, this]
  have hr : readRecord p a (padOf w) ⟨ia + 16 * rs.length⟩ = .err .MissingName := by
    simp [readRecord, Reader.readString, Reader.step, readString_eq, hcell, get_none a.text _ hno]
  simp [readRecords, hr]

/-! ### from files to records -/

open Mila.Spec.Arc (FileOk HeaderOk padding) in
/-- The record descriptions of a conforming file list. -/
def recsOfFiles (a : BinArchive) (ia : Nat) : Nat → List (Str × Bytes) → List RecD
  | _, [] => []
  | k, f :: fs =>
    (f.1, f.2.length, (u32le a.data (ia + 16 * k + 12)).getD 0) :: recsOfFiles a ia (k + 1) fs

open Mila.Spec.Arc (FileOk HeaderOk padding) in
theorem files_recs (a : BinArchive) (padded : Bool) (ia : Nat) : ∀ (files : List (Str × Bytes)) (k : Nat),
    (∀ i, (hi : i < files.length) → FileOk (contentOf a) padded ia (k + i) files[i]) →
    RecsAt a ia k (recsOfFiles a ia k files) ∧
    (∀ r ∈ recsOfFiles a ia k files, InRange a (padding padded) r) ∧
    (recsOfFiles a ia k files).map
      (fun r => (r.1, (a.data.drop (r.2.2 + padding padded)).take r.2.1)) = files ∧
    (recsOfFiles a ia k files).length = files.length := by
  intro files
  induction files with
  | nil => intro k _; simp [recsOfFiles, RecsAt]
  | cons f fs ih =>
    intro k h
    obtain ⟨h0, hrest⟩ := forall_idx_cons
      (P := fun i (f : Str × Bytes) => FileOk (contentOf a) padded ia i f) h
    obtain ⟨i1, i2, i3, i4⟩ := ih (k + 1) hrest
    unfold FileOk at h0
    split at h0
    · rename_i off hoff
      obtain ⟨hrec, hbody⟩ := h0
      have hoff' : u32le a.data (ia + 16 * k + 12) = some off := hoff
      unfold BodyAt at hbody
      simp only [contentOf] at hbody
      refine ⟨?_, ?_, ?_, ?_⟩
      · simp only [recsOfFiles, RecsAt, hoff', Option.getD_some]; exact ⟨hrec, i1⟩
      · intro r hr
        simp only [recsOfFiles, hoff', Option.getD_some, List.mem_cons] at hr
        rcases hr with rfl | hr
        · unfold InRange
          by_cases hz : f.2.length = 0
          · exact Or.inl hz
          · right
            have hl := congrArg List.length hbody
            simp only [List.length_take, List.length_drop] at hl
            simp only []; omega
        · exact i2 r hr
      · simp only [recsOfFiles, hoff', Option.getD_some, List.map_cons, hbody, i3]
      · simp [recsOfFiles, i4]
    · exact absurd h0 id

open Mila.Spec.Arc (HeaderOk padding) in
theorem header_word (K : Content) (padded : Bool) (h : HeaderOk K padded) :
    ∃ w, u32le K.data 0 = some w ∧ padOf w = padding padded := by
  unfold HeaderOk at h
  cases padded with
  | true =>
    simp only [if_true] at h
    obtain ⟨hlen, hz⟩ := h
    have h4 : K.data.take 4 = List.replicate 4 0 := by
      have := congrArg (List.take 4) hz
      rw [List.take_take] at this
      simpa using this
    refine ⟨0, ?_, rfl⟩
    have : 0 + 4 ≤ K.data.length := by omega
    simp only [u32le, this, if_true, List.drop_zero, h4]
    rfl
  | false =>
    simp only [Bool.false_eq_true, if_false] at h
    split at h
    · rename_i w hw
      refine ⟨w, hw, ?_⟩
      simp [padOf, padding, h]
    · exact absurd h id

open Mila.Spec.Arc (FileOk HeaderOk HeaderFits padding) in
/-- From `HeaderFits`: the first word `w` exists, and the padding the code derives from it is the
padding of *some* header flag under which every record still describes its file (when no file
has a body the flag is immaterial). -/
theorem header_fits_word (K : Content) (files : List (Str × Bytes)) (padded : Bool) (ia : Nat)
    (h : HeaderFits K files padded)
    (hfiles : ∀ i, (hi : i < files.length) → FileOk K padded ia i files[i]) :
    ∃ w padded', u32le K.data 0 = some w ∧ padOf w = padding padded' ∧
      ∀ i, (hi : i < files.length) → FileOk K padded' ia i files[i] := by
  rcases h with h | ⟨hw, hempty⟩
  · obtain ⟨w, hw, hp⟩ := header_word K padded h
    exact ⟨w, padded, hw, hp, hfiles⟩
  · cases hw0 : u32le K.data 0 with
    | none => rw [hw0] at hw; exact absurd hw (by simp)
    | some w =>
      refine ⟨w, decide (w = 0), rfl, ?_, ?_⟩
      · by_cases hz : w = 0 <;> simp [padOf, padding, hz]
      · intro i hi
        have hf := hfiles i hi
        have he : files[i].2 = [] := hempty _ (List.getElem_mem hi)
        unfold FileOk at hf ⊢
        cases hu : u32le K.data (ia + 16 * i + 12) with
        | none => rw [hu] at hf; exact hf.elim
        | some off =>
          rw [hu] at hf
          simp only at hf ⊢
          exact ⟨hf.1, by simp [BodyAt, he]⟩

/-! ### totality -/

theorem readU32_total (a : BinArchive) (addr : Nat) : a.readU32 addr ≠ .panic := by
  unfold BinArchive.readU32 readUInt
  have : validateCell a addr 4 ≠ .panic := by
    unfold validateCell validateAddress
    repeat' split
    all_goals simp_all
  split
  · simp
  · simp
  · rename_i h; exact absurd h this

theorem readerU32_total (a : BinArchive) (r : Reader) : Reader.readU32 a r ≠ .panic := by
  unfold Reader.readU32 Reader.step
  split
  · simp
  · simp
  · rename_i h; exact absurd h (readU32_total a _)

theorem readerU32_lt (a : BinArchive) (r r' : Reader) (v : Nat) (h : Reader.readU32 a r = .ok (v, r')) :
    v < 2 ^ 32 := by
  unfold Reader.readU32 Reader.step at h
  split at h
  · rename_i v' hv
    have : v' = v := (Prod.mk.inj (Res.ok.inj h)).1
    subst this; exact readU32_lt a _ _ hv
  · exact absurd h (by simp)
  · exact absurd h (by simp)

theorem readerString_total (a : BinArchive) (r : Reader) : Reader.readString a r ≠ .panic := by
  have hs : a.readString r.pos ≠ .panic := by rw [readString_eq]; split <;> simp
  unfold Reader.readString Reader.step
  split
  · simp
  · simp
  · rename_i h; exact absurd h hs

theorem readRecord_total (p : Profile) (a : BinArchive) (pad : Nat) (hpad : pad ≤ 0x60) (r : Reader) :
    readRecord p a pad r ≠ .panic := by
  unfold readRecord
  split
  · simp
  · split
    · split
      · split
        · rename_i off r4 hoff
          have hlt := readerU32_lt a _ _ _ hoff
          have : add64 p off pad = .ok (off + pad) := by
            have hlt' : off + pad < 2 ^ 64 := by omega
            simp [add64, addN, hlt']
          simp [this]
        · simp
        · rename_i h; exact absurd h (readerU32_total a _)
      · simp
      · rename_i h; exact absurd h (readerU32_total a _)
    · simp
    · rename_i h; exact absurd h (readerU32_total a _)
  · simp
  · rename_i h; exact absurd h (readerString_total a _)

theorem readRecords_total (p : Profile) (a : BinArchive) (pad : Nat) (hpad : pad ≤ 0x60) :
    ∀ n r, readRecords p a pad n r ≠ .panic := by
  intro n
  induction n with
  | zero => intro r; simp [readRecords]
  | succ n ih =>
    intro r
    unfold readRecords
    split
    · split
      · simp
      · simp
      · rename_i h; exact absurd h (ih _)
    · simp
    · rename_i h; exact absurd h (readRecord_total p a pad hpad r)

theorem readBytes_total (a : BinArchive) (n : Nat) (r : Reader) : readerReadBytes a r n ≠ .panic := by
  unfold readerReadBytes
  have hva : ∀ x y b, validateAddress x y b ≠ .panic := by
    intro x y b; unfold validateAddress; split <;> simp
  have hvr : validateRange r.pos n a.size ≠ .panic := by
    unfold validateRange
    split
    · split
      · simp
      · split
        · simp
        · simp
        · rename_i h; exact absurd h (hva _ _ _)
    · simp
    · rename_i h; exact absurd h (hva _ _ _)
  have hrb : a.readBytes r.pos n ≠ .panic := by
    unfold BinArchive.readBytes
    split
    · simp
    · simp
    · rename_i h; exact absurd h hvr
  split
  · simp
  · split
    · simp
    · simp
    · rename_i h; exact absurd h hrb

theorem extract_total (a : BinArchive) : ∀ es acc, extract a es acc ≠ .panic := by
  intro es
  induction es with
  | nil => intro acc; simp [extract]
  | cons e es ih =>
    intro acc
    unfold extract
    split
    · exact ih _
    · simp
    · rename_i h; exact absurd h (readBytes_total a _ _)

theorem fromArchive_total (p : Profile) (a : BinArchive) : fromArchive p a ≠ .panic := by
  unfold fromArchive
  split
  · simp
  · split
    · simp
    · split
      · rename_i w0 _
        simp only []
        split
        · split
          · exact extract_total a _ _
          · simp
          · rename_i h
            refine absurd h (readRecords_total p a _ ?_ _ _)
            split <;> omega
        · simp
        · rename_i h; exact absurd h (readerU32_total a _)
      · simp
      · rename_i h; exact absurd h (readU32_total a _)

/-! ### profile independence -/

theorem readRecord_profile (p p' : Profile) (a : BinArchive) (pad : Nat) (hpad : pad ≤ 0x60) (r : Reader) :
    readRecord p a pad r = readRecord p' a pad r := by
  unfold readRecord
  cases h1 : Reader.readString a r with
  | err e => rfl
  | panic => rfl
  | ok v1 =>
    obtain ⟨o, r1⟩ := v1
    cases o with
    | none => rfl
    | some name =>
      simp only []
      cases h2 : Reader.readU32 a r1 with
      | err e => rfl
      | panic => rfl
      | ok v2 =>
        obtain ⟨idx, r2⟩ := v2
        simp only []
        cases h3 : Reader.readU32 a r2 with
        | err e => rfl
        | panic => rfl
        | ok v3 =>
          obtain ⟨sz, r3⟩ := v3
          simp only []
          cases h4 : Reader.readU32 a r3 with
          | err e => rfl
          | panic => rfl
          | ok v4 =>
            obtain ⟨off, r4⟩ := v4
            have hlt := readerU32_lt a _ _ _ h4
            have hadd : ∀ q, add64 q off pad = .ok (off + pad) := by
              intro q
              have hlt' : off + pad < 2 ^ 64 := by omega
              simp [add64, addN, hlt']
            simp only [hadd]

theorem readRecords_profile (p p' : Profile) (a : BinArchive) (pad : Nat) (hpad : pad ≤ 0x60) :
    ∀ n r, readRecords p a pad n r = readRecords p' a pad n r := by
  intro n
  induction n with
  | zero => intro r; rfl
  | succ n ih =>
    intro r
    simp only [readRecords, readRecord_profile p p' a pad hpad r]
    cases readRecord p' a pad r with
    | err e => rfl
    | panic => rfl
    | ok v => simp only [ih]

theorem fromArchive_profile (p p' : Profile) (a : BinArchive) : fromArchive p a = fromArchive p' a := by
  unfold fromArchive
  cases a.findLabelAddress COUNT with
  | none => rfl
  | some ca =>
    cases a.findLabelAddress INFO with
    | none => rfl
    | some ia =>
      cases a.readU32 0 with
      | err e => rfl
      | panic => rfl
      | ok w0 =>
        simp only []
        cases Reader.readU32 a ⟨ca⟩ with
        | err e => rfl
        | panic => rfl
        | ok v =>
          simp only []
          rw [readRecords_profile p p' a _ (by split <;> omega)]

/-! ### the bin-archive parser: never panics, keeps the requested endianness -/

theorem validateCell_total (a : BinArchive) (addr w : Nat) : validateCell a addr w ≠ .panic := by
  unfold validateCell validateAddress
  repeat' split
  all_goals simp_all

/-- `r` never panics and every archive it returns has the endianness `e`. -/
def Keeps (e : Endian) (r : Res BinArchive) : Prop := r ≠ .panic ∧ ∀ a', r = .ok a' → a'.endian = e

theorem writeString_keeps (a : BinArchive) (addr : Nat) (s : Str) :
    Keeps a.endian (a.writeString addr (some s)) := by
  unfold BinArchive.writeString
  simp only []
  split
  · exact ⟨by simp, fun a' h => by rw [← Res.ok.inj h]⟩
  · exact ⟨by simp, fun a' h => by simp at h⟩
  · rename_i h; exact absurd h (validateCell_total a _ _)

theorem writePointer_keeps (a : BinArchive) (addr v : Nat) :
    Keeps a.endian (a.writePointer addr (some v)) := by
  unfold BinArchive.writePointer
  simp only []
  split
  · exact ⟨by simp, fun a' h => by rw [← Res.ok.inj h]⟩
  · exact ⟨by simp, fun a' h => by simp at h⟩
  · rename_i h; exact absurd h (validateCell_total a _ _)

theorem writeLabel_keeps (a : BinArchive) (addr : Nat) (l : Str) :
    Keeps a.endian (a.writeLabel addr l) := by
  unfold BinArchive.writeLabel
  have hv : validateAddress addr a.size true ≠ .panic := by
    unfold validateAddress; split <;> simp
  split
  · split
    · exact ⟨by simp, fun a' h => by rw [← Res.ok.inj h]⟩
    · exact ⟨by simp, fun a' h => by rw [← Res.ok.inj h]⟩
  · exact ⟨by simp, fun a' h => by simp at h⟩
  · rename_i h; exact absurd h hv

theorem keeps_err (e : Endian) (er : Err) : Keeps e (.err er) :=
  ⟨by simp, fun a' h => by simp at h⟩

theorem sjisAt_total (c : Codec) (b : Bytes) (pos : Nat) : BinArchive.sjisAt c b pos ≠ .panic := by
  unfold BinArchive.sjisAt; split <;> simp

theorem parsePointer_keeps (c : Codec) (e : Endian) (bytes : Bytes) (ds : Nat) (a : BinArchive) (pos : Nat) :
    Keeps a.endian (parsePointer c e bytes ds a pos) := by
  unfold parsePointer
  split
  · exact keeps_err _ _
  · unfold parsePointerAt
    split
    · split
      · split
        · exact writeString_keeps a _ _
        · exact keeps_err _ _
        · rename_i h; exact absurd h (sjisAt_total c _ _)
      · exact writePointer_keeps a _ _
    · exact keeps_err _ _
    · rename_i h; exact absurd h (readU32_total a _)

theorem parseLabel_keeps (c : Codec) (e : Endian) (bytes : Bytes) (ts : Nat) (a : BinArchive) (pos : Nat) :
    Keeps a.endian (parseLabel c e bytes ts a pos) := by
  unfold parseLabel
  split
  · unfold parseLabelAt
    split
    · exact writeLabel_keeps a _ _
    · exact keeps_err _ _
    · rename_i h; exact absurd h (sjisAt_total c _ _)
  · exact keeps_err _ _

theorem foldlM_keeps {ι : Type} (f : BinArchive → ι → Res BinArchive)
    (hf : ∀ a x, Keeps a.endian (f a x)) : ∀ (l : List ι) (a : BinArchive),
    Keeps a.endian (l.foldlM f a) := by
  intro l
  induction l with
  | nil => intro a; exact ⟨by simp [List.foldlM, pure], fun a' h => by
      simp only [List.foldlM, pure] at h; rw [← Res.ok.inj h]⟩
  | cons x xs ih =>
    intro a
    simp only [List.foldlM_cons]
    obtain ⟨h1, h2⟩ := hf a x
    cases hfx : f a x with
    | ok a1 =>
      have := ih a1
      rw [h2 a1 hfx] at this
      simpa [bind, Res.bind] using this
    | err er => simpa [bind, Res.bind] using keeps_err a.endian er
    | panic => exact absurd hfx h1

theorem parse_keeps (c : Codec) (e : Endian) (bytes : Bytes) : Keeps e (BinArchive.parse c e bytes) := by
  unfold BinArchive.parse
  split
  · exact keeps_err _ _
  · simp only []
    split
    · exact keeps_err _ _
    · have k1 := foldlM_keeps
        (fun a i => parsePointer c e bytes (e.dec (slice bytes 4 4)) a (0x20 + e.dec (slice bytes 4 4) + 4 * i))
        (fun a x => parsePointer_keeps c e bytes _ a _)
        (List.range (e.dec (slice bytes 8 4)))
        { BinArchive.new e with data := slice bytes 0x20 (e.dec (slice bytes 4 4)) }
      split
      · rename_i a1 h1
        have he : a1.endian = e := k1.2 a1 h1
        have k2 := foldlM_keeps
          (fun a i => parseLabel c e bytes
            (e.dec (slice bytes 4 4) + e.dec (slice bytes 8 4) * 4 + e.dec (slice bytes 12 4) * 8) a
            (0x20 + e.dec (slice bytes 4 4) + 4 * e.dec (slice bytes 8 4) + 8 * i))
          (fun a x => parseLabel_keeps c e bytes _ a _)
          (List.range (e.dec (slice bytes 12 4))) a1
        rw [he] at k2; exact k2
      · exact keeps_err _ _
      · rename_i h; exact absurd h k1.1

theorem parse_total (c : Codec) (e : Endian) (bytes : Bytes) : BinArchive.parse c e bytes ≠ .panic :=
  (parse_keeps c e bytes).1

theorem parse_endian (c : Codec) (e : Endian) (bytes : Bytes) (a : BinArchive)
    (h : BinArchive.parse c e bytes = .ok a) : a.endian = e :=
  (parse_keeps c e bytes).2 a h

end Mila.ArcLemmas
