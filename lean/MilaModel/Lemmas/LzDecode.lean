/-
Decoder simulation lemmas (C11): the model of `decompress_lz` against the stream grammar.
-/
import MilaModel.Model.Lz
import MilaModel.Spec.LzStream
import MilaModel.Lemmas.LzBasic

namespace Mila.Lz
open Mila.Spec.Lz

/-! ### copy loop -/

theorem copyLoop_eq (start : Nat) (D : Nat) (k : Nat) :
    ∀ (i : Nat) (out : BA), 1 ≤ D → D ≤ out.size → start + i + D = out.size →
      copyLoop start k i out = .ok (copyBack out D k) := by
  induction k with
  | zero => intro i out _ _ _; simp [copyLoop, copyBack]
  | succ k ih =>
    intro i out h1 h2 h3
    have hlt : start + i < out.size := by omega
    simp only [copyLoop, hlt, ↓reduceDIte, copyBack]
    have hidx : out.size - D = start + i := by omega
    have hget : out.getD (out.size - D) 0 = out[start + i] := by
      simp [Array.getD, hidx, hlt]
    rw [hget]
    exact ih (i + 1) _ h1 (by simp; omega) (by simp; omega)

theorem copyLoop_ne_panic (start : Nat) (k : Nat) :
    ∀ (i : Nat) (out : BA), start + i < out.size → ∃ o, copyLoop start k i out = .ok o := by
  induction k with
  | zero => intro i out _; exact ⟨out, by simp [copyLoop]⟩
  | succ k ih =>
    intro i out h
    simp only [copyLoop, h, ↓reduceDIte]
    exact ih (i + 1) _ (by simp; omega)

/-! ### flag bits -/

theorem flag_test (flags k : Nat) : ((flags >>> k) &&& 1 = 0) ↔ flags.testBit k = false := by
  simp [Nat.testBit, Nat.and_comm]

/-! ### token bytes → reference decoding -/

theorem decodeRef_tokBytes (ext : Bool) (len disp : Nat) (rest : Bytes)
    (hl : lenOk ext len) (hd1 : 1 ≤ disp) (hd2 : disp ≤ 4096) :
    decodeRef ext (tokBytes ext (.ref len disp) ++ rest) = some (len, disp - 1, rest) := by
  unfold lenOk at hl
  cases ext with
  | false =>
    simp at hl
    simp [tokBytes, decodeRef, next, UInt8.toNat_ofNat']
    omega
  | true =>
    simp at hl
    by_cases h16 : len ≤ 16
    · simp [tokBytes, decodeRef, next, UInt8.toNat_ofNat', h16]
      have h1 : (16 * (len - 1) + (disp - 1) / 256) % 256 / 16 = len - 1 := by omega
      have h2 : 1 < len - 1 := by omega
      simp [h1, h2]
      omega
    · by_cases h272 : len ≤ 272
      · simp [tokBytes, decodeRef, next, UInt8.toNat_ofNat', h16, h272]
        have h1 : (len - 17) / 16 % 256 / 16 = 0 := by omega
        simp [h1]
        have h3 : (len - 17) / 16 % 256 < 16 := by omega
        rw [if_pos h3]
        simp
        omega
      · simp [tokBytes, decodeRef, next, UInt8.toNat_ofNat', h16, h272]
        have h1 : (16 + (len - 273) / 4096) % 256 / 16 = 1 := by omega
        simp [h1]
        have h3 : ¬ (16 + (len - 273) / 4096) % 256 < 16 := by omega
        rw [if_neg h3]
        simp
        omega

/-! ### one token, one group, all groups -/

/-- Before each token of the list fewer than `n` bytes have been produced. -/
def Live (n : Nat) : Nat → List Tok → Prop
  | _, [] => True
  | h, t :: ts => h < n ∧ Live n (h + t.size) ts

theorem expandFrom_cons (out : BA) (t : Tok) (ts : List Tok) :
    expandFrom out (t :: ts) = expandFrom (expandFrom out [t]) ts := by
  cases t <;> simp [expandFrom]

theorem validFrom_cons {ext : Bool} {h : Nat} {t : Tok} {ts : List Tok} :
    ValidFrom ext h (t :: ts) ↔ ValidFrom ext h [t] ∧ ValidFrom ext (h + t.size) ts := by
  have := validFrom_append ext h [t] ts
  simpa [tsize] using this

theorem bitLoop_tok (ext : Bool) (length flags k : Nat) (rest : Bytes) (out : BA) (t : Tok)
    (hlive : out.size < length) (hflag : flags.testBit k = t.isRef)
    (hv : ValidFrom ext out.size [t]) :
    bitLoop ext length flags (k + 1) (tokBytes ext t ++ rest) out
      = bitLoop ext length flags k rest (expandFrom out [t]) := by
  cases t with
  | lit b =>
    have hf : (flags >>> k) &&& 1 = 0 := (flag_test flags k).2 (by simpa [Tok.isRef] using hflag)
    rw [bitLoop]
    simp [Nat.not_le.2 hlive, hf, tokBytes, next, expandFrom]
  | ref len disp =>
    have hf : ¬ ((flags >>> k) &&& 1 = 0) := by
      rw [flag_test]; simp [hflag, Tok.isRef]
    obtain ⟨hl, hd1, hd2, hd3, _⟩ := hv
    rw [bitLoop]
    simp only [ge_iff_le, Nat.not_le.2 hlive, ↓reduceIte, hf, decodeRef_tokBytes ext len disp rest hl hd1 hd2]
    have hnot : ¬ (out.size ≤ disp - 1) := by omega
    simp only [hnot, ↓reduceIte]
    rw [copyLoop_eq (out.size - (disp - 1) - 1) disp len 0 out hd1 hd3 (by omega)]
    simp [expandFrom]

theorem bitLoop_group (ext : Bool) (length flags : Nat) (rest : Bytes) :
    ∀ (g : List Tok) (k : Nat) (out : BA), g.length ≤ k → Live length out.size g →
      ValidFrom ext out.size g →
      (∀ i (h : i < g.length), flags.testBit (k - 1 - i) = (g[i]).isRef) →
      bitLoop ext length flags k (g.flatMap (tokBytes ext) ++ rest) out
        = bitLoop ext length flags (k - g.length) rest (expandFrom out g) := by
  intro g
  induction g with
  | nil => intro k out _ _ _ _; simp [expandFrom]
  | cons t ts ih =>
    intro k out hk hlive hv hfl
    obtain ⟨k', rfl⟩ : ∃ k', k = k' + 1 := ⟨k - 1, by simp at hk; omega⟩
    rw [validFrom_cons] at hv
    have h0 := hfl 0 (by simp)
    simp at h0
    rw [List.flatMap_cons, List.append_assoc,
      bitLoop_tok ext length flags k' _ out t hlive.1 h0 hv.1, expandFrom_cons out t ts]
    have hsz : (expandFrom out [t]).size = out.size + t.size := by simp [tsize]
    rw [ih k' (expandFrom out [t]) (by simp at hk; omega) (by rw [hsz]; exact hlive.2)
      (by rw [hsz]; exact hv.2)
      (by
        intro i h
        have := hfl (i + 1) (by simp; omega)
        simp at this
        rw [← this]; congr 1; omega)]
    congr 1
    simp

theorem live_of_valid {ext : Bool} {n : Nat} : ∀ (g : List Tok) (h : Nat),
    ValidFrom ext h g → h + tsize g ≤ n → Live n h g := by
  intro g
  induction g with
  | nil => intro h _ _; trivial
  | cons t ts ih =>
    intro h hv hn
    have hp := tsize_pos_of_valid hv
    rw [validFrom_cons] at hv
    simp at hn
    exact ⟨by omega, ih _ hv.2 (by omega)⟩

theorem bitLoop_done (ext : Bool) (length flags k : Nat) (s : Bytes) (out : BA)
    (h : k = 0 ∨ length ≤ out.size) : bitLoop ext length flags k s out = .ok (s, out) := by
  cases k with
  | zero => simp [bitLoop]
  | succ k =>
    have : length ≤ out.size := by cases h with | inl h => omega | inr h => exact h
    rw [bitLoop]; simp [this]

theorem outerLoop_done (ext : Bool) (length : Nat) (s : Bytes) (out : BA) (h : length ≤ out.size) :
    outerLoop ext length s out = .ok out := by
  rw [outerLoop.eq_def]; simp [Nat.not_lt.2 h]

theorem outerLoop_step (ext : Bool) (length : Nat) (f : UInt8) (s s' : Bytes) (out out' : BA)
    (hlt : out.size < length) (hb : bitLoop ext length f.toNat 8 s out = .ok (s', out')) :
    outerLoop ext length (f :: s) out = outerLoop ext length s' out' := by
  rw [outerLoop.eq_def]
  simp only [hlt, ↓reduceIte]
  split
  · rename_i s'' out'' heq
    rw [hb] at heq
    simp at heq
    rw [heq.1, heq.2]
  · rename_i e heq; rw [hb] at heq; simp at heq
  · rename_i heq; rw [hb] at heq; simp at heq

/-- The decoder loop on the flag groups of a valid token list whose expansion has exactly the
announced length. -/
theorem outerLoop_groups (ext : Bool) (n : Nat) (toks : List Tok) (body : Bytes)
    (hg : Groups ext toks body) :
    ∀ out : BA, ValidFrom ext out.size toks → out.size + tsize toks = n →
      outerLoop ext n body out = .ok (expandFrom out toks) := by
  induction hg with
  | nil => intro out _ hn; simp at hn; rw [outerLoop_done _ _ _ _ (by omega)]; simp [expandFrom]
  | group f g rest bs hne hlen hfull hflag hrest ih =>
    intro out hv hn
    rw [validFrom_append] at hv
    simp at hn
    have hlive : Live n out.size g := live_of_valid g _ hv.1 (by omega)
    have hlt : out.size < n := by
      cases g with
      | nil => exact absurd rfl hne
      | cons t ts => exact hlive.1
    have hgrp := bitLoop_group ext n f.toNat (bs) g 8 out hlen hlive hv.1
      (by intro i h; exact hflag i h)
    by_cases hr : rest = []
    · subst hr
      have hbs : bs = [] := groups_nil_inv hrest
      subst hbs
      simp at hn
      have hdone := bitLoop_done ext n f.toNat (8 - g.length) [] (expandFrom out g)
        (Or.inr (by simp; omega))
      rw [hdone] at hgrp
      rw [outerLoop_step ext n f _ _ out _ hlt hgrp, outerLoop_done _ _ _ _ (by simp; omega)]
      simp
    · have h8 := hfull hr
      rw [h8] at hgrp
      rw [bitLoop_done ext n f.toNat (8 - 8) bs (expandFrom out g) (Or.inl rfl)] at hgrp
      rw [outerLoop_step ext n f _ _ out _ hlt hgrp, expandFrom_append]
      exact ih _ (by simpa using hv.2) (by simp; omega)

/-! ### header -/

theorem readU32_header10 (n : Nat) (body : Bytes) (hn : n < 2 ^ 24) :
    readU32 (header false n ++ body) = some (16 + 256 * n, body) := by
  simp [header, leBytes, readU32, next, UInt8.toNat_ofNat']
  omega

theorem readU32_header11 (n : Nat) (body : Bytes) (hn : n < 2 ^ 24) (h0 : n ≠ 0) :
    readU32 (header true n ++ body) = some (17 + 256 * n, body) := by
  have : ¬ (n = 0 ∨ 2 ^ 24 ≤ n) := by omega
  simp [header, this, leBytes, readU32, next, UInt8.toNat_ofNat']
  omega

theorem readU32_header11x (n : Nat) (body : Bytes) (hn : n < 2 ^ 32) (h0 : n = 0 ∨ 2 ^ 24 ≤ n) :
    ∃ s, readU32 (header true n ++ body) = some (17, s) ∧ readU32 s = some (n, body) := by
  refine ⟨leBytes 4 n ++ body, ?_, ?_⟩
  · simp [header, h0, readU32, next]
  · simp [leBytes, readU32, next, UInt8.toNat_ofNat']
    omega

/-- The decoder on a well-formed stream of valid tokens whose announced length is the length of
the expansion. -/
theorem decompressLz_encodes (ext : Bool) (n : Nat) (toks : List Tok) (s : Bytes)
    (he : Encodes ext n toks s) (hv : Valid ext toks) (hn : tsize toks = n)
    (hb : n < (if ext then 2 ^ 32 else 2 ^ 24)) :
    decompressLz s = .ok (expand toks) := by
  obtain ⟨body, rfl, hg⟩ := he
  have hout := outerLoop_groups ext n toks body hg #[] (by simpa [Valid] using hv) (by simpa using hn)
  cases ext with
  | false =>
    simp at hb
    simp only [decompressLz, readU32_header10 n body hb]
    have h1 : (16 + 256 * n) % 256 = 16 := by omega
    have h2 : (16 + 256 * n) / 256 = n := by omega
    simp [h1, h2, hout, expand]
  | true =>
    simp at hb
    by_cases h0 : n = 0 ∨ 2 ^ 24 ≤ n
    · obtain ⟨s, hs1, hs2⟩ := readU32_header11x n body hb h0
      simp [decompressLz, hs1, hs2, hout, expand]
    · have hn24 : n < 2 ^ 24 := by omega
      have hn0 : n ≠ 0 := by omega
      simp only [decompressLz, readU32_header11 n body hn24 hn0]
      have h1 : (17 + 256 * n) % 256 = 17 := by omega
      have h2 : (17 + 256 * n) / 256 = n := by omega
      simp [h1, h2, hn0, hout, expand]

/-! ### totality -/

theorem bitLoop_ne_panic (ext : Bool) (length flags : Nat) :
    ∀ (k : Nat) (s : Bytes) (out : BA), bitLoop ext length flags k s out ≠ .panic := by
  intro k
  induction k with
  | zero => intro s out; simp [bitLoop]
  | succ k ih =>
    intro s out
    rw [bitLoop]
    split
    · simp
    · split
      · split
        · simp
        · exact ih _ _
      · split
        · simp
        · rename_i c d s0 _
          split
          · simp
          · rename_i hd
            obtain ⟨o, ho⟩ := copyLoop_ne_panic (out.size - d - 1) c 0 out (by omega)
            rw [ho]
            exact ih _ _

theorem outerLoop_ne_panic (ext : Bool) (length : Nat) :
    ∀ (s : Bytes) (out : BA), outerLoop ext length s out ≠ .panic := by
  intro s
  induction hn : s.length using Nat.strongRecOn generalizing s with
  | _ m ih =>
    intro out
    rw [outerLoop.eq_def]
    split
    · split
      · simp
      · rename_i f s'
        split
        · rename_i s'' out' heq
          have hl := bitLoop_length _ _ _ _ _ _ _ _ heq
          exact ih s''.length (by subst hn; simp; omega) s'' rfl out'
        · simp
        · rename_i heq
          exact absurd heq (bitLoop_ne_panic _ _ _ _ _ _)
    · simp

theorem decompressLz_ne_panic (s : Bytes) : decompressLz s ≠ .panic := by
  unfold decompressLz
  cases readU32 s with
  | none => simp
  | some p =>
    obtain ⟨hd, s1⟩ := p
    dsimp only
    split
    · simp
    · split
      · cases readU32 s1 with
        | none => simp
        | some q => exact outerLoop_ne_panic _ _ _ _
      · exact outerLoop_ne_panic _ _ _ _

/-! ### simple error clauses -/

theorem readU32_short (s : Bytes) (h : s.length < 4) : readU32 s = none := by
  match s with
  | [] => simp [readU32, next]
  | [_] => simp [readU32, next]
  | [_, _] => simp [readU32, next]
  | [_, _, _] => simp [readU32, next]
  | _ :: _ :: _ :: _ :: _ => simp at h; omega

theorem decompressLz_short (s : Bytes) (h : s.length < 4) : decompressLz s = .err .Invalid := by
  simp [decompressLz, readU32_short s h]

theorem decompressLz_unknown_type (t : UInt8) (s : Bytes) (h10 : t ≠ 0x10) (h11 : t ≠ 0x11) :
    decompressLz (t :: s) = .err .Invalid := by
  by_cases hs : (t :: s).length < 4
  · exact decompressLz_short _ hs
  · match s, hs with
    | a :: b :: c :: s, _ =>
      have ht10 : t.toNat ≠ 16 := fun h => h10 (UInt8.toNat_inj.1 (by simpa using h))
      have ht11 : t.toNat ≠ 17 := fun h => h11 (UInt8.toNat_inj.1 (by simpa using h))
      have hlt := t.toNat_lt
      have hm : (t.toNat + a.toNat * 2 ^ 8 + b.toNat * 2 ^ 16 + c.toNat * 2 ^ 24) % 256 = t.toNat := by
        omega
      simp [decompressLz, readU32, next, hm, ht10, ht11]
    | [], hs => simp at hs
    | [_], hs => simp at hs
    | [_, _], hs => simp at hs

end Mila.Lz
