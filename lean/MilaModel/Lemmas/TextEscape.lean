/-
Lemmas for C07 about `str::replace` as modelled by `TextArchive.strReplace`, and about the
specification's `escape` / `unescape`.
-/
import MilaModel.Model.TextArchive
import MilaModel.Spec.TextMap

namespace Mila.Lemmas.TextEscape
open Mila Mila.TextArchive
open Mila.Spec.TextMap (NoSeq)

theorem nl_ne_bs : Spec.TextMap.newline ≠ Spec.TextMap.backslash := by decide
theorem nl_ne_n : Spec.TextMap.newline ≠ Spec.TextMap.letterN := by decide
theorem bs_ne_n : Spec.TextMap.backslash ≠ Spec.TextMap.letterN := by decide
theorem bs_ne_nl : Spec.TextMap.backslash ≠ Spec.TextMap.newline := by decide

theorem go_zero_cons {α : Type} [DecidableEq α] (pat rep : List α) (x : α) (xs : List α) :
    strReplaceGo pat rep 0 (x :: xs) =
      if pat.isPrefixOf (x :: xs) then rep ++ strReplaceGo pat rep (pat.length - 1) xs
      else x :: strReplaceGo pat rep 0 xs := by
  rw [strReplaceGo]

theorem go_succ_cons {α : Type} [DecidableEq α] (pat rep : List α) (s : Nat) (x : α) (xs : List α) :
    strReplaceGo pat rep (s + 1) (x :: xs) = strReplaceGo pat rep s xs := by
  rw [strReplaceGo]

/-- The model's `message.replace("\\n", "\n")` is the specification's `unescape`. -/
theorem unescape_eq (m : Bytes) : TextArchive.unescape m = Spec.TextMap.unescape m := by
  unfold TextArchive.unescape strReplace
  fun_induction Spec.TextMap.unescape m with
  | case1 => rfl
  | case2 b =>
    simp [strReplaceGo, List.isPrefixOf]
  | case3 b b' rest h ih =>
    obtain ⟨h1, h2⟩ := h
    subst h1 h2
    have hp : ([TextArchive.backslash, TextArchive.letterN].isPrefixOf
        (Spec.TextMap.backslash :: Spec.TextMap.letterN :: rest)) = true := by
      simp [List.isPrefixOf, TextArchive.backslash, TextArchive.letterN, Spec.TextMap.backslash,
        Spec.TextMap.letterN]
    rw [go_zero_cons, if_pos hp]
    show [TextArchive.newline] ++ strReplaceGo _ _ 1 (Spec.TextMap.letterN :: rest) = _
    rw [go_succ_cons, ih]
    rfl
  | case4 b b' rest h ih =>
    have hp : ([TextArchive.backslash, TextArchive.letterN].isPrefixOf (b :: b' :: rest)) = false := by
      simp only [List.isPrefixOf, Bool.and_true]
      by_cases hb : b = Spec.TextMap.backslash
      · have : ¬ b' = Spec.TextMap.letterN := fun hn => h ⟨hb, hn⟩
        simp [TextArchive.backslash, TextArchive.letterN, Spec.TextMap.backslash,
          Spec.TextMap.letterN] at hb this ⊢
        intro _; exact fun e => this e.symm
      · simp [TextArchive.backslash, Spec.TextMap.backslash] at hb ⊢
        intro e; exact absurd e.symm hb
    rw [go_zero_cons, hp, if_neg (by simp), ih]

/-- The model's `value.replace('\n', "\\n")` is the specification's `escape`. -/
theorem escape_eq (m : Bytes) : TextArchive.escape m = Spec.TextMap.escape m := by
  unfold TextArchive.escape strReplace
  induction m with
  | nil => rfl
  | cons b tl ih =>
    by_cases hb : b = Spec.TextMap.newline
    · subst hb
      have hp : ([TextArchive.newline].isPrefixOf (Spec.TextMap.newline :: tl)) = true := by
        simp [List.isPrefixOf, TextArchive.newline, Spec.TextMap.newline]
      rw [go_zero_cons, if_pos hp]
      show [TextArchive.backslash, TextArchive.letterN] ++ strReplaceGo _ _ 0 tl = _
      rw [ih]
      simp [Spec.TextMap.escape]
      exact ⟨rfl, rfl⟩
    · have hp : ([TextArchive.newline].isPrefixOf (b :: tl)) = false := by
        simp only [List.isPrefixOf, Bool.and_true]
        simp [TextArchive.newline, Spec.TextMap.newline] at hb ⊢
        intro e; exact hb e.symm
      rw [go_zero_cons, hp, if_neg (by simp), ih]
      simp [Spec.TextMap.escape, hb]

/-! ### `NoSeq` -/

theorem noSeq_cons (b : UInt8) (l : Bytes) :
    NoSeq (b :: l) ↔
      (∀ b', l.head? = some b' → ¬ (b = Spec.TextMap.backslash ∧ b' = Spec.TextMap.letterN)) ∧ NoSeq l := by
  cases l with
  | nil => simp [NoSeq]
  | cons x xs => simp [NoSeq]

theorem unescape_head (b : UInt8) (l : Bytes) :
    (Spec.TextMap.unescape (b :: l)).head? = some b ∨
      (Spec.TextMap.unescape (b :: l)).head? = some Spec.TextMap.newline := by
  cases l with
  | nil => simp [Spec.TextMap.unescape]
  | cons x xs =>
    simp only [Spec.TextMap.unescape]
    split <;> simp

/-- A stored message never contains an escape sequence. -/
theorem noSeq_unescape (m : Bytes) : NoSeq (Spec.TextMap.unescape m) := by
  fun_induction Spec.TextMap.unescape m with
  | case1 => simp [NoSeq]
  | case2 b => simp [NoSeq]
  | case3 b b' rest h ih =>
    rw [noSeq_cons]
    refine ⟨?_, ih⟩
    intro x _ hx
    exact nl_ne_bs hx.1
  | case4 b b' rest h ih =>
    rw [noSeq_cons]
    refine ⟨?_, ih⟩
    intro x hx hbx
    rcases unescape_head b' rest with h1 | h1
    · rw [h1] at hx
      cases hx
      exact h hbx
    · rw [h1] at hx
      cases hx
      exact nl_ne_n hbx.2

theorem escape_eq_nil {m : Bytes} (h : Spec.TextMap.escape m = []) : m = [] := by
  cases m with
  | nil => rfl
  | cons b tl =>
    simp only [Spec.TextMap.escape] at h
    split at h <;> cases h

theorem escape_head (b : UInt8) (tl : Bytes) :
    (Spec.TextMap.escape (b :: tl)).head? =
      some (if b = Spec.TextMap.newline then Spec.TextMap.backslash else b) := by
  simp only [Spec.TextMap.escape]
  split <;> simp

/-- `unescape` undoes `escape` on messages without escape sequences. -/
theorem unescape_escape (m : Bytes) (h : NoSeq m) :
    Spec.TextMap.unescape (Spec.TextMap.escape m) = m := by
  induction m with
  | nil => rfl
  | cons b tl ih =>
    rw [noSeq_cons] at h
    obtain ⟨hh, ht⟩ := h
    have ih := ih ht
    by_cases hb : b = Spec.TextMap.newline
    · subst hb
      simp only [Spec.TextMap.escape, if_true, Spec.TextMap.unescape, and_self, ih]
    · simp only [Spec.TextMap.escape, hb, if_false]
      cases he : Spec.TextMap.escape tl with
      | nil =>
        have := escape_eq_nil he
        subst this
        simp [Spec.TextMap.unescape]
      | cons x xs =>
        have hx : ¬ (b = Spec.TextMap.backslash ∧ x = Spec.TextMap.letterN) := by
          intro ⟨hbb, hxn⟩
          cases tl with
          | nil => simp [Spec.TextMap.escape] at he
          | cons y ys =>
            have hhd := escape_head y ys
            rw [he] at hhd
            simp only [List.head?_cons, Option.some.injEq] at hhd
            by_cases hy : y = Spec.TextMap.newline
            · simp only [hy, if_true] at hhd
              exact bs_ne_n (hhd.symm.trans hxn)
            · simp only [hy, if_false] at hhd
              exact hh y rfl ⟨hbb, hhd.symm.trans hxn⟩
        simp only [Spec.TextMap.unescape, hx, if_false]
        rw [← he, ih]

end Mila.Lemmas.TextEscape
