/-
C01: `parse` recovers the content of every conforming image (`parse_conforming`).
Invariants over the two table loops of `from_bytes` are stated as lookup functions of the maps
built so far (so neither table order nor hash order matters).
-/
import MilaModel.Lemmas.SerConf

namespace Mila.Ser
open Mila.BinArchive
open Spec.Image

/-! ### `UMap` as a finite map -/

section umap
variable {κ ν : Type} [DecidableEq κ]

theorem get_replace (k : κ) (v : ν) (k' : κ) : ∀ (m : UMap κ ν),
    UMap.get (m.map (fun p => if p.1 = k then (k, v) else p)) k' =
      if k' = k then (if m.any (fun p => p.1 = k) then some v else none) else UMap.get m k' := by
  intro m
  induction m with
  | nil => simp [UMap.get]
  | cons p ps ih =>
    unfold UMap.get at ih ⊢
    simp only [List.map_cons, List.find?_cons, List.any_cons]
    by_cases hpk : p.1 = k
    · by_cases hk : k' = k
      · subst hk; simp [hpk]
      · have : ¬ k = k' := fun e => hk e.symm
        simp only [hpk, if_true, this, decide_false, hk, if_false]
        rw [ih]; simp [hk]
    · by_cases hpk' : p.1 = k'
      · have : ¬ k' = k := fun e => hpk (hpk'.trans e)
        simp [hpk', this]
      · simp only [hpk, if_false, hpk', decide_false, Bool.false_or]
        exact ih

theorem get_append_singleton (m : UMap κ ν) (k : κ) (v : ν) (k' : κ) :
    UMap.get (m ++ [(k, v)]) k' = (UMap.get m k').or (if k' = k then some v else none) := by
  unfold UMap.get
  rw [List.find?_append]
  cases h : m.find? (fun p => p.1 = k') with
  | some p => simp
  | none =>
    by_cases hk : k = k'
    · subst hk; simp
    · have : ¬ k' = k := fun e => hk e.symm
      simp [hk, this]

theorem get_none_of_not_any (m : UMap κ ν) (k : κ) (h : m.any (fun p => p.1 = k) = false) :
    UMap.get m k = none := by
  unfold UMap.get
  rw [List.any_eq_false] at h
  rw [List.find?_eq_none.mpr (by intro p hp; simpa using h p hp)]
  rfl

/-- `HashMap::insert` followed by `get`. -/
theorem get_insert (m : UMap κ ν) (k : κ) (v : ν) (k' : κ) :
    UMap.get (UMap.insert m k v) k' = if k' = k then some v else UMap.get m k' := by
  unfold UMap.insert
  cases h : m.any (fun p => p.1 = k) with
  | true =>
    simp only [if_true]
    rw [get_replace, h]; simp
  | false =>
    simp only [Bool.false_eq_true, if_false]
    rw [get_append_singleton]
    by_cases hk : k' = k
    · subst hk; rw [get_none_of_not_any m k' h]; simp
    · simp [hk]

theorem keys_insert (m : UMap κ ν) (k : κ) (v : ν) :
    (UMap.insert m k v).map (·.1) =
      if m.any (fun p => p.1 = k) then m.map (·.1) else m.map (·.1) ++ [k] := by
  unfold UMap.insert
  cases h : m.any (fun p => p.1 = k) with
  | true =>
    simp only [if_true, List.map_map]
    apply List.map_congr_left
    intro p _
    simp only [Function.comp]
    by_cases hp : p.1 = k <;> simp [hp]
  | false => simp

theorem nodup_keys_insert (m : UMap κ ν) (k : κ) (v : ν) (nd : (m.map (·.1)).Nodup) :
    ((UMap.insert m k v).map (·.1)).Nodup := by
  rw [keys_insert]
  cases h : m.any (fun p => p.1 = k) with
  | true => simpa using nd
  | false =>
    simp only [Bool.false_eq_true, if_false]
    rw [List.nodup_append]
    refine ⟨nd, by simp, ?_⟩
    intro a ha b hb
    simp only [List.mem_singleton] at hb
    subst hb
    rw [List.any_eq_false] at h
    obtain ⟨p, hp, rfl⟩ := List.mem_map.mp ha
    intro e
    have := h p hp
    simp at this
    exact this e

theorem mem_iff_get {m : UMap κ ν} (nd : (m.map (·.1)).Nodup) (p : κ × ν) :
    p ∈ m ↔ UMap.get m p.1 = some p.2 := by
  unfold UMap.get
  constructor
  · intro hp; rw [find_key_of_mem nd hp]; rfl
  · intro h
    cases hf : m.find? (fun q => q.1 = p.1) with
    | none => rw [hf] at h; cases h
    | some q =>
      rw [hf] at h
      have hq := List.mem_of_find?_eq_some hf
      have hk : q.1 = p.1 := by simpa using List.find?_some hf
      have hv : q.2 = p.2 := by simpa using h
      have : q = p := Prod.ext hk hv
      exact this ▸ hq

theorem nodup_of_nodup_map {α β : Type} (f : α → β) : ∀ (l : List α), (l.map f).Nodup → l.Nodup := by
  intro l
  induction l with
  | nil => intro _; simp
  | cons x xs ih =>
    intro h
    rw [List.map_cons, List.nodup_cons] at h
    rw [List.nodup_cons]
    exact ⟨fun hx => h.1 (List.mem_map_of_mem hx), ih h.2⟩

/-- Two maps with the same lookups are permutations of each other. -/
theorem perm_of_get_eq {m m' : UMap κ ν} (nd : (m.map (·.1)).Nodup) (nd' : (m'.map (·.1)).Nodup)
    (h : ∀ k, UMap.get m k = UMap.get m' k) : m.Perm m' := by
  rw [List.perm_ext_iff_of_nodup (nodup_of_nodup_map _ _ nd) (nodup_of_nodup_map _ _ nd')]
  intro p
  rw [mem_iff_get nd, mem_iff_get nd', h]

theorem get_eq_none_iff (m : UMap κ ν) (k : κ) : UMap.get m k = none ↔ ∀ p ∈ m, p.1 ≠ k := by
  unfold UMap.get
  rw [Option.map_eq_none_iff, List.find?_eq_none]
  constructor
  · intro h p hp; simpa using h p hp
  · intro h p hp; simpa using h p hp

end umap

/-! ### a counted loop over table entries -/

theorem range_foldlM {α β : Type} (F : α → Nat → Res α) (H : α → β → Res α) :
    ∀ (l : List β) (s : Nat) (a : α),
      (∀ j (h : j < l.length) (a : α), F a (s + j) = H a l[j]) →
      (List.range' s l.length).foldlM F a = l.foldlM H a := by
  intro l
  induction l with
  | nil => intro s a _; rfl
  | cons x xs ih =>
    intro s a h
    rw [List.length_cons, List.range'_succ, List.foldlM_cons, List.foldlM_cons]
    have h0 := h 0 (by simp) a
    simp only [Nat.add_zero, List.getElem_cons_zero] at h0
    rw [h0]
    congr 1
    funext a'
    apply ih
    intro j hj a''
    have := h (j + 1) (by simp; omega) a''
    simp only [List.getElem_cons_succ] at this
    rw [← this]
    congr 1
    omega


/-! ### reading the image -/

theorem u32At_eq_wordAt (e : Endian) (f : Bytes) (pos : Nat) : u32At e f pos = wordAt e f pos := rfl

theorem dec_slice_of_wordAt {e : Endian} {f : Bytes} {pos v : Nat} (h : wordAt e f pos = some v) :
    e.dec (slice f pos 4) = v := by
  unfold wordAt at h
  split at h
  · exact Option.some.inj h
  · cases h

theorem slice_length (f : Bytes) (start len : Nat) (h : start + len ≤ f.length) :
    (slice f start len).length = len := by
  simp [slice]; omega

theorem wordAt_slice (e : Endian) (f : Bytes) (start len x : Nat) (h : start + len ≤ f.length)
    (hx : x + 4 ≤ len) : wordAt e (slice f start len) x = wordAt e f (start + x) := by
  apply wordAt_congr e (by rw [slice_length f start len h]; exact hx) (by omega)
  intro j hj
  unfold slice
  rw [List.getElem?_take, if_pos (by omega), List.getElem?_drop, Nat.add_assoc]

theorem validateAddress_lt {x n : Nat} (h : x < n) : validateAddress x n false = .ok () := by
  unfold validateAddress
  have : ¬ x ≥ n := by omega
  simp [this]

theorem validateAddress_le {x n : Nat} (h : x ≤ n) : validateAddress x n true = .ok () := by
  unfold validateAddress
  have : ¬ x > n := by omega
  simp [this]

theorem validateCell_ok (a : BinArchive) (x : Nat) (h : x + 4 ≤ a.data.length) :
    validateCell a x 4 = .ok () := by
  unfold validateCell size
  rw [validateAddress_lt (by omega)]
  exact validateAddress_le h

/-- Everything `parse_conforming` assumes. -/
structure Ctx (c : Codec) (D : Str → Prop) (e : Endian) (f : Bytes) (K : Content) : Prop where
  conf : Conforms c.enc e f K
  wf : K.WF
  faithful : c.Faithful D
  domS : ∀ p ∈ K.strings, D p.2
  domL : ∀ p ∈ K.labels, ∀ n ∈ p.2, D n

section steps
variable {c : Codec} {D : Str → Prop} {e : Endian} {f : Bytes} {K : Content}

theorem Ctx.data_fits (ctx : Ctx c D e f K) : 0x20 + K.data.length ≤ f.length := by
  have := ctx.conf.fits
  unfold Content.textStart at this
  omega

/-- The archive under construction: the data block of the image, never modified. -/
def Base (e : Endian) (f : Bytes) (K : Content) (a : BinArchive) : Prop :=
  a.data = slice f 0x20 K.data.length ∧ a.endian = e

theorem Base.length (ctx : Ctx c D e f K) {a : BinArchive} (hb : Base e f K a) :
    a.data.length = K.data.length := by
  rw [hb.1, slice_length _ _ _ ctx.data_fits]

theorem readU32_image (ctx : Ctx c D e f K) {a : BinArchive} (hb : Base e f K a) {x v : Nat}
    (hx : x + 4 ≤ K.data.length) (hw : wordAt e f (0x20 + x) = some v) : readU32 a x = .ok v := by
  unfold readU32 readUInt
  rw [validateCell_ok a x (by rw [hb.length ctx]; exact hx)]
  simp only []
  have := wordAt_slice e f 0x20 K.data.length x ctx.data_fits hx
  rw [hw, ← hb.1] at this
  rw [hb.2, dec_slice_of_wordAt this]

/-- The string that sits at a position is what `read_shift_jis_string` returns there. -/
theorem sjisAt_of_strAt (ctx : Ctx c D e f K) {s b : Str} {pos : Nat} (hD : D s)
    (hb : c.enc s = some b) (hs : StrAt f pos b) : sjisAt c f pos = .ok s := by
  obtain ⟨b', hb', h0, hdec⟩ := ctx.faithful s hD
  rw [hb] at hb'
  cases hb'
  unfold sjisAt
  rw [cstrBytes_of_strAt b (f.drop pos) h0 hs]
  simp only [hdec]

theorem parsePointerAt_pointer (ctx : Ctx c D e f K) {a : BinArchive} (hb : Base e f K a)
    {p : Nat × Nat} (hp : p ∈ K.pointers) :
    parsePointerAt c f K.data.length a p.1 =
      .ok { a with pointers := UMap.insert a.pointers p.1 p.2 } := by
  have hin : p.1 + 4 ≤ K.data.length :=
    ctx.wf.inside _ (List.mem_append_left _ (List.mem_map_of_mem hp))
  unfold parsePointerAt
  rw [readU32_image ctx hb hin (ctx.conf.ptrCells p hp)]
  simp only []
  rw [if_neg (by have := ctx.wf.targets p hp; omega)]
  unfold writePointer
  simp only []
  rw [validateCell_ok a p.1 (by rw [hb.length ctx]; exact hin)]

theorem parsePointerAt_string (ctx : Ctx c D e f K) {a : BinArchive} (hb : Base e f K a)
    {p : Nat × Str} (hp : p ∈ K.strings) :
    parsePointerAt c f K.data.length a p.1 =
      .ok { a with text := UMap.insert a.text p.1 p.2 } := by
  have hmem : p.1 ∈ K.cells := List.mem_append_right _ (List.mem_map_of_mem hp)
  have hin : p.1 + 4 ≤ K.data.length := ctx.wf.inside _ hmem
  obtain ⟨v, b, hw, hts, henc, hstr⟩ := ctx.conf.strCells p hp
  have hpos : 0 < K.cells.length := List.length_pos_of_mem hmem
  unfold parsePointerAt
  rw [readU32_image ctx hb hin hw]
  simp only []
  rw [if_pos (by unfold Content.textStart at hts; omega)]
  rw [Nat.add_comm v 0x20, sjisAt_of_strAt ctx (ctx.domS p hp) henc hstr]
  simp only []
  unfold writeString
  simp only []
  rw [validateCell_ok a p.1 (by rw [hb.length ctx]; exact hin)]

theorem parseLabelAt_entry (ctx : Ctx c D e f K) {a : BinArchive} (hb : Base e f K a)
    {addr off : Nat} {name b : Str} (hD : D name) (haddr : addr ≤ K.data.length)
    (henc : c.enc name = some b) (hstr : StrAt f (0x20 + K.textStart + off) b) :
    parseLabelAt c f K.textStart a addr off =
      .ok { a with labels :=
        UMap.insert a.labels addr (Option.getD (UMap.get a.labels addr) [] ++ [name]) } := by
  unfold parseLabelAt
  rw [show K.textStart + off + 0x20 = 0x20 + K.textStart + off by omega,
    sjisAt_of_strAt ctx hD henc hstr]
  simp only []
  unfold writeLabel
  rw [validateAddress_le (by unfold size; rw [hb.length ctx]; exact haddr)]
  simp only []
  cases UMap.get a.labels addr <;> rfl

end steps


/-! ### facts about a well-formed content -/

theorem cells_nodup {K : Content} (wf : K.WF) : K.cells.Nodup := by
  apply wf.disjoint.imp
  intro a b h e; omega

theorem ptrKeys_nodup {K : Content} (wf : K.WF) : (K.pointers.map (·.1)).Nodup :=
  (List.nodup_append.mp (cells_nodup wf)).1

theorem strKeys_nodup {K : Content} (wf : K.WF) : (K.strings.map (·.1)).Nodup :=
  (List.nodup_append.mp (cells_nodup wf)).2.1

theorem ptr_not_str {K : Content} (wf : K.WF) {p : Nat × Nat} (hp : p ∈ K.pointers) :
    UMap.get K.strings p.1 = none := by
  rw [get_eq_none_iff]
  intro q hq e
  exact (List.nodup_append.mp (cells_nodup wf)).2.2 p.1 (List.mem_map_of_mem hp) q.1
    (List.mem_map_of_mem hq) e.symm

theorem str_not_ptr {K : Content} (wf : K.WF) {p : Nat × Str} (hp : p ∈ K.strings) :
    UMap.get K.pointers p.1 = none := by
  rw [get_eq_none_iff]
  intro q hq e
  exact (List.nodup_append.mp (cells_nodup wf)).2.2 q.1 (List.mem_map_of_mem hq) p.1
    (List.mem_map_of_mem hp) e

/-! ### the pointer-table loop -/

structure PtrInv (e : Endian) (f : Bytes) (K : Content) (done : List Nat) (a : BinArchive) : Prop where
  base : Base e f K a
  labels : a.labels = []
  cstrings : a.cstrings = []
  ndT : (a.text.map (·.1)).Nodup
  ndP : (a.pointers.map (·.1)).Nodup
  getT : ∀ y, UMap.get a.text y = if y ∈ done then UMap.get K.strings y else none
  getP : ∀ y, UMap.get a.pointers y = if y ∈ done then UMap.get K.pointers y else none

section loops
variable {c : Codec} {D : Str → Prop} {e : Endian} {f : Bytes} {K : Content}

theorem ptr_loop (ctx : Ctx c D e f K) : ∀ (xs done : List Nat) (a : BinArchive),
    PtrInv e f K done a → (∀ x ∈ xs, x ∈ K.cells) →
    ∃ a', xs.foldlM (parsePointerAt c f K.data.length) a = .ok a' ∧ PtrInv e f K (done ++ xs) a' := by
  intro xs
  induction xs with
  | nil => intro done a inv _; exact ⟨a, rfl, by simpa using inv⟩
  | cons x xs ih =>
    intro done a inv hx
    have hxc := hx x (by simp)
    rw [List.foldlM_cons]
    rcases List.mem_append.mp hxc with hm | hm
    · obtain ⟨p, hp, rfl⟩ := List.mem_map.mp hm
      rw [parsePointerAt_pointer ctx inv.base hp]
      have hgetp : UMap.get K.pointers p.1 = some p.2 :=
        (mem_iff_get (ptrKeys_nodup ctx.wf) p).mp hp
      have hgets := ptr_not_str ctx.wf hp
      have inv' : PtrInv e f K (done ++ [p.1]) { a with pointers := UMap.insert a.pointers p.1 p.2 } := by
        refine ⟨inv.base, inv.labels, inv.cstrings, inv.ndT, nodup_keys_insert _ _ _ inv.ndP, ?_, ?_⟩
        · intro y
          show UMap.get a.text y = _
          rw [inv.getT y]
          by_cases hy : y = p.1
          · subst hy; simp [hgets]
          · simp [hy]
        · intro y
          show UMap.get (UMap.insert a.pointers p.1 p.2) y = _
          rw [get_insert, inv.getP y]
          by_cases hy : y = p.1
          · subst hy; simp [hgetp]
          · simp [hy]
      obtain ⟨a', h1, h2⟩ := ih (done ++ [p.1]) _ inv' (fun y hy => hx y (by simp [hy]))
      exact ⟨a', h1, by simpa using h2⟩
    · obtain ⟨p, hp, rfl⟩ := List.mem_map.mp hm
      rw [parsePointerAt_string ctx inv.base hp]
      have hgets : UMap.get K.strings p.1 = some p.2 :=
        (mem_iff_get (strKeys_nodup ctx.wf) p).mp hp
      have hgetp := str_not_ptr ctx.wf hp
      have inv' : PtrInv e f K (done ++ [p.1]) { a with text := UMap.insert a.text p.1 p.2 } := by
        refine ⟨inv.base, inv.labels, inv.cstrings, nodup_keys_insert _ _ _ inv.ndT, inv.ndP, ?_, ?_⟩
        · intro y
          show UMap.get (UMap.insert a.text p.1 p.2) y = _
          rw [get_insert, inv.getT y]
          by_cases hy : y = p.1
          · subst hy; simp [hgets]
          · simp [hy]
        · intro y
          show UMap.get a.pointers y = _
          rw [inv.getP y]
          by_cases hy : y = p.1
          · subst hy; simp [hgetp]
          · simp [hy]
      obtain ⟨a', h1, h2⟩ := ih (done ++ [p.1]) _ inv' (fun y hy => hx y (by simp [hy]))
      exact ⟨a', h1, by simpa using h2⟩

/-! ### the label-table loop -/

structure LblInv (e : Endian) (f : Bytes) (K : Content) (a0 : BinArchive)
    (done : List (Nat × Nat × Bytes)) (a : BinArchive) : Prop where
  base : Base e f K a
  text : a.text = a0.text
  pointers : a.pointers = a0.pointers
  cstrings : a.cstrings = []
  nd : (a.labels.map (·.1)).Nodup
  bucket : ∀ y, (UMap.get a.labels y).getD [] = (done.filter (fun r => r.1 = y)).map (·.2.2)
  nonempty : ∀ p ∈ a.labels, p.2 ≠ []

theorem mem_insert {κ ν : Type} [DecidableEq κ] (m : UMap κ ν) (k : κ) (v : ν) (q : κ × ν)
    (h : q ∈ UMap.insert m k v) : q = (k, v) ∨ q ∈ m := by
  unfold UMap.insert at h
  split at h
  · obtain ⟨p, hp, rfl⟩ := List.mem_map.mp h
    by_cases hk : p.1 = k
    · simp [hk]
    · simp [hk, hp]
  · rcases List.mem_append.mp h with h | h
    · exact Or.inr h
    · exact Or.inl (by simpa using h)

/-- What the label loop needs to know about one table entry. -/
def EntryOK (c : Codec) (D : Str → Prop) (f : Bytes) (K : Content) (r : Nat × Nat × Bytes) : Prop :=
  D r.2.2 ∧ r.1 ≤ K.data.length ∧ ∃ b, c.enc r.2.2 = some b ∧ StrAt f (0x20 + K.textStart + r.2.1) b

theorem lbl_loop (ctx : Ctx c D e f K) (a0 : BinArchive) : ∀ (rs done : List (Nat × Nat × Bytes))
    (a : BinArchive), LblInv e f K a0 done a → (∀ r ∈ rs, EntryOK c D f K r) →
    ∃ a', rs.foldlM (fun a r => parseLabelAt c f K.textStart a r.1 r.2.1) a = .ok a' ∧
      LblInv e f K a0 (done ++ rs) a' := by
  intro rs
  induction rs with
  | nil => intro done a inv _; exact ⟨a, rfl, by simpa using inv⟩
  | cons r rs ih =>
    intro done a inv hr
    obtain ⟨hD, haddr, b, henc, hstr⟩ := hr r (by simp)
    rw [List.foldlM_cons, parseLabelAt_entry ctx inv.base hD haddr henc hstr]
    have inv' : LblInv e f K a0 (done ++ [r]) ⟨a.data, a.text, a.pointers,
        UMap.insert a.labels r.1 (Option.getD (UMap.get a.labels r.1) [] ++ [r.2.2]),
        a.cstrings, a.endian⟩ := by
      refine ⟨inv.base, inv.text, inv.pointers, inv.cstrings, nodup_keys_insert _ _ _ inv.nd, ?_, ?_⟩
      · intro y
        show (UMap.get (UMap.insert a.labels r.1 _) y).getD [] = _
        rw [get_insert, List.filter_append, List.map_append]
        by_cases hy : y = r.1
        · subst hy; simp [inv.bucket]
        · have : ¬ r.1 = y := fun e => hy e.symm
          simp [hy, this, inv.bucket]
      · intro q hq
        rcases mem_insert _ _ _ _ hq with rfl | hq
        · simp
        · exact inv.nonempty q hq
    obtain ⟨a', h1, h2⟩ := ih (done ++ [r]) _ inv' (fun y hy => hr y (by simp [hy]))
    exact ⟨a', h1, by simpa using h2⟩

end loops


/-! ### `parse_conforming` -/

/-- The parsed archive has exactly the content `K` (its data block is the image's). -/
structure Parsed (e : Endian) (f : Bytes) (K : Content) (b : BinArchive) : Prop where
  data : b.data = slice f 0x20 K.data.length
  endian : b.endian = e
  cstrings : b.cstrings = []
  text : b.text.Perm K.strings
  pointers : b.pointers.Perm K.pointers
  labelKeys : (b.labels.map (·.1)).Nodup
  labels : ∀ x, (UMap.get b.labels x).getD [] = K.labelsAt x
  nonempty : ∀ p ∈ b.labels, p.2 ≠ []

theorem labelsAt_mem {K : Content} {x : Nat} {n : Bytes} (h : n ∈ K.labelsAt x) :
    ∃ p ∈ K.labels, p.1 = x ∧ n ∈ p.2 := by
  unfold Content.labelsAt at h
  cases hf : K.labels.find? (fun p => p.1 = x) with
  | none => rw [hf] at h; simp at h
  | some p =>
    rw [hf] at h
    exact ⟨p, List.mem_of_find?_eq_some hf, by simpa using List.find?_some hf, by simpa using h⟩

theorem parse_conforming {c : Codec} {D : Str → Prop} {e : Endian} {f : Bytes} {K : Content}
    (ctx : Ctx c D e f K) : ∃ b, parse c e f = .ok b ∧ Parsed e f K b := by
  obtain ⟨t, hperm, hwords⟩ := ctx.conf.ptrTable
  obtain ⟨lt, hltlen, hentries, hfilter⟩ := ctx.conf.lblTable
  have hfits := ctx.conf.fits
  have hts : K.data.length + K.cells.length * 4 + K.labelCount * 8 = K.textStart := by
    unfold Content.textStart; omega
  -- the pointer table
  let a0 : BinArchive := { BinArchive.new e with data := slice f 0x20 K.data.length }
  have inv0 : PtrInv e f K [] a0 :=
    ⟨⟨rfl, rfl⟩, rfl, rfl, by simp [a0, BinArchive.new], by simp [a0, BinArchive.new],
     by intro y; simp [a0, BinArchive.new, UMap.get], by intro y; simp [a0, BinArchive.new, UMap.get]⟩
  obtain ⟨a1, hf1, inv1⟩ := ptr_loop ctx t [] a0 inv0 (fun x hx => hperm.mem_iff.mp hx)
  have hfold1 : (List.range K.cells.length).foldlM
      (fun a i => parsePointer c e f K.data.length a (0x20 + K.data.length + 4 * i)) a0 = .ok a1 := by
    rw [← hperm.length_eq, List.range_eq_range', range_foldlM _ (parsePointerAt c f K.data.length) t 0 a0]
    · exact hf1
    · intro j hj a
      unfold parsePointer
      rw [Nat.zero_add, u32At_eq_wordAt, hwords j hj]
  -- the label table
  have hok : ∀ r ∈ lt, EntryOK c D f K r := by
    intro r hr
    obtain ⟨i, hi, rfl⟩ := List.getElem_of_mem hr
    have hmem : lt[i].2.2 ∈ K.labelsAt lt[i].1 := by
      rw [← hfilter lt[i].1]
      apply List.mem_map.mpr
      exact ⟨lt[i], List.mem_filter.mpr ⟨hr, by simp⟩, rfl⟩
    obtain ⟨p, hp, hpx, hn⟩ := labelsAt_mem hmem
    refine ⟨ctx.domL p hp _ hn, ?_, (hentries i hi).2.2⟩
    rw [← hpx]; exact ctx.wf.labelAddrs p hp
  have invL0 : LblInv e f K a1 [] a1 :=
    ⟨inv1.base, rfl, rfl, inv1.cstrings, by rw [inv1.labels]; simp,
     by intro y; rw [inv1.labels]; simp [UMap.get], by intro p hp; rw [inv1.labels] at hp; cases hp⟩
  obtain ⟨a2, hf2, inv2⟩ := lbl_loop ctx a1 lt [] a1 invL0 hok
  have hfold2 : (List.range K.labelCount).foldlM
      (fun a i => parseLabel c e f K.textStart a (0x20 + K.data.length + 4 * K.cells.length + 8 * i)) a1
      = .ok a2 := by
    rw [← hltlen, List.range_eq_range',
      range_foldlM _ (fun a (r : Nat × Nat × Bytes) => parseLabelAt c f K.textStart a r.1 r.2.1) lt 0 a1]
    · exact hf2
    · intro j hj a
      unfold parseLabel
      rw [Nat.zero_add, u32At_eq_wordAt, u32At_eq_wordAt, (hentries j hj).1, (hentries j hj).2.1]
  refine ⟨a2, ?_, ?_⟩
  · unfold parse
    rw [if_neg (by omega)]
    simp only [dec_slice_of_wordAt ctx.conf.hData, dec_slice_of_wordAt ctx.conf.hPtrs,
      dec_slice_of_wordAt ctx.conf.hLbls, hts]
    rw [if_neg (by omega)]
    rw [hfold1]
    simp only []
    exact hfold2
  · simp only [List.nil_append] at inv1 inv2
    have hgetT : ∀ y, UMap.get a1.text y = UMap.get K.strings y := by
      intro y
      rw [inv1.getT y]
      by_cases hy : y ∈ t
      · simp [hy]
      · rw [if_neg hy]
        symm
        rw [get_eq_none_iff]
        intro p hp e
        exact hy (hperm.mem_iff.mpr (e ▸ List.mem_append_right _ (List.mem_map_of_mem hp)))
    have hgetP : ∀ y, UMap.get a1.pointers y = UMap.get K.pointers y := by
      intro y
      rw [inv1.getP y]
      by_cases hy : y ∈ t
      · simp [hy]
      · rw [if_neg hy]
        symm
        rw [get_eq_none_iff]
        intro p hp e
        exact hy (hperm.mem_iff.mpr (e ▸ List.mem_append_left _ (List.mem_map_of_mem hp)))
    exact {
      data := inv2.base.1
      endian := inv2.base.2
      cstrings := inv2.cstrings
      text := by rw [inv2.text]; exact perm_of_get_eq inv1.ndT (strKeys_nodup ctx.wf) hgetT
      pointers := by rw [inv2.pointers]; exact perm_of_get_eq inv1.ndP (ptrKeys_nodup ctx.wf) hgetP
      labelKeys := inv2.nd
      labels := by intro x; rw [inv2.bucket x, hfilter x]
      nonempty := inv2.nonempty }

end Mila.Ser
