/-
Byte-level lemmas for C01/C02: 32-bit words (encode/decode, position in a concatenation),
patching words into a data block, NUL-terminated strings inside a text section.
-/
import MilaModel.Model.BinArchive
import MilaModel.Spec.ArchiveImage

namespace Mila.Ser
open Spec.Image (wordAt StrAt words patchWords)

/-! ### 32-bit words -/

theorem leBytes4 (n : Nat) : leBytes 4 n =
    [UInt8.ofNat (n % 256), UInt8.ofNat (n / 256 % 256), UInt8.ofNat (n / 256 / 256 % 256),
     UInt8.ofNat (n / 256 / 256 / 256 % 256)] := by
  simp [leBytes]

theorem enc4_length (e : Endian) (v : Nat) : (e.enc 4 v).length = 4 := by
  cases e <;> simp [Endian.enc, beBytes, leBytes4]

theorem enc4_mod (e : Endian) (v : Nat) : e.enc 4 (v % 2 ^ 32) = e.enc 4 v := by
  have h : leBytes 4 (v % 2 ^ 32) = leBytes 4 v := by
    rw [leBytes4, leBytes4]
    congr 1
    · congr 1; omega
    congr 1
    · congr 1; omega
    congr 1
    · congr 1; omega
    congr 1
    · congr 1; omega
  cases e <;> simp [Endian.enc, beBytes, h]

theorem ofLe_leBytes4 (v : Nat) (h : v < 2 ^ 32) : ofLe (leBytes 4 v) = v := by
  simp only [leBytes4, ofLe, UInt8.toNat_ofNat']
  omega

theorem dec_enc4 (e : Endian) (v : Nat) (h : v < 2 ^ 32) : e.dec (e.enc 4 v) = v := by
  cases e
  · simpa [Endian.enc, Endian.dec] using ofLe_leBytes4 v h
  · simpa [Endian.enc, Endian.dec, beBytes, ofBe] using ofLe_leBytes4 v h

theorem ofLe_lt : ∀ b : Bytes, ofLe b < 256 ^ b.length := by
  intro b
  induction b with
  | nil => simp [ofLe]
  | cons x xs ih =>
    have hx : x.toNat < 256 := UInt8.toNat_lt x
    simp only [ofLe, List.length_cons, Nat.pow_succ]
    omega

theorem dec_lt (e : Endian) (b : Bytes) (h : b.length = 4) : e.dec b < 2 ^ 32 := by
  cases e
  · have := ofLe_lt b; rw [h] at this; simpa [Endian.dec] using this
  · have := ofLe_lt b.reverse; rw [List.length_reverse, h] at this
    simpa [Endian.dec, ofBe] using this

theorem wordAt_lt {e : Endian} {f : Bytes} {pos v : Nat} (h : wordAt e f pos = some v) : v < 2 ^ 32 := by
  unfold wordAt at h
  split at h
  · cases h
    apply dec_lt
    simp; omega
  · cases h

theorem wordAt_some_le {e : Endian} {f : Bytes} {pos v : Nat} (h : wordAt e f pos = some v) :
    pos + 4 ≤ f.length := by
  unfold wordAt at h
  split at h
  · assumption
  · cases h

/-- A word only depends on its four bytes. -/
theorem wordAt_congr (e : Endian) {f g : Bytes} {p q : Nat}
    (hf : p + 4 ≤ f.length) (hg : q + 4 ≤ g.length) (h : ∀ j, j < 4 → f[p + j]? = g[q + j]?) :
    wordAt e f p = wordAt e g q := by
  unfold wordAt
  rw [if_pos hf, if_pos hg]
  congr 2
  apply List.ext_getElem?
  intro j
  simp only [List.getElem?_take, List.getElem?_drop]
  split
  · exact h j ‹_›
  · rfl

theorem wordAt_append_left (e : Endian) (a b : Bytes) (pos : Nat) (h : pos + 4 ≤ a.length) :
    wordAt e (a ++ b) pos = wordAt e a pos := by
  apply wordAt_congr e (by simp; omega) h
  intro j hj
  rw [List.getElem?_append, if_pos (by omega)]

theorem wordAt_append_right (e : Endian) (a b : Bytes) (pos : Nat) :
    wordAt e (a ++ b) (a.length + pos) = wordAt e b pos := by
  unfold wordAt
  simp only [List.length_append, List.drop_append, Nat.add_sub_cancel_left]
  have : List.drop (a.length + pos) a = [] := by
    apply List.drop_eq_nil_of_le; omega
  rw [this, List.nil_append]
  by_cases h : pos + 4 ≤ b.length
  · rw [if_pos (by omega), if_pos h]
  · rw [if_neg (by omega), if_neg h]

theorem wordAt_enc (e : Endian) (v : Nat) (rest : Bytes) (h : v < 2 ^ 32) :
    wordAt e (e.enc 4 v ++ rest) 0 = some v := by
  unfold wordAt
  have hl := enc4_length e v
  rw [if_pos (by simp; omega)]
  have ht : List.take 4 (e.enc 4 v ++ rest) = e.enc 4 v := by
    rw [List.take_append, hl, Nat.sub_self, List.take_zero, List.append_nil]
    exact List.take_of_length_le (by omega)
  rw [List.drop_zero, ht, dec_enc4 e v h]

theorem words_length (e : Endian) (l : List Nat) : (words e l).length = 4 * l.length := by
  induction l with
  | nil => rfl
  | cons x xs ih =>
    simp only [words, List.flatMap_cons, List.length_append, List.length_cons] at ih ⊢
    rw [ih, enc4_length]; omega

theorem words_cons (e : Endian) (x : Nat) (xs : List Nat) : words e (x :: xs) = e.enc 4 x ++ words e xs := by
  simp [words]

theorem words_append (e : Endian) (l₁ l₂ : List Nat) : words e (l₁ ++ l₂) = words e l₁ ++ words e l₂ := by
  simp [words]

theorem wordAt_words (e : Endian) : ∀ (l : List Nat) (rest : Bytes) (i : Nat) (h : i < l.length),
    l[i] < 2 ^ 32 → wordAt e (words e l ++ rest) (4 * i) = some l[i] := by
  intro l
  induction l with
  | nil => intro _ i h; cases h
  | cons x xs ih =>
    intro rest i h hv
    rw [words_cons, List.append_assoc]
    cases i with
    | zero => simpa using wordAt_enc e x _ (by simpa using hv)
    | succ i =>
      have := wordAt_append_right e (e.enc 4 x) (words e xs ++ rest) (4 * i)
      rw [enc4_length] at this
      rw [show 4 * (i + 1) = 4 + 4 * i by omega, this]
      exact ih rest i (by simpa using h) (by simpa using hv)

/-- The model's `u32s` is the specification's `words`. -/
theorem u32s_eq_words (e : Endian) (l : List Nat) : BinArchive.u32s e l = words e l := by
  have : (fun v => e.enc 4 (v % 2 ^ 32)) = (fun v => e.enc 4 v) := by
    funext v; exact enc4_mod e v
  simp only [BinArchive.u32s, words, this]

/-! ### patching -/

/-- One patch step of `patchWords`. -/
def patch1 (e : Endian) (d : Bytes) (x v : Nat) : Bytes := d.take x ++ e.enc 4 v ++ d.drop (x + 4)

theorem patchWords_cons (e : Endian) (d : Bytes) (w : Nat × Nat) (ws : List (Nat × Nat)) :
    patchWords e d (w :: ws) = patchWords e (patch1 e d w.1 w.2) ws := rfl

theorem patchWords_append (e : Endian) (d : Bytes) (ws₁ ws₂ : List (Nat × Nat)) :
    patchWords e d (ws₁ ++ ws₂) = patchWords e (patchWords e d ws₁) ws₂ := by
  simp [patchWords, List.foldl_append]

theorem length_patch1 (e : Endian) (d : Bytes) (x v : Nat) (h : x + 4 ≤ d.length) :
    (patch1 e d x v).length = d.length := by
  simp [patch1, enc4_length]; omega

theorem getElem?_patch1_outside (e : Endian) (d : Bytes) (x v i : Nat) (h : x + 4 ≤ d.length)
    (ho : i < x ∨ x + 4 ≤ i) : (patch1 e d x v)[i]? = d[i]? := by
  unfold patch1
  have hl := enc4_length e v
  rcases ho with ho | ho
  · rw [List.append_assoc, List.getElem?_append, if_pos (by simp; omega), List.getElem?_take, if_pos ho]
  · rw [List.getElem?_append, if_neg (by simp; omega), List.getElem?_drop]
    congr 1
    simp; omega

theorem wordAt_patch1_self (e : Endian) (d : Bytes) (x v : Nat) (h : x + 4 ≤ d.length)
    (hv : v < 2 ^ 32) : wordAt e (patch1 e d x v) x = some v := by
  unfold patch1
  have := wordAt_append_right e (d.take x) (e.enc 4 v ++ d.drop (x + 4)) 0
  rw [List.length_take, Nat.min_eq_left (by omega), Nat.add_zero, wordAt_enc e v _ hv] at this
  rw [List.append_assoc]; exact this

theorem wordAt_patch1_other (e : Endian) (d : Bytes) (x v y : Nat) (h : x + 4 ≤ d.length)
    (hy : y + 4 ≤ d.length) (hd : x + 4 ≤ y ∨ y + 4 ≤ x) :
    wordAt e (patch1 e d x v) y = wordAt e d y := by
  apply wordAt_congr e (by rw [length_patch1 e d x v h]; exact hy) hy
  intro j hj
  apply getElem?_patch1_outside e d x v _ h
  omega

theorem length_patchWords (e : Endian) : ∀ (ws : List (Nat × Nat)) (d : Bytes),
    (∀ w ∈ ws, w.1 + 4 ≤ d.length) → (patchWords e d ws).length = d.length := by
  intro ws
  induction ws with
  | nil => intro d _; rfl
  | cons w ws ih =>
    intro d h
    rw [patchWords_cons]
    have hw := h w (by simp)
    have hl := length_patch1 e d w.1 w.2 hw
    rw [ih _ (by intro w' hw'; rw [hl]; exact h w' (by simp [hw'])), hl]

theorem getElem?_patchWords_outside (e : Endian) : ∀ (ws : List (Nat × Nat)) (d : Bytes) (i : Nat),
    (∀ w ∈ ws, w.1 + 4 ≤ d.length) → (∀ w ∈ ws, i < w.1 ∨ w.1 + 4 ≤ i) →
    (patchWords e d ws)[i]? = d[i]? := by
  intro ws
  induction ws with
  | nil => intro d i _ _; rfl
  | cons w ws ih =>
    intro d i h ho
    rw [patchWords_cons]
    have hw := h w (by simp)
    have hl := length_patch1 e d w.1 w.2 hw
    rw [ih _ i (by intro w' hw'; rw [hl]; exact h w' (by simp [hw']))
      (by intro w' hw'; exact ho w' (by simp [hw']))]
    exact getElem?_patch1_outside e d w.1 w.2 i hw (ho w (by simp))

theorem wordAt_patchWords_other (e : Endian) (ws : List (Nat × Nat)) (d : Bytes) (y : Nat)
    (h : ∀ w ∈ ws, w.1 + 4 ≤ d.length) (hy : y + 4 ≤ d.length)
    (hd : ∀ w ∈ ws, w.1 + 4 ≤ y ∨ y + 4 ≤ w.1) :
    wordAt e (patchWords e d ws) y = wordAt e d y := by
  apply wordAt_congr e (by rw [length_patchWords e ws d h]; exact hy) hy
  intro j hj
  apply getElem?_patchWords_outside e ws d _ h
  intro w hw
  have := hd w hw
  omega

/-- After patching pairwise disjoint cells, every patched cell holds its word. -/
theorem wordAt_patchWords_mem (e : Endian) : ∀ (ws : List (Nat × Nat)) (d : Bytes) (w : Nat × Nat),
    (∀ w ∈ ws, w.1 + 4 ≤ d.length) →
    ws.Pairwise (fun a b => a.1 + 4 ≤ b.1 ∨ b.1 + 4 ≤ a.1) → w ∈ ws → w.2 < 2 ^ 32 →
    wordAt e (patchWords e d ws) w.1 = some w.2 := by
  intro ws
  induction ws with
  | nil => intro _ _ _ _ h; cases h
  | cons w0 ws ih =>
    intro d w h hp hm hv
    rw [patchWords_cons]
    have hw0 := h w0 (by simp)
    have hl := length_patch1 e d w0.1 w0.2 hw0
    have h' : ∀ w' ∈ ws, w'.1 + 4 ≤ (patch1 e d w0.1 w0.2).length := by
      intro w' hw'; rw [hl]; exact h w' (by simp [hw'])
    rw [List.pairwise_cons] at hp
    rcases List.mem_cons.mp hm with rfl | hm'
    · rw [wordAt_patchWords_other e ws _ w.1 h' (by rw [hl]; exact hw0)
        (by intro w' hw'; have := hp.1 w' hw'; omega)]
      exact wordAt_patch1_self e d w.1 w.2 hw0 hv
    · exact ih _ w h' hp.2 hm' hv

/-! ### NUL-terminated strings -/

theorem strAt_append_right (a f : Bytes) (pos : Nat) (b : Bytes) :
    StrAt (a ++ f) (a.length + pos) b ↔ StrAt f pos b := by
  unfold StrAt
  rw [List.drop_append, Nat.add_sub_cancel_left]
  have : List.drop (a.length + pos) a = [] := by apply List.drop_eq_nil_of_le; omega
  rw [this, List.nil_append]

theorem strAt_zero (b rest : Bytes) : StrAt (b ++ 0 :: rest) 0 b := by
  unfold StrAt
  rw [List.drop_zero, show b ++ 0 :: rest = (b ++ [0]) ++ rest by simp, List.take_append]
  have hl : (b ++ [0]).length = b.length + 1 := by simp
  rw [hl, Nat.sub_self, List.take_zero, List.append_nil]
  exact List.take_of_length_le (by omega)

/-- `cstrBytes` reads exactly the string that sits NUL-terminated at the position. -/
theorem cstrBytes_of_strAt : ∀ (b f : Bytes), (0 : UInt8) ∉ b → (f.take (b.length + 1) = b ++ [0]) →
    BinArchive.cstrBytes f = some b := by
  intro b
  induction b with
  | nil =>
    intro f _ h
    cases f with
    | nil => simp at h
    | cons x xs => simp at h; simp [BinArchive.cstrBytes, h]
  | cons y ys ih =>
    intro f hn h
    cases f with
    | nil => simp at h
    | cons x xs =>
      simp only [List.length_cons, List.take_succ_cons, List.cons_append, List.cons.injEq] at h
      obtain ⟨rfl, h⟩ := h
      have hx : x ≠ 0 := by intro e; apply hn; simp [e]
      have hn' : (0 : UInt8) ∉ ys := by intro e; apply hn; simp [e]
      simp [BinArchive.cstrBytes, hx, ih xs hn' h]

end Mila.Ser
