/-
C19 glue: `decode_rgba_pixel_data` and `decode_pixel_data` on the property's domain (allocation
plus walk), for both arithmetic profiles.
-/
import MilaModel.Lemmas.PixelTile
import MilaModel.Lemmas.PixelEtc

namespace Mila.Pixel
open Spec.Morton

theorem allocBmp_ok (p : Profile) (w h : Nat) (hw : w < 2 ^ 16) (hh : h < 2 ^ 16) :
    allocBmp p w h = .ok (Buf.zeros (4 * (w * h))) := by
  have h1 : w * h < 2 ^ 32 := by
    have := Nat.mul_lt_mul'' hw hh
    simpa [← Nat.pow_add] using this
  have h2 : w * h < 2 ^ 64 := by omega
  have h3 : 4 * (w * h) < 2 ^ 64 := by omega
  have h4 : 4 * (w * h) < allocLimit := by unfold allocLimit; omega
  simp [allocBmp, Etc1.mulN_ok p h2, Etc1.mulN_ok p h3, h4]

/-- `decode_rgba_pixel_data` on textures whose sides are multiples of 8, with a payload of exactly
`texelBytes` bytes per pixel: every pixel is the colour of the texel at its Z-order offset. -/
theorem decodeRgba_ok (p : Profile) (data : Buf) (w h fmt : Nat) (hf : FixedFmt fmt)
    (hw : w % 8 = 0) (hh : h % 8 = 0) (hwb : w < 2 ^ 16) (hhb : h < 2 ^ 16)
    (hd : data.size = texelBytes fmt * (w * h)) :
    ∃ bmp, decodeRgba p data w h fmt = .ok bmp ∧ bmp.size = 4 * (h * w) ∧
      ∀ X Y c, X < w → Y < h → c < 4 → bmp.getD ((Y * w + X) * 4 + c) 0 = expByte data w fmt X Y c := by
  have hd' : data.size = (h / 8 * (w / 8) * 64) * texelBytes fmt := by
    rw [hd, Nat.mul_comm (texelBytes fmt)]
    congr 1
    have e1 : w = w / 8 * 8 := by omega
    have e2 : h = h / 8 * 8 := by omega
    calc w * h = (w / 8 * 8) * (h / 8 * 8) := by rw [← e1, ← e2]
      _ = h / 8 * (w / 8) * 64 := by
        rw [Nat.mul_mul_mul_comm, Nat.mul_comm (w / 8) (h / 8)]
  obtain ⟨s', hs', hsz, hpx⟩ := walk_ok hf hw hh hd' (Buf.zeros (4 * (w * h)))
    (by simp [Buf.zeros, Nat.mul_comm w h])
  refine ⟨s'.2, ?_, hsz, hpx⟩
  simp only [decodeRgba, allocBmp_ok p w h hwb hhb, Res.bind_ok, hs', Res.pure_eq]

theorem decodePixelData_tiled (p : Profile) (data : Buf) (w h fmt : Nat) (hf : fmt ≤ 11) :
    decodePixelData p data w h fmt = decodeRgba p data w h fmt := by
  simp [decodePixelData, hf]

theorem decodePixelData_etc (p : Profile) (data : Buf) (w h fmt : Nat) (hf : fmt = 12 ∨ fmt = 13) :
    decodePixelData p data w h fmt = Etc1.decode p data w h (decide (fmt = 13)) := by
  have : ¬ fmt ≤ 11 := by omega
  simp [decodePixelData, this, hf]

end Mila.Pixel
