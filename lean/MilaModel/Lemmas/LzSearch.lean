/-
The match search `get_occurrence_length` (model: `matchLen`, `occLoop`, `occurrence`):
soundness (what a returned `(len, disp)` guarantees), absence of panics under the call
precondition, and completeness (a candidate matching the whole look-ahead is found).
-/
import MilaModel.Model.Lz

namespace Mila.Lz

/-- Result of the inner comparison loop. -/
theorem matchLen_spec (x : BA) (a b : Nat) :
    ∀ (k j r : Nat), matchLen x a b k j = some r →
      j ≤ r ∧ r ≤ j + k ∧
      (∀ i, j ≤ i → i < r → a + i < x.size ∧ b + i < x.size ∧ x[a + i]? = x[b + i]?) ∧
      (r < j + k → x[a + r]? ≠ x[b + r]?) := by
  intro k
  induction k with
  | zero =>
    intro j r h
    simp [matchLen] at h
    subst h
    exact ⟨Nat.le_refl _, Nat.le_refl _, fun i h1 h2 => by omega, fun h => by omega⟩
  | succ k ih =>
    intro j r h
    rw [matchLen] at h
    split at h
    · rename_i h1
      split at h
      · rename_i h2
        split at h
        · rename_i hne
          simp at h; subst h
          refine ⟨Nat.le_refl _, by omega, fun i h1 h2 => by omega, fun _ => ?_⟩
          simp [h1, h2]
          simpa using hne
        · rename_i heq
          have heq' : x[a + j] = x[b + j] := by simpa using heq
          obtain ⟨q1, q2, q3, q4⟩ := ih (j + 1) r h
          refine ⟨by omega, by omega, ?_, fun hlt => q4 (by omega)⟩
          intro i hi1 hi2
          by_cases hij : i = j
          · subst hij
            exact ⟨h1, h2, by simp [h1, h2, heq']⟩
          · exact q3 i (by omega) hi2
      · simp at h
    · simp at h

/-- The inner loop does not index out of bounds when both windows lie inside the data. -/
theorem matchLen_some (x : BA) (a b : Nat) :
    ∀ (k j : Nat), a + j + k ≤ x.size → b + j + k ≤ x.size → ∃ r, matchLen x a b k j = some r := by
  intro k
  induction k with
  | zero => intro j _ _; exact ⟨j, by simp [matchLen]⟩
  | succ k ih =>
    intro j ha hb
    rw [matchLen]
    have h1 : a + j < x.size := by omega
    have h2 : b + j < x.size := by omega
    simp only [h1, h2, ↓reduceDIte]
    split
    · exact ⟨j, rfl⟩
    · exact ih (j + 1) (by omega) (by omega)

/-- What the running maximum `(disp, maxLen)` of the candidate loop guarantees. -/
def Found (x : BA) (newPtr newLen oldEnd oldLen : Nat) (len disp : Nat) : Prop :=
  len = 0 ∨ (2 ≤ disp ∧ disp ≤ oldLen ∧ len ≤ newLen ∧
    ∀ j, j < len → oldEnd - disp + j < x.size ∧ newPtr + j < x.size ∧
      x[oldEnd - disp + j]? = x[newPtr + j]?)

theorem occLoop_spec (x : BA) (newPtr newLen oldPtr oldLen : Nat)
    (hpre1 : oldPtr + oldLen ≤ newPtr) (hpre2 : newPtr + newLen ≤ x.size) :
    ∀ (k i disp maxLen : Nat), i + k = oldLen - 1 → 1 ≤ oldLen →
      Found x newPtr newLen (oldPtr + oldLen) oldLen maxLen disp →
      ∃ len d, occLoop x newPtr newLen oldPtr oldLen k i disp maxLen = .ok (len, d) ∧
        Found x newPtr newLen (oldPtr + oldLen) oldLen len d := by
  intro k
  induction k with
  | zero => intro i disp maxLen _ _ hf; exact ⟨maxLen, disp, by simp [occLoop], hf⟩
  | succ k ih =>
    intro i disp maxLen hik hol hf
    rw [occLoop]
    obtain ⟨cur, hcur⟩ := matchLen_some x (oldPtr + i) newPtr newLen 0 (by omega) (by omega)
    obtain ⟨_, c2, c3, _⟩ := matchLen_spec x (oldPtr + i) newPtr newLen 0 cur hcur
    have hnew : Found x newPtr newLen (oldPtr + oldLen) oldLen cur (oldLen - i) := by
      right
      refine ⟨by omega, by omega, by omega, ?_⟩
      intro j hj
      have := c3 j (by omega) hj
      have he : oldPtr + oldLen - (oldLen - i) + j = oldPtr + i + j := by omega
      rw [he]
      exact this
    simp only [hcur]
    split
    · split
      · exact ⟨cur, oldLen - i, rfl, hnew⟩
      · exact ih (i + 1) _ _ (by omega) hol hnew
    · exact ih (i + 1) _ _ (by omega) hol hf

/-- Soundness of `get_occurrence_length` under the call precondition of both compressors. -/
theorem occurrence_spec (x : BA) (newPtr newLen oldPtr oldLen : Nat)
    (hpre1 : oldPtr + oldLen ≤ newPtr) (hpre2 : newPtr + newLen ≤ x.size) :
    ∃ len d, occurrence x newPtr newLen oldPtr oldLen = .ok (len, d) ∧
      Found x newPtr newLen (oldPtr + oldLen) oldLen len d := by
  unfold occurrence
  split
  · exact ⟨0, 0, rfl, Or.inl rfl⟩
  · rename_i h
    exact occLoop_spec x newPtr newLen oldPtr oldLen hpre1 hpre2 (oldLen - 1) 0 0 0 (by omega) (by omega)
      (Or.inl rfl)

/-! ### completeness -/

theorem occLoop_complete (x : BA) (newPtr newLen oldPtr oldLen : Nat) (i0 : Nat)
    (hfull : matchLen x (oldPtr + i0) newPtr newLen 0 = some newLen) :
    ∀ (k i disp maxLen len d : Nat), i ≤ i0 → i0 < i + k → maxLen < newLen →
      occLoop x newPtr newLen oldPtr oldLen k i disp maxLen = .ok (len, d) → len = newLen := by
  intro k
  induction k with
  | zero => intro i disp maxLen len d h1 h2; omega
  | succ k ih =>
    intro i disp maxLen len d h1 h2 hm h
    rw [occLoop] at h
    by_cases hi : i = i0
    · subst hi
      simp only [hfull] at h
      simp [hm] at h
      exact h.1.symm
    · split at h
      · simp at h
      · rename_i cur hcur
        split at h
        · split at h
          · rename_i hc; simp at h; omega
          · rename_i hgt hne
            have hle : cur ≤ newLen := by
              have := (matchLen_spec x (oldPtr + i) newPtr newLen 0 cur hcur).2.1; omega
            exact ih (i + 1) _ _ len d (by omega) (by omega) (by omega) h
        · exact ih (i + 1) _ _ len d (by omega) (by omega) hm h

end Mila.Lz
