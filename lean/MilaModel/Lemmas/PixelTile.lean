/-
C19: the tile walk of `decode_rgba_pixel_data` puts the texel with Z-order offset
`tileOffset w x y` at pixel `(x, y)` — for every width and height that are multiples of 8
(in particular every power of two from 8 up), by an invariant over the three nested loops.
-/
import MilaModel.Lemmas.PixelLoops
import MilaModel.Spec.Morton

namespace Mila.Pixel
open Spec.Morton

/-- Bytes per texel of the formats whose texels have a fixed whole number of bytes and are read
without seeking back (all formats of the property; not RGB8 = 1, L4 = 10, A4 = 11). -/
def texelBytes : Nat → Nat
  | 0 => 4
  | 2 | 3 | 4 | 5 => 2
  | 6 | 7 | 8 | 9 => 1
  | _ => 0

def FixedFmt (fmt : Nat) : Prop := fmt = 0 ∨ fmt = 2 ∨ fmt = 3 ∨ fmt = 4 ∨ fmt = 5 ∨ fmt = 6 ∨ fmt = 7 ∨ fmt = 8 ∨ fmt = 9

theorem readTexel_fixed {data : Buf} {pos fmt : Nat} (hf : FixedFmt fmt)
    (hp : pos + texelBytes fmt ≤ data.size) :
    readTexel data pos fmt = .ok (data.leN pos (texelBytes fmt), pos + texelBytes fmt) := by
  rcases hf with h | h | h | h | h | h | h | h | h <;> subst h <;>
    simp [readTexel, texelBytes, Buf.readLE] at hp ⊢ <;> simp [hp] <;> rfl

/-- `TILE_ORDER[p]` is the row-major position of the texel with Z-order index `p`. -/
theorem tile_entry : ∀ p, p < 64 →
    TILE_ORDER.getD p 0 % 8 < 8 ∧ (TILE_ORDER.getD p 0 - TILE_ORDER.getD p 0 % 8) / 8 < 8 ∧
    interleave (TILE_ORDER.getD p 0 % 8) ((TILE_ORDER.getD p 0 - TILE_ORDER.getD p 0 % 8) / 8) = p := by
  decide

/-- `interleave` is a bijection from 8×8 onto 0..63 with inverse `(mortonX, mortonY)`. -/
theorem interleave_inv : ∀ a, a < 8 → ∀ b, b < 8 →
    interleave a b < 64 ∧ mortonX (interleave a b) = a ∧ mortonY (interleave a b) = b := by
  decide

/-- The byte the decoder must leave at channel `c` of pixel `(X, Y)`. -/
def expByte (data : Buf) (w fmt X Y c : Nat) : UInt8 :=
  chanByte (decodeColor (data.leN (tileOffset w X Y * texelBytes fmt) (texelBytes fmt)) fmt) c

/-- Pixel `(X, Y)` is written before the step `(ty, tx, p)` of the walk. -/
def Before (ty tx p X Y : Nat) : Prop :=
  Y / 8 < ty ∨ (Y / 8 = ty ∧ (X / 8 < tx ∨ (X / 8 = tx ∧ interleave (X % 8) (Y % 8) < p)))

structure Inv (data : Buf) (w h fmt ty tx p : Nat) (s : Nat × Buf) : Prop where
  pos : s.1 = ((ty * (w / 8) + tx) * 64 + p) * texelBytes fmt
  size : s.2.size = 4 * (h * w)
  px : ∀ X Y c, X < w → Y < h → c < 4 → Before ty tx p X Y →
    s.2.getD ((Y * w + X) * 4 + c) 0 = expByte data w fmt X Y c

theorem step_ok {data : Buf} {w h fmt ty tx p : Nat} (hf : FixedFmt fmt)
    (hw : w % 8 = 0) (hh : h % 8 = 0) (hd : data.size = (h / 8 * (w / 8) * 64) * texelBytes fmt)
    (hty : ty < h / 8) (htx : tx < w / 8) (hp : p < 64) (s : Nat × Buf)
    (inv : Inv data w h fmt ty tx p s) :
    ∃ s', rgbaStep data w fmt ty tx p s = .ok s' ∧ Inv data w h fmt ty tx (p + 1) s' := by
  obtain ⟨hx8, hy8, hint⟩ := tile_entry p hp
  generalize hxdef : TILE_ORDER.getD p 0 % 8 = x at hx8 hy8 hint
  generalize hydef : (TILE_ORDER.getD p 0 - x) / 8 = y at hy8 hint
  -- the flat texel counter stays inside the payload
  have hk : (ty * (w / 8) + tx) * 64 + p + 1 ≤ h / 8 * (w / 8) * 64 := by
    have : (ty + 1) * (w / 8) ≤ h / 8 * (w / 8) := Nat.mul_le_mul_right _ hty
    rw [Nat.succ_mul] at this
    omega
  have hread : s.1 + texelBytes fmt ≤ data.size := by
    rw [inv.pos, hd, ← Nat.succ_mul]
    exact Nat.mul_le_mul_right _ hk
  -- the written pixel
  have hX : tx * 8 + x < w := by omega
  have hY : ty * 8 + y < h := by omega
  have hidx := idx_lt hX hY
  have hwrite : (tx * 8 + x + (ty * 8 + y) * w) * 4 + 4 ≤ s.2.size := by rw [inv.size]; omega
  obtain ⟨bmp', hw4, hsz, hget⟩ := write4_spec s.2 ((tx * 8 + x + (ty * 8 + y) * w) * 4)
    (decodeColor (data.leN s.1 (texelBytes fmt)) fmt) hwrite
  refine ⟨(s.1 + texelBytes fmt, bmp'), ?_, ?_, ?_, ?_⟩
  · simp only [rgbaStep, hxdef, hydef, readTexel_fixed hf hread, hw4]
  · show s.1 + texelBytes fmt = _
    rw [inv.pos, ← Nat.succ_mul]
    rfl
  · show bmp'.size = _
    rw [hsz, inv.size]
  · intro X Y c hXw hYh hc hbef
    show bmp'.getD _ 0 = _
    rw [hget]
    by_cases hsame : X = tx * 8 + x ∧ Y = ty * 8 + y
    · obtain ⟨rfl, rfl⟩ := hsame
      have hin : (tx * 8 + x + (ty * 8 + y) * w) * 4 ≤ ((ty * 8 + y) * w + (tx * 8 + x)) * 4 + c ∧
          ((ty * 8 + y) * w + (tx * 8 + x)) * 4 + c < (tx * 8 + x + (ty * 8 + y) * w) * 4 + 4 := by omega
      rw [if_pos hin]
      have hsub : ((ty * 8 + y) * w + (tx * 8 + x)) * 4 + c - (tx * 8 + x + (ty * 8 + y) * w) * 4 = c := by omega
      have hto : tileOffset w (tx * 8 + x) (ty * 8 + y) = (ty * (w / 8) + tx) * 64 + p := by
        unfold tileOffset
        have h1 : (ty * 8 + y) / 8 = ty := by omega
        have h2 : (tx * 8 + x) / 8 = tx := by omega
        have h3 : (tx * 8 + x) % 8 = x := by omega
        have h4 : (ty * 8 + y) % 8 = y := by omega
        rw [h1, h2, h3, h4, hint]
      rw [hsub, expByte, hto, inv.pos]
    · have hne : Y * w + X ≠ (ty * 8 + y) * w + (tx * 8 + x) := by
        intro heq
        have := idx_inj hXw hX heq
        omega
      have hout : ¬ ((tx * 8 + x + (ty * 8 + y) * w) * 4 ≤ (Y * w + X) * 4 + c ∧
          (Y * w + X) * 4 + c < (tx * 8 + x + (ty * 8 + y) * w) * 4 + 4) := by omega
      rw [if_neg hout]
      apply inv.px X Y c hXw hYh hc
      -- (X, Y) was due before step p + 1 and is not the pixel of step p: it was due before step p
      rcases hbef with hb | ⟨hb1, hb | ⟨hb2, hb3⟩⟩
      · exact Or.inl hb
      · exact Or.inr ⟨hb1, Or.inl hb⟩
      · refine Or.inr ⟨hb1, Or.inr ⟨hb2, ?_⟩⟩
        have hlt : interleave (X % 8) (Y % 8) ≠ p := by
          intro heq
          obtain ⟨_, hmx, hmy⟩ := interleave_inv (X % 8) (by omega) (Y % 8) (by omega)
          obtain ⟨_, hmx', hmy'⟩ := interleave_inv x hx8 y hy8
          rw [heq] at hmx hmy
          rw [hint] at hmx' hmy'
          apply hsame
          constructor <;> omega
        omega

/-- The whole walk: every pixel holds the colour of the texel at its Z-order offset. -/
theorem walk_ok {data : Buf} {w h fmt : Nat} (hf : FixedFmt fmt)
    (hw : w % 8 = 0) (hh : h % 8 = 0) (hd : data.size = (h / 8 * (w / 8) * 64) * texelBytes fmt)
    (bmp : Buf) (hb : bmp.size = 4 * (h * w)) :
    ∃ s', forRange (h / 8) (fun tile_y st =>
        forRange (w / 8) (fun tile_x st =>
          forRange 64 (fun pixel st => rgbaStep data w fmt tile_y tile_x pixel st) st) st) (0, bmp) = .ok s' ∧
      s'.2.size = 4 * (h * w) ∧
      ∀ X Y c, X < w → Y < h → c < 4 → s'.2.getD ((Y * w + X) * 4 + c) 0 = expByte data w fmt X Y c := by
  have outer := forRange_inv
    (fun tile_y st => forRange (w / 8) (fun tile_x st =>
      forRange 64 (fun pixel st => rgbaStep data w fmt tile_y tile_x pixel st) st) st)
    (fun ty s => Inv data w h fmt ty 0 0 s) (h / 8) (0, bmp)
    ⟨by simp, hb, by intro X Y c _ _ _ hbef; unfold Before at hbef; omega⟩
    (by
      intro ty s hty inv
      have mid := forRange_inv
        (fun tile_x st => forRange 64 (fun pixel st => rgbaStep data w fmt ty tile_x pixel st) st)
        (fun tx s => Inv data w h fmt ty tx 0 s) (w / 8) s inv
        (by
          intro tx s htx inv
          have inner := forRange_inv (fun pixel st => rgbaStep data w fmt ty tx pixel st)
            (fun p s => Inv data w h fmt ty tx p s) 64 s inv
            (fun p s hp inv => step_ok hf hw hh hd hty htx hp s inv)
          obtain ⟨s', hs', inv'⟩ := inner
          refine ⟨s', hs', ?_, inv'.size, ?_⟩
          · have e : (ty * (w / 8) + tx) * 64 + 64 = (ty * (w / 8) + (tx + 1)) * 64 + 0 := by omega
            rw [inv'.pos, e]
          · intro X Y c hX hY hc hbef
            apply inv'.px X Y c hX hY hc
            unfold Before at hbef ⊢
            have : interleave (X % 8) (Y % 8) < 64 := (interleave_inv _ (by omega) _ (by omega)).1
            omega)
      obtain ⟨s', hs', inv'⟩ := mid
      refine ⟨s', hs', ?_, inv'.size, ?_⟩
      · have e : (ty * (w / 8) + w / 8) * 64 + 0 = ((ty + 1) * (w / 8) + 0) * 64 + 0 := by
          rw [Nat.succ_mul]; rfl
        rw [inv'.pos, e]
      · intro X Y c hX hY hc hbef
        apply inv'.px X Y c hX hY hc
        unfold Before at hbef ⊢
        have : X / 8 < w / 8 := by omega
        omega)
  obtain ⟨s', hs', inv'⟩ := outer
  refine ⟨s', hs', inv'.size, ?_⟩
  intro X Y c hX hY hc
  apply inv'.px X Y c hX hY hc
  unfold Before
  have : Y / 8 < h / 8 := by omega
  omega

end Mila.Pixel
