/- Path strings: the specification's domain (`Spec.Overlay.locOf`) against the model's path walk
(`LayeredFs.parsePath`).  Used by C12 / C13. -/
import MilaModel.Model.LayeredFs
import MilaModel.Spec.OverlayFs
import MilaModel.Lemmas.Split

namespace Mila.LayeredFs
open Mila.Localize (slash dot)

theorem plain_not_skipped {c : Bytes} (h : Spec.Loc.Plain c) : isSkipped c = false := by
  obtain ⟨hne, _, hdot, _⟩ := h
  cases c with
  | nil => exact absurd rfl hne
  | cons x xs =>
    have : (x :: xs) ≠ [dot] := hdot
    simp only [isSkipped, List.isEmpty_cons, Bool.false_or, beq_eq_false_iff_ne, ne_eq]
    exact this

theorem filter_plain (cs : List Bytes) (h : ∀ c ∈ cs, Spec.Loc.Plain c) :
    cs.filter (fun c => !isSkipped c) = cs := by
  apply List.filter_eq_self.mpr
  intro c hc
  simp [plain_not_skipped (h c hc)]

theorem parsePath_nil : parsePath [] = ⟨[], true⟩ := by
  simp [parsePath, splitOn', isSkipped]

/-- On the specification's domain the model's path walk yields exactly the location the
specification assigns to the string. -/
theorem parsePath_of_locOf {p : Bytes} {q : Spec.Overlay.Loc} (h : Spec.Overlay.locOf p = some q) :
    parsePath p = ⟨q.comps, q.dirOnly⟩ := by
  unfold Spec.Overlay.locOf at h
  by_cases hp : p = []
  · subst hp
    simp at h
    subst h
    exact parsePath_nil
  · simp only [hp, if_false] at h
    have hsl : Spec.Overlay.slash = slash := rfl
    rw [hsl] at h
    generalize hpieces : splitOn' slash p = pieces at h
    by_cases htr : pieces.length ≥ 2 ∧ pieces.getLast? = some []
    · simp only [htr, and_self, if_true] at h
      by_cases hall : (pieces.dropLast.all fun c => decide (Spec.Loc.Plain c)) = true
      · simp only [hall, if_true, Option.some.injEq] at h
        subst h
        obtain ⟨ys, hys⟩ := List.getLast?_eq_some_iff.mp htr.2
        have hdl : pieces.dropLast = ys := by simp [hys]
        have hpl : ∀ c ∈ ys, Spec.Loc.Plain c := by
          intro c hc
          have := List.all_eq_true.mp hall c (hdl ▸ hc)
          simpa using this
        unfold parsePath
        simp only [hpieces, hdl]
        rw [hys, List.filter_append, filter_plain ys hpl]
        simp [isSkipped]
      · simp [hall] at h
    · simp only [htr, if_false] at h
      by_cases hall : (pieces.all fun c => decide (Spec.Loc.Plain c)) = true
      · simp only [hall, if_true, Option.some.injEq] at h
        subst h
        have hpl : ∀ c ∈ pieces, Spec.Loc.Plain c := by
          intro c hc
          have := List.all_eq_true.mp hall c hc
          simpa using this
        have hne : pieces ≠ [] := hpieces ▸ splitOn'_ne_nil slash p
        unfold parsePath
        simp only [hpieces, filter_plain pieces hpl]
        cases hl : pieces.getLast? with
        | none => simp at hl; exact absurd hl hne
        | some c =>
          have hc : c ∈ pieces := List.mem_of_getLast? hl
          simp [plain_not_skipped (hpl c hc)]
      · simp [hall] at h

/-- Components of a location of the domain are plain. -/
theorem plain_of_locOf {p : Bytes} {q : Spec.Overlay.Loc} (h : Spec.Overlay.locOf p = some q) :
    ∀ c ∈ q.comps, Spec.Loc.Plain c := by
  unfold Spec.Overlay.locOf at h
  by_cases hp : p = []
  · subst hp; simp at h; subst h; simp
  · simp only [hp, if_false] at h
    generalize splitOn' Spec.Overlay.slash p = pieces at h
    by_cases htr : pieces.length ≥ 2 ∧ pieces.getLast? = some []
    · simp only [htr, and_self, if_true] at h
      by_cases hall : (pieces.dropLast.all fun c => decide (Spec.Loc.Plain c)) = true
      · simp only [hall, if_true, Option.some.injEq] at h
        subst h
        intro c hc
        simpa using List.all_eq_true.mp hall c hc
      · simp [hall] at h
    · simp only [htr, if_false] at h
      by_cases hall : (pieces.all fun c => decide (Spec.Loc.Plain c)) = true
      · simp only [hall, if_true, Option.some.injEq] at h
        subst h
        intro c hc
        simpa using List.all_eq_true.mp hall c hc
      · simp [hall] at h

/-- A rendered path of plain components is in the domain and denotes those components. -/
theorem locOf_render (cs : List Bytes) (hne : cs ≠ []) (h : ∀ c ∈ cs, Spec.Loc.Plain c) :
    Spec.Overlay.locOf (render cs) = some ⟨cs, false⟩ := by
  have hsplit : splitOn' slash (joinWith slash cs) = cs :=
    splitOn'_joinWith slash cs hne (fun p hp => (h p hp).2.1)
  have hnn : render cs ≠ [] := by
    intro e
    have : splitOn' slash (render cs) = [[]] := by rw [e]; rfl
    rw [show render cs = joinWith slash cs from rfl, hsplit] at this
    subst this
    exact (h [] (by simp)).1 rfl
  unfold Spec.Overlay.locOf
  simp only [hnn, if_false]
  have hsl : Spec.Overlay.slash = slash := rfl
  rw [hsl, show render cs = joinWith slash cs from rfl, hsplit]
  have hlast : ¬ (cs.length ≥ 2 ∧ cs.getLast? = some []) := by
    rintro ⟨_, hl⟩
    exact (h [] (List.mem_of_getLast? hl)).1 rfl
  simp only [hlast, if_false]
  have : (cs.all fun c => decide (Spec.Loc.Plain c)) = true := by
    apply List.all_eq_true.mpr
    intro c hc
    simpa using h c hc
  simp [this]

end Mila.LayeredFs
