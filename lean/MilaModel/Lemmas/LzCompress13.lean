/- `LZ13CompressionFormat::compress` establishes `Post` and never panics (C09). -/
import MilaModel.Lemmas.LzCompress

namespace Mila.Lz
open Mila.Spec.Lz

/-! ### `calculate_lz13_header` is total -/

theorem hdrRun_some (b : BA) (x : Nat) : ∀ (m y : Nat), b.size - y = m → x ≤ y →
    ∃ r, hdrRun b x y = some r ∧ y ≤ r := by
  intro m
  induction m using Nat.strongRecOn with
  | _ m ih =>
    intro y hm hxy
    rw [hdrRun]
    by_cases hy : y < b.size
    · have : ¬ y < x := by omega
      simp only [hy, ↓reduceDIte, this]
      split
      · obtain ⟨r, hr, hle⟩ := ih (b.size - (y + 1)) (by omega) (y + 1) rfl (by omega)
        exact ⟨r, hr, by omega⟩
      · exact ⟨y, rfl, Nat.le_refl _⟩
    · simp only [hy, ↓reduceDIte]
      exact ⟨y, rfl, Nat.le_refl _⟩

theorem hdrCand_some (b : BA) (sp : Nat) : ∀ (x length : Nat), x ≤ sp → (length = 1 ∨ 3 ≤ length) →
    ∃ l, hdrCand b sp x length = some l ∧ (l = 1 ∨ 3 ≤ l) := by
  intro x
  induction x using Nat.strongRecOn with
  | _ x ih =>
    intro length hx hl
    rw [hdrCand]
    by_cases h2 : x ≥ 2
    · simp only [h2, ↓reduceIte]
      obtain ⟨r, hr, _⟩ := hdrRun_some b x _ sp rfl hx
      simp only [hr]
      apply ih (x - 1) (by omega) _ (by omega)
      split <;> omega
    · simp only [h2, ↓reduceIte]
      exact ⟨length, rfl, hl⟩

theorem hdrLoop_ok (b : BA) : ∀ (m sp : Nat) (maxLead bufLen : Int) (fc : Nat), b.size - sp = m →
    ∃ l, hdrLoop b sp maxLead bufLen fc = .ok l := by
  intro m
  induction m using Nat.strongRecOn with
  | _ m ih =>
    intro sp maxLead bufLen fc hm
    rw [hdrLoop]
    by_cases hsp : sp < b.size
    · simp only [hsp, ↓reduceDIte]
      obtain ⟨l, hl, hl13⟩ := hdrCand_some b sp (min sp 4096) 1 (by omega) (Or.inl rfl)
      simp only [hl]
      by_cases h1 : l = 1
      · simp only [h1, ↓reduceIte]
        split
        · exact ih (b.size - (sp + 1)) (by omega) _ _ _ _ rfl
        · exact ih (b.size - (sp + 1)) (by omega) _ _ _ _ rfl
      · have h2 : ¬ l ≤ 2 := by omega
        simp only [h1, ↓reduceIte, h2]
        split
        · exact ih (b.size - (sp + l)) (by omega) _ _ _ _ rfl
        · exact ih (b.size - (sp + l)) (by omega) _ _ _ _ rfl
    · simp only [hsp, ↓reduceDIte]
      exact ⟨_, rfl⟩

theorem lz13Header_ok (b : BA) : ∃ l, lz13Header b = .ok l := hdrLoop_ok b _ 0 0 9 0 rfl

/-! ### token bytes -/

theorem tokBytes11_len (t : Tok) : (tokBytes true t).length ≤ 4 := by
  cases t with
  | lit b => simp [tokBytes]
  | ref len disp => simp [tokBytes]; split <;> (try split) <;> simp

theorem andF0_nat' (v : Nat) : andF0 ((v : Int) * 16) = UInt8.ofNat (16 * (v % 16)) := by
  unfold andF0
  have : ((v : Int) * 16 % 256 / 16 * 16) = ((16 * (v % 16) : Nat) : Int) := by omega
  rw [this, Int.toNat_natCast]

/-- lz13.rs:229-233, lengths 3..16. -/
theorem emit13a (len disp : Nat) (h3 : 3 ≤ len) (h16 : len ≤ 16) (hd1 : 1 ≤ disp) (hd2 : disp ≤ 4096) :
    [andF0 (((len : Int) - 1) * 16) ||| and0F (((disp - 1 : Nat) : Int) / 256),
      andFF ((disp - 1 : Nat) : Int)] = tokBytes true (.ref len disp) := by
  have e1 : ((len : Int) - 1) = ((len - 1 : Nat) : Int) := by omega
  have e2 : (((disp - 1 : Nat) : Int) / 256) = (((disp - 1) / 256 : Nat) : Int) := by omega
  rw [e1, e2, andF0_nat _ (by omega), and0F_nat _ (by omega), andFF_nat, or16' _ _ (by omega) (by omega)]
  simp [tokBytes, h16]

/-- lz13.rs:225-227, 231-233, lengths 17..272 (the `i32` value `length - 0x111` is negative). -/
theorem emit13b (len disp : Nat) (h17 : 17 ≤ len) (h272 : len ≤ 272) (hd1 : 1 ≤ disp) (hd2 : disp ≤ 4096) :
    [and0F (((len : Int) - 0x111) / 16),
      andF0 (((len : Int) - 0x111) * 16) ||| and0F (((disp - 1 : Nat) : Int) / 256),
      andFF ((disp - 1 : Nat) : Int)] = tokBytes true (.ref len disp) := by
  have e2 : (((disp - 1 : Nat) : Int) / 256) = (((disp - 1) / 256 : Nat) : Int) := by omega
  have e3 : and0F (((len : Int) - 0x111) / 16) = UInt8.ofNat ((len - 17) / 16) := by
    unfold and0F
    have : (((len : Int) - 0x111) / 16 % 16) = (((len - 17) / 16 : Nat) : Int) := by omega
    rw [this, Int.toNat_natCast]
  have e4 : andF0 (((len : Int) - 0x111) * 16) = UInt8.ofNat (16 * ((len - 17) % 16)) := by
    unfold andF0
    have : (((len : Int) - 0x111) * 16 % 256 / 16 * 16) = ((16 * ((len - 17) % 16) : Nat) : Int) := by omega
    rw [this, Int.toNat_natCast]
  rw [e2, e3, e4, and0F_nat _ (by omega), andFF_nat, or16' _ _ (by omega) (by omega)]
  have : ¬ len ≤ 16 := by omega
  simp [tokBytes, this, h272]

/-- lz13.rs:221-224, 231-233, lengths 273..4096. -/
theorem emit13c (len disp : Nat) (h273 : 273 ≤ len) (h4096 : len ≤ 4096) (hd1 : 1 ≤ disp) (hd2 : disp ≤ 4096) :
    [0x10 ||| and0F (((len : Int) - 0x111) / 4096), andFF (((len : Int) - 0x111) / 16),
      andF0 (((len : Int) - 0x111) * 16) ||| and0F (((disp - 1 : Nat) : Int) / 256),
      andFF ((disp - 1 : Nat) : Int)] = tokBytes true (.ref len disp) := by
  have e1 : ((len : Int) - 0x111) = ((len - 273 : Nat) : Int) := by omega
  have e2 : (((disp - 1 : Nat) : Int) / 256) = (((disp - 1) / 256 : Nat) : Int) := by omega
  have e3 : (((len - 273 : Nat) : Int) / 4096) = (((len - 273) / 4096 : Nat) : Int) := by omega
  have e4 : (((len - 273 : Nat) : Int) / 16) = (((len - 273) / 16 : Nat) : Int) := by omega
  have e5 : (0x10 : UInt8) = UInt8.ofNat (16 * 1) := by decide
  rw [e1, e2, e3, e4, e5, andF0_nat', and0F_nat _ (by omega), and0F_nat _ (by omega), andFF_nat, andFF_nat,
    or16' _ _ (by omega) (by omega), or16' _ _ (by omega) (by omega)]
  have h1 : ¬ len ≤ 16 := by omega
  have h2 : ¬ len ≤ 272 := by omega
  simp [tokBytes, h1, h2]

theorem compress13Loop_post (x : BA) (hdr : Bytes) :
    ∀ (m : Nat) (buf outBuf : BA) (blocks read : Nat), x.size - read = m →
      Inv true 0x1000 hdr x buf outBuf blocks read →
      Post true 0x1000 hdr x (compress13Loop x buf outBuf blocks read) := by
  intro m
  induction m using Nat.strongRecOn with
  | _ m ih =>
    intro buf outBuf blocks read hm hinv
    rw [compress13Loop]
    by_cases hr : read < x.size
    · simp only [hr, ↓reduceDIte]
      obtain ⟨b', o', k', e1, e2, e3, hinv', hk'⟩ :
          ∃ b' o' k', (if blocks = 8 then buf ++ outBuf else buf) = b' ∧
            (if blocks = 8 then (#[0] : BA) else outBuf) = o' ∧
            (if blocks = 8 then 0 else blocks) = k' ∧ Inv true 0x1000 hdr x b' o' k' read ∧ k' < 8 := by
        by_cases h8 : blocks = 8
        · subst h8
          exact ⟨_, _, _, rfl, rfl, rfl, by simpa using inv_flush hinv, by simp⟩
        · have hle : blocks ≤ 8 := by obtain ⟨_, _, _, _, _, _, _, _, _, h6, _⟩ := hinv; exact h6
          exact ⟨_, _, _, rfl, rfl, rfl, by simpa [h8] using hinv, by simp [h8]; omega⟩
      rw [e1, e2, e3]
      obtain ⟨len, disp, hs, hf⟩ := search_spec x 0x1000 read hr
      have hs' : occurrence x read (min (x.size - read) 0x1000) (read - min read 0x1000) (min read 0x1000)
          = .ok (len, disp) := hs
      rw [hs']
      dsimp only
      have hosz := inv_outBuf_size hinv' 4 tokBytes11_len
      by_cases hl : len < 3
      · simp only [hl, ↓reduceIte]
        exact ih (x.size - (read + 1)) (by omega) _ _ _ _ rfl (inv_lit hinv' hk' hr hs hl)
      · simp only [hl, ↓reduceIte]
        rcases hf with hf | ⟨d2, dle, lle, _⟩
        · omega
        · have hnp : ¬ (k' > 7 ∨ disp < 1 ∨ o'.size = 0) := by omega
          simp only [hnp, ↓reduceIte]
          refine ih (x.size - (read + len)) (by omega) _ _ _ _ rfl
            (inv_ref hinv' hk' hr hs (by omega) ?_)
          intro f body hfb
          by_cases hc1 : len > 0x110
          · have hi : ((len : Int) > 0x110) := by omega
            simp only [hi, ↓reduceIte, modifyLast]
            have := emit13c len disp (by omega) (by omega) (by omega) (by omega)
            simp only [Array.toList_push, modify0 o' f body _ hfb, List.append_assoc, List.cons_append,
              List.nil_append, List.cons.injEq, true_and]
            rw [← this]
          · have hi : ¬ ((len : Int) > 0x110) := by omega
            by_cases hc2 : len > 0x10
            · have hi2 : ((len : Int) > 0x10) := by omega
              simp only [hi, hi2, ↓reduceIte, modifyLast]
              have := emit13b len disp (by omega) (by omega) (by omega) (by omega)
              simp only [Array.toList_push, modify0 o' f body _ hfb, List.append_assoc, List.cons_append,
                List.nil_append, List.cons.injEq, true_and]
              rw [← this]
            · have hi2 : ¬ ((len : Int) > 0x10) := by omega
              simp only [hi, hi2, ↓reduceIte, modifyLast]
              have := emit13a len disp (by omega) (by omega) (by omega) (by omega)
              simp only [Array.toList_push, modify0 o' f body _ hfb, List.append_assoc, List.cons_append,
                List.nil_append, List.cons.injEq, true_and]
              rw [← this]
    · simp only [hr, ↓reduceDIte]
      exact inv_final hinv hr

/-- `compress13` returns the 4-byte `0x13` wrapper followed by `header ++ groups` for the greedy
token sequence of the whole input; in particular it is `ok` (no error, no panic). -/
theorem compress13_post (x : BA) (hx : x.size < 2 ^ 24) :
    ∃ l0 l1 l2 : UInt8,
      Post true 0x1000 (0x13 :: l0 :: l1 :: l2 :: header true x.size) x (compress13 x).1 := by
  obtain ⟨l, hl⟩ := lz13Header_ok x
  unfold compress13
  simp only [hl]
  refine ⟨UInt8.ofNat (l % 256), UInt8.ofNat (l / 256 % 256), UInt8.ofNat (l / 65536 % 256), ?_⟩
  apply compress13Loop_post x _ _ _ _ _ _ rfl
  apply inv_init
  by_cases h0 : x.size = 0
  · simp [h0, header, leBytes]
  · have : ¬ (x.size = 0 ∨ 2 ^ 24 ≤ x.size) := by omega
    have h24 : ¬ (16777216 ≤ x.size) := by omega
    simp [h0, header, leBytes, h24]
    congr 1
    omega

/-- Totality: for every input the model of `compress` returns `ok` (never `err`, never `panic`). -/
theorem compress13_ok (x : BA) : ∃ out, (compress13 x).1 = .ok out := by
  obtain ⟨l, hl⟩ := lz13Header_ok x
  unfold compress13
  simp only [hl]
  generalize (if x.size = 0 then _ else _ : BA) = buf
  obtain ⟨out, _, _, h, _⟩ := compress13Loop_post x buf.toList _ _ _ _ _ rfl
    (inv_init true 0x1000 _ x buf rfl)
  exact ⟨out, h⟩

/-- Shape of the output for inputs of any length: a header of 8 bytes (12 for the empty input)
followed by the flag groups of the greedy tokens. -/
theorem compress13_post' (x : BA) :
    ∃ hdr : Bytes, hdr.length = (if x.size = 0 then 12 else 8) ∧
      Post true 0x1000 hdr x (compress13 x).1 := by
  obtain ⟨l, hl⟩ := lz13Header_ok x
  unfold compress13
  simp only [hl]
  refine ⟨_, ?_, compress13Loop_post x _ _ _ _ _ _ rfl (inv_init true 0x1000 _ x _ rfl)⟩
  split <;> simp

end Mila.Lz
