/-
The history invariant of C03: distinct keys in every map (`KeysNodup`, the well-formedness under
which `HashMap::from_iter` / `UMap.collect` is injective) and containment of every annotation in
the data (`Bounded`), preserved by every call of the op machine.
-/
import MilaModel.Lemmas.BinReloc
import MilaModel.Lemmas.BinSys

namespace Mila
open BinArchive Spec.Reloc UMap

/-- Well-formedness under which `collect` is injective: every map has distinct keys (what a Rust
`HashMap` guarantees by construction). -/
def KeysNodup (a : BinArchive) : Prop :=
  (keys a.text).Nodup ∧ (keys a.pointers).Nodup ∧ (keys a.labels).Nodup ∧ (keys a.cstrings).Nodup

/-- Containment: string cells, pointer cells and pending c-string uses start inside the data,
labels at most at the end address. -/
def Bounded (a : BinArchive) : Prop :=
  (∀ k ∈ keys a.text, k < a.size) ∧ (∀ k ∈ keys a.pointers, k < a.size)
  ∧ (∀ k ∈ keys a.labels, k ≤ a.size) ∧ (∀ p ∈ a.cstrings, ∀ x ∈ p.2, x < a.size)

def Inv (a : BinArchive) : Prop := KeysNodup a ∧ Bounded a

theorem inv_new (e : Endian) : Inv (BinArchive.new e) := by
  simp [Inv, KeysNodup, Bounded, BinArchive.new, keys]

/-! ### map-level facts -/

theorem mem_insert {κ ν : Type} [DecidableEq κ] (m : UMap κ ν) (k : κ) (v : ν) (p : κ × ν)
    (h : p ∈ UMap.insert m k v) : p = (k, v) ∨ p ∈ m := by
  unfold UMap.insert at h
  split at h
  · rw [List.mem_map] at h
    obtain ⟨q, hq, rfl⟩ := h
    by_cases hk : q.1 = k
    · simp [hk]
    · simp [hk, hq]
  · simpa [or_comm] using h

theorem get_mem {κ ν : Type} [DecidableEq κ] (m : UMap κ ν) (k : κ) (v : ν) (h : UMap.get m k = some v) :
    (k, v) ∈ m := by
  unfold UMap.get at h
  cases hf : m.find? (fun p => p.1 = k) with
  | none => simp [hf] at h
  | some p =>
    simp [hf] at h
    have hp := List.find?_some hf
    have hm := List.mem_of_find?_eq_some hf
    simp at hp
    cases p with
    | mk a b => simp at hp h; subst hp; subst h; exact hm

/-! ### data-only writes -/

theorem writeUInt_fields (a a' : BinArchive) (x w v : Nat) (h : a.writeUInt x w v = .ok a') :
    a'.text = a.text ∧ a'.pointers = a.pointers ∧ a'.labels = a.labels ∧ a'.cstrings = a.cstrings
      ∧ a'.size = a.size := by
  rw [writeUInt_eq] at h
  by_cases hr : Spec.Cell.InRange a.size x w
  · rw [if_pos hr] at h
    injection h with h; subst h
    refine ⟨rfl, rfl, rfl, rfl, ?_⟩
    exact patch_length _ _ _ (by rw [enc_length]; exact hr.2)
  · rw [if_neg hr] at h; cases h

theorem writeU8_fields (a a' : BinArchive) (x v : Nat) (h : a.writeU8 x v = .ok a') :
    a'.text = a.text ∧ a'.pointers = a.pointers ∧ a'.labels = a.labels ∧ a'.cstrings = a.cstrings
      ∧ a'.size = a.size := by
  rw [writeU8_eq] at h
  by_cases hr : Spec.Cell.InRange a.size x 1
  · rw [if_pos hr] at h
    injection h with h; subst h
    exact ⟨rfl, rfl, rfl, rfl, patch_length _ _ _ hr.2⟩
  · rw [if_neg hr] at h; cases h

theorem writeBytes_fields (a a' : BinArchive) (x : Nat) (v : Bytes) (h : a.writeBytes x v = .ok a') :
    a'.text = a.text ∧ a'.pointers = a.pointers ∧ a'.labels = a.labels ∧ a'.cstrings = a.cstrings
      ∧ a'.size = a.size := by
  rw [writeBytes_eq] at h
  by_cases hr : Spec.Cell.InRange a.size x v.length
  · rw [if_pos hr] at h
    injection h with h; subst h
    exact ⟨rfl, rfl, rfl, rfl, patch_length _ _ _ hr.2⟩
  · rw [if_neg hr] at h; cases h

theorem writeTy_fields (a a' : BinArchive) (t : Ty) (x : Nat) (v : Int) (h : a.writeTy t x v = .ok a') :
    a'.text = a.text ∧ a'.pointers = a.pointers ∧ a'.labels = a.labels ∧ a'.cstrings = a.cstrings
      ∧ a'.size = a.size := by
  cases t <;>
    simp only [writeTy, writeI8, writeI16, writeI32, writeU16, writeU32, writeF32Bits] at h <;>
    first
      | exact writeU8_fields _ _ _ _ h
      | exact writeUInt_fields _ _ _ _ _ h

theorem inv_of_fields (a a' : BinArchive)
    (h : a'.text = a.text ∧ a'.pointers = a.pointers ∧ a'.labels = a.labels ∧ a'.cstrings = a.cstrings
      ∧ a'.size = a.size) (hi : Inv a) : Inv a' := by
  obtain ⟨h1, h2, h3, h4, h5⟩ := h
  unfold Inv KeysNodup Bounded at *
  rw [h1, h2, h3, h4, h5]
  exact hi

/-! ### annotation writes and deletes -/

theorem inv_text (a : BinArchive) (t' : UMap Nat Str) (hn : (keys t').Nodup)
    (hb : ∀ k ∈ keys t', k < a.size) (hi : Inv a) : Inv { a with text := t' } := by
  obtain ⟨⟨_, h2, h3, h4⟩, ⟨_, b2, b3, b4⟩⟩ := hi
  exact ⟨⟨hn, h2, h3, h4⟩, ⟨hb, b2, b3, b4⟩⟩

theorem inv_pointers (a : BinArchive) (t' : UMap Nat Nat) (hn : (keys t').Nodup)
    (hb : ∀ k ∈ keys t', k < a.size) (hi : Inv a) : Inv { a with pointers := t' } := by
  obtain ⟨⟨h1, _, h3, h4⟩, ⟨b1, _, b3, b4⟩⟩ := hi
  exact ⟨⟨h1, hn, h3, h4⟩, ⟨b1, hb, b3, b4⟩⟩

theorem inv_labels (a : BinArchive) (t' : UMap Nat (List Str)) (hn : (keys t').Nodup)
    (hb : ∀ k ∈ keys t', k ≤ a.size) (hi : Inv a) : Inv { a with labels := t' } := by
  obtain ⟨⟨h1, h2, _, h4⟩, ⟨b1, b2, _, b4⟩⟩ := hi
  exact ⟨⟨h1, h2, hn, h4⟩, ⟨b1, b2, hb, b4⟩⟩

theorem inv_cstrings (a : BinArchive) (t' : UMap Str (List Nat)) (hn : (keys t').Nodup)
    (hb : ∀ p ∈ t', ∀ x ∈ p.2, x < a.size) (hi : Inv a) : Inv { a with cstrings := t' } := by
  obtain ⟨⟨h1, h2, h3, _⟩, ⟨b1, b2, b3, _⟩⟩ := hi
  exact ⟨⟨h1, h2, h3, hn⟩, ⟨b1, b2, b3, hb⟩⟩

theorem inv_deleteString (a a' : BinArchive) (x : Nat) (h : a.deleteString x = .ok a') (hi : Inv a) :
    Inv a' := by
  unfold deleteString at h
  split at h <;> try (cases h; done)
  injection h with h; subst h
  exact inv_text a _ (keys_remove_nodup _ _ hi.1.1) (fun k hk => hi.2.1 k (mem_keys_filter _ _ _ hk)) hi

theorem inv_deletePointer (a a' : BinArchive) (x : Nat) (h : a.deletePointer x = .ok a') (hi : Inv a) :
    Inv a' := by
  unfold deletePointer at h
  split at h <;> try (cases h; done)
  injection h with h; subst h
  exact inv_pointers a _ (keys_remove_nodup _ _ hi.1.2.1)
    (fun k hk => hi.2.2.1 k (mem_keys_filter _ _ _ hk)) hi

theorem inv_deleteLabels (a a' : BinArchive) (x : Nat) (h : a.deleteLabels x = .ok a') (hi : Inv a) :
    Inv a' := by
  unfold deleteLabels at h
  split at h <;> try (cases h; done)
  injection h with h; subst h
  exact inv_labels a _ (keys_remove_nodup _ _ hi.1.2.2.1)
    (fun k hk => hi.2.2.2.1 k (mem_keys_filter _ _ _ hk)) hi

theorem cell_lt (a : BinArchive) (x w : Nat) (h : validateCell a x w = .ok ()) : x < a.size := by
  rw [validateCell_eq] at h
  by_cases hr : Spec.Cell.InRange a.size x w
  · exact hr.1
  · rw [if_neg hr] at h; cases h

theorem inv_writeString (a a' : BinArchive) (x : Nat) (v : Option Str) (h : a.writeString x v = .ok a')
    (hi : Inv a) : Inv a' := by
  unfold writeString at h
  split at h
  · split at h <;> try (cases h; done)
    rename_i hc
    injection h with h; subst h
    refine inv_text a _ (keys_insert_nodup _ _ _ hi.1.1) ?_ hi
    intro k hk
    rcases (mem_keys_insert _ _ _ _).mp hk with rfl | hk
    · exact cell_lt a _ 4 hc
    · exact hi.2.1 k hk
  · exact inv_deleteString a a' x h hi

theorem inv_writePointer (a a' : BinArchive) (x : Nat) (v : Option Nat) (h : a.writePointer x v = .ok a')
    (hi : Inv a) : Inv a' := by
  unfold writePointer at h
  split at h
  · split at h <;> try (cases h; done)
    rename_i hc
    injection h with h; subst h
    refine inv_pointers a _ (keys_insert_nodup _ _ _ hi.1.2.1) ?_ hi
    intro k hk
    rcases (mem_keys_insert _ _ _ _).mp hk with rfl | hk
    · exact cell_lt a _ 4 hc
    · exact hi.2.2.1 k hk
  · exact inv_deletePointer a a' x h hi

theorem inv_writeCString (a a' : BinArchive) (x : Nat) (v : Str) (h : a.writeCString x v = .ok a')
    (hi : Inv a) : Inv a' := by
  unfold writeCString at h
  split at h <;> try (cases h; done)
  rename_i hc
  injection h with h; subst h
  refine inv_cstrings a _ (keys_insert_nodup _ _ _ hi.1.2.2.2) ?_ hi
  intro p hp y hy
  rcases mem_insert _ _ _ _ hp with rfl | hp
  · simp only [List.mem_append, List.mem_singleton] at hy
    rcases hy with hy | rfl
    · cases hg : UMap.get a.cstrings v with
      | none => simp [hg] at hy
      | some b =>
        simp [hg] at hy
        exact hi.2.2.2.2 _ (get_mem _ _ _ hg) y hy
    · exact cell_lt a _ 4 hc
  · exact hi.2.2.2.2 p hp y hy

theorem addr_le (x s : Nat) (h : validateAddress x s true = .ok ()) : x ≤ s := by
  rw [validateAddress_true] at h
  by_cases hr : x ≤ s
  · exact hr
  · rw [if_neg hr] at h; cases h

theorem inv_label_insert (a : BinArchive) (x : Nat) (b : List Str) (hx : x ≤ a.size) (hi : Inv a) :
    Inv { a with labels := UMap.insert a.labels x b } := by
  refine inv_labels a _ (keys_insert_nodup _ _ _ hi.1.2.2.1) ?_ hi
  intro k hk
  rcases (mem_keys_insert _ _ _ _).mp hk with rfl | hk
  · exact hx
  · exact hi.2.2.2.1 k hk

theorem inv_writeLabels (a a' : BinArchive) (x : Nat) (v : List Str) (h : a.writeLabels x v = .ok a')
    (hi : Inv a) : Inv a' := by
  unfold writeLabels at h
  split at h <;> try (cases h; done)
  rename_i hc
  injection h with h; subst h
  exact inv_label_insert a x v (addr_le _ _ hc) hi

theorem inv_writeLabel (a a' : BinArchive) (x : Nat) (v : Str) (h : a.writeLabel x v = .ok a')
    (hi : Inv a) : Inv a' := by
  unfold writeLabel at h
  split at h <;> try (cases h; done)
  rename_i hc
  split at h <;> (injection h with h; subst h; exact inv_label_insert a x _ (addr_le _ _ hc) hi)

theorem inv_deleteLabel (a a' : BinArchive) (x i : Nat) (h : a.deleteLabel x i = .ok a')
    (hi : Inv a) : Inv a' := by
  unfold deleteLabel at h
  split at h <;> try (cases h; done)
  rename_i hc
  split at h
  · split at h
    · injection h with h; subst h
      exact inv_label_insert a x _ (Nat.le_of_lt (cell_lt a _ 4 hc)) hi
    · cases h
  · injection h with h; subst h; exact hi

end Mila
