/-
Writer invariant shared by C17 and C18: while a record is being emitted through the stream writer,
the cells written so far are laid out from address 0 (`cellsAt`), the cursor sits right behind them,
nothing beyond the cursor carries a string, strings sit on aligned cells, there are no pointers.
Each primitive write extends the layout by one cell and leaves the rest alone.
-/
import MilaModel.Lemmas.AsetCells

namespace Mila.Layered
open BinArchive

structure WInv (a : BinArchive) (pos : Nat) (cs : List Cell) : Prop where
  pos_eq : pos = 4 * cs.length
  le : pos ≤ a.size
  little : a.endian = .little
  cells : cellsAt a 0 cs
  fresh : ∀ x, pos ≤ x → a.text.get x = none
  aligned : ∀ x, a.text.get x ≠ none → x % 4 = 0
  noptr : a.pointers = []

theorem WInv.plain {a : BinArchive} {pos : Nat} {cs : List Cell} (h : WInv a pos cs) : Plain a :=
  ⟨h.aligned, h.noptr⟩

theorem patch_nil (d : Bytes) (q : Nat) : patch d q [] = d := by
  unfold patch; simp

/-- Overwriting the four bytes at the cursor adds a raw cell. -/
theorem WInv.patch4 {a : BinArchive} {pos : Nat} {cs : List Cell} (h : WInv a pos cs)
    (hfit : pos + 4 ≤ a.size) (v : Bytes) (hv : v.length = 4) :
    WInv { a with data := patch a.data pos v } (pos + 4) (cs ++ [.raw v]) := by
  have hfit' : pos + v.length ≤ a.data.length := by rw [hv]; exact hfit
  have hsize : ({ a with data := patch a.data pos v } : BinArchive).size = a.size := by
    unfold size; exact length_patch _ _ _ hfit'
  refine ⟨by simp [h.pos_eq]; omega, by rw [hsize]; exact hfit, h.little, ?_, ?_, h.aligned, h.noptr⟩
  · rw [cellsAt_append]
    refine ⟨cellsAt_mono (lim := pos) ?_ cs 0 (by rw [h.pos_eq]; omega) h.cells, ?_⟩
    · intro p c hp hc
      cases c with
      | raw w =>
        obtain ⟨h1, h2, h3⟩ := hc
        exact ⟨by rw [hsize]; exact h1, by
          show slice (patch a.data pos v) p 4 = w
          rw [slice_patch_before _ _ _ _ _ hfit' hp]; exact h2, h3⟩
      | str s =>
        obtain ⟨h1, h2⟩ := hc
        exact ⟨by rw [hsize]; exact h1, h2⟩
    · rw [← h.pos_eq, Nat.zero_add]
      refine ⟨⟨by rw [hsize]; exact hfit, ?_, h.fresh pos (Nat.le_refl _)⟩, trivial⟩
      show slice (patch a.data pos v) pos 4 = v
      rw [← hv]; exact slice_patch_self _ _ _ hfit'
  · intro x hx; exact h.fresh x (by omega)

theorem WInv.writeU32 {a : BinArchive} {pos : Nat} {cs : List Cell} (h : WInv a pos cs)
    (hfit : pos + 4 ≤ a.size) (v : Nat) :
    ∃ a', Writer.writeU32 ⟨a, pos⟩ v = .ok ⟨a', pos + 4⟩ ∧
      WInv a' (pos + 4) (cs ++ [.raw (leBytes 4 v)]) ∧ a'.size = a.size ∧ a'.labels = a.labels := by
  refine ⟨{ a with data := patch a.data pos (leBytes 4 v) }, ?_, h.patch4 hfit _ (length_leBytes 4 v), ?_, rfl⟩
  · unfold Writer.writeU32 Writer.step writeUInt
    simp [validateCell_ok (by decide : 0 < 4) hfit, h.little, Endian.enc]
  · unfold size; exact length_patch _ _ _ (by rw [length_leBytes]; exact hfit)

/-- Writing bytes that fit overwrites the range at the cursor.  (The proof covers both forms of
the shared `Writer.writeBytes`: byte-by-byte and one positional range write.) -/
theorem writeBytes_patch (a : BinArchive) :
    ∀ (v : Bytes) (pos : Nat), pos + v.length ≤ a.size →
      Writer.writeBytes ⟨a, pos⟩ v = (⟨{ a with data := patch a.data pos v }, pos + v.length⟩, .ok ()) := by
  first
  | (intro v
     induction v generalizing a with
     | nil => intro pos _; simp [Writer.writeBytes, patch_nil]
     | cons b v ih =>
       intro pos h
       simp only [List.length_cons] at h
       unfold Writer.writeBytes Writer.writeU8 Writer.step BinArchive.writeU8 validateAddress
       have h1 : ¬ pos ≥ a.size := by omega
       simp only [h1, Bool.false_and, Bool.not_false, Bool.true_and, decide_false, Bool.or_self]
       simp only [Bool.false_eq_true, if_false, UInt8.ofNat_toNat]
       have hl : ({ a with data := patch a.data pos [b] } : BinArchive).size = a.size := by
         unfold size; exact length_patch _ _ _ (by simp; unfold size at h; omega)
       rw [ih _ (pos + 1) (by rw [hl]; omega)]
       simp only [Prod.mk.injEq, and_true]
       congr 1
       · congr 1
         exact patch_patch_adjacent _ _ _ _ (by unfold size at h; omega)
       · simp only [List.length_cons]; omega)
  | (intro v pos h
     unfold Writer.writeBytes
     cases v with
     | nil => simp [patch_nil]
     | cons b v =>
       simp only [List.isEmpty_cons, Bool.false_eq_true, if_false]
       unfold BinArchive.writeBytes validateAddress
       simp only [List.length_cons] at h ⊢
       have h1 : ¬ pos ≥ a.size := by omega
       have h2 : ¬ pos + (v.length + 1) > a.size := by omega
       simp [h1, h2])

theorem WInv.writeString_some {a : BinArchive} {pos : Nat} {cs : List Cell} (h : WInv a pos cs)
    (hfit : pos + 4 ≤ a.size) (s : Str) :
    ∃ a', Writer.writeString ⟨a, pos⟩ (some s) = .ok ⟨a', pos + 4⟩ ∧
      WInv a' (pos + 4) (cs ++ [.str (some s)]) ∧ a'.size = a.size ∧ a'.labels = a.labels := by
  refine ⟨{ a with text := a.text.insert pos s }, ?_, ?_, rfl, rfl⟩
  · unfold Writer.writeString Writer.step BinArchive.writeString
    simp [validateCell_ok (by decide : 0 < 4) hfit]
  · refine ⟨by simp [h.pos_eq]; omega, hfit, h.little, ?_, ?_, ?_, h.noptr⟩
    · rw [cellsAt_append]
      refine ⟨cellsAt_mono (lim := pos) ?_ cs 0 (by rw [h.pos_eq]; omega) h.cells, ?_⟩
      · intro p c hp hc
        have hne : p ≠ pos := by omega
        cases c with
        | raw w =>
          obtain ⟨h1, h2, h3⟩ := hc
          exact ⟨h1, h2, by show (a.text.insert pos s).get p = none; rw [UMap.get_insert, if_neg hne]; exact h3⟩
        | str t =>
          obtain ⟨h1, h2⟩ := hc
          exact ⟨h1, by show (a.text.insert pos s).get p = t; rw [UMap.get_insert, if_neg hne]; exact h2⟩
      · rw [← h.pos_eq, Nat.zero_add]
        exact ⟨⟨hfit, by show (a.text.insert pos s).get pos = some s; rw [UMap.get_insert, if_pos rfl]⟩, trivial⟩
    · intro x hx
      show (a.text.insert pos s).get x = none
      rw [UMap.get_insert, if_neg (by omega)]; exact h.fresh x (by omega)
    · intro x hx
      have hx' : (a.text.insert pos s).get x ≠ none := hx
      rw [UMap.get_insert] at hx'
      by_cases e : x = pos
      · rw [e, h.pos_eq]; omega
      · rw [if_neg e] at hx'; exact h.aligned x hx'

theorem WInv.writeString_none {a : BinArchive} {pos : Nat} {cs : List Cell} (h : WInv a pos cs)
    (hfit : pos + 4 ≤ a.size) :
    ∃ a', Writer.writeString ⟨a, pos⟩ none = .ok ⟨a', pos + 4⟩ ∧
      WInv a' (pos + 4) (cs ++ [.str none]) ∧ a'.size = a.size ∧ a'.labels = a.labels := by
  refine ⟨{ a with text := a.text.remove pos }, ?_, ?_, rfl, rfl⟩
  · unfold Writer.writeString Writer.step BinArchive.writeString deleteString
    simp [validateCell_ok (by decide : 0 < 4) hfit]
  · refine ⟨by simp [h.pos_eq]; omega, hfit, h.little, ?_, ?_, ?_, h.noptr⟩
    · rw [cellsAt_append]
      refine ⟨cellsAt_mono (lim := pos) ?_ cs 0 (by rw [h.pos_eq]; omega) h.cells, ?_⟩
      · intro p c hp hc
        have hne : p ≠ pos := by omega
        cases c with
        | raw w =>
          obtain ⟨h1, h2, h3⟩ := hc
          exact ⟨h1, h2, by show (a.text.remove pos).get p = none; rw [UMap.get_remove, if_neg hne]; exact h3⟩
        | str t =>
          obtain ⟨h1, h2⟩ := hc
          exact ⟨h1, by show (a.text.remove pos).get p = t; rw [UMap.get_remove, if_neg hne]; exact h2⟩
      · rw [← h.pos_eq, Nat.zero_add]
        exact ⟨⟨hfit, by show (a.text.remove pos).get pos = none; rw [UMap.get_remove, if_pos rfl]⟩, trivial⟩
    · intro x hx
      show (a.text.remove pos).get x = none
      rw [UMap.get_remove]
      by_cases e : x = pos
      · rw [if_pos e]
      · rw [if_neg e]; exact h.fresh x (by omega)
    · intro x hx
      have hx' : (a.text.remove pos).get x ≠ none := hx
      rw [UMap.get_remove] at hx'
      by_cases e : x = pos
      · rw [if_pos e] at hx'; exact absurd rfl hx'
      · rw [if_neg e] at hx'; exact h.aligned x hx'

theorem WInv.writeString {a : BinArchive} {pos : Nat} {cs : List Cell} (h : WInv a pos cs)
    (hfit : pos + 4 ≤ a.size) (s : Option Str) :
    ∃ a', Writer.writeString ⟨a, pos⟩ s = .ok ⟨a', pos + 4⟩ ∧
      WInv a' (pos + 4) (cs ++ [.str s]) ∧ a'.size = a.size ∧ a'.labels = a.labels := by
  cases s with
  | none => exact h.writeString_none hfit
  | some s => exact h.writeString_some hfit s

theorem WInv.allocateAtEnd {a : BinArchive} {pos : Nat} {cs : List Cell} (h : WInv a pos cs)
    (n : Nat) : WInv (a.allocateAtEnd n) pos cs := by
  have hsize : (a.allocateAtEnd n).size = a.size + n := by
    unfold BinArchive.allocateAtEnd size; simp
  refine ⟨h.pos_eq, by rw [hsize]; have := h.le; omega, h.little, ?_, h.fresh, h.aligned, h.noptr⟩
  refine cellsAt_mono (lim := pos) ?_ cs 0 (by rw [h.pos_eq]; omega) h.cells
  intro p c hp hc
  have hle := h.le
  cases c with
  | raw w =>
    obtain ⟨h1, h2, h3⟩ := hc
    refine ⟨by rw [hsize]; omega, ?_, h3⟩
    show slice (a.data ++ List.replicate n 0) p 4 = w
    rw [slice_append_left _ _ _ _ (by unfold size at h1; exact h1)]; exact h2
  | str s =>
    obtain ⟨h1, h2⟩ := hc
    exact ⟨by rw [hsize]; omega, h2⟩

theorem size_allocateAtEnd (a : BinArchive) (n : Nat) : (a.allocateAtEnd n).size = a.size + n := by
  unfold BinArchive.allocateAtEnd size; simp

/-- Changing only the labels keeps the cell layout. -/
theorem WInv.withLabels {a : BinArchive} {pos : Nat} {cs : List Cell} (h : WInv a pos cs)
    (l : UMap Nat (List Str)) : WInv { a with labels := l } pos cs := by
  refine ⟨h.pos_eq, h.le, h.little, ?_, h.fresh, h.aligned, h.noptr⟩
  refine cellsAt_mono (lim := pos) ?_ cs 0 (by rw [h.pos_eq]; omega) h.cells
  intro p c _ hc
  cases c with
  | raw w => exact hc
  | str s => exact hc

end Mila.Layered
