/-
C05, non-vacuity support only.  The three `while` loops of the layered readers are well-founded
recursions, which the kernel does not evaluate; to exhibit concrete accepted files by evaluation we
give each loop a structurally recursive twin with explicit fuel and prove that whenever the twin
finishes (`some x`) the real loop returns the same `x`.  No theorem of C05 is *about* the fuelled
twins: they are used to `decide` the examples at the end of `Props/C05.lean`.
-/
import MilaModel.Model.TextArchive
import MilaModel.Model.Aset
import MilaModel.Model.AssetBinary

namespace Mila.ParsersFuel
open Mila BinArchive

/-! ### text archive -/

open TextArchive in
def fromLoopFuel (c : Codec) (f : TextFormat) (a : BinArchive) :
    Nat → Nat → List (Str × Str) → Option (Res (List (Str × Str)))
  | 0, _, _ => none
  | k + 1, pos, entries =>
    if pos < a.size then
      match BinArchive.readLabels a pos with
      | .ok labels =>
        match readMessage c f a ⟨pos⟩ with
        | .ok (message, r') =>
          fromLoopFuel c f a k r'.pos
            (match (labels.getD []).head? with
             | some key => imSet entries key message
             | none => entries)
        | .err e => some (.err e)
        | .panic => some .panic
      | .err e => some (.err e)
      | .panic => some .panic
    else some (.ok entries)

open TextArchive in
theorem fromLoopFuel_sound (c : Codec) (f : TextFormat) (a : BinArchive)
    (pos : Nat) (entries : List (Str × Str)) :
    ∀ (k : Nat) (x : Res (List (Str × Str))),
      fromLoopFuel c f a k pos entries = some x → fromLoop c f a pos entries = x := by
  fun_induction fromLoop c f a pos entries
  all_goals (intro k x h; cases k <;> simp_all [fromLoopFuel])
  all_goals first
    | (apply_assumption; assumption)
    | (rw [if_neg (by omega)] at h; simpa using h)

open TextArchive in
/-- `TextArchive::from_bytes` with the message loop fuelled. -/
def textFuel (c : Codec) (f : TextFormat) (e : Endian) (k : Nat) (raw : Bytes) : Option (Res TextArchive) :=
  match BinArchive.parse c e raw with
  | .ok a =>
    match f with
    | .unicode =>
      match Reader.readSjisAligned c a ⟨0⟩ with
      | .ok (title, r) =>
        match fromLoopFuel c f a k r.pos [] with
        | some (.ok entries) => some (.ok { new f e with title := title, entries := entries })
        | some (.err er) => some (.err er)
        | some .panic => some .panic
        | none => none
      | .err er => some (.err er)
      | .panic => some .panic
    | .shiftJIS =>
      match fromLoopFuel c f a k 0 [] with
      | some (.ok entries) => some (.ok { new f e with entries := entries })
      | some (.err er) => some (.err er)
      | some .panic => some .panic
      | none => none
  | .err er => some (.err er)
  | .panic => some .panic

open TextArchive in
theorem textFuel_sound (c : Codec) (f : TextFormat) (e : Endian) (k : Nat) (raw : Bytes)
    (x : Res TextArchive) (h : textFuel c f e k raw = some x) : TextArchive.fromBytes c raw f e = x := by
  unfold textFuel at h
  unfold TextArchive.fromBytes TextArchive.fromArchive
  cases hp : BinArchive.parse c e raw with
  | ok a =>
    rw [hp] at h
    cases f with
    | unicode =>
      simp only [] at h ⊢
      cases hr : Reader.readSjisAligned c a ⟨0⟩ with
      | ok v =>
        obtain ⟨title, r⟩ := v
        rw [hr] at h
        simp only [] at h ⊢
        cases hl : fromLoopFuel c .unicode a k r.pos [] with
        | none => rw [hl] at h; simp at h
        | some y =>
          rw [hl] at h
          rw [fromLoopFuel_sound _ _ _ _ _ _ _ hl]
          cases y <;> simp_all
      | err er => rw [hr] at h; simpa using h
      | panic => rw [hr] at h; simpa using h
    | shiftJIS =>
      simp only [] at h ⊢
      cases hl : fromLoopFuel c .shiftJIS a k 0 [] with
      | none => rw [hl] at h; simp at h
      | some y =>
        rw [hl] at h
        rw [fromLoopFuel_sound _ _ _ _ _ _ _ hl]
        cases y <;> simp_all
  | err er => rw [hp] at h; simpa using h
  | panic => rw [hp] at h; simpa using h

/-! ### aset -/

open Aset in
def readSetsFuel (a : BinArchive) : Nat → Reader → List (List (Option Str)) →
    Option (Res (List (List (Option Str))))
  | 0, _, _ => none
  | k + 1, r, acc =>
    if r.pos < a.size then
      match readSet a r with
      | .ok (set, r') => readSetsFuel a k r' (acc ++ [set])
      | .err e => some (.err e)
      | .panic => some .panic
    else some (.ok acc)

open Aset in
theorem readSetsFuel_sound (a : BinArchive) (r : Reader) (acc : List (List (Option Str))) :
    ∀ (k : Nat) (x : Res (List (List (Option Str)))),
      readSetsFuel a k r acc = some x → readSets a r acc = x := by
  fun_induction readSets a r acc
  all_goals (intro k x h; cases k <;> simp_all [readSetsFuel])
  all_goals first
    | (apply_assumption; assumption)
    | (rw [if_neg (by omega)] at h; simpa using h)

open Aset in
/-- `from_bytes` then `ASetFile::from_archive`, with the set loop fuelled. -/
def asetFuel (c : Codec) (k : Nat) (raw : Bytes) : Option (Res ASetFile) :=
  match BinArchive.parse c .little raw with
  | .ok a =>
    match a.findLabelAddress tableLabel with
    | none => some (.err .Other)
    | some tableAddress =>
      match Reader.readString a ((⟨0⟩ : Reader).skip 4) with
      | .ok (metaStr, r) =>
        match readTable a 257 (r.seek tableAddress) with
        | .ok (table, r) =>
          match readSetsFuel a k r [] with
          | some (.ok sets) => some (.ok ⟨metaStr, table, sets⟩)
          | some (.err e) => some (.err e)
          | some .panic => some .panic
          | none => none
        | .err e => some (.err e)
        | .panic => some .panic
      | .err e => some (.err e)
      | .panic => some .panic
  | .err e => some (.err e)
  | .panic => some .panic

open Aset in
theorem asetFuel_sound (c : Codec) (k : Nat) (raw : Bytes) (x : Res ASetFile)
    (h : asetFuel c k raw = some x) : (BinArchive.parse c .little raw).bind Aset.fromArchive = x := by
  unfold asetFuel at h
  cases hp : BinArchive.parse c .little raw with
  | ok a =>
    rw [hp] at h
    simp only [Res.bind] at h ⊢
    unfold Aset.fromArchive
    simp only []
    cases hl : a.findLabelAddress tableLabel with
    | none => rw [hl] at h; simpa using h
    | some ta =>
      rw [hl] at h
      simp only [] at h ⊢
      cases hm : Reader.readString a ((⟨0⟩ : Reader).skip 4) with
      | ok v =>
        obtain ⟨metaStr, r⟩ := v
        rw [hm] at h
        simp only [] at h ⊢
        cases ht : readTable a 257 (r.seek ta) with
        | ok v2 =>
          obtain ⟨table, r2⟩ := v2
          rw [ht] at h
          simp only [] at h ⊢
          cases hs : readSetsFuel a k r2 [] with
          | none => rw [hs] at h; simp at h
          | some y =>
            rw [hs] at h
            rw [readSetsFuel_sound _ _ _ _ _ hs]
            cases y <;> simp_all
        | err er => rw [ht] at h; simpa using h
        | panic => rw [ht] at h; simpa using h
      | err er => rw [hm] at h; simpa using h
      | panic => rw [hm] at h; simpa using h
  | err er => rw [hp] at h; simpa [Res.bind] using h
  | panic => rw [hp] at h; simpa [Res.bind] using h

/-! ### asset binary -/

open Asset in
def readSpecsFuel (a : BinArchive) : Nat → Reader → List AssetSpec → Option (Res (List AssetSpec))
  | 0, _, _ => none
  | k + 1, r, acc =>
    match fromStream a r with
    | .ok (spec, r') => readSpecsFuel a k r' (acc ++ [spec])
    | .err _ => some (.ok acc)
    | .panic => some .panic

open Asset in
theorem readSpecsFuel_sound (a : BinArchive) (r : Reader) (acc : List AssetSpec) :
    ∀ (k : Nat) (x : Res (List AssetSpec)), readSpecsFuel a k r acc = some x → readSpecs a r acc = x := by
  fun_induction readSpecs a r acc
  all_goals (intro k x h; cases k <;> simp_all [readSpecsFuel])
  all_goals first
    | (apply_assumption; assumption)
    | (rw [if_neg (by omega)] at h; simpa using h)

open Asset in
/-- `from_bytes` then `AssetBinary::from_archive`, with the record loop fuelled. -/
def assetFuel (c : Codec) (k : Nat) (raw : Bytes) : Option (Res AssetBinary) :=
  match BinArchive.parse c .little raw with
  | .ok a =>
    match Reader.readU32 a ⟨0⟩ with
    | .ok (flags, r) =>
      match readSpecsFuel a k r [] with
      | some (.ok specs) => some (.ok ⟨flags, specs⟩)
      | some (.err e) => some (.err e)
      | some .panic => some .panic
      | none => none
    | .err e => some (.err e)
    | .panic => some .panic
  | .err e => some (.err e)
  | .panic => some .panic

open Asset in
theorem assetFuel_sound (c : Codec) (k : Nat) (raw : Bytes) (x : Res AssetBinary)
    (h : assetFuel c k raw = some x) : (BinArchive.parse c .little raw).bind Asset.fromArchive = x := by
  unfold assetFuel at h
  cases hp : BinArchive.parse c .little raw with
  | ok a =>
    rw [hp] at h
    simp only [Res.bind] at h ⊢
    unfold Asset.fromArchive
    simp only []
    cases hr : Reader.readU32 a ⟨0⟩ with
    | ok v =>
      obtain ⟨flags, r⟩ := v
      rw [hr] at h
      simp only [] at h ⊢
      cases hs : readSpecsFuel a k r [] with
      | none => rw [hs] at h; simp at h
      | some y =>
        rw [hs] at h
        rw [readSpecsFuel_sound _ _ _ _ _ hs]
        cases y <;> simp_all
    | err er => rw [hr] at h; simpa using h
    | panic => rw [hr] at h; simpa using h
  | err er => rw [hp] at h; simpa [Res.bind] using h
  | panic => rw [hp] at h; simpa [Res.bind] using h

/-! ### glue for the examples -/

/-- "`o` finished with `ok v` and `p v`". -/
def okAnd {α : Type} (p : α → Bool) : Option (Res α) → Bool
  | some (.ok v) => p v
  | _ => false

/-- From an evaluated fuelled run to a statement about the real entry point: the image `img`
exists, the entry point accepts it with some value `v`, and `p v` holds. -/
theorem accepted_of_fuel {α : Type} {img : Res Bytes} {entry : Bytes → Res α}
    {fuel : Bytes → Option (Res α)} (hs : ∀ b x, fuel b = some x → entry b = x) (p : α → Bool)
    (h : (match img with
          | .ok b => okAnd p (fuel b)
          | _ => false) = true) :
    ∃ b v, img = .ok b ∧ entry b = .ok v ∧ p v = true := by
  cases img with
  | ok b =>
    simp only at h
    cases hf : fuel b with
    | none => rw [hf] at h; simp [okAnd] at h
    | some x =>
      rw [hf] at h
      cases x with
      | ok v => exact ⟨b, v, rfl, hs b _ hf, by simpa [okAnd] using h⟩
      | err e => simp [okAnd] at h
      | panic => simp [okAnd] at h
  | err e => simp at h
  | panic => simp at h

/-- The same for a literal image. -/
theorem accepted_of_fuel_lit {α : Type} {b : Bytes} {entry : Bytes → Res α}
    {fuel : Bytes → Option (Res α)} (hs : ∀ b x, fuel b = some x → entry b = x) (p : α → Bool)
    (h : okAnd p (fuel b) = true) : ∃ v, entry b = .ok v ∧ p v = true := by
  obtain ⟨b', v, hb, hv, hp⟩ := accepted_of_fuel (img := .ok b) hs p h
  cases hb
  exact ⟨v, hv, hp⟩

end Mila.ParsersFuel
