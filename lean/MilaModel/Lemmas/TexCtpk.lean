/-
C20, CTPK: a conforming file is read as the packed textures (symbolic execution of `ctpkProg`
against `Spec.Tex.ConformsCtpk`), with the read high-water mark above every payload.
-/
import MilaModel.Lemmas.TexSpec

namespace Mila.Containers
open Prog Spec.Tex Pixel

/-- side condition "the read fits in the data" -/
macro "fits" : tactic => `(tactic| first | omega | (simp; omega))

theorem ctpkHeader_run (f : Buf) (h : 0x20 ≤ f.size) :
    ∃ s, run ctpkHeader f ⟨0, [], 0⟩ = .ok ((f.leN 6 2, f.leN 8 4), s) ∧ s.pos = 0x20 ∧ s.names = [] := by
  unfold ctpkHeader
  rw [run_bind_ok (run_u32le _ _ (by fits))]
  rw [run_bind_ok (run_u16le _ _ (by fits))]
  rw [run_bind_ok (run_u16le _ _ (by fits))]
  rw [run_bind_ok (run_u32le _ _ (by fits))]
  rw [run_bind_ok (run_u32le _ _ (by fits))]
  rw [run_bind_ok (run_u32le _ _ (by fits))]
  rw [run_bind_ok (run_u32le _ _ (by fits))]
  rw [run_bind_ok (run_skip _ _ _)]
  refine ⟨_, rfl, ?_, ?_⟩ <;> simp

/-- What `TextureInfo::new` returns for the entry at `e`. -/
def CtpkInfoAt (f : Buf) (e : Nat) (info : CtpkInfo) : Prop :=
  info.filename_ptr = f.leN e 4 ∧ info.texture_ptr = f.leN (e + 8) 4 ∧ info.pixel_format = f.leN (e + 12) 4 ∧
  info.width = f.leN (e + 16) 2 ∧ info.height = f.leN (e + 18) 2

theorem ctpkInfo_run (f : Buf) (s : St) (h : s.pos + 0x20 ≤ f.size) :
    ∃ info s', run ctpkInfo f s = .ok (info, s') ∧ CtpkInfoAt f s.pos info ∧ s'.pos = s.pos + 0x20 ∧
      s'.names = s.names ∧ s.hi ≤ s'.hi := by
  unfold ctpkInfo
  rw [run_bind_ok (run_u32le _ _ (by fits))]
  rw [run_bind_ok (run_u32le _ _ (by fits))]
  rw [run_bind_ok (run_u32le _ _ (by fits))]
  rw [run_bind_ok (run_u32le _ _ (by fits))]
  rw [run_bind_ok (run_u16le _ _ (by fits))]
  rw [run_bind_ok (run_u16le _ _ (by fits))]
  rw [run_bind_ok (run_u8 _ _ (by fits))]
  rw [run_bind_ok (run_u8 _ _ (by fits))]
  rw [run_bind_ok (run_u16le _ _ (by fits))]
  rw [run_bind_ok (run_u32le _ _ (by fits))]
  rw [run_bind_ok (run_u32le _ _ (by fits))]
  refine ⟨_, _, rfl, ⟨?_, ?_, ?_, ?_, ?_⟩, ?_, ?_, ?_⟩ <;> simp <;> omega

/-- One texture of a conforming file. -/
theorem ctpkTexture_run (p : Profile) (f : Buf) (base e : Nat) (t : Tex) (info : CtpkInfo) (s : St)
    (hsize : f.size < 2 ^ 32) (hinfo : CtpkInfoAt f e info)
    (hent : ctpkEntry f base e t = true) (hvalid : valid3ds t = true)
    (hname : decodeName .sjis t.stored = some t.name) :
    ∃ s', run (ctpkTexture p base info) f s = .ok ((t.width, t.height, pixelsOf p t), s') ∧
      s'.names = t.name :: s.names ∧ s.hi ≤ s'.hi ∧ base + f.leN (e + 8) 4 + t.payload.size ≤ s'.hi := by
  obtain ⟨hfp, htp, hpf, hw, hh⟩ := hinfo
  simp only [ctpkEntry, Bool.and_eq_true, decide_eq_true_eq, beq_iff_eq, u32At_eq, u16At_eq] at hent
  obtain ⟨⟨⟨⟨⟨⟨_, hcstr⟩, hsum⟩, hbytes⟩, hfmt⟩, hwid⟩, hhei⟩ := hent
  obtain ⟨hfit, hext⟩ := hasBytes_spec hbytes
  obtain ⟨hps, b, hdec⟩ := valid3ds_decodes p t hvalid
  have hpos := valid3ds_pos t hvalid
  have hraw := rawName_of_hasCStr hcstr
  unfold ctpkTexture
  rw [run_bind_ok (run_seekStart _ _ _)]
  rw [run_bind_ok (run_readName .sjis f _ t.name (by simp [hfp, hraw, hname]))]
  rw [htp, add32_ok p _ _ hsum, run_bind_ok (run_lift_ok _ _ _)]
  rw [run_bind_ok (run_seekStart _ _ _)]
  unfold readAndDecode
  rw [hpf, hw, hh, hfmt, hwid, hhei, hps]
  rw [run_bind_ok (run_readBytes _ _ _ hpos (by fits))]
  simp only [St.seek_pos, St.nm_pos]
  rw [hext, hdec, run_bind_ok (run_lift_ok _ _ _)]
  have hpx : pixelsOf p t = b := by simp [pixelsOf, hdec]
  rw [hpx]
  exact ⟨_, rfl, by simp, by simp; omega, by simp; omega⟩

theorem ctpk_full (p : Profile) (f : Buf) (texs : List Tex)
    (hc : ConformsCtpk (decodeName .sjis) f texs = true) :
    ∃ raws sf, run (ctpkProg p) f ⟨0, [], 0⟩ = .ok (raws, sf) ∧
      assemble sf.names.reverse raws = texs.map (unpack p) ∧
      ∀ i t, texs[i]? = some t → ctpkPayloadAt f i + t.payload.size ≤ sf.hi := by
  simp only [ConformsCtpk, Bool.and_eq_true, decide_eq_true_eq, beq_iff_eq, u16At_eq, u32At_eq] at hc
  obtain ⟨⟨⟨⟨hsize, h20⟩, hlen16⟩, hcount⟩, hall⟩ := hc
  have hent := allIdx_spec _ texs 0 hall
  obtain ⟨s0, hhdr, hp0, hn0⟩ := ctpkHeader_run f h20
  -- the texture entries
  obtain ⟨infos, s1, hinfos, hilen, hiq, _, hn1, _⟩ :=
    repeatN_run ctpkInfo f (fun i info => CtpkInfoAt f (0x20 + 0x20 * i) info) 0x20 0x20 texs.length 0 s0
      (by simpa using hp0)
      (by
        intro i s _ hi hs
        have hti : texs[i]? = some texs[i] := List.getElem?_eq_getElem (by omega)
        have he := hent i _ hti
        simp only [Nat.zero_add, Bool.and_eq_true, ctpkEntry, decide_eq_true_eq] at he
        obtain ⟨info, s', hr, hq, hp, hn, hh⟩ := ctpkInfo_run f s (by rw [hs]; omega)
        exact ⟨info, s', hr, by rw [← hs]; exact hq, hp, hn, hh⟩)
  -- the textures
  obtain ⟨raws, s2, hraws, hrlen, hrq, hn2, _, hH⟩ :=
    mapM'_run_named (ctpkTexture p (f.leN 8 4)) f
      (fun i raw => ∀ t, texs[i]? = some t → raw = (t.width, t.height, pixelsOf p t))
      (fun i => ((texs.map (unpack p)).getD i ⟨[], 0, 0, #[]⟩).name)
      (fun i => ctpkPayloadAt f i + ((texs[i]?.map (fun t => t.payload.size)).getD 0)) infos 0 s1
      (by
        intro i info s hi
        have hil : i < texs.length := by
          have := (List.getElem?_eq_some_iff.mp hi).1; omega
        have hti : texs[i]? = some texs[i] := List.getElem?_eq_getElem hil
        have he := hent i _ hti
        simp only [Nat.zero_add, Bool.and_eq_true, beq_iff_eq] at he
        obtain ⟨⟨he1, he2⟩, he3⟩ := he
        have hq := hiq i info hi
        simp only [Nat.zero_add] at hq
        obtain ⟨s', hr, hn, hh, hH⟩ := ctpkTexture_run p f (f.leN 8 4) (0x20 + 0x20 * i) texs[i] info s hsize hq
          he1 he2 he3
        refine ⟨_, s', hr, ?_, ?_, hh, ?_⟩
        · intro t ht; simp only [Nat.zero_add] at ht; rw [hti] at ht; cases ht; rfl
        · simp only [Nat.zero_add, List.getD_eq_getElem?_getD, List.getElem?_map, hti, Option.map_some,
            Option.getD_some, unpack]
          exact hn
        · simp only [Nat.zero_add, hti, Option.map_some, Option.getD_some, ctpkPayloadAt, u32At_eq]
          exact hH)
  refine ⟨raws, s2, ?_, ?_, ?_⟩
  · unfold ctpkProg
    rw [run_bind_ok hhdr]
    simp only []
    rw [hcount, run_bind_ok hinfos]
    exact hraws
  · rw [hn2, hn1, hn0, hilen]
    simp only [List.append_nil, List.reverse_reverse, Nat.zero_add]
    apply assemble_eq texs raws (unpack p) (by omega)
    intro i r t hr ht
    have := hrq i r hr t (by simpa using ht)
    rw [this]; rfl
  · intro i t ht
    have hil : i < texs.length := (List.getElem?_eq_some_iff.mp ht).1
    have := hH i (by omega)
    simpa [ht] using this

end Mila.Containers
