/-
C20: generic facts about the reader language of `Model/Containers.lean`, proved once by induction on
`Prog`:

* `run_bind`       — sequencing;
* `run_prefix`     — the prefix simulation lemma: on a prefix of the data every run that the full
                     data completes either fails with an error or completes with the same result,
                     the same cursor position and the same read high-water mark (names may differ);
* `run_hi_le`      — the high-water mark never exceeds the data length;
* `run_hi_mono`    — it never decreases.
-/
import MilaModel.Model.Containers

namespace Mila.Containers
open Prog

theorem bind_eq {α β : Type} (p : Prog α) (f : α → Prog β) : (p >>= f) = p.bind f := rfl
theorem pure_eq {α : Type} (a : α) : (pure a : Prog α) = .ret a := rfl

theorem run_bind {α β : Type} (p : Prog α) (f : α → Prog β) (d : Buf) (s : St) :
    run (p.bind f) d s =
      match run p d s with
      | .ok (a, s') => run (f a) d s'
      | .err e => .err e
      | .panic => .panic := by
  induction p generalizing s with
  | ret a => simp [Prog.bind, run]
  | fail e => simp [Prog.bind, run]
  | panic => simp [Prog.bind, run]
  | read n k ih =>
    simp only [Prog.bind, run]
    split
    · exact ih _ s
    · split
      · exact ih _ _
      · rfl
  | getPos k ih => simp only [Prog.bind, run]; exact ih _ s
  | setPos p k ih => simp only [Prog.bind, run]; exact ih _
  | name enc k ih =>
    simp only [Prog.bind, run]
    split
    · rfl
    · exact ih _

/-- The prefix of length `k`. -/
def pre (d : Buf) (k : Nat) : Buf := d.extract 0 k

theorem size_pre (d : Buf) (k : Nat) (hk : k ≤ d.size) : (pre d k).size = k := by
  simp [pre, Array.size_extract]; omega

theorem extract_pre (d : Buf) (k a b : Nat) (hb : b ≤ k) : (pre d k).extract a b = d.extract a b := by
  simp only [pre, Array.extract_extract, Nat.zero_add]
  congr 1; omega

/-- What the run on a prefix may be, given the run on the full data. -/
def PRel {α : Type} (r' r : Res (α × St)) : Prop :=
  ∀ a s, r = .ok (a, s) → (∃ e, r' = .err e) ∨ (∃ s', r' = .ok (a, s') ∧ s'.pos = s.pos ∧ s'.hi = s.hi)

/-- **Prefix simulation.** -/
theorem run_prefix {α : Type} (prog : Prog α) (d : Buf) (k : Nat) (hk : k ≤ d.size) (s' s : St)
    (hpos : s'.pos = s.pos) (hhi : s'.hi = s.hi) : PRel (run prog (pre d k) s') (run prog d s) := by
  induction prog generalizing s' s with
  | ret a =>
    intro a0 s0 h
    simp only [run, Res.ok.injEq, Prod.mk.injEq] at h
    obtain ⟨rfl, rfl⟩ := h
    exact Or.inr ⟨s', rfl, hpos, hhi⟩
  | fail e => intro a0 s0 h; simp [run] at h
  | panic => intro a0 s0 h; simp [run] at h
  | read n kont ih =>
    intro a0 s0 h
    simp only [run] at h ⊢
    by_cases hn : n = 0
    · simp only [hn, if_true] at h ⊢
      exact ih _ s' s hpos hhi a0 s0 h
    · simp only [hn, if_false] at h ⊢
      by_cases hfit : s.pos + n ≤ d.size
      · simp only [hfit, if_true] at h
        by_cases hfit' : s'.pos + n ≤ (pre d k).size
        · simp only [hfit', if_true]
          rw [size_pre d k hk] at hfit'
          rw [extract_pre d k _ _ hfit', hpos]
          exact ih _ _ _ (by simp [hpos]) (by simp [hpos, hhi]) a0 s0 h
        · simp only [hfit', if_false]
          exact Or.inl ⟨_, rfl⟩
      · simp [hfit] at h
  | getPos kont ih =>
    intro a0 s0 h
    simp only [run] at h ⊢
    rw [hpos]
    exact ih _ s' s hpos hhi a0 s0 h
  | setPos p kont ih =>
    intro a0 s0 h
    simp only [run] at h ⊢
    exact ih _ _ (by simp) (by simp [hhi]) a0 s0 h
  | name enc kont ih =>
    intro a0 s0 h
    simp only [run] at h ⊢
    cases hfull : decodeName enc (rawName d s.pos) with
    | none => simp [hfull] at h
    | some str =>
      simp only [hfull] at h
      cases hpre : decodeName enc (rawName (pre d k) s'.pos) with
      | none => exact Or.inl ⟨_, rfl⟩
      | some str' => exact ih _ _ (by simp [hpos]) (by simp [hhi]) a0 s0 h

theorem run_hi_le {α : Type} (prog : Prog α) (d : Buf) (s s1 : St) (a : α)
    (h : run prog d s = .ok (a, s1)) (hs : s.hi ≤ d.size) : s1.hi ≤ d.size := by
  induction prog generalizing s with
  | ret a0 => simp only [run, Res.ok.injEq, Prod.mk.injEq] at h; obtain ⟨_, rfl⟩ := h; exact hs
  | fail e => simp [run] at h
  | panic => simp [run] at h
  | read n kont ih =>
    simp only [run] at h
    by_cases hn : n = 0
    · simp only [hn, if_true] at h; exact ih _ s h hs
    · simp only [hn, if_false] at h
      by_cases hfit : s.pos + n ≤ d.size
      · simp only [hfit, if_true] at h
        exact ih _ _ h (by simp; omega)
      · simp [hfit] at h
  | getPos kont ih => simp only [run] at h; exact ih _ s h hs
  | setPos p kont ih => simp only [run] at h; exact ih _ h (by simpa using hs)
  | name enc kont ih =>
    simp only [run] at h
    cases hfull : decodeName enc (rawName d s.pos) with
    | none => simp [hfull] at h
    | some str => simp only [hfull] at h; exact ih _ h (by simpa using hs)

theorem run_hi_mono {α : Type} (prog : Prog α) (d : Buf) (s s1 : St) (a : α)
    (h : run prog d s = .ok (a, s1)) : s.hi ≤ s1.hi := by
  induction prog generalizing s with
  | ret a0 => simp only [run, Res.ok.injEq, Prod.mk.injEq] at h; obtain ⟨_, rfl⟩ := h; exact Nat.le_refl _
  | fail e => simp [run] at h
  | panic => simp [run] at h
  | read n kont ih =>
    simp only [run] at h
    by_cases hn : n = 0
    · simp only [hn, if_true] at h; exact ih _ s h
    · simp only [hn, if_false] at h
      by_cases hfit : s.pos + n ≤ d.size
      · simp only [hfit, if_true] at h
        have := ih _ _ h
        simp at this; omega
      · simp [hfit] at h
  | getPos kont ih => simp only [run] at h; exact ih _ s h
  | setPos p kont ih => simp only [run] at h; simpa using ih _ h
  | name enc kont ih =>
    simp only [run] at h
    cases hfull : decodeName enc (rawName d s.pos) with
    | none => simp [hfull] at h
    | some str => simp only [hfull] at h; simpa using ih _ h

/-- Consequence used by every `prefix_safe` theorem: if the full data are read successfully with
high-water mark above `k`, the prefix of length `k` is read with an error; in any case without a
panic. -/
theorem prefix_outcome {α : Type} (prog : Prog α) (d : Buf) (k : Nat) (hk : k ≤ d.size) (a : α) (sf : St)
    (hfull : run prog d ⟨0, [], 0⟩ = .ok (a, sf)) :
    run prog (pre d k) ⟨0, [], 0⟩ ≠ .panic ∧
    (k < sf.hi → ∃ e, run prog (pre d k) ⟨0, [], 0⟩ = .err e) := by
  have h := run_prefix prog d k hk ⟨0, [], 0⟩ ⟨0, [], 0⟩ rfl rfl a sf hfull
  rcases h with ⟨e, he⟩ | ⟨s', hs', _, hhi⟩
  · exact ⟨by simp [he], fun _ => ⟨e, he⟩⟩
  · refine ⟨by simp [hs'], fun hlt => ?_⟩
    have := run_hi_le prog (pre d k) ⟨0, [], 0⟩ s' a hs' (by simp)
    rw [size_pre d k hk] at this
    omega

end Mila.Containers

/-! ### symbolic execution: what each primitive does to the state -/

namespace Mila.Containers
open Prog

/-- state after a successful non-empty read of `n` bytes -/
def St.rd (s : St) (n : Nat) : St := { s with pos := s.pos + n, hi := max s.hi (s.pos + n) }
/-- state after a seek -/
def St.seek (s : St) (p : Nat) : St := { s with pos := p }
/-- state after a name was logged -/
def St.nm (s : St) (x : Bytes) : St := { s with names := x :: s.names }

@[simp] theorem St.rd_pos (s : St) (n : Nat) : (s.rd n).pos = s.pos + n := rfl
@[simp] theorem St.rd_names (s : St) (n : Nat) : (s.rd n).names = s.names := rfl
@[simp] theorem St.rd_hi (s : St) (n : Nat) : (s.rd n).hi = max s.hi (s.pos + n) := rfl
@[simp] theorem St.seek_pos (s : St) (p : Nat) : (s.seek p).pos = p := rfl
@[simp] theorem St.seek_names (s : St) (p : Nat) : (s.seek p).names = s.names := rfl
@[simp] theorem St.seek_hi (s : St) (p : Nat) : (s.seek p).hi = s.hi := rfl
@[simp] theorem St.nm_pos (s : St) (x : Bytes) : (s.nm x).pos = s.pos := rfl
@[simp] theorem St.nm_names (s : St) (x : Bytes) : (s.nm x).names = x :: s.names := rfl
@[simp] theorem St.nm_hi (s : St) (x : Bytes) : (s.nm x).hi = s.hi := rfl

theorem byteAt_extract (d : Buf) (a b i : Nat) (h : a + i < b) (hb : b ≤ d.size) :
    Buf.byteAt (d.extract a b) i = d.byteAt (a + i) := by
  simp only [Buf.byteAt, Array.getD_eq_getD_getElem?, Array.getElem?_extract]
  have : i < min b d.size - a := by omega
  simp [this]

theorem leN_extract (d : Buf) (a b i n : Nat) (h : a + i + n ≤ b) (hb : b ≤ d.size) :
    Buf.leN (d.extract a b) i n = d.leN (a + i) n := by
  induction n generalizing i with
  | zero => rfl
  | succ n ih =>
    simp only [Buf.leN]
    rw [byteAt_extract d a b i (by omega) hb, ih (i + 1) (by omega)]
    rfl

theorem beN_extract (d : Buf) (a b i n : Nat) (h : a + i + n ≤ b) (hb : b ≤ d.size) :
    Buf.beN (d.extract a b) i n = d.beN (a + i) n := by
  induction n generalizing i with
  | zero => rfl
  | succ n ih =>
    simp only [Buf.beN]
    rw [byteAt_extract d a b i (by omega) hb, ih (i + 1) (by omega)]
    rfl

theorem run_ret {α : Type} (a : α) (d : Buf) (s : St) : run (Prog.ret a) d s = .ok (a, s) := rfl

theorem run_read {α : Type} (n : Nat) (k : Buf → Prog α) (d : Buf) (s : St) (hn : 0 < n)
    (hfit : s.pos + n ≤ d.size) :
    run (.read n k) d s = run (k (d.extract s.pos (s.pos + n))) d (s.rd n) := by
  have : n ≠ 0 := by omega
  simp [run, this, hfit, St.rd]

theorem run_readBytes (n : Nat) (d : Buf) (s : St) (hn : 0 < n) (hfit : s.pos + n ≤ d.size) :
    run (readBytes n) d s = .ok (d.extract s.pos (s.pos + n), s.rd n) := by
  rw [readBytes, run_read n _ d s hn hfit]; rfl

theorem run_readBytes_zero (d : Buf) (s : St) : run (readBytes 0) d s = .ok (#[], s) := by
  simp [readBytes, run]

theorem run_u8 (d : Buf) (s : St) (hfit : s.pos + 1 ≤ d.size) :
    run u8 d s = .ok (d.leN s.pos 1, s.rd 1) := by
  rw [u8, run_read 1 _ d s (by omega) hfit, run_ret, leN_extract d _ _ 0 1 (by omega) hfit]; rfl

theorem run_u16le (d : Buf) (s : St) (hfit : s.pos + 2 ≤ d.size) :
    run u16le d s = .ok (d.leN s.pos 2, s.rd 2) := by
  rw [u16le, run_read 2 _ d s (by omega) hfit, run_ret, leN_extract d _ _ 0 2 (by omega) hfit]; rfl

theorem run_u32le (d : Buf) (s : St) (hfit : s.pos + 4 ≤ d.size) :
    run u32le d s = .ok (d.leN s.pos 4, s.rd 4) := by
  rw [u32le, run_read 4 _ d s (by omega) hfit, run_ret, leN_extract d _ _ 0 4 (by omega) hfit]; rfl

theorem run_u16be (d : Buf) (s : St) (hfit : s.pos + 2 ≤ d.size) :
    run u16be d s = .ok (d.beN s.pos 2, s.rd 2) := by
  rw [u16be, run_read 2 _ d s (by omega) hfit, run_ret, beN_extract d _ _ 0 2 (by omega) hfit]; rfl

theorem run_u32be (d : Buf) (s : St) (hfit : s.pos + 4 ≤ d.size) :
    run u32be d s = .ok (d.beN s.pos 4, s.rd 4) := by
  rw [u32be, run_read 4 _ d s (by omega) hfit, run_ret, beN_extract d _ _ 0 4 (by omega) hfit]; rfl

theorem run_seekStart (n : Nat) (d : Buf) (s : St) : run (seekStart n) d s = .ok ((), s.seek n) := rfl
theorem run_skip (n : Nat) (d : Buf) (s : St) : run (skip n) d s = .ok ((), s.seek (s.pos + n)) := rfl
theorem run_position (d : Buf) (s : St) : run position d s = .ok (s.pos, s) := rfl
theorem run_lift_ok {α : Type} (a : α) (d : Buf) (s : St) : run (lift (.ok a)) d s = .ok (a, s) := rfl
theorem run_require_true (e : Err) (d : Buf) (s : St) : run (require true e) d s = .ok ((), s) := rfl
theorem run_require_false (e : Err) (d : Buf) (s : St) : run (require false e) d s = .err e := rfl

theorem run_readName (enc : NameEnc) (d : Buf) (s : St) (str : Bytes)
    (h : decodeName enc (rawName d s.pos) = some str) :
    run (readName enc) d s = .ok ((), s.nm str) := by
  simp [readName, run, h, St.nm]

/-- sequencing when the first part is known -/
theorem run_bind_ok {α β : Type} {p : Prog α} {f : α → Prog β} {d : Buf} {s s' : St} {a : α}
    (h : run p d s = .ok (a, s')) : run (p >>= f) d s = run (f a) d s' := by
  rw [bind_eq, run_bind, h]

theorem run_bind_err {α β : Type} {p : Prog α} {f : α → Prog β} {d : Buf} {s : St} {e : Err}
    (h : run p d s = .err e) : run (p >>= f) d s = .err e := by
  rw [bind_eq, run_bind, h]

/-- `add32` of two values whose sum fits. -/
theorem add32_ok (p : Profile) (a b : Nat) (h : a + b < 2 ^ 32) : add32 p a b = .ok (a + b) := by
  simp [add32, addN, h]

theorem mul32_ok (p : Profile) (a b : Nat) (h : a * b < 2 ^ 32) : mul32 p a b = .ok (a * b) := by
  simp [mul32, mulN, h]

/-! ### names: a NUL-terminated string in the data is what `read_until` + `pop` return -/

theorem nameLen_of_cstr (d : Buf) (pos : Nat) (str : Bytes) (fuel : Nat)
    (hfit : pos + str.length < d.size) (hfuel : str.length < fuel)
    (hbytes : ∀ i, i < str.length → d.getD (pos + i) 0 = str.getD i 0)
    (hnz : ∀ i, i < str.length → str.getD i 0 ≠ 0)
    (hz : d.getD (pos + str.length) 0 = 0) :
    nameLen d pos fuel = str.length := by
  induction str generalizing pos fuel with
  | nil =>
    cases fuel with
    | zero => rfl
    | succ f => simp at hz; simp [nameLen, hz]
  | cons x xs ih =>
    cases fuel with
    | zero => simp at hfuel
    | succ f =>
      have h0 := hbytes 0 (by simp)
      have hx := hnz 0 (by simp)
      simp only [Nat.add_zero, List.getD_cons_zero] at h0 hx
      have hlt : pos < d.size := by simp at hfit; omega
      simp only [nameLen, hlt, h0, true_and]
      rw [if_pos hx, ih (pos + 1) f]
      · simp
      · simp at hfit ⊢; omega
      · simp at hfuel ⊢; omega
      · intro i hi
        have := hbytes (i + 1) (by simp; omega)
        simpa [Nat.add_assoc, Nat.add_comm 1 i] using this
      · intro i hi
        have := hnz (i + 1) (by simp; omega)
        simpa using this
      · simpa [Nat.add_assoc, Nat.add_comm 1] using hz

end Mila.Containers

/-! ### loops -/

namespace Mila.Containers
open Prog

/-- `repeatN p n` over records of `stride` bytes starting at `base`: every run of `p` satisfies `Q`
of its index, leaves the names alone and advances by `stride`. -/
theorem repeatN_run {α : Type} (p : Prog α) (f : Buf) (Q : Nat → α → Prop) (stride base : Nat) :
    ∀ (n k : Nat) (s : St), s.pos = base + stride * k →
      (∀ i s, k ≤ i → i < k + n → s.pos = base + stride * i →
        ∃ a s', run p f s = .ok (a, s') ∧ Q i a ∧ s'.pos = s.pos + stride ∧ s'.names = s.names ∧ s.hi ≤ s'.hi) →
      ∃ as s', run (repeatN p n) f s = .ok (as, s') ∧ as.length = n ∧
        (∀ i a, as[i]? = some a → Q (k + i) a) ∧
        s'.pos = base + stride * (k + n) ∧ s'.names = s.names ∧ s.hi ≤ s'.hi := by
  intro n
  induction n with
  | zero =>
    intro k s hs _
    exact ⟨[], s, rfl, rfl, by intro i a h; simp at h, by simpa using hs, rfl, Nat.le_refl _⟩
  | succ n ih =>
    intro k s hs hstep
    obtain ⟨a, s1, h1, hq, hp1, hn1, hh1⟩ := hstep k s (Nat.le_refl _) (by omega) hs
    obtain ⟨as, s2, h2, hl2, hq2, hp2, hn2, hh2⟩ := ih (k + 1) s1
      (by rw [hp1, hs, Nat.mul_add, Nat.mul_one, Nat.add_assoc])
      (fun i s hki hik hsp => hstep i s (by omega) (by omega) hsp)
    refine ⟨a :: as, s2, ?_, by simp [hl2], ?_, ?_, by rw [hn2, hn1], by omega⟩
    · simp only [repeatN]
      rw [run_bind, h1]
      simp only []
      rw [run_bind, h2]
      rfl
    · intro i b hb
      cases i with
      | zero => simp at hb; subst hb; simpa using hq
      | succ j =>
        simp at hb
        have := hq2 j b hb
        have e : k + 1 + j = k + (j + 1) := by omega
        rw [e] at this; exact this
    · rw [hp2]; congr 2; omega

/-- `mapM' g xs` where every item logs exactly one name (`nameOf` of its index), produces a value
satisfying `R` of its index, and reads at least up to `H` of its index. -/
theorem mapM'_run_named {α β : Type} (g : α → Prog β) (f : Buf) (R : Nat → β → Prop)
    (nameOf : Nat → Bytes) (H : Nat → Nat) :
    ∀ (xs : List α) (k : Nat) (s : St),
      (∀ i x s, xs[i]? = some x →
        ∃ b s', run (g x) f s = .ok (b, s') ∧ R (k + i) b ∧ s'.names = nameOf (k + i) :: s.names ∧
          s.hi ≤ s'.hi ∧ H (k + i) ≤ s'.hi) →
      ∃ bs s', run (mapM' g xs) f s = .ok (bs, s') ∧ bs.length = xs.length ∧
        (∀ i b, bs[i]? = some b → R (k + i) b) ∧
        s'.names = ((List.range xs.length).map (fun i => nameOf (k + i))).reverse ++ s.names ∧
        s.hi ≤ s'.hi ∧ (∀ i, i < xs.length → H (k + i) ≤ s'.hi) := by
  intro xs
  induction xs with
  | nil =>
    intro k s _
    exact ⟨[], s, rfl, rfl, by intro i b h; simp at h, by simp, Nat.le_refl _, by intro i h; simp at h⟩
  | cons x xs ih =>
    intro k s hstep
    obtain ⟨b, s1, h1, hr, hn1, hh1, hH1⟩ := hstep 0 x s (by simp)
    obtain ⟨bs, s2, h2, hl2, hr2, hn2, hh2, hH2⟩ := ih (k + 1) s1
      (fun i y s hy => by
        have := hstep (i + 1) y s (by simpa using hy)
        have e : k + (i + 1) = k + 1 + i := by omega
        rw [e] at this; exact this)
    refine ⟨b :: bs, s2, ?_, by simp [hl2], ?_, ?_, by omega, ?_⟩
    · simp only [mapM']
      rw [run_bind, h1]
      simp only []
      rw [run_bind, h2]
      rfl
    · intro i c hc
      cases i with
      | zero => simp at hc; subst hc; simpa using hr
      | succ j =>
        simp at hc
        have := hr2 j c hc
        have e : k + 1 + j = k + (j + 1) := by omega
        rw [e] at this; exact this
    · rw [hn2, hn1]
      simp only [List.length_cons, List.range_succ_eq_map, List.map_cons, List.map_map, List.reverse_cons,
        List.append_assoc, List.singleton_append, Nat.add_zero]
      congr 2
      apply List.map_congr_left
      intro i _
      simp only [Function.comp]
      congr 1; omega
    · intro i hi
      cases i with
      | zero => simp at hH1 ⊢; omega
      | succ j =>
        have := hH2 j (by simp at hi; omega)
        have e : k + 1 + j = k + (j + 1) := by omega
        rw [e] at this; exact this

/-- `mapM' g xs` where no item logs a name. -/
theorem mapM'_run_plain {α β : Type} (g : α → Prog β) (f : Buf) (R : Nat → β → Prop) :
    ∀ (xs : List α) (k : Nat) (s : St),
      (∀ i x s, xs[i]? = some x →
        ∃ b s', run (g x) f s = .ok (b, s') ∧ R (k + i) b ∧ s'.names = s.names ∧ s.hi ≤ s'.hi) →
      ∃ bs s', run (mapM' g xs) f s = .ok (bs, s') ∧ bs.length = xs.length ∧
        (∀ i b, bs[i]? = some b → R (k + i) b) ∧ s'.names = s.names ∧ s.hi ≤ s'.hi := by
  intro xs
  induction xs with
  | nil =>
    intro k s _
    exact ⟨[], s, rfl, rfl, by intro i b h; simp at h, rfl, Nat.le_refl _⟩
  | cons x xs ih =>
    intro k s hstep
    obtain ⟨b, s1, h1, hr, hn1, hh1⟩ := hstep 0 x s (by simp)
    obtain ⟨bs, s2, h2, hl2, hr2, hn2, hh2⟩ := ih (k + 1) s1
      (fun i y s hy => by
        have := hstep (i + 1) y s (by simpa using hy)
        have e : k + (i + 1) = k + 1 + i := by omega
        rw [e] at this; exact this)
    refine ⟨b :: bs, s2, ?_, by simp [hl2], ?_, by rw [hn2, hn1], by omega⟩
    · simp only [mapM']
      rw [run_bind, h1]
      simp only []
      rw [run_bind, h2]
      rfl
    · intro i c hc
      cases i with
      | zero => simp at hc; subst hc; simpa using hr
      | succ j =>
        simp at hc
        have := hr2 j c hc
        have e : k + 1 + j = k + (j + 1) := by omega
        rw [e] at this; exact this

/-- `forIdx g n k` (indices `k .. k+n`), every item logging one name. -/
theorem forIdx_run_named {β : Type} (g : Nat → Prog β) (f : Buf) (R : Nat → β → Prop)
    (nameOf : Nat → Bytes) (H : Nat → Nat) :
    ∀ (n k : Nat) (s : St),
      (∀ i s, k ≤ i → i < k + n →
        ∃ b s', run (g i) f s = .ok (b, s') ∧ R i b ∧ s'.names = nameOf i :: s.names ∧
          s.hi ≤ s'.hi ∧ H i ≤ s'.hi) →
      ∃ bs s', run (forIdx g n k) f s = .ok (bs, s') ∧ bs.length = n ∧
        (∀ i b, bs[i]? = some b → R (k + i) b) ∧
        s'.names = ((List.range n).map (fun i => nameOf (k + i))).reverse ++ s.names ∧
        s.hi ≤ s'.hi ∧ (∀ i, i < n → H (k + i) ≤ s'.hi) := by
  intro n
  induction n with
  | zero =>
    intro k s _
    exact ⟨[], s, rfl, rfl, by intro i b h; simp at h, by simp, Nat.le_refl _, by intro i h; omega⟩
  | succ n ih =>
    intro k s hstep
    obtain ⟨b, s1, h1, hr, hn1, hh1, hH1⟩ := hstep k s (Nat.le_refl _) (by omega)
    obtain ⟨bs, s2, h2, hl2, hr2, hn2, hh2, hH2⟩ := ih (k + 1) s1
      (fun i s hki hik => hstep i s (by omega) (by omega))
    refine ⟨b :: bs, s2, ?_, by simp [hl2], ?_, ?_, by omega, ?_⟩
    · simp only [forIdx]
      rw [run_bind, h1]
      simp only []
      rw [run_bind, h2]
      rfl
    · intro i c hc
      cases i with
      | zero => simp at hc; subst hc; simpa using hr
      | succ j =>
        simp at hc
        have := hr2 j c hc
        have e : k + 1 + j = k + (j + 1) := by omega
        rw [e] at this; exact this
    · rw [hn2, hn1]
      simp only [List.range_succ_eq_map, List.map_cons, List.map_map, List.reverse_cons,
        List.append_assoc, List.singleton_append, Nat.add_zero]
      congr 2
      apply List.map_congr_left
      intro i _
      simp only [Function.comp]
      congr 1; omega
    · intro i hi
      cases i with
      | zero => simp; omega
      | succ j =>
        have := hH2 j (by omega)
        have e : k + 1 + j = k + (j + 1) := by omega
        rw [e] at this; exact this

end Mila.Containers
