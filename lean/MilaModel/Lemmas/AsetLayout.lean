/-
C17: the declarative cell layout of an animation-set archive, the flag-bit facts, and the proof
that `from_archive` returns the file's value on *every* archive that shows this layout.
-/
import MilaModel.Model.Aset
import MilaModel.Lemmas.AsetCells
import MilaModel.Lemmas.AsetBits

namespace Mila.Aset
open Mila BinArchive Layered

/-! ### flag bits -/

theorem setFlags_eq (s : List (Option Str)) (i : Nat) :
    setFlags s i = orFold (fun bit => present s (i * 32 + bit + 1) = true) (List.range 32) 0 := rfl

theorem mainFlags_eq (s : List (Option Str)) :
    mainFlags s = orFold (fun g => setFlags s g ≠ 0) (List.range 8) 0 := rfl

theorem bitSet_eq (flags bit : Nat) : bitSet flags bit = flags.testBit bit :=
  and_shift_ne_zero flags bit

theorem bitSet_setFlags (s : List (Option Str)) (i j : Nat) (hj : j < 32) :
    bitSet (setFlags s i) j = present s (i * 32 + j + 1) := by
  rw [bitSet_eq, setFlags_eq, testBit_orFold]
  simp [hj]

theorem bitSet_mainFlags (s : List (Option Str)) (i : Nat) (hi : i < 8) :
    bitSet (mainFlags s) i = decide (setFlags s i ≠ 0) := by
  rw [bitSet_eq, mainFlags_eq, testBit_orFold]
  simp [hi]

theorem setFlags_lt (s : List (Option Str)) (i : Nat) : setFlags s i < 2 ^ 32 := by
  rw [setFlags_eq]; exact orFold_lt _ _ 32 (fun b hb => List.mem_range.1 hb)

theorem mainFlags_lt (s : List (Option Str)) : mainFlags s < 2 ^ 32 := by
  rw [mainFlags_eq]
  have := orFold_lt (fun g => setFlags s g ≠ 0) (List.range 8) 8 (fun b hb => List.mem_range.1 hb)
  omega

theorem setFlags_eq_zero (s : List (Option Str)) (i : Nat) :
    setFlags s i = 0 ↔ ∀ j, j < 32 → present s (i * 32 + j + 1) = false := by
  rw [setFlags_eq, orFold_eq_zero_iff]
  constructor
  · intro h j hj
    have := h j (List.mem_range.2 hj)
    simpa using this
  · intro h b hb
    simp [h b (List.mem_range.1 hb)]

theorem present_iff (s : List (Option Str)) (k : Nat) :
    present s k = true ↔ ∃ v, (s[k]?).join = some v := by
  unfold present
  cases h : s[k]? with
  | none => simp
  | some o => cases o <;> simp

theorem present_false_iff (s : List (Option Str)) (k : Nat) :
    present s k = false ↔ (s[k]?).join = none := by
  unfold present
  cases h : s[k]? with
  | none => simp
  | some o => cases o <;> simp

/-! ### layout of one set -/

/-- Cells of the present slots `j .. j+n` of group `i`. -/
def slotCells (s : List (Option Str)) (i : Nat) : Nat → Nat → List Cell
  | 0, _ => []
  | n + 1, j =>
    match (s[i * 32 + j + 1]?).join with
    | some v => .str (some v) :: slotCells s i n (j + 1)
    | none => slotCells s i n (j + 1)

/-- Values of the slots `j .. j+n` of group `i` (absent or out of range: `none`). -/
def slotVals (s : List (Option Str)) (i : Nat) : Nat → Nat → List (Option Str)
  | 0, _ => []
  | n + 1, j => (s[i * 32 + j + 1]?).join :: slotVals s i n (j + 1)

def groupCells (s : List (Option Str)) (i : Nat) : List Cell :=
  if setFlags s i ≠ 0 then .raw (leBytes 4 (setFlags s i)) :: slotCells s i 32 0 else []

def groupsCells (s : List (Option Str)) : Nat → Nat → List Cell
  | 0, _ => []
  | n + 1, i => groupCells s i ++ groupsCells s n (i + 1)

def groupsVals (s : List (Option Str)) : Nat → Nat → List (Option Str)
  | 0, _ => []
  | n + 1, i => slotVals s i 32 0 ++ groupsVals s n (i + 1)

/-- The cells of a set: main flag word, then per non-empty group its flag word and its names. -/
def setCells (s : List (Option Str)) : List Cell :=
  .raw (leBytes 4 (mainFlags s)) :: groupsCells s 8 0

/-- The value `from_archive` rebuilds for a set: its label and its 256 slots. -/
def setVal (s : List (Option Str)) : List (Option Str) := (s[0]?).join :: groupsVals s 8 0

theorem slotVals_absent (s : List (Option Str)) (i : Nat) :
    ∀ (n j : Nat), (∀ j', j ≤ j' → j' < j + n → present s (i * 32 + j' + 1) = false) →
      slotVals s i n j = List.replicate n none := by
  intro n
  induction n with
  | zero => intro j _; rfl
  | succ n ih =>
    intro j h
    simp only [slotVals, List.replicate_succ]
    rw [(present_false_iff _ _).1 (h j (Nat.le_refl _) (by omega)), ih (j + 1) (fun j' h1 h2 => h j' (by omega) (by omega))]

/-! ### the reader on a laid-out set -/

theorem readSlots_layout (b : BinArchive) (s : List (Option Str)) (i flags : Nat) :
    ∀ (n j p : Nat), (∀ j', j ≤ j' → j' < j + n → bitSet flags j' = present s (i * 32 + j' + 1)) →
      cellsAt b p (slotCells s i n j) →
      readSlots b flags n j ⟨p⟩ = .ok (slotVals s i n j, ⟨p + 4 * (slotCells s i n j).length⟩) := by
  intro n
  induction n with
  | zero => intro j p _ _; simp [readSlots, slotVals, slotCells]
  | succ n ih =>
    intro j p hb hc
    have hbit := hb j (Nat.le_refl _) (by omega)
    have hb' : ∀ j', j + 1 ≤ j' → j' < j + 1 + n → bitSet flags j' = present s (i * 32 + j' + 1) :=
      fun j' h1 h2 => hb j' (by omega) (by omega)
    unfold readSlots
    cases hv : (s[i * 32 + j + 1]?).join with
    | some v =>
      have hp : present s (i * 32 + j + 1) = true := (present_iff _ _).2 ⟨v, hv⟩
      simp only [slotCells, hv] at hc ⊢
      rw [hbit, hp, if_pos rfl, readString_str hc.1]
      simp only
      rw [ih (j + 1) (p + 4) hb' hc.2]
      simp only [slotVals, hv, List.length_cons, Res.ok.injEq, Prod.mk.injEq, true_and]
      congr 1; omega
    | none =>
      have hp : present s (i * 32 + j + 1) = false := (present_false_iff _ _).2 hv
      simp only [slotCells, hv] at hc ⊢
      rw [hbit, hp, if_neg (by simp)]
      rw [ih (j + 1) p hb' hc]
      simp only [slotVals, hv]

theorem readGroups_layout (b : BinArchive) (s : List (Option Str)) (he : b.endian = .little) :
    ∀ (n i p : Nat), i + n ≤ 8 → cellsAt b p (groupsCells s n i) →
      readGroups b (mainFlags s) n i ⟨p⟩
        = .ok (groupsVals s n i, ⟨p + 4 * (groupsCells s n i).length⟩) := by
  intro n
  induction n with
  | zero => intro i p _ _; simp [readGroups, groupsVals, groupsCells]
  | succ n ih =>
    intro i p hi hc
    unfold readGroups
    rw [bitSet_mainFlags s i (by omega)]
    simp only [groupsCells] at hc ⊢
    rw [cellsAt_append] at hc
    by_cases hz : setFlags s i = 0
    · have hg : groupCells s i = [] := by simp [groupCells, hz]
      rw [hg] at hc ⊢
      simp only [hz, ne_eq, not_true_eq_false, decide_false, Bool.false_eq_true, if_false]
      have h2 := hc.2
      simp only [List.length_nil, Nat.mul_zero, Nat.add_zero] at h2
      rw [ih (i + 1) p (by omega) h2]
      simp only [groupsVals, List.nil_append]
      rw [slotVals_absent s i 32 0 (fun j' _ h2 => (setFlags_eq_zero s i).1 hz j' (by omega))]
    · have hg : groupCells s i = .raw (leBytes 4 (setFlags s i)) :: slotCells s i 32 0 := by
        simp [groupCells, hz]
      rw [hg] at hc ⊢
      simp only [ne_eq, hz, not_false_eq_true, decide_true, if_true]
      obtain ⟨⟨hc1, hc2⟩, hc3⟩ := hc
      rw [readU32_raw he hc1, ofLe_leBytes4 _ (setFlags_lt s i)]
      simp only
      rw [readSlots_layout b s i (setFlags s i) 32 0 (p + 4)
        (fun j' _ h2 => bitSet_setFlags s i j' (by omega)) hc2]
      simp only
      have : p + 4 + 4 * (slotCells s i 32 0).length
          = p + 4 * (Cell.raw (leBytes 4 (setFlags s i)) :: slotCells s i 32 0).length := by
        simp only [List.length_cons]; omega
      rw [this, ih (i + 1) _ (by omega) hc3]
      simp only [groupsVals, List.length_append, Res.ok.injEq, Prod.mk.injEq, true_and]
      congr 1; simp only [List.length_cons]; omega

/-- First label of the bucket at `p`, as `read_label(0)` returns it. -/
def labelAt (b : BinArchive) (p : Nat) : Option Str :=
  match b.labels.get p with
  | some bucket => bucket[0]?
  | none => none

theorem readLabel_at {b : BinArchive} {p : Nat} (h : p + 4 ≤ b.size) :
    Reader.readLabel b ⟨p⟩ 0 = .ok (labelAt b p) := by
  unfold Reader.readLabel BinArchive.readLabels labelAt
  simp only [validateCell_ok (by decide : 0 < 4) h]
  cases b.labels.get p <;> rfl

theorem readSet_layout (b : BinArchive) (s : List (Option Str)) (he : b.endian = .little) (p : Nat)
    (hc : cellsAt b p (setCells s)) :
    readSet b ⟨p⟩ = .ok (labelAt b p :: groupsVals s 8 0, ⟨p + 4 * (setCells s).length⟩) := by
  unfold setCells at hc
  obtain ⟨hc1, hc2⟩ := hc
  unfold readSet
  rw [readLabel_at hc1.1]
  simp only
  rw [readU32_raw he hc1, ofLe_leBytes4 _ (mainFlags_lt s)]
  simp only
  rw [readGroups_layout b s he 8 0 (p + 4) (by omega) hc2]
  simp only [setCells, List.length_cons, Res.ok.injEq, Prod.mk.injEq, true_and]
  congr 1; omega

/-! ### the sets region -/

def setsCells (sets : List (List (Option Str))) : List Cell := sets.flatMap setCells

/-- Every set's first label is the set's entry 0. -/
def labelsAt (b : BinArchive) : Nat → List (List (Option Str)) → Prop
  | _, [] => True
  | p, s :: rest => labelAt b p = (s[0]?).join ∧ labelsAt b (p + 4 * (setCells s).length) rest

theorem setCells_length_pos (s : List (Option Str)) : 0 < (setCells s).length := by
  simp [setCells]

theorem readSets_layout (b : BinArchive) (he : b.endian = .little) :
    ∀ (sets : List (List (Option Str))) (p : Nat) (acc : List (List (Option Str))),
      b.size = p + 4 * (setsCells sets).length → labelsAt b p sets → cellsAt b p (setsCells sets) →
      readSets b ⟨p⟩ acc = .ok (acc ++ sets.map setVal) := by
  intro sets
  induction sets with
  | nil =>
    intro p acc hs _ _
    rw [readSets]
    simp only [setsCells, List.flatMap_nil, List.length_nil, Nat.mul_zero, Nat.add_zero] at hs
    simp [hs]
  | cons s rest ih =>
    intro p acc hs hl hc
    simp only [setsCells, List.flatMap_cons, List.length_append] at hs hc
    rw [cellsAt_append] at hc
    have hpos := setCells_length_pos s
    have hread := readSet_layout b s he p hc.1
    rw [readSets]
    have hlt : p < b.size := by omega
    simp only [hlt, if_true]
    split
    · rename_i set r' heq
      rw [hread] at heq
      simp only [Res.ok.injEq, Prod.mk.injEq] at heq
      rw [← heq.1, ← heq.2]
      rw [ih (p + 4 * (setCells s).length) _ (by simp only [setsCells]; omega) hl.2 hc.2]
      simp only [List.map_cons, List.append_assoc, List.singleton_append, setVal, hl.1]
    · rename_i e heq; rw [hread] at heq; simp at heq
    · rename_i heq; rw [hread] at heq; simp at heq

/-! ### the whole file -/

def headerCells (f : ASetFile) : List Cell :=
  [.raw (leBytes 4 4), .str f.metaStr, .raw (leBytes 4 0x100)] ++ f.animClipTable.map .str

def fileCells (f : ASetFile) : List Cell := headerCells f ++ setsCells f.sets

/-- The declarative layout of an animation-set archive holding `f`.  Only lookups are mentioned
(size, bytes of raw cells, string per cell, label bucket per address), so that the layout is
carried along `SameContent`. -/
structure Layout (f : ASetFile) (b : BinArchive) : Prop where
  little : b.endian = .little
  size : b.size = 4 * (fileCells f).length
  cells : cellsAt b 0 (fileCells f)
  table : ∃ bucket, b.labels.get 12 = some bucket ∧ tableLabel ∈ bucket
  lowest : ∀ x, b.labels.get x ≠ none → 12 ≤ x
  labels : labelsAt b (4 * (headerCells f).length) f.sets

theorem findLabelAddress_lowest (b : BinArchive) (t : Str) (k : Nat)
    (h1 : ∃ bucket, b.labels.get k = some bucket ∧ t ∈ bucket)
    (h2 : ∀ x, b.labels.get x ≠ none → k ≤ x) : b.findLabelAddress t = some k := by
  obtain ⟨bucket, hb, ht⟩ := h1
  unfold BinArchive.findLabelAddress
  rw [List.min?_eq_some_iff]
  constructor
  · simp only [List.mem_map, List.mem_filter]
    exact ⟨(k, bucket), ⟨UMap.mem_of_get hb, by simpa using ht⟩, rfl⟩
  · intro x hx
    simp only [List.mem_map, List.mem_filter] at hx
    obtain ⟨⟨x', bk⟩, ⟨hm, _⟩, rfl⟩ := hx
    exact h2 x' (UMap.get_ne_none_of_mem hm)

theorem readTable_layout (b : BinArchive) :
    ∀ (t : List (Option Str)) (p : Nat), cellsAt b p (t.map .str) →
      readTable b t.length ⟨p⟩ = .ok (t, ⟨p + 4 * t.length⟩) := by
  intro t
  induction t with
  | nil => intro p _; simp [readTable]
  | cons x t ih =>
    intro p hc
    simp only [List.map_cons] at hc
    simp only [List.length_cons, readTable]
    rw [readString_str hc.1]
    simp only
    rw [ih (p + 4) hc.2]
    simp only [Res.ok.injEq, Prod.mk.injEq, true_and]
    congr 1; omega

/-- **Reader correctness**: on every archive with the layout of `f`, `from_archive` returns `f`
(with each set rebuilt as label + 256 slots). -/
theorem fromArchive_layout (f : ASetFile) (b : BinArchive) (hlen : f.animClipTable.length = 257)
    (h : Layout f b) : fromArchive b = .ok ⟨f.metaStr, f.animClipTable, f.sets.map setVal⟩ := by
  have hc := h.cells
  unfold fileCells headerCells at hc
  rw [cellsAt_append, cellsAt_append] at hc
  obtain ⟨⟨hc1, hc2⟩, hc3⟩ := hc
  have hmeta : cellAt b 4 (.str f.metaStr) := hc1.2.1
  simp only [List.length_cons, List.length_nil, List.length_append, List.length_map] at hc2 hc3
  unfold fromArchive
  simp only [findLabelAddress_lowest b tableLabel 12 h.table h.lowest, Reader.skip]
  rw [readString_str hmeta]
  simp only [Reader.seek]
  have ht := readTable_layout b f.animClipTable 12 (by simpa using hc2)
  rw [hlen] at ht
  rw [ht]
  simp only
  have hsz : b.size = 12 + 4 * 257 + 4 * (setsCells f.sets).length := by
    rw [h.size]; simp only [fileCells, headerCells, List.length_append, List.length_cons,
      List.length_nil, List.length_map, hlen]
    omega
  have hl := h.labels
  simp only [headerCells, List.length_append, List.length_cons, List.length_nil, List.length_map, hlen] at hl
  rw [readSets_layout b h.little f.sets (12 + 4 * 257) [] hsz hl (by rw [hlen] at hc3; simpa using hc3)]
  simp

/-- The layout only mentions lookups, so it is carried along `SameContent`. -/
theorem labelsAt_transfer {a b : BinArchive} (h : SameContent a b) :
    ∀ (sets : List (List (Option Str))) (p : Nat), labelsAt a p sets → labelsAt b p sets := by
  intro sets
  induction sets with
  | nil => intro _ _; trivial
  | cons s rest ih =>
    intro p hl
    refine ⟨?_, ih _ hl.2⟩
    have := hl.1
    unfold labelAt at this ⊢
    rw [h.labels]; exact this

theorem Layout.transfer {f : ASetFile} {a b : BinArchive} (hp : Plain a) (hl : Layout f a)
    (h : SameContent a b) : Layout f b := by
  refine ⟨by rw [h.endian]; exact hl.little, by rw [h.size]; exact hl.size,
    cellsAt_transfer hp h _ 0 (by decide) hl.cells, ?_, ?_, labelsAt_transfer h _ _ hl.labels⟩
  · obtain ⟨bk, h1, h2⟩ := hl.table
    exact ⟨bk, by rw [h.labels]; exact h1, h2⟩
  · intro x hx; rw [h.labels] at hx; exact hl.lowest x hx

end Mila.Aset
