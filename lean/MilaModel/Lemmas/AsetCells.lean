/-
Shared lemmas for the two layered formats (C17 animation sets, C18 asset binaries): association
list lookups, byte slices and patches, and a *declarative cell layout* of a bin archive:
`cellsAt a p cs` says that from address `p` on the archive shows the 4-byte cells `cs` — a raw cell
with given bytes (and no string on it) or a string cell with a given (optional) string.
Readers are proved against the layout (any archive that has it), writers establish it.
-/
import MilaModel.Model.BinStreams

namespace Mila

/-! ### `UMap` lookups -/
namespace UMap
variable {κ ν : Type} [DecidableEq κ]

theorem get_nil (k : κ) : get ([] : UMap κ ν) k = none := rfl

theorem get_cons (p : κ × ν) (m : UMap κ ν) (k : κ) :
    get (p :: m) k = if p.1 = k then some p.2 else get m k := by
  unfold get
  by_cases h : p.1 = k <;> simp [h]

theorem get_eq_none_of_not_any {m : UMap κ ν} {k : κ} (h : m.any (fun p => p.1 = k) = false) :
    get m k = none := by
  induction m with
  | nil => rfl
  | cons p m ih =>
    simp only [List.any_cons, Bool.or_eq_false_iff, decide_eq_false_iff_not] at h
    rw [get_cons, if_neg h.1]; exact ih h.2

theorem any_of_get_ne_none {m : UMap κ ν} {k : κ} (h : get m k ≠ none) :
    m.any (fun p => p.1 = k) = true := by
  cases hh : m.any (fun p => p.1 = k) with
  | true => rfl
  | false => exact absurd (get_eq_none_of_not_any hh) h

private theorem get_map_repl_ne (m : UMap κ ν) (k k' : κ) (v : ν) (hne : k' ≠ k) :
    get (m.map (fun p => if p.1 = k then (k, v) else p)) k' = get m k' := by
  induction m with
  | nil => rfl
  | cons p m ih =>
    simp only [List.map_cons, get_cons]
    by_cases hp : p.1 = k
    · have h1 : ¬ k = k' := fun e => hne e.symm
      have h2 : ¬ p.1 = k' := fun e => hne (e ▸ hp.symm ▸ rfl)
      simp [hp, h1, ih]
    · simp [hp, ih]

private theorem get_map_repl_self (m : UMap κ ν) (k : κ) (v : ν)
    (h : m.any (fun p => p.1 = k) = true) :
    get (m.map (fun p => if p.1 = k then (k, v) else p)) k = some v := by
  induction m with
  | nil => simp at h
  | cons p m ih =>
    simp only [List.map_cons, get_cons]
    by_cases hp : p.1 = k
    · simp [hp]
    · simp only [List.any_cons, hp, decide_false, Bool.false_or] at h
      simp [hp, ih h]

private theorem get_append_single (m : UMap κ ν) (k k' : κ) (v : ν) :
    get (m ++ [(k, v)]) k' = match get m k' with
      | some x => some x
      | none => if k = k' then some v else none := by
  induction m with
  | nil => simp [get_cons, get_nil]
  | cons p m ih =>
    simp only [List.cons_append, get_cons]
    by_cases hp : p.1 = k' <;> simp [hp, ih]

theorem get_insert (m : UMap κ ν) (k k' : κ) (v : ν) :
    get (insert m k v) k' = if k' = k then some v else get m k' := by
  unfold insert
  by_cases hany : m.any (fun p => p.1 = k) = true
  · rw [if_pos hany]
    by_cases hk : k' = k
    · subst hk; rw [if_pos rfl]; exact get_map_repl_self m _ v hany
    · rw [if_neg hk]; exact get_map_repl_ne m k k' v hk
  · rw [if_neg hany]
    have hany' : m.any (fun p => p.1 = k) = false := by
      cases hh : m.any (fun p => p.1 = k) with
      | true => exact absurd hh hany
      | false => rfl
    rw [get_append_single]
    by_cases hk : k' = k
    · subst hk; rw [if_pos rfl, get_eq_none_of_not_any hany']; simp
    · rw [if_neg hk]
      have : ¬ k = k' := fun e => hk e.symm
      cases get m k' <;> simp [this]

theorem get_remove (m : UMap κ ν) (k k' : κ) :
    get (remove m k) k' = if k' = k then none else get m k' := by
  unfold remove
  induction m with
  | nil => simp [get_nil]
  | cons p m ih =>
    by_cases hp : p.1 = k
    · simp only [List.filter_cons, hp, not_true_eq_false, decide_false, Bool.false_eq_true, if_false, ih, get_cons]
      by_cases hk : k' = k
      · simp [hk]
      · have : ¬ k = k' := fun e => hk e.symm
        simp [hk, this]
    · simp only [List.filter_cons, hp, not_false_eq_true, decide_true, if_true, get_cons, ih]
      by_cases hk : k' = k
      · have : ¬ p.1 = k' := fun e => hp (e.trans hk)
        simp [hk]
        intro e; exact absurd e hp
      · simp [hk]

/-- A key that is looked up successfully belongs to an entry of the list. -/
theorem mem_of_get {m : UMap κ ν} {k : κ} {v : ν} (h : get m k = some v) : (k, v) ∈ m := by
  induction m with
  | nil => simp [get_nil] at h
  | cons p m ih =>
    rw [get_cons] at h
    by_cases hp : p.1 = k
    · rw [if_pos hp] at h
      have : p = (k, v) := by cases p; simp_all
      simp [this]
    · rw [if_neg hp] at h
      exact List.mem_cons_of_mem _ (ih h)

theorem get_ne_none_of_mem {m : UMap κ ν} {k : κ} {v : ν} (h : (k, v) ∈ m) : get m k ≠ none := by
  induction m with
  | nil => simp at h
  | cons p m ih =>
    rw [get_cons]
    by_cases hp : p.1 = k
    · simp [hp]
    · rw [if_neg hp]
      rcases List.mem_cons.1 h with e | e
      · exact absurd (by rw [← e]) hp
      · exact ih e

end UMap

/-! ### slices and patches -/
namespace BinArchive

theorem getElem?_slice (d : Bytes) (p n i : Nat) :
    (slice d p n)[i]? = if i < n then d[p + i]? else none := by
  unfold slice
  rw [List.getElem?_take]
  by_cases h : i < n <;> simp [h, List.getElem?_drop]

theorem length_slice (d : Bytes) (p n : Nat) (h : p + n ≤ d.length) : (slice d p n).length = n := by
  unfold slice; simp; omega

theorem getElem?_patch (d : Bytes) (q : Nat) (v : Bytes) (i : Nat) (h : q + v.length ≤ d.length) :
    (patch d q v)[i]? = if q ≤ i ∧ i < q + v.length then v[i - q]? else d[i]? := by
  unfold patch
  have hq : (d.take q).length = q := by simp; omega
  rw [List.append_assoc, List.getElem?_append, hq]
  by_cases h1 : i < q
  · simp [h1]
    intro h2; omega
  · rw [if_neg h1, List.getElem?_append]
    by_cases h2 : i - q < v.length
    · rw [if_pos h2, if_pos (by omega)]
    · rw [if_neg h2, if_neg (by omega), List.getElem?_drop]
      congr 1; omega

theorem length_patch (d : Bytes) (q : Nat) (v : Bytes) (h : q + v.length ≤ d.length) :
    (patch d q v).length = d.length := by
  unfold patch; simp; omega

theorem slice_patch_before (d : Bytes) (q : Nat) (v : Bytes) (p n : Nat)
    (h : q + v.length ≤ d.length) (hp : p + n ≤ q) : slice (patch d q v) p n = slice d p n := by
  apply List.ext_getElem?
  intro i
  rw [getElem?_slice, getElem?_slice]
  by_cases hi : i < n
  · rw [if_pos hi, if_pos hi, getElem?_patch _ _ _ _ h, if_neg (by omega)]
  · rw [if_neg hi, if_neg hi]

theorem slice_patch_self (d : Bytes) (q : Nat) (v : Bytes) (h : q + v.length ≤ d.length) :
    slice (patch d q v) q v.length = v := by
  apply List.ext_getElem?
  intro i
  rw [getElem?_slice]
  by_cases hi : i < v.length
  · rw [if_pos hi, getElem?_patch _ _ _ _ h, if_pos (by omega)]
    congr 1; omega
  · rw [if_neg hi]; symm; apply List.getElem?_eq_none; omega

theorem slice_append_left (d e : Bytes) (p n : Nat) (h : p + n ≤ d.length) :
    slice (d ++ e) p n = slice d p n := by
  apply List.ext_getElem?
  intro i
  rw [getElem?_slice, getElem?_slice]
  by_cases hi : i < n
  · rw [if_pos hi, if_pos hi, List.getElem?_append, if_pos (by omega)]
  · rw [if_neg hi, if_neg hi]

theorem patch_patch_adjacent (d : Bytes) (q : Nat) (b : UInt8) (v : Bytes)
    (h : q + (v.length + 1) ≤ d.length) :
    patch (patch d q [b]) (q + 1) v = patch d q (b :: v) := by
  have h1 : q + [b].length ≤ d.length := by simp; omega
  have hl : (patch d q [b]).length = d.length := length_patch _ _ _ h1
  apply List.ext_getElem?
  intro i
  rw [getElem?_patch _ _ _ _ (by rw [hl]; omega), getElem?_patch _ _ _ _ h1,
    getElem?_patch _ _ _ _ (by simpa using h)]
  by_cases c1 : q + 1 ≤ i ∧ i < q + 1 + v.length
  · rw [if_pos c1, if_pos (by simp; omega)]
    have : i - q = (i - (q + 1)) + 1 := by omega
    rw [this, List.getElem?_cons_succ]
  · rw [if_neg c1]
    by_cases c2 : i = q
    · subst c2; simp
    · rw [if_neg (by simp; omega), if_neg (by simp; omega)]

theorem patch_append (d : Bytes) (q : Nat) (v1 v2 : Bytes) (h : q + (v1.length + v2.length) ≤ d.length) :
    patch d q (v1 ++ v2) = patch (patch d q v1) (q + v1.length) v2 := by
  have h1 : q + v1.length ≤ d.length := by omega
  have hl : (patch d q v1).length = d.length := length_patch _ _ _ h1
  apply List.ext_getElem?
  intro i
  rw [getElem?_patch _ _ _ _ (by simpa using h), getElem?_patch _ _ _ _ (by rw [hl]; omega),
    getElem?_patch _ _ _ _ h1]
  simp only [List.length_append]
  by_cases c1 : q ≤ i ∧ i < q + v1.length
  · rw [if_pos (by omega), if_neg (by omega), if_pos c1, List.getElem?_append, if_pos (by omega)]
  · by_cases c2 : q + v1.length ≤ i ∧ i < q + v1.length + v2.length
    · rw [if_pos (by omega), if_pos c2, List.getElem?_append, if_neg (by omega)]
      congr 1; omega
    · rw [if_neg (by omega), if_neg c2, if_neg c1]

theorem slice_append_right (d e : Bytes) : slice (d ++ e) d.length e.length = e := by
  unfold slice; simp

theorem slice_succ (d : Bytes) (p n : Nat) (h : p < d.length) :
    slice d p (n + 1) = d[p] :: slice d (p + 1) n := by
  apply List.ext_getElem?
  intro i
  rw [getElem?_slice]
  cases i with
  | zero => simp [h]
  | succ i =>
    rw [List.getElem?_cons_succ, getElem?_slice]
    by_cases hi : i < n
    · rw [if_pos hi, if_pos (by omega)]; congr 1; omega
    · rw [if_neg hi, if_neg (by omega)]

theorem slice_add (d : Bytes) (p n m : Nat) :
    slice d p (n + m) = slice d p n ++ slice d (p + n) m := by
  unfold slice
  rw [List.take_add, List.drop_drop]

end BinArchive

/-! ### little-endian words -/

theorem ofLe_leBytes (k n : Nat) : ofLe (leBytes k n) = n % 256 ^ k := by
  induction k generalizing n with
  | zero => simp [leBytes, ofLe, Nat.mod_one]
  | succ k ih =>
    simp only [leBytes, ofLe, ih]
    have : (UInt8.ofNat (n % 256)).toNat = n % 256 := by
      simp [UInt8.toNat_ofNat']
    rw [this, Nat.pow_succ]
    have h := Nat.mod_mul_right_div_self n 256 (256 ^ k)
    have h2 : n % (256 ^ k * 256) = n % (256 * 256 ^ k) := by rw [Nat.mul_comm]
    rw [h2, Nat.mod_mul, Nat.add_comm]

theorem ofLe_leBytes4 (n : Nat) (h : n < 2 ^ 32) : ofLe (leBytes 4 n) = n := by
  rw [ofLe_leBytes]; exact Nat.mod_eq_of_lt (by simpa using h)

theorem length_leBytes (k n : Nat) : (leBytes k n).length = k := by
  induction k generalizing n with
  | zero => rfl
  | succ k ih => simp [leBytes, ih]

theorem leBytes_ofLe4 (v : Bytes) (h : v.length = 4) : leBytes 4 (ofLe v) = v := by
  match v, h with
  | [a, b, c, d], _ =>
    simp only [leBytes, ofLe]
    have ha := a.toNat_lt; have hb := b.toNat_lt; have hc := c.toNat_lt; have hd := d.toNat_lt
    simp only [Nat.mul_zero, Nat.add_zero]
    refine List.cons_eq_cons.2 ⟨?_, List.cons_eq_cons.2 ⟨?_, List.cons_eq_cons.2 ⟨?_, List.cons_eq_cons.2 ⟨?_, rfl⟩⟩⟩⟩
    all_goals (apply UInt8.toNat_inj.1; simp [UInt8.toNat_ofNat']; try omega)

namespace Layered
open BinArchive

/-! ### the cell layout -/

inductive Cell
  | raw (v : Bytes)
  | str (s : Option Str)
  deriving Repr

/-- The archive shows cell `c` at address `p`. -/
def cellAt (a : BinArchive) (p : Nat) : Cell → Prop
  | .raw v => p + 4 ≤ a.size ∧ slice a.data p 4 = v ∧ a.text.get p = none
  | .str s => p + 4 ≤ a.size ∧ a.text.get p = s

def cellsAt (a : BinArchive) : Nat → List Cell → Prop
  | _, [] => True
  | p, c :: cs => cellAt a p c ∧ cellsAt a (p + 4) cs

theorem cellsAt_append (a : BinArchive) (p : Nat) (xs ys : List Cell) :
    cellsAt a p (xs ++ ys) ↔ cellsAt a p xs ∧ cellsAt a (p + 4 * xs.length) ys := by
  induction xs generalizing p with
  | nil => simp [cellsAt]
  | cons x xs ih =>
    simp only [List.cons_append, cellsAt, ih, List.length_cons]
    have : p + 4 + 4 * xs.length = p + 4 * (xs.length + 1) := by omega
    rw [this, and_assoc]

/-- Layouts are preserved by any change that keeps every cell below `lim`. -/
theorem cellsAt_mono {a a' : BinArchive} {lim : Nat}
    (h : ∀ p c, p + 4 ≤ lim → cellAt a p c → cellAt a' p c) :
    ∀ (cs : List Cell) (p : Nat), p + 4 * cs.length ≤ lim → cellsAt a p cs → cellsAt a' p cs := by
  intro cs
  induction cs with
  | nil => intro p _ _; trivial
  | cons c cs ih =>
    intro p hl hc
    simp only [List.length_cons] at hl
    exact ⟨h p c (by omega) hc.1, ih (p + 4) (by omega) hc.2⟩

/-! ### reading cells -/

theorem validateCell_ok {a : BinArchive} {p w : Nat} (hw : 0 < w) (h : p + w ≤ a.size) :
    validateCell a p w = .ok () := by
  unfold validateCell validateAddress
  have h1 : ¬ p ≥ a.size := by omega
  have h2 : ¬ p + w > a.size := by omega
  simp [h1, h2]

theorem validateCell_err {a : BinArchive} {p w : Nat} (h : a.size < p + w) :
    validateCell a p w = .err .OutOfBounds := by
  unfold validateCell validateAddress
  by_cases h1 : p ≥ a.size
  · simp [h1]
  · have h2 : p + w > a.size := by omega
    simp [h1, h2]

theorem readU32_raw {a : BinArchive} {p : Nat} {v : Bytes} (he : a.endian = .little)
    (h : cellAt a p (.raw v)) : Reader.readU32 a ⟨p⟩ = .ok (ofLe v, ⟨p + 4⟩) := by
  obtain ⟨hs, hv, _⟩ := h
  unfold Reader.readU32 Reader.step BinArchive.readU32 readUInt
  simp [validateCell_ok (by decide : 0 < 4) hs, he, Endian.dec, hv]

theorem readString_str {a : BinArchive} {p : Nat} {s : Option Str}
    (h : cellAt a p (.str s)) : Reader.readString a ⟨p⟩ = .ok (s, ⟨p + 4⟩) := by
  obtain ⟨hs, hv⟩ := h
  unfold Reader.readString Reader.step BinArchive.readString
  simp [validateCell_ok (by decide : 0 < 4) hs, hv]

theorem readString_eof {a : BinArchive} {p : Nat} (h : a.size < p + 4) :
    Reader.readString a ⟨p⟩ = .err .OutOfBounds := by
  unfold Reader.readString Reader.step BinArchive.readString
  simp [validateCell_err h]

/-- A byte-range read inside the data returns the slice.  (`a.size < 2^64`: sizes are `usize`;
the proof covers both forms of the shared `Reader.readBytes` — byte-by-byte and, after the
`read_bytes` repair in `/repo`, one positional range read with its overflow check.) -/
theorem readBytes_slice (a : BinArchive) (hsmall : a.size < 2 ^ 64) :
    ∀ (n p : Nat), p + n ≤ a.size → Reader.readBytes a ⟨p⟩ n = .ok (slice a.data p n, ⟨p + n⟩) := by
  first
  | (intro n
     induction n with
     | zero => intro p _; simp [Reader.readBytes, slice]
     | succ n ih =>
       intro p h
       have hp : p < a.data.length := by unfold size at h; omega
       unfold Reader.readBytes Reader.readU8 Reader.step BinArchive.readU8 validateAddress
       have h1 : ¬ p ≥ a.size := by omega
       simp only [h1, Bool.false_and, Bool.not_false, Bool.true_and, decide_false, Bool.or_self]
       simp only [Bool.false_eq_true, if_false]
       rw [ih (p + 1) (by omega)]
       simp only [Res.ok.injEq, Prod.mk.injEq]
       refine ⟨?_, by congr 1; omega⟩
       rw [slice_succ _ _ _ hp]
       congr 1
       rw [List.getD_eq_getElem?_getD, List.getElem?_eq_getElem hp]
       simp)
  | (intro n p h
     unfold Reader.readBytes
     by_cases h0 : n = 0
     · subst h0; simp [slice]
     · rw [if_neg h0]
       unfold BinArchive.readBytes validateRange validateAddress
       have h1 : ¬ p ≥ a.size := by omega
       have h2 : ¬ p + n ≥ 2 ^ 64 := by omega
       have h3 : ¬ p + n > a.size := by omega
       simp [h1, h2, h3])

theorem readU8_at {a : BinArchive} {p : Nat} (h : p < a.size) :
    Reader.readU8 a ⟨p⟩ = .ok ((a.data.getD p 0).toNat, ⟨p + 1⟩) := by
  unfold Reader.readU8 Reader.step BinArchive.readU8 validateAddress
  have h1 : ¬ p ≥ a.size := by omega
  simp [h1]

/-! ### what the bin-archive round trip (C01) preserves

`SameContent a b`: `b` has the content of `a` — same size and endianness, the same string,
pointer and label on every cell, and the same bytes on every 4-byte range that no string or
pointer cell of `a` overlaps (the words stored *in* string and pointer cells are file offsets and
do change).  This is the conclusion of property C01 for `b = parse (serialize a)`; the file-level
theorems of C17/C18 take it as a hypothesis. -/
structure SameContent (a b : BinArchive) : Prop where
  size : b.size = a.size
  endian : b.endian = a.endian
  text : ∀ x, b.text.get x = a.text.get x
  pointers : ∀ x, b.pointers.get x = a.pointers.get x
  labels : ∀ x, b.labels.get x = a.labels.get x
  raw : ∀ p, p + 4 ≤ a.size →
    (∀ q, q < p + 4 → p < q + 4 → a.text.get q = none ∧ a.pointers.get q = none) →
    slice b.data p 4 = slice a.data p 4

/-- Property C01 instantiated at one archive: what `serialize` writes, `parse` reads back with the
same content.  Proved (for every well-formed archive over a faithful codec) by the C01 property;
here it is a named hypothesis of the file-level theorems. -/
def BinRoundTrip (c : Codec) (a : BinArchive) : Prop :=
  ∀ bytes, a.serialize c = .ok bytes →
    ∃ b, BinArchive.parse c a.endian bytes = .ok b ∧ SameContent a b

theorem SameContent.refl (a : BinArchive) : SameContent a a :=
  ⟨rfl, rfl, fun _ => rfl, fun _ => rfl, fun _ => rfl, fun _ _ _ => rfl⟩

/-- Archives written by the two formats: strings sit on 4-aligned cells, no pointers. -/
structure Plain (a : BinArchive) : Prop where
  aligned : ∀ x, a.text.get x ≠ none → x % 4 = 0
  noptr : a.pointers = []

/-- A layout that starts on an aligned address transfers along `SameContent`. -/
theorem cellsAt_transfer {a b : BinArchive} (hp : Plain a) (h : SameContent a b) :
    ∀ (cs : List Cell) (p : Nat), p % 4 = 0 → cellsAt a p cs → cellsAt b p cs := by
  intro cs
  induction cs with
  | nil => intro p _ _; trivial
  | cons c cs ih =>
    intro p hal hc
    refine ⟨?_, ih (p + 4) (by omega) hc.2⟩
    cases c with
    | str s =>
      obtain ⟨h1, h2⟩ := hc.1
      exact ⟨by rw [h.size]; exact h1, by rw [h.text]; exact h2⟩
    | raw v =>
      obtain ⟨h1, h2, h3⟩ := hc.1
      refine ⟨by rw [h.size]; exact h1, ?_, by rw [h.text]; exact h3⟩
      rw [h.raw p h1, h2]
      intro q hq1 hq2
      refine ⟨?_, by rw [hp.noptr]; rfl⟩
      by_cases hq : q = p
      · rw [hq]; exact h3
      · cases hh : a.text.get q with
        | none => rfl
        | some s =>
          have := hp.aligned q (by rw [hh]; simp)
          omega

end Layered
end Mila
