/-
Soundness of the executable conformance oracle used by the driver: if `conformsCheck` finds no
violated clause, the declarative relation `Conforms` holds.
-/
import MilaModel.Spec.ArchiveImage

namespace Mila.Ser
open Spec.Image

theorem wordsFrom_spec (e : Endian) (f : Bytes) : ∀ (n pos : Nat) (t : List Nat),
    wordsFrom e f pos n = some t →
    t.length = n ∧ ∀ i, (h : i < t.length) → wordAt e f (pos + 4 * i) = some t[i] := by
  intro n
  induction n with
  | zero =>
    intro pos t h
    simp only [wordsFrom, Option.some.injEq] at h
    subst h
    exact ⟨rfl, fun i h => absurd h (by simp)⟩
  | succ n ih =>
    intro pos t h
    simp only [wordsFrom] at h
    cases hw : wordAt e f pos with
    | none => rw [hw] at h; cases h
    | some w =>
      cases hr : wordsFrom e f (pos + 4) n with
      | none => rw [hw, hr] at h; cases h
      | some r =>
        rw [hw, hr] at h
        simp only [Option.bind_eq_bind, Option.bind_some, Option.pure_def, Option.some.injEq] at h
        subst h
        obtain ⟨hl, hi⟩ := ih (pos + 4) r hr
        refine ⟨by simp [hl], ?_⟩
        intro i h
        cases i with
        | zero => simpa using hw
        | succ i =>
          have := hi i (by simpa using h)
          simp only [List.getElem_cons_succ]
          rw [← this]; congr 1; omega

theorem pairsFrom_spec (e : Endian) (f : Bytes) : ∀ (n pos : Nat) (t : List (Nat × Nat)),
    pairsFrom e f pos n = some t →
    t.length = n ∧ ∀ i, (h : i < t.length) →
      wordAt e f (pos + 8 * i) = some t[i].1 ∧ wordAt e f (pos + 8 * i + 4) = some t[i].2 := by
  intro n
  induction n with
  | zero =>
    intro pos t h
    simp only [pairsFrom, Option.some.injEq] at h
    subst h
    exact ⟨rfl, fun i h => absurd h (by simp)⟩
  | succ n ih =>
    intro pos t h
    simp only [pairsFrom] at h
    cases ha : wordAt e f pos with
    | none => rw [ha] at h; cases h
    | some a =>
      cases ho : wordAt e f (pos + 4) with
      | none => rw [ha, ho] at h; cases h
      | some o =>
        cases hr : pairsFrom e f (pos + 8) n with
        | none => rw [ha, ho, hr] at h; cases h
        | some r =>
          rw [ha, ho, hr] at h
          simp only [Option.bind_eq_bind, Option.bind_some, Option.pure_def, Option.some.injEq] at h
          subst h
          obtain ⟨hl, hi⟩ := ih (pos + 8) r hr
          refine ⟨by simp [hl], ?_⟩
          intro i h
          cases i with
          | zero => exact ⟨by simpa using ha, by simpa using ho⟩
          | succ i =>
            have := hi i (by simpa using h)
            simp only [List.getElem_cons_succ]
            rw [show pos + 8 * (i + 1) = pos + 8 + 8 * i by omega]
            exact this

theorem agreeOff_iff (K : Content) : ∀ (l₁ l₂ : Bytes) (i : Nat),
    agreeOff K i l₁ l₂ = true ↔
      l₁.length = l₂.length ∧ ∀ j, j < l₂.length → ¬ K.covered (i + j) → l₁[j]? = l₂[j]? := by
  intro l₁
  induction l₁ with
  | nil =>
    intro l₂ i
    cases l₂ with
    | nil => simp [agreeOff]
    | cons y ys => simp [agreeOff]
  | cons x xs ih =>
    intro l₂ i
    cases l₂ with
    | nil => simp [agreeOff]
    | cons y ys =>
      simp only [agreeOff, Bool.and_eq_true, Bool.or_eq_true, decide_eq_true_eq, beq_iff_eq, ih ys (i + 1),
        List.length_cons]
      constructor
      · rintro ⟨h0, hl, hr⟩
        refine ⟨by omega, ?_⟩
        intro j hj hc
        cases j with
        | zero =>
          rcases h0 with h0 | h0
          · exact absurd h0 (by simpa using hc)
          · simp [h0]
        | succ j =>
          simp only [List.getElem?_cons_succ]
          exact hr j (by omega) (by rw [show i + 1 + j = i + (j + 1) by omega]; exact hc)
      · rintro ⟨hl, hr⟩
        refine ⟨?_, by omega, ?_⟩
        · by_cases hc : K.covered i
          · exact Or.inl hc
          · have := hr 0 (by omega) (by simpa using hc)
            simp at this
            exact Or.inr this
        · intro j hj hc
          have := hr (j + 1) (by omega) (by rw [show i + (j + 1) = i + 1 + j by omega]; exact hc)
          simpa using this

/-- The names the walk assigns to the table entries. -/
def walkNames (K : Content) : List Nat → List (Nat × Nat) → List (Nat × Nat × Bytes)
  | _, [] => []
  | seen, r :: rest =>
    (r.1, r.2, ((K.labelsAt r.1)[countAddr r.1 seen]?).getD []) :: walkNames K (r.1 :: seen) rest

theorem walkNames_length (K : Content) : ∀ (l : List (Nat × Nat)) (seen : List Nat),
    (walkNames K seen l).length = l.length := by
  intro l
  induction l with
  | nil => intro _; rfl
  | cons r rs ih => intro seen; simp [walkNames, ih]

theorem walkNames_getElem (K : Content) : ∀ (l : List (Nat × Nat)) (seen : List Nat) (i : Nat)
    (h : i < (walkNames K seen l).length),
    (walkNames K seen l)[i].1 = (l[i]'(by rw [walkNames_length] at h; exact h)).1 ∧
    (walkNames K seen l)[i].2.1 = (l[i]'(by rw [walkNames_length] at h; exact h)).2 := by
  intro l
  induction l with
  | nil => intro _ i h; simp [walkNames] at h
  | cons r rs ih =>
    intro seen i h
    cases i with
    | zero => simp [walkNames]
    | succ i =>
      simp only [walkNames, List.getElem_cons_succ]
      exact ih (r.1 :: seen) i (by simpa [walkNames] using h)

theorem countAddr_cons_self (x : Nat) (l : List Nat) : countAddr x (x :: l) = countAddr x l + 1 := by
  simp [countAddr]

theorem countAddr_cons_ne {x y : Nat} (h : y ≠ x) (l : List Nat) : countAddr x (y :: l) = countAddr x l := by
  simp [countAddr, h]

/-- What a successful walk establishes. -/
theorem checkLabels_spec (enc : Bytes → Option Bytes) (f : Bytes) (K : Content) (textPos : Nat) :
    ∀ (l : List (Nat × Nat)) (seen : List Nat), checkLabels enc f K textPos seen l = true →
    (∀ r ∈ walkNames K seen l, ∃ b, enc r.2.2 = some b ∧ StrAt f (textPos + r.2.1) b) ∧
    ∀ x, ((walkNames K seen l).filter (fun r => r.1 = x)).map (·.2.2)
      = ((K.labelsAt x).drop (countAddr x seen)).take (countAddr x (l.map (·.1))) := by
  intro l
  induction l with
  | nil => intro seen _; exact ⟨(by intro r hr; cases hr), (by intro x; simp [walkNames, countAddr])⟩
  | cons r rs ih =>
    intro seen h
    simp only [checkLabels] at h
    cases hn : (K.labelsAt r.1)[countAddr r.1 seen]? with
    | none => rw [hn] at h; cases h
    | some name =>
      rw [hn] at h
      simp only [] at h
      cases hb : enc name with
      | none => rw [hb] at h; cases h
      | some b =>
        rw [hb] at h
        simp only [Bool.and_eq_true, decide_eq_true_eq] at h
        obtain ⟨hstr, hrest⟩ := h
        obtain ⟨ih1, ih2⟩ := ih (r.1 :: seen) hrest
        constructor
        · intro q hq
          simp only [walkNames, hn, Option.getD_some, List.mem_cons] at hq
          rcases hq with rfl | hq
          · exact ⟨b, hb, hstr⟩
          · exact ih1 q hq
        · intro x
          simp only [walkNames, hn, Option.getD_some, List.map_cons]
          by_cases hx : r.1 = x
          · subst hx
            rw [List.filter_cons, if_pos (by simp), List.map_cons, ih2 r.1, countAddr_cons_self,
              countAddr_cons_self]
            have hlt : countAddr r.1 seen < (K.labelsAt r.1).length := by
              rcases List.getElem?_eq_some_iff.mp hn with ⟨h', _⟩; exact h'
            have hname : name = (K.labelsAt r.1)[countAddr r.1 seen] := by
              rcases List.getElem?_eq_some_iff.mp hn with ⟨_, h'⟩; exact h'.symm
            rw [List.drop_eq_getElem_cons hlt, List.take_succ_cons, hname]
          · rw [List.filter_cons, if_neg (by simpa using hx), ih2 x, countAddr_cons_ne hx,
              countAddr_cons_ne hx]

theorem labelsAt_ne_nil {K : Content} {x : Nat} (h : K.labelsAt x ≠ []) : ∃ p ∈ K.labels, p.1 = x := by
  unfold Content.labelsAt at h
  cases hf : K.labels.find? (fun p => p.1 = x) with
  | none => rw [hf] at h; simp at h
  | some p => exact ⟨p, List.mem_of_find?_eq_some hf, by simpa using List.find?_some hf⟩

/-- **Soundness of the oracle.** -/
theorem conformsCheck_sound (enc : Bytes → Option Bytes) (e : Endian) (f : Bytes) (K : Content)
    (h : conformsCheck enc e f K = none) : Conforms enc e f K := by
  unfold conformsCheck at h
  split at h; · cases h
  rename_i h1
  split at h; · cases h
  rename_i h2
  split at h; · cases h
  rename_i h3
  split at h; · cases h
  rename_i h4
  split at h; · cases h
  rename_i h5
  split at h; · cases h
  rename_i h6
  split at h; · cases h
  rename_i h7
  split at h; · cases h
  rename_i h8
  split at h; · cases h
  rename_i h9
  split at h; · cases h
  rename_i h10
  simp only [Bool.not_eq_true', Bool.not_eq_false, beq_iff_eq, decide_eq_true_eq] at h1 h2 h3 h4 h5
  simp only [Bool.not_eq_true', Bool.not_eq_false] at h6 h7 h8 h9 h10
  -- pointer table
  unfold chkPtrTable at h7
  cases ht : wordsFrom e f (0x20 + K.data.length) K.cells.length with
  | none => rw [ht] at h7; cases h7
  | some t =>
  rw [ht] at h7
  obtain ⟨_, hti⟩ := wordsFrom_spec e f _ _ t ht
  -- label table
  unfold chkLabelTable at h10
  cases hlt : pairsFrom e f (0x20 + K.data.length + 4 * K.cells.length) K.labelCount with
  | none => rw [hlt] at h10; cases h10
  | some lt =>
  rw [hlt] at h10
  simp only [Bool.and_eq_true] at h10
  obtain ⟨hwalk, hcount⟩ := h10
  obtain ⟨hltl, hlti⟩ := pairsFrom_spec e f _ _ lt hlt
  obtain ⟨hw1, hw2⟩ := checkLabels_spec enc f K _ lt [] hwalk
  exact {
    hSize := h1
    hData := h2
    hPtrs := h3
    hLbls := h4
    fits := h5
    dataEq := by
      intro i hi hc
      unfold chkData at h6
      obtain ⟨_, hall⟩ := (agreeOff_iff K _ _ 0).mp h6
      have := hall i hi (by simpa using hc)
      rw [List.getElem?_take, if_pos hi, List.getElem?_drop] at this
      exact this
    ptrTable := ⟨t, List.isPerm_iff.mp h7, hti⟩
    ptrCells := by
      intro p hp
      have := List.all_eq_true.mp h8 p hp
      simpa using this
    strCells := by
      intro p hp
      have := List.all_eq_true.mp h9 p hp
      cases hv : wordAt e f (0x20 + p.1) with
      | none => rw [hv] at this; simp at this
      | some v =>
        cases hb : enc p.2 with
        | none => rw [hv, hb] at this; simp at this
        | some b =>
          rw [hv, hb] at this
          simp only [Bool.and_eq_true, decide_eq_true_eq] at this
          exact ⟨v, b, rfl, this.1, rfl, this.2⟩
    lblTable := by
      refine ⟨walkNames K [] lt, by rw [walkNames_length, hltl], ?_, ?_⟩
      · intro i hi
        have hi' : i < lt.length := by rw [walkNames_length] at hi; exact hi
        obtain ⟨g1, g2⟩ := walkNames_getElem K lt [] i hi
        obtain ⟨w1, w2⟩ := hlti i hi'
        refine ⟨by rw [g1]; exact w1, by rw [g2]; exact w2, ?_⟩
        exact hw1 _ (List.getElem_mem hi)
      · intro x
        rw [hw2 x]
        simp only [countAddr, List.filter_nil, List.length_nil, List.drop_zero]
        by_cases hx : K.labelsAt x = []
        · rw [hx]; simp
        · obtain ⟨p, hp, rfl⟩ := labelsAt_ne_nil hx
          have := List.all_eq_true.mp hcount p hp
          simp only [beq_iff_eq, countAddr] at this
          rw [this]
          exact List.take_length }


/-! ### completeness: the oracle accepts every conforming image -/

theorem wordsFrom_complete (e : Endian) (f : Bytes) : ∀ (t : List Nat) (pos : Nat),
    (∀ i, (h : i < t.length) → wordAt e f (pos + 4 * i) = some t[i]) →
    wordsFrom e f pos t.length = some t := by
  intro t
  induction t with
  | nil => intro pos _; rfl
  | cons x xs ih =>
    intro pos h
    have h0 := h 0 (by simp)
    simp only [Nat.mul_zero, Nat.add_zero, List.getElem_cons_zero] at h0
    have hr : wordsFrom e f (pos + 4) xs.length = some xs := by
      apply ih
      intro i hi
      have := h (i + 1) (by simp; omega)
      simp only [List.getElem_cons_succ] at this
      rw [← this]; congr 1; omega
    simp [wordsFrom, h0, hr]

theorem pairsFrom_complete (e : Endian) (f : Bytes) : ∀ (t : List (Nat × Nat)) (pos : Nat),
    (∀ i, (h : i < t.length) →
      wordAt e f (pos + 8 * i) = some t[i].1 ∧ wordAt e f (pos + 8 * i + 4) = some t[i].2) →
    pairsFrom e f pos t.length = some t := by
  intro t
  induction t with
  | nil => intro pos _; rfl
  | cons x xs ih =>
    intro pos h
    obtain ⟨h0, h1⟩ := h 0 (by simp)
    simp only [Nat.mul_zero, Nat.add_zero, List.getElem_cons_zero] at h0 h1
    have hr : pairsFrom e f (pos + 8) xs.length = some xs := by
      apply ih
      intro i hi
      have := h (i + 1) (by simp; omega)
      simp only [List.getElem_cons_succ] at this
      rw [show pos + 8 + 8 * i = pos + 8 * (i + 1) by omega]
      exact this
    simp [pairsFrom, h0, h1, hr]

/-- The walk succeeds on the rest of a table whose entries of every address spell that address's
labels: `pre` = entries already consumed, `seen` their addresses (in any order). -/
theorem checkLabels_complete (enc : Bytes → Option Bytes) (f : Bytes) (K : Content) (textPos : Nat) :
    ∀ (post pre : List (Nat × Nat × Bytes)) (seen : List Nat),
    (∀ x, ((pre ++ post).filter (fun r => r.1 = x)).map (·.2.2) = K.labelsAt x) →
    (∀ x, countAddr x seen = (pre.filter (fun r => r.1 = x)).length) →
    (∀ r ∈ post, ∃ b, enc r.2.2 = some b ∧ StrAt f (textPos + r.2.1) b) →
    checkLabels enc f K textPos seen (post.map (fun r => (r.1, r.2.1))) = true := by
  intro post
  induction post with
  | nil => intro _ _ _ _ _; rfl
  | cons r rest ih =>
    intro pre seen hall hseen hstr
    obtain ⟨b, hb, hs⟩ := hstr r (by simp)
    have hidx : (K.labelsAt r.1)[countAddr r.1 seen]? = some r.2.2 := by
      rw [← hall r.1, hseen r.1, List.filter_append, List.map_append,
        List.getElem?_append_right (by simp), List.length_map, Nat.sub_self, List.filter_cons,
        if_pos (by simp)]
      rfl
    simp only [List.map_cons, checkLabels, hidx, hb, hs, decide_true, Bool.true_and]
    apply ih (pre ++ [r]) (r.1 :: seen)
    · intro x; rw [List.append_assoc]; exact hall x
    · intro x
      rw [List.filter_append, List.length_append]
      by_cases hx : r.1 = x
      · subst hx; rw [countAddr_cons_self, hseen]; simp
      · rw [countAddr_cons_ne hx, hseen]; simp [hx]
    · intro q hq; exact hstr q (by simp [hq])

/-- **Completeness of the oracle**: every conforming image is accepted. -/
theorem conformsCheck_complete (enc : Bytes → Option Bytes) (e : Endian) (f : Bytes) (K : Content)
    (h : Conforms enc e f K) : conformsCheck enc e f K = none := by
  obtain ⟨t, hperm, hti⟩ := h.ptrTable
  obtain ⟨lt, hltl, hlti, hfilter⟩ := h.lblTable
  have c6 : chkData f K = true := by
    unfold chkData
    rw [agreeOff_iff]
    have hfit := h.fits
    unfold Content.textStart at hfit
    refine ⟨by simp; omega, ?_⟩
    intro j hj hc
    rw [List.getElem?_take, if_pos hj, List.getElem?_drop]
    exact h.dataEq j hj (by simpa using hc)
  have c7 : chkPtrTable e f K = true := by
    unfold chkPtrTable
    rw [← hperm.length_eq, wordsFrom_complete e f t _ hti]
    exact List.isPerm_iff.mpr hperm
  have c8 : chkPtrCells e f K = true := by
    unfold chkPtrCells
    rw [List.all_eq_true]
    intro p hp
    simp [h.ptrCells p hp]
  have c9 : chkStrCells enc e f K = true := by
    unfold chkStrCells
    rw [List.all_eq_true]
    intro p hp
    obtain ⟨v, b, hv, hts, hb, hs⟩ := h.strCells p hp
    simp [hv, hb, hts, hs]
  have c10 : chkLabelTable enc e f K = true := by
    unfold chkLabelTable
    have hpairs : pairsFrom e f (0x20 + K.data.length + 4 * K.cells.length) K.labelCount
        = some (lt.map (fun r => (r.1, r.2.1))) := by
      rw [← hltl]
      have := pairsFrom_complete e f (lt.map (fun r => (r.1, r.2.1)))
        (0x20 + K.data.length + 4 * K.cells.length) (by
          intro i hi
          rw [List.length_map] at hi
          obtain ⟨w1, w2, _⟩ := hlti i hi
          simp only [List.getElem_map]
          exact ⟨w1, w2⟩)
      rw [List.length_map] at this
      exact this
    rw [hpairs]
    simp only [Bool.and_eq_true]
    constructor
    · apply checkLabels_complete enc f K _ lt [] []
      · intro x; exact hfilter x
      · intro x; simp [countAddr]
      · intro r hr
        obtain ⟨i, hi, rfl⟩ := List.getElem_of_mem hr
        exact (hlti i hi).2.2
    · rw [List.all_eq_true]
      intro p _
      simp only [beq_iff_eq, countAddr, List.map_map]
      rw [← hfilter p.1, List.length_map]
      have : ∀ l : List (Nat × Nat × Bytes),
          ((l.map (Prod.fst ∘ fun r => (r.1, r.2.1))).filter (fun y => decide (y = p.1))).length
            = (l.filter (fun r => decide (r.1 = p.1))).length := by
        intro l
        induction l with
        | nil => rfl
        | cons q qs ih =>
          simp only [List.map_cons, Function.comp, List.filter_cons]
          by_cases hq : q.1 = p.1 <;> simp [hq, ih]
      exact this lt
  unfold conformsCheck
  simp [h.hSize, h.hData, h.hPtrs, h.hLbls, h.fits, c6, c7, c8, c9, c10]

end Mila.Ser
