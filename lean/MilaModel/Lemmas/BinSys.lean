/-
Facts about single calls of the bin-archive model and about the op machine `Sys.step`
(used by C03 and C04): no call panics, annotation calls keep the raw bytes, a failing call leaves
the state alone.
-/
import MilaModel.Lemmas.BinCell

namespace Mila
open BinArchive

/-! ### no panic -/

theorem validateAddress_ne_panic (x y : Nat) (z : Bool) : validateAddress x y z ≠ .panic := by
  unfold validateAddress; split <;> simp

theorem validateAlignment_ne_panic (x y : Nat) : validateAlignment x y ≠ .panic := by
  unfold validateAlignment; split <;> simp

theorem validateCell_ne_panic (a : BinArchive) (x w : Nat) : validateCell a x w ≠ .panic := by
  unfold validateCell
  split
  · exact validateAddress_ne_panic _ _ _
  · rename_i r h; intro hp; rw [hp] at h; exact absurd hp (validateAddress_ne_panic _ _ _)

theorem validateRange_ne_panic (x l s : Nat) : validateRange x l s ≠ .panic := by
  unfold validateRange
  repeat' split
  all_goals first
    | (intro h; cases h; done)
    | (exfalso; rename_i h; exact validateAddress_ne_panic _ _ _ h)

/-- closes goals `f … ≠ panic` after unfolding: every branch is `ok`/`err` or contradicts one of
the validators. -/
macro "no_panic_tac" : tactic => `(tactic| (
  repeat' split
  all_goals first
    | (intro h; cases h; done)
    | (exfalso; rename_i h; first
        | exact validateAddress_ne_panic _ _ _ h
        | exact validateCell_ne_panic _ _ _ h
        | exact validateRange_ne_panic _ _ _ h
        | exact validateAlignment_ne_panic _ _ h)))

theorem readBytes_ne_panic (a : BinArchive) (x n : Nat) : a.readBytes x n ≠ .panic := by
  unfold readBytes; no_panic_tac
theorem readUInt_ne_panic (a : BinArchive) (x w : Nat) : a.readUInt x w ≠ .panic := by
  unfold readUInt; no_panic_tac
theorem readU8_ne_panic (a : BinArchive) (x : Nat) : a.readU8 x ≠ .panic := by
  unfold readU8; no_panic_tac
theorem writeBytes_ne_panic (a : BinArchive) (x : Nat) (v : Bytes) : a.writeBytes x v ≠ .panic := by
  unfold writeBytes; no_panic_tac
theorem writeUInt_ne_panic (a : BinArchive) (x w v : Nat) : a.writeUInt x w v ≠ .panic := by
  unfold writeUInt; no_panic_tac
theorem writeU8_ne_panic (a : BinArchive) (x v : Nat) : a.writeU8 x v ≠ .panic := by
  unfold writeU8; no_panic_tac
theorem readString_ne_panic (a : BinArchive) (x : Nat) : a.readString x ≠ .panic := by
  unfold readString; no_panic_tac
theorem readPointer_ne_panic (a : BinArchive) (x : Nat) : a.readPointer x ≠ .panic := by
  unfold readPointer; no_panic_tac
theorem readLabels_ne_panic (a : BinArchive) (x : Nat) : a.readLabels x ≠ .panic := by
  unfold readLabels; no_panic_tac
theorem deleteString_ne_panic (a : BinArchive) (x : Nat) : a.deleteString x ≠ .panic := by
  unfold deleteString; no_panic_tac
theorem deletePointer_ne_panic (a : BinArchive) (x : Nat) : a.deletePointer x ≠ .panic := by
  unfold deletePointer; no_panic_tac
theorem deleteLabels_ne_panic (a : BinArchive) (x : Nat) : a.deleteLabels x ≠ .panic := by
  unfold deleteLabels; no_panic_tac
theorem deleteLabel_ne_panic (a : BinArchive) (x i : Nat) : a.deleteLabel x i ≠ .panic := by
  unfold deleteLabel; no_panic_tac
theorem writeCString_ne_panic (a : BinArchive) (x : Nat) (v : Str) : a.writeCString x v ≠ .panic := by
  unfold writeCString; no_panic_tac
theorem writeString_ne_panic (a : BinArchive) (x : Nat) (v : Option Str) : a.writeString x v ≠ .panic := by
  unfold writeString
  split
  · no_panic_tac
  · exact deleteString_ne_panic _ _
theorem writePointer_ne_panic (a : BinArchive) (x : Nat) (v : Option Nat) : a.writePointer x v ≠ .panic := by
  unfold writePointer
  split
  · no_panic_tac
  · exact deletePointer_ne_panic _ _
theorem writeLabels_ne_panic (a : BinArchive) (x : Nat) (v : List Str) : a.writeLabels x v ≠ .panic := by
  unfold writeLabels; no_panic_tac
theorem writeLabel_ne_panic (a : BinArchive) (x : Nat) (v : Str) : a.writeLabel x v ≠ .panic := by
  unfold writeLabel; no_panic_tac
theorem allocate_ne_panic (a : BinArchive) (x n : Nat) (ge : Bool) : a.allocate x n ge ≠ .panic := by
  unfold allocate; no_panic_tac
theorem deallocate_ne_panic (a : BinArchive) (x n : Nat) (ge : Bool) : a.deallocate x n ge ≠ .panic := by
  unfold deallocate; no_panic_tac
theorem readCStringRaw_ne_panic (a : BinArchive) (x : Nat) : a.readCStringRaw x ≠ .panic := by
  unfold readCStringRaw
  repeat' split
  all_goals first
    | (intro h; cases h; done)
    | (exfalso; rename_i h; first
        | exact validateAddress_ne_panic _ _ _ h
        | exact readPointer_ne_panic _ _ h)

theorem map_ne_panic {α β : Type} (r : Res α) (f : α → β) (h : r ≠ .panic) : r.map f ≠ .panic := by
  cases r <;> simp_all [Res.map]

theorem readTy_ne_panic (a : BinArchive) (t : Ty) (x : Nat) : a.readTy t x ≠ .panic := by
  cases t <;> simp only [readTy, readI8, readI16, readI32, readU16, readU32, readF32Bits] <;>
    first
      | exact map_ne_panic _ _ (readU8_ne_panic _ _)
      | exact map_ne_panic _ _ (readUInt_ne_panic _ _ _)

theorem writeTy_ne_panic (a : BinArchive) (t : Ty) (x : Nat) (v : Int) : a.writeTy t x v ≠ .panic := by
  cases t <;> simp only [writeTy, writeI8, writeI16, writeI32, writeU16, writeU32, writeF32Bits] <;>
    first
      | exact writeU8_ne_panic _ _ _
      | exact writeUInt_ne_panic _ _ _ _

theorem Reader.step_ne_panic {α : Type} (r : Reader) (w : Nat) (call : Nat → Res α)
    (h : call r.pos ≠ .panic) : r.step w call ≠ .panic := by
  unfold Reader.step; split <;> simp_all

theorem Writer.step_ne_panic (w : Writer) (k : Nat) (call : BinArchive → Nat → Res BinArchive)
    (h : call w.archive w.pos ≠ .panic) : w.step k call ≠ .panic := by
  unfold Writer.step; split <;> simp_all

theorem Reader.readTy_ne_panic (a : BinArchive) (r : Reader) (t : Ty) : r.readTy a t ≠ .panic := by
  cases t <;>
    simp only [Reader.readTy, Reader.readI8, Reader.readI16, Reader.readI32, Reader.readU8, Reader.readU16,
      Reader.readU32, Reader.readF32Bits] <;>
    first
      | exact map_ne_panic _ _ (Reader.step_ne_panic _ _ _ (readU8_ne_panic _ _))
      | exact map_ne_panic _ _ (Reader.step_ne_panic _ _ _ (readUInt_ne_panic _ _ _))

theorem Writer.writeTy_ne_panic (w : Writer) (t : Ty) (v : Int) : w.writeTy t v ≠ .panic := by
  cases t <;>
    simp only [Writer.writeTy, Writer.writeI8, Writer.writeI16, Writer.writeI32, Writer.writeU8,
      Writer.writeU16, Writer.writeU32, Writer.writeF32Bits] <;>
    first
      | exact Writer.step_ne_panic _ _ _ (writeU8_ne_panic _ _ _)
      | exact Writer.step_ne_panic _ _ _ (writeUInt_ne_panic _ _ _ _)

theorem Reader.readBytes_ne_panic (a : BinArchive) (r : Reader) (n : Nat) : r.readBytes a n ≠ .panic := by
  unfold Reader.readBytes
  split
  · simp
  · split
    · simp
    · simp
    · rename_i h; exact absurd h (Mila.readBytes_ne_panic _ _ _)

theorem Writer.writeBytes_ne_panic (w : Writer) (v : Bytes) : (w.writeBytes v).2 ≠ .panic := by
  unfold Writer.writeBytes
  split
  · simp
  · split
    · simp
    · simp
    · rename_i h; exact absurd h (Mila.writeBytes_ne_panic _ _ _)

theorem Writer.allocate_ne_panic (w : Writer) (n : Nat) (ge : Bool) : w.allocate n ge ≠ .panic := by
  unfold Writer.allocate
  split
  · simp
  · split
    · simp
    · simp
    · rename_i h; exact absurd h (Mila.allocate_ne_panic _ _ _ _)

namespace Sys

theorem upd_ne_panic (s : Sys) (r : Res BinArchive) (h : r ≠ .panic) : (s.upd r).2 ≠ .panic := by
  cases r <;> simp_all [upd]
theorem qry_ne_panic {α : Type} (s : Sys) (r : Res α) (f : α → Out) (h : r ≠ .panic) :
    (s.qry r f).2 ≠ .panic := map_ne_panic _ _ h
theorem rd_ne_panic {α : Type} (s : Sys) (r : Res (α × Reader)) (f : α → Out) (h : r ≠ .panic) :
    (s.rd r f).2 ≠ .panic := by
  cases r <;> simp_all [rd]
theorem wr_ne_panic (s : Sys) (r : Res Writer) (h : r ≠ .panic) : (s.wr r).2 ≠ .panic := by
  cases r <;> simp_all [wr]

/-- No call of the op machine panics, whatever the addresses, lengths and values. -/
theorem step_ne_panic (s : Sys) (op : Op) : (s.step op).2 ≠ .panic := by
  cases op <;> simp only [step]
  case allocEnd | truncate | find | ptrDests | getLabels | rSeek | rTell | wSeek | wTell | wSize
     | wAllocEnd => simp
  case rSkip | wSkip => split <;> simp
  case allocate => exact upd_ne_panic _ _ (allocate_ne_panic _ _ _ _)
  case deallocate => exact upd_ne_panic _ _ (deallocate_ne_panic _ _ _ _)
  case read => exact qry_ne_panic _ _ _ (readTy_ne_panic _ _ _)
  case write => exact upd_ne_panic _ _ (writeTy_ne_panic _ _ _ _)
  case readBytes => exact qry_ne_panic _ _ _ (readBytes_ne_panic _ _ _)
  case writeBytes => exact upd_ne_panic _ _ (writeBytes_ne_panic _ _ _)
  case readStr => exact qry_ne_panic _ _ _ (readString_ne_panic _ _)
  case readPtr => exact qry_ne_panic _ _ _ (readPointer_ne_panic _ _)
  case readLabels => exact qry_ne_panic _ _ _ (readLabels_ne_panic _ _)
  case readCStr => exact qry_ne_panic _ _ _ (readCStringRaw_ne_panic _ _)
  case writeStr => exact upd_ne_panic _ _ (writeString_ne_panic _ _ _)
  case writePtr => exact upd_ne_panic _ _ (writePointer_ne_panic _ _ _)
  case writeCStr => exact upd_ne_panic _ _ (writeCString_ne_panic _ _ _)
  case writeLabel => exact upd_ne_panic _ _ (writeLabel_ne_panic _ _ _)
  case writeLabels => exact upd_ne_panic _ _ (writeLabels_ne_panic _ _ _)
  case delStr => exact upd_ne_panic _ _ (deleteString_ne_panic _ _)
  case delPtr => exact upd_ne_panic _ _ (deletePointer_ne_panic _ _)
  case delLabels => exact upd_ne_panic _ _ (deleteLabels_ne_panic _ _)
  case delLabel => exact upd_ne_panic _ _ (deleteLabel_ne_panic _ _ _)
  case rRead => exact rd_ne_panic _ _ _ (Reader.readTy_ne_panic _ _ _)
  case rBytes n =>
    simp only [Reader.readBytesFull]
    have := Reader.readBytes_ne_panic s.arch s.reader n
    split <;> simp_all [Res.map]
  case rStr => exact rd_ne_panic _ _ _ (Reader.step_ne_panic _ _ _ (readString_ne_panic _ _))
  case rPtr => exact rd_ne_panic _ _ _ (Reader.step_ne_panic _ _ _ (readPointer_ne_panic _ _))
  case rCStr => exact rd_ne_panic _ _ _ (Reader.step_ne_panic _ _ _ (readCStringRaw_ne_panic _ _))
  case rLabel i =>
    simp only [Reader.readLabel]
    have := readLabels_ne_panic s.arch s.reader.pos
    split <;> simp_all [Res.map]
  case rLabels => exact map_ne_panic _ _ (readLabels_ne_panic _ _)
  case rSjis => simp only [Reader.readSjisRawFull]; split <;> simp [Res.map]
  case wWrite => exact wr_ne_panic _ _ (Writer.writeTy_ne_panic _ _ _)
  case wBytes v =>
    have := Writer.writeBytes_ne_panic s.writer v
    cases h : (s.writer.writeBytes v).2 <;> simp_all [Res.map]
  case wStr => exact wr_ne_panic _ _ (Writer.step_ne_panic _ _ _ (writeString_ne_panic _ _ _))
  case wPtr => exact wr_ne_panic _ _ (Writer.step_ne_panic _ _ _ (writePointer_ne_panic _ _ _))
  case wCStr => exact wr_ne_panic _ _ (Writer.step_ne_panic _ _ _ (writeCString_ne_panic _ _ _))
  case wLabel => exact wr_ne_panic _ _ (Writer.step_ne_panic _ _ _ (writeLabel_ne_panic _ _ _))
  case wAlloc => exact wr_ne_panic _ _ (Writer.allocate_ne_panic _ _ _)

/-! ### a failing call changes nothing -/

theorem upd_err (s : Sys) (r : Res BinArchive) (e : Err) (h : (s.upd r).2 = .err e) : (s.upd r).1 = s := by
  cases r <;> simp_all [upd]
theorem rd_err {α : Type} (s : Sys) (r : Res (α × Reader)) (f : α → Out) (e : Err)
    (h : (s.rd r f).2 = .err e) : (s.rd r f).1 = s := by
  cases r <;> simp_all [rd]
theorem wr_err (s : Sys) (r : Res Writer) (e : Err) (h : (s.wr r).2 = .err e) : (s.wr r).1 = s := by
  cases r <;> simp_all [wr]

/-- `rejected_unchanged` for the whole machine: whenever a call returns an error, archive and
cursors are exactly as before.  (`read_shift_jis_string` on a reader is the one exception in the
Rust: it is not a cell access and leaves the cursor at the end of the data.) -/
theorem step_err_unchanged (s : Sys) (op : Op) (e : Err) (hop : op ≠ .rSjis)
    (h : (s.step op).2 = .err e) : (s.step op).1 = s := by
  cases op <;> simp only [step] at h ⊢
  all_goals first
    | exact absurd rfl hop
    | rfl
    | exact upd_err _ _ _ h
    | exact rd_err _ _ _ _ h
    | exact wr_err _ _ _ h
    | (simp at h; done)
    | (split at h <;> simp at h; done)
    | skip
  case rBytes n =>
    simp only [Reader.readBytesFull] at h ⊢
    split at h <;> simp_all [Res.map, Reader.readBytesFailPos, reader]
  case wBytes v =>
    simp only [Writer.writeBytes] at h ⊢
    split at h
    · simp [Res.map] at h
    · split at h <;> simp_all [Res.map, writer]

end Sys

/-! ### annotation calls keep the raw bytes -/

macro "data_tac" : tactic => `(tactic| (repeat' split at * ; all_goals (first | contradiction | (rename_i h; cases h; rfl) | (rename_i h _; cases h; rfl))))

theorem writeString_data (a a' : BinArchive) (x : Nat) (v : Option Str)
    (h : a.writeString x v = .ok a') : a'.data = a.data := by
  unfold writeString deleteString at h
  repeat' split at h
  all_goals (cases h; try rfl)
theorem writePointer_data (a a' : BinArchive) (x : Nat) (v : Option Nat)
    (h : a.writePointer x v = .ok a') : a'.data = a.data := by
  unfold writePointer deletePointer at h
  repeat' split at h
  all_goals (cases h; try rfl)
theorem writeCString_data (a a' : BinArchive) (x : Nat) (v : Str)
    (h : a.writeCString x v = .ok a') : a'.data = a.data := by
  unfold writeCString at h
  repeat' split at h
  all_goals (cases h; try rfl)
theorem writeLabel_data (a a' : BinArchive) (x : Nat) (v : Str)
    (h : a.writeLabel x v = .ok a') : a'.data = a.data := by
  unfold writeLabel at h
  repeat' split at h
  all_goals (cases h; try rfl)
theorem writeLabels_data (a a' : BinArchive) (x : Nat) (v : List Str)
    (h : a.writeLabels x v = .ok a') : a'.data = a.data := by
  unfold writeLabels at h
  repeat' split at h
  all_goals (cases h; try rfl)
theorem deleteString_data (a a' : BinArchive) (x : Nat)
    (h : a.deleteString x = .ok a') : a'.data = a.data := by
  unfold deleteString at h
  repeat' split at h
  all_goals (cases h; try rfl)
theorem deletePointer_data (a a' : BinArchive) (x : Nat)
    (h : a.deletePointer x = .ok a') : a'.data = a.data := by
  unfold deletePointer at h
  repeat' split at h
  all_goals (cases h; try rfl)
theorem deleteLabels_data (a a' : BinArchive) (x : Nat)
    (h : a.deleteLabels x = .ok a') : a'.data = a.data := by
  unfold deleteLabels at h
  repeat' split at h
  all_goals (cases h; try rfl)
theorem deleteLabel_data (a a' : BinArchive) (x i : Nat)
    (h : a.deleteLabel x i = .ok a') : a'.data = a.data := by
  unfold deleteLabel at h
  repeat' split at h
  all_goals (cases h; try rfl)

namespace Sys

theorem upd_data (s : Sys) (r : Res BinArchive) (h : ∀ a', r = .ok a' → a'.data = s.arch.data) :
    (s.upd r).1.arch.data = s.arch.data := by
  cases r <;> simp_all [upd]

theorem wr_step_data (s : Sys) (k : Nat) (call : BinArchive → Nat → Res BinArchive)
    (h : ∀ a', call s.arch s.wpos = .ok a' → a'.data = s.arch.data) :
    (s.wr (s.writer.step k call)).1.arch.data = s.arch.data := by
  simp only [Writer.step, writer]
  cases hc : call s.arch s.wpos <;> simp_all [wr]

theorem rd_arch {α : Type} (s : Sys) (r : Res (α × Reader)) (f : α → Out) : (s.rd r f).1.arch = s.arch := by
  cases r <;> simp [rd]

end Sys
/-! ### typed stream calls are the positional calls at the cursor -/

theorem Reader.readTy_eq (a : BinArchive) (r : Reader) (t : Ty) :
    r.readTy a t = (a.readTy t r.pos).map (fun v => (v, ⟨r.pos + t.width⟩)) := by
  cases t <;>
    simp only [Reader.readTy, Reader.readI8, Reader.readI16, Reader.readI32, Reader.readU8, Reader.readU16,
      Reader.readU32, Reader.readF32Bits, Reader.step, BinArchive.readTy, BinArchive.readI8,
      BinArchive.readI16, BinArchive.readI32, BinArchive.readF32Bits, BinArchive.readU16, BinArchive.readU32,
      Ty.width]
  all_goals first
    | (generalize a.readU8 r.pos = x; cases x <;> rfl)
    | (generalize a.readUInt r.pos 2 = x; cases x <;> rfl)
    | (generalize a.readUInt r.pos 4 = x; cases x <;> rfl)

theorem Writer.writeTy_eq (w : Writer) (t : Ty) (v : Int) :
    w.writeTy t v = (w.archive.writeTy t w.pos v).map (fun a => ⟨a, w.pos + t.width⟩) := by
  cases t <;>
    simp only [Writer.writeTy, Writer.writeI8, Writer.writeI16, Writer.writeI32, Writer.writeU8,
      Writer.writeU16, Writer.writeU32, Writer.writeF32Bits, Writer.step, BinArchive.writeTy,
      BinArchive.writeI8, BinArchive.writeI16, BinArchive.writeI32, BinArchive.writeF32Bits,
      BinArchive.writeU16, BinArchive.writeU32, Ty.width]
  all_goals first
    | (generalize w.archive.writeU8 w.pos (ofSigned 8 v) = x; cases x <;> rfl)
    | (generalize w.archive.writeUInt w.pos 2 (ofSigned 16 v) = x; cases x <;> rfl)
    | (generalize w.archive.writeUInt w.pos 4 (ofSigned 32 v) = x; cases x <;> rfl)

end Mila
