/- `LZ10CompressionFormat::compress` establishes `Post` (C08). -/
import MilaModel.Lemmas.LzCompress

namespace Mila.Lz
open Mila.Spec.Lz

theorem tokBytes10_len (t : Tok) : (tokBytes false t).length ≤ 2 := by
  cases t <;> simp [tokBytes]

/-- The two bytes pushed for a reference (lz10.rs:51-55) are the spec's token bytes. -/
theorem emit10 (len disp : Nat) (h3 : 3 ≤ len) (h18 : len ≤ 18) (hd1 : 1 ≤ disp) (hd2 : disp ≤ 4096) :
    [andF0 (((len : Int) - 3) * 16) ||| and0F (((disp - 1 : Nat) : Int) / 256),
      andFF ((disp - 1 : Nat) : Int)] = tokBytes false (.ref len disp) := by
  have e1 : ((len : Int) - 3) = ((len - 3 : Nat) : Int) := by omega
  have e2 : (((disp - 1 : Nat) : Int) / 256) = (((disp - 1) / 256 : Nat) : Int) := by omega
  rw [e1, e2, andF0_nat _ (by omega), and0F_nat _ (by omega), andFF_nat, or16' _ _ (by omega) (by omega)]
  simp [tokBytes]

theorem compress10Loop_post (x : BA) (hdr : Bytes) :
    ∀ (m : Nat) (buf outBuf : BA) (blocks read : Nat), x.size - read = m →
      Inv false 0x12 hdr x buf outBuf blocks read →
      Post false 0x12 hdr x (compress10Loop x buf outBuf blocks read) := by
  intro m
  induction m using Nat.strongRecOn with
  | _ m ih =>
    intro buf outBuf blocks read hm hinv
    rw [compress10Loop]
    by_cases hr : read < x.size
    · simp only [hr, ↓reduceDIte]
      -- state after the optional flush
      obtain ⟨b', o', k', e1, e2, e3, hinv', hk'⟩ :
          ∃ b' o' k', (if blocks = 8 then buf ++ outBuf else buf) = b' ∧
            (if blocks = 8 then (#[0] : BA) else outBuf) = o' ∧
            (if blocks = 8 then 0 else blocks) = k' ∧ Inv false 0x12 hdr x b' o' k' read ∧ k' < 8 := by
        by_cases h8 : blocks = 8
        · subst h8
          exact ⟨_, _, _, rfl, rfl, rfl, by simpa using inv_flush hinv, by simp⟩
        · have hle : blocks ≤ 8 := by obtain ⟨_, _, _, _, _, _, _, _, _, h6, _⟩ := hinv; exact h6
          exact ⟨_, _, _, rfl, rfl, rfl, by simpa [h8] using hinv, by simp [h8]; omega⟩
      rw [e1, e2, e3]
      obtain ⟨len, disp, hs, hf⟩ := search_spec x 0x12 read hr
      have hs' : occurrence x read (min (x.size - read) 0x12) (read - min read 0x1000) (min read 0x1000)
          = .ok (len, disp) := hs
      rw [hs']
      dsimp only
      have hosz := inv_outBuf_size hinv' 2 tokBytes10_len
      by_cases hl : len < 3
      · simp only [hl, ↓reduceIte]
        have : ¬ (o'.size + 1 > 17) := by omega
        simp only [this, ↓reduceIte]
        exact ih (x.size - (read + 1)) (by omega) _ _ _ _ rfl (inv_lit hinv' hk' hr hs hl)
      · simp only [hl, ↓reduceIte]
        rcases hf with hf | ⟨d2, dle, lle, _⟩
        · omega
        · have hnp : ¬ (k' > 7 ∨ disp < 1 ∨ o'.size = 0 ∨ o'.size + 2 > 17) := by omega
          simp only [hnp, ↓reduceIte]
          refine ih (x.size - (read + len)) (by omega) _ _ _ _ rfl
            (inv_ref hinv' hk' hr hs (by omega) ?_)
          intro f body hfb
          have := emit10 len disp (by omega) (by omega) (by omega) (by omega)
          simp only [Array.toList_push, modify0 o' f body _ hfb, List.append_assoc, List.cons_append,
            List.nil_append, List.cons.injEq, true_and]
          rw [← this]
    · simp only [hr, ↓reduceDIte]
      exact inv_final hinv hr

/-- `compress10` returns `header ++ groups` for the greedy token sequence of the whole input. -/
theorem compress10_post (x : BA) :
    Post false 0x12 (header false x.size) x (compress10 x) := by
  unfold compress10
  apply compress10Loop_post x _ _ _ _ _ _ rfl
  apply inv_init
  simp [header, leBytes]
  congr 1
  omega

end Mila.Lz
