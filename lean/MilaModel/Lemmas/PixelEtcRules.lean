/-
C19: the model's ETC1 texel function equals the Khronos rules on every legal block.
Finite facts (5-bit expansion, signed deltas, modifier table) are decided completely; the block
word is split into its bit fields by unfolding.
-/
import MilaModel.Model.Etc1
import MilaModel.Spec.Etc1Rules

namespace Mila.Etc1
open Spec.Etc1

theorem expand5_ext5 : ∀ r, r < 32 → ((expand5 r : Nat) : Int) = ext5 (r : Nat) := by decide

theorem expand5_second : ∀ r, r < 32 → ∀ d, d < 8 →
    0 ≤ ((r : Nat) : Int) + delta3 d → ((r : Nat) : Int) + delta3 d ≤ 31 →
    ((expand5 ((r + complement d 3) % 256) : Nat) : Int) = ext5 (((r : Nat) : Int) + delta3 d) := by decide

theorem ext4_eq (v : Nat) (h : v < 16) : ((v * 0x11 % 256 : Nat) : Int) = ext4 v := by
  unfold ext4; omega

theorem modifier_eq : ∀ cw, cw < 8 → ∀ msb, msb < 2 → ∀ lsb, lsb < 2 →
    (if msb = 1 then -(((if lsb = 0 then (modifiers.getD cw (0, 0)).1 else (modifiers.getD cw (0, 0)).2) : Nat) : Int)
      else (((if lsb = 0 then (modifiers.getD cw (0, 0)).1 else (modifiers.getD cw (0, 0)).2) : Nat) : Int)) =
    modifier cw msb lsb := by decide

theorem clampAdd_eq (c : Nat) (a : Int) : ((clampAdd c a : Nat) : Int) = clamp255 ((c : Int) + a) := by
  unfold clampAdd clamp255; omega

/-- channel `ch` of a colour triple -/
def tri (t : Nat × Nat × Nat) : Nat → Nat
  | 0 => t.1 | 1 => t.2.1 | _ => t.2.2

theorem base_eq (word : Nat) (hl : Legal word) (ch : Nat) (hch : ch < 3) :
    ((tri (baseColors word).1 ch : Nat) : Int) = base word 1 ch ∧
    ((tri (baseColors word).2 ch : Nat) : Int) = base word 2 ch := by
  unfold Legal at hl
  unfold baseColors base diffBit
  by_cases hd : word / 2 ^ 33 % 2 = 1
  · have hd' : field word 33 1 = 1 := by simpa [field] using hd
    have hl' := hl (by simp [diffBit, hd']) ch hch
    simp only [hd, hd', if_true, decide_true]
    have h59 : word / 2 ^ 59 % 32 < 32 := Nat.mod_lt _ (by decide)
    have h51 : word / 2 ^ 51 % 32 < 32 := Nat.mod_lt _ (by decide)
    have h43 : word / 2 ^ 43 % 32 < 32 := Nat.mod_lt _ (by decide)
    have h56 : word / 2 ^ 56 % 8 < 8 := Nat.mod_lt _ (by decide)
    have h48 : word / 2 ^ 48 % 8 < 8 := Nat.mod_lt _ (by decide)
    have h40 : word / 2 ^ 40 % 8 < 8 := Nat.mod_lt _ (by decide)
    have hc : ch = 0 ∨ ch = 1 ∨ ch = 2 := by omega
    rcases hc with rfl | rfl | rfl <;>
      simp only [diffSecond, field, tri, Nat.reducePow, Nat.reduceMul, Nat.reduceSub, Nat.mul_zero, Nat.sub_zero,
        Nat.mul_one] at hl' ⊢
    · exact ⟨expand5_ext5 _ h59, by simpa using expand5_second _ h59 _ h56 hl'.1 hl'.2⟩
    · exact ⟨expand5_ext5 _ h51, by simpa using expand5_second _ h51 _ h48 hl'.1 hl'.2⟩
    · exact ⟨expand5_ext5 _ h43, by simpa using expand5_second _ h43 _ h40 hl'.1 hl'.2⟩
  · have hd' : ¬ field word 33 1 = 1 := by simpa [field] using hd
    simp only [hd, hd', if_false, decide_false]
    have hc : ch = 0 ∨ ch = 1 ∨ ch = 2 := by omega
    rcases hc with rfl | rfl | rfl <;>
      simp only [field, tri, Nat.reducePow, Nat.reduceMul, Nat.reduceSub, Nat.mul_zero, Nat.sub_zero, Nat.mul_one] <;>
      exact ⟨ext4_eq _ (Nat.mod_lt _ (by decide)), ext4_eq _ (Nat.mod_lt _ (by decide))⟩

end Mila.Etc1

namespace Mila.Etc1
open Spec.Etc1 Pixel

theorem bit_hi (word k : Nat) (hk : k < 16) : word / 2 ^ 16 % 2 ^ 16 / 2 ^ k % 2 = word / 2 ^ (16 + k) % 2 := by
  have : k = 0 ∨ k = 1 ∨ k = 2 ∨ k = 3 ∨ k = 4 ∨ k = 5 ∨ k = 6 ∨ k = 7 ∨ k = 8 ∨ k = 9 ∨ k = 10 ∨ k = 11 ∨
      k = 12 ∨ k = 13 ∨ k = 14 ∨ k = 15 := by omega
  rcases this with h | h | h | h | h | h | h | h | h | h | h | h | h | h | h | h <;> subst h <;>
    simp only [Nat.reducePow, Nat.reduceAdd] <;> omega

theorem bit_lo (word k : Nat) (hk : k < 16) : word % 2 ^ 16 / 2 ^ k % 2 = word / 2 ^ k % 2 := by
  have : k = 0 ∨ k = 1 ∨ k = 2 ∨ k = 3 ∨ k = 4 ∨ k = 5 ∨ k = 6 ∨ k = 7 ∨ k = 8 ∨ k = 9 ∨ k = 10 ∨ k = 11 ∨
      k = 12 ∨ k = 13 ∨ k = 14 ∨ k = 15 := by omega
  rcases this with h | h | h | h | h | h | h | h | h | h | h | h | h | h | h | h <;> subst h <;>
    simp only [Nat.reducePow] <;> omega

/-- The model's texel colour is the ETC1-rules colour, for every legal block and every texel. -/
theorem texel_rules (alphas word x y : Nat) (hx : x < 4) (hy : y < 4) (hl : Legal word)
    (ch : Nat) (hch : ch < 3) :
    (((texel alphas word x y).chan ch : Nat) : Int) = channel word x y ch := by
  obtain ⟨hb1, hb2⟩ := base_eq word hl ch hch
  have hk : x * 4 + y < 16 := by omega
  have hmsb := bit_hi word (x * 4 + y) hk
  have hlsb := bit_lo word (x * 4 + y) hk
  have hm1 := modifier_eq (word / 2 ^ 37 % 8) (Nat.mod_lt _ (by decide)) (word / 2 ^ (16 + (x * 4 + y)) % 2)
    (Nat.mod_lt _ (by decide)) (word / 2 ^ (x * 4 + y) % 2) (Nat.mod_lt _ (by decide))
  have hm2 := modifier_eq (word / 2 ^ 34 % 8) (Nat.mod_lt _ (by decide)) (word / 2 ^ (16 + (x * 4 + y)) % 2)
    (Nat.mod_lt _ (by decide)) (word / 2 ^ (x * 4 + y) % 2) (Nat.mod_lt _ (by decide))
  unfold texel channel subblock flipBit
  simp only [field, hmsb, hlsb, Nat.pow_one, Nat.reducePow]
  have hc : ch = 0 ∨ ch = 1 ∨ ch = 2 := by omega
  by_cases hf : word / 4294967296 % 2 = 1 <;> by_cases hy2 : y < 2 <;> by_cases hx2 : x < 2 <;>
    rcases hc with rfl | rfl | rfl <;>
    simp only [hf, hy2, hx2, if_true, if_false, decide_true, decide_false, Rgba.chan, tri, clampAdd_eq,
      Nat.reducePow] at hb1 hb2 hm1 hm2 ⊢ <;>
    simp_all

end Mila.Etc1
