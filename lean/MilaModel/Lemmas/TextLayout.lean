/-
Lemmas for C06: the data image written by `TextArchive::serialize` is a concatenation of 4-byte
padded blocks, the label table carries one key per block start, and `from_archive` walks exactly
these blocks.
-/
import MilaModel.Model.TextArchive
import MilaModel.Lemmas.TextUtf
import MilaModel.Lemmas.TextIndexMap

namespace Mila.Lemmas.TextLayout
open Mila Mila.TextArchive Mila.BinArchive
open Mila.Lemmas.TextIndexMap (keysOf)

/-- The property's message domain for a format: Shift-JIS-faithful NUL-free text for the legacy
format, any NUL-free Unicode text (given by its scalar values) for the UTF-16 format. -/
def GoodMsg (c : Codec) (f : TextFormat) (m : Str) : Prop :=
  match f with
  | .shiftJIS => ∃ b, c.enc m = some b ∧ (0 : UInt8) ∉ b ∧ c.dec b = m
  | .unicode => ∃ cs, (∀ x ∈ cs, Utf.IsScalar x ∧ x ≠ 0) ∧ m = Utf.utf8Enc cs

def bodyOf (c : Codec) (f : TextFormat) (m : Str) : Bytes :=
  match f with
  | .shiftJIS => (c.enc m).getD []
  | .unicode => match Utf.toUtf16 m with
    | .ok u => u
    | _ => []

def termLen : TextFormat → Nat
  | .shiftJIS => 1
  | .unicode => 2

/-- The block one message occupies: encoded body, terminator, zero padding to 4 bytes. -/
def blockOf (c : Codec) (f : TextFormat) (m : Str) : Bytes :=
  padTo4 (bodyOf c f m ++ List.replicate (termLen f) 0)

/-! ### padding arithmetic -/

theorem padTo4_length (b : Bytes) : (padTo4 b).length = b.length + (4 - b.length % 4) % 4 := by
  simp [padTo4]

theorem padTo4_length_mod (b : Bytes) : (padTo4 b).length % 4 = 0 := by
  rw [padTo4_length]; omega

theorem padTo4_append (pre b : Bytes) (h : pre.length % 4 = 0) : padTo4 (pre ++ b) = pre ++ padTo4 b := by
  have : (pre.length + b.length) % 4 = b.length % 4 := by omega
  simp only [padTo4, List.length_append, this, List.append_assoc]

theorem termLen_pos (f : TextFormat) : 0 < termLen f := by cases f <;> simp [termLen]

theorem blockOf_length_mod (c : Codec) (f : TextFormat) (m : Str) : (blockOf c f m).length % 4 = 0 :=
  padTo4_length_mod _

theorem blockOf_length_ge (c : Codec) (f : TextFormat) (m : Str) : 4 ≤ (blockOf c f m).length := by
  have h1 := blockOf_length_mod c f m
  have h2 : 0 < (blockOf c f m).length := by
    unfold blockOf
    rw [padTo4_length, List.length_append, List.length_replicate]
    have := termLen_pos f
    omega
  omega

/-! ### one message: writer and reader -/

theorem writeMessage_good (c : Codec) (f : TextFormat) (bytes : Bytes) (m : Str)
    (hg : GoodMsg c f m) (hb : bytes.length % 4 = 0) :
    writeMessage c f bytes m = .ok (bytes ++ blockOf c f m) := by
  cases f with
  | shiftJIS =>
    obtain ⟨b, he, _, _⟩ := hg
    simp only [writeMessage, writeSjisString, he, blockOf, bodyOf, termLen, Option.getD_some]
    rw [List.append_assoc, padTo4_append _ _ hb]
    rfl
  | unicode =>
    obtain ⟨cs, hcs, rfl⟩ := hg
    have := (TextUtf.utf16_roundtrip cs hcs []).1
    simp only [writeMessage, writeUtf16String, this, blockOf, bodyOf, termLen]
    rw [List.append_assoc, padTo4_append _ _ hb]
    rfl

theorem cstrBytes_append (b rest : Bytes) (h : (0 : UInt8) ∉ b) :
    cstrBytes (b ++ 0 :: rest) = some b := by
  induction b with
  | nil => simp [cstrBytes]
  | cons x xs ih =>
    have hx : x ≠ 0 := fun e => h (by simp [e])
    have := ih (fun hm => h (by simp [hm]))
    simp [cstrBytes, hx, this]

theorem readMessage_block (c : Codec) (f : TextFormat) (a : BinArchive) (pre post : Bytes) (m : Str)
    (hg : GoodMsg c f m) (hd : a.data = pre ++ blockOf c f m ++ post) (hp : pre.length % 4 = 0) :
    readMessage c f a ⟨pre.length⟩ = .ok (m, ⟨pre.length + (blockOf c f m).length⟩) := by
  have hdrop : a.data.drop pre.length = blockOf c f m ++ post := by
    rw [hd, List.append_assoc, List.drop_left]
  cases f with
  | shiftJIS =>
    obtain ⟨b, he, h0, hdec⟩ := hg
    have hblk : blockOf c .shiftJIS m = b ++ 0 :: List.replicate ((4 - (b.length + 1) % 4) % 4) 0 := by
      simp [blockOf, bodyOf, termLen, he, padTo4]
    simp only [readMessage, Reader.readSjisAligned, hdrop]
    rw [hblk, List.append_assoc, List.cons_append, cstrBytes_append _ _ h0]
    simp only [hdec, Reader.alignUp, List.length_append, List.length_cons, List.length_replicate]
    congr 3
    omega
  | unicode =>
    obtain ⟨cs, hcs, rfl⟩ := hg
    obtain ⟨h1, _, h3, h4⟩ := TextUtf.utf16_roundtrip cs hcs []
    have hblk : blockOf c .unicode (Utf.utf8Enc cs) =
        Utf.utf16Bytes cs ++ 0 :: 0 :: List.replicate ((4 - ((Utf.utf16Bytes cs).length + 2) % 4) % 4) 0 := by
      simp [blockOf, bodyOf, termLen, h1, padTo4, List.replicate]
    simp only [readMessage, readUtf16Aligned, hdrop]
    rw [hblk, List.append_assoc, List.cons_append, List.cons_append,
      (TextUtf.utf16_roundtrip cs hcs _).2.1]
    simp only [h3, Reader.alignUp, List.length_append, List.length_cons, List.length_replicate]
    congr 3
    omega

/-! ### the whole image -/

def image (c : Codec) (f : TextFormat) (es : List (Str × Str)) : Bytes :=
  es.flatMap (fun p => blockOf c f p.2)

/-- `label_info` as a function of the start offset. -/
def labelInfo (c : Codec) (f : TextFormat) : Nat → List (Str × Str) → List (Str × Nat)
  | _, [] => []
  | off, (k, m) :: rest => (k, off) :: labelInfo c f (off + (blockOf c f m).length) rest

theorem image_length_mod (c : Codec) (f : TextFormat) (es : List (Str × Str)) :
    (image c f es).length % 4 = 0 := by
  induction es with
  | nil => rfl
  | cons p ps ih =>
    simp only [image, List.flatMap_cons, List.length_append] at ih ⊢
    have := blockOf_length_mod c f p.2
    omega

theorem writeEntries_good (c : Codec) (f : TextFormat) (es : List (Str × Str))
    (hg : ∀ p ∈ es, GoodMsg c f p.2) :
    ∀ (bytes : Bytes) (info : List (Str × Nat)), bytes.length % 4 = 0 →
      writeEntries c f bytes info es =
        .ok (bytes ++ image c f es, info ++ labelInfo c f bytes.length es) := by
  induction es with
  | nil => intro bytes info _; simp [writeEntries, image, labelInfo]
  | cons p ps ih =>
    intro bytes info hb
    obtain ⟨k, m⟩ := p
    have hm := hg (k, m) (by simp)
    have ih := ih (fun q hq => hg q (by simp [hq]))
    rw [writeEntries, writeMessage_good c f bytes m hm hb]
    simp only
    have hb' : (bytes ++ blockOf c f m).length % 4 = 0 := by
      rw [List.length_append]; have := blockOf_length_mod c f m; omega
    rw [ih _ _ hb']
    simp [image, labelInfo, List.append_assoc]

theorem labelInfo_keys (c : Codec) (f : TextFormat) (es : List (Str × Str)) (off : Nat) :
    (labelInfo c f off es).map (·.1) = keysOf es := by
  induction es generalizing off with
  | nil => rfl
  | cons p ps ih => obtain ⟨k, m⟩ := p; simp [labelInfo, keysOf, ih]

theorem labelInfo_bounds (c : Codec) (f : TextFormat) (es : List (Str × Str)) (off : Nat) :
    ∀ p ∈ labelInfo c f off es, off ≤ p.2 ∧ p.2 + 4 ≤ off + (image c f es).length ∧
      (off % 4 = 0 → p.2 % 4 = 0) := by
  induction es generalizing off with
  | nil => intro p hp; simp [labelInfo] at hp
  | cons q qs ih =>
    obtain ⟨k, m⟩ := q
    intro p hp
    have hge := blockOf_length_ge c f m
    have hmod := blockOf_length_mod c f m
    simp only [labelInfo, List.mem_cons] at hp
    simp only [image, List.flatMap_cons, List.length_append] at ih ⊢
    rcases hp with rfl | hp
    · simp only; refine ⟨Nat.le_refl _, by omega, id⟩
    · obtain ⟨h1, h2, h3⟩ := ih _ p hp
      refine ⟨by omega, by omega, fun h => h3 (by omega)⟩

theorem labelInfo_sorted (c : Codec) (f : TextFormat) (es : List (Str × Str)) (off : Nat) :
    (labelInfo c f off es).Pairwise (fun p q => p.2 < q.2) := by
  induction es generalizing off with
  | nil => simp [labelInfo]
  | cons q qs ih =>
    obtain ⟨k, m⟩ := q
    simp only [labelInfo, List.pairwise_cons]
    refine ⟨?_, ih _⟩
    intro p hp
    have := (labelInfo_bounds c f qs _ p hp).1
    have hge := blockOf_length_ge c f m
    show off < p.2
    omega

/-! ### labels -/

theorem umap_get_none_any {ν : Type} (m : UMap Nat ν) (k : Nat) (h : UMap.get m k = none) :
    m.any (fun p => decide (p.1 = k)) = false := by
  induction m with
  | nil => rfl
  | cons p ps ih =>
    by_cases hp : p.1 = k
    · simp [UMap.get, hp] at h
    · have h' : UMap.get ps k = none := by simpa [UMap.get, List.find?_cons, hp] using h
      simp [hp, ih h']

theorem umap_get_append {ν : Type} (m : UMap Nat ν) (k k' : Nat) (v : ν) (hne : k ≠ k') :
    UMap.get (m ++ [(k, v)]) k' = UMap.get m k' := by
  induction m with
  | nil => simp [UMap.get, hne]
  | cons p ps ih =>
    simp only [UMap.get, List.cons_append, List.find?_cons] at ih ⊢
    by_cases hp : p.1 = k'
    · simp [hp]
    · simp only [hp, decide_false]; exact ih

theorem writeLabels_fresh (info : List (Str × Nat)) :
    ∀ (a : BinArchive), (∀ p ∈ info, p.2 ≤ a.size) → (info.map (·.2)).Nodup →
      (∀ p ∈ info, UMap.get a.labels p.2 = none) →
      TextArchive.writeLabels a info = .ok { a with labels := a.labels ++ info.map (fun p => (p.2, [p.1])) } := by
  induction info with
  | nil => intro a _ _ _; simp [TextArchive.writeLabels]
  | cons q qs ih =>
    obtain ⟨k, off⟩ := q
    intro a hle hnd hfresh
    have hoff : off ≤ a.size := hle (k, off) (by simp)
    have hnone : UMap.get a.labels off = none := hfresh (k, off) (by simp)
    have hva : validateAddress off a.size true = .ok () := by
      simp only [validateAddress, Bool.true_and, Bool.not_true, Bool.false_and, Bool.or_false]
      have : ¬ off > a.size := by omega
      simp [this]
    simp only [List.map_cons, List.nodup_cons] at hnd
    rw [TextArchive.writeLabels, BinArchive.writeLabel, hva]
    simp only [hnone, UMap.insert, umap_get_none_any _ _ hnone, Bool.false_eq_true, if_false]
    rw [ih]
    · simp [List.append_assoc]
    · intro p hp; exact hle p (by simp [hp])
    · exact hnd.2
    · intro p hp
      have hne : off ≠ p.2 := by
        intro e
        apply hnd.1
        rw [e]
        exact List.mem_map_of_mem (f := (·.2)) hp
      simp only
      rw [umap_get_append _ _ _ _ hne]
      exact hfresh p (by simp [hp])

theorem umap_get_info (info : List (Str × Nat)) (hnd : (info.map (·.2)).Nodup) :
    ∀ p ∈ info, UMap.get (info.map (fun p => (p.2, [p.1]))) p.2 = some [p.1] := by
  induction info with
  | nil => intro p hp; cases hp
  | cons q qs ih =>
    simp only [List.map_cons, List.nodup_cons] at hnd
    intro p hp
    simp only [List.mem_cons] at hp
    simp only [List.map_cons, UMap.get, List.find?_cons]
    rcases hp with rfl | hp
    · simp
    · have hne : ¬ q.2 = p.2 := by
        intro e
        apply hnd.1
        rw [e]
        exact List.mem_map_of_mem (f := (·.2)) hp
      simp only [hne, decide_false]
      exact ih hnd.2 p hp

/-! ### the layout predicate and the reader -/

/-- The layout clause of C06 on a bin archive: starting at `off`, each entry sits on a 4-byte
boundary, is labelled with exactly its key, reads back as its message, and the next entry starts
where that read ends; after the last entry the data region ends. -/
def Laid (c : Codec) (f : TextFormat) (a : BinArchive) : Nat → List (Str × Str) → Prop
  | off, [] => off = a.size
  | off, (k, m) :: rest =>
    off % 4 = 0 ∧ off + 4 ≤ a.size ∧ UMap.get a.labels off = some [k] ∧
      ∃ r', readMessage c f a ⟨off⟩ = .ok (m, r') ∧ Laid c f a r'.pos rest

theorem laid_of_image (c : Codec) (f : TextFormat) (a : BinArchive) (es : List (Str × Str))
    (hg : ∀ p ∈ es, GoodMsg c f p.2) :
    ∀ (pre : Bytes), a.data = pre ++ image c f es → pre.length % 4 = 0 →
      (∀ p ∈ labelInfo c f pre.length es, UMap.get a.labels p.2 = some [p.1]) →
      Laid c f a pre.length es := by
  induction es with
  | nil =>
    intro pre hd _ _
    simp only [Laid, BinArchive.size, hd, image, List.flatMap_nil, List.append_nil]
  | cons q qs ih =>
    obtain ⟨k, m⟩ := q
    intro pre hd hp hl
    have hm := hg (k, m) (by simp)
    have hge := blockOf_length_ge c f m
    have hmod := blockOf_length_mod c f m
    simp only [image, List.flatMap_cons] at hd
    rw [← List.append_assoc] at hd
    refine ⟨hp, ?_, hl (k, pre.length) (by simp [labelInfo]), _, readMessage_block c f a pre _ m hm hd hp, ?_⟩
    · simp only [BinArchive.size, hd, List.length_append]; omega
    · have := ih (fun p hp' => hg p (by simp [hp'])) (pre ++ blockOf c f m) hd
        (by rw [List.length_append]; omega)
        (by
          intro p hp'
          apply hl
          simp only [labelInfo, List.mem_cons]
          right
          rw [List.length_append] at hp'
          exact hp')
      rw [List.length_append] at this
      exact this

theorem readMessage_lt_size {c : Codec} {f : TextFormat} {a : BinArchive} {pos : Nat} {m : Str}
    {r' : Reader} (h : readMessage c f a ⟨pos⟩ = .ok (m, r')) : pos < a.size := by
  false_or_by_contra
  rename_i hge
  have hdrop : a.data.drop pos = [] := List.drop_of_length_le (by unfold BinArchive.size at hge; omega)
  cases f with
  | shiftJIS => simp [readMessage, Reader.readSjisAligned, hdrop, cstrBytes] at h
  | unicode => simp [readMessage, readUtf16Aligned, hdrop, Utf.utf16Raw] at h

/-- One iteration of the `while` loop of `from_archive`. -/
theorem fromLoop_step (c : Codec) (f : TextFormat) (a : BinArchive) (pos : Nat)
    (acc : List (Str × Str)) (labels : Option (List Str)) (m : Str) (r' : Reader)
    (hlt : pos < a.size) (hl : BinArchive.readLabels a pos = .ok labels)
    (hm : readMessage c f a ⟨pos⟩ = .ok (m, r')) :
    fromLoop c f a pos acc = fromLoop c f a r'.pos
      (match (labels.getD []).head? with
       | some k => imSet acc k m
       | none => acc) := by
  rw [fromLoop]
  simp only [hlt, if_true, hl]
  split
  · rename_i message r'' heq
    rw [hm] at heq
    cases heq
    rfl
  · rename_i e heq; rw [hm] at heq; cases heq
  · rename_i heq; rw [hm] at heq; cases heq

theorem fromLoop_done (c : Codec) (f : TextFormat) (a : BinArchive) (pos : Nat)
    (acc : List (Str × Str)) (h : ¬ pos < a.size) : fromLoop c f a pos acc = .ok acc := by
  rw [fromLoop]; simp [h]

theorem imSet_fresh (acc : List (Str × Str)) (k m : Str) (h : k ∉ keysOf acc) :
    imSet acc k m = acc ++ [(k, m)] := by
  have : imContains acc k = false := by
    cases hc : imContains acc k
    · rfl
    · exact absurd ((TextIndexMap.imContains_iff acc k).mp hc) h
  simp [imSet, this]

/-- The reader recovers exactly the laid-out entries, in order. -/
theorem fromLoop_of_laid (c : Codec) (f : TextFormat) (a : BinArchive) (es : List (Str × Str)) :
    ∀ (off : Nat) (acc : List (Str × Str)), Laid c f a off es → (keysOf es).Nodup →
      (∀ k ∈ keysOf es, k ∉ keysOf acc) → fromLoop c f a off acc = .ok (acc ++ es) := by
  induction es with
  | nil =>
    intro off acc hl _ _
    simp only [Laid] at hl
    rw [fromLoop_done _ _ _ _ _ (by omega)]
    simp
  | cons q qs ih =>
    obtain ⟨k, m⟩ := q
    intro off acc hl hnd hfresh
    obtain ⟨_, hsz, hlab, r', hread, hrest⟩ := hl
    simp only [keysOf, List.map_cons, List.nodup_cons] at hnd
    have hrl : BinArchive.readLabels a off = .ok (some [k]) := by
      have h1 : validateAddress off a.size false = .ok () := by
        have : ¬ off ≥ a.size := by omega
        simp [validateAddress, this]
      have h2 : validateAddress (off + 4) a.size true = .ok () := by
        have : ¬ off + 4 > a.size := by omega
        simp [validateAddress, this]
      simp [BinArchive.readLabels, validateCell, h1, h2, hlab]
    rw [fromLoop_step c f a off acc (some [k]) m r' (by omega) hrl hread]
    simp only [Option.getD_some, List.head?_cons]
    have hk : k ∉ keysOf acc := hfresh k (by simp [keysOf])
    rw [imSet_fresh acc k m hk]
    rw [ih r'.pos (acc ++ [(k, m)]) hrest hnd.2]
    · simp [List.append_assoc]
    · intro k' hk' hmem
      simp only [keysOf, List.map_append, List.map_cons, List.map_nil, List.mem_append,
        List.mem_singleton] at hmem
      rcases hmem with hmem | rfl
      · exact hfresh k' (by simp only [keysOf, List.map_cons, List.mem_cons]; right; exact hk') hmem
      · exact hnd.1 hk'

/-- `Laid`, the label lookups and the message reads depend only on the data region and the label
lookup function of the archive. -/
theorem readMessage_congr (c : Codec) (f : TextFormat) (a a' : BinArchive) (hd : a'.data = a.data)
    (r : Reader) : readMessage c f a' r = readMessage c f a r := by
  cases f <;> simp [readMessage, Reader.readSjisAligned, readUtf16Aligned, hd]

theorem laid_congr (c : Codec) (f : TextFormat) (a a' : BinArchive) (hd : a'.data = a.data)
    (hl : ∀ x, UMap.get a'.labels x = UMap.get a.labels x) (es : List (Str × Str)) :
    ∀ off, Laid c f a off es → Laid c f a' off es := by
  induction es with
  | nil => intro off h; simpa [Laid, BinArchive.size, hd] using h
  | cons q qs ih =>
    obtain ⟨k, m⟩ := q
    intro off ⟨h1, h2, h3, r', h4, h5⟩
    refine ⟨h1, by simpa [BinArchive.size, hd] using h2, by rw [hl]; exact h3, r', ?_, ih _ h5⟩
    rw [readMessage_congr c f a a' hd]; exact h4

/-! ### `from_archive` depends only on the data region and the label lookup -/

/-- The loop body of `from_archive`, with the progress proof of the definition forgotten. -/
theorem fromLoop_unfold (c : Codec) (f : TextFormat) (a : BinArchive) (pos : Nat)
    (acc : List (Str × Str)) :
    fromLoop c f a pos acc =
      if pos < a.size then
        match BinArchive.readLabels a pos with
        | .ok labels =>
          match readMessage c f a ⟨pos⟩ with
          | .ok (message, r') =>
            fromLoop c f a r'.pos
              (match (labels.getD []).head? with
               | some k => imSet acc k message
               | none => acc)
          | .err e => .err e
          | .panic => .panic
        | .err e => .err e
        | .panic => .panic
      else .ok acc := by
  conv => lhs; rw [fromLoop]
  split
  · split
    · rename_i hl
      split <;> rename_i heq <;> simp only [hl, heq] <;> rfl
    · rename_i hl; simp only [hl]
    · rename_i hl; simp only [hl]
  · rfl

theorem readLabels_congr (a a' : BinArchive) (hd : a'.data = a.data)
    (hl : ∀ x, UMap.get a'.labels x = UMap.get a.labels x) (pos : Nat) :
    BinArchive.readLabels a' pos = BinArchive.readLabels a pos := by
  simp [BinArchive.readLabels, validateCell, BinArchive.size, hd, hl]

theorem fromLoop_congr (c : Codec) (f : TextFormat) (a a' : BinArchive) (hd : a'.data = a.data)
    (hl : ∀ x, UMap.get a'.labels x = UMap.get a.labels x) :
    ∀ (n pos : Nat) (acc : List (Str × Str)), a.size - pos = n →
      fromLoop c f a' pos acc = fromLoop c f a pos acc := by
  intro n
  induction n using Nat.strongRecOn with
  | ind n ih =>
    intro pos acc hn
    rw [fromLoop_unfold c f a', fromLoop_unfold c f a]
    have hs : a'.size = a.size := by simp [BinArchive.size, hd]
    rw [hs, readLabels_congr a a' hd hl, readMessage_congr c f a a' hd]
    by_cases hlt : pos < a.size
    · simp only [hlt, if_true]
      cases BinArchive.readLabels a pos with
      | ok labels =>
        simp only
        cases hm : readMessage c f a ⟨pos⟩ with
        | ok mr =>
          obtain ⟨m, r'⟩ := mr
          simp only
          have hp := readMessage_progress hm
          simp only at hp
          exact ih (a.size - r'.pos) (by omega) r'.pos _ rfl
        | err e => rfl
        | panic => rfl
      | err e => rfl
      | panic => rfl
    · simp [hlt]

/-- **Layering lemma.** `from_archive` reads nothing but the data region and the labels: two
archives that agree on those give the same result (whatever their strings, pointers, c-strings). -/
theorem fromArchive_congr (c : Codec) (f : TextFormat) (e : Endian) (a a' : BinArchive)
    (hd : a'.data = a.data) (hl : ∀ x, UMap.get a'.labels x = UMap.get a.labels x) :
    fromArchive c a' f e = fromArchive c a f e := by
  have hloop : ∀ pos acc, fromLoop c f a' pos acc = fromLoop c f a pos acc :=
    fun pos acc => fromLoop_congr c f a a' hd hl _ pos acc rfl
  cases f with
  | shiftJIS => simp only [fromArchive, hloop]
  | unicode =>
    have ht : Reader.readSjisAligned c a' ⟨0⟩ = Reader.readSjisAligned c a ⟨0⟩ :=
      readMessage_congr c .shiftJIS a a' hd ⟨0⟩
    simp only [fromArchive, hloop, ht]

end Mila.Lemmas.TextLayout
