/-
C05, part 3: what the header check of `BinArchive::from_bytes` and the entry checks of
`fe9_arc::parse` guarantee.

* the header words of a bin archive (`hdrDataSize`, `hdrPointerCount`, `hdrLabelCount`), the size
  check (`parse_too_small`), and what an accepted buffer satisfies (`parse_ok_header`: the declared
  regions fit and the archive's data region has exactly the declared size — the `resize` request);
* `Parsers.binRequests` is that request, and it is bounded by the input length;
* pack: an accepted buffer holds its whole entry table and every declared file range.
-/
import MilaModel.Lemmas.ParsersTotal
import MilaModel.Lemmas.Pack
import MilaModel.Model.Parsers

namespace Mila.ParsersLemmas
open Mila BinArchive

/-! ### bin-archive header -/

/-- Header word `data_size` (bytes 4..8), bin_archive.rs `from_bytes`. -/
def hdrDataSize (e : Endian) (bytes : Bytes) : Nat := e.dec (slice bytes 4 4)
/-- Header word `pointer_count` (bytes 8..12). -/
def hdrPointerCount (e : Endian) (bytes : Bytes) : Nat := e.dec (slice bytes 8 4)
/-- Header word `label_count` (bytes 12..16). -/
def hdrLabelCount (e : Endian) (bytes : Bytes) : Nat := e.dec (slice bytes 12 4)

/-- What the header declares: header + data + pointer table + label table. -/
def hdrDeclared (e : Endian) (bytes : Bytes) : Nat :=
  hdrDataSize e bytes + 4 * hdrPointerCount e bytes + 8 * hdrLabelCount e bytes + 0x20

/-- **The size check**: a header that declares more than the buffer holds is `ArchiveTooSmall`
(the sum is a sum of naturals: after fix D6 it cannot wrap). -/
theorem parse_too_small (c : Codec) (e : Endian) (bytes : Bytes)
    (h : hdrDeclared e bytes > bytes.length) : parse c e bytes = .err .TooSmall := by
  unfold hdrDeclared hdrDataSize hdrPointerCount hdrLabelCount at h
  unfold parse
  split
  · rfl
  · simp only []
    rw [if_pos (by omega)]

theorem parse_short (c : Codec) (e : Endian) (bytes : Bytes) (h : bytes.length < 0x20) :
    parse c e bytes = .err .TooSmall := by
  unfold parse; rw [if_pos h]

theorem length_slice_le (b : Bytes) (s l : Nat) (h : s + l ≤ b.length) : (slice b s l).length = l := by
  simp [slice]; omega

/-! #### the header words are `u32`s: the `u64` sum of the code cannot overflow -/

theorem slice_length_le (b : Bytes) (s l : Nat) : (slice b s l).length ≤ l := by
  simp [slice]; omega

theorem dec_slice4_lt (e : Endian) (bytes : Bytes) (off : Nat) : e.dec (slice bytes off 4) < 2 ^ 32 := by
  have h1 := ArcLemmas.dec_lt e (slice bytes off 4)
  have h2 : 256 ^ (slice bytes off 4).length ≤ 256 ^ 4 :=
    Nat.pow_le_pow_right (by decide) (slice_length_le bytes off 4)
  have h3 : 256 ^ 4 = 2 ^ 32 := by decide
  omega

theorem hdrDeclared_lt (e : Endian) (bytes : Bytes) : hdrDeclared e bytes < 2 ^ 36 := by
  have h1 := dec_slice4_lt e bytes 4
  have h2 := dec_slice4_lt e bytes 8
  have h3 := dec_slice4_lt e bytes 12
  unfold hdrDeclared hdrDataSize hdrPointerCount hdrLabelCount
  omega

/-! #### the data region is fixed by the header -/

theorem writeString_data {a a' : BinArchive} {x : Nat} {s : Str}
    (h : a.writeString x (some s) = .ok a') : a'.data = a.data := by
  unfold BinArchive.writeString at h
  simp only [] at h
  split at h <;> simp at h
  rw [← h]

theorem writePointer_data {a a' : BinArchive} {x v : Nat}
    (h : a.writePointer x (some v) = .ok a') : a'.data = a.data := by
  unfold BinArchive.writePointer at h
  simp only [] at h
  split at h <;> simp at h
  rw [← h]

theorem writeLabel_data {a a' : BinArchive} {x : Nat} {l : Str}
    (h : a.writeLabel x l = .ok a') : a'.data = a.data := by
  unfold BinArchive.writeLabel at h
  split at h
  · split at h <;> (simp at h; rw [← h])
  · simp at h
  · simp at h

theorem parsePointer_data {c : Codec} {e : Endian} {bytes : Bytes} {ds pos : Nat} {a a' : BinArchive}
    (h : parsePointer c e bytes ds a pos = .ok a') : a'.data = a.data := by
  unfold parsePointer at h
  split at h
  · simp at h
  · unfold parsePointerAt at h
    split at h
    · split at h
      · split at h
        · exact writeString_data h
        · simp at h
        · simp at h
      · exact writePointer_data h
    · simp at h
    · simp at h

theorem parseLabel_data {c : Codec} {e : Endian} {bytes : Bytes} {ts pos : Nat} {a a' : BinArchive}
    (h : parseLabel c e bytes ts a pos = .ok a') : a'.data = a.data := by
  unfold parseLabel at h
  split at h
  · unfold parseLabelAt at h
    split at h
    · exact writeLabel_data h
    · simp at h
    · simp at h
  · simp at h

/-- **Accepted ⇒ the declaration fits, and the data region is exactly the declared size.** -/
theorem parse_ok_header {c : Codec} {e : Endian} {bytes : Bytes} {a : BinArchive}
    (h : parse c e bytes = .ok a) :
    0x20 ≤ bytes.length ∧ hdrDeclared e bytes ≤ bytes.length ∧
      a.data = slice bytes 0x20 (hdrDataSize e bytes) ∧ a.data.length = hdrDataSize e bytes := by
  unfold parse at h
  split at h
  · simp at h
  · simp only [] at h
    split at h
    · simp at h
    · rename_i h1 h2
      have hfit : hdrDeclared e bytes ≤ bytes.length := by
        unfold hdrDeclared hdrDataSize hdrPointerCount hdrLabelCount; omega
      have hd : a.data = slice bytes 0x20 (hdrDataSize e bytes) := by
        split at h
        · rename_i a1 hp
          have d1 := foldlM_inv _ (fun x : BinArchive => x.data = slice bytes 0x20 (hdrDataSize e bytes))
            (fun b i b' hb hs => by rw [parsePointer_data hs]; exact hb) _ _ _ rfl hp
          exact foldlM_inv _ (fun x : BinArchive => x.data = slice bytes 0x20 (hdrDataSize e bytes))
            (fun b i b' hb hs => by rw [parseLabel_data hs]; exact hb) _ _ _ d1 h
        · simp at h
        · simp at h
      refine ⟨by omega, hfit, hd, ?_⟩
      rw [hd]
      apply length_slice_le
      unfold hdrDeclared at hfit; omega

/-! ### the sized request -/

open Parsers in
theorem binRequests_le (e : Endian) (bytes : Bytes) : ∀ r ∈ binRequests e bytes, r ≤ bytes.length := by
  unfold binRequests
  split
  · simp
  · simp only []
    split
    · simp
    · intro r hr
      simp only [List.mem_singleton] at hr
      omega

open Parsers in
theorem requests_le (entry : String) (bytes : Bytes) : ∀ r ∈ requests entry bytes, r ≤ bytes.length := by
  unfold requests
  split <;> first | exact binRequests_le _ _ | simp

open Parsers in
/-- The request log is empty exactly when the header check fails … -/
theorem binRequests_eq (e : Endian) (bytes : Bytes) :
    binRequests e bytes =
      if bytes.length < 0x20 ∨ hdrDeclared e bytes > bytes.length then [] else [hdrDataSize e bytes] := by
  unfold binRequests hdrDeclared hdrDataSize hdrPointerCount hdrLabelCount
  by_cases h1 : bytes.length < 0x20
  · simp [h1]
  · simp only [h1, if_false, false_or]
    by_cases h2 : e.dec (slice bytes 4 4) + e.dec (slice bytes 8 4) * 4 + e.dec (slice bytes 12 4) * 8 + 0x20
        > bytes.length
    · rw [if_pos h2, if_pos (by omega)]
    · rw [if_neg h2, if_neg (by omega)]

open Parsers in
/-- … in which case `parse` stops with `ArchiveTooSmall` before sizing anything. -/
theorem parse_of_binRequests_nil (c : Codec) (e : Endian) (bytes : Bytes)
    (h : binRequests e bytes = []) : parse c e bytes = .err .TooSmall := by
  rw [binRequests_eq] at h
  split at h
  · rename_i hc
    rcases hc with hc | hc
    · exact parse_short c e bytes hc
    · exact parse_too_small c e bytes hc
  · simp at h

open Parsers in
/-- Past the header check the single request is the declared data size, and the buffer of that
size is filled from the input (`archive.data.resize(data_size, 0)` + `read_exact`): the request is
the length of the data region `parse` goes on with. -/
theorem binRequests_resize (e : Endian) (bytes : Bytes) (n : Nat) (h : binRequests e bytes = [n]) :
    n = hdrDataSize e bytes ∧ (slice bytes 0x20 n).length = n ∧ n + 0x20 ≤ bytes.length := by
  rw [binRequests_eq] at h
  split at h
  · simp at h
  · rename_i hc
    have hn : hdrDataSize e bytes = n := by simpa using h
    subst hn
    have : hdrDeclared e bytes ≤ bytes.length := by omega
    unfold hdrDeclared at this
    exact ⟨rfl, length_slice_le _ _ _ (by omega), by omega⟩

open Parsers in
/-- For an accepted buffer the logged request is the size of the archive's data region. -/
theorem binRequests_of_ok {c : Codec} {e : Endian} {bytes : Bytes} {a : BinArchive}
    (h : parse c e bytes = .ok a) : binRequests e bytes = [a.data.length] := by
  obtain ⟨h1, h2, _, h4⟩ := parse_ok_header h
  rw [binRequests_eq, if_neg (by omega), h4]

/-! ### pack -/

section pack
open Fe9Arc PackLemmas
open Mila.Spec.Pack (word)

theorem word4_lt {raw : Bytes} {off v : Nat} (h : word raw off 4 = some v) : v < 2 ^ 32 := by
  unfold word at h
  split at h
  · have hv : ofBe ((raw.drop off).take 4) = v := Option.some.inj h
    have h1 := ArcLemmas.ofBe_lt ((raw.drop off).take 4)
    have h2 : 256 ^ ((raw.drop off).take 4).length ≤ 256 ^ 4 :=
      Nat.pow_le_pow_right (by decide) (by simp; omega)
    have h3 : 256 ^ 4 = 2 ^ 32 := by decide
    omega
  · simp at h

theorem readBe_ok {raw : Bytes} {pos k v p' : Nat} (h : readBe raw pos k = .ok (v, p')) :
    pos + k ≤ raw.length ∧ p' = pos + k := by
  unfold readBe at h
  split at h
  · simp only [Res.ok.injEq, Prod.mk.injEq] at h
    exact ⟨by assumption, h.2.symm⟩
  · simp at h

theorem readEntry_fits {raw : Bytes} {pos : Nat} {e : Entry} {p' : Nat}
    (h : readEntry raw pos = .ok (e, p')) : pos + 16 ≤ raw.length := by
  unfold readEntry at h
  split at h
  · split at h
    · split at h
      · split at h
        · rename_i h1 _ _ _ h2 _ _ _ h3 _ _ _ h4
          have := readBe_ok h1; have := readBe_ok h2; have := readBe_ok h3; have := readBe_ok h4
          omega
        · simp at h
        · simp at h
      · simp at h
      · simp at h
    · simp at h
    · simp at h
  · simp at h
  · simp at h

/-- An entry table that was read is inside the buffer. -/
theorem readEntries_fits (raw : Bytes) : ∀ (n pos : Nat) {es : List Entry},
    readEntries raw n pos = .ok es → n = 0 ∨ pos + 16 * n ≤ raw.length := by
  intro n
  induction n with
  | zero => intro pos es _; left; rfl
  | succ n ih =>
    intro pos es h
    right
    simp only [readEntries] at h
    split at h
    · rename_i e p' he
      have hfit := readEntry_fits he
      have hp : p' = pos + 16 := by
        rw [readEntry_ok hfit] at he
        simp only [Res.ok.injEq, Prod.mk.injEq] at he
        exact he.2.symm
      split at h
      · rename_i es' hes
        rcases ih p' hes with h0 | h1
        · omega
        · omega
      · simp at h
      · simp at h
    · simp at h
    · simp at h

/-- Every entry the file loop accepted lies inside the buffer (fix D8: `raw.get(start..end)`). -/
theorem readFiles_bounds (c : Codec) (raw : Bytes) (acc : Files) (es : List Entry) :
    ∀ {r}, readFiles c raw acc es = .ok r →
      ∀ e ∈ es, e.fileAddress + e.fileSizeUnpadded ≤ raw.length := by
  fun_induction readFiles c raw acc es
  · intro r _ e he; simp at he
  · rename_i acc e es acc' hf ih
    intro r h x hx
    rcases List.mem_cons.mp hx with rfl | hx
    · unfold readFile at hf
      split at hf
      · simp only [] at hf
        split at hf
        · assumption
        · simp at hf
      · simp at hf
      · simp at hf
    · exact ih h x hx
  · intro r h; simp at h
  · intro r h; simp at h

/-- **Accepted ⇒ everything declared is inside the buffer**: the file count is readable, the entry
table of that many 16-byte records fits, and the range `file_address .. file_address + size` of
every record fits. -/
theorem pack_ok_bounds {c : Codec} {raw : Bytes} {m : Files} (h : Fe9Arc.parse c raw = .ok m) :
    ∃ n, word raw 4 2 = some n ∧ (n = 0 ∨ 8 + 16 * n ≤ raw.length) ∧
      ∀ i, i < n → (entryOf raw (8 + 16 * i)).fileAddress + (entryOf raw (8 + 16 * i)).fileSizeUnpadded
        ≤ raw.length := by
  unfold Fe9Arc.parse at h
  rw [readBe_eq] at h
  split at h
  · rename_i v p hm
    split at hm
    · rename_i magic hw
      simp only [Res.ok.injEq, Prod.mk.injEq] at hm
      obtain ⟨_, hp⟩ := hm
      subst hp
      split at h
      · simp at h
      · rw [readBe_eq] at h
        split at h
        · rename_i n q hn
          split at hn
          · rename_i n' hw2
            simp only [Res.ok.injEq, Prod.mk.injEq] at hn
            obtain ⟨hn1, _⟩ := hn
            subst hn1
            split at h
            · rename_i metas hes
              have hfit := readEntries_fits raw _ _ hes
              refine ⟨n', hw2, hfit, ?_⟩
              have hes' := readEntries_ok raw n' 0 (by simpa using hfit)
              simp only [Nat.mul_zero, Nat.add_zero] at hes'
              rw [hes'] at hes
              have hm : metas = (List.range' 0 n').map (fun i => entryOf raw (8 + 16 * i)) :=
                (Res.ok.inj hes).symm
              intro i hi
              apply readFiles_bounds c raw [] metas h
              rw [hm]
              exact List.mem_map.mpr ⟨i, by simp [List.mem_range']; omega, rfl⟩
            · simp at h
            · simp at h
          · simp at hn
        · simp at h
        · simp at h
    · simp at hm
  · simp at h
  · simp at h

end pack

end Mila.ParsersLemmas
