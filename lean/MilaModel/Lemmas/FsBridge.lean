/- Model layers seen as the specification's directory walks, and the top-down searches (C12/C13). -/
import MilaModel.Model.LayeredFs
import MilaModel.Spec.OverlayFs
import MilaModel.Lemmas.FsPath
import MilaModel.Lemmas.FsLayer

namespace Mila.LayeredFs
open Mila.Spec.Overlay (Walk Kind Loc locOf)

def kindOf : Node → Kind
  | .file b => .file b
  | .dir => .dir

/-- The directory walk of a model layer (what the harness prints for a real layer). -/
def walkOf (l : Layer) : Walk := l.map (fun e => (e.1, kindOf e.2))

def walksOf (fs : Fs) : List Walk := fs.layers.map walkOf

theorem at_walkOf (l : Layer) (c : Comps) : (walkOf l).at c = (l.get c).map kindOf := by
  unfold Spec.Overlay.Walk.at Layer.get walkOf
  by_cases hc : c = []
  · simp [hc, kindOf]
  · simp only [hc, if_false, List.find?_map]
    cases h : l.find? (fun e => decide (e.1 = c)) with
    | none =>
      have : List.find? ((fun e : List Bytes × Kind => decide (e.1 = c)) ∘ fun e : Comps × Node => (e.1, kindOf e.2)) l = none := by
        rw [List.find?_eq_none] at h ⊢
        intro x hx; simpa using h x hx
      simp [this]
    | some e =>
      have : List.find? ((fun e : List Bytes × Kind => decide (e.1 = c)) ∘ fun e : Comps × Node => (e.1, kindOf e.2)) l = some e := by
        have : ((fun e : List Bytes × Kind => decide (e.1 = c)) ∘ fun e : Comps × Node => (e.1, kindOf e.2)) = (fun e : Comps × Node => decide (e.1 = c)) := by
          funext x; simp
        rw [this]; exact h
      simp [this]

theorem at_dir_iff (l : Layer) (c : Comps) : (walkOf l).at c = some .dir ↔ l.get c = some .dir := by
  rw [at_walkOf]
  cases l.get c with
  | none => simp
  | some n => cases n <;> simp [kindOf]

theorem notFile_walkOf (l : Layer) (a : Comps) :
    Spec.Overlay.notFile ((walkOf l).at a) = !Layer.isFileNode (l.get a) := by
  rw [at_walkOf]
  cases l.get a with
  | none => rfl
  | some n => cases n <;> rfl

theorem stat_of_locOf (l : Layer) {p : Bytes} {q : Loc} (h : locOf p = some q) :
    l.stat p = match l.get q.comps with
      | some .dir => some .dir
      | some (.file b) => if q.dirOnly then none else some (.file b)
      | none => none := by
  simp only [Layer.stat, parsePath_of_locOf h]
  cases l.get q.comps with
  | none => rfl
  | some n => cases n <;> rfl

theorem fileAt_walkOf (l : Layer) {p : Bytes} {q : Loc} (h : locOf p = some q) :
    (walkOf l).fileAt q = match l.stat p with
      | some (.file b) => some b
      | _ => none := by
  rw [stat_of_locOf l h]
  unfold Spec.Overlay.Walk.fileAt
  rw [at_walkOf]
  cases hd : q.dirOnly <;> cases hg : l.get q.comps with
  | none => simp
  | some n => cases n <;> simp [kindOf]

theorem fileExists_eq (l : Layer) {p : Bytes} {q : Loc} (h : locOf p = some q) :
    l.fileExists p = ((walkOf l).fileAt q).isSome := by
  rw [fileAt_walkOf l h]
  unfold Layer.fileExists
  cases l.stat p with
  | none => rfl
  | some n => cases n <;> rfl

theorem read_eq (l : Layer) {p : Bytes} {q : Loc} (h : locOf p = some q) :
    l.read p = match (walkOf l).fileAt q with
      | some b => .ok b
      | none => .err .Io := by
  rw [fileAt_walkOf l h]
  unfold Layer.read
  cases l.stat p with
  | none => rfl
  | some n => cases n <;> rfl

theorem dirExists_eq (l : Layer) {p : Bytes} {q : Loc} (h : locOf p = some q) :
    l.directoryExists p = (walkOf l).dirAt q := by
  unfold Layer.directoryExists Spec.Overlay.Walk.dirAt
  rw [stat_of_locOf l h, at_walkOf]
  cases hd : q.dirOnly <;> cases hg : l.get q.comps with
  | none => simp
  | some n => cases n <;> simp [kindOf]

theorem exists_eq (l : Layer) {p : Bytes} {q : Loc} (h : locOf p = some q) :
    l.exists_ p = (walkOf l).existsAt q := by
  unfold Spec.Overlay.Walk.existsAt
  rw [← dirExists_eq l h, fileAt_walkOf l h]
  unfold Layer.exists_ Layer.directoryExists
  cases l.stat p with
  | none => rfl
  | some n => cases n <;> simp

/-- `find?` over the reversed layers = the specification's top-down `findSome?`. -/
theorem findSome_fileAt (L : List Layer) {p : Bytes} {q : Loc} (h : locOf p = some q) :
    (L.map walkOf).findSome? (fun w => w.fileAt q) =
      match L.find? (fun l => l.fileExists p) with
      | none => none
      | some l => (walkOf l).fileAt q := by
  induction L with
  | nil => rfl
  | cons l rest ih =>
    simp only [List.map_cons, List.findSome?_cons, List.find?_cons]
    rw [fileExists_eq l h]
    cases hf : (walkOf l).fileAt q with
    | none => simpa using ih
    | some b => simp [hf]

theorem find_isSome_reverse {α : Type} (L : List α) (f : α → Bool) :
    (L.reverse.find? f).isSome = L.any f := by
  rw [Bool.eq_iff_iff, List.find?_isSome]
  simp [List.any_eq_true]

/-- The model's "highest layer satisfying `f`" against the specification's recursion. -/
theorem topIndex_cons (l : Layer) (rest : List Layer) (f : Layer → Bool) :
    Fs.topIndex (l :: rest) f =
      match Fs.topIndex rest f with
      | some i => some (i + 1)
      | none => if f l then some 0 else none := by
  unfold Fs.topIndex
  simp only [List.reverse_cons, List.length_cons]
  rw [List.findIdx?_append]
  cases h : rest.reverse.findIdx? f with
  | some i =>
    have hi : i < rest.length := by
      have := List.findIdx?_eq_some_iff_getElem.mp h
      obtain ⟨hlt, _⟩ := this
      simpa using hlt
    simp only [Option.some_or, Option.some.injEq]
    omega
  | none =>
    simp only [Option.none_or, List.findIdx?_cons, List.findIdx?_nil]
    by_cases hf : f l = true
    · simp [hf]
    · simp [hf]

theorem topIndex_eq_topExists (ls : List Layer) {p : Bytes} {q : Loc} (h : locOf p = some q) :
    Fs.topIndex ls (fun l => l.exists_ p) = Spec.Overlay.topExists (ls.map walkOf) q := by
  induction ls with
  | nil => rfl
  | cons l rest ih =>
    rw [topIndex_cons, ih]
    simp only [List.map_cons, Spec.Overlay.topExists, exists_eq l h]
    cases Spec.Overlay.topExists (List.map walkOf rest) q <;> rfl

theorem mem_properPrefixes {c x : Comps} :
    x ∈ Spec.Overlay.properPrefixes c ↔ x ≠ [] ∧ x <+: c ∧ x.length < c.length := by
  unfold Spec.Overlay.properPrefixes
  simp only [List.mem_map, List.mem_range]
  constructor
  · rintro ⟨i, hi, rfl⟩
    refine ⟨?_, List.take_prefix _ _, ?_⟩
    · intro h
      rcases List.take_eq_nil_iff.mp h with h0 | h0
      · omega
      · subst h0; simp at hi
    · simp; omega
  · rintro ⟨hne, hp, hlt⟩
    have hpos : 0 < x.length := List.length_pos_iff.mpr hne
    refine ⟨x.length - 1, by omega, ?_⟩
    have : x.length - 1 + 1 = x.length := by omega
    rw [this]
    exact (List.prefix_iff_eq_take.mp hp).symm

theorem properPrefixes_eq (c x : Comps) : x ∈ prefixes c.dropLast ↔ x ∈ Spec.Overlay.properPrefixes c := by
  rw [mem_prefixes_dropLast, mem_properPrefixes]

/-! ### the top layer -/

theorem setTop_layers (fs : Fs) (top : Layer) : (fs.setTop top).layers = fs.layers.dropLast ++ [top] := rfl

theorem setTop_frame (fs : Fs) (top : Layer) (h : fs.layers ≠ []) :
    (fs.setTop top).layers.dropLast = fs.layers.dropLast ∧
    (fs.setTop top).layers.length = fs.layers.length ∧
    (fs.setTop top).layers.getLast? = some top ∧
    (fs.setTop top).cfg = fs.cfg ∧ (fs.setTop top).lang = fs.lang := by
  refine ⟨by simp [setTop_layers], ?_, by simp [setTop_layers], rfl, rfl⟩
  have : 0 < fs.layers.length := List.length_pos_iff.mpr h
  simp [setTop_layers]; omega

/-- Reading when the top layer has the file: no lower layer is consulted. -/
theorem readAt_top_file (E : Env) (fs : Fs) (top : Layer) (a c : Bytes) (z : Bool)
    (htop : fs.layers.getLast? = some top) (hs : top.stat a = some (.file c)) :
    fs.readAt E a z = if z then reclass .Decoding ((E.lz fs.cfg.lz).decompress c) else .ok c := by
  obtain ⟨ys, hys⟩ := List.getLast?_eq_some_iff.mp htop
  have hfe : top.fileExists a = true := by simp [Layer.fileExists, hs]
  unfold Fs.readAt
  simp only [hys, List.reverse_append, List.reverse_cons, List.reverse_nil, List.nil_append,
    List.singleton_append, List.find?_cons, hfe]
  simp [Layer.read, hs]

end Mila.LayeredFs
