/-
Lemmas for C07 about the `IndexMap` operations of the text-archive model and about the
history-defined `birth` / `lastSet` of the specification.
-/
import MilaModel.Model.TextArchive
import MilaModel.Spec.TextMap

namespace Mila.Lemmas.TextIndexMap
open Mila Mila.TextArchive
open Mila.Spec.TextMap (Op birthR lastSetR)

abbrev keysOf (m : List (Str × Str)) : List Str := m.map (·.1)

theorem imContains_iff (m : List (Str × Str)) (k : Str) : imContains m k = true ↔ k ∈ keysOf m := by
  simp only [imContains, keysOf, List.any_eq_true, List.mem_map, decide_eq_true_eq]

theorem keysOf_imSet (m : List (Str × Str)) (k v : Str) :
    keysOf (imSet m k v) = if k ∈ keysOf m then keysOf m else keysOf m ++ [k] := by
  unfold imSet
  by_cases h : imContains m k = true
  · have hk := (imContains_iff m k).mp h
    simp only [h, if_true, hk]
    simp only [keysOf, List.map_map]
    apply List.map_congr_left
    intro p _
    simp only [Function.comp]
    split <;> rfl
  · have hk : ¬ k ∈ keysOf m := fun hk => h ((imContains_iff m k).mpr hk)
    simp [h, hk, keysOf]

theorem keysOf_imRemove (m : List (Str × Str)) (k : Str) :
    keysOf (imRemove m k) = (keysOf m).filter (fun x => ¬ x = k) := by
  simp only [keysOf, imRemove, List.filter_map]
  rfl

theorem imGet_cons (p : Str × Str) (ps : List (Str × Str)) (k : Str) :
    imGet (p :: ps) k = if p.1 = k then some p.2 else imGet ps k := by
  simp only [imGet, List.find?_cons]
  by_cases h : p.1 = k <;> simp [h]

theorem imGet_isSome (m : List (Str × Str)) (k : Str) : (imGet m k).isSome = imContains m k := by
  induction m with
  | nil => rfl
  | cons p ps ih =>
    rw [imGet_cons]
    simp only [imContains, List.any_cons] at ih ⊢
    by_cases h : p.1 = k <;> simp [h, ih]

theorem imGet_replace (m : List (Str × Str)) (k v k' : Str) :
    imGet (m.map (fun p => if p.1 = k then (p.1, v) else p)) k' =
      if k' = k then (imGet m k).map (fun _ => v) else imGet m k' := by
  induction m with
  | nil => simp [imGet]
  | cons p ps ih =>
    rw [List.map_cons, imGet_cons, imGet_cons, imGet_cons, ih]
    by_cases hk : k' = k
    · subst hk
      by_cases hp : p.1 = k' <;> simp [hp]
    · by_cases hp : p.1 = k
      · have hk' : ¬ k = k' := fun e => hk e.symm
        simp [hp, hk, hk']
      · simp [hp, hk]

theorem imGet_append_single (m : List (Str × Str)) (k v k' : Str) :
    imGet (m ++ [(k, v)]) k' = match imGet m k' with
      | some x => some x
      | none => if k = k' then some v else none := by
  induction m with
  | nil => simp [imGet]
  | cons p ps ih =>
    rw [List.cons_append, imGet_cons, imGet_cons, ih]
    by_cases hp : p.1 = k' <;> simp [hp]

theorem imGet_imSet (m : List (Str × Str)) (k v k' : Str) :
    imGet (imSet m k v) k' = if k' = k then some v else imGet m k' := by
  unfold imSet
  by_cases h : imContains m k = true
  · simp only [h, if_true, imGet_replace]
    by_cases hk : k' = k
    · simp only [hk, if_true]
      have := imGet_isSome m k
      rw [h] at this
      cases hg : imGet m k with
      | none => simp [hg] at this
      | some x => rfl
    · simp [hk]
  · have hn : imGet m k = none := by
      have := imGet_isSome m k
      cases hg : imGet m k with
      | none => rfl
      | some x => rw [hg] at this; simp at this; exact absurd this h
    simp only [h, Bool.false_eq_true, if_false, imGet_append_single]
    by_cases hk : k' = k
    · subst hk; simp [hn]
    · have : ¬ k = k' := fun e => hk e.symm
      simp only [hk, this, if_false]
      cases imGet m k' <;> rfl

theorem imGet_imRemove (m : List (Str × Str)) (k k' : Str) :
    imGet (imRemove m k) k' = if k' = k then none else imGet m k' := by
  induction m with
  | nil => simp [imGet, imRemove]
  | cons p ps ih =>
    simp only [imRemove] at ih
    by_cases hp : p.1 = k
    · simp only [imRemove, List.filter_cons, hp, not_true_eq_false, decide_false, Bool.false_eq_true,
        if_false]
      rw [ih, imGet_cons]
      by_cases hk : k' = k
      · simp [hk]
      · have : ¬ p.1 = k' := fun e => hk (e.symm.trans hp)
        simp [hk, this]
    · simp only [imRemove, List.filter_cons, hp, not_false_eq_true, decide_true, if_true]
      rw [imGet_cons, imGet_cons, ih]
      by_cases hk : k' = k
      · have : ¬ p.1 = k' := fun e => hp (e.trans hk)
        simp [hk]
        intro e; exact absurd e hp
      · simp [hk]

/-- With distinct keys, a lookup determines every entry under that key. -/
theorem imSet_same (m : List (Str × Str)) (k v : Str) (hnd : (keysOf m).Nodup)
    (hg : imGet m k = some v) : imSet m k v = m := by
  have hc : imContains m k = true := by rw [← imGet_isSome, hg]; rfl
  unfold imSet
  simp only [hc, if_true]
  clear hc
  induction m with
  | nil => rfl
  | cons p ps ih =>
    simp only [keysOf, List.map_cons, List.nodup_cons] at hnd
    rw [imGet_cons] at hg
    rw [List.map_cons]
    by_cases hp : p.1 = k
    · simp only [hp, if_true, Option.some.injEq] at hg
      have hps : ps.map (fun q => if q.1 = k then (q.1, v) else q) = ps := by
        conv => rhs; rw [← List.map_id ps]
        apply List.map_congr_left
        intro q hq
        have : ¬ q.1 = k := by
          intro e
          apply hnd.1
          rw [hp, ← e]
          exact List.mem_map_of_mem hq
        simp [this]
      rw [hps]
      simp only [hp, if_true]
      rw [← hg, ← hp]
    · simp only [hp, if_false] at hg ⊢
      rw [ih hnd.2 hg]

/-! ### history functions -/

theorem birthR_lt {h : List Op} {k : Bytes} {i : Nat} (hb : birthR h k = some i) : i < h.length := by
  induction h with
  | nil => simp [birthR] at hb
  | cons op older ih =>
    cases op with
    | set k' m =>
      simp only [birthR] at hb
      split at hb
      · split at hb
        · rename_i j hj
          cases hb
          have := ih hj
          simp only [List.length_cons]; omega
        · cases hb; simp
      · have := ih hb; simp only [List.length_cons]; omega
    | del k' =>
      simp only [birthR] at hb
      split at hb
      · cases hb
      · have := ih hb; simp only [List.length_cons]; omega
    | title t => simp only [birthR] at hb; have := ih hb; simp only [List.length_cons]; omega
    | has k' => simp only [birthR] at hb; have := ih hb; simp only [List.length_cons]; omega
    | get k' => simp only [birthR] at hb; have := ih hb; simp only [List.length_cons]; omega

theorem birthR_isSome_eq_lastSetR (h : List Op) (k : Bytes) :
    (birthR h k).isSome = (lastSetR h k).isSome := by
  induction h with
  | nil => rfl
  | cons op older ih =>
    cases op with
    | set k' m =>
      simp only [birthR, lastSetR]
      by_cases hk : k' = k
      · simp only [hk, if_true]
        cases birthR older k <;> rfl
      · simp [hk, ih]
    | del k' =>
      simp only [birthR, lastSetR]
      by_cases hk : k' = k <;> simp [hk, ih]
    | title t => simpa [birthR, lastSetR] using ih
    | has k' => simpa [birthR, lastSetR] using ih
    | get k' => simpa [birthR, lastSetR] using ih

end Mila.Lemmas.TextIndexMap
