/-
The token sequence chosen by the compressor loops, abstracted from the byte emission:
`StepsTo x cap toks pos` — `toks` are the tokens the greedy loop emits for `x[0..pos)` with
look-ahead `cap` and window 4096.  Generic consequences: validity and expansion (C08, C09).
-/
import MilaModel.Model.Lz
import MilaModel.Spec.LzStream
import MilaModel.Lemmas.LzBasic
import MilaModel.Lemmas.LzSearch

namespace Mila.Lz
open Mila.Spec.Lz

/-- The call both compressors make at position `pos` (lz10.rs:35-42, lz13.rs:206-213). -/
def search (x : BA) (cap pos : Nat) : Res (Nat × Nat) :=
  occurrence x pos (min (x.size - pos) cap) (pos - min pos 0x1000) (min pos 0x1000)

inductive StepsTo (x : BA) (cap : Nat) : List Tok → Nat → Prop
  | nil : StepsTo x cap [] 0
  | lit (T : List Tok) (pos len disp : Nat) (h : pos < x.size) :
      StepsTo x cap T pos → search x cap pos = .ok (len, disp) → len < 3 →
      StepsTo x cap (T ++ [.lit x[pos]]) (pos + 1)
  | ref (T : List Tok) (pos len disp : Nat) :
      StepsTo x cap T pos → pos < x.size → search x cap pos = .ok (len, disp) → 3 ≤ len →
      StepsTo x cap (T ++ [.ref len disp]) (pos + len)

/-- What the search result means at a loop position. -/
theorem search_spec (x : BA) (cap pos : Nat) (h : pos < x.size) :
    ∃ len d, search x cap pos = .ok (len, d) ∧
      (len = 0 ∨ (2 ≤ d ∧ d ≤ min pos 0x1000 ∧ len ≤ min (x.size - pos) cap ∧
        ∀ j, j < len → x[pos - d + j]? = x[pos + j]?)) := by
  obtain ⟨len, d, h1, h2⟩ := occurrence_spec x pos (min (x.size - pos) cap) (pos - min pos 0x1000)
    (min pos 0x1000) (by omega) (by omega)
  refine ⟨len, d, h1, ?_⟩
  rcases h2 with h2 | ⟨a, b, c, e⟩
  · exact Or.inl h2
  · right
    refine ⟨a, b, c, ?_⟩
    intro j hj
    have := (e j hj).2.2
    have he : pos - min pos 0x1000 + min pos 0x1000 = pos := by omega
    rw [he] at this
    exact this

/-! ### prefix agreement -/

/-- `a` is a prefix of `x`. -/
def Agree (a x : BA) : Prop := a.size ≤ x.size ∧ ∀ i, i < a.size → a[i]? = x[i]?

theorem agree_eq {a x : BA} (h : Agree a x) (hs : a.size = x.size) : a = x := by
  apply Array.ext hs
  intro i h1 h2
  have := h.2 i h1
  simpa [h1, h2] using this

theorem agree_push {a x : BA} (h : Agree a x) (hlt : a.size < x.size) :
    Agree (a.push x[a.size]) x := by
  refine ⟨by simp; omega, ?_⟩
  intro i hi
  simp at hi
  by_cases h1 : i < a.size
  · rw [Array.getElem?_push_lt h1, ← Array.getElem?_eq_getElem h1]; exact h.2 i h1
  · have : i = a.size := by omega
    subst this
    simp [hlt]

theorem agree_copyBack {a x : BA} (d n : Nat) (h : Agree a x) (hd1 : 1 ≤ d) (hd : d ≤ a.size)
    (hn : a.size + n ≤ x.size) (hm : ∀ j, j < n → x[a.size - d + j]? = x[a.size + j]?) :
    Agree (copyBack a d n) x := by
  refine ⟨by simp; omega, ?_⟩
  intro i
  induction i using Nat.strongRecOn with
  | _ i ih =>
    intro hi
    simp at hi
    by_cases h1 : i < a.size
    · rw [Array.getElem?_eq_getElem (by simp; omega), copyBack_getElem_lt a d n i h1,
        ← Array.getElem?_eq_getElem h1]
      exact h.2 i h1
    · rw [Array.getElem?_eq_getElem (by simp; omega),
        copyBack_getElem_ge a d n i hd1 hd (by omega) (by omega),
        ← Array.getElem?_eq_getElem (by simp; omega), ih (i - d) (by omega) (by simp; omega)]
      have := hm (i - a.size) (by omega)
      have e1 : a.size - d + (i - a.size) = i - d := by omega
      have e2 : a.size + (i - a.size) = i := by omega
      rw [e1, e2] at this
      exact this

/-! ### validity and expansion of the chosen tokens -/

theorem stepsTo_sound (x : BA) (cap : Nat) (ext : Bool)
    (hcap : ∀ len, 3 ≤ len → len ≤ cap → lenOk ext len) :
    ∀ (T : List Tok) (pos : Nat), StepsTo x cap T pos →
      ValidFrom ext 0 T ∧ Agree (expand T) x ∧ (expand T).size = pos ∧ pos ≤ x.size := by
  intro T pos hs
  induction hs with
  | nil => exact ⟨trivial, ⟨by simp [expand, expandFrom], by simp [expand, expandFrom]⟩, by simp [expand, expandFrom], by omega⟩
  | lit T pos len disp h _ _ _ ih =>
    obtain ⟨v, ag, sz, _⟩ := ih
    have hts : tsize T = pos := by simpa [expand] using sz
    refine ⟨?_, ?_, ?_, by omega⟩
    · rw [validFrom_append]; exact ⟨v, by simp [ValidFrom]⟩
    · simp only [expand, expandFrom_append, expandFrom] at *
      have := agree_push ag (by omega)
      simpa [sz] using this
    · simp [expand, Tok.size]; omega
  | ref T pos len disp _ h hsr hlen ih =>
    obtain ⟨v, ag, sz, _⟩ := ih
    have hts : tsize T = pos := by simpa [expand] using sz
    obtain ⟨len', d', hs', hf⟩ := search_spec x cap pos h
    rw [hsr] at hs'
    simp at hs'
    obtain ⟨rfl, rfl⟩ := hs'
    rcases hf with hf | ⟨d2, dle, lle, hm⟩
    · omega
    · refine ⟨?_, ?_, ?_, by omega⟩
      · rw [validFrom_append]
        refine ⟨v, ?_⟩
        simp only [ValidFrom, and_true]
        exact ⟨hcap len hlen (by omega), by omega, by omega, by omega⟩
      · simp only [expand, expandFrom_append, expandFrom] at *
        apply agree_copyBack disp len ag (by omega) (by omega) (by omega)
        rw [sz]; exact hm
      · simp [expand, Tok.size]; omega

end Mila.Lz
