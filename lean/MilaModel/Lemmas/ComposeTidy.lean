/-
Composition glue, C01 → C17/C18: an invariant of archives under construction by the stream writer
(`Tidy`) that every primitive write preserves, and from which — together with the alignment of the
string cells (`Layered.Plain`, already established by the writers' layout theorems) — C01's
quantifier `ArchWF` / `InDomain` follows.  All lemmas are *success-driven* (`op = .ok a' → …`), so no
fit / bounds reasoning is repeated here.
-/
import MilaModel.Lemmas.ComposeBin

namespace Mila.Compose
open Mila Mila.BinArchive Mila.Ser Mila.Layered

/-- String cells: one per key, inside the data, strings in `D`.  No pointers, no pending c-strings.
Labels: one bucket per address, addresses `≤ size`, no empty bucket, names in `D`. -/
structure Tidy (D : Str → Prop) (a : BinArchive) : Prop where
  textKeys : (a.text.map (·.1)).Nodup
  textIn : ∀ p ∈ a.text, p.1 + 4 ≤ a.size
  textDom : ∀ p ∈ a.text, D p.2
  noptr : a.pointers = []
  nocstr : a.cstrings = []
  labelKeys : (a.labels.map (·.1)).Nodup
  labelAddrs : ∀ p ∈ a.labels, p.1 ≤ a.size
  labelNonempty : ∀ p ∈ a.labels, p.2 ≠ []
  labelDom : ∀ p ∈ a.labels, ∀ n ∈ p.2, D n

variable {D : Str → Prop}

theorem tidy_new (e : Endian) : Tidy D (BinArchive.new e) :=
  ⟨by simp [BinArchive.new], by simp [BinArchive.new], by simp [BinArchive.new], rfl, rfl,
   by simp [BinArchive.new], by simp [BinArchive.new], by simp [BinArchive.new], by simp [BinArchive.new]⟩

/-- Replacing the data by a block that is at least as long keeps the invariant. -/
theorem Tidy.withData {a : BinArchive} (h : Tidy D a) (d : Bytes) (hd : a.data.length ≤ d.length) :
    Tidy D { a with data := d } :=
  ⟨h.textKeys, fun p hp => Nat.le_trans (h.textIn p hp) hd, h.textDom, h.noptr, h.nocstr,
   h.labelKeys, fun p hp => Nat.le_trans (h.labelAddrs p hp) hd, h.labelNonempty, h.labelDom⟩

theorem Tidy.allocateAtEnd {a : BinArchive} (h : Tidy D a) (n : Nat) : Tidy D (a.allocateAtEnd n) :=
  h.withData _ (by simp)

/-! ### what a successful validation says -/

theorem le_of_validateAddress_true {x n : Nat} (h : validateAddress x n true = .ok ()) : x ≤ n := by
  unfold validateAddress at h
  by_cases hx : x > n
  · simp [hx] at h
  · omega

theorem lt_of_validateAddress_false {x n : Nat} (h : validateAddress x n false = .ok ()) : x < n := by
  unfold validateAddress at h
  by_cases hx : x ≥ n
  · simp [hx] at h
  · omega

theorem fits_of_validateCell {a : BinArchive} {x w : Nat} (h : validateCell a x w = .ok ()) :
    x + w ≤ a.size := by
  unfold validateCell at h
  split at h
  · exact le_of_validateAddress_true h
  · rename_i hr
    exact absurd h hr

/-! ### primitive writes -/

theorem Tidy.writeUInt4 {a a' : BinArchive} {p v : Nat} (h : Tidy D a)
    (hw : a.writeUInt p 4 v = .ok a') : Tidy D a' := by
  unfold BinArchive.writeUInt at hw
  split at hw
  · rename_i hv
    cases hw
    have := fits_of_validateCell hv
    apply h.withData
    rw [length_patch _ _ _ (by rw [enc4_length]; exact this)]
    exact Nat.le_refl _
  · cases hw
  · cases hw

theorem Tidy.writeBytes {a a' : BinArchive} {p : Nat} {v : Bytes} (h : Tidy D a)
    (hw : a.writeBytes p v = .ok a') : Tidy D a' := by
  unfold BinArchive.writeBytes at hw
  split at hw
  · split at hw
    · rename_i hv
      cases hw
      have := le_of_validateAddress_true hv
      apply h.withData
      rw [length_patch _ _ _ this]
      exact Nat.le_refl _
    · cases hw
    · cases hw
  · cases hw
  · cases hw

theorem Tidy.writeString {a a' : BinArchive} {p : Nat} {v : Option Str} (h : Tidy D a)
    (hv : ∀ s, v = some s → D s) (hw : a.writeString p v = .ok a') : Tidy D a' := by
  unfold BinArchive.writeString at hw
  cases v with
  | some s =>
    simp only at hw
    split at hw
    · rename_i hc
      cases hw
      have hfit := fits_of_validateCell hc
      refine ⟨nodup_keys_insert _ _ _ h.textKeys, ?_, ?_, h.noptr, h.nocstr, h.labelKeys,
        h.labelAddrs, h.labelNonempty, h.labelDom⟩
      · intro q hq
        rcases mem_insert _ _ _ _ hq with rfl | hq
        · exact hfit
        · exact h.textIn q hq
      · intro q hq
        rcases mem_insert _ _ _ _ hq with rfl | hq
        · exact hv s rfl
        · exact h.textDom q hq
    · cases hw
    · cases hw
  | none =>
    simp only [deleteString] at hw
    split at hw
    · cases hw
      have hsub : (a.text.remove p).Sublist a.text := List.filter_sublist
      exact ⟨List.Nodup.sublist (hsub.map _) h.textKeys, fun q hq => h.textIn q (hsub.subset hq),
        fun q hq => h.textDom q (hsub.subset hq), h.noptr, h.nocstr, h.labelKeys, h.labelAddrs,
        h.labelNonempty, h.labelDom⟩
    · cases hw
    · cases hw

theorem Tidy.writeLabel {a a' : BinArchive} {p : Nat} {l : Str} (h : Tidy D a) (hl : D l)
    (hw : a.writeLabel p l = .ok a') : Tidy D a' := by
  unfold BinArchive.writeLabel at hw
  split at hw
  · rename_i hv
    have hp := le_of_validateAddress_true hv
    split at hw
    · rename_i bucket hb
      cases hw
      have hmem : (p, bucket) ∈ a.labels := UMap.mem_of_get hb
      refine ⟨h.textKeys, h.textIn, h.textDom, h.noptr, h.nocstr, nodup_keys_insert _ _ _ h.labelKeys,
        ?_, ?_, ?_⟩
      · intro q hq
        rcases mem_insert _ _ _ _ hq with rfl | hq
        · exact hp
        · exact h.labelAddrs q hq
      · intro q hq
        rcases mem_insert _ _ _ _ hq with rfl | hq
        · simp
        · exact h.labelNonempty q hq
      · intro q hq n hn
        rcases mem_insert _ _ _ _ hq with rfl | hq
        · rcases List.mem_append.mp hn with hn | hn
          · exact h.labelDom _ hmem n hn
          · rw [List.mem_singleton.mp hn]; exact hl
        · exact h.labelDom q hq n hn
    · cases hw
      refine ⟨h.textKeys, h.textIn, h.textDom, h.noptr, h.nocstr, nodup_keys_insert _ _ _ h.labelKeys,
        ?_, ?_, ?_⟩
      · intro q hq
        rcases mem_insert _ _ _ _ hq with rfl | hq
        · exact hp
        · exact h.labelAddrs q hq
      · intro q hq
        rcases mem_insert _ _ _ _ hq with rfl | hq
        · simp
        · exact h.labelNonempty q hq
      · intro q hq n hn
        rcases mem_insert _ _ _ _ hq with rfl | hq
        · rw [List.mem_singleton.mp hn]; exact hl
        · exact h.labelDom q hq n hn
  · cases hw
  · cases hw

/-! ### the stream writer -/

theorem step_ok {w w' : Writer} {width : Nat} {call : BinArchive → Nat → Res BinArchive}
    (h : w.step width call = .ok w') : call w.archive w.pos = .ok w'.archive := by
  unfold Writer.step at h
  split at h
  · cases h; assumption
  · cases h
  · cases h

theorem Tidy.wWriteU32 {w w' : Writer} {v : Nat} (h : Tidy D w.archive)
    (hw : w.writeU32 v = .ok w') : Tidy D w'.archive :=
  h.writeUInt4 (step_ok hw)

theorem Tidy.wWriteString {w w' : Writer} {v : Option Str} (h : Tidy D w.archive)
    (hv : ∀ s, v = some s → D s) (hw : w.writeString v = .ok w') : Tidy D w'.archive :=
  h.writeString hv (step_ok hw)

theorem Tidy.wWriteLabel {w w' : Writer} {l : Str} (h : Tidy D w.archive) (hl : D l)
    (hw : w.writeLabel l = .ok w') : Tidy D w'.archive :=
  h.writeLabel hl (step_ok hw)

theorem Tidy.wWriteBytes {w : Writer} {v : Bytes} (h : Tidy D w.archive) :
    Tidy D (w.writeBytes v).1.archive := by
  unfold Writer.writeBytes
  split
  · exact h
  · split
    · rename_i a ha; exact h.writeBytes ha
    · exact h
    · exact h

/-! ### from the invariant to C01's quantifier -/

/-- A tidy archive whose string cells are 4-aligned is in C01's domain. -/
theorem Tidy.archWF {a : BinArchive} (h : Tidy D a) (hp : Plain a) : ArchWF a := by
  have hcells : archCells a = a.text.map (·.1) := by
    unfold archCells; rw [h.noptr, h.nocstr]; simp
  have hal : ∀ x ∈ a.text.map (·.1), x % 4 = 0 := by
    intro x hx
    obtain ⟨q, hq, rfl⟩ := List.mem_map.mp hx
    exact hp.aligned q.1 (UMap.get_ne_none_of_mem (v := q.2) hq)
  refine ⟨?_, ?_, ?_, h.labelKeys, h.labelAddrs⟩
  · intro x hx
    rw [hcells] at hx
    obtain ⟨q, hq, rfl⟩ := List.mem_map.mp hx
    exact h.textIn q hq
  · rw [hcells]
    apply List.Pairwise.imp_of_mem _ h.textKeys
    intro x y hx hy hne
    have := hal x hx
    have := hal y hy
    omega
  · intro p hp'; rw [h.noptr] at hp'; cases hp'

theorem Tidy.inDomain {a : BinArchive} (h : Tidy D a) : InDomain D a :=
  ⟨h.textDom, h.labelDom, by intro p hp; rw [h.nocstr] at hp; cases hp⟩

/-- **C01 applies to every tidy, aligned archive.** -/
theorem Tidy.binRoundTrip {a : BinArchive} (h : Tidy D a) (hp : Plain a) (c : Codec)
    (hf : c.Faithful D) (small : imageSize c a < 2 ^ 32) : BinRoundTrip c a :=
  binRoundTrip_of_C01 c D a (h.archWF hp) hf h.inDomain small h.nocstr h.labelNonempty

/-- `serialize` succeeds on every tidy, aligned archive (C01 `serialize_conforms`). -/
theorem Tidy.serialize_ok {a : BinArchive} (h : Tidy D a) (hp : Plain a) (c : Codec)
    (hf : c.Faithful D) (small : imageSize c a < 2 ^ 32) :
    ∃ bytes, BinArchive.serialize c a = .ok bytes ∧ bytes.length = imageSize c a := by
  obtain ⟨f, hs, hl, _⟩ := Ser.serialize_conforms c D a (h.archWF hp) hf h.inDomain small
  exact ⟨f, hs, hl⟩

end Mila.Compose
