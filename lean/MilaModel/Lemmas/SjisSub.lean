/-
The executable sub-codec `sjisSub` (Model/Codec.lean) is faithful on its whole alphabet:
every NUL-free string over ASCII, half-width katakana, hiragana, full-width katakana, Greek and
Cyrillic is encoded without error, NUL-free, and decoded back to itself.  This discharges the
`Codec.Faithful` hypothesis of the archive theorems for the codec the driver actually executes
(for strings of unbounded length; the per-code-point part is a kernel-checked finite table).
-/
import MilaModel.Model.Codec

namespace Mila.Sjis

/-- Code points of the sub-codec alphabet (NUL excluded), as inclusive ranges. -/
def alphabetRanges : List (Nat × Nat) :=
  (1, 0x7F) :: (0xFF61, 0xFF9F) :: table.map (fun r => (r.1, r.2.1))

def inAlphabet (cp : Nat) : Bool := alphabetRanges.any (fun r => r.1 ≤ cp && cp ≤ r.2)

/-- UTF-8 of a list of code points (1–3 byte forms). -/
def utf8Encode (cps : List Nat) : Bytes := cps.flatMap utf8Encode1

/-- The sub-codec's domain: UTF-8 encodings of code-point lists over the alphabet. -/
def SubDomain (s : Str) : Prop := ∃ cps : List Nat, (∀ cp ∈ cps, inAlphabet cp = true) ∧ s = utf8Encode cps

/-! ### head lemmas (the tail of the string is arbitrary) -/

theorem utf8Decode_one (b : UInt8) (rest : Bytes) (h : b < 0x80) :
    utf8Decode (b :: rest) = (utf8Decode rest).map (b.toNat :: ·) := by
  rw [utf8Decode.eq_def]; simp [h]

theorem utf8Decode_two (b0 b1 : UInt8) (rest : Bytes) (h0 : ¬ b0 < 0x80) (h : 0xC2 ≤ b0 ∧ b0 ≤ 0xDF)
    (h1 : 0x80 ≤ b1 ∧ b1 ≤ 0xBF) :
    utf8Decode (b0 :: b1 :: rest) =
      (utf8Decode rest).map (((b0.toNat % 32) * 64 + (b1.toNat % 64)) :: ·) := by
  rw [utf8Decode.eq_def]; simp [h0, h, h1]

theorem utf8Decode_three (b0 b1 b2 : UInt8) (rest : Bytes) (h0 : ¬ b0 < 0x80)
    (h0' : ¬ (0xC2 ≤ b0 ∧ b0 ≤ 0xDF)) (h : 0xE0 ≤ b0 ∧ b0 ≤ 0xEF)
    (h1 : 0x80 ≤ b1 ∧ b1 ≤ 0xBF ∧ 0x80 ≤ b2 ∧ b2 ≤ 0xBF) :
    utf8Decode (b0 :: b1 :: b2 :: rest) =
      (utf8Decode rest).map
        (((b0.toNat % 16) * 4096 + (b1.toNat % 64) * 64 + (b2.toNat % 64)) :: ·) := by
  rw [utf8Decode.eq_def]; simp [h0, h0', h, h1]

theorem dec_ascii (b : UInt8) (rest : Bytes) (h : b < 0x80) : dec (b :: rest) = b :: dec rest := by
  rw [dec.eq_def]; simp [h]

theorem dec_half (b : UInt8) (rest : Bytes) (h0 : ¬ b < 0x80) (h : 0xA1 ≤ b ∧ b ≤ 0xDF) :
    dec (b :: rest) = utf8Encode1 (0xFF61 + (b.toNat - 0xA1)) ++ dec rest := by
  rw [dec.eq_def]; simp [h0, h]

theorem dec_pair (l t : UInt8) (rest : Bytes) (cp : Nat) (h0 : ¬ l < 0x80)
    (h1 : ¬ (0xA1 ≤ l ∧ l ≤ 0xDF)) (hl : l = 0x82 ∨ l = 0x83 ∨ l = 0x84)
    (hp : decPair l.toNat t.toNat = some cp) :
    dec (l :: t :: rest) = utf8Encode1 cp ++ dec rest := by
  rw [dec.eq_def]; simp [h0, h1, hl, hp]

/-! ### the finite table: one kernel-checked fact per code point -/

/-- What the string-level induction needs to know about one code point, as a decidable check:
its UTF-8 form decodes back to it (whatever follows), its Shift-JIS form is NUL-free, and the
Shift-JIS form decodes to its UTF-8 form (whatever follows). -/
def utf8Ok (cp : Nat) : Bool :=
  match utf8Encode1 cp with
  | [b] => decide (b < 0x80) && b.toNat == cp
  | [b0, b1] => !decide (b0 < 0x80) && decide (0xC2 ≤ b0 ∧ b0 ≤ 0xDF) && decide (0x80 ≤ b1 ∧ b1 ≤ 0xBF)
      && ((b0.toNat % 32) * 64 + (b1.toNat % 64) == cp)
  | [b0, b1, b2] => !decide (b0 < 0x80) && !decide (0xC2 ≤ b0 ∧ b0 ≤ 0xDF) && decide (0xE0 ≤ b0 ∧ b0 ≤ 0xEF)
      && decide (0x80 ≤ b1 ∧ b1 ≤ 0xBF ∧ 0x80 ≤ b2 ∧ b2 ≤ 0xBF)
      && ((b0.toNat % 16) * 4096 + (b1.toNat % 64) * 64 + (b2.toNat % 64) == cp)
  | _ => false

def sjisOk (cp : Nat) : Bool :=
  match encCp cp with
  | some [b] =>
      b != 0 &&
      ((decide (b < 0x80) && utf8Encode1 cp == [b]) ||
       (!decide (b < 0x80) && decide (0xA1 ≤ b ∧ b ≤ 0xDF) &&
          utf8Encode1 (0xFF61 + (b.toNat - 0xA1)) == utf8Encode1 cp))
  | some [l, t] =>
      l != 0 && t != 0 && !decide (l < 0x80) && !decide (0xA1 ≤ l ∧ l ≤ 0xDF) &&
      decide (l = 0x82 ∨ l = 0x83 ∨ l = 0x84) && decPair l.toNat t.toNat == some cp
  | _ => false

/-- All code points of the alphabet, listed. -/
def alphabetList : List Nat :=
  alphabetRanges.flatMap (fun r => (List.range (r.2 + 1 - r.1)).map (· + r.1))

theorem table_ok : alphabetList.all (fun cp => utf8Ok cp && sjisOk cp) = true := by decide +kernel

theorem mem_alphabetList {cp : Nat} (h : inAlphabet cp = true) : cp ∈ alphabetList := by
  simp only [inAlphabet, List.any_eq_true, Bool.and_eq_true, decide_eq_true_eq] at h
  obtain ⟨r, hr, h1, h2⟩ := h
  simp only [alphabetList, List.mem_flatMap, List.mem_map, List.mem_range]
  exact ⟨r, hr, cp - r.1, by omega, by omega⟩

theorem cp_ok {cp : Nat} (h : inAlphabet cp = true) : utf8Ok cp = true ∧ sjisOk cp = true := by
  have := List.all_eq_true.mp table_ok cp (mem_alphabetList h)
  simpa using this

/-! ### per-code-point consequences with an arbitrary tail -/

theorem utf8Decode_encode1 {cp : Nat} (h : utf8Ok cp = true) (rest : Bytes) :
    utf8Decode (utf8Encode1 cp ++ rest) = (utf8Decode rest).map (cp :: ·) := by
  unfold utf8Ok at h
  split at h
  · next b hb =>
    simp only [Bool.and_eq_true, decide_eq_true_eq, beq_iff_eq] at h
    rw [hb, List.singleton_append, utf8Decode_one _ _ h.1, h.2]
  · next b0 b1 hb =>
    simp only [Bool.and_eq_true, Bool.not_eq_true', decide_eq_false_iff_not, decide_eq_true_eq,
      beq_iff_eq] at h
    obtain ⟨⟨⟨h0, h1⟩, h2⟩, h3⟩ := h
    rw [hb, List.cons_append, List.cons_append, List.nil_append, utf8Decode_two _ _ _ h0 h1 h2, h3]
  · next b0 b1 b2 hb =>
    simp only [Bool.and_eq_true, Bool.not_eq_true', decide_eq_false_iff_not, decide_eq_true_eq,
      beq_iff_eq] at h
    obtain ⟨⟨⟨⟨h0, h0'⟩, h1⟩, h2⟩, h3⟩ := h
    rw [hb, List.cons_append, List.cons_append, List.cons_append, List.nil_append,
      utf8Decode_three _ _ _ _ h0 h0' h1 h2, h3]
  · exact absurd h (by simp)

theorem encCp_dec {cp : Nat} (h : sjisOk cp = true) :
    ∃ b, encCp cp = some b ∧ (0 : UInt8) ∉ b ∧ ∀ rest, dec (b ++ rest) = utf8Encode1 cp ++ dec rest := by
  unfold sjisOk at h
  split at h
  · next b hb =>
    refine ⟨[b], hb, ?_, ?_⟩
    · simp only [Bool.and_eq_true, bne_iff_ne, ne_eq] at h
      simpa [eq_comm] using h.1
    · intro rest
      simp only [Bool.and_eq_true, Bool.or_eq_true, Bool.not_eq_true', decide_eq_false_iff_not,
        decide_eq_true_eq, beq_iff_eq] at h
      rcases h.2 with ⟨hlt, he⟩ | ⟨⟨hlt, hr⟩, he⟩
      · rw [List.singleton_append, dec_ascii _ _ hlt, he, List.singleton_append]
      · rw [List.singleton_append, dec_half _ _ hlt hr, he]
  · next l t hb =>
    simp only [Bool.and_eq_true, bne_iff_ne, ne_eq, Bool.not_eq_true', decide_eq_false_iff_not,
      decide_eq_true_eq, beq_iff_eq] at h
    obtain ⟨⟨⟨⟨⟨hl0, ht0⟩, h0⟩, h1⟩, hl⟩, hp⟩ := h
    refine ⟨[l, t], hb, ?_, ?_⟩
    · simp only [List.mem_cons, List.not_mem_nil, or_false, not_or]
      exact ⟨fun e => hl0 e.symm, fun e => ht0 e.symm⟩
    · intro rest
      rw [List.cons_append, List.cons_append, List.nil_append, dec_pair _ _ _ _ h0 h1 hl hp]
  · exact absurd h (by simp)

/-! ### strings of any length -/

theorem utf8Decode_utf8Encode (cps : List Nat) (h : ∀ cp ∈ cps, inAlphabet cp = true) :
    utf8Decode (utf8Encode cps) = some cps := by
  induction cps with
  | nil => simp [utf8Encode, utf8Decode]
  | cons cp rest ih =>
    have hcp := (cp_ok (h cp (by simp))).1
    have ih := ih (fun c hc => h c (by simp [hc]))
    simp only [utf8Encode, List.flatMap_cons] at ih ⊢
    rw [utf8Decode_encode1 hcp, ih]; rfl

theorem encCps_dec (cps : List Nat) (h : ∀ cp ∈ cps, inAlphabet cp = true) :
    ∃ b, encCps cps = some b ∧ (0 : UInt8) ∉ b ∧ dec b = utf8Encode cps := by
  induction cps with
  | nil => exact ⟨[], rfl, by simp, by simp [dec, utf8Encode]⟩
  | cons cp rest ih =>
    obtain ⟨a, ha, ha0, hdec⟩ := encCp_dec (cp_ok (h cp (by simp))).2
    obtain ⟨b, hb, hb0, hb'⟩ := ih (fun c hc => h c (by simp [hc]))
    refine ⟨a ++ b, ?_, ?_, ?_⟩
    · simp [encCps, ha, hb]
    · simp only [List.mem_append, not_or]; exact ⟨ha0, hb0⟩
    · rw [hdec, hb']; simp [utf8Encode]

end Mila.Sjis

namespace Mila

/-- **The executable sub-codec is faithful on its whole alphabet**, for strings of any length. -/
theorem sjisSub_faithful : sjisSub.Faithful Sjis.SubDomain := by
  rintro s ⟨cps, hcps, rfl⟩
  obtain ⟨b, hb, hb0, hdec⟩ := Sjis.encCps_dec cps hcps
  refine ⟨b, ?_, hb0, hdec⟩
  simp [sjisSub, Sjis.enc, Sjis.utf8Decode_utf8Encode cps hcps, hb]

end Mila
