/-
C18: `AssetSpec::append` / `AssetBinary::serialize` build an archive that shows the declarative
layout (`Asset.Layout`); the record size announced by `compute_flags` is exactly the cells written.
-/
import MilaModel.Lemmas.AssetRead
import MilaModel.Lemmas.AsetWriter

namespace Mila.Asset
open Mila BinArchive Layered

/-! ### counting cells -/

theorem fieldCell_length (s : AssetSpec) (i : Nat) (h1 : 1 ≤ i) (h2 : i ≤ 51) :
    (fieldCell s i).length = if present s i then 1 else 0 := by
  by_cases h33 : i ≤ 33
  · rw [present_str s i h1 h33]
    cases hv : strField s i with
    | none => rw [fieldCell_str_none s i h33 hv]; rfl
    | some v => rw [fieldCell_str_some s i h33 v hv]; rfl
  · rw [present_val s i (by omega) h2]
    cases hu : (valField s i).1 with
    | false => rw [fieldCell_val_false s i (by omega) hu]; rfl
    | true =>
      cases hk : kindOf i with
      | str => exact absurd hk (kindOf_ne_str i (by omega))
      | color => rw [fieldCell_color s i hk hu]; rfl
      | f32 => rw [fieldCell_word s i (Or.inl hk) hu]; rfl
      | u32 => rw [fieldCell_word s i (Or.inr hk) hu]; rfl

theorem fieldsCells_length (s : AssetSpec) :
    ∀ (is : List Nat), (∀ i ∈ is, 1 ≤ i ∧ i ≤ 51) →
      (fieldsCells s is).length = is.countP (present s) := by
  intro is
  induction is with
  | nil => intro _; rfl
  | cons i is ih =>
    intro h
    have hcons : fieldsCells s (i :: is) = fieldCell s i ++ fieldsCells s is := by simp [fieldsCells]
    obtain ⟨h1, h2⟩ := h i (by simp)
    rw [hcons, List.length_append, ih (fun j hj => h j (by simp [hj])), fieldCell_length s i h1 h2,
      List.countP_cons]
    omega

theorem flagCells_length (s : AssetSpec) : 4 * (flagCells s).length = (finalFlags s).length := by
  rw [finalFlags_length]; unfold flagCells; by_cases hl : isLong s <;> simp [hl]

/-- The size `compute_flags` announces is exactly the record's cells. -/
theorem recordCells_size (s : AssetSpec) : (computeFlags s).2 = 4 * (recordCells s).length := by
  rw [computeFlags_eq]
  simp only
  rw [countedBits_eq]
  unfold recordCells
  have hf := flagCells_length s
  have h1 := fieldsCells_length s (List.range' 1 31) (fun i hi => by have := List.mem_range'_1.1 hi; omega)
  have h2 := fieldsCells_length s (List.range' 32 20) (fun i hi => by have := List.mem_range'_1.1 hi; omega)
  by_cases hl : isLong s
  · simp only [hl, if_true, List.length_append, List.length_cons, List.length_nil, h1, h2]; omega
  · simp only [hl, if_false, List.length_append, List.length_cons, List.length_nil, h1]; omega

/-! ### emission -/

theorem writeBytesR_patch (a : BinArchive) (pos : Nat) (v : Bytes) (h : pos + v.length ≤ a.size) :
    writeBytesR ⟨a, pos⟩ v = .ok ⟨{ a with data := patch a.data pos v }, pos + v.length⟩ := by
  unfold writeBytesR
  rw [writeBytes_patch a v pos h]

theorem writeField_layout (s : AssetSpec) (hwf : SpecWF s) (i : Nat) (h1 : 1 ≤ i) (h2 : i ≤ 51)
    (a : BinArchive) (pos : Nat) (cs : List Cell) (h : WInv a pos cs)
    (hfit : pos + 4 * (fieldCell s i).length ≤ a.size) :
    ∃ a' pos', writeField s ⟨a, pos⟩ i = .ok ⟨a', pos'⟩ ∧ WInv a' pos' (cs ++ fieldCell s i)
      ∧ a'.size = a.size := by
  unfold writeField
  by_cases h33 : i ≤ 33
  · rw [kindOf_str i h33]
    simp only
    unfold writeFlagStr
    cases hv : strField s i with
    | none =>
      rw [fieldCell_str_none s i h33 hv]
      exact ⟨a, pos, rfl, by simpa using h, rfl⟩
    | some v =>
      rw [fieldCell_str_some s i h33 v hv] at hfit ⊢
      obtain ⟨a', hw, hi, hs, _⟩ := h.writeString_some (by simpa using hfit) v
      exact ⟨a', pos + 4, hw, hi, hs⟩
  · cases hu : (valField s i).1 with
    | false =>
      rw [fieldCell_val_false s i (by omega) hu]
      refine ⟨a, pos, ?_, by simpa using h, rfl⟩
      cases hk : kindOf i with
      | str => exact absurd hk (kindOf_ne_str i (by omega))
      | color => simp
      | f32 => simp
      | u32 => simp
    | true =>
      cases hk : kindOf i with
      | str => exact absurd hk (kindOf_ne_str i (by omega))
      | color =>
        rw [fieldCell_color s i hk hu] at hfit ⊢
        simp only [if_true]
        have hlen : (swap02 (valField s i).2).length = 4 := by
          rw [swap02_length]; exact valField_length s hwf i
        unfold writeColor
        rw [writeBytesR_patch a pos _ (by rw [hlen]; simpa using hfit), hlen]
        refine ⟨_, pos + 4, rfl, h.patch4 (by simpa using hfit) _ hlen, ?_⟩
        unfold size at hfit ⊢; exact length_patch _ _ _ (by rw [hlen]; simpa using hfit)
      | f32 =>
        rw [fieldCell_word s i (Or.inl hk) hu] at hfit ⊢
        simp only [if_true]
        obtain ⟨a', hw, hi, hs, _⟩ := h.writeU32 (by simpa using hfit) (ofLe (valField s i).2)
        exact ⟨a', pos + 4, hw, hi, hs⟩
      | u32 =>
        rw [fieldCell_word s i (Or.inr hk) hu] at hfit ⊢
        simp only [if_true]
        obtain ⟨a', hw, hi, hs, _⟩ := h.writeU32 (by simpa using hfit) (ofLe (valField s i).2)
        exact ⟨a', pos + 4, hw, hi, hs⟩

theorem writeFields_layout (s : AssetSpec) (hwf : SpecWF s) :
    ∀ (is : List Nat), (∀ i ∈ is, 1 ≤ i ∧ i ≤ 51) →
      ∀ (a : BinArchive) (pos : Nat) (cs : List Cell), WInv a pos cs →
      pos + 4 * (fieldsCells s is).length ≤ a.size →
      ∃ a' pos', writeFields s is ⟨a, pos⟩ = .ok ⟨a', pos'⟩ ∧ WInv a' pos' (cs ++ fieldsCells s is)
        ∧ a'.size = a.size := by
  intro is
  induction is with
  | nil => intro _ a pos cs h _; exact ⟨a, pos, rfl, by simpa [fieldsCells] using h, rfl⟩
  | cons i is ih =>
    intro hr a pos cs h hfit
    have hcons : fieldsCells s (i :: is) = fieldCell s i ++ fieldsCells s is := by simp [fieldsCells]
    rw [hcons] at hfit ⊢
    simp only [List.length_append] at hfit
    obtain ⟨h1, h2⟩ := hr i (by simp)
    obtain ⟨a1, pos1, hw1, hi1, hs1⟩ := writeField_layout s hwf i h1 h2 a pos cs h (by omega)
    have hp1 := hi1.pos_eq
    have hp0 := h.pos_eq
    simp only [List.length_append] at hp1
    obtain ⟨a', pos', hw', hi', hs'⟩ := ih (fun j hj => hr j (by simp [hj])) a1 pos1 _ hi1
      (by rw [hs1]; omega)
    unfold writeFields
    rw [hw1]
    simp only
    exact ⟨a', pos', hw', by simpa using hi', by rw [hs', hs1]⟩

theorem size_patch (a : BinArchive) (q : Nat) (v : Bytes) (h : q + v.length ≤ a.size) :
    ({ a with data := patch a.data q v } : BinArchive).size = a.size :=
  length_patch _ _ _ h

theorem length_bytesOf (fl : List Nat) : (bytesOf fl).length = fl.length := by simp [bytesOf]

/-- **One record**: `append` adds the record's cells at the end of the archive. -/
theorem append_layout (s : AssetSpec) (hwf : SpecWF s) (a : BinArchive) (cs : List Cell)
    (h : WInv a a.size cs) :
    ∃ a', append s a = .ok a' ∧ WInv a' a'.size (cs ++ recordCells s)
      ∧ a'.size = a.size + 4 * (recordCells s).length := by
  have hsize := recordCells_size s
  have hfl := computeFlags_eq s
  have hflen := finalFlags_length s
  have hfc := flagCells_length s
  unfold append
  simp only
  rw [show (computeFlags s).1 = finalFlags s from by rw [hfl], hsize]
  have hrc : (recordCells s).length = (flagCells s).length + 1 + (fieldsCells s (List.range' 1 31)).length
      + (if isLong s then (fieldsCells s (List.range' 32 20)).length else 0) := by
    unfold recordCells; by_cases hl : isLong s <;> simp [hl] <;> omega
  generalize hn : 4 * (recordCells s).length = n at *
  have h0 : WInv (a.allocateAtEnd n) a.size cs := h.allocateAtEnd n
  have hs0 : (a.allocateAtEnd n).size = a.size + n := size_allocateAtEnd a n
  have hblen : (bytesOf (finalFlags s)).length = (finalFlags s).length := length_bytesOf _
  have hfitF : a.size + (bytesOf (finalFlags s)).length ≤ (a.allocateAtEnd n).size := by
    rw [hs0, hblen]; omega
  rw [show List.map UInt8.ofNat (finalFlags s) = bytesOf (finalFlags s) from rfl]
  generalize a.allocateAtEnd n = a1 at h0 hs0 hfitF ⊢
  rw [writeBytesR_patch _ _ _ hfitF]
  simp only
  -- the flag cells
  have hflag : WInv { a1 with data := patch a1.data a.size (bytesOf (finalFlags s)) }
      (a.size + (bytesOf (finalFlags s)).length) (cs ++ flagCells s) := by
    unfold flagCells
    by_cases hl : isLong s
    · simp only [hl, if_true] at hflen ⊢
      have e : bytesOf (finalFlags s) = bytesOf ((finalFlags s).take 4) ++ bytesOf ((finalFlags s).drop 4) := by
        simp only [bytesOf, ← List.map_append, List.take_append_drop]
      have l1 : (bytesOf ((finalFlags s).take 4)).length = 4 := by rw [length_bytesOf]; simp; omega
      have l2 : (bytesOf ((finalFlags s).drop 4)).length = 4 := by rw [length_bytesOf]; simp; omega
      have hA := h0.patch4 (by rw [hs0]; omega) _ l1
      have hsA : ({ a1 with data := patch a1.data a.size (bytesOf ((finalFlags s).take 4)) } : BinArchive).size
          = a1.size := size_patch _ _ _ (by rw [l1, hs0]; omega)
      have hB := hA.patch4 (by rw [hsA, hs0]; omega) _ l2
      have hd : a.size + (4 + 4) ≤ a1.data.length := by have := hs0; unfold size at this ⊢; omega
      rw [hblen, hflen, e, patch_append _ _ _ _ (by rw [l1, l2]; exact hd), l1]
      simpa using hB
    · simp only [hl, if_false] at hflen ⊢
      have l1 : (bytesOf (finalFlags s)).length = 4 := by rw [hblen, hflen]
      rw [l1]
      exact h0.patch4 (by rw [hs0]; omega) _ l1
  have hsF : ({ a1 with data := patch a1.data a.size (bytesOf (finalFlags s)) } : BinArchive).size
      = a.size + n := by
    rw [size_patch _ _ _ hfitF, hs0]
  have hposF := hflag.pos_eq
  have hpos0 := h.pos_eq
  simp only [List.length_append] at hposF
  obtain ⟨a2, hw2, hi2, hs2, _⟩ := hflag.writeString (by rw [hsF]; omega) s.name
  rw [hw2]
  simp only
  obtain ⟨a3, pos3, hw3, hi3, hs3⟩ := writeFields_layout s hwf (List.range' 1 31)
    (fun i hi => by have := List.mem_range'_1.1 hi; omega) a2 _ _ hi2 (by rw [hs2, hsF]; omega)
  rw [hw3]
  simp only
  have hp3 := hi3.pos_eq
  simp only [List.length_append, List.length_cons, List.length_nil] at hp3
  by_cases hl : isLong s
  · have hgt : (finalFlags s).length > 4 := by rw [hflen]; simp [hl]
    rw [if_pos hgt]
    simp only [hl, if_true] at hrc
    obtain ⟨a4, pos4, hw4, hi4, hs4⟩ := writeFields_layout s hwf (List.range' 32 20)
      (fun i hi => by have := List.mem_range'_1.1 hi; omega) a3 pos3 _ hi3 (by rw [hs3, hs2, hsF]; omega)
    rw [hw4]
    simp only
    have hp4 := hi4.pos_eq
    simp only [List.length_append, List.length_cons, List.length_nil] at hp4
    have hsz : a4.size = a.size + n := by rw [hs4, hs3, hs2, hsF]
    refine ⟨a4, rfl, ?_, hsz⟩
    have hpe : pos4 = a4.size := by rw [hsz]; omega
    rw [← hpe]
    simpa [recordCells, hl] using hi4
  · have hngt : ¬ (finalFlags s).length > 4 := by rw [hflen]; simp [hl]
    rw [if_neg hngt]
    simp only [hl, if_false] at hrc
    have hsz : a3.size = a.size + n := by rw [hs3, hs2, hsF]
    refine ⟨a3, rfl, ?_, hsz⟩
    have hpe : pos3 = a3.size := by rw [hsz]; omega
    rw [← hpe]
    simpa [recordCells, hl] using hi3

theorem appendAll_layout :
    ∀ (specs : List AssetSpec), (∀ s ∈ specs, SpecWF s) →
      ∀ (a : BinArchive) (cs : List Cell), WInv a a.size cs →
      ∃ a', appendAll specs a = .ok a' ∧ WInv a' a'.size (cs ++ specsCells specs)
        ∧ a'.size = a.size + 4 * (specsCells specs).length := by
  intro specs
  induction specs with
  | nil => intro _ a cs h; exact ⟨a, rfl, by simpa [specsCells] using h, by simp [specsCells]⟩
  | cons s rest ih =>
    intro hwf a cs h
    obtain ⟨a1, hw1, hi1, hs1⟩ := append_layout s (hwf s (by simp)) a cs h
    obtain ⟨a', hw', hi', hs'⟩ := ih (fun t ht => hwf t (by simp [ht])) a1 _ hi1
    unfold appendAll
    rw [hw1]
    simp only
    refine ⟨a', hw', by simpa [specsCells] using hi', ?_⟩
    rw [hs', hs1]; simp only [specsCells, List.flatMap_cons, List.length_append]; omega

/-- **Writer correctness**: `serialize` builds an archive with the layout of `v`. -/
theorem build_layout (v : AssetBinary) (hwf : ∀ s ∈ v.specs, SpecWF s)
    (hsmall : 4 * (fileCells v).length < 2 ^ 64) :
    ∃ a, build v = .ok a ∧ Layout v a ∧ Plain a := by
  have h0 : WInv ((BinArchive.new .little).allocateAtEnd 4) 0 [] :=
    ⟨rfl, Nat.zero_le _, rfl, trivial, fun _ _ => rfl, fun x hx => absurd rfl hx, rfl⟩
  have hs0 : ((BinArchive.new .little).allocateAtEnd 4).size = 4 := by
    rw [size_allocateAtEnd]; rfl
  obtain ⟨a1, hw1, hi1, hs1, _⟩ := h0.writeU32 (by rw [hs0]; omega) v.flags
  have hw1' : ((BinArchive.new .little).allocateAtEnd 4).writeUInt 0 4 v.flags = .ok a1 := by
    unfold Writer.writeU32 Writer.step at hw1
    simp only at hw1
    cases hh : ((BinArchive.new .little).allocateAtEnd 4).writeUInt 0 4 v.flags with
    | ok x => rw [hh] at hw1; simp at hw1; rw [hw1]
    | err e => rw [hh] at hw1; simp at hw1
    | panic => rw [hh] at hw1; simp at hw1
  have hi1' : WInv a1 a1.size ([] ++ [Cell.raw (leBytes 4 v.flags)]) := by
    rw [hs1, hs0]; exact hi1
  obtain ⟨a2, hw2, hi2, hs2⟩ := appendAll_layout v.specs hwf a1 _ hi1'
  have hi3 := hi2.allocateAtEnd 4
  have hs3 : (a2.allocateAtEnd 4).size = a2.size + 4 := size_allocateAtEnd a2 4
  have hsz : (a2.allocateAtEnd 4).size = 4 * (fileCells v).length := by
    have := hi2.pos_eq
    rw [hs3, this]
    simp only [fileCells, List.length_append, List.length_cons, List.length_nil]
    omega
  refine ⟨a2.allocateAtEnd 4, ?_, ⟨hi3.little, hsz, by rw [hsz]; exact hsmall, ?_⟩, hi3.plain⟩
  · simp only [build, hw1', hw2]
  · have hc : fileCells v = ([] ++ [Cell.raw (leBytes 4 v.flags)] ++ specsCells v.specs) ++ [Cell.raw zero4] := by
      simp [fileCells]
    rw [hc, cellsAt_append]
    refine ⟨hi3.cells, ?_⟩
    rw [← hi2.pos_eq, Nat.zero_add]
    refine ⟨⟨by rw [hs3]; omega, ?_, hi3.fresh _ (Nat.le_refl _)⟩, trivial⟩
    show slice (a2.data ++ List.replicate 4 0) a2.size 4 = zero4
    exact slice_append_right a2.data (List.replicate 4 0)

end Mila.Asset
