/-
Soundness of the specification's executable parser (the oracle of the `lz` stream) with respect
to the declarative grammar: whatever `parse` accepts is a conforming stream of the tokens it
returns.
-/
import MilaModel.Spec.LzStream
import MilaModel.Lemmas.LzBasic

namespace Mila.Spec.Lz

private theorem ofNat_toNat_eq (b : UInt8) (m : Nat) (h : m = b.toNat) : UInt8.ofNat m = b := by
  subst h; exact UInt8.ofNat_toNat

theorem parseTok_sound (ext isRef : Bool) (have_ : Nat) (s s' : Bytes) (t : Tok)
    (h : parseTok ext isRef have_ s = .ok (t, s')) :
    t.isRef = isRef ∧ s = tokBytes ext t ++ s' ∧ ValidFrom ext have_ [t] := by
  unfold parseTok at h
  cases isRef with
  | false =>
    simp only [Bool.not_false, ↓reduceIte] at h
    cases s with
    | nil => simp at h
    | cons b s =>
      simp at h
      obtain ⟨rfl, rfl⟩ := h
      simp [Tok.isRef, tokBytes, ValidFrom]
  | true =>
    simp only [Bool.not_true, Bool.false_eq_true, ↓reduceIte] at h
    match s, h with
    | [], h => simp at h
    | [_], h => simp at h
    | b0 :: b1 :: s, h =>
      have hb0 := b0.toNat_lt
      have hb1 := b1.toNat_lt
      simp only at h
      cases ext with
      | false =>
        simp only [Bool.not_false, ↓reduceIte] at h
        split at h
        · rename_i hd
          simp at h
          obtain ⟨rfl, rfl⟩ := h
          refine ⟨rfl, ?_, ?_⟩
          · simp only [tokBytes, Bool.not_false, ↓reduceIte, List.cons_append, List.nil_append,
              List.cons.injEq, and_true]
            exact ⟨(ofNat_toNat_eq b0 _ (by omega)).symm, (ofNat_toNat_eq b1 _ (by omega)).symm⟩
          · simp only [ValidFrom, lenOk, and_true]
            simp
            omega
        · simp at h
      | true =>
        simp only [Bool.not_true, Bool.false_eq_true, ↓reduceIte] at h
        split at h
        · rename_i h2
          split at h
          · rename_i hd
            simp at h
            obtain ⟨rfl, rfl⟩ := h
            have h16 : b0.toNat / 16 + 1 ≤ 16 := by omega
            refine ⟨rfl, ?_, ?_⟩
            · simp only [tokBytes, Bool.not_true, Bool.false_eq_true, ↓reduceIte, h16, List.cons_append,
                List.nil_append, List.cons.injEq, and_true]
              exact ⟨(ofNat_toNat_eq b0 _ (by omega)).symm, (ofNat_toNat_eq b1 _ (by omega)).symm⟩
            · simp only [ValidFrom, lenOk, and_true]
              simp
              omega
          · simp at h
        · rename_i h2
          split at h
          · rename_i h0
            match s, h with
            | [], h => simp at h
            | b2 :: s, h =>
              have hb2 := b2.toNat_lt
              simp only at h
              split at h
              · rename_i hd
                simp at h
                obtain ⟨rfl, rfl⟩ := h
                have h16 : ¬ (b0.toNat % 16 * 16 + b1.toNat / 16 + 17 ≤ 16) := by omega
                have h272 : b0.toNat % 16 * 16 + b1.toNat / 16 + 17 ≤ 272 := by omega
                refine ⟨rfl, ?_, ?_⟩
                · simp only [tokBytes, Bool.not_true, Bool.false_eq_true, ↓reduceIte, h16, h272,
                    List.cons_append, List.nil_append, List.cons.injEq, and_true]
                  exact ⟨(ofNat_toNat_eq b0 _ (by omega)).symm, (ofNat_toNat_eq b1 _ (by omega)).symm,
                    (ofNat_toNat_eq b2 _ (by omega)).symm⟩
                · simp only [ValidFrom, lenOk, and_true]
                  simp
                  omega
              · simp at h
          · rename_i h0
            match s, h with
            | [], h => simp at h
            | [_], h => simp at h
            | b2 :: b3 :: s, h =>
              have hb2 := b2.toNat_lt
              have hb3 := b3.toNat_lt
              simp only at h
              split at h
              · rename_i hd
                simp at h
                obtain ⟨rfl, rfl⟩ := h
                have h16 : ¬ (b0.toNat % 16 * 4096 + b1.toNat * 16 + b2.toNat / 16 + 273 ≤ 16) := by omega
                have h272 : ¬ (b0.toNat % 16 * 4096 + b1.toNat * 16 + b2.toNat / 16 + 273 ≤ 272) := by omega
                refine ⟨rfl, ?_, ?_⟩
                · simp only [tokBytes, Bool.not_true, Bool.false_eq_true, ↓reduceIte, h16, h272,
                    List.cons_append, List.nil_append, List.cons.injEq, and_true]
                  exact ⟨(ofNat_toNat_eq b0 _ (by omega)).symm, (ofNat_toNat_eq b1 _ (by omega)).symm,
                    (ofNat_toNat_eq b2 _ (by omega)).symm, (ofNat_toNat_eq b3 _ (by omega)).symm⟩
                · simp only [ValidFrom, lenOk, and_true]
                  simp
                  omega
              · simp at h

theorem tok_size_pos {ext : Bool} {h : Nat} {t : Tok} (hv : ValidFrom ext h [t]) : 1 ≤ t.size :=
  tsize_pos_of_valid hv

theorem parseGroup_sound (ext : Bool) (n f : Nat) :
    ∀ (k have_ : Nat) (s : Bytes) (acc : List Tok) (have' : Nat) (s' : Bytes) (acc' : List Tok),
      parseGroup ext n f k have_ s acc = .ok (have', s', acc') →
      ∃ g : List Tok, acc' = g.reverse ++ acc ∧ s = g.flatMap (tokBytes ext) ++ s' ∧
        have' = have_ + tsize g ∧ ValidFrom ext have_ g ∧ g.length ≤ k ∧
        (∀ i (hi : i < g.length), f.testBit (k - 1 - i) = (g[i]).isRef) ∧
        (g.length < k → n ≤ have') ∧ (have_ < n → 0 < k → g ≠ []) := by
  intro k
  induction k with
  | zero =>
    intro have_ s acc have' s' acc' h
    simp [parseGroup] at h
    obtain ⟨rfl, rfl, rfl⟩ := h
    exact ⟨[], by simp, by simp, by simp, trivial, by simp, fun i hi => by simp at hi, fun h => by simp at h,
      fun _ h => by omega⟩
  | succ k ih =>
    intro have_ s acc have' s' acc' h
    rw [parseGroup] at h
    split at h
    · rename_i hge
      simp at h
      obtain ⟨rfl, rfl, rfl⟩ := h
      exact ⟨[], by simp, by simp, by simp, trivial, by simp, fun i hi => by simp at hi, fun _ => hge,
        fun h _ => by omega⟩
    · split at h
      · simp at h
      · rename_i t s1 ht
        obtain ⟨hr, hs, hv⟩ := parseTok_sound ext _ have_ s s1 t ht
        obtain ⟨g, h1, h2, h3, h4, h5, h6, h7, _⟩ := ih _ _ _ _ _ _ h
        refine ⟨t :: g, by simp [h1], by rw [hs, h2]; simp, by simp [h3]; omega, ?_, by simp; omega, ?_,
          ?_, fun _ _ => by simp⟩
        · have : ValidFrom ext have_ ([t] ++ g) := by
            rw [validFrom_append]; exact ⟨hv, by simpa [tsize] using h4⟩
          simpa using this
        · intro i hi
          cases i with
          | zero => simp; exact hr.symm
          | succ i =>
            simp at hi
            have := h6 i (by omega)
            simp
            rw [← this]; congr 1; omega
        · intro hlt
          simp at hlt
          exact h7 (by omega)

theorem parseGroups_sound (ext : Bool) (n : Nat) :
    ∀ (fuel have_ : Nat) (s : Bytes) (acc toks : List Tok),
      parseGroups ext n fuel have_ s acc = .ok toks →
      ∃ rest, toks = acc.reverse ++ rest ∧ Groups ext rest s ∧ ValidFrom ext have_ rest ∧
        have_ + tsize rest = n := by
  intro fuel
  induction fuel with
  | zero => intro have_ s acc toks h; simp [parseGroups] at h
  | succ fuel ih =>
    intro have_ s acc toks h
    simp only [parseGroups] at h
    split at h
    · simp at h
    · split at h
      · rename_i heq
        split at h
        · rename_i hs
          simp at h
          have : s = [] := by simpa using hs
          subst this
          exact ⟨[], by simp [h], Groups.nil, trivial, by simpa using heq⟩
        · simp at h
      · rename_i hgt hne
        match s, h with
        | [], h => simp at h
        | f :: s1, h =>
          simp only at h
          split at h
          · simp at h
          · rename_i have' s' acc' hg
            obtain ⟨g, g1, g2, g3, g4, g5, g6, g7, g8⟩ := parseGroup_sound ext n f.toNat 8 have_ s1 acc _ _ _ hg
            obtain ⟨rest', r1, r2, r3, r4⟩ := ih _ _ _ _ h
            have hgne : g ≠ [] := g8 (by omega) (by omega)
            refine ⟨g ++ rest', by rw [r1, g1]; simp, ?_, ?_, by rw [g3] at r4; simp; omega⟩
            · rw [g2]
              apply Groups.group f g rest' s' hgne g5 ?_ (fun i hi => g6 i hi) r2
              intro hr
              by_cases h8 : g.length = 8
              · exact h8
              · exfalso
                have hge := g7 (by omega)
                -- the recursive call saw have' ≥ n: it can only have returned with no more tokens
                cases rest' with
                | nil => exact hr rfl
                | cons t ts =>
                  have hp := tsize_pos_of_valid r3
                  simp at r4
                  omega
            · rw [validFrom_append]; exact ⟨g4, by rw [← g3]; exact r3⟩

private theorem ofLe3 (l0 l1 l2 : UInt8) : leBytes 3 (ofLe [l0, l1, l2]) = [l0, l1, l2] := by
  have h0 := l0.toNat_lt; have h1 := l1.toNat_lt; have h2 := l2.toNat_lt
  simp only [leBytes, ofLe, List.cons.injEq, and_true]
  exact ⟨ofNat_toNat_eq l0 _ (by omega), ofNat_toNat_eq l1 _ (by omega), ofNat_toNat_eq l2 _ (by omega)⟩

private theorem ofLe4 (a b c d : UInt8) : leBytes 4 (ofLe [a, b, c, d]) = [a, b, c, d] := by
  have h0 := a.toNat_lt; have h1 := b.toNat_lt; have h2 := c.toNat_lt; have h3 := d.toNat_lt
  simp only [leBytes, ofLe, List.cons.injEq, and_true]
  exact ⟨ofNat_toNat_eq a _ (by omega), ofNat_toNat_eq b _ (by omega), ofNat_toNat_eq c _ (by omega),
    ofNat_toNat_eq d _ (by omega)⟩

/-- Whatever the oracle's parser accepts is a conforming stream of the tokens it returns. -/
theorem parse_sound (s : Bytes) (ext : Bool) (n : Nat) (toks : List Tok)
    (h : parse s = .ok (ext, n, toks)) : Conforms ext toks s ∧ (expand toks).size = n := by
  have fin : ∀ (ext : Bool) (n : Nat) (body : Bytes) (fuel : Nat) (hdr : Bytes),
      hdr = header ext n → n < (if ext then 2 ^ 32 else 2 ^ 24) →
      (parseGroups ext n fuel 0 body []).map (fun toks => (ext, n, toks)) = .ok (ext, n, toks) →
      Conforms ext toks (hdr ++ body) ∧ (expand toks).size = n := by
    intro ext n body fuel hdr hh hb hp
    cases hpg : parseGroups ext n fuel 0 body [] with
    | error e => rw [hpg] at hp; simp [Except.map] at hp
    | ok toks' =>
      rw [hpg] at hp
      simp [Except.map] at hp
      subst hp
      obtain ⟨rest, r1, r2, r3, r4⟩ := parseGroups_sound ext n fuel 0 body [] _ hpg
      simp at r1 r4
      subst r1
      have hsz : (expand toks').size = n := by simp [expand, r4]
      exact ⟨⟨r3, ⟨body, by rw [hsz, hh], r2⟩, by rw [hsz]; exact hb⟩, hsz⟩
  unfold parse at h
  match s, h with
  | [], h => simp at h
  | [t], h => simp only at h; split at h <;> simp at h
  | [t, _], h => simp only at h; split at h <;> simp at h
  | [t, _, _], h => simp only at h; split at h <;> simp at h
  | t :: l0 :: l1 :: l2 :: body, h =>
    simp only at h
    split at h
    · simp at h
    · rename_i ht
      have h0 := l0.toNat_lt; have h1 := l1.toNat_lt; have h2 := l2.toNat_lt
      have hn24 : ofLe [l0, l1, l2] < 2 ^ 24 := by simp only [ofLe]; omega
      split at h
      · rename_i hext
        -- extended length word
        have ht11 : t = 0x11 := by simpa using hext.2
        match body, h with
        | [], h => simp at h
        | [_], h => simp at h
        | [_, _], h => simp at h
        | [_, _, _], h => simp at h
        | a :: b :: c :: d :: body, h =>
          simp only at h
          split at h
          · simp at h
          · rename_i hcanon
            have ha := a.toNat_lt; have hb := b.toNat_lt; have hc := c.toNat_lt; have hd := d.toNat_lt
            have hn32 : ofLe [a, b, c, d] < 2 ^ 32 := by simp only [ofLe]; omega
            have hz : l0 = 0 ∧ l1 = 0 ∧ l2 = 0 := by
              have := hext.1
              simp only [ofLe] at this
              refine ⟨UInt8.toNat_inj.1 ?_, UInt8.toNat_inj.1 ?_, UInt8.toNat_inj.1 ?_⟩ <;> simp <;> omega
            obtain ⟨rfl, rfl, rfl⟩ := hz
            subst ht11
            have hx : (0x11 == (0x11 : UInt8)) = true := by decide
            have hext' : ext = true ∧ n = ofLe [a, b, c, d] := by
              cases hpg : parseGroups (0x11 == (0x11 : UInt8)) (ofLe [a, b, c, d]) (body.length + 1) 0 body [] with
              | error e => rw [hpg] at h; simp [Except.map] at h
              | ok v => rw [hpg] at h; simp [Except.map] at h; first | exact ⟨h.1, h.2.1⟩ | exact ⟨h.1.symm, h.2.1.symm⟩ | exact ⟨h.1.symm, h.2.1⟩ | exact ⟨h.1, h.2.1.symm⟩
            obtain ⟨rfl, rfl⟩ := hext'
            have hcan : ofLe [a, b, c, d] = 0 ∨ 2 ^ 24 ≤ ofLe [a, b, c, d] := by omega
            have := fin true (ofLe [a, b, c, d]) body (body.length + 1)
              [0x11, 0, 0, 0, a, b, c, d] (by simp [header, hcan, ofLe4]) (by simpa using hn32)
              (by simpa [hx] using h)
            simpa using this
      · rename_i hext
        have hext' : ext = (t == 0x11) ∧ n = ofLe [l0, l1, l2] := by
          cases hpg : parseGroups (t == 0x11) (ofLe [l0, l1, l2]) (body.length + 1) 0 body [] with
          | error e => rw [hpg] at h; simp [Except.map] at h
          | ok v => rw [hpg] at h; simp [Except.map] at h; first | exact ⟨h.1, h.2.1⟩ | exact ⟨h.1.symm, h.2.1.symm⟩ | exact ⟨h.1.symm, h.2.1⟩ | exact ⟨h.1, h.2.1.symm⟩
        obtain ⟨rfl, rfl⟩ := hext'
        have hhdr : [t, l0, l1, l2] = header (t == 0x11) (ofLe [l0, l1, l2]) := by
          by_cases h11 : t = 0x11
          · subst h11
            have hne : ofLe [l0, l1, l2] ≠ 0 := by
              intro hz; exact hext ⟨hz, by decide⟩
            have : ¬ (ofLe [l0, l1, l2] = 0 ∨ 2 ^ 24 ≤ ofLe [l0, l1, l2]) := by omega
            have hx : (0x11 == (0x11 : UInt8)) = true := by decide
            simp only [header, hx, ↓reduceIte, this, ofLe3]
          · have h10 : t = 0x10 := by
              by_cases h10 : t = 0x10
              · exact h10
              · exact absurd ⟨h10, h11⟩ ht
            subst h10
            have hx : ((0x10 : UInt8) == 0x11) = false := by decide
            simp [header, hx, ofLe3]
        have := fin (t == 0x11) (ofLe [l0, l1, l2]) body (body.length + 1) [t, l0, l1, l2] hhdr
          (by split <;> omega) h
        simpa using this

end Mila.Spec.Lz
