/- The `glob` model on the pattern family of C13: compilation of the five pattern shapes and
equivalence of the compiled matcher with the specification's `Pat.matches`. -/
import MilaModel.Model.LayeredFs
import MilaModel.Spec.OverlayFs
import MilaModel.Lemmas.Split

namespace Mila.LayeredFs
open Mila.Localize (slash dot)
open Mila.Spec.Overlay (Pat)

def lits (s : Bytes) : List Tok := s.map Tok.lit

theorem wild_star_any (n : Bytes) : wild [.star] n = true := by
  simp only [wild]
  induction n with
  | nil => simp [starGo]
  | cons x xs ih => simp [starGo, ih]

theorem wild_lits (s n : Bytes) : wild (lits s) n = decide (s = n) := by
  induction s generalizing n with
  | nil => cases n <;> simp [lits, wild]
  | cons c cs ih =>
    cases n with
    | nil => simp [lits, wild]
    | cons x xs =>
      have := ih xs
      simp only [lits] at this
      simp only [lits, List.map_cons, wild, this]
      by_cases h : c = x
      · subst h; simp
      · simp [h]

theorem isSuffixOf_cons (s : Bytes) (x : UInt8) (xs : Bytes) :
    s.isSuffixOf (x :: xs) = (decide (s = x :: xs) || s.isSuffixOf xs) := by
  rw [Bool.eq_iff_iff]
  simp only [List.isSuffixOf_iff_suffix, Bool.or_eq_true, decide_eq_true_eq]
  rw [List.suffix_cons_iff]

/-- `*lit…` matches exactly the names that end with the literal text. -/
theorem wild_star_lits (s n : Bytes) : wild (.star :: lits s) n = s.isSuffixOf n := by
  simp only [wild]
  induction n with
  | nil =>
    simp only [starGo, wild_lits]
    rw [Bool.eq_iff_iff]
    simp only [decide_eq_true_eq, List.isSuffixOf_iff_suffix, List.suffix_nil]
  | cons x xs ih =>
    simp only [starGo, ih, wild_lits, isSuffixOf_cons]

/-- Bytes that the pattern compiler treats literally. -/
def LitByte (b : UInt8) : Prop := b ≠ star ∧ b ≠ 0x3F ∧ b ≠ 0x5B ∧ b ≠ 0x5D ∧ b ≠ slash

def LitText (s : Bytes) : Prop := ∀ b ∈ s, LitByte b

theorem map_tokOf_lit (s : Bytes) (h : LitText s) : s.map tokOf = lits s := by
  unfold lits
  apply List.map_congr_left
  intro b hb
  simp [tokOf, (h b hb).1]

theorem plainComponent_lit (s : Bytes) (hne : s ≠ []) (h : LitText s) : plainComponent s = true := by
  induction s with
  | nil => exact absurd rfl hne
  | cons a rest ih =>
    have ha := h a (by simp)
    cases rest with
    | nil =>
      simp only [plainComponent]
      simp [ha.2.1, ha.2.2.1, ha.2.2.2.1]
    | cons b rest' =>
      have := ih (by simp) (fun c hc => h c (by simp [hc]))
      simp only [plainComponent, this]
      simp [ha.1, ha.2.1, ha.2.2.1, ha.2.2.2.1]

theorem plainComponent_star_lit (s : Bytes) (h : LitText s) : plainComponent (star :: s) = true := by
  cases s with
  | nil => simp [plainComponent, star]
  | cons b rest =>
    have hb := h b (by simp)
    have := plainComponent_lit (b :: rest) (by simp) h
    have hb1 : b ≠ 42 := hb.1
    simp only [plainComponent, this]
    simp [star, hb1]

theorem noslash_of_lit (s : Bytes) (h : LitText s) : slash ∉ s := fun hm => (h slash hm).2.2.2.2 rfl

theorem star_ne_slash : star ≠ slash := by decide

theorem splitOn_star_lit (s : Bytes) (h : LitText s) : splitOn' slash (star :: s) = [star :: s] := by
  apply splitOn'_nosep
  intro hm
  rcases List.mem_cons.mp hm with e | e
  · exact star_ne_slash e.symm
  · exact noslash_of_lit s h e

theorem tokOf_star : tokOf star = .star := by simp [tokOf]

/-- The pattern strings of the family, as the caller writes them (`none` = no pattern). -/
def Compiles (pat : Option Bytes) (g : Glob) : Prop := Glob.parse (pat.getD Layer.defaultPattern) = some g

theorem parse_all : Glob.parse [star, star, slash, star] = some (.recursive [.star]) := by decide

theorem parse_children : Glob.parse [star] = some (.chain [[.star]]) := by decide

theorem parse_childrenExt (s : Bytes) (h : LitText s) :
    Glob.parse (star :: s) = some (.chain [.star :: lits s]) := by
  unfold Glob.parse
  rw [splitOn_star_lit s h]
  simp [plainComponent_star_lit s h, tokOf_star, map_tokOf_lit s h]

theorem parse_allExt (s : Bytes) (h : LitText s) :
    Glob.parse (star :: star :: slash :: star :: s) = some (.recursive (.star :: lits s)) := by
  unfold Glob.parse
  have h1 : splitOn' slash (star :: star :: slash :: star :: s) = [[star, star], star :: s] := by
    have := splitOn'_append_sep slash [star, star] (star :: s) (by decide)
    simp only [List.cons_append, List.nil_append] at this
    rw [this, splitOn_star_lit s h]
  rw [h1]
  simp [plainComponent_star_lit s h, tokOf_star, map_tokOf_lit s h]

theorem parse_inDir (lit : Bytes) (hne : lit ≠ []) (h : LitText lit) :
    Glob.parse (lit ++ [slash, star]) = some (.chain [lits lit, [.star]]) := by
  unfold Glob.parse
  have h1 : splitOn' slash (lit ++ slash :: [star]) = [lit, [star]] := by
    rw [splitOn'_append_sep slash lit [star] (noslash_of_lit lit h)]
    simp [splitOn', star_ne_slash]
  rw [h1]
  have h2 : lit ≠ [star, star] := by
    intro e
    have := h star (by simp [e])
    exact this.1 rfl
  have h3 : plainComponent [star] = true := by decide
  simp [h2, plainComponent_lit lit hne h, h3, tokOf_star, map_tokOf_lit lit h]

theorem getLast?_cons_cons {α : Type} (a b : α) (l : List α) : (a :: b :: l).getLast? = (b :: l).getLast? := by
  simp [List.getLast?_cons_cons]

/-- Extension / directory texts for which the family is defined. -/
def Pat.Ok : Pat → Prop
  | .all => True
  | .children => True
  | .childrenExt ext => LitText ext
  | .allExt ext => LitText ext
  | .inDir lit => lit ≠ [] ∧ LitText lit

theorem dotExt_lit (ext : Bytes) (h : LitText ext) : LitText (Spec.Overlay.dotExt ext) := by
  intro b hb
  rcases List.mem_cons.mp hb with e | e
  · subst e; unfold LitByte; decide
  · exact h b e

/-- Every pattern string of the family compiles, and the compiled matcher is the specification's. -/
theorem family_compiles (pt : Pat) (hok : Pat.Ok pt) (pat : Option Bytes) (hp : pat ∈ pt.glob) :
    ∃ g, Compiles pat g ∧ ∀ rel, g.matches rel = pt.matches rel := by
  cases pt with
  | all =>
    refine ⟨.recursive [.star], ?_, ?_⟩
    · simp only [Pat.glob, List.mem_cons, List.mem_nil_iff, or_false] at hp
      rcases hp with rfl | rfl
      · exact parse_all
      · exact parse_all
    · intro rel
      simp only [Glob.matches, Pat.matches]
      cases h : rel.getLast? with
      | none => simp [List.getLast?_eq_none_iff.mp h]
      | some n =>
        have : rel ≠ [] := by intro e; simp [e] at h
        simp [wild_star_any, this]
  | children =>
    refine ⟨.chain [[.star]], ?_, ?_⟩
    · simp only [Pat.glob, List.mem_cons, List.mem_nil_iff, or_false] at hp
      subst hp; exact parse_children
    · intro rel
      simp only [Glob.matches, Pat.matches]
      cases rel with
      | nil => simp [matchChain]
      | cons a rest =>
        cases rest with
        | nil => simp [matchChain, wild_star_any]
        | cons b rest' => simp [matchChain]
  | childrenExt ext =>
    have hl := dotExt_lit ext hok
    refine ⟨.chain [.star :: lits (Spec.Overlay.dotExt ext)], ?_, ?_⟩
    · simp only [Pat.glob, List.mem_cons, List.mem_nil_iff, or_false] at hp
      subst hp
      exact parse_childrenExt _ hl
    · intro rel
      simp only [Glob.matches, Pat.matches]
      cases rel with
      | nil => simp [matchChain]
      | cons a rest =>
        cases rest with
        | nil => simp [matchChain, wild_star_lits]
        | cons b rest' => simp [matchChain]
  | allExt ext =>
    have hl := dotExt_lit ext hok
    refine ⟨.recursive (.star :: lits (Spec.Overlay.dotExt ext)), ?_, ?_⟩
    · simp only [Pat.glob, List.mem_cons, List.mem_nil_iff, or_false] at hp
      subst hp
      exact parse_allExt _ hl
    · intro rel
      simp only [Glob.matches, Pat.matches]
      cases rel.getLast? with
      | none => rfl
      | some n => simp [wild_star_lits]
  | inDir lit =>
    refine ⟨.chain [lits lit, [.star]], ?_, ?_⟩
    · simp only [Pat.glob, List.mem_cons, List.mem_nil_iff, or_false] at hp
      subst hp
      exact parse_inDir lit hok.1 hok.2
    · intro rel
      simp only [Glob.matches, Pat.matches]
      cases rel with
      | nil => simp [matchChain]
      | cons a rest =>
        cases rest with
        | nil => simp [matchChain]
        | cons b rest' =>
          cases rest' with
          | nil =>
            simp only [matchChain, wild_lits, wild_star_any, Bool.and_true]
            rw [Bool.eq_iff_iff]
            simp only [decide_eq_true_eq, beq_iff_eq]
            exact eq_comm
          | cons c r => simp [matchChain]

end Mila.LayeredFs
