/-
Lemmas for C06 about the UTF-8 / UTF-16 model (`Model/Utf16.lean`): decoding inverts encoding for
every list of NUL-free Unicode scalar values.
-/
import MilaModel.Model.Utf16

namespace Mila.Lemmas.TextUtf
open Mila Mila.Utf

theorem toNat_ofNat_lt {n : Nat} (h : n < 256) : (UInt8.ofNat n).toNat = n := by
  rw [UInt8.toNat_ofNat']; omega

/-! ### UTF-8 -/

theorem utf8Dec_cons (b0 : UInt8) (rest : Bytes) : utf8Dec (b0 :: rest) = 
    if b0.toNat < 0x80 then (utf8Dec rest).map (b0.toNat :: ·)
    else if b0.toNat < 0xC0 then none
    else if b0.toNat < 0xE0 then
      match rest with
      | b1 :: rest' =>
        if isCont b1.toNat then
          (utf8Dec rest').map ((b0.toNat % 32 * 64 + b1.toNat % 64) :: ·)
        else none
      | _ => none
    else if b0.toNat < 0xF0 then
      match rest with
      | b1 :: b2 :: rest' =>
        if isCont b1.toNat && isCont b2.toNat then
          (utf8Dec rest').map ((b0.toNat % 16 * 4096 + b1.toNat % 64 * 64 + b2.toNat % 64) :: ·)
        else none
      | _ => none
    else if b0.toNat < 0xF8 then
      match rest with
      | b1 :: b2 :: b3 :: rest' =>
        if isCont b1.toNat && isCont b2.toNat && isCont b3.toNat then
          (utf8Dec rest').map
            ((b0.toNat % 8 * 262144 + b1.toNat % 64 * 4096 + b2.toNat % 64 * 64 + b3.toNat % 64) :: ·)
        else none
      | _ => none
    else none := by
  rw [utf8Dec.eq_def]
  rfl

theorem utf16Dec_cons (u : Nat) (rest : List Nat) : utf16Dec (u :: rest) =
    if u < 0xD800 ∨ 0xE000 ≤ u then (utf16Dec rest).map (u :: ·)
    else if u < 0xDC00 then
      match rest with
      | l :: rest' =>
        if 0xDC00 ≤ l ∧ l < 0xE000 then
          (utf16Dec rest').map ((0x10000 + (u - 0xD800) * 1024 + (l - 0xDC00)) :: ·)
        else none
      | [] => none
    else none := by
  rw [utf16Dec.eq_def]
  rfl


theorem utf8Dec_enc1 (c : Nat) (hc : c < 0x110000) (rest : Bytes) :
    utf8Dec (utf8Enc1 c ++ rest) = (utf8Dec rest).map (c :: ·) := by
  unfold utf8Enc1
  by_cases h1 : c < 0x80
  · simp only [h1, if_true, List.cons_append, List.nil_append]
    rw [utf8Dec_cons]
    have : (UInt8.ofNat c).toNat = c := toNat_ofNat_lt (by omega)
    simp only [this, h1, if_true]
  · by_cases h2 : c < 0x800
    · simp only [h1, h2, if_true, if_false, List.cons_append, List.nil_append]
      rw [utf8Dec_cons]
      have e0 : (UInt8.ofNat (0xC0 + c / 64)).toNat = 0xC0 + c / 64 := toNat_ofNat_lt (by omega)
      have e1 : (UInt8.ofNat (0x80 + c % 64)).toNat = 0x80 + c % 64 := toNat_ofNat_lt (by omega)
      have a1 : ¬ (0xC0 + c / 64 < 0x80) := by omega
      have a2 : ¬ (0xC0 + c / 64 < 0xC0) := by omega
      have a3 : 0xC0 + c / 64 < 0xE0 := by omega
      have c1 : isCont (0x80 + c % 64) = true := by simp [isCont]; omega
      have v : (0xC0 + c / 64) % 32 * 64 + (0x80 + c % 64) % 64 = c := by omega
      simp only [e0, e1, a1, a2, a3, c1, v, if_true, if_false]
    · by_cases h3 : c < 0x10000
      · simp only [h1, h2, h3, if_true, if_false, List.cons_append, List.nil_append]
        rw [utf8Dec_cons]
        have e0 : (UInt8.ofNat (0xE0 + c / 4096)).toNat = 0xE0 + c / 4096 := toNat_ofNat_lt (by omega)
        have e1 : (UInt8.ofNat (0x80 + c / 64 % 64)).toNat = 0x80 + c / 64 % 64 := toNat_ofNat_lt (by omega)
        have e2 : (UInt8.ofNat (0x80 + c % 64)).toNat = 0x80 + c % 64 := toNat_ofNat_lt (by omega)
        have a1 : ¬ (0xE0 + c / 4096 < 0x80) := by omega
        have a2 : ¬ (0xE0 + c / 4096 < 0xC0) := by omega
        have a3 : ¬ (0xE0 + c / 4096 < 0xE0) := by omega
        have a4 : 0xE0 + c / 4096 < 0xF0 := by omega
        have c1 : isCont (0x80 + c / 64 % 64) = true := by simp [isCont]; omega
        have c2 : isCont (0x80 + c % 64) = true := by simp [isCont]; omega
        have v : (0xE0 + c / 4096) % 16 * 4096 + (0x80 + c / 64 % 64) % 64 * 64 + (0x80 + c % 64) % 64 = c := by
          omega
        simp only [e0, e1, e2, a1, a2, a3, a4, c1, c2, v, if_true, if_false, Bool.and_self]
      · simp only [h1, h2, h3, if_false, List.cons_append, List.nil_append]
        rw [utf8Dec_cons]
        have e0 : (UInt8.ofNat (0xF0 + c / 262144)).toNat = 0xF0 + c / 262144 := toNat_ofNat_lt (by omega)
        have e1 : (UInt8.ofNat (0x80 + c / 4096 % 64)).toNat = 0x80 + c / 4096 % 64 := toNat_ofNat_lt (by omega)
        have e2 : (UInt8.ofNat (0x80 + c / 64 % 64)).toNat = 0x80 + c / 64 % 64 := toNat_ofNat_lt (by omega)
        have e3 : (UInt8.ofNat (0x80 + c % 64)).toNat = 0x80 + c % 64 := toNat_ofNat_lt (by omega)
        have a1 : ¬ (0xF0 + c / 262144 < 0x80) := by omega
        have a2 : ¬ (0xF0 + c / 262144 < 0xC0) := by omega
        have a3 : ¬ (0xF0 + c / 262144 < 0xE0) := by omega
        have a4 : ¬ (0xF0 + c / 262144 < 0xF0) := by omega
        have a5 : 0xF0 + c / 262144 < 0xF8 := by omega
        have c1 : isCont (0x80 + c / 4096 % 64) = true := by simp [isCont]; omega
        have c2 : isCont (0x80 + c / 64 % 64) = true := by simp [isCont]; omega
        have c3 : isCont (0x80 + c % 64) = true := by simp [isCont]; omega
        have v : (0xF0 + c / 262144) % 8 * 262144 + (0x80 + c / 4096 % 64) % 64 * 4096
            + (0x80 + c / 64 % 64) % 64 * 64 + (0x80 + c % 64) % 64 = c := by omega
        simp only [e0, e1, e2, e3, a1, a2, a3, a4, a5, c1, c2, c3, v, if_true, if_false, Bool.and_self]

theorem scalar_lt {c : Nat} (h : IsScalar c) : c < 0x110000 := by
  unfold IsScalar at h; omega

/-- `str::chars()` recovers the scalar values a `String` was built from. -/
theorem utf8Dec_enc (cs : List Nat) (h : ∀ c ∈ cs, IsScalar c) : utf8Dec (utf8Enc cs) = some cs := by
  induction cs with
  | nil => rfl
  | cons c cs ih =>
    have hc := scalar_lt (h c (by simp))
    have ih := ih (fun x hx => h x (by simp [hx]))
    simp only [utf8Enc, List.flatMap_cons] at ih ⊢
    rw [utf8Dec_enc1 c hc, ih]
    rfl

/-! ### UTF-16 -/

theorem utf16Dec_units1 (c : Nat) (hc : IsScalar c) (rest : List Nat) :
    utf16Dec (utf16Units1 c ++ rest) = (utf16Dec rest).map (c :: ·) := by
  unfold utf16Units1 IsScalar at *
  by_cases h1 : c < 0x10000
  · simp only [h1, if_true, List.cons_append, List.nil_append]
    rw [utf16Dec_cons]
    have : c < 0xD800 ∨ 0xE000 ≤ c := by omega
    simp only [this, if_true]
  · simp only [h1, if_false, List.cons_append, List.nil_append]
    rw [utf16Dec_cons]
    have a1 : ¬ (0xD800 + (c - 0x10000) / 1024 < 0xD800 ∨ 0xE000 ≤ 0xD800 + (c - 0x10000) / 1024) := by omega
    have a2 : 0xD800 + (c - 0x10000) / 1024 < 0xDC00 := by omega
    have a3 : 0xDC00 ≤ 0xDC00 + (c - 0x10000) % 1024 ∧ 0xDC00 + (c - 0x10000) % 1024 < 0xE000 := by omega
    have v : 0x10000 + (0xD800 + (c - 0x10000) / 1024 - 0xD800) * 1024
        + (0xDC00 + (c - 0x10000) % 1024 - 0xDC00) = c := by omega
    simp only [a1, a2, a3, v, if_true, if_false, and_self]

theorem utf16Dec_units (cs : List Nat) (h : ∀ c ∈ cs, IsScalar c) :
    utf16Dec (utf16Units cs) = some cs := by
  induction cs with
  | nil => rfl
  | cons c cs ih =>
    have ih := ih (fun x hx => h x (by simp [hx]))
    simp only [utf16Units, List.flatMap_cons] at ih ⊢
    rw [utf16Dec_units1 c (h c (by simp)), ih]
    rfl

/-- Code units of NUL-free scalars are non-zero 16-bit values. -/
theorem units_range (cs : List Nat) (h : ∀ c ∈ cs, IsScalar c ∧ c ≠ 0) :
    ∀ u ∈ utf16Units cs, 0 < u ∧ u < 65536 := by
  intro u hu
  simp only [utf16Units, List.mem_flatMap] at hu
  obtain ⟨c, hc, hu⟩ := hu
  obtain ⟨hs, hz⟩ := h c hc
  unfold utf16Units1 at hu
  unfold IsScalar at hs
  split at hu
  · simp only [List.mem_singleton] at hu; omega
  · simp only [List.mem_cons, List.not_mem_nil, or_false] at hu
    rcases hu with hu | hu <;> omega

theorem unitsOfLe_unitsLe (us : List Nat) (h : ∀ u ∈ us, u < 65536) : unitsOfLe (unitsLe us) = us := by
  induction us with
  | nil => rfl
  | cons u us ih =>
    have hu := h u (by simp)
    have ih := ih (fun x hx => h x (by simp [hx]))
    simp only [unitsLe, List.flatMap_cons, unitLe, List.cons_append, List.nil_append] at ih ⊢
    rw [unitsOfLe, ih]
    have e0 : (UInt8.ofNat (u % 256)).toNat = u % 256 := toNat_ofNat_lt (by omega)
    have e1 : (UInt8.ofNat (u / 256)).toNat = u / 256 := toNat_ofNat_lt (by omega)
    rw [e0, e1]
    congr 1
    omega

theorem ofNat_eq_zero_iff {n : Nat} (h : n < 256) : UInt8.ofNat n = 0 ↔ n = 0 := by
  constructor
  · intro e
    have := congrArg UInt8.toNat e
    rw [toNat_ofNat_lt h] at this
    simpa using this
  · intro e; subst e; rfl

/-- The pair loop of `read_utf_16_impl` stops exactly at the terminator the writer appended. -/
theorem utf16Raw_unitsLe (us : List Nat) (h : ∀ u ∈ us, 0 < u ∧ u < 65536) (rest : Bytes) :
    utf16Raw (unitsLe us ++ 0 :: 0 :: rest) = some (unitsLe us) := by
  induction us with
  | nil => simp [unitsLe, utf16Raw]
  | cons u us ih =>
    have hu := h u (by simp)
    have ih := ih (fun x hx => h x (by simp [hx]))
    simp only [unitsLe, List.flatMap_cons, unitLe, List.cons_append, List.nil_append] at ih ⊢
    rw [utf16Raw, ih]
    have : ¬ (UInt8.ofNat (u % 256) = 0 ∧ UInt8.ofNat (u / 256) = 0) := by
      rw [ofNat_eq_zero_iff (by omega), ofNat_eq_zero_iff (by omega)]
      omega
    simp only [this, if_false, Option.map_some]

theorem unitsLe_length (us : List Nat) : (unitsLe us).length = 2 * us.length := by
  induction us with
  | nil => rfl
  | cons u us ih =>
    simp only [unitsLe, List.flatMap_cons, unitLe, List.length_append, List.length_cons,
      List.length_nil] at ih ⊢
    omega

/-- **`decode (encode s) = s`** for every list of NUL-free Unicode scalar values: `to_utf_16`
succeeds, the reader's pair loop returns exactly the encoded bytes, and
`decode_without_bom_handling` gives the string back (no error flag). -/
theorem utf16_roundtrip (cs : List Nat) (h : ∀ c ∈ cs, IsScalar c ∧ c ≠ 0) (rest : Bytes) :
    toUtf16 (utf8Enc cs) = .ok (utf16Bytes cs) ∧
    utf16Raw (utf16Bytes cs ++ 0 :: 0 :: rest) = some (utf16Bytes cs) ∧
    decodeUtf16 (utf16Bytes cs) = .ok (utf8Enc cs) ∧
    (utf16Bytes cs).length % 2 = 0 := by
  have hs : ∀ c ∈ cs, IsScalar c := fun c hc => (h c hc).1
  have hr := units_range cs h
  refine ⟨?_, ?_, ?_, ?_⟩
  · simp [toUtf16, utf8Dec_enc cs hs]
  · exact utf16Raw_unitsLe _ hr rest
  · simp [decodeUtf16, utf16Bytes, unitsOfLe_unitsLe _ (fun u hu => (hr u hu).2), utf16Dec_units cs hs]
  · simp [utf16Bytes, unitsLe_length]

end Mila.Lemmas.TextUtf
