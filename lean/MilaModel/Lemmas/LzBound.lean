/-
Size bounds (C10): length of a flag-group encoding, the expansion bound, completeness of the
match search on periodic data and the resulting potential-function invariant.
-/
import MilaModel.Lemmas.LzSteps

namespace Mila.Lz
open Mila.Spec.Lz

/-- Number of token bytes (without flag bytes). -/
def cost (ext : Bool) (toks : List Tok) : Nat := (toks.flatMap (tokBytes ext)).length

@[simp] theorem cost_nil (ext : Bool) : cost ext [] = 0 := rfl
theorem cost_snoc (ext : Bool) (T : List Tok) (t : Tok) :
    cost ext (T ++ [t]) = cost ext T + (tokBytes ext t).length := by
  simp [cost, List.flatMap_append]
theorem cost_append (ext : Bool) (a b : List Tok) : cost ext (a ++ b) = cost ext a + cost ext b := by
  simp [cost, List.flatMap_append]

/-- One flag byte per started group of eight tokens. -/
theorem groups_length {ext : Bool} {toks : List Tok} {body : Bytes} (h : Groups ext toks body) :
    body.length = cost ext toks + (toks.length + 7) / 8 := by
  induction h with
  | nil => simp
  | group f g rest bs hne hlen hfull hflag hrest ih =>
    rw [cost_append, List.length_cons, List.length_append, ih, List.length_append]
    have hg : g.length ≠ 0 := fun h => hne (List.eq_nil_of_length_eq_zero h)
    by_cases hr : rest = []
    · subst hr; simp [cost]; omega
    · have := hfull hr
      simp only [cost]
      omega

theorem tokBytes_le_size {ext : Bool} {h : Nat} {t : Tok} (hv : ValidFrom ext h [t]) :
    (tokBytes ext t).length ≤ t.size := by
  cases t with
  | lit b => simp [tokBytes, Tok.size]
  | ref len disp =>
    have := lenOk_pos hv.1
    cases ext with
    | false => simp [tokBytes, Tok.size]; omega
    | true =>
      simp only [tokBytes, Tok.size, Bool.not_true, Bool.false_eq_true, ↓reduceIte]
      split
      · simp; omega
      · split
        · simp; omega
        · simp; omega

theorem cost_le_tsize {ext : Bool} : ∀ (toks : List Tok) (h : Nat), ValidFrom ext h toks →
    cost ext toks ≤ tsize toks ∧ toks.length ≤ tsize toks := by
  intro toks
  induction toks with
  | nil => intro h _; simp
  | cons t ts ih =>
    intro h hv
    have hp := tsize_pos_of_valid hv
    have hv' : ValidFrom ext h ([t] ++ ts) := hv
    rw [validFrom_append] at hv'
    have h1 := tokBytes_le_size hv'.1
    have h2 := ih _ hv'.2
    have : cost ext (t :: ts) = (tokBytes ext t).length + cost ext ts := by
      simp [cost]
    rw [this]
    simp
    omega

/-! ### search completeness on periodic data -/

theorem matchLen_full (x : BA) (a b : Nat) : ∀ (k j : Nat),
    (∀ i, j ≤ i → i < j + k → a + i < x.size ∧ b + i < x.size ∧ x[a + i]? = x[b + i]?) →
    matchLen x a b k j = some (j + k) := by
  intro k
  induction k with
  | zero => intro j _; simp [matchLen]
  | succ k ih =>
    intro j h
    obtain ⟨h1, h2, h3⟩ := h j (Nat.le_refl _) (by omega)
    rw [matchLen]
    simp only [h1, h2, ↓reduceDIte]
    have : x[a + j] = x[b + j] := by simpa [h1, h2] using h3
    simp only [this, bne_self_eq_false, Bool.false_eq_true, ↓reduceIte]
    rw [ih (j + 1) (fun i hi1 hi2 => h i (by omega) (by omega))]
    congr 1; omega

/-- `x` repeats with period `q`. -/
def Periodic (x : BA) (q : Nat) : Prop := ∀ i, i + q < x.size → x[i]? = x[i + q]?

/-- At a position at or beyond the period (period between 2 and the window size) the search
returns a match for the whole look-ahead. -/
theorem search_complete (x : BA) (cap q pos len d : Nat) (hq2 : 2 ≤ q) (hq : q ≤ 4096)
    (hper : Periodic x q) (hpos : q ≤ pos) (hlt : pos < x.size) (hcap : 1 ≤ cap)
    (hs : search x cap pos = .ok (len, d)) : len = min (x.size - pos) cap := by
  unfold search occurrence at hs
  have h0 : ¬ (min (x.size - pos) cap = 0 ∨ min pos 0x1000 = 0) := by omega
  simp only [h0, ↓reduceIte] at hs
  apply occLoop_complete x pos (min (x.size - pos) cap) (pos - min pos 0x1000) (min pos 0x1000)
    (min pos 0x1000 - q) ?_ _ 0 0 0 len d (by omega) (by omega) (by omega) hs
  have := matchLen_full x (pos - min pos 0x1000 + (min pos 0x1000 - q)) pos (min (x.size - pos) cap) 0
    (by
      intro i _ hi
      have e : pos - min pos 0x1000 + (min pos 0x1000 - q) + i = pos - q + i := by omega
      rw [e]
      refine ⟨by omega, by omega, ?_⟩
      have := hper (pos - q + i) (by omega)
      rw [this]
      congr 1; omega)
  simpa using this

/-! ### potential-function invariant -/

/-- Cost and token-count bounds along the greedy steps on data of period `q`, for abstract
potentials `Φ` (bytes still to be paid) and `Ψ` (tokens still to come). -/
theorem stepsTo_periodic (x : BA) (ext : Bool) (L r q : Nat) (hq2 : 2 ≤ q) (hq : q ≤ 4096)
    (hper : Periodic x q) (hL : 3 ≤ L) (hr : 1 ≤ r)
    (hc1 : ∀ len disp, (tokBytes ext (.ref len disp)).length ≤ r)
    (hc2 : ∀ len disp, 3 ≤ len → (tokBytes ext (.ref len disp)).length ≤ len)
    (Φ Ψ : Nat → Nat)
    (P1 : ∀ rem, 3 ≤ rem → r + Φ (rem - min rem L) ≤ Φ rem ∧ 1 + Ψ (rem - min rem L) ≤ Ψ rem)
    (P2 : ∀ rem, 1 ≤ rem → rem < 3 → 1 + Φ (rem - 1) ≤ Φ rem ∧ 1 + Ψ (rem - 1) ≤ Ψ rem)
    (P3 : ∀ a b, a ≤ b → Φ a ≤ Φ b ∧ Ψ a ≤ Ψ b) :
    ∀ (T : List Tok) (pos : Nat), StepsTo x L T pos →
      (pos < q → cost ext T ≤ pos ∧ T.length ≤ pos) ∧
      (q ≤ pos → cost ext T + Φ (x.size - pos) ≤ (q - 1) + r + Φ (x.size - q) ∧
        T.length + Ψ (x.size - pos) ≤ q + Ψ (x.size - q)) := by
  intro T pos hs
  induction hs with
  | nil => exact ⟨fun _ => by simp, fun h => by omega⟩
  | lit T pos len disp h hst hsr hl ih =>
    have hcl : (tokBytes ext (.lit x[pos])).length = 1 := by simp [tokBytes]
    rw [cost_snoc, hcl, List.length_append, List.length_singleton]
    constructor
    · intro hlt
      have := ih.1 (by omega)
      omega
    · intro hge
      by_cases hpq : pos < q
      · have := ih.1 hpq
        have e : pos + 1 = q := by omega
        rw [e]
        omega
      · have hc := search_complete x L q pos len disp hq2 hq hper (by omega) h (by omega) hsr
        have hrem : x.size - pos < 3 := by omega
        have := ih.2 (by omega)
        have p2 := P2 (x.size - pos) (by omega) hrem
        have e : x.size - (pos + 1) = x.size - pos - 1 := by omega
        rw [e]
        omega
  | ref T pos len disp hst h hsr hl ih =>
    have c1 := hc1 len disp
    have c2 := hc2 len disp hl
    rw [cost_snoc, List.length_append, List.length_singleton]
    constructor
    · intro hlt
      have := ih.1 (by omega)
      omega
    · intro hge
      by_cases hpq : pos < q
      · have := ih.1 hpq
        have p3 := P3 (x.size - (pos + len)) (x.size - q) (by omega)
        omega
      · have hc := search_complete x L q pos len disp hq2 hq hper (by omega) h (by omega) hsr
        have := ih.2 (by omega)
        have p1 := P1 (x.size - pos) (by omega)
        have e : x.size - (pos + len) = x.size - pos - min (x.size - pos) L := by omega
        rw [e]
        omega

end Mila.Lz
