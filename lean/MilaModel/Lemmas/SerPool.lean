/-
The text pool of `serialize` (`add_text`): after adding a sequence of strings the pool holds every
distinct string once, in order of first use, and the offset handed out for a string is its offset
in that final pool.  The three loops of `serialize` that call `add_text` are folds of this step.
Also: the `IndexMap` of string-pointer groups (`pushGroup`) is "group by key in first-use order".
-/
import MilaModel.Lemmas.SerBytes

namespace Mila.Ser
open Mila.BinArchive
open Spec.Image (entry offsetIn dedupAux dedup)

/-! ### first-occurrence de-duplication -/

theorem dedupAux_congr {α : Type} [DecidableEq α] : ∀ (l : List α) (s₁ s₂ : List α),
    (∀ x, x ∈ s₁ ↔ x ∈ s₂) → dedupAux s₁ l = dedupAux s₂ l := by
  intro l
  induction l with
  | nil => intro _ _ _; rfl
  | cons x xs ih =>
    intro s₁ s₂ h
    simp only [dedupAux]
    by_cases hx : x ∈ s₁
    · rw [if_pos hx, if_pos ((h x).mp hx)]; exact ih s₁ s₂ h
    · rw [if_neg hx, if_neg (fun h' => hx ((h x).mpr h'))]
      congr 1
      apply ih
      intro y; simp [h y]

theorem mem_dedupAux {α : Type} [DecidableEq α] : ∀ (l seen : List α) (x : α),
    x ∈ dedupAux seen l ↔ x ∈ l ∧ x ∉ seen := by
  intro l
  induction l with
  | nil => intro seen x; simp [dedupAux]
  | cons y ys ih =>
    intro seen x
    simp only [dedupAux]
    by_cases hy : y ∈ seen
    · rw [if_pos hy, ih]
      constructor
      · rintro ⟨h1, h2⟩; exact ⟨List.mem_cons_of_mem _ h1, h2⟩
      · rintro ⟨h1, h2⟩
        rcases List.mem_cons.mp h1 with rfl | h1
        · exact absurd hy h2
        · exact ⟨h1, h2⟩
    · rw [if_neg hy, List.mem_cons, ih]
      constructor
      · rintro (rfl | ⟨h1, h2⟩)
        · exact ⟨List.mem_cons_self, hy⟩
        · exact ⟨List.mem_cons_of_mem _ h1, fun h => h2 (List.mem_cons_of_mem _ h)⟩
      · rintro ⟨h1, h2⟩
        by_cases hxy : x = y
        · exact Or.inl hxy
        · rcases List.mem_cons.mp h1 with rfl | h1
          · exact absurd rfl hxy
          · exact Or.inr ⟨h1, by simp [hxy, h2]⟩

theorem mem_dedup {α : Type} [DecidableEq α] (l : List α) (x : α) : x ∈ dedup l ↔ x ∈ l := by
  simp [dedup, mem_dedupAux]

theorem nodup_dedupAux {α : Type} [DecidableEq α] : ∀ (l seen : List α), (dedupAux seen l).Nodup := by
  intro l
  induction l with
  | nil => intro _; simp [dedupAux]
  | cons y ys ih =>
    intro seen
    simp only [dedupAux]
    by_cases hy : y ∈ seen
    · rw [if_pos hy]; exact ih seen
    · rw [if_neg hy, List.nodup_cons]
      refine ⟨?_, ih _⟩
      rw [mem_dedupAux]; simp

theorem nodup_dedup {α : Type} [DecidableEq α] (l : List α) : (dedup l).Nodup := nodup_dedupAux l []

theorem dedupAux_append_singleton {α : Type} [DecidableEq α] : ∀ (l seen : List α) (k : α),
    dedupAux seen (l ++ [k]) =
      if k ∈ seen ∨ k ∈ l then dedupAux seen l else dedupAux seen l ++ [k] := by
  intro l
  induction l with
  | nil =>
    intro seen k
    by_cases hk : k ∈ seen <;> simp [dedupAux, hk]
  | cons y ys ih =>
    intro seen k
    simp only [List.cons_append, dedupAux]
    by_cases hy : y ∈ seen
    · rw [if_pos hy, if_pos hy, ih]
      by_cases hky : k = y
      · subst hky; simp [hy]
      · simp [hky]
    · rw [if_neg hy, if_neg hy, ih]
      by_cases hky : k = y
      · subst hky; simp
      · by_cases h : k ∈ seen ∨ k ∈ ys
        · have h' : k ∈ y :: seen ∨ k ∈ ys := by
            rcases h with h | h
            · exact Or.inl (List.mem_cons_of_mem _ h)
            · exact Or.inr h
          have h'' : k ∈ seen ∨ k ∈ y :: ys := by
            rcases h with h | h
            · exact Or.inl h
            · exact Or.inr (List.mem_cons_of_mem _ h)
          rw [if_pos h', if_pos h'']
        · have h' : ¬ (k ∈ y :: seen ∨ k ∈ ys) := by
            simp only [List.mem_cons, not_or] at h ⊢
            exact ⟨⟨hky, h.1⟩, h.2⟩
          have h'' : ¬ (k ∈ seen ∨ k ∈ y :: ys) := by
            simp only [List.mem_cons, not_or] at h ⊢
            exact ⟨h.1, hky, h.2⟩
          rw [if_neg h', if_neg h'']; rfl

theorem dedup_append_singleton {α : Type} [DecidableEq α] (l : List α) (k : α) :
    dedup (l ++ [k]) = if k ∈ l then dedup l else dedup l ++ [k] := by
  simp [dedup, dedupAux_append_singleton]

theorem mem_swap {α : Type} (a x : α) (xs seen : List α) :
    a ∈ xs ++ x :: seen ↔ a ∈ x :: xs ++ seen := by
  simp only [List.cons_append, List.mem_append, List.mem_cons]
  constructor
  · rintro (h | h | h) <;> simp [h]
  · rintro (h | h | h) <;> simp [h]

theorem dedup_map_of_inj {α β : Type} [DecidableEq α] [DecidableEq β] (f : α → β) :
    ∀ (l seen : List α), (∀ x ∈ l ++ seen, ∀ y ∈ l ++ seen, f x = f y → x = y) →
      dedupAux (seen.map f) (l.map f) = (dedupAux seen l).map f := by
  intro l
  induction l with
  | nil => intro _ _; rfl
  | cons x xs ih =>
    intro seen inj
    simp only [List.map_cons, dedupAux]
    have hiff : f x ∈ seen.map f ↔ x ∈ seen := by
      constructor
      · intro h
        obtain ⟨y, hy, hxy⟩ := List.mem_map.mp h
        have := inj y (by simp [hy]) x (by simp) hxy
        exact this ▸ hy
      · exact List.mem_map_of_mem
    have inj' : ∀ a ∈ xs ++ (x :: seen), ∀ b ∈ xs ++ (x :: seen), f a = f b → a = b := by
      intro a ha b hb
      exact inj a ((mem_swap a x xs seen).mp ha) b ((mem_swap b x xs seen).mp hb)
    by_cases hx : x ∈ seen
    · rw [if_pos (hiff.mpr hx), if_pos hx]
      apply ih
      intro a ha b hb
      apply inj a _ b _
      · simp only [List.cons_append, List.mem_cons]; exact Or.inr ha
      · simp only [List.cons_append, List.mem_cons]; exact Or.inr hb
    · rw [if_neg (fun h => hx (hiff.mp h)), if_neg hx, List.map_cons]
      congr 1
      have := ih (x :: seen) inj'
      simpa using this

/-! ### offsets in a pool -/

theorem entry_length_pos (enc : Bytes → Option Bytes) (s : Bytes) : 0 < (entry enc s).length := by
  simp [entry]

theorem offsetIn_append_of_mem (enc : Bytes → Option Bytes) : ∀ (ks more : List Bytes) (s : Bytes),
    s ∈ ks → offsetIn enc (ks ++ more) s = offsetIn enc ks s := by
  intro ks
  induction ks with
  | nil => intro _ _ h; cases h
  | cons x xs ih =>
    intro more s h
    simp only [List.cons_append, offsetIn]
    by_cases hx : x = s
    · simp [hx]
    · rw [if_neg hx, if_neg hx, ih more s (by rcases List.mem_cons.mp h with rfl | h; exact absurd rfl hx; exact h)]

theorem offsetIn_append_of_not_mem (enc : Bytes → Option Bytes) : ∀ (ks more : List Bytes) (s : Bytes),
    s ∉ ks → offsetIn enc (ks ++ more) s = (ks.flatMap (entry enc)).length + offsetIn enc more s := by
  intro ks
  induction ks with
  | nil => intro _ _ _; simp
  | cons x xs ih =>
    intro more s h
    have hx : ¬ x = s := fun e => h (by simp [e])
    have hs : s ∉ xs := fun e => h (by simp [e])
    simp only [List.cons_append, offsetIn, if_neg hx, ih more s hs, List.flatMap_cons, List.length_append]
    omega

theorem offsetIn_inj (enc : Bytes → Option Bytes) : ∀ (ks : List Bytes) (s t : Bytes),
    s ∈ ks → t ∈ ks → offsetIn enc ks s = offsetIn enc ks t → s = t := by
  intro ks
  induction ks with
  | nil => intro _ _ h; cases h
  | cons x xs ih =>
    intro s t hs ht h
    simp only [offsetIn] at h
    have hp := entry_length_pos enc x
    by_cases hxs : x = s <;> by_cases hxt : x = t
    · exact hxs.symm.trans hxt
    · rw [if_pos hxs, if_neg hxt] at h; omega
    · rw [if_neg hxs, if_pos hxt] at h; omega
    · rw [if_neg hxs, if_neg hxt] at h
      apply ih s t _ _ (by omega)
      · rcases List.mem_cons.mp hs with rfl | h'; exact absurd rfl hxs; exact h'
      · rcases List.mem_cons.mp ht with rfl | h'; exact absurd rfl hxt; exact h'

/-- The encoded string sits NUL-terminated at its offset in the pool. -/
theorem strAt_pool (enc : Bytes → Option Bytes) : ∀ (ks : List Bytes) (s b : Bytes),
    s ∈ ks → enc s = some b → Spec.Image.StrAt (ks.flatMap (entry enc)) (offsetIn enc ks s) b := by
  intro ks
  induction ks with
  | nil => intro _ _ h; cases h
  | cons x xs ih =>
    intro s b hs hb
    simp only [List.flatMap_cons, offsetIn]
    by_cases hx : x = s
    · subst hx
      rw [if_pos rfl]
      have : entry enc x = b ++ [0] := by simp [entry, hb]
      rw [this, List.append_assoc]
      exact strAt_zero b _
    · rw [if_neg hx]
      apply (strAt_append_right _ _ _ _).mpr
      exact ih s b (by rcases List.mem_cons.mp hs with rfl | h'; exact absurd rfl hx; exact h') hb

/-! ### the pool as a function of the strings stored so far -/

def addKey (ks : List Str) (s : Str) : List Str := if s ∈ ks then ks else ks ++ [s]

def addKeys (ks ss : List Str) : List Str := ss.foldl addKey ks

def poolOf (enc : Bytes → Option Bytes) (ks : List Str) : TextPool :=
  ⟨ks.flatMap (entry enc), ks.map (fun s => (s, offsetIn enc ks s))⟩

theorem addKeys_eq : ∀ (ss ks : List Str), addKeys ks ss = ks ++ dedupAux ks ss := by
  intro ss
  induction ss with
  | nil => intro ks; simp [addKeys, dedupAux]
  | cons s ss ih =>
    intro ks
    simp only [addKeys, List.foldl_cons, dedupAux] at ih ⊢
    by_cases hs : s ∈ ks
    · simp only [addKey, if_pos hs]; exact ih ks
    · simp only [addKey, if_neg hs]
      rw [ih (ks ++ [s]), List.append_assoc]
      congr 1
      simp only [List.singleton_append]
      congr 1
      apply dedupAux_congr
      intro x; simp [or_comm]

theorem addKeys_nil (ss : List Str) : addKeys [] ss = dedup ss := by
  rw [addKeys_eq]; rfl

theorem addKeys_append (ks ss₁ ss₂ : List Str) : addKeys ks (ss₁ ++ ss₂) = addKeys (addKeys ks ss₁) ss₂ := by
  simp [addKeys, List.foldl_append]

theorem mem_addKeys (ks ss : List Str) (x : Str) : x ∈ addKeys ks ss ↔ x ∈ ks ∨ x ∈ ss := by
  rw [addKeys_eq, List.mem_append, mem_dedupAux]
  by_cases h : x ∈ ks <;> simp [h]

theorem offsetIn_addKeys (enc : Bytes → Option Bytes) (ks ss : List Str) (s : Str) (h : s ∈ ks) :
    offsetIn enc (addKeys ks ss) s = offsetIn enc ks s := by
  rw [addKeys_eq]; exact offsetIn_append_of_mem enc ks _ s h

theorem get_map_self {β : Type} (f : Str → β) : ∀ (ks : List Str) (s : Str),
    UMap.get (ks.map (fun x => (x, f x))) s = if s ∈ ks then some (f s) else none := by
  intro ks
  induction ks with
  | nil => intro s; simp [UMap.get]
  | cons x xs ih =>
    intro s
    simp only [UMap.get, List.map_cons, List.find?_cons] at ih ⊢
    by_cases hx : x = s
    · subst hx; simp
    · simp only [hx, decide_false]
      rw [ih s]
      have : s ≠ x := fun e => hx e.symm
      simp [this]

/-- One `add_text` on a pool of distinct strings. -/
theorem addText_poolOf (c : Codec) (ks : List Str) (s b : Str) (hb : c.enc s = some b) :
    addText c (poolOf c.enc ks) s =
      .ok (poolOf c.enc (addKey ks s), offsetIn c.enc (addKey ks s) s) := by
  unfold addText
  simp only [poolOf]
  rw [get_map_self]
  by_cases hs : s ∈ ks
  · simp [hs, addKey]
  · rw [if_neg hs]
    simp only [hb, addKey, if_neg hs]
    congr 1
    have e1 : entry c.enc s = b ++ [0] := by simp [entry, hb]
    have e2 : offsetIn c.enc (ks ++ [s]) s = (ks.flatMap (entry c.enc)).length := by
      rw [offsetIn_append_of_not_mem c.enc ks [s] s hs]; simp [offsetIn]
    rw [e2]
    congr 1
    congr 1
    · simp [List.flatMap_append, e1]
    · rw [List.map_append]
      congr 1
      · apply List.map_congr_left
        intro x hx
        rw [offsetIn_append_of_mem c.enc ks [s] x hx]
      · simp [e2]

/-- **A loop around `add_text`.**  `step` adds `key x` and updates the rest of the state with
the offset; under an invariant that keeps the remaining work total, the loop equals a pure fold
that uses the offsets of the *final* pool. -/
theorem fold_addText {σ ι : Type} (c : Codec) (key : ι → Str) (g : σ → ι → Nat → σ)
    (Inv : σ → Prop) (P : ι → Prop) (step : TextPool × σ → ι → Res (TextPool × σ))
    (hstep : ∀ tp s x tp' off, Inv s → P x → addText c tp (key x) = .ok (tp', off) →
      step (tp, s) x = .ok (tp', g s x off))
    (hinv : ∀ s x off, Inv s → P x → Inv (g s x off)) :
    ∀ (xs : List ι) (ks : List Str) (s : σ), Inv s → (∀ x ∈ xs, P x) →
      (∀ x ∈ xs, ∃ b, c.enc (key x) = some b) →
      xs.foldlM step (poolOf c.enc ks, s) =
        .ok (poolOf c.enc (addKeys ks (xs.map key)),
             xs.foldl (fun s x => g s x (offsetIn c.enc (addKeys ks (xs.map key)) (key x))) s) := by
  intro xs
  induction xs with
  | nil => intro ks s _ _ _; rfl
  | cons x xs ih =>
    intro ks s hI hP henc
    obtain ⟨b, hb⟩ := henc x (by simp)
    have hPx := hP x (by simp)
    rw [List.foldlM_cons, hstep _ s x _ _ hI hPx (addText_poolOf c ks (key x) b hb)]
    show xs.foldlM step _ = _
    rw [ih (addKey ks (key x)) _ (hinv s x _ hI hPx) (fun y hy => hP y (by simp [hy]))
      (fun y hy => henc y (by simp [hy]))]
    have hk : addKeys ks ((x :: xs).map key) = addKeys (addKey ks (key x)) (xs.map key) := by
      simp [addKeys]
    have hmem : key x ∈ addKey ks (key x) := by
      unfold addKey; by_cases h : key x ∈ ks <;> simp [h]
    rw [hk, List.foldl_cons, offsetIn_addKeys c.enc _ _ _ hmem]

/-! ### grouping string pointers by offset (`ptr_data_pairs`) -/

/-- Group the values by key, keys in order of first use, values in order. -/
def groupsOf (items : List (Nat × Nat)) : List (Nat × List Nat) :=
  (dedup (items.map (·.1))).map (fun k => (k, (items.filter (fun it => it.1 = k)).map (·.2)))

theorem pushGroup_groupsOf (items : List (Nat × Nat)) (k v : Nat) :
    pushGroup (groupsOf items) k v = groupsOf (items ++ [(k, v)]) := by
  unfold pushGroup groupsOf
  rw [List.map_append, List.map_cons, List.map_nil, dedup_append_singleton]
  by_cases hk : k ∈ items.map (·.1)
  · have hany : ((dedup (items.map (·.1))).map
        (fun k => (k, (items.filter (fun it => it.1 = k)).map (·.2)))).any (fun g => g.1 = k) = true := by
      rw [List.any_eq_true]
      exact ⟨(k, _), List.mem_map.mpr ⟨k, (mem_dedup _ _).mpr hk, rfl⟩, by simp⟩
    rw [if_pos hany, if_pos hk, List.map_map]
    apply List.map_congr_left
    intro k' _
    simp only [Function.comp]
    by_cases hkk : k' = k
    · subst hkk; simp [List.filter_append]
    · have : ¬ k = k' := fun e => hkk e.symm
      simp [hkk, List.filter_append, this]
  · have hany : ((dedup (items.map (·.1))).map
        (fun k => (k, (items.filter (fun it => it.1 = k)).map (·.2)))).any (fun g => g.1 = k) = false := by
      rw [List.any_eq_false]
      intro g hg
      obtain ⟨k', hk', rfl⟩ := List.mem_map.mp hg
      have : k' ≠ k := fun e => hk (e ▸ (mem_dedup _ _).mp hk')
      simpa using this
    rw [hany, if_neg hk]
    simp only [Bool.false_eq_true, if_false, List.map_append, List.map_cons, List.map_nil]
    congr 1
    · apply List.map_congr_left
      intro k' hk'
      have : ¬ k = k' := fun e => hk (e ▸ (mem_dedup _ _).mp hk')
      simp [List.filter_append, this]
    · have : items.filter (fun it => it.1 = k) = [] := by
        rw [List.filter_eq_nil_iff]
        intro it hit
        have : it.1 ≠ k := fun e => hk (e ▸ List.mem_map_of_mem hit)
        simpa using this
      simp [List.filter_append, this]

theorem foldl_pushGroup_aux : ∀ (items pre : List (Nat × Nat)),
    items.foldl (fun gr it => pushGroup gr it.1 it.2) (groupsOf pre) = groupsOf (pre ++ items) := by
  intro items
  induction items with
  | nil => intro pre; simp
  | cons x xs ih =>
    intro pre
    rw [List.foldl_cons, pushGroup_groupsOf, ih]
    simp

theorem foldl_pushGroup (items : List (Nat × Nat)) :
    items.foldl (fun gr it => pushGroup gr it.1 it.2) [] = groupsOf items := by
  have := foldl_pushGroup_aux items []
  simpa [groupsOf, dedup, dedupAux] using this

end Mila.Ser
