/-
C05, part 2: re-serialisation never produces the `panic` outcome.

* `BinArchive.serialize`, `Asset.serialize`, `Fe9Arc.serialize`: for **every** value (and codec).
* `TextArchive.serialize`: for every value, given that the data stage does not panic
  (`Props.C06.buildData_no_panic` supplies that).
* `Aset.serialize`: for every file without an empty set — the Rust indexes `set[0]`
  (aset.rs:472), which the model transcribes as a `panic` on an empty set; the reader only produces
  sets of 257 entries (`ParsersTotal.aset_fromArchive_shape`).
-/
import MilaModel.Lemmas.ParsersTotal
import MilaModel.Model.Fe9Arc

namespace Mila.ParsersLemmas
open Mila BinArchive

/-! ### `BinArchive::serialize` -/

@[simp] theorem addText_total (c : Codec) (tp : TextPool) (s : Str) : addText c tp s ≠ .panic := by
  unfold addText; total_tac

@[simp] theorem patchWord_total (e : Endian) (d : Bytes) (at_ v : Nat) : patchWord e d at_ v ≠ .panic := by
  unfold patchWord; split <;> simp

@[simp] theorem cstringStep_total (c : Codec) (n : Nat) (st : TextPool × List (Nat × Nat))
    (p : Str × List Nat) : cstringStep c n st p ≠ .panic := by
  unfold cstringStep; total_tac

@[simp] theorem labelStep_total (c : Codec) (st : TextPool × List Nat) (al : Nat × Str) :
    labelStep c st al ≠ .panic := by
  unfold labelStep; total_tac

@[simp] theorem textStep_total (c : Codec) (e : Endian) (ts : Nat)
    (st : TextPool × Bytes × List (Nat × List Nat)) (p : Nat × Str) : textStep c e ts st p ≠ .panic := by
  unfold textStep; total_tac

theorem serializeTail_total (c : Codec) (e : Endian) (data0 rawCStrings : Bytes)
    (pointers : List (Nat × Nat)) (labels : UMap Nat (List Str)) (text : UMap Nat Str) :
    serializeTail c e data0 rawCStrings pointers labels text ≠ .panic := by
  unfold serializeTail
  split
  · split
    · simp only []
      split
      · simp
      · simp
      · rename_i h; exact absurd h (foldlM_ne_panic _ (textStep_total c e _) _ _)
    · simp
    · rename_i h; exact absurd h (foldlM_ne_panic _ (labelStep_total c) _ _)
  · simp
  · rename_i h
    exact absurd h (foldlM_ne_panic (fun d (p : Nat × Nat) => patchWord e d p.1 p.2)
      (fun d p => patchWord_total e d p.1 p.2) _ _)

/-- `BinArchive::serialize` returns bytes or an error (`EncodingFailed`, a pointer cell outside
the data) for **every** archive value and codec — it never panics. -/
theorem bin_serialize_total (c : Codec) (a : BinArchive) : BinArchive.serialize c a ≠ .panic := by
  unfold BinArchive.serialize
  split
  · exact serializeTail_total _ _ _ _ _ _ _
  · simp
  · rename_i h; exact absurd h (foldlM_ne_panic _ (cstringStep_total c _) _ _)

/-! ### `TextArchive::serialize` -/

section text
open TextArchive

@[simp] theorem writeLabel_total (a : BinArchive) (x : Nat) (v : Str) : a.writeLabel x v ≠ .panic :=
  writeLabel_ne_panic a x v

@[simp] theorem text_writeLabels_total (a : BinArchive) (info : List (Str × Nat)) :
    TextArchive.writeLabels a info ≠ .panic := by
  fun_induction TextArchive.writeLabels a info <;> simp_all

theorem text_buildArchive_total (c : Codec) (t : TextArchive) (h : buildData c t ≠ .panic) :
    buildArchive c t ≠ .panic := by
  unfold buildArchive
  split
  · simp only []
    split
    · simp
    · simp
    · rename_i hp
      split at hp
      · simp at hp
      · exact absurd hp (writeBytes_ne_panic _ _ _)
  · simp
  · rename_i hp; exact absurd hp h

theorem text_serialize_total (c : Codec) (t : TextArchive) (h : buildData c t ≠ .panic) :
    TextArchive.serialize c t ≠ .panic := by
  unfold TextArchive.serialize
  split
  · exact bin_serialize_total _ _
  · simp
  · rename_i hp; exact absurd hp (text_buildArchive_total c t h)

end text

/-! ### stream writer calls -/

theorem wstep_ne_panic (w : Writer) (width : Nat) (call : BinArchive → Nat → Res BinArchive)
    (h : ∀ a p, call a p ≠ .panic) : w.step width call ≠ .panic := by
  unfold Writer.step; split <;> simp_all

@[simp] theorem writer_writeU32 (w : Writer) (v : Nat) : w.writeU32 v ≠ .panic :=
  wstep_ne_panic _ _ _ (fun a p => writeUInt_ne_panic a p 4 v)

@[simp] theorem writer_writeString (w : Writer) (v : Option Str) : w.writeString v ≠ .panic :=
  wstep_ne_panic _ _ _ (fun a p => writeString_ne_panic a p v)

@[simp] theorem writer_writeLabel (w : Writer) (v : Str) : w.writeLabel v ≠ .panic :=
  wstep_ne_panic _ _ _ (fun a p => writeLabel_ne_panic a p v)

@[simp] theorem writer_writeBytes (w : Writer) (v : Bytes) : (w.writeBytes v).2 ≠ .panic := by
  unfold Writer.writeBytes
  have := writeBytes_ne_panic w.archive w.pos v
  split
  · simp
  · split <;> simp_all

@[simp] theorem writeUInt_total (a : BinArchive) (x w v : Nat) : a.writeUInt x w v ≠ .panic :=
  writeUInt_ne_panic a x w v

@[simp] theorem writeString_total (a : BinArchive) (x : Nat) (v : Option Str) : a.writeString x v ≠ .panic :=
  writeString_ne_panic a x v

/-! ### `ASetFile::serialize` -/

section aset
open Aset

@[simp] theorem writeSlots_total (set : List (Option Str)) (i n j : Nat) (w : Writer) :
    writeSlots set i n j w ≠ .panic := by
  fun_induction writeSlots set i n j w <;> simp_all

@[simp] theorem writeGroups_total (set : List (Option Str)) (fl : List Nat) (i : Nat) (w : Writer) :
    writeGroups set fl i w ≠ .panic := by
  fun_induction writeGroups set fl i w <;> simp_all

@[simp] theorem writeSetBody_total (set : List (Option Str)) (w : Writer) : writeSetBody set w ≠ .panic := by
  unfold writeSetBody; total_tac

/-- One set is written without panicking **provided it is not empty** (`&set[0]`, aset.rs:472). -/
theorem writeSet_total (w : Writer) (set : List (Option Str)) (h : set ≠ []) : writeSet w set ≠ .panic := by
  unfold writeSet
  simp only []
  split
  · rename_i h0
    cases set with
    | nil => exact absurd rfl h
    | cons x xs => simp at h0
  · simp
  · total_tac

/-- The model does transcribe the `set[0]` panic: an empty set makes `writeSet` panic. -/
theorem writeSet_nil (w : Writer) : writeSet w [] = .panic := rfl

theorem writeSets_total (sets : List (List (Option Str))) (w : Writer) (h : ∀ s ∈ sets, s ≠ []) :
    writeSets sets w ≠ .panic := by
  fun_induction writeSets sets w
  · simp
  · rename_i set rest w w1 hw ih
    exact ih (fun s hs => h s (List.mem_cons_of_mem _ hs))
  · simp
  · rename_i set rest w hp
    exact absurd hp (writeSet_total w set (h set (List.mem_cons_self ..)))

@[simp] theorem writeTable_total (t : List (Option Str)) (w : Writer) : writeTable t w ≠ .panic := by
  fun_induction writeTable t w <;> simp_all

theorem aset_build_total (f : ASetFile) (h : ∀ s ∈ f.sets, s ≠ []) : Aset.build f ≠ .panic := by
  have hs := fun w => writeSets_total f.sets w h
  unfold Aset.build
  total_tac

theorem aset_serialize_total (c : Codec) (f : ASetFile) (h : ∀ s ∈ f.sets, s ≠ []) :
    Aset.serialize c f ≠ .panic := by
  unfold Aset.serialize
  split
  · exact bin_serialize_total _ _
  · simp
  · rename_i hp; exact absurd hp (aset_build_total f h)

end aset

/-! ### `AssetBinary::serialize` -/

section asset
open Asset

@[simp] theorem writeBytesR_total (w : Writer) (v : Bytes) : writeBytesR w v ≠ .panic := by
  unfold writeBytesR
  have := writer_writeBytes w v
  split
  · simp
  · simp
  · rename_i hp; rw [hp] at this; exact absurd rfl this

@[simp] theorem writeFlagStr_total (w : Writer) (v : Option Str) : writeFlagStr w v ≠ .panic := by
  unfold writeFlagStr; split <;> simp

@[simp] theorem writeColor_total (c : Bytes) (w : Writer) : writeColor c w ≠ .panic := by
  unfold writeColor; simp

@[simp] theorem writeField_total (s : AssetSpec) (w : Writer) (i : Nat) : writeField s w i ≠ .panic := by
  unfold writeField; total_tac

@[simp] theorem writeFields_total (s : AssetSpec) (is : List Nat) (w : Writer) :
    writeFields s is w ≠ .panic := by
  fun_induction writeFields s is w <;> simp_all

@[simp] theorem append_total (s : AssetSpec) (a : BinArchive) : Asset.append s a ≠ .panic := by
  unfold Asset.append; total_tac

@[simp] theorem appendAll_total (ss : List AssetSpec) (a : BinArchive) : appendAll ss a ≠ .panic := by
  fun_induction appendAll ss a <;> simp_all

theorem asset_build_total (b : AssetBinary) : Asset.build b ≠ .panic := by
  unfold Asset.build; total_tac

/-- `AssetBinary::serialize` never panics, for **every** value (the struct has a fixed set of
fields; nothing is indexed). -/
theorem asset_serialize_total (c : Codec) (b : AssetBinary) : Asset.serialize c b ≠ .panic := by
  unfold Asset.serialize
  split
  · exact bin_serialize_total _ _
  · simp
  · rename_i hp; exact absurd hp (asset_build_total b)

end asset

/-! ### `fe9_arc::serialize` -/

section pack
open Fe9Arc

theorem nameLoop_total (c : Codec) (hl : Nat) (m : Files) (rt : Bytes) (addrs : List Nat) :
    nameLoop c hl m rt addrs ≠ .panic := by
  fun_induction nameLoop c hl m rt addrs <;> simp_all

/-- The name loop produces one address per file: `text_addresses[i]` (fe9_arc.rs:95) is in range
for every `i < contents.len()` — the model's `getD` default is never used. -/
theorem nameLoop_length (c : Codec) (hl : Nat) (m : Files) (rt : Bytes) (addrs : List Nat) :
    ∀ {rt' addrs'}, nameLoop c hl m rt addrs = .ok (rt', addrs') →
      addrs'.length = addrs.length + m.length := by
  fun_induction nameLoop c hl m rt addrs
  · intro rt' addrs' h
    simp only [Res.ok.injEq, Prod.mk.injEq] at h
    rw [← h.2]; simp
  · intro rt' addrs' h; simp at h
  · rename_i ih
    intro rt' addrs' h
    rw [ih h]; simp; omega

/-- The file loop produces one `(address, size)` pair per file: `file_info[i]` (fe9_arc.rs:96-97)
is in range. -/
theorem fileLoop_length (base : Nat) (m : Files) (next : Nat) (rf : Bytes) (info : List (Nat × Nat)) :
    (fileLoop base m next rf info).2.2.length = info.length + m.length := by
  fun_induction fileLoop base m next rf info
  · simp
  · rename_i ih
    rw [ih]; simp +zetaDelta only [List.length_append, List.length_cons, List.length_nil]; omega

/-- `fe9_arc::serialize` never panics, for **every** file list and codec. -/
theorem pack_serialize_total (c : Codec) (m : Files) : Fe9Arc.serialize c m ≠ .panic := by
  unfold Fe9Arc.serialize
  simp only []
  split
  · simp
  · simp
  · rename_i hp; exact absurd hp (nameLoop_total _ _ _ _ _)

end pack

end Mila.ParsersLemmas
