/-
Helper lemmas for C15 (pack archive): big-endian words, placement of a byte string inside an
image (`At`), chunk layouts, and the closed forms of the loops of `Fe9Arc.parse` / `serialize`.
-/
import MilaModel.Model.Fe9Arc
import MilaModel.Spec.PackImage

namespace Mila.PackLemmas
open Mila Mila.Fe9Arc
open Mila.Spec.Pack (At word EntryOk ConformsPack Aligned32)

/-! ### numbers -/

theorem ofLe_leBytes (k n : Nat) : ofLe (leBytes k n) = n % 256 ^ k := by
  induction k generalizing n with
  | zero => simp [leBytes, ofLe, Nat.mod_one]
  | succ k ih =>
    simp only [leBytes, ofLe, ih]
    have : (UInt8.ofNat (n % 256)).toNat = n % 256 := by simp
    rw [this, Nat.pow_succ]
    have h := Nat.mod_mul_right_div_self n 256 (256^k)
    have := Nat.mod_mul (a := 256) (b := 256^k) (x := n)
    rw [Nat.mul_comm (256^k) 256]; omega

theorem leBytes_length (k n : Nat) : (leBytes k n).length = k := by
  induction k generalizing n with
  | zero => rfl
  | succ k ih => simp [leBytes, ih]

theorem ofBe_beBytes (k n : Nat) : ofBe (beBytes k n) = n % 256 ^ k := by
  simp [ofBe, beBytes, ofLe_leBytes]

@[simp] theorem beBytes_length (k n : Nat) : (beBytes k n).length = k := by
  simp [beBytes, leBytes_length]

/-! ### `At` and `word` -/

theorem At_mid (pre b post : Bytes) : At (pre ++ b ++ post) pre.length b := by
  refine ⟨by simp, ?_⟩
  simp [List.append_assoc]

theorem At_of_eq {img pre b post : Bytes} {off : Nat} (h : img = pre ++ b ++ post)
    (ho : off = pre.length) : At img off b := by
  subst h; subst ho; exact At_mid pre b post

theorem At_prefix {img : Bytes} {off : Nat} {x y : Bytes} (h : At img off (x ++ y)) :
    At img off x := by
  obtain ⟨h1, h2⟩ := h
  refine ⟨by simp at h1; omega, ?_⟩
  have := congrArg (List.take x.length) h2
  simpa [List.take_take, Nat.min_eq_left (Nat.le_add_right _ _)] using this

theorem At_suffix {img : Bytes} {off : Nat} {x y : Bytes} (h : At img off (x ++ y)) :
    At img (off + x.length) y := by
  obtain ⟨h1, h2⟩ := h
  refine ⟨by simp at h1; omega, ?_⟩
  have := congrArg (List.drop x.length) h2
  simp only [List.length_append, List.drop_left] at this
  rw [← this, List.drop_take, ← List.drop_drop]
  simp

theorem word_of_At {img : Bytes} {off : Nat} {b : Bytes} (h : At img off b) :
    word img off b.length = some (ofBe b) := by
  obtain ⟨h1, h2⟩ := h
  simp [word, h1, h2]

theorem At_drop {img : Bytes} {off : Nat} {b : Bytes} (h : At img off b) :
    img.drop off = b ++ (img.drop off).drop b.length := by
  have := List.take_append_drop b.length (img.drop off)
  rw [h.2] at this; exact this.symm

/-- `readBe` is the specification's `word` plus the cursor movement. -/
theorem readBe_eq (raw : Bytes) (pos k : Nat) :
    readBe raw pos k = match word raw pos k with
      | some v => .ok (v, pos + k)
      | none => .err .Eof := by
  unfold readBe word; split <;> simp_all

/-! ### parse -/

theorem cstrBytes_append {b : Bytes} (h : (0 : UInt8) ∉ b) (rest : Bytes) :
    cstrBytes (b ++ 0 :: rest) = some b := by
  induction b with
  | nil => simp [cstrBytes]
  | cons x xs ih =>
    have hx : x ≠ 0 := by intro e; apply h; simp [e]
    have hxs : (0 : UInt8) ∉ xs := by intro e; apply h; simp [e]
    simp [cstrBytes, hx, ih hxs]

theorem sjisAt_of_At {c : Codec} {img : Bytes} {off : Nat} {b : Bytes} (h0 : (0 : UInt8) ∉ b)
    (h : At img off (b ++ [0])) : sjisAt c img off = .ok (c.dec b) := by
  unfold sjisAt
  rw [At_drop h, List.append_assoc]
  simp [cstrBytes_append h0]

/-- The record the parser reads at `pos` (all three words; defaults never used when in range). -/
def entryOf (img : Bytes) (pos : Nat) : Entry :=
  ⟨(word img (pos + 4) 4).getD 0, (word img (pos + 4 + 4) 4).getD 0,
   (word img (pos + 4 + 4 + 4) 4).getD 0⟩

theorem readEntry_ok {img : Bytes} {pos : Nat} (h : pos + 16 ≤ img.length) :
    readEntry img pos = .ok (entryOf img pos, pos + 16) := by
  have h1 : pos + 4 ≤ img.length := by omega
  have h2 : pos + 4 + 4 ≤ img.length := by omega
  have h3 : pos + 4 + 4 + 4 ≤ img.length := by omega
  have h4 : pos + 4 + 4 + 4 + 4 ≤ img.length := by omega
  simp [readEntry, readBe, entryOf, word, h1, h2, h3, h4]

theorem readEntries_ok (img : Bytes) : ∀ (n k : Nat), (n = 0 ∨ 8 + 16 * (k + n) ≤ img.length) →
    readEntries img n (8 + 16 * k) =
      .ok ((List.range' k n).map (fun i => entryOf img (8 + 16 * i))) := by
  intro n
  induction n with
  | zero => intro k _; simp [readEntries]
  | succ n ih =>
    intro k hb
    have hb' : 8 + 16 * (k + (n + 1)) ≤ img.length := by omega
    have hr := readEntry_ok (img := img) (pos := 8 + 16 * k) (by omega)
    have hpos : 8 + 16 * k + 16 = 8 + 16 * (k + 1) := by omega
    rw [hpos] at hr
    have := ih (k + 1) (by right; omega)
    simp [readEntries, hr, this, List.range'_succ]

theorem imInsert_fresh (acc : Files) (k : Str) (v : Bytes) (h : k ∉ acc.map (·.1)) :
    imInsert acc k v = acc ++ [(k, v)] := by
  unfold imInsert
  have : acc.any (fun p => decide (p.1 = k)) = false := by
    rw [List.any_eq_false]; intro p hp; simp; intro e; apply h; simp; exact ⟨p.2, by rw [← e]; exact hp⟩
  simp [this]

theorem readFiles_ok {c : Codec} {D : Str → Prop} (hf : c.Faithful D) (img : Bytes) :
    ∀ (kvs : Files) (k : Nat) (acc : Files),
      (∀ i, (h : i < kvs.length) → EntryOk c.enc img (k + i) kvs[i]) →
      (∀ kv ∈ kvs, D kv.1) →
      ((acc ++ kvs).map (·.1)).Nodup →
      readFiles c img acc ((List.range' k kvs.length).map (fun i => entryOf img (8 + 16 * i)))
        = .ok (acc ++ kvs) := by
  intro kvs
  induction kvs with
  | nil => intro k acc _ _ _; simp [readFiles]
  | cons kv rest ih =>
    intro k acc hE hD hN
    have h0 := hE 0 (by simp)
    simp only [Nat.add_zero, List.getElem_cons_zero] at h0
    unfold EntryOk at h0
    split at h0
    · rename_i na fa sz b hna hfa hsz hb
      obtain ⟨hsize, hname, hbody⟩ := h0
      obtain ⟨b', hb', hz, hdec⟩ := hf kv.1 (hD kv (by simp))
      have hbb : b = b' := by rw [hb'] at hb; exact (Option.some.inj hb).symm
      subst hbb
      have e1 : 8 + 16 * k + 4 + 4 = 8 + 16 * k + 8 := by omega
      have e2 : 8 + 16 * k + 4 + 4 + 4 = 8 + 16 * k + 12 := by omega
      have hent : entryOf img (8 + 16 * k) = ⟨na, fa, sz⟩ := by
        simp [entryOf, e1, e2, hna, hfa, hsz]
      have hfresh : kv.1 ∉ acc.map (·.1) := by
        intro hmem
        rw [List.map_append, List.nodup_append] at hN
        exact hN.2.2 _ hmem _ (by simp) rfl
      have hstep : readFile c img acc ⟨na, fa, sz⟩ = .ok (acc ++ [kv]) := by
        unfold readFile
        simp only [sjisAt_of_At hz hname, hdec]
        have hle : fa + sz ≤ img.length := by rw [hsize]; exact hbody.1
        simp only [hle, if_true]
        rw [hsize, hbody.2, imInsert_fresh acc kv.1 kv.2 hfresh]
      have hrest := ih (k + 1) (acc ++ [kv])
        (fun i h => by
          have := hE (i + 1) (by simp; omega)
          simpa [Nat.add_assoc, Nat.add_comm 1 i] using this)
        (fun x hx => hD x (by simp [hx]))
        (by simpa [List.append_assoc] using hN)
      simp only [List.length_cons, List.range'_succ, List.map_cons, readFiles, hent, hstep]
      rw [hrest]; simp [List.append_assoc]
    · exact absurd h0 id

/-! ### chunk layouts -/

/-- Start offsets of consecutive chunks laid out from `s`. -/
def offsFrom : Nat → List Bytes → List Nat
  | _, [] => []
  | s, t :: ts => s :: offsFrom (s + t.length) ts

@[simp] theorem offsFrom_length (s : Nat) (cs : List Bytes) : (offsFrom s cs).length = cs.length := by
  induction cs generalizing s with
  | nil => rfl
  | cons t ts ih => simp [offsFrom, ih]

/-- Chunk `i` of a flattened chunk list sits at its offset, whatever precedes and follows. -/
theorem At_flatten_offs (post : Bytes) : ∀ (cs : List Bytes) (pre : Bytes) (i o : Nat) (ch : Bytes),
    (offsFrom pre.length cs)[i]? = some o → cs[i]? = some ch →
    At (pre ++ cs.flatten ++ post) o ch := by
  intro cs
  induction cs with
  | nil => intro pre i o ch h; simp [offsFrom] at h
  | cons t ts ih =>
    intro pre i o ch ho hc
    cases i with
    | zero =>
      simp [offsFrom] at ho hc
      subst ho; subst hc
      exact At_of_eq (post := ts.flatten ++ post) (by simp [List.append_assoc]) rfl
    | succ i =>
      simp only [offsFrom, List.getElem?_cons_succ] at ho hc
      have := ih (pre ++ t) i o ch (by simpa using ho) hc
      simpa [List.append_assoc] using this

theorem offsFrom_const {w : Nat} : ∀ (cs : List Bytes) (s i : Nat), (∀ c ∈ cs, c.length = w) →
    i < cs.length → (offsFrom s cs)[i]? = some (s + w * i) := by
  intro cs
  induction cs with
  | nil => intro s i _ h; simp at h
  | cons t ts ih =>
    intro s i hw hi
    cases i with
    | zero => simp [offsFrom]
    | succ i =>
      simp only [offsFrom, List.getElem?_cons_succ]
      rw [ih (s + t.length) i (fun c hc => hw c (by simp [hc])) (by simpa using hi)]
      rw [hw t (by simp)]
      congr 1
      rw [Nat.mul_succ]; omega

theorem offsFrom_mod32 : ∀ (cs : List Bytes) (s : Nat), s % 32 = 0 → (∀ c ∈ cs, c.length % 32 = 0) →
    ∀ o ∈ offsFrom s cs, o % 32 = 0 := by
  intro cs
  induction cs with
  | nil => intro s _ _ o h; simp [offsFrom] at h
  | cons t ts ih =>
    intro s hs hc o ho
    simp only [offsFrom, List.mem_cons] at ho
    rcases ho with rfl | ho
    · exact hs
    · have ht := hc t (by simp)
      exact ih (s + t.length) (by omega) (fun c h => hc c (by simp [h])) o ho

/-! ### serialize: closed forms of the two loops -/

def nameChunks (encs : List Bytes) : List Bytes := encs.map (· ++ [0])

/-- The encoding of a name (used only where it exists). -/
def encOf (c : Codec) (kv : Str × Bytes) : Bytes := (c.enc kv.1).getD []

theorem nameLoop_eq {c : Codec} (hl : Nat) : ∀ (m : Files),
    (∀ kv ∈ m, c.enc kv.1 = some (encOf c kv)) →
    ∀ (rt : Bytes) (ta : List Nat), nameLoop c hl m rt ta =
      .ok (rt ++ (nameChunks (m.map (encOf c))).flatten,
           ta ++ offsFrom (hl + rt.length) (nameChunks (m.map (encOf c)))) := by
  intro m
  induction m with
  | nil => intro _ rt ta; simp [nameLoop, nameChunks, offsFrom]
  | cons kv rest ih =>
    intro h rt ta
    have hb := h kv (by simp)
    have ih' := ih (fun x hx => h x (by simp [hx]))
    simp only [nameLoop, hb, ih']
    simp [nameChunks, offsFrom, List.append_assoc, Nat.add_assoc]

/-- The padded chunks the file loop appends, given the current length of `raw_files`. -/
def fileChunks (base : Nat) : Nat → Files → List Bytes
  | _, [] => []
  | len, kv :: rest =>
    (kv.2 ++ List.replicate (padCount (base + (len + kv.2.length))) 0) ::
      fileChunks base (len + (kv.2.length + padCount (base + (len + kv.2.length)))) rest

theorem fileLoop_eq (base : Nat) : ∀ (m : Files) (rf : Bytes) (info : List (Nat × Nat)),
    (fileLoop base m (base + rf.length) rf info).2 =
      (rf ++ (fileChunks base rf.length m).flatten,
       info ++ (offsFrom (base + rf.length) (fileChunks base rf.length m)).zip (m.map (·.2.length))) := by
  intro m
  induction m with
  | nil => intro rf info; simp [fileLoop, fileChunks, offsFrom]
  | cons kv rest ih =>
    intro rf info
    simp only [fileLoop]
    have hrf : rf ++ kv.2 ++ List.replicate (padCount (base + (rf ++ kv.2).length)) 0
        = rf ++ (kv.2 ++ List.replicate (padCount (base + (rf.length + kv.2.length))) 0) := by
      simp [List.append_assoc]
    rw [hrf, ih]
    simp [fileChunks, offsFrom, List.append_assoc, Nat.add_assoc]

theorem fileChunks_length (base : Nat) : ∀ (m : Files) (len : Nat),
    (fileChunks base len m).length = m.length := by
  intro m; induction m with
  | nil => intro len; rfl
  | cons kv rest ih => intro len; simp [fileChunks, ih]

theorem fileChunks_mod32 (base : Nat) (hb : base % 32 = 0) : ∀ (m : Files) (len : Nat),
    len % 32 = 0 → ∀ ch ∈ fileChunks base len m, ch.length % 32 = 0 := by
  intro m; induction m with
  | nil => intro len _ ch h; simp [fileChunks] at h
  | cons kv rest ih =>
    intro len hl ch hch
    simp only [fileChunks, List.mem_cons] at hch
    rcases hch with rfl | hch
    · simp [padCount]; omega
    · exact ih _ (by simp [padCount]; omega) ch hch

/-- Chunk `i` starts with the body of file `i`. -/
theorem fileChunks_prefix (base : Nat) : ∀ (m : Files) (len i : Nat) (ch : Bytes),
    (fileChunks base len m)[i]? = some ch → ∃ kv pad, m[i]? = some kv ∧ ch = kv.2 ++ pad := by
  intro m; induction m with
  | nil => intro len i ch h; simp [fileChunks] at h
  | cons kv rest ih =>
    intro len i ch h
    cases i with
    | zero => simp [fileChunks] at h; exact ⟨kv, _, by simp, h.symm⟩
    | succ i => simp only [fileChunks, List.getElem?_cons_succ] at h; simpa using ih _ i ch h

/-! ### serialize: explicit image -/

def hlOf (m : Files) : Nat := 8 + m.length * 0x10
def ncOf (c : Codec) (m : Files) : List Bytes := nameChunks (m.map (encOf c))
def rtpOf (c : Codec) (m : Files) : Bytes :=
  (ncOf c m).flatten ++ List.replicate (padCount (hlOf m + (ncOf c m).flatten.length)) 0
def baseOf (c : Codec) (m : Files) : Nat := hlOf m + (rtpOf c m).length
def fcOf (c : Codec) (m : Files) : List Bytes := fileChunks (baseOf c m) 0 m
def taOf (c : Codec) (m : Files) : List Nat := offsFrom (hlOf m) (ncOf c m)
def faOf (c : Codec) (m : Files) : List Nat := offsFrom (baseOf c m) (fcOf c m)
def fiOf (c : Codec) (m : Files) : List (Nat × Nat) := (faOf c m).zip (m.map (·.2.length))
def recsOf (c : Codec) (m : Files) : List Bytes :=
  (List.range m.length).map (fun i => entryBytes ((taOf c m).getD i 0) ((fiOf c m).getD i (0, 0)))
def headOf (m : Files) : Bytes := beBytes 4 MAGIC ++ beBytes 2 (m.length % 2 ^ 16) ++ [0, 0]
def imageOf (c : Codec) (m : Files) : Bytes :=
  headOf m ++ (recsOf c m).flatten ++ rtpOf c m ++ (fcOf c m).flatten

theorem serialize_eq {c : Codec} (m : Files) (henc : ∀ kv ∈ m, c.enc kv.1 = some (encOf c kv)) :
    serialize c m = .ok (imageOf c m) := by
  unfold serialize
  simp only [nameLoop_eq _ m henc, List.nil_append, List.length_nil, Nat.add_zero]
  have h := fileLoop_eq (baseOf c m) m [] []
  simp only [List.length_nil, Nat.add_zero, List.nil_append] at h
  rcases hfl : fileLoop (baseOf c m) m (baseOf c m) [] [] with ⟨nx, rfs, fis⟩
  rw [hfl] at h
  have h1 : rfs = (fcOf c m).flatten := (Prod.mk.inj h).1
  have h2 : fis = fiOf c m := (Prod.mk.inj h).2
  have hb : 8 + m.length * 16 + ((nameChunks (m.map (encOf c))).flatten ++
      List.replicate (padCount (8 + m.length * 16 + (nameChunks (m.map (encOf c))).flatten.length)) 0).length
      = baseOf c m := rfl
  simp only [hb, hfl, h1, h2]
  rfl

theorem entryBytes_length (ta : Nat) (fi : Nat × Nat) : (entryBytes ta fi).length = 16 := by
  simp [entryBytes]

theorem flatten_length_const {w : Nat} : ∀ (cs : List Bytes), (∀ c ∈ cs, c.length = w) →
    cs.flatten.length = w * cs.length := by
  intro cs; induction cs with
  | nil => simp
  | cons t ts ih =>
    intro h
    simp [h t (by simp), ih (fun c hc => h c (by simp [hc])), Nat.mul_succ]; omega

theorem recsOf_length (c : Codec) (m : Files) : (recsOf c m).length = m.length := by simp [recsOf]

theorem recs_flatten_length (c : Codec) (m : Files) : (recsOf c m).flatten.length = 16 * m.length := by
  rw [flatten_length_const (w := 16) (recsOf c m), recsOf_length]
  intro r hr; simp only [recsOf, List.mem_map] at hr
  obtain ⟨i, _, rfl⟩ := hr; exact entryBytes_length _ _

theorem headOf_length (m : Files) : (headOf m).length = 8 := by simp [headOf]

theorem baseOf_mod32 (c : Codec) (m : Files) : baseOf c m % 32 = 0 := by
  simp only [baseOf, rtpOf, List.length_append, List.length_replicate, padCount]; omega

/-- The three words of a record, as the specification's `word` reads them. -/
theorem word_entry {img : Bytes} {off ta fa sz : Nat} (h : At img off (entryBytes ta (fa, sz))) :
    word img (off + 4) 4 = some (ta % 2 ^ 32) ∧ word img (off + 8) 4 = some (fa % 2 ^ 32) ∧
    word img (off + 12) 4 = some (sz % 2 ^ 32) := by
  unfold entryBytes at h
  have h3 := At_suffix h
  have h2 := At_suffix (At_prefix h)
  have h1 := At_suffix (At_prefix (At_prefix h))
  have w1 := word_of_At h1
  have w2 := word_of_At h2
  have w3 := word_of_At h3
  simp only [List.length_append, List.length_cons, List.length_nil, beBytes_length, ofBe_beBytes] at w1 w2 w3
  have e : (256 : Nat) ^ 4 = 2 ^ 32 := by decide
  simp only [e, Nat.mod_mod] at w1 w2 w3
  exact ⟨w1, w2, w3⟩

theorem ncOf_length (c : Codec) (m : Files) : (ncOf c m).length = m.length := by
  simp [ncOf, nameChunks]

theorem fcOf_length (c : Codec) (m : Files) : (fcOf c m).length = m.length := by
  simp [fcOf, fileChunks_length]

/-- Where record `i`, name `i` and body `i` sit in the built image. -/
theorem entry_facts (c : Codec) (m : Files) (i : Nat) (hi : i < m.length) :
    ∃ ta fa, fa % 32 = 0 ∧
      At (imageOf c m) (8 + 16 * i) (entryBytes ta (fa, m[i].2.length)) ∧
      At (imageOf c m) ta (encOf c m[i] ++ [0]) ∧
      At (imageOf c m) fa m[i].2 := by
  have hta : (taOf c m)[i]? = some ((taOf c m)[i]'(by simp [taOf, ncOf_length, hi])) :=
    List.getElem?_eq_getElem _
  have hfa : (faOf c m)[i]? = some ((faOf c m)[i]'(by simp [faOf, fcOf_length, hi])) :=
    List.getElem?_eq_getElem _
  generalize (taOf c m)[i]'(by simp [taOf, ncOf_length, hi]) = ta at hta
  generalize hfaeq : (faOf c m)[i]'(by simp [faOf, fcOf_length, hi]) = fa at hfa
  refine ⟨ta, fa, ?_, ?_, ?_, ?_⟩
  · -- alignment
    have hmem : fa ∈ faOf c m := by rw [← hfaeq]; exact List.getElem_mem _
    exact offsFrom_mod32 (fcOf c m) (baseOf c m) (baseOf_mod32 c m)
      (fileChunks_mod32 _ (baseOf_mod32 c m) m 0 rfl) fa hmem
  · -- the record
    have hfi : (fiOf c m)[i]? = some (fa, m[i].2.length) := by
      rw [fiOf, List.getElem?_zip_eq_some]; exact ⟨hfa, by simp [hi]⟩
    have hrec : (recsOf c m)[i]? = some (entryBytes ta (fa, m[i].2.length)) := by
      simp [recsOf, List.getElem?_map, List.getElem?_range hi, List.getD_eq_getElem?_getD, hta, hfi]
    have hoff : (offsFrom (headOf m).length (recsOf c m))[i]? = some (8 + 16 * i) := by
      rw [headOf_length]
      refine offsFrom_const (recsOf c m) 8 i ?_ (by rw [recsOf_length]; exact hi)
      intro r hr; simp only [recsOf, List.mem_map] at hr
      obtain ⟨j, _, rfl⟩ := hr; exact entryBytes_length _ _
    have := At_flatten_offs (rtpOf c m ++ (fcOf c m).flatten) (recsOf c m) (headOf m) i _ _ hoff hrec
    simpa [imageOf, List.append_assoc] using this
  · -- the name
    have hnc : (ncOf c m)[i]? = some (encOf c m[i] ++ [0]) := by
      simp [ncOf, nameChunks, hi]
    have hpre : (headOf m ++ (recsOf c m).flatten).length = hlOf m := by
      have := recs_flatten_length c m
      have := headOf_length m
      simp only [List.length_append, hlOf]; omega
    have hoff : (offsFrom (headOf m ++ (recsOf c m).flatten).length (ncOf c m))[i]? = some ta := by
      rw [hpre]; exact hta
    have := At_flatten_offs
      (List.replicate (padCount (hlOf m + (ncOf c m).flatten.length)) 0 ++ (fcOf c m).flatten)
      (ncOf c m) (headOf m ++ (recsOf c m).flatten) i _ _ hoff hnc
    simpa [imageOf, rtpOf, List.append_assoc] using this
  · -- the body
    have hpre : (headOf m ++ (recsOf c m).flatten ++ rtpOf c m).length = baseOf c m := by
      have := recs_flatten_length c m
      have := headOf_length m
      simp only [List.length_append, baseOf, hlOf]; omega
    have hch : (fcOf c m)[i]? = some ((fcOf c m)[i]'(by simp [fcOf_length, hi])) :=
      List.getElem?_eq_getElem _
    generalize (fcOf c m)[i]'(by simp [fcOf_length, hi]) = ch at hch
    obtain ⟨kv, pad, hkv, hpad⟩ := fileChunks_prefix (baseOf c m) m 0 i ch hch
    have hkv' : kv = m[i] := by
      rw [List.getElem?_eq_getElem hi] at hkv; exact (Option.some.inj hkv).symm
    subst hkv'
    have hoff : (offsFrom (headOf m ++ (recsOf c m).flatten ++ rtpOf c m).length (fcOf c m))[i]? = some fa := by
      rw [hpre]; exact hfa
    have := At_flatten_offs [] (fcOf c m) (headOf m ++ (recsOf c m).flatten ++ rtpOf c m) i _ _ hoff hch
    rw [hpad] at this
    have := At_prefix this
    simpa [imageOf, List.append_assoc] using this

theorem imageOf_conforms {c : Codec} {D : Str → Prop} (hf : c.Faithful D) (m : Files)
    (hD : ∀ kv ∈ m, D kv.1) (hlen : m.length ≤ 65535) (hsz : (imageOf c m).length < 2 ^ 32) :
    ConformsPack c.enc (imageOf c m) m ∧ Aligned32 (imageOf c m) m.length := by
  have henc : ∀ kv ∈ m, c.enc kv.1 = some (encOf c kv) := by
    intro kv hkv
    obtain ⟨b, hb, _, _⟩ := hf kv.1 (hD kv hkv)
    simp [encOf, hb]
  have hwords : ∀ i (hi : i < m.length), ∃ ta fa, fa % 32 = 0 ∧
      word (imageOf c m) (8 + 16 * i + 4) 4 = some ta ∧
      word (imageOf c m) (8 + 16 * i + 8) 4 = some fa ∧
      word (imageOf c m) (8 + 16 * i + 12) 4 = some m[i].2.length ∧
      At (imageOf c m) ta (encOf c m[i] ++ [0]) ∧ At (imageOf c m) fa m[i].2 := by
    intro i hi
    obtain ⟨ta, fa, hal, hrec, hname, hbody⟩ := entry_facts c m i hi
    obtain ⟨w1, w2, w3⟩ := word_entry hrec
    have b1 : ta < 2 ^ 32 := by have := hname.1; omega
    have b2 : fa < 2 ^ 32 := by have := hbody.1; omega
    have b3 : m[i].2.length < 2 ^ 32 := by have := hbody.1; omega
    rw [Nat.mod_eq_of_lt b1] at w1
    rw [Nat.mod_eq_of_lt b2] at w2
    rw [Nat.mod_eq_of_lt b3] at w3
    exact ⟨ta, fa, hal, w1, w2, w3, hname, hbody⟩
  refine ⟨⟨hlen, ?_, ?_, ?_⟩, ?_⟩
  · have h : At (imageOf c m) 0 (beBytes 4 MAGIC) :=
      At_of_eq (pre := []) (post := beBytes 2 (m.length % 2 ^ 16) ++ [0, 0] ++ (recsOf c m).flatten
        ++ rtpOf c m ++ (fcOf c m).flatten) (by simp [imageOf, headOf, List.append_assoc]) rfl
    have := word_of_At h
    rw [beBytes_length, ofBe_beBytes] at this
    rw [this]; rfl
  · have h : At (imageOf c m) 4 (beBytes 2 (m.length % 2 ^ 16)) :=
      At_of_eq (pre := beBytes 4 MAGIC) (post := [0, 0] ++ (recsOf c m).flatten
        ++ rtpOf c m ++ (fcOf c m).flatten) (by simp [imageOf, headOf, List.append_assoc]) (by simp)
    have := word_of_At h
    rw [beBytes_length, ofBe_beBytes] at this
    rw [this]; congr 1
    have e : (256 : Nat) ^ 2 = 2 ^ 16 := by decide
    rw [e, Nat.mod_mod, Nat.mod_eq_of_lt (by omega)]
  · intro i hi
    obtain ⟨ta, fa, _, w1, w2, w3, hname, hbody⟩ := hwords i hi
    unfold EntryOk
    simp only [w1, w2, w3, henc m[i] (List.getElem_mem hi)]
    exact ⟨trivial, hname, hbody⟩
  · intro i hi
    obtain ⟨ta, fa, hal, _, w2, _⟩ := hwords i hi
    simp only [w2]; exact hal

end Mila.PackLemmas
