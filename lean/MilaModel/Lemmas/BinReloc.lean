/-
The relocation helpers of the model (`adjust_*`, `filter_*` of `src/bin_archive.rs`) against
`Spec.Reloc`: with distinct keys each helper is exactly the spec's image of the entry list.
-/
import MilaModel.Lemmas.BinUMap
import MilaModel.Model.BinArchive
import MilaModel.Spec.Reloc

namespace Mila
open BinArchive Spec.Reloc UMap

/-! ### address functions -/

theorem adjustPointer_add (x a n : Nat) : adjustPointer x a n false = shiftAt a n x := by
  unfold adjustPointer shiftAt; simp

theorem adjustGe_add (x a n : Nat) (ge : Bool) : adjustGe x a n false ge = shiftAfter a n ge x := by
  unfold adjustGe shiftAfter
  cases ge <;> simp <;> split <;> split <;> omega

theorem inRange_eq_inside (a n x : Nat) : inRange a n x = inside a n x := by
  unfold inRange inside; rfl

theorem adjustPointer_sub (x a n : Nat) (h : inside a n x = false) :
    adjustPointer x a n true = pull a n x := by
  unfold adjustPointer pull
  simp [inside] at h
  simp
  split <;> split <;> omega

theorem adjustGe_sub (x a n : Nat) (ge : Bool) (h : inside a n x = false) :
    adjustGe x a n true ge = pull a n x := by
  unfold adjustGe pull
  simp [inside] at h
  cases ge <;> simp <;> split <;> split <;> omega

theorem shiftAt_inj (a n x y : Nat) (h : shiftAt a n x = shiftAt a n y) : x = y := by
  unfold shiftAt at h; split at h <;> split at h <;> omega

theorem shiftAfter_inj (a n : Nat) (ge : Bool) (x y : Nat) (h : shiftAfter a n ge x = shiftAfter a n ge y) :
    x = y := by
  unfold shiftAfter at h; split at h <;> split at h <;> omega

theorem pull_inj (a n x y : Nat) (hx : inside a n x = false) (hy : inside a n y = false)
    (h : pull a n x = pull a n y) : x = y := by
  unfold pull at h
  simp [inside] at hx hy
  split at h <;> split at h <;> omega

/-! ### entry lists -/

variable {ν : Type}

theorem keys_mapKey (m : UMap Nat ν) (f : Nat → Nat) :
    keys (m.map (fun p => (f p.1, p.2))) = (keys m).map f := by
  simp [keys, List.map_map, Function.comp_def]

theorem adjustText_add (m : UMap Nat ν) (a n : Nat) (h : (keys m).Nodup) :
    adjustText m a n false = m.map (fun p => (shiftAt a n p.1, p.2)) := by
  unfold adjustText
  simp only [adjustPointer_add]
  apply collect_eq_of_nodup
  have := keys_mapKey m (shiftAt a n)
  unfold keys at this
  rw [this]
  exact nodup_map_of_inj_on _ _ (fun x _ y _ => shiftAt_inj a n x y) h

theorem adjustLabels_add (m : UMap Nat ν) (a n : Nat) (ge : Bool) (h : (keys m).Nodup) :
    adjustLabels m a n false ge = m.map (fun p => (shiftAfter a n ge p.1, p.2)) := by
  unfold adjustLabels
  simp only [adjustGe_add]
  apply collect_eq_of_nodup
  have := keys_mapKey m (shiftAfter a n ge)
  unfold keys at this
  rw [this]
  exact nodup_map_of_inj_on _ _ (fun x _ y _ => shiftAfter_inj a n ge x y) h

theorem adjustPointers_add (m : UMap Nat Nat) (a n : Nat) (ge : Bool) (h : (keys m).Nodup) :
    adjustPointers m a n false ge = m.map (fun p => (shiftAt a n p.1, shiftAfter a n ge p.2)) := by
  unfold adjustPointers
  simp only [adjustPointer_add, adjustGe_add]
  apply collect_eq_of_nodup
  rw [List.map_map]
  have : ((fun p : Nat × Nat => p.1) ∘ fun p : Nat × Nat => (shiftAt a n p.1, shiftAfter a n ge p.2))
      = (shiftAt a n) ∘ (fun p => p.1) := rfl
  rw [this, ← List.map_map]
  exact nodup_map_of_inj_on _ _ (fun x _ y _ => shiftAt_inj a n x y) h

theorem adjustCStrings_eq (m : UMap Str (List Nat)) (a n : Nat) (sub : Bool) (h : (keys m).Nodup) :
    adjustCStrings m a n sub = m.map (fun p => (p.1, p.2.map (fun x => adjustPointer x a n sub))) := by
  unfold adjustCStrings
  apply collect_eq_of_nodup
  rw [List.map_map]
  exact h

theorem filterTextOrLabels_eq (m : UMap Nat ν) (a n : Nat) (h : (keys m).Nodup) :
    filterTextOrLabels m a n = m.filter (fun p => !inside a n p.1) := by
  unfold filterTextOrLabels
  simp only [inRange_eq_inside]
  exact collect_eq_of_nodup _ (keys_filter_nodup m _ h)

theorem filterPointers_eq (m : UMap Nat Nat) (a n : Nat) (h : (keys m).Nodup) :
    filterPointers m a n = m.filter (fun p => !inside a n p.1 && !inside a n p.2) := by
  unfold filterPointers
  simp only [inRange_eq_inside, Bool.not_or]
  exact collect_eq_of_nodup _ (keys_filter_nodup m _ h)

theorem filterCStrings_eq (m : UMap Str (List Nat)) (keep : Nat → Bool) (h : (keys m).Nodup) :
    filterCStrings m keep = (m.map (fun p => (p.1, p.2.filter keep))).filter (fun p => !p.2.isEmpty) := by
  unfold filterCStrings
  apply collect_eq_of_nodup
  have hk : keys (m.map (fun p => (p.1, p.2.filter keep))) = keys m := by
    simp [keys, List.map_map, Function.comp_def]
  exact keys_filter_nodup _ _ (by rw [hk]; exact h)

/-! ### deallocate: filter, then shift back -/

theorem not_inside_of_mem_filter (m : UMap Nat ν) (a n : Nat) (p : Nat × ν)
    (hp : p ∈ m.filter (fun p => !inside a n p.1)) : inside a n p.1 = false := by
  have := (List.mem_filter.mp hp).2
  simpa using this

theorem nodup_keys_pull (l : UMap Nat ν) (a n : Nat) (hl : ∀ p ∈ l, inside a n p.1 = false)
    (h : (keys l).Nodup) : (keys (l.map (fun p => (pull a n p.1, p.2)))).Nodup := by
  rw [keys_mapKey]
  apply nodup_map_of_inj_on _ _ _ h
  intro x hx y hy hxy
  unfold keys at hx hy
  rw [List.mem_map] at hx hy
  obtain ⟨p, hp, rfl⟩ := hx
  obtain ⟨q, hq, rfl⟩ := hy
  exact pull_inj a n _ _ (hl p hp) (hl q hq) hxy

theorem dealloc_text (m : UMap Nat ν) (a n : Nat) (h : (keys m).Nodup) :
    adjustText (filterTextOrLabels m a n) a n true
      = (m.filter (fun p => !inside a n p.1)).map (fun p => (pull a n p.1, p.2)) := by
  rw [filterTextOrLabels_eq m a n h]
  unfold adjustText
  have hmap : (m.filter (fun p => !inside a n p.1)).map (fun p => (adjustPointer p.1 a n true, p.2))
      = (m.filter (fun p => !inside a n p.1)).map (fun p => (pull a n p.1, p.2)) := by
    apply List.map_congr_left
    intro p hp
    rw [adjustPointer_sub _ _ _ (not_inside_of_mem_filter m a n p hp)]
  rw [hmap]
  apply collect_eq_of_nodup
  exact nodup_keys_pull _ a n (not_inside_of_mem_filter m a n) (keys_filter_nodup m _ h)

theorem dealloc_labels (m : UMap Nat ν) (a n : Nat) (ge : Bool) (h : (keys m).Nodup) :
    adjustLabels (filterTextOrLabels m a n) a n true ge
      = (m.filter (fun p => !inside a n p.1)).map (fun p => (pull a n p.1, p.2)) := by
  rw [filterTextOrLabels_eq m a n h]
  unfold adjustLabels
  have hmap : (m.filter (fun p => !inside a n p.1)).map (fun p => (adjustGe p.1 a n true ge, p.2))
      = (m.filter (fun p => !inside a n p.1)).map (fun p => (pull a n p.1, p.2)) := by
    apply List.map_congr_left
    intro p hp
    rw [adjustGe_sub _ _ _ _ (not_inside_of_mem_filter m a n p hp)]
  rw [hmap]
  apply collect_eq_of_nodup
  exact nodup_keys_pull _ a n (not_inside_of_mem_filter m a n) (keys_filter_nodup m _ h)

theorem dealloc_pointers (m : UMap Nat Nat) (a n : Nat) (ge : Bool) (h : (keys m).Nodup) :
    adjustPointers (filterPointers m a n) a n true ge
      = (m.filter (fun p => !inside a n p.1 && !inside a n p.2)).map
          (fun p => (pull a n p.1, pull a n p.2)) := by
  rw [filterPointers_eq m a n h]
  unfold adjustPointers
  have hin : ∀ p ∈ m.filter (fun p => !inside a n p.1 && !inside a n p.2),
      inside a n p.1 = false ∧ inside a n p.2 = false := by
    intro p hp
    have := (List.mem_filter.mp hp).2
    simpa using this
  have hmap : (m.filter (fun p => !inside a n p.1 && !inside a n p.2)).map
        (fun p => (adjustPointer p.1 a n true, adjustGe p.2 a n true ge))
      = (m.filter (fun p => !inside a n p.1 && !inside a n p.2)).map
        (fun p => (pull a n p.1, pull a n p.2)) := by
    apply List.map_congr_left
    intro p hp
    rw [adjustPointer_sub _ _ _ (hin p hp).1, adjustGe_sub _ _ _ _ (hin p hp).2]
  rw [hmap]
  apply collect_eq_of_nodup
  rw [List.map_map]
  have : ((fun p : Nat × Nat => p.1) ∘ fun p : Nat × Nat => (pull a n p.1, pull a n p.2))
      = (pull a n) ∘ (fun p => p.1) := rfl
  rw [this, ← List.map_map]
  apply nodup_map_of_inj_on _ _ _ (keys_filter_nodup m _ h)
  intro x hx y hy hxy
  unfold keys at hx hy
  rw [List.mem_map] at hx hy
  obtain ⟨p, hp, rfl⟩ := hx
  obtain ⟨q, hq, rfl⟩ := hy
  exact pull_inj a n _ _ (hin p hp).1 (hin q hq).1 hxy

theorem dealloc_cstrings (m : UMap Str (List Nat)) (a n : Nat) (h : (keys m).Nodup) :
    adjustCStrings (filterCStrings m (fun x => !inRange a n x)) a n true
      = ((m.map (fun p => (p.1, p.2.filter (fun x => !inside a n x)))).filter
          (fun p => !p.2.isEmpty)).map (fun p => (p.1, p.2.map (pull a n))) := by
  simp only [inRange_eq_inside]
  rw [filterCStrings_eq m _ h]
  have hk : (keys ((m.map (fun p => (p.1, p.2.filter (fun x => !inside a n x)))).filter
      (fun p => !p.2.isEmpty))).Nodup := by
    apply keys_filter_nodup
    have : keys (m.map (fun p => (p.1, p.2.filter (fun x => !inside a n x)))) = keys m := by
      simp [keys, List.map_map, Function.comp_def]
    rw [this]; exact h
  rw [adjustCStrings_eq _ a n true hk]
  apply List.map_congr_left
  intro p hp
  have hp1 := (List.mem_filter.mp hp).1
  rw [List.mem_map] at hp1
  obtain ⟨q, _, rfl⟩ := hp1
  simp only [Prod.mk.injEq, true_and]
  apply List.map_congr_left
  intro x hx
  have := (List.mem_filter.mp hx).2
  exact adjustPointer_sub x a n (by simpa using this)

theorem keys_cstr_filter_nodup (m : UMap Str (List Nat)) (keep : Nat → Bool) (h : (keys m).Nodup) :
    (keys ((m.map (fun p => (p.1, p.2.filter keep))).filter (fun p => !p.2.isEmpty))).Nodup := by
  apply keys_filter_nodup
  have : keys (m.map (fun p => (p.1, p.2.filter keep))) = keys m := by
    simp [keys, List.map_map, Function.comp_def]
  rw [this]; exact h

theorem keys_mapVal {κ α β : Type} (m : UMap κ α) (f : κ × α → β) :
    keys (m.map (fun p => (p.1, f p))) = keys m := by
  simp [keys, List.map_map, Function.comp_def]

/-! ### lookups through a key map -/

theorem lookup_mapKey_inj {ν μ : Type} (m : List (Nat × ν)) (f : Nat → Nat) (g : ν → μ)
    (hf : ∀ x y, f x = f y → x = y) (k : Nat) :
    lookup (m.map (fun p => (f p.1, g p.2))) (f k) = (lookup m k).map g := by
  induction m with
  | nil => rfl
  | cons p m ih =>
    unfold lookup at *
    simp only [List.map_cons, List.find?_cons]
    by_cases hp : p.1 = k
    · simp [hp]
    · have : f p.1 ≠ f k := fun h => hp (hf _ _ h)
      simp [hp, this]
      simpa using ih

theorem lookup_mapKey_none {ν μ : Type} (m : List (Nat × ν)) (f : Nat → Nat) (g : ν → μ) (y : Nat)
    (h : ∀ x, f x ≠ y) : lookup (m.map (fun p => (f p.1, g p.2))) y = none := by
  induction m with
  | nil => rfl
  | cons p m ih =>
    unfold lookup at *
    simp only [List.map_cons, List.find?_cons]
    simp [h p.1]
    simpa using ih

end Mila
