/- One layer as a finite map: `get`/`set`, `create_dir_all`, `write`, `create_dir` (C12). -/
import MilaModel.Model.LayeredFs

namespace Mila.LayeredFs
namespace Layer

@[simp] theorem get_root (l : Layer) : l.get [] = some .dir := by simp [get]

theorem get_cons (e : Comps × Node) (l : Layer) (x : Comps) (hx : x ≠ []) :
    get (e :: l) x = if e.1 = x then some e.2 else get l x := by
  unfold get
  simp only [hx, if_false, List.find?_cons]
  by_cases h : e.1 = x <;> simp [h]

theorem get_set_same (l : Layer) (c : Comps) (n : Node) (hc : c ≠ []) : (l.set c n).get c = some n := by
  induction l with
  | nil => simp [set, get_cons, hc]
  | cons e rest ih =>
    unfold set
    by_cases h : e.1 = c
    · simp [h, get_cons, hc]
    · simp [h, get_cons, hc, ih]

theorem get_set_other (l : Layer) (c x : Comps) (n : Node) (h : x ≠ c) : (l.set c n).get x = l.get x := by
  by_cases hx : x = []
  · subst hx; simp
  · induction l with
    | nil =>
      have : c ≠ x := fun e => h e.symm
      simp [set, get_cons, hx, this]
    | cons e rest ih =>
      unfold set
      by_cases he : e.1 = c
      · have : c ≠ x := fun e => h e.symm
        have h2 : e.1 ≠ x := he ▸ this
        simp [he, get_cons, hx, this]
      · simp [he, get_cons, hx, ih]

theorem get_set (l : Layer) (c x : Comps) (n : Node) (hc : c ≠ []) :
    (l.set c n).get x = if x = c then some n else l.get x := by
  by_cases h : x = c
  · subst h; simp [get_set_same l x n hc]
  · simp [h, get_set_other l c x n h]

theorem get_mkStep (l : Layer) (q x : Comps) (hq : q ≠ []) :
    (l.mkStep q).get x = if x = q ∧ l.get q = none then some .dir else l.get x := by
  unfold mkStep
  cases hg : l.get q with
  | none => simp [get_set l q x .dir hq]
  | some n => simp

theorem get_foldl_mkStep (qs : List Comps) (hq : ∀ q ∈ qs, q ≠ []) (l : Layer) (x : Comps) :
    (qs.foldl mkStep l).get x = if x ∈ qs ∧ l.get x = none then some .dir else l.get x := by
  induction qs generalizing l with
  | nil => simp
  | cons q qs ih =>
    have hq0 : q ≠ [] := hq q (by simp)
    rw [List.foldl_cons, ih (fun r hr => hq r (by simp [hr])), get_mkStep l q x hq0]
    by_cases hxq : x = q
    · subst hxq
      cases hg : l.get x <;> simp
    · simp [hxq]

end Layer

theorem mem_prefixes {c x : Comps} : x ∈ prefixes c ↔ x ≠ [] ∧ x <+: c := by
  unfold prefixes
  simp only [List.mem_map, List.mem_range]
  constructor
  · rintro ⟨i, hi, rfl⟩
    refine ⟨?_, List.take_prefix _ _⟩
    intro h
    rcases List.take_eq_nil_iff.mp h with h0 | h0
    · omega
    · subst h0; simp at hi
  · rintro ⟨hne, hp⟩
    have hlen : x.length ≤ c.length := hp.length_le
    have hpos : 0 < x.length := List.length_pos_iff.mpr hne
    refine ⟨x.length - 1, by omega, ?_⟩
    have : x.length - 1 + 1 = x.length := by omega
    rw [this]
    exact (List.prefix_iff_eq_take.mp hp).symm

theorem prefixes_ne_nil {c x : Comps} (h : x ∈ prefixes c) : x ≠ [] := (mem_prefixes.mp h).1

theorem mem_prefixes_dropLast {c x : Comps} :
    x ∈ prefixes c.dropLast ↔ x ≠ [] ∧ x <+: c ∧ x.length < c.length := by
  rw [mem_prefixes]
  constructor
  · rintro ⟨hne, hp⟩
    have h1 : x <+: c := hp.trans (List.dropLast_prefix c)
    have h2 := hp.length_le
    have hpos : 0 < x.length := List.length_pos_iff.mpr hne
    simp at h2
    exact ⟨hne, h1, by omega⟩
  · rintro ⟨hne, hp, hlt⟩
    refine ⟨hne, ?_⟩
    rw [List.dropLast_eq_take]
    rw [List.prefix_iff_eq_take] at hp ⊢
    rw [List.take_take]
    have : min x.length (c.length - 1) = x.length := by omega
    rw [this]; exact hp

namespace Layer

/-- `create_dir_all` either fails and changes nothing, or succeeds and turns exactly the missing
prefixes into directories. -/
theorem mkdirAll_cases (l : Layer) (c : Comps) :
    (l.mkdirAll c = (l, .err .Io) ∧ ∃ q ∈ prefixes c, isFileNode (l.get q) = true) ∨
    ((l.mkdirAll c).2 = .ok () ∧ (∀ q ∈ prefixes c, isFileNode (l.get q) = false) ∧
      ∀ x, (l.mkdirAll c).1.get x = if x ∈ prefixes c ∧ l.get x = none then some .dir else l.get x) := by
  unfold mkdirAll
  by_cases h : (prefixes c).any (fun q => isFileNode (l.get q)) = true
  · left
    simp only [h, if_true, true_and]
    simpa using h
  · right
    simp only [h]
    refine ⟨rfl, ?_, ?_⟩
    · intro q hq
      cases hf : isFileNode (l.get q) with
      | false => rfl
      | true => exact absurd (List.any_eq_true.mpr ⟨q, hq, hf⟩) h
    · intro x
      exact get_foldl_mkStep (prefixes c) (fun q hq => prefixes_ne_nil hq) l x

theorem write_eq (l : Layer) (p b : Bytes) :
    l.write p b =
      if (l.mkdirAll (parsePath p).comps.dropLast).2 = .ok () then
        if ((parsePath p).comps.isEmpty || (parsePath p).mustDir) = true then
          ((l.mkdirAll (parsePath p).comps.dropLast).1, .err .Io)
        else if (l.mkdirAll (parsePath p).comps.dropLast).1.get (parsePath p).comps = some .dir then
          ((l.mkdirAll (parsePath p).comps.dropLast).1, .err .Io)
        else (((l.mkdirAll (parsePath p).comps.dropLast).1).set (parsePath p).comps (.file b), .ok ())
      else ((l.mkdirAll (parsePath p).comps.dropLast).1, .err .Io) := by
  unfold write
  simp only []
  generalize l.mkdirAll (parsePath p).comps.dropLast = m
  obtain ⟨l1, r1⟩ := m
  cases r1 with
  | ok u =>
    cases u
    simp only [if_true]
    by_cases hbad : ((parsePath p).comps.isEmpty || (parsePath p).mustDir) = true
    · simp [hbad]
    · simp only [hbad, Bool.false_eq_true, if_false]
      cases hg : l1.get (parsePath p).comps with
      | none => simp
      | some n => cases n <;> simp
  | err e => simp
  | panic => simp

/-- What a write does to the map, whatever the path bytes: on success the file is at the parsed
location; otherwise (and everywhere else) entries are unchanged except that missing ancestors may
have become directories. -/
theorem write_get (l : Layer) (p b : Bytes) (x : Comps) :
    ((l.write p b).2 = .ok () ∧ x = (parsePath p).comps ∧ (parsePath p).comps ≠ [] ∧
      (parsePath p).mustDir = false ∧ (l.write p b).1.get x = some (.file b)) ∨
    (l.write p b).1.get x = l.get x ∨
    (l.get x = none ∧ (l.write p b).1.get x = some .dir ∧ x ∈ prefixes (parsePath p).comps.dropLast) := by
  rw [write_eq]
  rcases mkdirAll_cases l (parsePath p).comps.dropLast with ⟨he, _⟩ | ⟨hok, _, hget⟩
  · rw [he]; simp
  · have hmid : (l.mkdirAll (parsePath p).comps.dropLast).1.get x = l.get x ∨
        (l.get x = none ∧ (l.mkdirAll (parsePath p).comps.dropLast).1.get x = some .dir ∧
          x ∈ prefixes (parsePath p).comps.dropLast) := by
      rw [hget x]
      by_cases hx : x ∈ prefixes (parsePath p).comps.dropLast ∧ l.get x = none
      · right; simp [hx]
      · left; simp [hx]
    simp only [hok, if_true]
    by_cases hbad : ((parsePath p).comps.isEmpty || (parsePath p).mustDir) = true
    · simp only [hbad, if_true]; right; exact hmid
    · simp only [hbad, Bool.false_eq_true, if_false]
      have hne : (parsePath p).comps ≠ [] := by
        intro e; apply hbad; simp [e]
      have hmd : (parsePath p).mustDir = false := by
        cases h : (parsePath p).mustDir with
        | false => rfl
        | true => exfalso; apply hbad; simp [h]
      by_cases hd : (l.mkdirAll (parsePath p).comps.dropLast).1.get (parsePath p).comps = some .dir
      · simp only [hd, if_true]; right; exact hmid
      · simp only [hd, if_false]
        by_cases hxc : x = (parsePath p).comps
        · left
          refine ⟨trivial, hxc, hne, hmd, ?_⟩
          rw [hxc]; exact get_set_same _ _ _ hne
        · right
          rw [get_set_other _ _ _ _ hxc]; exact hmid

/-- A successful write puts the file where the path points. -/
theorem write_ok (l l' : Layer) (p b : Bytes) (h : l.write p b = (l', .ok ())) :
    (parsePath p).comps ≠ [] ∧ (parsePath p).mustDir = false ∧
    l'.get (parsePath p).comps = some (.file b) := by
  rw [write_eq] at h
  by_cases hok : (l.mkdirAll (parsePath p).comps.dropLast).2 = .ok ()
  · simp only [hok, if_true] at h
    by_cases hbad : ((parsePath p).comps.isEmpty || (parsePath p).mustDir) = true
    · simp [hbad] at h
    · simp only [hbad, Bool.false_eq_true, if_false] at h
      have hne : (parsePath p).comps ≠ [] := by
        intro e; apply hbad; simp [e]
      have hmd : (parsePath p).mustDir = false := by
        cases hh : (parsePath p).mustDir with
        | false => rfl
        | true => exfalso; apply hbad; simp [hh]
      by_cases hd : (l.mkdirAll (parsePath p).comps.dropLast).1.get (parsePath p).comps = some .dir
      · simp [hd] at h
      · simp only [hd, if_false] at h
        have : l' = (l.mkdirAll (parsePath p).comps.dropLast).1.set (parsePath p).comps (.file b) := by
          have := congrArg Prod.fst h; simpa using this.symm
        rw [this]
        exact ⟨hne, hmd, get_set_same _ _ _ hne⟩
  · simp [hok] at h

theorem stat_after_write (l l' : Layer) (p b : Bytes) (h : l.write p b = (l', .ok ())) :
    l'.stat p = some (.file b) := by
  obtain ⟨_, hmd, hg⟩ := write_ok l l' p b h
  simp [stat, hg, hmd]

theorem createDir_get (l : Layer) (p : Bytes) (x : Comps) :
    let r := l.createDir p
    let c := (parsePath p).comps
    (r.2 ≠ .ok () ∧ r.1 = l) ∨
    (r.2 = .ok () ∧ r.1.get x = if x ∈ prefixes c ∧ l.get x = none then some .dir else l.get x) := by
  intro r c
  rcases mkdirAll_cases l c with ⟨he, _⟩ | ⟨hok, _, hget⟩
  · left
    have : r = (l, .err .Io) := he
    simp [this]
  · right
    exact ⟨hok, hget x⟩

theorem not_mem_prefixes_dropLast_self (c : Comps) : c ∉ prefixes c.dropLast := by
  intro h
  have := (mem_prefixes_dropLast.mp h).2.2
  omega

/-- When a write succeeds: the path names a file position (components, no trailing slash), no
proper ancestor is a regular file, and the position is not a directory. -/
theorem write_ok_iff (l : Layer) (p b : Bytes) :
    (l.write p b).2 = .ok () ↔
      (∀ x ∈ prefixes (parsePath p).comps.dropLast, isFileNode (l.get x) = false) ∧
      (parsePath p).comps ≠ [] ∧ (parsePath p).mustDir = false ∧ l.get (parsePath p).comps ≠ some .dir := by
  rw [write_eq]
  rcases mkdirAll_cases l (parsePath p).comps.dropLast with ⟨he, q, hq, hqf⟩ | ⟨hok, hnf, hget⟩
  · rw [he]
    simp only [reduceCtorEq, if_false, false_iff]
    intro ⟨h1, _⟩
    rw [h1 q hq] at hqf; cases hqf
  · simp only [hok, if_true]
    have hself : (l.mkdirAll (parsePath p).comps.dropLast).1.get (parsePath p).comps = l.get (parsePath p).comps := by
      rw [hget]; simp [not_mem_prefixes_dropLast_self]
    by_cases hbad : ((parsePath p).comps.isEmpty || (parsePath p).mustDir) = true
    · simp only [hbad, if_true, reduceCtorEq, false_iff]
      intro ⟨_, h2, h3, _⟩
      simp only [Bool.or_eq_true, List.isEmpty_iff] at hbad
      rcases hbad with h | h
      · exact h2 h
      · rw [h3] at h; cases h
    · simp only [hbad, Bool.false_eq_true, if_false, hself]
      have hne : (parsePath p).comps ≠ [] := by
        intro e; apply hbad; simp [e]
      have hmd : (parsePath p).mustDir = false := by
        cases h : (parsePath p).mustDir with
        | false => rfl
        | true => exfalso; apply hbad; simp [h]
      by_cases hd : l.get (parsePath p).comps = some .dir
      · simp [hd]
      · simp only [hd, if_false, true_iff]
        exact ⟨hnf, hne, hmd, hd⟩

theorem createDir_ok_iff (l : Layer) (p : Bytes) :
    (l.createDir p).2 = .ok () ↔ ∀ x ∈ prefixes (parsePath p).comps, isFileNode (l.get x) = false := by
  unfold createDir
  rcases mkdirAll_cases l (parsePath p).comps with ⟨he, q, hq, hqf⟩ | ⟨hok, hnf, _⟩
  · rw [he]
    simp only [reduceCtorEq, false_iff]
    intro h1
    rw [h1 q hq] at hqf; cases hqf
  · simp [hok]; exact hnf

/-! #### which entries an operation can add -/

theorem mem_set (l : Layer) (c : Comps) (n : Node) (e : Comps × Node) (h : e ∈ l.set c n) :
    e ∈ l ∨ e = (c, n) := by
  induction l with
  | nil => simp [set] at h; exact Or.inr h
  | cons x rest ih =>
    unfold set at h
    by_cases hx : x.1 = c
    · simp only [hx, if_true, List.mem_cons] at h
      rcases h with h | h
      · exact Or.inr h
      · exact Or.inl (by simp [h])
    · simp only [hx, if_false, List.mem_cons] at h
      rcases h with h | h
      · exact Or.inl (by simp [h])
      · rcases ih h with h' | h'
        · exact Or.inl (by simp [h'])
        · exact Or.inr h'

theorem mem_foldl_mkStep (qs : List Comps) (l : Layer) (e : Comps × Node) (h : e ∈ qs.foldl mkStep l) :
    e ∈ l ∨ e.1 ∈ qs := by
  induction qs generalizing l with
  | nil => exact Or.inl h
  | cons q qs ih =>
    rw [List.foldl_cons] at h
    rcases ih (l.mkStep q) h with h' | h'
    · unfold mkStep at h'
      by_cases hn : (l.get q).isNone = true
      · simp only [hn, if_true] at h'
        rcases mem_set l q .dir e h' with h'' | h''
        · exact Or.inl h''
        · exact Or.inr (by simp [h''])
      · simp only [hn] at h'
        exact Or.inl h'
    · exact Or.inr (by simp [h'])

theorem mem_mkdirAll (l : Layer) (c : Comps) (e : Comps × Node) (h : e ∈ (l.mkdirAll c).1) :
    e ∈ l ∨ e.1 ∈ prefixes c := by
  unfold mkdirAll at h
  by_cases hb : (prefixes c).any (fun q => isFileNode (l.get q)) = true
  · simp only [hb, if_true] at h; exact Or.inl h
  · simp only [hb] at h
    exact mem_foldl_mkStep _ l e h

/-- A write adds only entries on the way to (and at) the written path. -/
theorem mem_write (l : Layer) (p b : Bytes) (e : Comps × Node) (h : e ∈ (l.write p b).1) :
    e ∈ l ∨ (e.1 ≠ [] ∧ e.1 <+: (parsePath p).comps) := by
  rw [write_eq] at h
  have hpre : ∀ x, x ∈ (l.mkdirAll (parsePath p).comps.dropLast).1 →
      x ∈ l ∨ (x.1 ≠ [] ∧ x.1 <+: (parsePath p).comps) := by
    intro x hx
    rcases mem_mkdirAll l _ x hx with h1 | h1
    · exact Or.inl h1
    · obtain ⟨h2, h3, _⟩ := mem_prefixes_dropLast.mp h1
      exact Or.inr ⟨h2, h3⟩
  by_cases hok : (l.mkdirAll (parsePath p).comps.dropLast).2 = .ok ()
  · simp only [hok, if_true] at h
    by_cases hbad : ((parsePath p).comps.isEmpty || (parsePath p).mustDir) = true
    · simp only [hbad, if_true] at h; exact hpre e h
    · simp only [hbad, Bool.false_eq_true, if_false] at h
      have hne : (parsePath p).comps ≠ [] := by
        intro e; apply hbad; simp [e]
      by_cases hd : (l.mkdirAll (parsePath p).comps.dropLast).1.get (parsePath p).comps = some .dir
      · simp only [hd, if_true] at h; exact hpre e h
      · simp only [hd, if_false] at h
        rcases mem_set _ _ _ e h with h1 | h1
        · exact hpre e h1
        · exact Or.inr (by simp [h1, hne])
  · simp only [hok, if_false] at h; exact hpre e h

theorem mem_createDir (l : Layer) (p : Bytes) (e : Comps × Node) (h : e ∈ (l.createDir p).1) :
    e ∈ l ∨ (e.1 ≠ [] ∧ e.1 <+: (parsePath p).comps) := by
  rcases mem_mkdirAll l _ e h with h1 | h1
  · exact Or.inl h1
  · exact Or.inr (mem_prefixes.mp h1)

end Layer
end Mila.LayeredFs
