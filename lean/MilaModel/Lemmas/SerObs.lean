/-
C01, stated on the observables of the re-parsed archive: size, raw bytes, strings, pointers,
c-strings (through `readCString`) and labels.
-/
import MilaModel.Lemmas.SerRound

namespace Mila.Ser
open Mila.BinArchive
open Spec.Image

theorem strAt_of_getElem {f : Bytes} {pos : Nat} {b : Bytes}
    (h : ∀ j, j < b.length + 1 → f[pos + j]? = (b ++ [0])[j]?) : StrAt f pos b := by
  unfold StrAt
  apply List.ext_getElem?
  intro j
  rw [List.getElem?_take, List.getElem?_drop]
  by_cases hj : j < b.length + 1
  · rw [if_pos hj]; exact h j hj
  · rw [if_neg hj, List.getElem?_eq_none (by simp; omega)]

theorem getElem_of_strAt {f : Bytes} {pos : Nat} {b : Bytes} (h : StrAt f pos b) :
    ∀ j, j < b.length + 1 → f[pos + j]? = (b ++ [0])[j]? := by
  intro j hj
  unfold StrAt at h
  rw [← h, List.getElem?_take, if_pos hj, List.getElem?_drop]

section obs
variable {c : Codec} {D : Str → Prop} {a b : BinArchive} {f : Bytes}

/-- Hypotheses shared by the observable-level statements: `b` is the archive parsed from the image
`f` of `a`. -/
structure RoundTrip (c : Codec) (D : Str → Prop) (a : BinArchive) (f : Bytes) (b : BinArchive) : Prop where
  wf : ArchWF a
  faithful : c.Faithful D
  dom : InDomain D a
  conf : Conforms c.enc a.endian f (contentPlus c a)
  parsed : Parsed a.endian f (contentPlus c a) b

theorem RoundTrip.ctx (h : RoundTrip c D a f b) : Ctx c D a.endian f (contentPlus c a) :=
  ctx_of_archive c D a h.wf h.faithful h.dom h.conf

theorem rt_size (h : RoundTrip c D a f b) : b.size = a.size + (cstrPool c a).length := by
  unfold size
  rw [h.parsed.data, slice_length _ _ _ h.ctx.data_fits]
  show (a.data ++ cstrPool c a).length = _
  rw [List.length_append]

theorem cstrPool_nil (c : Codec) (a : BinArchive) (h : a.cstrings = []) : cstrPool c a = [] := by
  simp [cstrPool, cstrKeys, cstrSorted, h, dedup, dedupAux, padTo4]

theorem archCells_nodup (wf : ArchWF a) : (archCells a).Nodup := by
  apply wf.disjoint.imp
  intro x y h e; omega

/-- Raw bytes outside annotated cells survive (the data of `b` continues with the pool). -/
theorem rt_bytes (h : RoundTrip c D a f b) (i : Nat)
    (hc : ∀ x ∈ archCells a, i < x ∨ x + 4 ≤ i) :
    b.data[i]? = (a.data ++ cstrPool c a)[i]? := by
  have hce := parsed_contentEq h.ctx h.parsed
  have : ¬ (contentPlus c a).covered i := by
    rintro ⟨x, hx, h1, h2⟩
    have := hc x ((contentPlus_cells_perm c a).mem_iff.mp hx)
    omega
  exact (hce.bytes i this).symm

theorem rt_string (h : RoundTrip c D a f b) (x : Nat) : UMap.get b.text x = UMap.get a.text x := by
  have nd : (b.text.map (·.1)).Nodup :=
    ((h.parsed.text.map _).nodup_iff).mpr (strKeys_nodup (contentPlus_wf c a h.wf))
  unfold UMap.get
  rw [find_key_perm nd h.parsed.text x]
  rfl

theorem rt_pointer_keys_nodup (h : RoundTrip c D a f b) : (b.pointers.map (·.1)).Nodup :=
  ((h.parsed.pointers.map _).nodup_iff).mpr (ptrKeys_nodup (contentPlus_wf c a h.wf))

theorem rt_pointer (h : RoundTrip c D a f b) {p : Nat × Nat} (hp : p ∈ a.pointers) :
    UMap.get b.pointers p.1 = some p.2 := by
  apply (mem_iff_get (rt_pointer_keys_nodup h) p).mp
  apply h.parsed.pointers.mem_iff.mpr
  exact List.mem_append_left _ hp

theorem rt_labels (h : RoundTrip c D a f b) (x : Nat) :
    (UMap.get b.labels x).getD [] = (UMap.get a.labels x).getD [] :=
  h.parsed.labels x

/-- **`read_c_string` on the re-parsed archive returns every pending c-string.** -/
theorem rt_cstring (h : RoundTrip c D a f b) {q : Str × List Nat} (hq : q ∈ a.cstrings)
    {x : Nat} (hx : x ∈ q.2) : readCString c b x = .ok (some q.1) := by
  obtain ⟨bs, hbs, h0, hdec⟩ := h.faithful q.1 (h.dom.cstrings q hq)
  have hx4 : x + 4 ≤ a.data.length := h.wf.inside x
    (List.mem_append_left _ (List.mem_append_right _ (List.mem_flatMap.mpr ⟨q, hq, hx⟩)))
  have hsize := rt_size h
  unfold size at hsize
  -- the pointer stored for the cell
  have hmemS : q ∈ cstrSorted c a := List.mem_mergeSort.mpr hq
  have hptr : (x, a.data.length + offsetIn c.enc (cstrKeys c a) q.1) ∈ cstrPointers c a := by
    unfold cstrPointers
    exact List.mem_flatMap.mpr ⟨q, hmemS, List.mem_map.mpr ⟨x, hx, rfl⟩⟩
  have hget : UMap.get b.pointers x = some (a.data.length + offsetIn c.enc (cstrKeys c a) q.1) := by
    apply (mem_iff_get (rt_pointer_keys_nodup h) (x, _)).mp
    apply h.parsed.pointers.mem_iff.mpr
    exact List.mem_append_right _ hptr
  -- the string sits in the pool
  have hk : q.1 ∈ cstrKeys c a := (mem_dedup _ _).mpr (List.mem_map_of_mem hmemS)
  have hraw := strAt_pool c.enc (cstrKeys c a) q.1 bs hk hbs
  have hle := offsetIn_entry_le c.enc (cstrKeys c a) q.1 hk
  have hent : (entry c.enc q.1).length = bs.length + 1 := by simp [entry, hbs]
  have hpad := padTo4_length_ge ((cstrKeys c a).flatMap (entry c.enc))
  have hstr : StrAt b.data (a.data.length + offsetIn c.enc (cstrKeys c a) q.1) bs := by
    apply strAt_of_getElem
    intro j hj
    rw [← getElem_of_strAt hraw j hj]
    rw [rt_bytes h _ (by
      intro y hy
      have := h.wf.inside y hy
      omega)]
    rw [List.getElem?_append_right (by omega)]
    unfold cstrPool padTo4
    rw [List.getElem?_append_left (by omega)]
    congr 1
    omega
  unfold readCString readPointer
  rw [validateCell_ok b x (by omega)]
  simp only [hget]
  rw [validateAddress_lt (by unfold size cstrPool at *; omega)]
  simp only []
  rw [cstrBytes_of_strAt bs _ h0 hstr]
  simp only [hdec]

/-- No pointer is invented: a cell that holds neither a pointer nor a pending c-string has none
after the round trip. -/
theorem rt_pointer_none (h : RoundTrip c D a f b) {x : Nat}
    (h1 : ∀ p ∈ a.pointers, p.1 ≠ x) (h2 : ∀ q ∈ a.cstrings, x ∉ q.2) :
    UMap.get b.pointers x = none := by
  rw [get_eq_none_iff]
  intro p hp e
  have hp' := h.parsed.pointers.mem_iff.mp hp
  rcases List.mem_append.mp hp' with hp' | hp'
  · exact h1 p hp' e
  · obtain ⟨q, hq, hx, _, _⟩ := cstrPointer_target_lt c a hp'
    exact h2 q hq (e ▸ hx)

end obs

/-- `KeysOK` (what `serialize_perm` needs) follows from the quantifier of C01/C02. -/
theorem keysOK_of (c : Codec) (D : Str → Prop) (a : BinArchive) (wf : ArchWF a)
    (ndC : (a.cstrings.map (·.1)).Nodup) (hf : c.Faithful D) (dom : InDomain D a) : KeysOK c a where
  text := (List.nodup_append.mp (archCells_nodup wf)).2.1
  labels := wf.labelKeys
  sources := (List.nodup_append.mp (archCells_nodup wf)).1
  cstrKeys := by
    intro x hx y hy hk
    obtain ⟨bx, hbx, _, hdx⟩ := hf x.1 (dom.cstrings x hx)
    obtain ⟨by', hby, _, hdy⟩ := hf y.1 (dom.cstrings y hy)
    unfold cstrKey at hk
    rw [hbx, hby] at hk
    simp only [Option.getD_some] at hk
    have : x.1 = y.1 := by rw [← hdx, ← hdy, hk]
    exact eq_of_key_eq ndC hx hy this

end Mila.Ser
