/-
Spec-level lemmas for LZ streams (C08–C11): sizes, append laws, list view of `copyBack`.
-/
import MilaModel.Spec.LzStream

namespace Mila.Spec.Lz

@[simp] theorem copyBack_size (out : Array UInt8) (d n : Nat) : (copyBack out d n).size = out.size + n := by
  induction n generalizing out with
  | zero => simp [copyBack]
  | succ n ih => simp [copyBack, ih]; omega

/-- Total number of bytes produced by a token list. -/
def tsize : List Tok → Nat
  | [] => 0
  | t :: ts => t.size + tsize ts

@[simp] theorem tsize_nil : tsize [] = 0 := rfl
@[simp] theorem tsize_cons (t : Tok) (ts : List Tok) : tsize (t :: ts) = t.size + tsize ts := rfl
@[simp] theorem tsize_append (a b : List Tok) : tsize (a ++ b) = tsize a + tsize b := by
  induction a with
  | nil => simp
  | cons t ts ih => simp [ih]; omega

@[simp] theorem expandFrom_size (out : Array UInt8) (ts : List Tok) :
    (expandFrom out ts).size = out.size + tsize ts := by
  induction ts generalizing out with
  | nil => simp [expandFrom]
  | cons t ts ih =>
    cases t with
    | lit b => simp [expandFrom, ih, Tok.size]; omega
    | ref len disp => simp [expandFrom, ih, Tok.size]; omega

theorem expandFrom_append (out : Array UInt8) (a b : List Tok) :
    expandFrom out (a ++ b) = expandFrom (expandFrom out a) b := by
  induction a generalizing out with
  | nil => simp [expandFrom]
  | cons t ts ih => cases t <;> simp [expandFrom, ih]

theorem validFrom_append (ext : Bool) (h : Nat) (a b : List Tok) :
    ValidFrom ext h (a ++ b) ↔ ValidFrom ext h a ∧ ValidFrom ext (h + tsize a) b := by
  induction a generalizing h with
  | nil => simp [ValidFrom]
  | cons t ts ih =>
    cases t with
    | lit x => simp [ValidFrom, ih, Tok.size, Nat.add_assoc]
    | ref len disp =>
      simp only [List.cons_append, ValidFrom, ih, tsize_cons, Tok.size, Nat.add_assoc]
      constructor
      · rintro ⟨a, b, c, d, e, f⟩; exact ⟨⟨a, b, c, d, e⟩, f⟩
      · rintro ⟨⟨a, b, c, d, e⟩, f⟩; exact ⟨a, b, c, d, e, f⟩

theorem lenOk_pos {ext : Bool} {len : Nat} (h : lenOk ext len) : 3 ≤ len := by
  unfold lenOk at h; split at h <;> exact h.1

/-- Every token of a valid list produces at least one byte. -/
theorem tsize_pos_of_valid {ext : Bool} {h : Nat} {t : Tok} {ts : List Tok}
    (hv : ValidFrom ext h (t :: ts)) : 1 ≤ t.size := by
  cases t with
  | lit b => simp [Tok.size]
  | ref len disp => have := lenOk_pos hv.1; simp [Tok.size]; omega

/-- `Groups` of the empty token list is the empty byte string. -/
theorem groups_nil_inv {ext : Bool} {bs : Bytes} (h : Groups ext [] bs) : bs = [] := by
  generalize hts : ([] : List Tok) = ts at h
  cases h with
  | nil => rfl
  | group f g rest bs hg _ _ _ _ =>
    have : g = [] := by
      have := congrArg List.length hts; simp at this; exact List.eq_nil_of_length_eq_zero (by omega)
    exact absurd this hg

/-- List view of `copyBack`: bytes are taken `disp` back from the growing end. -/
theorem copyBack_getElem_lt (out : Array UInt8) (d n i : Nat) (h : i < out.size) :
    (copyBack out d n)[i]'(by simp; omega) = out[i] := by
  induction n generalizing out with
  | zero => simp [copyBack]
  | succ n ih =>
    simp only [copyBack]
    rw [ih (out.push _) (by simp; omega)]
    exact Array.getElem_push_lt h

/-- Each copied byte equals the byte `d` positions earlier in the result. -/
theorem copyBack_getElem_ge (out : Array UInt8) (d n i : Nat) (hd1 : 1 ≤ d) (hd : d ≤ out.size)
    (h1 : out.size ≤ i) (h2 : i < out.size + n) :
    (copyBack out d n)[i]'(by simp; omega) = (copyBack out d n)[i - d]'(by simp; omega) := by
  induction n generalizing out with
  | zero => omega
  | succ n ih =>
    simp only [copyBack]
    by_cases hi : i = out.size
    · subst hi
      rw [copyBack_getElem_lt _ _ _ _ (by simp), copyBack_getElem_lt _ _ _ _ (by simp; omega)]
      simp [Array.getD, show out.size - d < out.size by omega]
      rw [Array.getElem_push_lt (by omega)]
    · exact ih (out.push _) (by simp; omega) (by simp; omega) (by simp; omega)

end Mila.Spec.Lz
