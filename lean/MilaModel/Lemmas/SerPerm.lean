/-
C02, "whatever the hash state": `serialize` is invariant under every permutation of the five
hash maps of an archive (each `HashMap` is modelled by its iteration order).
-/
import MilaModel.Lemmas.SerSort

namespace Mila.Ser
open Mila.BinArchive
open Spec.Image (strLe)

/-- The same archive up to the iteration order of its hash maps. -/
structure PermEq (a a' : BinArchive) : Prop where
  data : a.data = a'.data
  endian : a.endian = a'.endian
  text : a.text.Perm a'.text
  pointers : a.pointers.Perm a'.pointers
  labels : a.labels.Perm a'.labels
  cstrings : a.cstrings.Perm a'.cstrings

/-- What `serialize_perm` needs from the quantifier: every hash map has distinct keys, no cell
carries both a pointer and a pending c-string (or two c-strings), and the codec separates the
pending c-strings (they are distinct `HashMap` keys; under `Codec.Faithful` encodings of distinct
strings differ). -/
structure KeysOK (c : Codec) (a : BinArchive) : Prop where
  text : (a.text.map (·.1)).Nodup
  labels : (a.labels.map (·.1)).Nodup
  sources : (a.pointers.map (·.1) ++ a.cstrings.flatMap (·.2)).Nodup
  cstrKeys : ∀ x ∈ a.cstrings, ∀ y ∈ a.cstrings, cstrKey c x = cstrKey c y → x = y

theorem cstrLe_preorder (c : Codec) : IsPreorder (cstrLe c) where
  trans := by intro x y z; simp only [cstrLe, bytesLe_eq]; exact strLe_trans _ _ _
  total := by intro x y; simp only [cstrLe, bytesLe_eq]; exact strLe_total _ _

theorem cstrLe_anti (c : Codec) {l : List (Str × List Nat)}
    (inj : ∀ x ∈ l, ∀ y ∈ l, cstrKey c x = cstrKey c y → x = y) :
    ∀ a b, a ∈ l → b ∈ l → cstrLe c a b = true → cstrLe c b a = true → a = b := by
  intro a b ha hb h1 h2
  simp only [cstrLe, bytesLe_eq] at h1 h2
  exact inj a ha b hb (strLe_antisymm _ _ h1 h2)

/-- The sources pushed by the c-string loop are the cell addresses of the buckets, in order. -/
theorem cstring_fold_sources (c : Codec) (n : Nat) :
    ∀ (l : List (Str × List Nat)) (st st' : TextPool × List (Nat × Nat)),
      l.foldlM (cstringStep c n) st = .ok st' →
      st'.2.map (·.1) = st.2.map (·.1) ++ l.flatMap (·.2) := by
  intro l
  induction l with
  | nil => intro st st' h; simp [List.foldlM] at h; cases h; simp
  | cons p ps ih =>
    intro st st' h
    rw [List.foldlM_cons] at h
    cases hs : cstringStep c n st p with
    | ok st1 =>
      rw [hs] at h
      have h' : ps.foldlM (cstringStep c n) st1 = .ok st' := h
      rw [ih st1 st' h']
      unfold cstringStep at hs
      cases ha : addText c st.1 p.1 with
      | ok r =>
        rw [ha] at hs
        obtain ⟨tp, off⟩ := r
        simp at hs
        subst hs
        simp [List.map_append, Function.comp_def]
      | err e => rw [ha] at hs; cases hs
      | panic => rw [ha] at hs; cases hs
    | err e => rw [hs] at h; cases h
    | panic => rw [hs] at h; cases h

/-- `serializeTail` only looks at its three maps through a sort with a unique key (and a length). -/
theorem serializeTail_perm (c : Codec) (e : Endian) (d r : Bytes)
    {P P' : List (Nat × Nat)} {L L' : UMap Nat (List Str)} {T T' : UMap Nat Str}
    (hP : P.Perm P') (ndP : (P.map (·.1)).Nodup)
    (hL : L.Perm L') (ndL : (L.map (·.1)).Nodup)
    (hT : T.Perm T') (ndT : (T.map (·.1)).Nodup) :
    serializeTail c e d r P L T = serializeTail c e d r P' L' T' := by
  have h1 : P.mergeSort bySource = P'.mergeSort bySource :=
    mergeSort_eq_of_perm bySource_preorder (bySource_anti ndP) hP
  have h2 : L.mergeSort (labelLe e) = L'.mergeSort (labelLe e) :=
    mergeSort_eq_of_perm (labelLe_preorder e) (labelLe_anti e ndL) hL
  have h3 : T.mergeSort bySource = T'.mergeSort bySource :=
    mergeSort_eq_of_perm bySource_preorder (bySource_anti ndT) hT
  have h4 : T.length = T'.length := hT.length_eq
  unfold serializeTail
  rw [h1, h2, h3, h4]

/-- **C02 `serialize_perm`.**  Serialization does not depend on the iteration order of any of the
five hash maps. -/
theorem serialize_perm (c : Codec) {a a' : BinArchive} (ok : KeysOK c a) (p : PermEq a a') :
    serialize c a = serialize c a' := by
  have hc : a.cstrings.mergeSort (cstrLe c) = a'.cstrings.mergeSort (cstrLe c) :=
    mergeSort_eq_of_perm (cstrLe_preorder c) (cstrLe_anti c ok.cstrKeys) p.cstrings
  unfold serialize
  rw [← p.data, ← p.endian, ← hc]
  cases hf : (a.cstrings.mergeSort (cstrLe c)).foldlM (cstringStep c a.data.length)
      ((⟨[], []⟩ : TextPool), ([] : List (Nat × Nat))) with
  | err e => rfl
  | panic => rfl
  | ok st =>
    obtain ⟨pool, cptrs⟩ := st
    show serializeTail c a.endian a.data (padTo4 pool.raw) (a.pointers ++ cptrs) a.labels a.text
      = serializeTail c a.endian a.data (padTo4 pool.raw) (a'.pointers ++ cptrs) a'.labels a'.text
    have hsrc := cstring_fold_sources c a.data.length _ _ _ hf
    simp only [List.map_nil, List.nil_append] at hsrc
    apply serializeTail_perm c a.endian a.data _ (p.pointers.append_right cptrs) _ p.labels ok.labels
      p.text ok.text
    rw [List.map_append, hsrc]
    have hp : ((a.cstrings.mergeSort (cstrLe c)).flatMap (·.2)).Perm (a.cstrings.flatMap (·.2)) :=
      (List.mergeSort_perm a.cstrings (cstrLe c)).flatMap_right _
    exact ((hp.append_left _).nodup_iff).mpr ok.sources

end Mila.Ser
