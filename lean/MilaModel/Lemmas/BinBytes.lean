/-
Byte-level lemmas for C04: `patch` / `slice` locality, `Endian.enc` / `dec` round trip and byte
layout, two's-complement round trip.
-/
import MilaModel.Model.BinOps
import MilaModel.Spec.Cell

namespace Mila
open BinArchive

theorem leBytes_length (k n : Nat) : (leBytes k n).length = k := by
  induction k generalizing n with
  | zero => rfl
  | succ k ih => simp [leBytes, ih]

theorem enc_length (e : Endian) (k n : Nat) : (e.enc k n).length = k := by
  cases e <;> simp [Endian.enc, beBytes, leBytes_length]

theorem ofLe_leBytes (k n : Nat) : ofLe (leBytes k n) = n % 256 ^ k := by
  induction k generalizing n with
  | zero => simp [leBytes, ofLe, Nat.mod_one]
  | succ k ih =>
    simp only [leBytes, ofLe, ih]
    have h : (UInt8.ofNat (n % 256)).toNat = n % 256 := by
      simp [UInt8.toNat_ofNat']
    rw [h, Nat.pow_succ, Nat.mul_comm (256 ^ k) 256, Nat.mod_mul]

theorem dec_enc (e : Endian) (k n : Nat) : e.dec (e.enc k n) = n % 256 ^ k := by
  cases e <;> simp [Endian.enc, Endian.dec, beBytes, ofBe, ofLe_leBytes]

/-! ### byte layout for the three widths -/

theorem enc_layout_1 (e : Endian) (v : Nat) : e.enc 1 v = Spec.Cell.layout e 1 v := by
  cases e <;> simp [Endian.enc, beBytes, leBytes, Spec.Cell.layout, Spec.Cell.byteAt, List.range, List.range.loop]

theorem enc_layout_2 (e : Endian) (v : Nat) : e.enc 2 v = Spec.Cell.layout e 2 v := by
  cases e <;> simp [Endian.enc, beBytes, leBytes, Spec.Cell.layout, Spec.Cell.byteAt, List.range, List.range.loop]

theorem enc_layout_4 (e : Endian) (v : Nat) : e.enc 4 v = Spec.Cell.layout e 4 v := by
  cases e <;>
    simp [Endian.enc, beBytes, leBytes, Spec.Cell.layout, Spec.Cell.byteAt, List.range, List.range.loop,
      Nat.div_div_eq_div_mul]

/-! ### patch / slice -/

theorem patch_length (b : Bytes) (at_ : Nat) (v : Bytes) (h : at_ + v.length ≤ b.length) :
    (patch b at_ v).length = b.length := by
  simp [patch]; omega

theorem slice_patch (b : Bytes) (at_ : Nat) (v : Bytes) (h : at_ + v.length ≤ b.length) :
    slice (patch b at_ v) at_ v.length = v := by
  have h1 : (b.take at_).length = at_ := by simp; omega
  simp [slice, patch, h1]

theorem patch_getElem?_lt (b : Bytes) (at_ : Nat) (v : Bytes) (i : Nat) (hi : i < at_)
    (h : at_ + v.length ≤ b.length) : (patch b at_ v)[i]? = b[i]? := by
  have h1 : (b.take at_).length = at_ := by simp; omega
  simp only [patch, List.append_assoc]
  rw [List.getElem?_append_left (by omega)]
  simp [hi]

theorem patch_getElem?_ge (b : Bytes) (at_ : Nat) (v : Bytes) (i : Nat) (hi : at_ + v.length ≤ i)
    (h : at_ + v.length ≤ b.length) : (patch b at_ v)[i]? = b[i]? := by
  have h1 : (b.take at_).length = at_ := by simp; omega
  simp only [patch, List.append_assoc]
  rw [List.getElem?_append_right (by omega), List.getElem?_append_right (by omega)]
  simp only [h1, List.getElem?_drop]
  congr 1; omega

theorem patch_getElem?_in (b : Bytes) (at_ : Nat) (v : Bytes) (i : Nat) (hi : i < v.length)
    (h : at_ + v.length ≤ b.length) : (patch b at_ v)[at_ + i]? = v[i]? := by
  have h1 : (b.take at_).length = at_ := by simp; omega
  simp only [patch, List.append_assoc]
  rw [List.getElem?_append_right (by omega), List.getElem?_append_left (by omega)]
  congr 1; omega

theorem patch_replaced (b : Bytes) (at_ : Nat) (v : Bytes) (h : at_ + v.length ≤ b.length) :
    Spec.Cell.Replaced b (patch b at_ v) at_ v :=
  ⟨patch_length b at_ v h, fun i hi => patch_getElem?_in b at_ v i hi h,
   fun i hi => hi.elim (fun l => patch_getElem?_lt b at_ v i l h) (fun g => patch_getElem?_ge b at_ v i g h)⟩

/-! ### two's complement -/

theorem toSigned_ofSigned_8 (v : Int) (h : -128 ≤ v ∧ v < 128) : toSigned 8 (ofSigned 8 v) = v := by
  unfold toSigned ofSigned
  simp only [Nat.reducePow, Nat.reduceSub]
  split <;> omega

theorem toSigned_ofSigned_16 (v : Int) (h : -32768 ≤ v ∧ v < 32768) : toSigned 16 (ofSigned 16 v) = v := by
  unfold toSigned ofSigned
  simp only [Nat.reducePow, Nat.reduceSub]
  split <;> omega

theorem toSigned_ofSigned_32 (v : Int) (h : -2147483648 ≤ v ∧ v < 2147483648) :
    toSigned 32 (ofSigned 32 v) = v := by
  unfold toSigned ofSigned
  simp only [Nat.reducePow, Nat.reduceSub]
  split <;> omega

/-- the bit pattern of an unsigned value in range is the value. -/
theorem ofSigned_nat (bits : Nat) (n : Nat) (h : n < 2 ^ bits) : ofSigned bits (n : Int) = n := by
  unfold ofSigned
  have : ((n : Int) % ((2 ^ bits : Nat) : Int)) = ((n % 2 ^ bits : Nat) : Int) := by norm_cast
  rw [this, Int.toNat_natCast, Nat.mod_eq_of_lt h]

theorem ofSigned_lt (bits : Nat) (v : Int) : ofSigned bits v < 2 ^ bits := by
  unfold ofSigned
  have hp : (0 : Int) < ((2 ^ bits : Nat) : Int) := by
    have : 0 < 2 ^ bits := Nat.two_pow_pos bits
    omega
  have h1 := Int.emod_lt_of_pos v hp
  have h2 := Int.emod_nonneg v (Int.ne_of_gt hp)
  omega

end Mila
