/-
C20, CGFX: a conforming file is read as the packed textures (symbolic execution of `cgfxProg`
against `Spec.Tex.ConformsCgfx`), with the read high-water mark above every payload; a file with
a wrong magic number is rejected.
-/
import MilaModel.Lemmas.TexSpec

namespace Mila.Containers
open Prog Pixel
open Spec.Tex (Tex valid3ds u32At hasBytes hasCStr utf8Name ConformsCgfx cgfxTxobAt cgfxPayloadAt allIdx)

/-- side condition "the read fits in the data" / "the cursor is at ..." -/
macro "fitsC" : tactic => `(tactic| first | omega | (simp <;> omega))

/-- `u32le` at a known position, in the specification's vocabulary. -/
theorem run_u32At (f : Buf) (s : St) (pos : Nat) (hp : s.pos = pos) (h : pos + 4 ≤ f.size) :
    run u32le f s = .ok (u32At f pos, s.rd 4) := by
  subst hp
  rw [run_u32le f s h, u32At_eq]

/-- A self-relative offset field at a known position. -/
theorem selfRel_run (p : Profile) (f : Buf) (s : St) (pos : Nat) (hp : s.pos = pos)
    (h : pos + 4 ≤ f.size) (hs : f.size < 2 ^ 32) (hsum : Spec.Tex.selfRel f pos < 2 ^ 32) :
    run (selfRel p) f s = .ok (Spec.Tex.selfRel f pos, s.rd 4) := by
  subst hp
  simp only [Spec.Tex.selfRel, u32At_eq] at hsum ⊢
  unfold selfRel
  rw [run_bind_ok (run_position _ _)]
  rw [run_bind_ok (run_u32le _ _ h)]
  rw [Nat.mod_eq_of_lt (by omega), add32_ok p _ _ hsum]
  rfl

/-! ### TXOB -/

/-- What `TXOB::new` returns for the object at `t0`. -/
def TxobAt (f : Buf) (t0 : Nat) (x : Txob) : Prop :=
  x.filename_offset = Spec.Tex.selfRel f (t0 + 0xC) ∧ x.height = u32At f (t0 + 0x18) ∧
  x.width = u32At f (t0 + 0x1C) ∧ x.pixel_format = u32At f (t0 + 0x34) ∧
  x.size = u32At f (t0 + 0x44) ∧ x.texture_offset = Spec.Tex.selfRel f (t0 + 0x48)

theorem cgfxTxob_run (p : Profile) (f : Buf) (t0 : Nat) (s : St) (hsize : f.size < 2 ^ 32)
    (hfit : t0 + 0x4C ≤ f.size) (h1 : Spec.Tex.selfRel f (t0 + 0xC) < 2 ^ 32)
    (h2 : Spec.Tex.selfRel f (t0 + 0x48) < 2 ^ 32) :
    ∃ x s', run (cgfxTxob p t0) f s = .ok (x, s') ∧ TxobAt f t0 x ∧ s'.names = s.names ∧
      s.hi ≤ s'.hi := by
  unfold cgfxTxob
  rw [run_bind_ok (run_seekStart _ _ _)]
  rw [run_bind_ok (run_u32At f _ t0 (by fitsC) (by omega))]
  rw [run_bind_ok (run_u32At f _ (t0 + 4) (by fitsC) (by omega))]
  rw [run_bind_ok (run_skip _ _ _)]
  rw [run_bind_ok (selfRel_run p f _ (t0 + 0xC) (by fitsC) (by omega) hsize h1)]
  rw [run_bind_ok (run_skip _ _ _)]
  rw [run_bind_ok (run_u32At f _ (t0 + 0x18) (by fitsC) (by omega))]
  rw [run_bind_ok (run_u32At f _ (t0 + 0x1C) (by fitsC) (by omega))]
  rw [run_bind_ok (run_skip _ _ _)]
  rw [run_bind_ok (run_u32At f _ (t0 + 0x28) (by fitsC) (by omega))]
  rw [run_bind_ok (run_skip _ _ _)]
  rw [run_bind_ok (run_u32At f _ (t0 + 0x34) (by fitsC) (by omega))]
  rw [run_bind_ok (run_skip _ _ _)]
  rw [run_bind_ok (run_u32At f _ (t0 + 0x44) (by fitsC) (by omega))]
  rw [run_bind_ok (selfRel_run p f _ (t0 + 0x48) (by fitsC) (by omega) hsize h2)]
  refine ⟨_, _, rfl, ⟨rfl, rfl, rfl, rfl, rfl, rfl⟩, ?_, ?_⟩ <;> simp <;> omega

/-- One texture of a conforming file. -/
theorem cgfxTexture_run (p : Profile) (f : Buf) (t0 : Nat) (t : Tex) (x : Txob) (s : St)
    (hx : TxobAt f t0 x) (htx : Spec.Tex.cgfxTxob f t0 t = true) (hvalid : valid3ds t = true)
    (hname : utf8Name t = true) :
    ∃ s', run (cgfxTexture p x) f s = .ok ((t.width, t.height, pixelsOf p t), s') ∧
      s'.names = t.name :: s.names ∧ s.hi ≤ s'.hi ∧
      Spec.Tex.selfRel f (t0 + 0x48) + t.payload.size ≤ s'.hi := by
  obtain ⟨hfo, hh, hw, hpf, hsz, hto⟩ := hx
  simp only [Spec.Tex.cgfxTxob, Bool.and_eq_true, decide_eq_true_eq, beq_iff_eq] at htx
  obtain ⟨⟨⟨⟨⟨⟨⟨⟨_, _⟩, hcstr⟩, hhei⟩, hwid⟩, hfmt⟩, hsize'⟩, _⟩, hbytes⟩ := htx
  obtain ⟨hfit, hext⟩ := hasBytes_spec hbytes
  obtain ⟨_, b, hdec⟩ := valid3ds_decodes p t hvalid
  have hpos := valid3ds_pos t hvalid
  have hraw := rawName_of_hasCStr hcstr
  have hdn := utf8Name_decodes hname
  unfold cgfxTexture
  rw [hfo, hh, hw, hpf, hsz, hto, hhei, hwid, hfmt, hsize']
  rw [run_bind_ok (run_seekStart _ _ _)]
  rw [run_bind_ok (run_readBytes _ _ _ hpos (by fitsC))]
  rw [run_bind_ok (run_seekStart _ _ _)]
  rw [run_bind_ok (run_readName .utf8 f _ t.name (by simp [hraw, hdn]))]
  simp only [St.seek_pos]
  rw [hext, hdec, run_bind_ok (run_lift_ok _ _ _)]
  have hpx : pixelsOf p t = b := by simp [pixelsOf, hdec]
  rw [hpx]
  exact ⟨_, rfl, by simp, by simp; omega, by simp; omega⟩

/-! ### header, DATA, DICT -/

theorem cgfxHeader_run (f : Buf) (h : 0x14 ≤ f.size) (hm : u32At f 0 = 0x58464743) :
    ∃ s, run cgfxHeader f ⟨0, [], 0⟩ = .ok ((), s) ∧ s.pos = 0x14 ∧ s.names = [] := by
  unfold cgfxHeader
  rw [run_bind_ok (run_u32At f _ 0 rfl (by omega))]
  simp only [hm, decide_true]
  rw [run_bind_ok (run_require_true _ _ _)]
  rw [run_bind_ok (run_u16le _ _ (by fitsC))]
  rw [run_bind_ok (run_u16le _ _ (by fitsC))]
  rw [run_bind_ok (run_u32le _ _ (by fitsC))]
  rw [run_bind_ok (run_u32le _ _ (by fitsC))]
  rw [run_bind_ok (run_u32le _ _ (by fitsC))]
  refine ⟨_, rfl, ?_, ?_⟩ <;> simp

theorem cgfxData_run (p : Profile) (f : Buf) (s : St) (hp : s.pos = 0x14) (hsize : f.size < 2 ^ 32)
    (h9c : 0x9C ≤ f.size) (hrel : ∀ j, j < 16 → Spec.Tex.selfRel f (0x20 + 8 * j) < 2 ^ 32) :
    ∃ entries s', run (cgfxData p) f s = .ok (entries, s') ∧
      entries.getD 1 0 = Spec.Tex.selfRel f 0x28 ∧ s'.names = s.names ∧ s.hi ≤ s'.hi := by
  unfold cgfxData
  rw [run_bind_ok (run_u32At f _ 0x14 hp (by omega))]
  rw [run_bind_ok (run_u32At f _ 0x18 (by fitsC) (by omega))]
  obtain ⟨as, s', hr, hl, hq, _, hn, hh⟩ :=
    repeatN_run (do let _entry_count ← u32le; selfRel p) f
      (fun i a => a = Spec.Tex.selfRel f (0x20 + 8 * i)) 8 0x1C 16 0 ((s.rd 4).rd 4)
      (by simp; omega)
      (by
        intro i st _ hi hst
        rw [run_bind_ok (run_u32At f st (0x1C + 8 * i) hst (by omega))]
        rw [selfRel_run p f _ (0x20 + 8 * i) (by simp; omega) (by omega) hsize (hrel i (by omega))]
        exact ⟨_, _, rfl, rfl, by simp, by simp, by simp; omega⟩)
  have h1 : as[1]? = some as[1] := List.getElem?_eq_getElem (by omega)
  have hq1 := hq 1 _ h1
  refine ⟨as, s', hr, ?_, by simpa using hn, by simp at hh ⊢; omega⟩
  rw [List.getD_eq_getElem?_getD, h1]
  simpa using hq1

theorem cgfxDict_run (p : Profile) (f : Buf) (s : St) (dict n : Nat) (hp : s.pos = dict)
    (hsize : f.size < 2 ^ 32) (hfit : dict + 0x1C + 16 * n ≤ f.size) (hcount : u32At f (dict + 8) = n)
    (hrel : ∀ i, i < n → Spec.Tex.selfRel f (dict + 0x1C + 16 * i + 8) < 2 ^ 32 ∧
      Spec.Tex.selfRel f (dict + 0x1C + 16 * i + 12) < 2 ^ 32) :
    ∃ objs s', run (cgfxDict p) f s = .ok (objs, s') ∧ objs.length = n ∧
      (∀ i a, objs[i]? = some a → a = Spec.Tex.selfRel f (dict + 0x1C + 16 * i + 12)) ∧
      s'.names = s.names ∧ s.hi ≤ s'.hi := by
  unfold cgfxDict
  rw [run_bind_ok (run_u32At f _ dict hp (by omega))]
  rw [run_bind_ok (run_u32At f _ (dict + 4) (by fitsC) (by omega))]
  rw [run_bind_ok (run_u32At f _ (dict + 8) (by fitsC) (by omega))]
  rw [run_bind_ok (run_skip _ _ _), hcount]
  obtain ⟨as, s', hr, hl, hq, _, hn, hh⟩ :=
    repeatN_run (do skip 8; let _filename_offset ← selfRel p; selfRel p) f
      (fun i a => a = Spec.Tex.selfRel f (dict + 0x1C + 16 * i + 12)) 16 (dict + 0x1C) n 0
      ((((s.rd 4).rd 4).rd 4).seek ((((s.rd 4).rd 4).rd 4).pos + 0x10))
      (by simp; omega)
      (by
        intro i st _ hi hst
        obtain ⟨hr1, hr2⟩ := hrel i (by omega)
        have : 16 * i + 16 ≤ 16 * n := by omega
        rw [run_bind_ok (run_skip _ _ _)]
        rw [run_bind_ok (selfRel_run p f _ (dict + 0x1C + 16 * i + 8) (by simp; omega) (by omega) hsize hr1)]
        rw [selfRel_run p f _ (dict + 0x1C + 16 * i + 12) (by simp; omega) (by omega) hsize hr2]
        exact ⟨_, _, rfl, rfl, by simp, by simp, by simp; omega⟩)
  refine ⟨as, s', hr, hl, ?_, by simpa using hn, by simp at hh ⊢; omega⟩
  intro i a ha
  simpa using hq i a ha

/-! ### the whole reader -/

theorem cgfx_full (p : Profile) (f : Buf) (texs : List Spec.Tex.Tex)
    (hc : Spec.Tex.ConformsCgfx f texs = true) :
    ∃ raws sf, run (cgfxProg p) f ⟨0, [], 0⟩ = .ok (raws, sf) ∧
      assemble sf.names.reverse raws = texs.map (unpack p) ∧
      ∀ i t, texs[i]? = some t → Spec.Tex.cgfxPayloadAt f i + t.payload.size ≤ sf.hi := by
  simp only [ConformsCgfx, Bool.and_eq_true, decide_eq_true_eq, beq_iff_eq, List.all_eq_true,
    List.mem_range] at hc
  obtain ⟨⟨⟨⟨hsize, h9c⟩, hmagic⟩, hrel⟩, ⟨hfit, hcount⟩, hall⟩ := hc
  have hent := allIdx_spec _ texs 0 hall
  -- what the specification says about texture `i`
  have hspec : ∀ i t, texs[i]? = some t →
      (Spec.Tex.selfRel f (Spec.Tex.selfRel f 0x28 + 0x1C + 16 * i + 8) < 2 ^ 32 ∧
       Spec.Tex.selfRel f (Spec.Tex.selfRel f 0x28 + 0x1C + 16 * i + 12) < 2 ^ 32) ∧
      Spec.Tex.cgfxTxob f (cgfxTxobAt f i) t = true ∧ valid3ds t = true ∧ utf8Name t = true := by
    intro i t ht
    have he := hent i t ht
    simp only [Nat.zero_add, Bool.and_eq_true, decide_eq_true_eq] at he
    obtain ⟨⟨⟨⟨a, b⟩, c⟩, d⟩, e⟩ := he
    exact ⟨⟨a, b⟩, c, d, e⟩
  obtain ⟨s0, hhdr, hp0, hn0⟩ := cgfxHeader_run f (by omega) hmagic
  obtain ⟨entries, s1, hdata, he1, hn1, _⟩ := cgfxData_run p f s0 hp0 hsize h9c hrel
  obtain ⟨objs, s2, hdict, holen, hoq, hn2, _⟩ :=
    cgfxDict_run p f (s1.seek (Spec.Tex.selfRel f 0x28)) (Spec.Tex.selfRel f 0x28) texs.length rfl
      hsize hfit hcount
      (by
        intro i hi
        exact (hspec i _ (List.getElem?_eq_getElem hi)).1)
  -- the TXOBs
  obtain ⟨txobs, s3, htxobs, htlen, htq, hn3, _⟩ :=
    mapM'_run_plain (cgfxTxob p) f (fun i x => TxobAt f (cgfxTxobAt f i) x) objs 0 s2
      (by
        intro i a s hi
        have hil : i < texs.length := by
          have := (List.getElem?_eq_some_iff.mp hi).1; omega
        obtain ⟨⟨_, hb⟩, htx, _, _⟩ := hspec i _ (List.getElem?_eq_getElem hil)
        have ha : a = cgfxTxobAt f i := hoq i a hi
        have htx' := htx
        simp only [Spec.Tex.cgfxTxob, Bool.and_eq_true, decide_eq_true_eq] at htx'
        obtain ⟨⟨⟨⟨⟨⟨⟨⟨hfitT, h1⟩, _⟩, _⟩, _⟩, _⟩, _⟩, h2⟩, _⟩ := htx'
        obtain ⟨x, s', hr, hq, hn, hh⟩ := cgfxTxob_run p f (cgfxTxobAt f i) s hsize hfitT h1 h2
        exact ⟨x, s', by rw [ha]; exact hr, by simpa using hq, hn, hh⟩)
  -- the textures
  obtain ⟨raws, s4, hraws, hrlen, hrq, hn4, _, hH⟩ :=
    mapM'_run_named (cgfxTexture p) f
      (fun i raw => ∀ t, texs[i]? = some t → raw = (t.width, t.height, pixelsOf p t))
      (fun i => ((texs.map (unpack p)).getD i ⟨[], 0, 0, #[]⟩).name)
      (fun i => cgfxPayloadAt f i + ((texs[i]?.map (fun t => t.payload.size)).getD 0)) txobs 0 s3
      (by
        intro i x s hi
        have hil : i < texs.length := by
          have := (List.getElem?_eq_some_iff.mp hi).1; omega
        have hti : texs[i]? = some texs[i] := List.getElem?_eq_getElem hil
        obtain ⟨_, htx, hvalid, hname⟩ := hspec i _ hti
        have hq := htq i x hi
        simp only [Nat.zero_add] at hq
        obtain ⟨s', hr, hn, hh, hH⟩ := cgfxTexture_run p f (cgfxTxobAt f i) texs[i] x s hq htx hvalid hname
        refine ⟨_, s', hr, ?_, ?_, hh, ?_⟩
        · intro t ht; simp only [Nat.zero_add] at ht; rw [hti] at ht; cases ht; rfl
        · simp only [Nat.zero_add, List.getD_eq_getElem?_getD, List.getElem?_map, hti, Option.map_some,
            Option.getD_some, unpack]
          exact hn
        · simp only [Nat.zero_add, hti, Option.map_some, Option.getD_some, cgfxPayloadAt]
          exact hH)
  refine ⟨raws, s4, ?_, ?_, ?_⟩
  · unfold cgfxProg
    rw [run_bind_ok hhdr]
    rw [run_bind_ok hdata]
    rw [he1, run_bind_ok (run_seekStart _ _ _)]
    rw [run_bind_ok hdict]
    rw [run_bind_ok htxobs]
    exact hraws
  · rw [hn4, hn3, hn2, St.seek_names, hn1, hn0, htlen, holen]
    simp only [List.append_nil, List.reverse_reverse, Nat.zero_add]
    apply assemble_eq texs raws (unpack p) (by omega)
    intro i r t hr ht
    have := hrq i r hr t (by simpa using ht)
    rw [this]; rfl
  · intro i t ht
    have hil : i < texs.length := (List.getElem?_eq_some_iff.mp ht).1
    have := hH i (by omega)
    simpa [ht] using this

/-- wrong magic (or fewer than four bytes) is rejected -/
theorem cgfx_bad_magic (p : Profile) (f : Buf) (h : f.size < 4 ∨ Spec.Tex.u32At f 0 ≠ 0x58464743) :
    ∃ e, run (cgfxProg p) f ⟨0, [], 0⟩ = .err e := by
  unfold cgfxProg
  by_cases h4 : f.size < 4
  · refine ⟨.Eof, run_bind_err (run_bind_err ?_)⟩
    have : ¬ (0 + 4 ≤ f.size) := by omega
    simp [u32le, run, this]
  · have hm : u32At f 0 ≠ 0x58464743 := by
      rcases h with h | h
      · exact absurd h h4
      · exact h
    refine ⟨.BadMagic, run_bind_err ?_⟩
    unfold cgfxHeader
    rw [run_bind_ok (run_u32At f _ 0 rfl (by omega))]
    apply run_bind_err
    simp only [hm, decide_false]
    exact run_require_false _ _ _

end Mila.Containers
