/-
C01: the canonical image of a well-formed content conforms to the format (`Spec.Image.Conforms`).
Together with `serialize_eq_canonical_plus` this is "the serialized image is well-formed".
-/
import MilaModel.Lemmas.SerCanon

namespace Mila.Ser
open Mila.BinArchive
open Spec.Image

/-! ### association lists with distinct keys -/

theorem find_key_of_mem {α β : Type} [DecidableEq α] : ∀ {l : List (α × β)}, (l.map (·.1)).Nodup →
    ∀ {p : α × β}, p ∈ l → l.find? (fun q => q.1 = p.1) = some p := by
  intro l
  induction l with
  | nil => intro _ p h; cases h
  | cons x xs ih =>
    intro nd p hp
    rw [List.map_cons, List.nodup_cons] at nd
    rw [List.find?_cons]
    rcases List.mem_cons.mp hp with rfl | hp'
    · simp
    · have : ¬ x.1 = p.1 := fun e => nd.1 (e ▸ List.mem_map_of_mem hp')
      simp only [this, decide_false]
      exact ih nd.2 hp'

theorem find_key_none {α β : Type} [DecidableEq α] {l : List (α × β)} {k : α}
    (h : ∀ p ∈ l, p.1 ≠ k) : l.find? (fun q => q.1 = k) = none := by
  rw [List.find?_eq_none]
  intro p hp; simpa using h p hp

/-- Looking a key up does not depend on the order of an association list with distinct keys. -/
theorem find_key_perm {α β : Type} [DecidableEq α] {l l' : List (α × β)} (nd : (l.map (·.1)).Nodup)
    (p : l.Perm l') (k : α) : l.find? (fun q => q.1 = k) = l'.find? (fun q => q.1 = k) := by
  have nd' : (l'.map (·.1)).Nodup := ((p.map _).nodup_iff).mp nd
  by_cases h : ∃ q ∈ l, q.1 = k
  · obtain ⟨q, hq, rfl⟩ := h
    rw [find_key_of_mem nd hq, find_key_of_mem nd' (p.mem_iff.mp hq)]
  · have h1 : ∀ q ∈ l, q.1 ≠ k := fun q hq e => h ⟨q, hq, e⟩
    have h2 : ∀ q ∈ l', q.1 ≠ k := fun q hq e => h ⟨q, p.mem_iff.mpr hq, e⟩
    rw [find_key_none h1, find_key_none h2]

/-- The label-table entries of one address, in table order, are that address's bucket. -/
theorem entries_filter {β : Type} : ∀ (l : List (Nat × List β)), (l.map (·.1)).Nodup → ∀ (x : Nat),
    ((l.flatMap (fun p => p.2.map (fun n => (p.1, n)))).filter (fun r => r.1 = x)).map (·.2)
      = ((l.find? (fun p => p.1 = x)).map (·.2)).getD [] := by
  intro l
  induction l with
  | nil => intro _ x; rfl
  | cons p ps ih =>
    intro nd x
    rw [List.map_cons, List.nodup_cons] at nd
    rw [List.flatMap_cons, List.filter_append, List.map_append, List.find?_cons, ih nd.2 x]
    by_cases hp : p.1 = x
    · subst hp
      have h1 : (p.2.map (fun n => (p.1, n))).filter (fun r => r.1 = p.1) = p.2.map (fun n => (p.1, n)) := by
        rw [List.filter_eq_self]; intro r hr
        obtain ⟨n, _, rfl⟩ := List.mem_map.mp hr; simp
      have h2 : ps.find? (fun q => q.1 = p.1) = none :=
        find_key_none (fun q hq e => nd.1 (e ▸ List.mem_map_of_mem hq))
      simp [h1, h2, List.map_map, Function.comp_def]
    · have h1 : (p.2.map (fun n => (p.1, n))).filter (fun r => r.1 = x) = [] := by
        rw [List.filter_eq_nil_iff]; intro r hr
        obtain ⟨n, _, rfl⟩ := List.mem_map.mp hr; simpa using hp
      simp [h1, hp]

theorem flatMap_pair_length {α : Type} (f g : α → Nat) (l : List α) :
    (l.flatMap (fun p => [f p, g p])).length = 2 * l.length := by
  induction l with
  | nil => rfl
  | cons x xs ih => simp only [List.flatMap_cons, List.length_append, List.length_cons, ih]; simp; omega

theorem flatMap_pair_getElem {α : Type} (f g : α → Nat) : ∀ (l : List α) (i : Nat) (h : i < l.length),
    (l.flatMap (fun p => [f p, g p]))[2 * i]? = some (f l[i]) ∧
    (l.flatMap (fun p => [f p, g p]))[2 * i + 1]? = some (g l[i]) := by
  intro l
  induction l with
  | nil => intro i h; cases h
  | cons x xs ih =>
    intro i h
    rw [List.flatMap_cons]
    cases i with
    | zero => simp
    | succ i =>
      have := ih i (by simpa using h)
      rw [show 2 * (i + 1) = 2 * i + 2 by omega]
      simp only [List.cons_append, List.nil_append, List.getElem?_cons_succ, List.getElem_cons_succ]
      exact this

/-! ### offsets stay inside the pool -/

theorem offsetIn_entry_le (enc : Bytes → Option Bytes) : ∀ (ks : List Bytes) (s : Bytes), s ∈ ks →
    offsetIn enc ks s + (entry enc s).length ≤ (ks.flatMap (entry enc)).length := by
  intro ks
  induction ks with
  | nil => intro _ h; cases h
  | cons x xs ih =>
    intro s hs
    simp only [offsetIn, List.flatMap_cons, List.length_append]
    by_cases hx : x = s
    · subst hx; simp
    · rw [if_neg hx]
      have := ih s (by rcases List.mem_cons.mp hs with rfl | h; exact absurd rfl hx; exact h)
      omega

/-! ### sizes of the pieces of the canonical image -/

theorem sortedLabels_perm (e : Endian) (K : Content) : (sortedLabels e K).Perm K.labels := by
  cases e <;> exact List.mergeSort_perm _ _

theorem labelEntries_length (e : Endian) (K : Content) : (labelEntries e K).length = K.labelCount := by
  unfold labelEntries Content.labelCount
  rw [List.length_flatMap]
  have : (sortedLabels e K).map (fun a => (a.2.map (fun n => (a.1, n))).length)
      = (sortedLabels e K).map (·.2.length) := by
    apply List.map_congr_left; intro a _; simp
  rw [this]
  exact ((sortedLabels_perm e K).map _).sum_nat

theorem ptrTable_perm (K : Content) : (ptrTable K).Perm K.cells := by
  unfold ptrTable Content.cells
  apply List.Perm.append
  · exact (List.mergeSort_perm _ _).map _
  · exact (stringGroups_perm (sortedStrings K)).trans ((List.mergeSort_perm _ _).map _)

theorem canonTextStart_eq (e : Endian) (K : Content) : canonTextStart e K = K.textStart := by
  unfold canonTextStart Content.textStart
  rw [(ptrTable_perm K).length_eq, labelEntries_length]

theorem canonData_length (enc : Bytes → Option Bytes) (e : Endian) (K : Content) (wf : K.WF) :
    (canonData enc e K).length = K.data.length := by
  unfold canonData
  apply length_patchWords
  intro w hw
  apply wf.inside
  unfold Content.cells
  rcases List.mem_append.mp hw with h | h
  · exact List.mem_append_left _ (List.mem_map_of_mem (List.mem_mergeSort.mp h))
  · obtain ⟨p, hp, rfl⟩ := List.mem_map.mp h
    exact List.mem_append_right _ (List.mem_map_of_mem (List.mem_mergeSort.mp hp))

theorem canonical_length (enc : Bytes → Option Bytes) (e : Endian) (K : Content) (wf : K.WF) :
    (canonical enc e K).length = 0x20 + K.textStart + (textSection enc e K).length := by
  unfold canonical
  simp only [List.length_append, words_length, List.length_replicate, canonData_length enc e K wf,
    List.length_cons, List.length_nil]
  rw [← canonTextStart_eq e K]
  unfold canonTextStart labelTable
  rw [flatMap_pair_length]
  omega


/-! ### the canonical image conforms -/

/-- The header words followed by the reserved bytes: 32 bytes. -/
def canonHeader (enc : Bytes → Option Bytes) (e : Endian) (K : Content) : Bytes :=
  words e [0x20 + canonTextStart e K + (textSection enc e K).length, K.data.length,
      (ptrTable K).length, (labelEntries e K).length] ++ List.replicate 16 0

theorem canonHeader_length (enc : Bytes → Option Bytes) (e : Endian) (K : Content) :
    (canonHeader enc e K).length = 0x20 := by
  simp [canonHeader, words_length]

theorem canonical_eq (enc : Bytes → Option Bytes) (e : Endian) (K : Content) :
    canonical enc e K = canonHeader enc e K ++ (canonData enc e K ++ (words e (ptrTable K) ++
      (words e (labelTable enc e K) ++ textSection enc e K))) := by
  simp [canonical, canonHeader, List.append_assoc]

theorem patch_cells_pairwise (enc : Bytes → Option Bytes) (e : Endian) (K : Content) (wf : K.WF) :
    (sortedPointers K ++ (sortedStrings K).map
      (fun p => (p.1, canonTextStart e K + offsetIn enc (stored e K) p.2))).Pairwise
      (fun a b => a.1 + 4 ≤ b.1 ∨ b.1 + 4 ≤ a.1) := by
  have hperm : ((sortedPointers K ++ (sortedStrings K).map
      (fun p => (p.1, canonTextStart e K + offsetIn enc (stored e K) p.2))).map (·.1)).Perm K.cells := by
    rw [List.map_append, List.map_map]
    unfold Content.cells
    apply List.Perm.append
    · exact (List.mergeSort_perm _ _).map _
    · exact (List.mergeSort_perm K.strings byAddr).map _
  have hp : (((sortedPointers K ++ (sortedStrings K).map
      (fun p => (p.1, canonTextStart e K + offsetIn enc (stored e K) p.2))).map (·.1))).Pairwise
      (fun x y => x + 4 ≤ y ∨ y + 4 ≤ x) :=
    (hperm.pairwise_iff (by intro x y h; exact h.symm)).mpr wf.disjoint
  rw [List.pairwise_map] at hp
  exact hp

theorem not_covered {K : Content} {i : Nat} (h : ¬ K.covered i) : ∀ x ∈ K.cells, i < x ∨ x + 4 ≤ i := by
  intro x hx
  by_cases h1 : i < x
  · exact Or.inl h1
  · by_cases h2 : x + 4 ≤ i
    · exact Or.inr h2
    · exact absurd ⟨x, hx, by omega, by omega⟩ h

/-- **The canonical image of a well-formed content conforms to the format.** -/
theorem canonical_conforms (enc : Bytes → Option Bytes) (e : Endian) (K : Content) (wf : K.WF)
    (encS : ∀ p ∈ K.strings, ∃ b, enc p.2 = some b)
    (encL : ∀ p ∈ K.labels, ∀ n ∈ p.2, ∃ b, enc n = some b)
    (small : (canonical enc e K).length < 2 ^ 32) :
    Conforms enc e (canonical enc e K) K := by
  have hlen := canonical_length enc e K wf
  have hts := canonTextStart_eq e K
  have hH := canonHeader_length enc e K
  have hD := canonData_length enc e K wf
  have hnp : (ptrTable K).length = K.cells.length := (ptrTable_perm K).length_eq
  have hnl := labelEntries_length e K
  have hlt : (labelTable enc e K).length = 2 * K.labelCount := by
    unfold labelTable; rw [flatMap_pair_length, hnl]
  -- cells of the patch list
  have hcellsP : ∀ w ∈ sortedPointers K, w.1 ∈ K.cells := by
    intro w hw
    exact List.mem_append_left _ (List.mem_map_of_mem (List.mem_mergeSort.mp hw))
  have hcellsS : ∀ w ∈ sortedStrings K, w.1 ∈ K.cells := by
    intro w hw
    exact List.mem_append_right _ (List.mem_map_of_mem (List.mem_mergeSort.mp hw))
  have hws_in : ∀ w ∈ sortedPointers K ++ (sortedStrings K).map
      (fun p => (p.1, canonTextStart e K + offsetIn enc (stored e K) p.2)), w.1 + 4 ≤ K.data.length := by
    intro w hw
    apply wf.inside
    rcases List.mem_append.mp hw with h | h
    · exact hcellsP w h
    · obtain ⟨p, hp, rfl⟩ := List.mem_map.mp h
      exact hcellsS p hp
  -- reading inside the data block
  have hwordD : ∀ x, x + 4 ≤ K.data.length →
      wordAt e (canonical enc e K) (0x20 + x) = wordAt e (canonData enc e K) x := by
    intro x hx
    rw [canonical_eq, ← hH, wordAt_append_right, wordAt_append_left _ _ _ _ (by rw [hD]; exact hx)]
  -- string offsets stay inside the text section
  have hstoredS : ∀ p ∈ K.strings, p.2 ∈ stored e K := by
    intro p hp
    unfold stored
    rw [mem_dedup]
    apply List.mem_append_right
    exact List.mem_map_of_mem (List.mem_mergeSort.mpr hp)
  have hstoredL : ∀ x ∈ labelEntries e K, x.2 ∈ stored e K := by
    intro x hx
    unfold stored
    rw [mem_dedup]
    exact List.mem_append_left _ (List.mem_map_of_mem hx)
  have hoffS : ∀ s ∈ stored e K, offsetIn enc (stored e K) s < (textSection enc e K).length := by
    intro s hs
    have := offsetIn_entry_le enc (stored e K) s hs
    have := entry_length_pos enc s
    unfold textSection; omega
  have hstrAt : ∀ s b, s ∈ stored e K → enc s = some b →
      StrAt (canonical enc e K) (0x20 + K.textStart + offsetIn enc (stored e K) s) b := by
    intro s b hs hb
    have hpre : canonical enc e K = (canonHeader enc e K ++ canonData enc e K ++ words e (ptrTable K) ++
        words e (labelTable enc e K)) ++ textSection enc e K := by
      rw [canonical_eq]; simp [List.append_assoc]
    have hprelen : (canonHeader enc e K ++ canonData enc e K ++ words e (ptrTable K) ++
        words e (labelTable enc e K)).length = 0x20 + K.textStart := by
      simp only [List.length_append, hH, hD, words_length, hnp, hlt]
      unfold Content.textStart; omega
    rw [hpre, ← hprelen, strAt_append_right]
    exact strAt_pool enc (stored e K) s b hs hb
  constructor
  · -- hSize
    rw [canonical_eq, canonHeader, List.append_assoc]
    have := wordAt_words e [0x20 + canonTextStart e K + (textSection enc e K).length, K.data.length,
      (ptrTable K).length, (labelEntries e K).length] (List.replicate 16 0 ++ (canonData enc e K ++ (words e (ptrTable K) ++
      (words e (labelTable enc e K) ++ textSection enc e K)))) 0 (by simp)
      (by rw [canonical_eq, canonHeader, List.append_assoc] at hlen small
          simp only [List.getElem_cons_zero]; rw [hts, ← hlen]; exact small)
    simp only [List.getElem_cons_zero, Nat.mul_zero] at this
    rw [this]
    rw [canonical_eq, canonHeader, List.append_assoc] at hlen
    rw [hlen, hts]
  · -- hData
    rw [canonical_eq, canonHeader, List.append_assoc]
    have := wordAt_words e [0x20 + canonTextStart e K + (textSection enc e K).length, K.data.length,
      (ptrTable K).length, (labelEntries e K).length] (List.replicate 16 0 ++ (canonData enc e K ++ (words e (ptrTable K) ++
      (words e (labelTable enc e K) ++ textSection enc e K)))) 1 (by simp)
      (by simp only [List.getElem_cons_succ, List.getElem_cons_zero]
          rw [hlen] at small; unfold Content.textStart at small; omega)
    simpa using this
  · -- hPtrs
    rw [canonical_eq, canonHeader, List.append_assoc]
    have := wordAt_words e [0x20 + canonTextStart e K + (textSection enc e K).length, K.data.length,
      (ptrTable K).length, (labelEntries e K).length] (List.replicate 16 0 ++ (canonData enc e K ++ (words e (ptrTable K) ++
      (words e (labelTable enc e K) ++ textSection enc e K)))) 2 (by simp)
      (by simp only [List.getElem_cons_succ, List.getElem_cons_zero]
          rw [hlen] at small; unfold Content.textStart at small; rw [hnp]; omega)
    rw [← hnp]; simpa using this
  · -- hLbls
    rw [canonical_eq, canonHeader, List.append_assoc]
    have := wordAt_words e [0x20 + canonTextStart e K + (textSection enc e K).length, K.data.length,
      (ptrTable K).length, (labelEntries e K).length] (List.replicate 16 0 ++ (canonData enc e K ++ (words e (ptrTable K) ++
      (words e (labelTable enc e K) ++ textSection enc e K)))) 3 (by simp)
      (by simp only [List.getElem_cons_succ, List.getElem_cons_zero]
          rw [hlen] at small; unfold Content.textStart at small; rw [hnl]; omega)
    rw [← hnl]; simpa using this
  · -- fits
    rw [hlen]; omega
  · -- dataEq
    intro i hi hc
    rw [canonical_eq, List.getElem?_append, if_neg (by rw [hH]; omega), hH, Nat.add_sub_cancel_left,
      List.getElem?_append, if_pos (by rw [hD]; exact hi)]
    unfold canonData
    apply getElem?_patchWords_outside e _ _ _ hws_in
    intro w hw
    apply not_covered hc
    rcases List.mem_append.mp hw with h | h
    · exact hcellsP w h
    · obtain ⟨p, hp, rfl⟩ := List.mem_map.mp h
      exact hcellsS p hp
  · -- ptrTable
    refine ⟨ptrTable K, ptrTable_perm K, ?_⟩
    intro i hi
    have hpre : canonical enc e K = (canonHeader enc e K ++ canonData enc e K) ++ (words e (ptrTable K) ++
        (words e (labelTable enc e K) ++ textSection enc e K)) := by
      rw [canonical_eq]; simp [List.append_assoc]
    have hprelen : (canonHeader enc e K ++ canonData enc e K).length = 0x20 + K.data.length := by
      simp [hH, hD]
    rw [hpre, ← hprelen, wordAt_append_right]
    apply wordAt_words e (ptrTable K) _ i hi
    have hm : (ptrTable K)[i] ∈ K.cells := (ptrTable_perm K).mem_iff.mp (List.getElem_mem hi)
    have := wf.inside _ hm
    rw [hlen] at small; unfold Content.textStart at small; omega
  · -- ptrCells
    intro p hp
    rw [hwordD p.1 (wf.inside _ (List.mem_append_left _ (List.mem_map_of_mem hp)))]
    unfold canonData
    apply wordAt_patchWords_mem e _ K.data p hws_in (patch_cells_pairwise enc e K wf)
    · exact List.mem_append_left _ (List.mem_mergeSort.mpr hp)
    · have := wf.targets p hp
      rw [hlen] at small; unfold Content.textStart at small; omega
  · -- strCells
    intro p hp
    obtain ⟨b, hb⟩ := encS p hp
    refine ⟨canonTextStart e K + offsetIn enc (stored e K) p.2, b, ?_, by rw [hts]; omega, hb, ?_⟩
    · rw [hwordD p.1 (wf.inside _ (List.mem_append_right _ (List.mem_map_of_mem hp)))]
      unfold canonData
      apply wordAt_patchWords_mem e _ K.data
        (p.1, canonTextStart e K + offsetIn enc (stored e K) p.2) hws_in (patch_cells_pairwise enc e K wf)
      · apply List.mem_append_right
        exact List.mem_map.mpr ⟨p, List.mem_mergeSort.mpr hp, rfl⟩
      · have := hoffS p.2 (hstoredS p hp)
        rw [hlen] at small; rw [hts]
        show K.textStart + offsetIn enc (stored e K) p.2 < 2 ^ 32
        omega
    · rw [hts, ← Nat.add_assoc]
      exact hstrAt p.2 b (hstoredS p hp) hb
  · -- lblTable
    refine ⟨(labelEntries e K).map (fun p => (p.1, offsetIn enc (stored e K) p.2, p.2)), ?_, ?_, ?_⟩
    · rw [List.length_map, hnl]
    · intro i hi
      rw [List.length_map] at hi
      have hpre : canonical enc e K = (canonHeader enc e K ++ canonData enc e K ++ words e (ptrTable K)) ++
          (words e (labelTable enc e K) ++ textSection enc e K) := by
        rw [canonical_eq]; simp [List.append_assoc]
      have hprelen : (canonHeader enc e K ++ canonData enc e K ++ words e (ptrTable K)).length
          = 0x20 + K.data.length + 4 * K.cells.length := by
        simp only [List.length_append, hH, hD, words_length, hnp]
      have hpair := flatMap_pair_getElem (fun p : Nat × Bytes => p.1)
        (fun p : Nat × Bytes => offsetIn enc (stored e K) p.2) (labelEntries e K) i hi
      have hmem : (labelEntries e K)[i] ∈ labelEntries e K := List.getElem_mem hi
      have hi2 : 2 * i + 1 < (labelTable enc e K).length := by rw [hlt, ← hnl]; omega
      have haddr : (labelEntries e K)[i].1 ≤ K.data.length := by
        obtain ⟨q, hq, hx⟩ := List.mem_flatMap.mp hmem
        obtain ⟨n, _, hx⟩ := List.mem_map.mp hx
        rw [← hx]
        exact wf.labelAddrs q ((sortedLabels_perm e K).mem_iff.mp hq)
      rw [hlen] at small
      unfold Content.textStart at small
      simp only [List.getElem_map]
      refine ⟨?_, ?_, ?_⟩
      · rw [hpre, ← hprelen, show 8 * i = 4 * (2 * i) by omega, wordAt_append_right]
        have h0 : (labelTable enc e K)[2 * i]'(by omega) = (labelEntries e K)[i].1 := by
          have := hpair.1
          unfold labelTable
          rw [List.getElem?_eq_getElem (by unfold labelTable at hi2; omega)] at this
          exact Option.some.inj this
        rw [← h0]
        apply wordAt_words e (labelTable enc e K) _ (2 * i) (by omega)
        rw [h0]; omega
      · rw [hpre, ← hprelen, Nat.add_assoc, show 8 * i + 4 = 4 * (2 * i + 1) by omega, wordAt_append_right]
        have h1 : (labelTable enc e K)[2 * i + 1]'hi2 = offsetIn enc (stored e K) (labelEntries e K)[i].2 := by
          have := hpair.2
          unfold labelTable
          rw [List.getElem?_eq_getElem (by unfold labelTable at hi2; omega)] at this
          exact Option.some.inj this
        rw [← h1]
        apply wordAt_words e (labelTable enc e K) _ (2 * i + 1) hi2
        rw [h1]
        have := hoffS _ (hstoredL _ hmem)
        omega
      · obtain ⟨q, hq, hx⟩ := List.mem_flatMap.mp hmem
        obtain ⟨n, hn, hx⟩ := List.mem_map.mp hx
        obtain ⟨b, hb⟩ := encL q ((sortedLabels_perm e K).mem_iff.mp hq) n hn
        have hn2 : (labelEntries e K)[i].2 = n := by rw [← hx]
        exact ⟨b, by rw [hn2]; exact hb, hstrAt _ b (hstoredL _ hmem) (by rw [hn2]; exact hb)⟩
    · intro x
      rw [List.filter_map, List.map_map]
      have nd : ((sortedLabels e K).map (·.1)).Nodup :=
        (((sortedLabels_perm e K).map _).nodup_iff).mpr wf.labelKeys
      have := entries_filter (sortedLabels e K) nd x
      unfold Content.labelsAt
      rw [← find_key_perm nd (sortedLabels_perm e K) x, ← this]
      rfl

end Mila.Ser
