/-
C18: `from_stream` on a laid-out record, `from_archive` on a laid-out binary.
-/
import MilaModel.Lemmas.AssetLayout

namespace Mila.Asset
open Mila BinArchive Layered

theorem strs_rebuild (s : AssetSpec) (h : s.strs.length = 33) :
    (List.range' 1 31).map (strField s) ++ [32, 33].map (strField s) = s.strs := by
  rw [← List.map_append, show List.range' 1 31 ++ [32, 33] = List.range' 1 33 from by decide]
  apply List.ext_getElem?
  intro k
  by_cases hk : k < 33
  · rw [List.getElem?_map, List.getElem?_range' hk]
    simp only [Option.map_some, strField]
    rw [show 1 + 1 * k - 1 = k by omega, List.getElem?_eq_getElem (by omega)]
    simp
  · rw [List.getElem?_eq_none (by simp; omega), List.getElem?_eq_none (by omega)]

theorem normalizeVals_eq (vals : List (Bool × Bytes)) :
    Spec.Asset.normalizeVals vals = vals.map normVal := rfl

theorem vals_rebuild (s : AssetSpec) (h : s.vals.length = 18) :
    (List.range' 34 18).map (fun i => normVal (valField s i)) = Spec.Asset.normalizeVals s.vals := by
  rw [normalizeVals_eq]
  apply List.ext_getElem?
  intro k
  by_cases hk : k < 18
  · rw [List.getElem?_map, List.getElem?_range' hk, List.getElem?_map]
    simp only [Option.map_some, valField]
    rw [show 34 + 1 * k - 34 = k by omega, List.getD_eq_getElem?_getD, List.getElem?_eq_getElem (by omega)]
    simp
  · rw [List.getElem?_eq_none (by simp; omega), List.getElem?_eq_none (by simp; omega)]

theorem present_val (s : AssetSpec) (i : Nat) (h1 : 34 ≤ i) (h2 : i ≤ 51) :
    present s i = (valField s i).1 := by
  unfold present
  have : ¬ i = 0 := by omega
  have h33 : ¬ i ≤ 33 := by omega
  simp [this, h33, h2]

theorem present_str (s : AssetSpec) (i : Nat) (h1 : 1 ≤ i) (h2 : i ≤ 33) :
    present s i = (strField s i).isSome := by
  unfold present
  have : ¬ i = 0 := by omega
  simp [this, h2]

theorem fieldsCells_append (s : AssetSpec) (xs ys : List Nat) :
    fieldsCells s (xs ++ ys) = fieldsCells s xs ++ fieldsCells s ys := by
  simp [fieldsCells]

/-- **Reader correctness for one record.** -/
theorem fromStream_layout (s : AssetSpec) (hwf : SpecWF s) (b : BinArchive) (he : b.endian = .little)
    (hsmall : b.size < 2 ^ 64) (p : Nat) (hc : cellsAt b p (recordCells s)) :
    fromStream b ⟨p⟩ = .ok (normalize s, ⟨p + 4 * (recordCells s).length⟩) := by
  unfold recordCells at hc
  rw [cellsAt_append, cellsAt_append, cellsAt_append] at hc
  obtain ⟨⟨⟨hflagsC, hnameC⟩, hf1⟩, hf2⟩ := hc
  obtain ⟨raw, more, hu8, hbytes, hflags, hlong⟩ := read_flags s b hsmall p hflagsC
  have hfl : (flagCells s).length * 4 = (finalFlags s).length := by
    rw [finalFlags_length]; unfold flagCells; by_cases hl : isLong s <;> simp [hl]
  have hnameC' : cellAt b (p + (finalFlags s).length) (.str s.name) := by
    have := hnameC.1; rwa [show p + 4 * (flagCells s).length = p + (finalFlags s).length by omega] at this
  have hlen4 : 4 ≤ (finalFlags s).length := by rw [finalFlags_length]; split <;> omega
  unfold fromStream
  rw [hu8]
  simp only
  rw [hbytes]
  simp only
  rw [hflags, readString_str hnameC']
  simp only
  have hpos1 : p + (finalFlags s).length + 4 = p + 4 * (flagCells s ++ [Cell.str s.name]).length := by
    simp only [List.length_append, List.length_cons, List.length_nil]; omega
  rw [hpos1]
  rw [readStrs_layout s b (List.range' 1 31) _
    (fun i hi => by have := List.mem_range'_1.1 hi; omega) hf1]
  simp only
  by_cases hl : isLong s
  · have hgt : (if raw &&& 1 = 1 then 7 else 3) > 3 := hlong.2 hl
    simp only [hl, if_true] at hf2
    rw [show List.range' 32 20 = [32, 33] ++ List.range' 34 18 from by decide, fieldsCells_append,
      cellsAt_append] at hf2
    have hlen8 : (finalFlags s).length = 8 := by rw [finalFlags_length]; simp [hl]
    have hposB : p + 4 * (flagCells s ++ [Cell.str s.name] ++ fieldsCells s (List.range' 1 31)).length
        = p + 4 * (flagCells s ++ [Cell.str s.name]).length + 4 * (fieldsCells s (List.range' 1 31)).length := by
      simp only [List.length_append]; omega
    rw [hposB] at hf2
    rw [if_pos hgt]
    rw [readStrs_layout s b [32, 33] _ (fun i hi => by simp at hi; omega) hf2.1]
    simp only
    rw [readVals_layout s hwf b he hsmall (List.range' 34 18) _
      (fun i hi => by have := List.mem_range'_1.1 hi; omega) hf2.2]
    simp only [Res.ok.injEq, Prod.mk.injEq]
    refine ⟨?_, ?_⟩
    · unfold normalize
      rw [strs_rebuild s hwf.1, vals_rebuild s hwf.2.1]
    · congr 1
      simp only [recordCells, hl, if_true, List.length_append,
        show List.range' 32 20 = [32, 33] ++ List.range' 34 18 from by decide, fieldsCells_append]
      omega
  · have hngt : ¬ (if raw &&& 1 = 1 then 7 else 3) > 3 := fun e => hl (hlong.1 e)
    rw [if_neg hngt]
    simp only [Res.ok.injEq, Prod.mk.injEq]
    refine ⟨?_, ?_⟩
    · unfold normalize
      have h32 : strField s 32 = none := by
        have := present_of_short s hl 32 (by omega)
        rw [present_str s 32 (by omega) (by omega)] at this
        cases hh : strField s 32 <;> simp_all
      have h33 : strField s 33 = none := by
        have := present_of_short s hl 33 (by omega)
        rw [present_str s 33 (by omega) (by omega)] at this
        cases hh : strField s 33 <;> simp_all
      have hs := strs_rebuild s hwf.1
      simp only [List.map_cons, List.map_nil, h32, h33] at hs
      have hv := vals_rebuild s hwf.2.1
      have hall : (List.range' 34 18).map (fun i => normVal (valField s i))
          = (List.range' 34 18).map (fun _ => ((false, zero4) : Bool × Bytes)) := by
        apply List.map_congr_left
        intro i hi
        have := List.mem_range'_1.1 hi
        have hp := present_of_short s hl i (by omega)
        rw [present_val s i (by omega) (by omega)] at hp
        simp [normVal, hp]
      rw [hall, List.map_const'] at hv
      rw [hs, ← hv]
      simp
    · congr 1
      simp only [recordCells, hl, if_false, List.length_append, List.length_nil]
      omega

/-! ### the whole binary -/

def specsCells (specs : List AssetSpec) : List Cell := specs.flatMap recordCells

def fileCells (b : AssetBinary) : List Cell :=
  [.raw (leBytes 4 b.flags)] ++ specsCells b.specs ++ [.raw zero4]

/-- The declarative layout of an asset-binary archive holding `v`. -/
structure Layout (v : AssetBinary) (b : BinArchive) : Prop where
  little : b.endian = .little
  size : b.size = 4 * (fileCells v).length
  small : b.size < 2 ^ 64
  cells : cellsAt b 0 (fileCells v)

theorem recordCells_length_pos (s : AssetSpec) : 2 ≤ (recordCells s).length := by
  unfold recordCells flagCells
  by_cases hl : isLong s <;> simp [hl] <;> omega

/-- The four zero bytes at the end are not a record: its name cell falls outside the data. -/
theorem fromStream_terminator (b : BinArchive) (hsmall : b.size < 2 ^ 64) (p : Nat) (hc : cellAt b p (.raw zero4))
    (hs : b.size = p + 4) : ∃ e, fromStream b ⟨p⟩ = .err e := by
  obtain ⟨hfit, hsl, _⟩ := hc
  have hp : p < b.data.length := by unfold size at hfit; omega
  have h0 : (b.data.getD p 0).toNat = 0 := by
    have := congrArg (fun l => l[0]?) hsl
    simp only [getElem?_slice, zero4] at this
    simp at this
    rw [List.getD_eq_getElem?_getD, this]; rfl
  unfold fromStream
  rw [readU8_at (by unfold size; exact hp), h0]
  simp only [Nat.zero_and, Nat.zero_ne_one, if_false]
  rw [readBytes_slice b hsmall 3 (p + 1) (by omega)]
  simp only
  rw [show p + 1 + 3 = p + 4 by omega, readString_eof (by omega)]
  exact ⟨_, rfl⟩

theorem readSpecs_layout (b : BinArchive) (he : b.endian = .little) (hsmall : b.size < 2 ^ 64) :
    ∀ (specs : List AssetSpec) (p : Nat) (acc : List AssetSpec), (∀ s ∈ specs, SpecWF s) →
      b.size = p + 4 * (specsCells specs).length + 4 →
      cellsAt b p (specsCells specs ++ [.raw zero4]) →
      readSpecs b ⟨p⟩ acc = .ok (acc ++ specs.map normalize) := by
  intro specs
  induction specs with
  | nil =>
    intro p acc _ hs hc
    simp only [specsCells, List.flatMap_nil, List.length_nil, Nat.mul_zero, Nat.add_zero,
      List.nil_append] at hs hc
    obtain ⟨e, he'⟩ := fromStream_terminator b hsmall p hc.1 hs
    rw [readSpecs]
    split
    · rename_i heq; rw [he'] at heq; simp at heq
    · simp
    · rename_i heq; rw [he'] at heq; simp at heq
  | cons s rest ih =>
    intro p acc hwf hs hc
    simp only [specsCells, List.flatMap_cons, List.length_append, List.append_assoc] at hs hc
    rw [cellsAt_append] at hc
    have hread := fromStream_layout s (hwf s (by simp)) b he hsmall p hc.1
    rw [readSpecs]
    split
    · rename_i spec r' heq
      rw [hread] at heq
      simp only [Res.ok.injEq, Prod.mk.injEq] at heq
      rw [← heq.1, ← heq.2]
      rw [ih _ _ (fun t ht => hwf t (by simp [ht])) (by simp only [specsCells]; omega) hc.2]
      simp
    · rename_i e heq; rw [hread] at heq; simp at heq
    · rename_i heq; rw [hread] at heq; simp at heq

/-- Domain of the property: 32-bit header flags, every spec in its domain. -/
def BinaryWF (v : AssetBinary) : Prop := v.flags < 2 ^ 32 ∧ ∀ s ∈ v.specs, SpecWF s

def normalizeBinary (v : AssetBinary) : AssetBinary := ⟨v.flags, v.specs.map normalize⟩

/-- **Reader correctness**: on every archive with the layout of `v`, `from_archive` returns `v`
with its typed fields normalised. -/
theorem fromArchive_layout (v : AssetBinary) (hwf : BinaryWF v) (b : BinArchive) (h : Layout v b) :
    fromArchive b = .ok (normalizeBinary v) := by
  have hc := h.cells
  unfold fileCells at hc
  rw [List.append_assoc, cellsAt_append] at hc
  simp only [fromArchive, readU32_raw h.little hc.1.1, ofLe_leBytes4 _ hwf.1]
  have hs : b.size = 4 + 4 * (specsCells v.specs).length + 4 := by
    rw [h.size]; simp only [fileCells, List.length_append, List.length_cons, List.length_nil]; omega
  have hc2 := hc.2
  simp only [List.length_cons, List.length_nil] at hc2
  rw [readSpecs_layout b h.little h.small v.specs 4 [] hwf.2 hs (by simpa using hc2)]
  simp [normalizeBinary]

theorem Layout.transfer {v : AssetBinary} {a b : BinArchive} (hp : Plain a) (hl : Layout v a)
    (h : SameContent a b) : Layout v b :=
  ⟨by rw [h.endian]; exact hl.little, by rw [h.size]; exact hl.size, by rw [h.size]; exact hl.small,
    cellsAt_transfer hp h _ 0 (by decide) hl.cells⟩

end Mila.Asset
