/-
C20: the GameCube/Wii palette-image path of `tpl.rs` — `ColorFormat::decode` of an RGB5A3 palette,
`block_to_sequential` for 8×4 blocks, `crop`, `ColorFormat::decode_indexed` — and their
composition `tplDecodeImage 2 palette 9 h w image`: pixel `(x, y)` is the palette entry whose index
sits at `ci8Offset (pad8 w) x y` of the image data, for every width and height from 1 up.
-/
import MilaModel.Lemmas.PixelLoops
import MilaModel.Spec.Morton

namespace Mila.Pixel
open Spec.Morton

/-! ### four pushes -/

theorem push4_size (out : Buf) (a b c d : UInt8) :
    ((((out.push a).push b).push c).push d).size = out.size + 4 := by
  simp only [Array.size_push]

theorem push_getD (out : Buf) (a : UInt8) (i : Nat) :
    (out.push a).getD i 0 = if i = out.size then a else out.getD i 0 := by
  simp only [Array.getD_eq_getD_getElem?, Array.getElem?_push]
  split <;> simp

/-- Reading after four pushes: below the old size nothing changed. -/
theorem push4_getD_lt (out : Buf) (a b c d : UInt8) (i : Nat) (h : i < out.size) :
    ((((out.push a).push b).push c).push d).getD i 0 = out.getD i 0 := by
  simp only [push_getD, Array.size_push]
  rw [if_neg (by omega), if_neg (by omega), if_neg (by omega), if_neg (by omega)]

/-- Reading after four pushes: the four new cells. -/
theorem push4_getD_new (out : Buf) (a b c d : UInt8) :
    ((((out.push a).push b).push c).push d).getD out.size 0 = a ∧
    ((((out.push a).push b).push c).push d).getD (out.size + 1) 0 = b ∧
    ((((out.push a).push b).push c).push d).getD (out.size + 2) 0 = c ∧
    ((((out.push a).push b).push c).push d).getD (out.size + 3) 0 = d := by
  simp only [push_getD, Array.size_push]
  refine ⟨?_, ?_, ?_, ?_⟩ <;> (repeat' split) <;> first | rfl | omega | (exfalso; simp_all)

/-! ### `ColorFormat::decode` for RGB5A3 -/

/-- `out` holds the first `k` decoded palette entries. -/
def DecPre (data : Buf) (k : Nat) (out : Buf) : Prop :=
  out.size = 4 * k ∧
    ∀ i c, i < k → c < 4 → out.getD (4 * i + c) 0 = chanByte (decodeRgb5a3 (data.beN (2 * i) 2)) c

theorem decodeLoop_rgb5a3 (data : Buf) : ∀ n k out, DecPre data k out →
    DecPre data (k + n) (decodeLoop .RGB5A3 data n (2 * k) out) := by
  intro n
  induction n with
  | zero => intro k out h; simpa [decodeLoop] using h
  | succ n ih =>
    intro k out h
    obtain ⟨hs, hg⟩ := h
    have e : 2 * k + 2 = 2 * (k + 1) := by omega
    have e' : k + (n + 1) = k + 1 + n := by omega
    simp only [decodeLoop]
    rw [e, e']
    apply ih
    refine ⟨?_, ?_⟩
    · simp only [pushRgba, Array.size_push]; omega
    · intro i c hi hc
      simp only [pushRgba]
      by_cases hik : i < k
      · rw [push4_getD_lt _ _ _ _ _ _ (by omega)]
        exact hg i c hik hc
      · have hik' : i = k := by omega
        subst hik'
        obtain ⟨h0, h1, h2, h3⟩ := push4_getD_new out (UInt8.ofNat (decodeRgb5a3 (data.beN (2 * i) 2)).r)
          (UInt8.ofNat (decodeRgb5a3 (data.beN (2 * i) 2)).g) (UInt8.ofNat (decodeRgb5a3 (data.beN (2 * i) 2)).b)
          (UInt8.ofNat (decodeRgb5a3 (data.beN (2 * i) 2)).a)
        rw [hs] at h0 h1 h2 h3
        have hc' : c = 0 ∨ c = 1 ∨ c = 2 ∨ c = 3 := by omega
        rcases hc' with rfl | rfl | rfl | rfl
        · exact h0
        · exact h1
        · exact h2
        · exact h3

/-- `ColorFormat::RGB5A3.decode`: big-endian 16-bit values, four bytes out per value. -/
theorem rgb5a3_decode (data : Buf) (he : data.size % 2 = 0) :
    ∃ out, ColorFormat.RGB5A3.decode data = .ok out ∧ out.size = 4 * (data.size / 2) ∧
      ∀ i c, i < data.size / 2 → c < 4 →
        out.getD (4 * i + c) 0 = chanByte (decodeRgb5a3 (data.beN (2 * i) 2)) c := by
  have h := decodeLoop_rgb5a3 data (data.size / 2) 0 #[] ⟨by simp, by intro i c hi; omega⟩
  refine ⟨decodeLoop .RGB5A3 data (data.size / 2) 0 #[], ?_, ?_, ?_⟩
  · simp [ColorFormat.decode, ColorFormat.isIndexed, ColorFormat.bytesPerPixel, he]
  · have := h.1; simp only [Nat.mul_zero, Nat.zero_add] at this; exact this
  · intro i c hi hc
    exact h.2 i c (by omega) hc

/-! ### `ColorFormat::decode_indexed` for CI8 -/

/-- `out` holds the first `k` looked-up pixels. -/
def IdxPre (data palette : Buf) (k : Nat) (out : Buf) : Prop :=
  out.size = 4 * k ∧
    ∀ i c, i < k → c < 4 → out.getD (4 * i + c) 0 = palette.getD (data.byteAt i * 4 + c) 0

theorem indexedLoop_ok (data palette : Buf) (N : Nat)
    (hidx : ∀ i, i < N → data.byteAt i < palette.size / 4) :
    ∀ n k out, k + n ≤ N → IdxPre data palette k out →
      ∃ out', indexedLoop data palette n k out = .ok out' ∧ IdxPre data palette (k + n) out' := by
  intro n
  induction n with
  | zero => intro k out _ h; exact ⟨out, rfl, h⟩
  | succ n ih =>
    intro k out hk h
    obtain ⟨hs, hg⟩ := h
    have hlt := hidx k (by omega)
    have e' : k + (n + 1) = k + 1 + n := by omega
    simp only [indexedLoop, ge_iff_le]
    rw [if_neg (by omega), e']
    apply ih (k + 1) _ (by omega)
    refine ⟨by simp only [Array.size_push]; omega, ?_⟩
    intro i c hi hc
    by_cases hik : i < k
    · rw [push4_getD_lt _ _ _ _ _ _ (by omega)]
      exact hg i c hik hc
    · have hik' : i = k := by omega
      subst hik'
      obtain ⟨h0, h1, h2, h3⟩ := push4_getD_new out (palette.getD (data.byteAt i * 4) 0)
        (palette.getD (data.byteAt i * 4 + 1) 0) (palette.getD (data.byteAt i * 4 + 2) 0)
        (palette.getD (data.byteAt i * 4 + 3) 0)
      rw [hs] at h0 h1 h2 h3
      have hc' : c = 0 ∨ c = 1 ∨ c = 2 ∨ c = 3 := by omega
      rcases hc' with rfl | rfl | rfl | rfl
      · exact h0
      · exact h1
      · exact h2
      · exact h3

/-- `ColorFormat::CI8.decode_indexed`: four palette bytes per index byte. -/
theorem decodeIndexed_ci8 (data palette : Buf) (hp : palette.size % 4 = 0)
    (hidx : ∀ i, i < data.size → data.byteAt i < palette.size / 4) :
    ∃ out, ColorFormat.CI8.decodeIndexed data palette = .ok out ∧ out.size = 4 * data.size ∧
      ∀ i c, i < data.size → c < 4 →
        out.getD (4 * i + c) 0 = palette.getD (data.byteAt i * 4 + c) 0 := by
  obtain ⟨out, ho, hs, hg⟩ := indexedLoop_ok data palette data.size hidx data.size 0 #[] (by omega)
    ⟨by simp, by intro i c hi; omega⟩
  refine ⟨out, ?_, by omega, fun i c hi hc => hg i c (by omega) hc⟩
  simp [ColorFormat.decodeIndexed, ColorFormat.isIndexed, hp, ho]

/-! ### `block_to_sequential` for 8×4 blocks -/

/-- Cell `(x, y)` is written before the step `(bn, bi)` of the block walk (`nb` blocks per row). -/
def BlkBefore (nb bn bi x y : Nat) : Prop :=
  y / 4 * nb + x / 8 < bn ∨ (y / 4 * nb + x / 8 = bn ∧ y % 4 * 8 + x % 8 < bi)

structure BlkInv (image : Buf) (aw ah bn bi : Nat) (s : Buf) : Prop where
  size : s.size = ah * aw
  px : ∀ x y, x < aw → y < ah → BlkBefore (aw / 8) bn bi x y →
    s.getD (y * aw + x) 0 = image.getD (ci8Offset aw x y) 0

/-- The area in blocks. -/
theorem area_blocks {aw ah : Nat} (hw : aw % 8 = 0) (hh : ah % 4 = 0) :
    ah * aw = ah / 4 * (aw / 8) * 32 := by
  have h1 : ah / 4 * 4 * (aw / 8 * 8) = ah / 4 * (aw / 8) * (4 * 8) := Nat.mul_mul_mul_comm _ _ _ _
  have h2 : ah / 4 * 4 = ah := by omega
  have h3 : aw / 8 * 8 = aw := by omega
  rw [h2, h3] at h1
  exact h1

theorem b2sStep_ok {image : Buf} {aw ah bn bi : Nat} (hw : aw % 8 = 0) (hh : ah % 4 = 0)
    (hd : image.size = ah * aw) (hbn : bn < ah / 4 * (aw / 8)) (hbi : bi < 32) (s : Buf)
    (inv : BlkInv image aw ah bn bi s) :
    BlkInv image aw ah bn (bi + 1) (b2sStep image aw 8 4 (aw / 8) 32 bn bi s) := by
  have harea := area_blocks hw hh
  have hnb : 0 < aw / 8 := by
    rcases Nat.eq_zero_or_pos (aw / 8) with h | h
    · rw [h] at hbn; simp at hbn
    · exact h
  have hbc : bn % (aw / 8) < aw / 8 := Nat.mod_lt _ hnb
  have hbr : bn / (aw / 8) < ah / 4 := (Nat.div_lt_iff_lt_mul hnb).2 hbn
  have hdm : bn / (aw / 8) * (aw / 8) + bn % (aw / 8) = bn := by
    rw [Nat.mul_comm]; exact Nat.div_add_mod bn (aw / 8)
  simp only [b2sStep]
  generalize bn / (aw / 8) = br at *
  generalize bn % (aw / 8) = bc at *
  have hX : bc * 8 + bi % 8 < aw := by omega
  have hY : br * 4 + bi / 8 < ah := by omega
  have hidx := idx_lt hX hY
  have hout : br * aw * 4 + bi / 8 * aw + bc * 8 + bi % 8 = (br * 4 + bi / 8) * aw + (bc * 8 + bi % 8) := by
    rw [Nat.add_mul, Nat.mul_right_comm br 4 aw]; omega
  have hin : bn * 32 + bi < image.size := by
    have : (bn + 1) * 32 ≤ ah / 4 * (aw / 8) * 32 := Nat.mul_le_mul_right _ hbn
    omega
  rw [hout, if_pos ⟨hin, by rw [inv.size]; exact hidx⟩]
  refine ⟨by rw [Array.size_setIfInBounds]; exact inv.size, ?_⟩
  intro x y hx hy hbef
  rw [getD_setIfInBounds]
  by_cases hsame : x = bc * 8 + bi % 8 ∧ y = br * 4 + bi / 8
  · obtain ⟨rfl, rfl⟩ := hsame
    rw [if_pos ⟨rfl, by rw [inv.size]; exact hidx⟩]
    have hoff : ci8Offset aw (bc * 8 + bi % 8) (br * 4 + bi / 8) = bn * 32 + bi := by
      unfold ci8Offset
      have h1 : (br * 4 + bi / 8) / 4 = br := by omega
      have h2 : (bc * 8 + bi % 8) / 8 = bc := by omega
      have h3 : (br * 4 + bi / 8) % 4 = bi / 8 := by omega
      have h4 : (bc * 8 + bi % 8) % 8 = bi % 8 := by omega
      rw [h1, h2, h3, h4]
      omega
    rw [hoff]
  · have hne : (br * 4 + bi / 8) * aw + (bc * 8 + bi % 8) ≠ y * aw + x := by
      intro heq
      have := idx_inj hX hx heq
      omega
    rw [if_neg (fun h => hne h.1)]
    apply inv.px x y hx hy
    rcases hbef with hb | ⟨hb1, hb2⟩
    · exact Or.inl hb
    · refine Or.inr ⟨hb1, ?_⟩
      have hlt : y % 4 * 8 + x % 8 ≠ bi := by
        intro heq
        have hx8 : x / 8 < aw / 8 := by omega
        have := idx_inj hx8 hbc (hb1.trans hdm.symm)
        omega
      omega

/-- `block_to_sequential` with 8×4 blocks on a whole number of blocks: cell `(x, y)` of the
row-major result is the byte at the block position `ci8Offset aw x y`. -/
theorem blockToSequential_ci8 {image : Buf} {aw ah : Nat} (hw : aw % 8 = 0) (hh : ah % 4 = 0)
    (hd : image.size = ah * aw) :
    ∃ seq, blockToSequential image aw ah 8 4 = .ok seq ∧ seq.size = ah * aw ∧
      ∀ x y, x < aw → y < ah → seq.getD (y * aw + x) 0 = image.getD (ci8Offset aw x y) 0 := by
  have harea := area_blocks hw hh
  have hnum : aw * ah / 32 = ah / 4 * (aw / 8) := by
    rw [Nat.mul_comm aw ah, harea]; exact Nat.mul_div_cancel _ (by decide)
  have outer := forRange_inv
    (fun bn s => forRange 32 (fun bi s => .ok (b2sStep image aw 8 4 (aw / 8) 32 bn bi s)) s)
    (fun bn s => BlkInv image aw ah bn 0 s) (ah / 4 * (aw / 8)) (Buf.zeros (aw * ah))
    ⟨by simp [Buf.zeros, Nat.mul_comm], by intro x y _ _ hbef; unfold BlkBefore at hbef; omega⟩
    (by
      intro bn s hbn inv
      have inner := forRange_inv (fun bi s => Res.ok (b2sStep image aw 8 4 (aw / 8) 32 bn bi s))
        (fun bi s => BlkInv image aw ah bn bi s) 32 s inv
        (fun bi s hbi inv => ⟨_, rfl, b2sStep_ok hw hh hd hbn hbi s inv⟩)
      obtain ⟨s', hs', inv'⟩ := inner
      refine ⟨s', hs', inv'.size, ?_⟩
      intro x y hx hy hbef
      apply inv'.px x y hx hy
      unfold BlkBefore at hbef ⊢
      omega)
  obtain ⟨seq, hseq, inv⟩ := outer
  refine ⟨seq, ?_, inv.size, ?_⟩
  · rw [← hnum] at hseq
    exact hseq
  · intro x y hx hy
    apply inv.px x y hx hy
    have hx8 : x / 8 < aw / 8 := by omega
    have hy4 : y / 4 < ah / 4 := by omega
    exact Or.inl (idx_lt hx8 hy4)

/-! ### `crop` -/

theorem crop_ok {seq : Buf} {aw ah w h : Nat} (hw : w ≤ aw) (hh : h ≤ ah) (hs : seq.size = ah * aw) :
    ∃ out, crop seq aw w h = .ok out ∧ out.size = h * w ∧
      ∀ x y, x < w → y < h → out.getD (y * w + x) 0 = seq.getD (y * aw + x) 0 := by
  apply forRange_inv _ (fun r out => out.size = r * w ∧
      ∀ x y, x < w → y < r → out.getD (y * w + x) 0 = seq.getD (y * aw + x) 0) h #[]
    ⟨by simp, by intro x y _ hy; omega⟩
  intro r out hr inv
  obtain ⟨hsz, hg⟩ := inv
  have hle : r * aw + w ≤ seq.size := by
    have : (r + 1) * aw ≤ ah * aw := Nat.mul_le_mul_right aw (by omega)
    rw [Nat.succ_mul] at this
    omega
  refine ⟨out ++ seq.extract (r * aw) (r * aw + w), by simp only [if_pos hle], ?_, ?_⟩
  · rw [Array.size_append, Array.size_extract, hsz, Nat.succ_mul]; omega
  · intro x y hx hy
    simp only [Array.getD_eq_getD_getElem?, Array.getElem?_append, Array.getElem?_extract]
    by_cases hyr : y < r
    · have := idx_lt hx hyr
      rw [if_pos (by omega)]
      have := hg x y hx hyr
      simpa only [Array.getD_eq_getD_getElem?] using this
    · have hyr' : y = r := by omega
      subst hyr'
      rw [if_neg (by omega), if_pos (by omega)]
      have : y * w + x - out.size = x := by omega
      rw [this]

/-! ### the composition of `tpl.rs` -/

theorem align_8 (w : Nat) : align w 8 = pad8 w := by
  simp only [align, pad8]
  split
  · omega
  · split <;> omega

theorem align_4 (h : Nat) : align h 4 = (h + 3) / 4 * 4 := by
  simp only [align]
  split
  · omega
  · split <;> omega

/-- A CI8 image (8×4 blocks, any size ≥ 1) with an RGB5A3 palette, through block_to_sequential,
crop and decode_indexed: pixel (x, y) is the palette entry whose index sits at the block position
`ci8Offset (pad8 w) x y` of the image data. -/
theorem ci8_decode (palette image : Buf) (w h : Nat) (hw : 0 < w) (hh : 0 < h)
    (hp : palette.size % 2 = 0)
    (hi : image.size = ((h + 3) / 4 * 4) * pad8 w)
    (hidx : ∀ x y, x < w → y < h →
      (image.getD (ci8Offset (pad8 w) x y) 0).toNat < palette.size / 2) :
    ∃ out, tplDecodeImage 2 palette 9 h w image = .ok out ∧ out.size = 4 * (h * w) ∧
      ∀ x y c, x < w → y < h → c < 4 →
        out.getD ((y * w + x) * 4 + c) 0 =
          chanByte (decodeRgb5a3 (palette.beN (2 * (image.getD (ci8Offset (pad8 w) x y) 0).toNat) 2)) c := by
  have _ := hh -- not needed: an image without rows decodes to the empty buffer
  obtain ⟨pal, hpal, hpsz, hpg⟩ := rgb5a3_decode palette hp
  have haw := align_8 w
  have hah := align_4 h
  have hw8 : pad8 w % 8 = 0 ∧ w ≤ pad8 w := by unfold pad8; omega
  have hh4 : (h + 3) / 4 * 4 % 4 = 0 ∧ h ≤ (h + 3) / 4 * 4 := by omega
  generalize pad8 w = aw at hi hidx haw hw8 ⊢
  generalize (h + 3) / 4 * 4 = ah at hi hah hh4
  obtain ⟨seq, hseq, hssz, hsg⟩ := blockToSequential_ci8 hw8.1 hh4.1 hi
  obtain ⟨crp, hcrp, hcsz, hcg⟩ := crop_ok hw8.2 hh4.2 hssz
  have hcell : ∀ x y, x < w → y < h → crp.byteAt (y * w + x) = (image.getD (ci8Offset aw x y) 0).toNat := by
    intro x y hx hy
    unfold Buf.byteAt
    rw [hcg x y hx hy, hsg x y (by omega) (by omega)]
  have hcidx : ∀ j, j < crp.size → crp.byteAt j < pal.size / 4 := by
    intro j hj
    rw [hcsz] at hj
    have hx : j % w < w := Nat.mod_lt _ hw
    have hy : j / w < h := (Nat.div_lt_iff_lt_mul hw).2 hj
    have e : j / w * w + j % w = j := by rw [Nat.mul_comm]; exact Nat.div_add_mod j w
    have h1 := hcell _ _ hx hy
    have h2 := hidx _ _ hx hy
    rw [e] at h1
    omega
  obtain ⟨out, hout, hosz, hog⟩ := decodeIndexed_ci8 crp pal (by omega) hcidx
  refine ⟨out, ?_, by rw [hosz, hcsz], ?_⟩
  · simp [tplDecodeImage, tplPaletteColorFormat, tplBlockDims, tplImageColorFormat, hpal, haw, hah,
      hseq, hcrp, hout]
  · intro x y c hx hy hc
    have e : (y * w + x) * 4 + c = 4 * (y * w + x) + c := by omega
    rw [e, hog _ c (by rw [hcsz]; exact idx_lt hx hy) hc, hcell x y hx hy,
      Nat.mul_comm _ 4, hpg _ c (hidx x y hx hy) hc]

end Mila.Pixel
