/-
C18: facts about `compute_flags` — the flag vector in closed form, the flag-bit lemma
(bit `i` of the vector is set exactly when field `i` is present), the marker bit, the byte range
of every flag, and the announced record size.
-/
import MilaModel.Model.AssetBinary
import MilaModel.Lemmas.AsetBits

namespace Mila.Asset
open Mila Layered

theorem range8 : List.range 8 = [0, 1, 2, 3, 4, 5, 6, 7] := by decide

theorem flagByte_eq (s : AssetSpec) (b : Nat) :
    flagByte s b = orFold (fun k => present s (8 * b + k) = true) (List.range 8) 0 := rfl

theorem testBit_flagByte (s : AssetSpec) (b k : Nat) :
    (flagByte s b).testBit k = (decide (k < 8) && present s (8 * b + k)) := by
  rw [flagByte_eq, testBit_orFold]
  by_cases hk : k < 8 <;> simp [hk]

theorem flagByte_lt (s : AssetSpec) (b : Nat) : flagByte s b < 256 := by
  rw [flagByte_eq]
  have := orFold_lt (fun k => present s (8 * b + k) = true) (List.range 8) 8 (fun x hx => List.mem_range.1 hx)
  omega

theorem flagByte_eq_zero (s : AssetSpec) (b : Nat) :
    flagByte s b = 0 ↔ ∀ k, k < 8 → present s (8 * b + k) = false := by
  rw [flagByte_eq, orFold_eq_zero_iff]
  constructor
  · intro h k hk
    have := h k (List.mem_range.2 hk)
    simpa using this
  · intro h k hk
    simp [h k (List.mem_range.1 hk)]

/-- The record needs the long form: one of the flag bytes 4, 5, 6 is non-zero. -/
def isLong (s : AssetSpec) : Prop := ¬ (flagByte s 4 = 0 ∧ flagByte s 5 = 0 ∧ flagByte s 6 = 0)

instance (s : AssetSpec) : Decidable (isLong s) := by unfold isLong; exact inferInstance

/-- The flag vector `compute_flags` returns, in closed form. -/
def finalFlags (s : AssetSpec) : List Nat :=
  if isLong s then
    [flagByte s 0 ||| 1, flagByte s 1, flagByte s 2, flagByte s 3, flagByte s 4, flagByte s 5,
      flagByte s 6, flagByte s 7]
  else [flagByte s 0, flagByte s 1, flagByte s 2, flagByte s 3]

/-- Number of set bits the size computation counts (before the marker is added). -/
def countedBits (s : AssetSpec) : Nat :=
  if isLong s then
    countBits (flagByte s 0) + countBits (flagByte s 1) + countBits (flagByte s 2)
      + countBits (flagByte s 3) + countBits (flagByte s 4) + countBits (flagByte s 5)
      + countBits (flagByte s 6) + countBits (flagByte s 7)
  else countBits (flagByte s 0) + countBits (flagByte s 1) + countBits (flagByte s 2)
      + countBits (flagByte s 3)

theorem computeFlags_eq (s : AssetSpec) :
    computeFlags s = (finalFlags s, (finalFlags s).length + 4 + 4 * countedBits s) := by
  unfold computeFlags finalFlags countedBits isLong
  simp only [range8, List.map_cons, List.map_nil]
  by_cases h : flagByte s 4 = 0 ∧ flagByte s 5 = 0 ∧ flagByte s 6 = 0
  · simp [h]; omega
  · simp [h]
    omega

theorem finalFlags_length (s : AssetSpec) : (finalFlags s).length = if isLong s then 8 else 4 := by
  unfold finalFlags; split <;> rfl

theorem finalFlags_lt (s : AssetSpec) : ∀ x ∈ finalFlags s, x < 256 := by
  intro x hx
  have h01 : flagByte s 0 ||| 1 < 256 :=
    Nat.or_lt_two_pow (n := 8) (flagByte_lt s 0) (by decide)
  unfold finalFlags at hx
  by_cases hl : isLong s
  · simp only [hl, if_true, List.mem_cons, List.not_mem_nil, or_false] at hx
    rcases hx with h | h | h | h | h | h | h | h
    · rw [h]; exact h01
    all_goals (rw [h]; exact flagByte_lt s _)
  · simp only [hl, if_false, List.mem_cons, List.not_mem_nil, or_false] at hx
    rcases hx with h | h | h | h
    all_goals (rw [h]; exact flagByte_lt s _)

theorem present_zero (s : AssetSpec) : present s 0 = false := by simp [present]

theorem present_high (s : AssetSpec) (i : Nat) (h : 51 < i) : present s i = false := by
  unfold present
  have h1 : ¬ i = 0 := by omega
  have h2 : ¬ i ≤ 33 := by omega
  have h3 : ¬ i ≤ 51 := by omega
  simp [h1, h2, h3]

/-- Without the long form no extended field is present. -/
theorem present_of_short (s : AssetSpec) (h : ¬ isLong s) (i : Nat) (h1 : 32 ≤ i) :
    present s i = false := by
  unfold isLong at h
  have h : flagByte s 4 = 0 ∧ flagByte s 5 = 0 ∧ flagByte s 6 = 0 := Classical.not_not.1 h
  by_cases hi : i ≤ 51
  · have hb : i / 8 = 4 ∨ i / 8 = 5 ∨ i / 8 = 6 := by omega
    have hk : i % 8 < 8 := Nat.mod_lt _ (by decide)
    rcases hb with hb | hb | hb
    · have := (flagByte_eq_zero s 4).1 h.1 (i % 8) hk
      rwa [show 8 * 4 + i % 8 = i by omega] at this
    · have := (flagByte_eq_zero s 5).1 h.2.1 (i % 8) hk
      rwa [show 8 * 5 + i % 8 = i by omega] at this
    · have := (flagByte_eq_zero s 6).1 h.2.2 (i % 8) hk
      rwa [show 8 * 6 + i % 8 = i by omega] at this
  · exact present_high s i (by omega)

theorem isLong_iff (s : AssetSpec) : isLong s ↔ ∃ i, 32 ≤ i ∧ i ≤ 51 ∧ present s i = true := by
  constructor
  · intro h
    apply Classical.byContradiction
    intro hn
    apply h
    have hall : ∀ i, 32 ≤ i → i ≤ 55 → present s i = false := by
      intro i h1 h2
      by_cases h3 : i ≤ 51
      · cases hp : present s i with
        | false => rfl
        | true => exact absurd ⟨i, h1, h3, hp⟩ hn
      · exact present_high s i (by omega)
    refine ⟨?_, ?_, ?_⟩ <;> rw [flagByte_eq_zero] <;> intro k hk <;> exact hall _ (by omega) (by omega)
  · intro ⟨i, h1, _, hp⟩ hs
    have := present_of_short s (fun hl => hl hs) i h1
    rw [hp] at this; cases this

theorem testBit_one (k : Nat) : (1 : Nat).testBit k = decide (k = 0) := by
  have := @Nat.testBit_two_pow 0 k
  simp only [Nat.pow_zero] at this
  rw [this]
  by_cases h : k = 0
  · simp [h]
  · have : ¬ 0 = k := fun e => h e.symm
    simp [h, this]

/-- **Flag-bit lemma**: bit `i` of the final flag vector is set iff field `i` is present. -/
theorem flagBit_final (s : AssetSpec) (i : Nat) (h1 : 1 ≤ i) (h2 : i ≤ 51) :
    flagBit (finalFlags s) i = present s i := by
  unfold flagBit
  rw [and_shift_ne_zero]
  have hk : i % 8 < 8 := Nat.mod_lt _ (by decide)
  have hi : ∀ b, i / 8 = b → 8 * b + i % 8 = i := by intro b hb; omega
  by_cases hl : isLong s
  · have hf : finalFlags s = [flagByte s 0 ||| 1, flagByte s 1, flagByte s 2, flagByte s 3,
        flagByte s 4, flagByte s 5, flagByte s 6, flagByte s 7] := by simp [finalFlags, hl]
    rw [hf]
    have hb : i / 8 = 0 ∨ i / 8 = 1 ∨ i / 8 = 2 ∨ i / 8 = 3 ∨ i / 8 = 4 ∨ i / 8 = 5 ∨ i / 8 = 6 := by omega
    rcases hb with hb | hb | hb | hb | hb | hb | hb <;> rw [hb] <;>
      simp only [List.getD_cons_zero, List.getD_cons_succ] <;>
      first
        | (rw [Nat.testBit_or, testBit_flagByte, testBit_one, hi 0 hb]
           have : ¬ i % 8 = 0 := by omega
           simp [hk, this])
        | (rw [testBit_flagByte, hi _ hb]; simp [hk])
  · have hf : finalFlags s = [flagByte s 0, flagByte s 1, flagByte s 2, flagByte s 3] := by
      simp [finalFlags, hl]
    rw [hf]
    by_cases h32 : i < 32
    · have hb : i / 8 = 0 ∨ i / 8 = 1 ∨ i / 8 = 2 ∨ i / 8 = 3 := by omega
      rcases hb with hb | hb | hb | hb <;> rw [hb] <;>
        simp only [List.getD_cons_zero, List.getD_cons_succ] <;>
        (rw [testBit_flagByte, hi _ hb]; simp [hk])
    · rw [present_of_short s hl i (by omega)]
      have hb : i / 8 = 4 ∨ i / 8 = 5 ∨ i / 8 = 6 := by omega
      rcases hb with hb | hb | hb <;> rw [hb] <;> simp [List.getD]

/-- The marker: bit 0 of the first flag byte is set iff the record is long. -/
theorem marker_final (s : AssetSpec) : ((finalFlags s).getD 0 0 &&& 1 = 1) ↔ isLong s := by
  rw [Nat.and_one_is_mod]
  have h0 : (flagByte s 0).testBit 0 = false := by
    rw [testBit_flagByte]; simp [present_zero]
  unfold finalFlags
  by_cases hl : isLong s
  · simp only [hl, if_true, List.getD_cons_zero, iff_true]
    have : (flagByte s 0 ||| 1).testBit 0 = true := by rw [Nat.testBit_or, testBit_one]; simp
    rw [Nat.testBit_zero] at this
    simpa using this
  · simp only [hl, if_false, List.getD_cons_zero, iff_false]
    rw [Nat.testBit_zero] at h0
    simpa using h0

/-! ### counting -/

theorem countBits_flagByte (s : AssetSpec) (b : Nat) :
    countBits (flagByte s b) = ((List.range' 0 8).map (fun k => 8 * b + k)).countP (present s) := by
  unfold countBits
  rw [List.countP_map, List.range_eq_range']
  apply List.countP_congr
  intro k hk
  have hk8 : k < 8 := by simpa using (List.mem_range'_1.1 hk).2
  rw [and_shift_ne_zero, testBit_flagByte]
  simp [hk8]

private theorem idx32 :
    (List.range' 0 4).flatMap (fun b => (List.range' 0 8).map (fun k => 8 * b + k)) = 0 :: List.range' 1 31 := by
  decide +kernel

private theorem idx64 :
    (List.range' 0 8).flatMap (fun b => (List.range' 0 8).map (fun k => 8 * b + k))
      = 0 :: (List.range' 1 31 ++ (List.range' 32 20 ++ List.range' 52 12)) := by
  decide +kernel

private theorem sum8 (c : Nat → Nat) :
    ((List.range' 0 8).map c).sum = c 0 + c 1 + c 2 + c 3 + c 4 + c 5 + c 6 + c 7 := by
  rw [show List.range' 0 8 = [0, 1, 2, 3, 4, 5, 6, 7] from by decide]
  simp only [List.map_cons, List.map_nil, List.sum_cons, List.sum_nil]; omega

private theorem sum4 (c : Nat → Nat) :
    ((List.range' 0 4).map c).sum = c 0 + c 1 + c 2 + c 3 := by
  rw [show List.range' 0 4 = [0, 1, 2, 3] from by decide]
  simp only [List.map_cons, List.map_nil, List.sum_cons, List.sum_nil]; omega

/-- The bits counted by the size computation are the present fields. -/
theorem countedBits_eq (s : AssetSpec) :
    countedBits s = (List.range' 1 31).countP (present s)
      + (if isLong s then (List.range' 32 20).countP (present s) else 0) := by
  unfold countedBits
  by_cases hl : isLong s
  · simp only [hl, if_true]
    have := sum_countP_flatMap (present s) (List.range' 0 8) (fun b => (List.range' 0 8).map (fun k => 8 * b + k))
    rw [idx64, sum8] at this
    simp only [List.countP_cons, present_zero, List.countP_append, Bool.false_eq_true, if_false,
      Nat.add_zero] at this
    have hz : (List.range' 52 12).countP (present s) = 0 := by
      rw [List.countP_eq_zero]
      intro i hi
      have : 52 ≤ i := (List.mem_range'_1.1 hi).1
      simp [present_high s i (by omega)]
    rw [hz] at this
    simp only [countBits_flagByte]
    omega
  · simp only [hl, if_false]
    have := sum_countP_flatMap (present s) (List.range' 0 4) (fun b => (List.range' 0 8).map (fun k => 8 * b + k))
    rw [idx32, sum4] at this
    simp only [List.countP_cons, present_zero, Bool.false_eq_true, if_false, Nat.add_zero] at this
    simp only [countBits_flagByte]
    omega

end Mila.Asset
