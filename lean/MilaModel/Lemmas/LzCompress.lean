/-
Compressor loop invariants (C08, C09): the bytes emitted by `compress10Loop` / `compress13Loop`
are the flag-group encoding of the tokens described by `StepsTo`.
-/
import MilaModel.Lemmas.LzSteps

namespace Mila.Lz
open Mila.Spec.Lz

/-! ### byte-level helpers -/

theorem or16 : ∀ a b : Fin 16,
    UInt8.ofNat (16 * a.val) ||| UInt8.ofNat b.val = UInt8.ofNat (16 * a.val + b.val) := by
  decide +kernel

theorem or16' (a b : Nat) (ha : a < 16) (hb : b < 16) :
    UInt8.ofNat (16 * a) ||| UInt8.ofNat b = UInt8.ofNat (16 * a + b) := or16 ⟨a, ha⟩ ⟨b, hb⟩

theorem modify0 (a : BA) (f : UInt8) (body : Bytes) (g : UInt8 → UInt8) (h : a.toList = f :: body) :
    (a.modify 0 g).toList = g f :: body := by
  simp [Array.toList_modify, h]

theorem modifyLast (a : BA) (v : UInt8) (g : UInt8 → UInt8) :
    (a.push v).modify ((a.push v).size - 1) g = a.push (g v) := by
  apply Array.ext
  · simp
  · intro i h1 h2
    simp [Array.getElem_modify, Array.getElem_push]
    split <;> split <;> simp_all <;> omega

theorem andF0_nat (v : Nat) (hv : v < 16) : andF0 ((v : Int) * 16) = UInt8.ofNat (16 * v) := by
  unfold andF0
  have : ((v : Int) * 16 % 256 / 16 * 16) = ((16 * v : Nat) : Int) := by omega
  rw [this, Int.toNat_natCast]

theorem and0F_nat (v : Nat) (hv : v < 16) : and0F (v : Int) = UInt8.ofNat v := by
  unfold and0F
  have : ((v : Int) % 16) = ((v : Nat) : Int) := by omega
  rw [this, Int.toNat_natCast]

theorem andFF_nat (v : Nat) : andFF (v : Int) = UInt8.ofNat (v % 256) := by
  unfold andFF
  have : ((v : Int) % 256) = ((v % 256 : Nat) : Int) := by omega
  rw [this, Int.toNat_natCast]

theorem flag_set (f : UInt8) (blocks i : Nat) (hb : blocks < 8) (hi : i < 8) :
    (f ||| flagBit blocks).toNat.testBit (7 - i) = (f.toNat.testBit (7 - i) || decide (i = blocks)) := by
  have hlt : 2 ^ (7 - blocks) < 2 ^ 8 := Nat.pow_lt_pow_right (by omega) (by omega)
  rw [UInt8.toNat_or, Nat.testBit_or, flagBit, UInt8.toNat_ofNat', Nat.mod_eq_of_lt hlt,
    Nat.testBit_two_pow]
  congr 1
  simp
  omega

/-! ### appending a group to full groups -/

theorem groups_snoc (ext : Bool) (done : List Tok) (db : Bytes) (hg : Groups ext done db)
    (hfull : done.length % 8 = 0) (f : UInt8) (grp : List Tok) (hne : grp ≠ [])
    (hl : grp.length ≤ 8) (hf : FlagOk f grp) :
    Groups ext (done ++ grp) (db ++ f :: grp.flatMap (tokBytes ext)) := by
  induction hg with
  | nil =>
    have := Groups.group (ext := ext) f grp [] [] hne hl (by simp) hf Groups.nil
    simpa using this
  | group f' g' rest' bs' hne' hlen' hfull' hflag' hrest' ih =>
    have h8 : g'.length = 8 ∧ rest'.length % 8 = 0 := by
      rw [List.length_append] at hfull
      by_cases hr : rest' = []
      · have hr0 : rest'.length = 0 := by rw [hr]; rfl
        have : g'.length ≠ 0 := fun h => hne' (List.eq_nil_of_length_eq_zero h)
        omega
      · have := hfull' hr
        omega
    have := Groups.group (ext := ext) f' g' (rest' ++ grp) (bs' ++ f :: grp.flatMap (tokBytes ext))
      hne' hlen' (fun _ => h8.1) hflag' (ih h8.2)
    simpa [List.append_assoc] using this

/-! ### the loop invariant -/

/-- `buf` holds the header and the full groups, `outBuf` the flag byte and tokens of the group in
progress (unused flag bits still zero), and the tokens so far are the greedy steps up to `read`. -/
def Inv (ext : Bool) (cap : Nat) (hdr : Bytes) (x buf outBuf : BA) (blocks read : Nat) : Prop :=
  ∃ (done grp : List Tok) (db : Bytes) (f : UInt8),
    buf.toList = hdr ++ db ∧ Groups ext done db ∧ done.length % 8 = 0 ∧
    outBuf.toList = f :: grp.flatMap (tokBytes ext) ∧ grp.length = blocks ∧ blocks ≤ 8 ∧
    FlagOk f grp ∧ (∀ i, blocks ≤ i → i < 8 → f.toNat.testBit (7 - i) = false) ∧
    StepsTo x cap (done ++ grp) read

/-- What both compressors establish. -/
def Post (ext : Bool) (cap : Nat) (hdr : Bytes) (x : BA) (r : Res BA) : Prop :=
  ∃ out toks body, r = .ok out ∧ out.toList = hdr ++ body ∧ Groups ext toks body ∧
    StepsTo x cap toks x.size

theorem stepsTo_le (x : BA) (cap : Nat) : ∀ (T : List Tok) (pos : Nat), StepsTo x cap T pos → pos ≤ x.size := by
  intro T pos hs
  induction hs with
  | nil => omega
  | lit T pos len disp h _ _ _ _ => omega
  | ref T pos len disp _ h hsr hlen _ =>
    obtain ⟨len', d', hs', hf⟩ := search_spec x cap pos h
    rw [hsr] at hs'
    simp at hs'
    obtain ⟨rfl, rfl⟩ := hs'
    rcases hf with hf | ⟨_, _, lle, _⟩ <;> omega

theorem inv_init (ext : Bool) (cap : Nat) (hdr : Bytes) (x buf : BA) (h : buf.toList = hdr) :
    Inv ext cap hdr x buf #[0] 0 0 :=
  ⟨[], [], [], 0, by simp [h], Groups.nil, by simp, by simp, rfl, by omega,
    fun i h => by simp at h, fun i _ _ => by simp, StepsTo.nil⟩

theorem inv_flush {ext : Bool} {cap : Nat} {hdr : Bytes} {x buf outBuf : BA} {read : Nat}
    (h : Inv ext cap hdr x buf outBuf 8 read) : Inv ext cap hdr x (buf ++ outBuf) #[0] 0 read := by
  obtain ⟨done, grp, db, f, h1, h2, h3, h4, h5, _, h7, _, h9⟩ := h
  have hne : grp ≠ [] := by intro h; subst h; simp at h5
  refine ⟨done ++ grp, [], db ++ f :: grp.flatMap (tokBytes ext), 0, ?_, ?_, ?_, by simp, rfl,
    by omega, fun i h => by simp at h, fun i _ _ => by simp, by simpa using h9⟩
  · simp [h1, h4]
  · exact groups_snoc ext done db h2 h3 f grp hne (by omega) h7
  · simp; omega

theorem inv_lit {ext : Bool} {cap : Nat} {hdr : Bytes} {x buf outBuf : BA} {blocks read len disp : Nat}
    (h : Inv ext cap hdr x buf outBuf blocks read) (hb : blocks < 8) (hr : read < x.size)
    (hs : search x cap read = .ok (len, disp)) (hl : len < 3) :
    Inv ext cap hdr x buf (outBuf.push x[read]) (blocks + 1) (read + 1) := by
  obtain ⟨done, grp, db, f, h1, h2, h3, h4, h5, _, h7, h8, h9⟩ := h
  refine ⟨done, grp ++ [.lit x[read]], db, f, h1, h2, h3, ?_, by simp [h5], by omega, ?_, ?_, ?_⟩
  · simp [h4, tokBytes]
  · intro i hi
    simp at hi
    by_cases hlt : i < grp.length
    · rw [List.getElem_append_left hlt]; exact h7 i hlt
    · have : i = grp.length := by omega
      subst this
      simp [Tok.isRef]
      exact h8 _ (by omega) (by omega)
  · intro i hi1 hi2; exact h8 i (by omega) hi2
  · rw [← List.append_assoc]; exact StepsTo.lit _ _ len disp hr h9 hs hl

theorem inv_ref {ext : Bool} {cap : Nat} {hdr : Bytes} {x buf outBuf outBuf' : BA}
    {blocks read len disp : Nat}
    (h : Inv ext cap hdr x buf outBuf blocks read) (hb : blocks < 8) (hr : read < x.size)
    (hs : search x cap read = .ok (len, disp)) (hl : 3 ≤ len)
    (ho : ∀ f body, outBuf.toList = f :: body →
      outBuf'.toList = (f ||| flagBit blocks) :: (body ++ tokBytes ext (.ref len disp))) :
    Inv ext cap hdr x buf outBuf' (blocks + 1) (read + len) := by
  obtain ⟨done, grp, db, f, h1, h2, h3, h4, h5, _, h7, h8, h9⟩ := h
  refine ⟨done, grp ++ [.ref len disp], db, f ||| flagBit blocks, h1, h2, h3, ?_, by simp [h5],
    by omega, ?_, ?_, ?_⟩
  · rw [ho f _ h4]; simp
  · intro i hi
    simp at hi
    rw [flag_set f blocks i hb (by omega)]
    by_cases hlt : i < grp.length
    · rw [List.getElem_append_left hlt, h7 i hlt]
      have : i ≠ blocks := by omega
      simp [this]
    · have : i = grp.length := by omega
      subst this
      simp [Tok.isRef, h5]
  · intro i hi1 hi2
    rw [flag_set f blocks i hb hi2, h8 i (by omega) hi2]
    have : i ≠ blocks := by omega
    simp [this]
  · rw [← List.append_assoc]; exact StepsTo.ref _ _ len disp h9 hr hs hl

theorem inv_final {ext : Bool} {cap : Nat} {hdr : Bytes} {x buf outBuf : BA} {blocks read : Nat}
    (h : Inv ext cap hdr x buf outBuf blocks read) (hr : ¬ read < x.size) :
    Post ext cap hdr x (.ok (if blocks > 0 then buf ++ outBuf else buf)) := by
  obtain ⟨done, grp, db, f, h1, h2, h3, h4, h5, h6, h7, _, h9⟩ := h
  have hle := stepsTo_le x cap _ _ h9
  have hrd : read = x.size := by omega
  subst hrd
  by_cases hb : blocks > 0
  · have hne : grp ≠ [] := by intro h; subst h; simp at h5; omega
    refine ⟨_, done ++ grp, db ++ f :: grp.flatMap (tokBytes ext), rfl, ?_, ?_, h9⟩
    · simp [hb, h1, h4]
    · exact groups_snoc ext done db h2 h3 f grp hne (by omega) h7
  · have : grp = [] := List.eq_nil_of_length_eq_zero (by omega)
    subst this
    refine ⟨_, done, db, rfl, by simp [hb, h1], h2, by simpa using h9⟩

theorem inv_outBuf_size {ext : Bool} {cap : Nat} {hdr : Bytes} {x buf outBuf : BA} {blocks read : Nat}
    (h : Inv ext cap hdr x buf outBuf blocks read) (m : Nat)
    (hm : ∀ t, (tokBytes ext t).length ≤ m) : 1 ≤ outBuf.size ∧ outBuf.size ≤ 1 + m * blocks := by
  obtain ⟨done, grp, db, f, _, _, _, h4, h5, _, _, _, _⟩ := h
  have hsz : outBuf.size = outBuf.toList.length := by simp
  rw [hsz, h4]
  subst h5
  have : ∀ g : List Tok, (g.flatMap (tokBytes ext)).length ≤ m * g.length := by
    intro g
    induction g with
    | nil => simp
    | cons t ts ih =>
      rw [List.flatMap_cons, List.length_append, List.length_cons, Nat.mul_succ]
      have := hm t
      omega
  have := this grp
  simp only [List.length_cons]
  omega

end Mila.Lz
