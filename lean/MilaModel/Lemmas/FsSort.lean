/- `HashSet` + `sort()` of the listings (C13): the result is the strictly ascending enumeration of
the collected paths, for the byte-wise lexicographic order of the specification. -/
import MilaModel.Model.LayeredFs
import MilaModel.Spec.OverlayFs

namespace Mila.LayeredFs.Fs
open Mila.Spec.Overlay (ltB)

theorem leB_refl (a : Bytes) : leB a a = true := by
  induction a with
  | nil => rfl
  | cons x xs ih => simp [leB, ih]

theorem leB_total (a b : Bytes) : (leB a b || leB b a) = true := by
  induction a generalizing b with
  | nil => simp [leB]
  | cons x xs ih =>
    cases b with
    | nil => simp [leB]
    | cons y ys =>
      simp only [leB]
      by_cases h1 : x < y
      · simp [h1]
      · by_cases h2 : y < x
        · simp [h1, h2]
        · simp [h1, h2, ih ys]

theorem leB_trans (a b c : Bytes) (h1 : leB a b = true) (h2 : leB b c = true) : leB a c = true := by
  induction a generalizing b c with
  | nil => simp [leB]
  | cons x xs ih =>
    cases b with
    | nil => simp [leB] at h1
    | cons y ys =>
      cases c with
      | nil => simp [leB] at h2
      | cons z zs =>
        simp only [leB] at h1 h2 ⊢
        by_cases hxy : x < y
        · by_cases hyz : y < z
          · have : x < z := UInt8.lt_trans hxy hyz
            simp [this]
          · by_cases hzy : z < y
            · simp [hyz, hzy] at h2
            · have : y = z := UInt8.le_antisymm (UInt8.not_lt.mp hzy) (UInt8.not_lt.mp hyz)
              subst this; simp [hxy]
        · by_cases hyx : y < x
          · simp [hxy, hyx] at h1
          · have hxe : x = y := UInt8.le_antisymm (UInt8.not_lt.mp hyx) (UInt8.not_lt.mp hxy)
            subst hxe
            simp only [hxy, if_false] at h1
            by_cases hxz : x < z
            · simp [hxz]
            · by_cases hzx : z < x
              · simp [hxz, hzx] at h2
              · simp only [hxz, hzx, if_false] at h2 ⊢
                exact ih ys zs h1 h2

/-- `≤` and `≠` give the specification's strict order. -/
theorem ltB_of_leB_ne (a b : Bytes) (h : leB a b = true) (hne : a ≠ b) : ltB a b = true := by
  induction a generalizing b with
  | nil =>
    cases b with
    | nil => exact absurd rfl hne
    | cons y ys => simp [ltB]
  | cons x xs ih =>
    cases b with
    | nil => simp [leB] at h
    | cons y ys =>
      simp only [leB] at h
      simp only [ltB]
      by_cases hxy : x < y
      · simp [hxy]
      · by_cases hyx : y < x
        · simp [hxy, hyx] at h
        · have hxe : x = y := UInt8.le_antisymm (UInt8.not_lt.mp hyx) (UInt8.not_lt.mp hxy)
          subst hxe
          simp only [hxy, if_false] at h
          have : xs ≠ ys := fun e => hne (by rw [e])
          simp [ih ys h this]

theorem mem_dedup (xs : List Bytes) (x : Bytes) : x ∈ dedup xs ↔ x ∈ xs := by
  induction xs with
  | nil => simp [dedup]
  | cons y ys ih =>
    unfold dedup
    by_cases h : y ∈ dedup ys
    · simp only [h, if_true, List.mem_cons, ih]
      constructor
      · intro hx; exact Or.inr hx
      · rintro (rfl | hx)
        · exact ih.mp h
        · exact hx
    · simp [h, ih]

theorem nodup_dedup (xs : List Bytes) : (dedup xs).Nodup := by
  induction xs with
  | nil => simp [dedup]
  | cons y ys ih =>
    unfold dedup
    by_cases h : y ∈ dedup ys
    · simpa [h] using ih
    · simp [h, ih]

theorem perm_insertB (x : Bytes) (l : List Bytes) : (insertB x l).Perm (x :: l) := by
  induction l with
  | nil => exact List.Perm.refl _
  | cons y ys ih =>
    unfold insertB
    by_cases h : leB x y = true
    · simp [h]
    · simp only [h]
      exact (List.Perm.cons y ih).trans (List.Perm.swap x y ys)

theorem perm_sortB (l : List Bytes) : (sortB l).Perm l := by
  induction l with
  | nil => exact List.Perm.refl _
  | cons x xs ih => exact (perm_insertB x (sortB xs)).trans (List.Perm.cons x ih)

theorem pairwise_insertB (x : Bytes) (l : List Bytes) (h : l.Pairwise (fun a b => leB a b = true)) :
    (insertB x l).Pairwise (fun a b => leB a b = true) := by
  induction l with
  | nil => simp [insertB]
  | cons y ys ih =>
    unfold insertB
    have hy := List.pairwise_cons.mp h
    by_cases hxy : leB x y = true
    · simp only [hxy, if_true]
      refine List.pairwise_cons.mpr ⟨?_, h⟩
      intro z hz
      rcases List.mem_cons.mp hz with rfl | hz
      · exact hxy
      · exact leB_trans x y z hxy (hy.1 z hz)
    · simp only [hxy]
      have hyx : leB y x = true := by
        have := leB_total x y
        simpa [hxy] using this
      refine List.pairwise_cons.mpr ⟨?_, ih hy.2⟩
      intro z hz
      rcases List.mem_cons.mp ((perm_insertB x ys).mem_iff.mp hz) with rfl | hz
      · exact hyx
      · exact hy.1 z hz

theorem pairwise_sortB (l : List Bytes) : (sortB l).Pairwise (fun a b => leB a b = true) := by
  induction l with
  | nil => simp [sortB]
  | cons x xs ih => exact pairwise_insertB x _ ih

theorem mem_sortSet (xs : List Bytes) (x : Bytes) : x ∈ sortSet xs ↔ x ∈ xs := by
  unfold sortSet
  rw [(perm_sortB (dedup xs)).mem_iff, mem_dedup]

/-- The result of `HashSet` + `sort()` is strictly ascending: sorted and without duplicates. -/
theorem sortSet_strict (xs : List Bytes) : (sortSet xs).Pairwise (fun a b => ltB a b = true) := by
  unfold sortSet
  have hs := pairwise_sortB (dedup xs)
  have hn : (sortB (dedup xs)).Nodup := (perm_sortB (dedup xs)).nodup_iff.mpr (nodup_dedup xs)
  have := hs.and hn
  exact this.imp (fun {a b} ⟨h1, h2⟩ => ltB_of_leB_ne a b h1 h2)

theorem ltB_irrefl (a : Bytes) : ltB a a = false := by
  induction a with
  | nil => rfl
  | cons x xs ih => simp [ltB, ih, UInt8.lt_irrefl]

theorem ltB_asymm (a b : Bytes) (h : ltB a b = true) : ltB b a = false := by
  induction a generalizing b with
  | nil => cases b <;> simp [ltB] at h ⊢
  | cons x xs ih =>
    cases b with
    | nil => simp [ltB] at h
    | cons y ys =>
      simp only [ltB, Bool.or_eq_true, Bool.and_eq_true, beq_iff_eq, decide_eq_true_eq] at h
      simp only [ltB]
      rcases h with h | ⟨rfl, h⟩
      · have h1 : ¬ y < x := UInt8.lt_asymm h
        have h2 : y ≠ x := fun e => by subst e; exact UInt8.lt_irrefl _ h
        simp [h1, h2]
      · simp [UInt8.lt_irrefl, ih ys h]

/-- A strictly ascending list is determined by its members: whatever order the `HashSet` iterates
in, the sorted result is the same. -/
theorem strict_unique (r1 r2 : List Bytes)
    (h1 : r1.Pairwise (fun a b => ltB a b = true)) (h2 : r2.Pairwise (fun a b => ltB a b = true))
    (hm : ∀ x, x ∈ r1 ↔ x ∈ r2) : r1 = r2 := by
  have n1 : r1.Nodup := h1.imp (fun {a b} h e => by subst e; simp [ltB_irrefl] at h)
  have n2 : r2.Nodup := h2.imp (fun {a b} h e => by subst e; simp [ltB_irrefl] at h)
  have hp : r1.Perm r2 := (List.perm_ext_iff_of_nodup n1 n2).mpr hm
  exact List.Perm.eq_of_pairwise (le := fun a b => ltB a b = true)
    (fun a b _ _ hab hba => by simp [ltB_asymm a b hab] at hba) h1 h2 hp

end Mila.LayeredFs.Fs
