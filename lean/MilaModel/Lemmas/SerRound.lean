/-
C01/C02 round trips: contents that agree as finite maps (and on the raw bytes outside annotated
cells) have the same canonical image; hence parse → serialize reproduces canonical files, and
serialize → parse gives back the content.
-/
import MilaModel.Lemmas.SerParse
import MilaModel.Lemmas.SerPerm

namespace Mila.Ser
open Mila.BinArchive
open Spec.Image

/-- Two descriptions of the same content: same size, same raw bytes outside annotated cells, same
strings / pointers as finite maps, same label list at every address (empty buckets are not
content). -/
structure ContentEq (K K' : Content) : Prop where
  size : K.data.length = K'.data.length
  bytes : ∀ i, ¬ K.covered i → K.data[i]? = K'.data[i]?
  strings : K.strings.Perm K'.strings
  pointers : K.pointers.Perm K'.pointers
  labels : ∀ x, K.labelsAt x = K'.labelsAt x

/-! ### label buckets, empty buckets removed -/

def nonEmpty {β : Type} (p : Nat × List β) : Bool := !p.2.isEmpty

theorem flatMap_filter_nonEmpty {β γ : Type} (g : Nat → β → γ) : ∀ (l : List (Nat × List β)),
    (l.filter nonEmpty).flatMap (fun p => p.2.map (g p.1)) = l.flatMap (fun p => p.2.map (g p.1)) := by
  intro l
  induction l with
  | nil => rfl
  | cons p ps ih =>
    rw [List.filter_cons]
    by_cases hp : nonEmpty p = true
    · rw [if_pos hp, List.flatMap_cons, List.flatMap_cons, ih]
    · rw [if_neg hp, List.flatMap_cons, ih]
      have : p.2 = [] := by
        unfold nonEmpty at hp
        cases h : p.2 with
        | nil => rfl
        | cons x xs => rw [h] at hp; simp at hp
      rw [this]; rfl

theorem nodup_keys_filter {β : Type} (q : Nat × β → Bool) (l : List (Nat × β)) (nd : (l.map (·.1)).Nodup) :
    ((l.filter q).map (·.1)).Nodup :=
  List.Nodup.sublist ((List.filter_sublist).map _) nd

theorem get_filter_nonEmpty {β : Type} (l : List (Nat × List β)) (nd : (l.map (·.1)).Nodup) (x : Nat) :
    UMap.get (l.filter nonEmpty) x =
      if (UMap.get l x).getD [] = [] then none else some ((UMap.get l x).getD []) := by
  cases hf : l.find? (fun p => p.1 = x) with
  | none =>
    have h1 : UMap.get l x = none := by unfold UMap.get; rw [hf]; rfl
    have h2 : UMap.get (l.filter nonEmpty) x = none := by
      rw [get_eq_none_iff]
      intro p hp
      exact (get_eq_none_iff l x).mp h1 p (List.mem_filter.mp hp).1
    rw [h1, h2]; simp
  | some p =>
    have hp : p ∈ l := List.mem_of_find?_eq_some hf
    have hk : p.1 = x := by simpa using List.find?_some hf
    have h1 : UMap.get l x = some p.2 := by unfold UMap.get; rw [hf]; rfl
    rw [h1]
    simp only [Option.getD_some]
    by_cases he : p.2 = []
    · rw [if_pos he, get_eq_none_iff]
      intro q hq e
      obtain ⟨hq1, hq2⟩ := List.mem_filter.mp hq
      have : q = p := eq_of_key_eq nd hq1 hp (e.trans hk.symm)
      subst this
      unfold nonEmpty at hq2
      rw [he] at hq2
      simp at hq2
    · rw [if_neg he]
      have hpf : p ∈ l.filter nonEmpty := by
        apply List.mem_filter.mpr
        refine ⟨hp, ?_⟩
        unfold nonEmpty
        cases h : p.2 with
        | nil => exact absurd h he
        | cons _ _ => rfl
      have := (mem_iff_get (nodup_keys_filter nonEmpty l nd) p).mp hpf
      rw [hk] at this
      exact this

theorem labelsAt_eq_get (K : Content) (x : Nat) : K.labelsAt x = (UMap.get K.labels x).getD [] := rfl

/-- The label table only depends on the label lists per address. -/
theorem labelEntries_congr (e : Endian) {K K' : Content}
    (nd : (K.labels.map (·.1)).Nodup) (nd' : (K'.labels.map (·.1)).Nodup)
    (h : ∀ x, K.labelsAt x = K'.labelsAt x) : labelEntries e K = labelEntries e K' := by
  have key : ∀ (K : Content), (K.labels.map (·.1)).Nodup →
      labelEntries e K = ((K.labels.filter nonEmpty).mergeSort (labelLe e)).flatMap
        (fun p => p.2.map (fun n => (p.1, n))) := by
    intro K nd
    unfold labelEntries
    rw [← sortedLabels_eq, ← flatMap_filter_nonEmpty (fun a n => (a, n)),
      filter_mergeSort (labelLe_preorder e) nonEmpty K.labels (labelLe_anti e nd)]
  rw [key K nd, key K' nd']
  congr 1
  apply mergeSort_eq_of_perm (labelLe_preorder e) (labelLe_anti e (nodup_keys_filter _ _ nd))
  apply perm_of_get_eq (nodup_keys_filter _ _ nd) (nodup_keys_filter _ _ nd')
  intro x
  rw [get_filter_nonEmpty _ nd, get_filter_nonEmpty _ nd', ← labelsAt_eq_get, ← labelsAt_eq_get, h x]

/-! ### patched data only depends on the bytes outside the patched cells -/

theorem getElem?_patch1_inside (e : Endian) (d : Bytes) (x v i : Nat) (hx : x + 4 ≤ d.length)
    (h1 : x ≤ i) (h2 : i < x + 4) : (patch1 e d x v)[i]? = (e.enc 4 v)[i - x]? := by
  unfold patch1
  have hl4 := enc4_length e v
  have hlt : (d.take x).length = x := by rw [List.length_take]; omega
  rw [List.getElem?_append_left (by rw [List.length_append, hlt, hl4]; exact h2),
    List.getElem?_append_right (by rw [hlt]; exact h1), hlt]

theorem patch1_agree (e : Endian) (d d' : Bytes) (x v : Nat) (S : Nat → Prop)
    (hl : d.length = d'.length) (hx : x + 4 ≤ d.length)
    (h : ∀ i, ¬ S i → d[i]? = d'[i]?) :
    ∀ i, ¬ (S i ∧ ¬ (x ≤ i ∧ i < x + 4)) → (patch1 e d x v)[i]? = (patch1 e d' x v)[i]? := by
  intro i hi
  by_cases hin : x ≤ i ∧ i < x + 4
  · rw [getElem?_patch1_inside e d x v i hx hin.1 hin.2,
      getElem?_patch1_inside e d' x v i (by omega) hin.1 hin.2]
  · have hS : ¬ S i := fun s => hi ⟨s, hin⟩
    rw [getElem?_patch1_outside e d x v i hx (by omega),
      getElem?_patch1_outside e d' x v i (by omega) (by omega)]
    exact h i hS

theorem patchWords_agree (e : Endian) : ∀ (ws : List (Nat × Nat)) (d d' : Bytes) (S : Nat → Prop),
    d.length = d'.length → (∀ w ∈ ws, w.1 + 4 ≤ d.length) →
    (∀ i, ¬ S i → d[i]? = d'[i]?) →
    (∀ i, S i → ∃ w ∈ ws, w.1 ≤ i ∧ i < w.1 + 4) →
    patchWords e d ws = patchWords e d' ws := by
  intro ws
  induction ws with
  | nil =>
    intro d d' S _ _ h hS
    apply List.ext_getElem?
    intro i
    apply h i
    intro s
    obtain ⟨w, hw, _⟩ := hS i s
    cases hw
  | cons w ws ih =>
    intro d d' S hl hin h hS
    rw [patchWords_cons, patchWords_cons]
    have hw := hin w (by simp)
    apply ih _ _ (fun i => S i ∧ ¬ (w.1 ≤ i ∧ i < w.1 + 4))
    · rw [length_patch1 e d w.1 w.2 hw, length_patch1 e d' w.1 w.2 (by omega)]; exact hl
    · intro w' hw'
      rw [length_patch1 e d w.1 w.2 hw]; exact hin w' (by simp [hw'])
    · exact patch1_agree e d d' w.1 w.2 S hl hw h
    · intro i ⟨s, hn⟩
      obtain ⟨w', hw', hr⟩ := hS i s
      rcases List.mem_cons.mp hw' with rfl | hw''
      · exact absurd hr hn
      · exact ⟨w', hw'', hr⟩

/-! ### `canonical` respects `ContentEq` -/

theorem canonical_congr (enc : Bytes → Option Bytes) (e : Endian) {K K' : Content}
    (wf : K.WF) (ndL' : (K'.labels.map (·.1)).Nodup) (h : ContentEq K K') :
    canonical enc e K = canonical enc e K' := by
  have hP : sortedPointers K = sortedPointers K' := by
    unfold sortedPointers
    rw [← bySource_eq_byAddr]
    exact mergeSort_eq_of_perm bySource_preorder (bySource_anti (ptrKeys_nodup wf)) h.pointers
  have hS : sortedStrings K = sortedStrings K' := by
    unfold sortedStrings
    rw [← bySource_eq_byAddr]
    exact mergeSort_eq_of_perm bySource_preorder (bySource_anti (strKeys_nodup wf)) h.strings
  have hE : labelEntries e K = labelEntries e K' := labelEntries_congr e wf.labelKeys ndL' h.labels
  have hstored : stored e K = stored e K' := by unfold stored; rw [hS, hE]
  have hgroups : stringGroups K = stringGroups K' := by unfold stringGroups; rw [hS]
  have hpt : ptrTable K = ptrTable K' := by unfold ptrTable; rw [hP, hgroups]
  have hts : canonTextStart e K = canonTextStart e K' := by
    unfold canonTextStart; rw [hpt, hE, h.size]
  have hlt : labelTable enc e K = labelTable enc e K' := by unfold labelTable; rw [hE, hstored]
  have htx : textSection enc e K = textSection enc e K' := by unfold textSection; rw [hstored]
  have hdata : canonData enc e K = canonData enc e K' := by
    unfold canonData
    rw [← hP, ← hS, ← hts, ← hstored]
    apply patchWords_agree e _ K.data K'.data K.covered h.size
    · intro w hw
      apply wf.inside
      rcases List.mem_append.mp hw with hw | hw
      · exact List.mem_append_left _ (List.mem_map_of_mem (List.mem_mergeSort.mp hw))
      · obtain ⟨p, hp, rfl⟩ := List.mem_map.mp hw
        exact List.mem_append_right _ (List.mem_map_of_mem (List.mem_mergeSort.mp hp))
    · exact h.bytes
    · intro i ⟨x, hx, hr⟩
      rcases List.mem_append.mp hx with hx | hx
      · obtain ⟨p, hp, rfl⟩ := List.mem_map.mp hx
        exact ⟨p, List.mem_append_left _ (List.mem_mergeSort.mpr hp), hr⟩
      · obtain ⟨p, hp, rfl⟩ := List.mem_map.mp hx
        exact ⟨(p.1, _), List.mem_append_right _
          (List.mem_map.mpr ⟨p, List.mem_mergeSort.mpr hp, rfl⟩), hr⟩
  unfold canonical
  rw [hts, htx, h.size, hpt, hE, hdata, hlt]


/-! ### parse, then serialize -/

section round
variable {c : Codec} {D : Str → Prop} {e : Endian} {f : Bytes} {K : Content}

theorem getElem?_slice (f : Bytes) (start len i : Nat) (hi : i < len) :
    (slice f start len)[i]? = f[start + i]? := by
  unfold slice
  rw [List.getElem?_take, if_pos hi, List.getElem?_drop]

theorem parsed_contentEq (ctx : Ctx c D e f K) {b : BinArchive} (hp : Parsed e f K b) :
    ContentEq K (contentOf b) where
  size := by
    show K.data.length = b.data.length
    rw [hp.data, slice_length _ _ _ ctx.data_fits]
  bytes := by
    intro i hc
    show K.data[i]? = b.data[i]?
    rw [hp.data]
    by_cases hi : i < K.data.length
    · rw [getElem?_slice f 0x20 K.data.length i hi]
      exact (ctx.conf.dataEq i hi hc).symm
    · rw [List.getElem?_eq_none (by omega),
        List.getElem?_eq_none (by rw [slice_length _ _ _ ctx.data_fits]; omega)]
  strings := hp.text.symm
  pointers := hp.pointers.symm
  labels := by intro x; exact (hp.labels x).symm

theorem enc_of_faithful (hf : c.Faithful D) {s : Str} (hs : D s) : ∃ b, c.enc s = some b := by
  obtain ⟨b, hb, _⟩ := hf s hs; exact ⟨b, hb⟩

/-- An archive parsed from a conforming image is in the domain of `serialize`. -/
theorem parsed_serDomain (ctx : Ctx c D e f K) (small : f.length < 2 ^ 32) {b : BinArchive}
    (hp : Parsed e f K b) : SerDomain c b where
  ptrIn := by
    intro p hpm
    have hl : b.data.length = K.data.length := by rw [hp.data, slice_length _ _ _ ctx.data_fits]
    rw [hl]
    exact ctx.wf.inside _ (List.mem_append_left _ (List.mem_map_of_mem (hp.pointers.mem_iff.mp hpm)))
  textIn := by
    intro p hpm
    have hl : b.data.length = K.data.length := by rw [hp.data, slice_length _ _ _ ctx.data_fits]
    rw [hl]
    exact ctx.wf.inside _ (List.mem_append_right _ (List.mem_map_of_mem (hp.text.mem_iff.mp hpm)))
  cstrIn := by intro p hpm; rw [hp.cstrings] at hpm; cases hpm
  encText := by
    intro p hpm
    exact enc_of_faithful ctx.faithful (ctx.domS p (hp.text.mem_iff.mp hpm))
  encLabels := by
    intro p hpm n hn
    have h1 : n ∈ (UMap.get b.labels p.1).getD [] := by
      rw [(mem_iff_get hp.labelKeys p).mp hpm]; exact hn
    rw [hp.labels p.1] at h1
    obtain ⟨q, hq, _, hn'⟩ := labelsAt_mem h1
    exact enc_of_faithful ctx.faithful (ctx.domL q hq n hn')
  encCStr := by intro p hpm; rw [hp.cstrings] at hpm; cases hpm
  small := by
    have hl : b.data.length = K.data.length := by rw [hp.data, slice_length _ _ _ ctx.data_fits]
    have := ctx.data_fits
    have hpool : (cstrPool c b).length = 0 := by
      simp [cstrPool, cstrKeys, cstrSorted, hp.cstrings, dedup, dedupAux, padTo4]
    rw [hl, hpool]; omega

/-- **Parsing any conforming image of `K` and serializing the result gives the canonical image of
`K`.** -/
theorem reserialize_conforming (ctx : Ctx c D e f K) (small : f.length < 2 ^ 32) :
    ∃ b, parse c e f = .ok b ∧ serialize c b = .ok (canonical c.enc e K) := by
  obtain ⟨b, hb, hp⟩ := parse_conforming ctx
  refine ⟨b, hb, ?_⟩
  rw [serialize_eq_canonical_plus c b (parsed_serDomain ctx small hp),
    contentPlus_of_no_cstrings c b hp.cstrings, hp.endian,
    ← canonical_congr c.enc e ctx.wf hp.labelKeys (parsed_contentEq ctx hp)]

end round


/-! ### serialize, then parse -/

/-- Addresses of the annotated cells of an archive (pointers, pending c-strings, strings). -/
def archCells (a : BinArchive) : List Nat :=
  a.pointers.map (·.1) ++ a.cstrings.flatMap (·.2) ++ a.text.map (·.1)

/-- The quantifier of C01 on archives: at most one pointer / string / c-string per 4-byte cell
(cells pairwise disjoint, inside the data), pointer targets and label addresses `≤ size`; the data
length is arbitrary. (`labelKeys` is the `HashMap` invariant of `labels`.) -/
structure ArchWF (a : BinArchive) : Prop where
  inside : ∀ x ∈ archCells a, x + 4 ≤ a.data.length
  disjoint : (archCells a).Pairwise (fun x y => x + 4 ≤ y ∨ y + 4 ≤ x)
  targets : ∀ p ∈ a.pointers, p.2 ≤ a.data.length
  labelKeys : (a.labels.map (·.1)).Nodup
  labelAddrs : ∀ p ∈ a.labels, p.1 ≤ a.data.length

/-- Every string of the archive lies in the codec's faithful domain `D`. -/
structure InDomain (D : Str → Prop) (a : BinArchive) : Prop where
  text : ∀ p ∈ a.text, D p.2
  labels : ∀ p ∈ a.labels, ∀ n ∈ p.2, D n
  cstrings : ∀ p ∈ a.cstrings, D p.1

/-- Size of the image the format prescribes for the archive. -/
def imageSize (c : Codec) (a : BinArchive) : Nat := (canonical c.enc a.endian (contentPlus c a)).length

theorem padTo4_length_ge (b : Bytes) : b.length ≤ (padTo4 b).length := by simp [padTo4]

theorem padTo4_length_mod (b : Bytes) : (padTo4 b).length % 4 = 0 := by
  simp only [padTo4, List.length_append, List.length_replicate]; omega

theorem cstrPointers_keys (c : Codec) (a : BinArchive) :
    (cstrPointers c a).map (·.1) = (cstrSorted c a).flatMap (·.2) := by
  unfold cstrPointers
  generalize cstrSorted c a = l
  induction l with
  | nil => rfl
  | cons p ps ih =>
    rw [List.flatMap_cons, List.flatMap_cons, List.map_append, ih, List.map_map]
    congr 1
    simp [Function.comp_def]

theorem contentPlus_cells_perm (c : Codec) (a : BinArchive) :
    (contentPlus c a).cells.Perm (archCells a) := by
  unfold Content.cells archCells contentPlus
  simp only [List.map_append]
  apply List.Perm.append_right
  apply List.Perm.append_left
  rw [cstrPointers_keys]
  exact (List.mergeSort_perm a.cstrings (cstrLe c)).flatMap_right _

theorem cstrPointer_target_lt (c : Codec) (a : BinArchive) {p : Nat × Nat} (hp : p ∈ cstrPointers c a) :
    ∃ q ∈ a.cstrings, p.1 ∈ q.2 ∧ p.2 = a.data.length + offsetIn c.enc (cstrKeys c a) q.1 ∧
      offsetIn c.enc (cstrKeys c a) q.1 + (entry c.enc q.1).length ≤ (cstrPool c a).length := by
  unfold cstrPointers at hp
  obtain ⟨q, hq, hp⟩ := List.mem_flatMap.mp hp
  obtain ⟨x, hx, rfl⟩ := List.mem_map.mp hp
  refine ⟨q, List.mem_mergeSort.mp hq, hx, rfl, ?_⟩
  have hk : q.1 ∈ cstrKeys c a := (mem_dedup _ _).mpr (List.mem_map_of_mem hq)
  have := offsetIn_entry_le c.enc (cstrKeys c a) q.1 hk
  have h2 := padTo4_length_ge ((cstrKeys c a).flatMap (entry c.enc))
  unfold cstrPool; omega

theorem contentPlus_wf (c : Codec) (a : BinArchive) (wf : ArchWF a) : (contentPlus c a).WF where
  inside := by
    intro x hx
    have := wf.inside x ((contentPlus_cells_perm c a).mem_iff.mp hx)
    show x + 4 ≤ (a.data ++ cstrPool c a).length
    rw [List.length_append]; omega
  disjoint :=
    ((contentPlus_cells_perm c a).pairwise_iff (by intro x y h; exact h.symm)).mpr wf.disjoint
  targets := by
    intro p hp
    show p.2 ≤ (a.data ++ cstrPool c a).length
    rw [List.length_append]
    rcases List.mem_append.mp hp with hp | hp
    · have := wf.targets p hp; omega
    · obtain ⟨q, _, _, h2, h3⟩ := cstrPointer_target_lt c a hp
      omega
  labelKeys := wf.labelKeys
  labelAddrs := by
    intro p hp
    have := wf.labelAddrs p hp
    show p.1 ≤ (a.data ++ cstrPool c a).length
    rw [List.length_append]; omega

theorem serDomain_of (c : Codec) (D : Str → Prop) (a : BinArchive) (wf : ArchWF a)
    (hf : c.Faithful D) (dom : InDomain D a) (small : imageSize c a < 2 ^ 32) : SerDomain c a where
  ptrIn := fun p hp => wf.inside _
    (List.mem_append_left _ (List.mem_append_left _ (List.mem_map_of_mem hp)))
  textIn := fun p hp => wf.inside _ (List.mem_append_right _ (List.mem_map_of_mem hp))
  cstrIn := fun p hp x hx => wf.inside _
    (List.mem_append_left _ (List.mem_append_right _ (List.mem_flatMap.mpr ⟨p, hp, hx⟩)))
  encText := fun p hp => enc_of_faithful hf (dom.text p hp)
  encLabels := fun p hp n hn => enc_of_faithful hf (dom.labels p hp n hn)
  encCStr := fun p hp => enc_of_faithful hf (dom.cstrings p hp)
  small := by
    have := canonical_length c.enc a.endian (contentPlus c a) (contentPlus_wf c a wf)
    unfold imageSize at small
    rw [this] at small
    unfold Content.textStart at small
    have hd : (contentPlus c a).data.length = a.data.length + (cstrPool c a).length := by
      show (a.data ++ cstrPool c a).length = _
      rw [List.length_append]
    omega

/-- **The serialized image conforms to the format** (content: `contentPlus`, i.e. the pool is data
and every c-string use a pointer into it). -/
theorem serialize_conforms (c : Codec) (D : Str → Prop) (a : BinArchive) (wf : ArchWF a)
    (hf : c.Faithful D) (dom : InDomain D a) (small : imageSize c a < 2 ^ 32) :
    ∃ f, serialize c a = .ok f ∧ f.length = imageSize c a ∧
      Conforms c.enc a.endian f (contentPlus c a) := by
  refine ⟨_, serialize_eq_canonical_plus c a (serDomain_of c D a wf hf dom small), rfl, ?_⟩
  apply canonical_conforms c.enc a.endian (contentPlus c a) (contentPlus_wf c a wf)
  · exact fun p hp => enc_of_faithful hf (dom.text p hp)
  · exact fun p hp n hn => enc_of_faithful hf (dom.labels p hp n hn)
  · exact small

theorem ctx_of_archive (c : Codec) (D : Str → Prop) (a : BinArchive) (wf : ArchWF a)
    (hf : c.Faithful D) (dom : InDomain D a) {f : Bytes}
    (hc : Conforms c.enc a.endian f (contentPlus c a)) : Ctx c D a.endian f (contentPlus c a) where
  conf := hc
  wf := contentPlus_wf c a wf
  faithful := hf
  domS := dom.text
  domL := dom.labels

/-- **serialize → parse**: the image re-parses, to an archive with the content `contentPlus`. -/
theorem parse_serialize (c : Codec) (D : Str → Prop) (a : BinArchive) (wf : ArchWF a)
    (hf : c.Faithful D) (dom : InDomain D a) (small : imageSize c a < 2 ^ 32) :
    ∃ f b, serialize c a = .ok f ∧ parse c a.endian f = .ok b ∧
      Conforms c.enc a.endian f (contentPlus c a) ∧ Parsed a.endian f (contentPlus c a) b := by
  obtain ⟨f, hs, _, hc⟩ := serialize_conforms c D a wf hf dom small
  obtain ⟨b, hb, hp⟩ := parse_conforming (ctx_of_archive c D a wf hf dom hc)
  exact ⟨f, b, hs, hb, hc, hp⟩

end Mila.Ser
