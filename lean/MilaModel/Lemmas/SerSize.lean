/-
Closed-form bound on the size of a serialized image (C01/C02 hypothesis `imageSize c a < 2^32`):
header + data + c-string pool + tables + one entry (`|enc s| + 1` bytes) per string present.
-/
import MilaModel.Lemmas.SerRound

namespace Mila.Ser
open Mila.BinArchive
open Spec.Image

/-- Bytes a string occupies in a text pool: its encoding and the terminating NUL. -/
def encLen (c : Codec) (s : Str) : Nat := (entry c.enc s).length

theorem encLen_eq (c : Codec) {s b : Str} (h : c.enc s = some b) : encLen c s = b.length + 1 := by
  simp [encLen, entry, h]

/-- Encoded size of all label names and strings of the archive (with repetitions). -/
def textBytes (c : Codec) (a : BinArchive) : Nat :=
  ((a.labels.flatMap (·.2)).map (encLen c)).sum + ((a.text.map (·.2)).map (encLen c)).sum

/-- Encoded size of the pending c-strings. -/
def poolBytes (c : Codec) (a : BinArchive) : Nat := ((a.cstrings.map (·.1)).map (encLen c)).sum

theorem dedupAux_sublist {α : Type} [DecidableEq α] : ∀ (l seen : List α), (dedupAux seen l).Sublist l := by
  intro l
  induction l with
  | nil => intro _; exact List.Sublist.refl _
  | cons x xs ih =>
    intro seen
    simp only [dedupAux]
    by_cases hx : x ∈ seen
    · rw [if_pos hx]; exact (ih seen).cons x
    · rw [if_neg hx]; exact (ih _).cons_cons x

theorem sum_map_sublist_le {α : Type} (g : α → Nat) {l₁ l₂ : List α} (h : l₁.Sublist l₂) :
    (l₁.map g).sum ≤ (l₂.map g).sum := by
  induction h with
  | slnil => exact Nat.le_refl _
  | cons a _ ih => simp only [List.map_cons, List.sum_cons]; omega
  | cons_cons a _ ih => simp only [List.map_cons, List.sum_cons]; omega

theorem pool_length_le (c : Codec) (l : List Str) :
    ((dedup l).flatMap (entry c.enc)).length ≤ (l.map (encLen c)).sum := by
  rw [List.length_flatMap]
  exact sum_map_sublist_le (fun s => (entry c.enc s).length) (dedupAux_sublist l [])

theorem padTo4_length_le (b : Bytes) : (padTo4 b).length ≤ b.length + 3 := by
  simp only [padTo4, List.length_append, List.length_replicate]; omega

theorem cstrPool_length_le (c : Codec) (a : BinArchive) : (cstrPool c a).length ≤ poolBytes c a + 3 := by
  unfold cstrPool cstrKeys poolBytes
  have h1 := padTo4_length_le ((dedup ((cstrSorted c a).map (·.1))).flatMap (entry c.enc))
  have h2 := pool_length_le c ((cstrSorted c a).map (·.1))
  have h3 : (((cstrSorted c a).map (·.1)).map (encLen c)).sum = ((a.cstrings.map (·.1)).map (encLen c)).sum :=
    (((List.mergeSort_perm a.cstrings (cstrLe c)).map _).map _).sum_nat
  omega

theorem labelEntries_names (e : Endian) (K : Content) :
    (labelEntries e K).map (·.2) = (sortedLabels e K).flatMap (·.2) := by
  unfold labelEntries
  generalize sortedLabels e K = l
  induction l with
  | nil => rfl
  | cons p ps ih =>
    rw [List.flatMap_cons, List.flatMap_cons, List.map_append, ih, List.map_map]
    congr 1
    simp [Function.comp_def]

theorem textSection_length_le (c : Codec) (e : Endian) (K : Content) :
    (textSection c.enc e K).length ≤
      ((K.labels.flatMap (·.2)).map (encLen c)).sum + ((K.strings.map (·.2)).map (encLen c)).sum := by
  unfold textSection stored
  have h1 := pool_length_le c ((labelEntries e K).map (·.2) ++ (sortedStrings K).map (·.2))
  rw [List.map_append, List.sum_append] at h1
  rw [labelEntries_names] at h1 ⊢
  have h2 : (((sortedLabels e K).flatMap (·.2)).map (encLen c)).sum
      = ((K.labels.flatMap (·.2)).map (encLen c)).sum :=
    (((sortedLabels_perm e K).flatMap_right _).map _).sum_nat
  have h3 : (((sortedStrings K).map (·.2)).map (encLen c)).sum = ((K.strings.map (·.2)).map (encLen c)).sum :=
    (((List.mergeSort_perm K.strings byAddr).map _).map _).sum_nat
  omega

/-- The size of the image, piece by piece (the text section is the only part that depends on
which strings coincide). -/
theorem imageSize_eq (c : Codec) (a : BinArchive) (wf : ArchWF a) :
    imageSize c a = 0x20 + (a.size + (cstrPool c a).length) + 4 * (archCells a).length
      + 8 * (a.labels.map (·.2.length)).sum
      + (textSection c.enc a.endian (contentPlus c a)).length := by
  unfold imageSize
  rw [canonical_length c.enc a.endian (contentPlus c a) (contentPlus_wf c a wf)]
  unfold Content.textStart
  rw [(contentPlus_cells_perm c a).length_eq]
  have hd : (contentPlus c a).data.length = a.size + (cstrPool c a).length := by
    show (a.data ++ cstrPool c a).length = _
    rw [List.length_append]; rfl
  have hl : (contentPlus c a).labelCount = (a.labels.map (·.2.length)).sum := rfl
  rw [hd, hl]
  omega

/-- **Closed-form bound on the image size**: header, data, c-string pool (padded), four bytes per
annotated cell, eight per label, and `|enc s| + 1` bytes per label name and string present. -/
theorem imageSize_le (c : Codec) (a : BinArchive) (wf : ArchWF a) :
    imageSize c a ≤ 0x20 + a.size + (poolBytes c a + 3) + 4 * (archCells a).length
      + 8 * (a.labels.map (·.2.length)).sum + textBytes c a := by
  rw [imageSize_eq c a wf]
  have h1 := cstrPool_length_le c a
  have h2 := textSection_length_le c a.endian (contentPlus c a)
  have h3 : ((contentPlus c a).labels.flatMap (·.2)).map (encLen c) = (a.labels.flatMap (·.2)).map (encLen c) := rfl
  have h4 : ((contentPlus c a).strings.map (·.2)).map (encLen c) = (a.text.map (·.2)).map (encLen c) := rfl
  rw [h3, h4] at h2
  unfold textBytes
  omega

/-- An archive with less than 256 MiB of data, fewer than 2^20 annotations (cells + labels) and
less than 256 MiB of encoded text serializes to an image smaller than 4 GiB. -/
theorem imageSize_small (c : Codec) (a : BinArchive) (wf : ArchWF a)
    (hsize : a.size < 2 ^ 28)
    (hcount : (archCells a).length + (a.labels.map (·.2.length)).sum < 2 ^ 20)
    (htext : poolBytes c a + textBytes c a < 2 ^ 28) : imageSize c a < 2 ^ 32 := by
  have := imageSize_le c a wf
  omega

end Mila.Ser
