/-
Decoder error clauses (C11): truncated streams and references before the start of the output.
-/
import MilaModel.Lemmas.LzDecode

namespace Mila.Lz
open Mila.Spec.Lz

theorem outerLoop_step_err (ext : Bool) (length : Nat) (f : UInt8) (s : Bytes) (out : BA) (e : Err)
    (hlt : out.size < length) (hb : bitLoop ext length f.toNat 8 s out = .err e) :
    outerLoop ext length (f :: s) out = .err e := by
  rw [outerLoop.eq_def]
  simp only [hlt, ↓reduceIte]
  split
  · rename_i heq; rw [hb] at heq; simp at heq
  · rename_i e' heq; rw [hb] at heq; simp at heq; rw [heq]
  · rename_i heq; rw [hb] at heq; simp at heq

theorem outerLoop_nil (ext : Bool) (length : Nat) (out : BA) (hlt : out.size < length) :
    outerLoop ext length [] out = .err .Invalid := by
  rw [outerLoop.eq_def]; simp [hlt]

/-! ### a reference that reaches before the start -/

theorem bitLoop_badref (ext : Bool) (length flags k : Nat) (rest : Bytes) (out : BA)
    (len disp : Nat) (hlive : out.size < length) (hflag : flags.testBit k = true)
    (hl : lenOk ext len) (hd1 : 1 ≤ disp) (hd2 : disp ≤ 4096) (hbad : out.size < disp) :
    bitLoop ext length flags (k + 1) (tokBytes ext (.ref len disp) ++ rest) out = .err .Invalid := by
  have hf : ¬ ((flags >>> k) &&& 1 = 0) := by rw [flag_test]; simp [hflag]
  rw [bitLoop]
  simp only [ge_iff_le, Nat.not_le.2 hlive, ↓reduceIte, hf, decodeRef_tokBytes ext len disp rest hl hd1 hd2]
  have : out.size ≤ disp - 1 := by omega
  simp [this]

theorem tsize_append_singleton (ts : List Tok) (t : Tok) : tsize (ts ++ [t]) = tsize ts + t.size := by
  simp

private theorem append_snoc_split {α : Type} (g rest toks : List α) (b : α)
    (h : g ++ rest = toks ++ [b]) (hr : rest ≠ []) :
    ∃ rest', rest = rest' ++ [b] ∧ toks = g ++ rest' := by
  have hrl : rest = rest.dropLast ++ [rest.getLast hr] := (List.dropLast_concat_getLast hr).symm
  rw [hrl, ← List.append_assoc] at h
  have h1 := List.append_inj' h rfl
  exact ⟨rest.dropLast, by rw [hrl]; simp; simpa using h1.2, h1.1.symm⟩

/-- Valid tokens followed by a reference whose displacement exceeds the output so far, while the
announced length is not yet reached: the decoder returns an error (whatever follows). -/
theorem outerLoop_badref (ext : Bool) (n : Nat) (len disp : Nat) (all : List Tok) (body : Bytes)
    (hg : Groups ext all body) (hl : lenOk ext len) (hd1 : 1 ≤ disp) (hd2 : disp ≤ 4096) :
    ∀ (toks : List Tok) (out : BA), all = toks ++ [.ref len disp] →
      ValidFrom ext out.size toks → out.size + tsize toks < n → out.size + tsize toks < disp →
      outerLoop ext n body out = .err .Invalid := by
  induction hg with
  | nil => intro toks out h; simp at h
  | group f g rest bs hne hlen hfull hflag hrest ih =>
    intro toks out hall hv hn hbad
    by_cases hr : rest = []
    · subst hr
      have hbs : bs = [] := groups_nil_inv hrest
      subst hbs
      simp at hall
      subst hall
      have hlive : Live n out.size toks := live_of_valid toks _ hv (by omega)
      have hlt : out.size < n := by omega
      have hlen' : toks.length + 1 ≤ 8 := by simpa using hlen
      have hgrp := bitLoop_group ext n f.toNat (tokBytes ext (.ref len disp) ++ []) toks 8 out
        (by omega) hlive hv
        (by
          intro i h
          have := hflag i (by simp; omega)
          rw [this]; simp [List.getElem_append_left h])
      have hk : 8 - toks.length = (7 - toks.length) + 1 := by omega
      rw [hk, bitLoop_badref ext n f.toNat (7 - toks.length) [] (expandFrom out toks) len disp
        (by simp; omega)
        (by
          have := hflag toks.length (by simp)
          simpa [Tok.isRef] using this)
        hl hd1 hd2 (by simp; omega)] at hgrp
      apply outerLoop_step_err ext n f _ out _ hlt
      simpa [List.flatMap_append] using hgrp
    · obtain ⟨rest', hrest', htoks⟩ := append_snoc_split g rest toks _ hall hr
      subst htoks
      rw [validFrom_append] at hv
      simp at hn hbad
      have hlive : Live n out.size g := live_of_valid g _ hv.1 (by omega)
      have hlt : out.size < n := by
        cases g with
        | nil => exact absurd rfl hne
        | cons t ts => exact hlive.1
      have hgrp := bitLoop_group ext n f.toNat bs g 8 out hlen hlive hv.1 (by intro i h; exact hflag i h)
      rw [hfull hr, bitLoop_done ext n f.toNat (8 - 8) bs (expandFrom out g) (Or.inl rfl)] at hgrp
      rw [outerLoop_step ext n f _ _ out _ hlt hgrp]
      exact ih rest' _ hrest' (by simpa using hv.2) (by simp; omega) (by simp; omega)

/-! ### truncated streams -/

theorem decodeRef_trunc (ext : Bool) (len disp j : Nat)
    (hl : lenOk ext len)
    (hj : j < (tokBytes ext (.ref len disp)).length) :
    decodeRef ext ((tokBytes ext (.ref len disp)).take j) = none := by
  unfold lenOk at hl
  cases ext with
  | false =>
    simp [tokBytes] at hj ⊢
    rcases j with _ | _ | j
    · simp [decodeRef, next]
    · simp [decodeRef, next]
    · omega
  | true =>
    simp at hl
    by_cases h16 : len ≤ 16
    · simp [tokBytes, h16] at hj ⊢
      rcases j with _ | _ | j
      · simp [decodeRef, next]
      · simp [decodeRef, next]
      · omega
    · by_cases h272 : len ≤ 272
      · simp [tokBytes, h16, h272] at hj ⊢
        have h1 : (len - 17) / 16 % 256 / 16 = 0 := by omega
        have h3 : (len - 17) / 16 % 256 < 16 := by omega
        rcases j with _ | _ | _ | j
        · simp [decodeRef, next]
        · simp [decodeRef, next]
        · simp [decodeRef, next, UInt8.toNat_ofNat', h1]
        · omega
      · simp [tokBytes, h16, h272] at hj ⊢
        have h1 : (16 + (len - 273) / 4096) % 256 / 16 = 1 := by omega
        have h3 : ¬ (16 + (len - 273) / 4096) % 256 < 16 := by omega
        rcases j with _ | _ | _ | _ | j
        · simp [decodeRef, next]
        · simp [decodeRef, next]
        · simp [decodeRef, next, UInt8.toNat_ofNat', h1]
        · simp [decodeRef, next, UInt8.toNat_ofNat', h1]
        · omega

theorem bitLoop_tok_trunc (ext : Bool) (length flags k : Nat) (out : BA) (t : Tok) (j : Nat)
    (hlive : out.size < length) (hflag : flags.testBit k = t.isRef)
    (hv : ValidFrom ext out.size [t]) (hj : j < (tokBytes ext t).length) :
    bitLoop ext length flags (k + 1) ((tokBytes ext t).take j) out = .err .Invalid := by
  cases t with
  | lit b =>
    have hf : (flags >>> k) &&& 1 = 0 := (flag_test flags k).2 (by simpa [Tok.isRef] using hflag)
    have : j = 0 := by simp [tokBytes] at hj; omega
    subst this
    rw [bitLoop]
    simp [Nat.not_le.2 hlive, hf, next]
  | ref len disp =>
    have hf : ¬ ((flags >>> k) &&& 1 = 0) := by rw [flag_test]; simp [hflag, Tok.isRef]
    obtain ⟨hl, hd1, hd2, _, _⟩ := hv
    rw [bitLoop]
    simp only [ge_iff_le, Nat.not_le.2 hlive, ↓reduceIte, hf, decodeRef_trunc ext len disp j hl hj]

theorem bitLoop_group_trunc (ext : Bool) (length flags : Nat) :
    ∀ (g : List Tok) (k : Nat) (out : BA), g.length ≤ k → Live length out.size g →
      ValidFrom ext out.size g →
      (∀ i (h : i < g.length), flags.testBit (k - 1 - i) = (g[i]).isRef) →
      ∀ j, j < (g.flatMap (tokBytes ext)).length →
      bitLoop ext length flags k ((g.flatMap (tokBytes ext)).take j) out = .err .Invalid := by
  intro g
  induction g with
  | nil => intro k out _ _ _ _ j hj; simp at hj
  | cons t ts ih =>
    intro k out hk hlive hv hfl j hj
    obtain ⟨k', rfl⟩ : ∃ k', k = k' + 1 := ⟨k - 1, by simp at hk; omega⟩
    rw [validFrom_cons] at hv
    have h0 := hfl 0 (by simp)
    simp at h0
    rw [List.flatMap_cons] at hj ⊢
    rw [List.length_append] at hj
    rw [List.take_append]
    by_cases hjt : j < (tokBytes ext t).length
    · have : j - (tokBytes ext t).length = 0 := by omega
      rw [this]
      simp only [List.take_zero, List.append_nil]
      exact bitLoop_tok_trunc ext length flags k' out t j hlive.1 h0 hv.1 hjt
    · have htake : (tokBytes ext t).take j = tokBytes ext t := List.take_of_length_le (by omega)
      rw [htake, bitLoop_tok ext length flags k' _ out t hlive.1 h0 hv.1]
      have hsz : (expandFrom out [t]).size = out.size + t.size := by simp [tsize]
      exact ih k' (expandFrom out [t]) (by simp at hk; omega) (by rw [hsz]; exact hlive.2)
        (by rw [hsz]; exact hv.2)
        (by
          intro i h
          have := hfl (i + 1) (by simp; omega)
          simp at this
          rw [← this]; congr 1; omega)
        _ (by omega)

/-- Every strict prefix of the flag groups of a conforming stream is rejected. -/
theorem outerLoop_trunc (ext : Bool) (n : Nat) (toks : List Tok) (body : Bytes)
    (hg : Groups ext toks body) :
    ∀ (out : BA), ValidFrom ext out.size toks → out.size + tsize toks = n →
      ∀ j, j < body.length → outerLoop ext n (body.take j) out = .err .Invalid := by
  induction hg with
  | nil => intro out _ _ j hj; simp at hj
  | group f g rest bs hne hlen hfull hflag hrest ih =>
    intro out hv hn j hj
    rw [validFrom_append] at hv
    simp at hn
    have hlive : Live n out.size g := live_of_valid g _ hv.1 (by omega)
    have hlt : out.size < n := by
      cases g with
      | nil => exact absurd rfl hne
      | cons t ts => exact hlive.1
    cases j with
    | zero => simp; exact outerLoop_nil ext n out hlt
    | succ j =>
      simp only [List.take_succ_cons]
      simp only [List.length_cons, List.length_append] at hj
      rw [List.take_append]
      by_cases hjg : j < (g.flatMap (tokBytes ext)).length
      · have : j - (g.flatMap (tokBytes ext)).length = 0 := by omega
        rw [this]
        simp only [List.take_zero, List.append_nil]
        apply outerLoop_step_err ext n f _ out _ hlt
        exact bitLoop_group_trunc ext n f.toNat g 8 out hlen hlive hv.1 (by intro i h; exact hflag i h) j hjg
      · have htake : (g.flatMap (tokBytes ext)).take j = g.flatMap (tokBytes ext) :=
          List.take_of_length_le (by omega)
        rw [htake]
        have hr : rest ≠ [] := by
          intro hr; subst hr
          have := groups_nil_inv hrest; subst this
          simp only [List.length_nil] at hj; omega
        have hgrp := bitLoop_group ext n f.toNat (bs.take (j - (g.flatMap (tokBytes ext)).length)) g 8 out
          hlen hlive hv.1 (by intro i h; exact hflag i h)
        rw [hfull hr, bitLoop_done ext n f.toNat (8 - 8) _ (expandFrom out g) (Or.inl rfl)] at hgrp
        rw [outerLoop_step ext n f _ _ out _ hlt hgrp]
        exact ih _ (by simpa using hv.2) (by simp; omega) _ (by omega)

/-- Every strict prefix of a conforming stream is rejected. -/
theorem decompressLz_trunc (ext : Bool) (n : Nat) (toks : List Tok) (s : Bytes)
    (he : Encodes ext n toks s) (hv : Valid ext toks) (hn : tsize toks = n)
    (hb : n < (if ext then 2 ^ 32 else 2 ^ 24)) (k : Nat) (hk : k < s.length) :
    decompressLz (s.take k) = .err .Invalid := by
  obtain ⟨body, rfl, hg⟩ := he
  have hout := outerLoop_trunc ext n toks body hg #[] (by simpa [Valid] using hv) (by simpa using hn)
  by_cases hk4 : k < 4
  · exact decompressLz_short _ (by simp; omega)
  rw [List.take_append]
  rw [List.length_append] at hk
  cases ext with
  | false =>
    simp at hb
    have hlen : (header false n).length = 4 := by simp [header, leBytes]
    rw [List.take_of_length_le (by omega), hlen]
    simp only [decompressLz, readU32_header10 n _ hb]
    have h1 : (16 + 256 * n) % 256 = 16 := by omega
    have h2 : (16 + 256 * n) / 256 = n := by omega
    simp [h1, h2]
    exact hout _ (by omega)
  | true =>
    simp at hb
    by_cases h0 : n = 0 ∨ 2 ^ 24 ≤ n
    · have hlen : (header true n).length = 8 := by simp [header, h0, leBytes]
      by_cases hk8 : k < 8
      · have : k - (header true n).length = 0 := by omega
        rw [this]
        have hh : header true n = 0x11 :: 0 :: 0 :: 0 :: leBytes 4 n := by simp [header, h0]
        rw [hh]
        obtain ⟨k', rfl⟩ : ∃ k', k = k' + 4 := ⟨k - 4, by omega⟩
        simp only [List.take_succ_cons, List.take_zero, List.append_nil]
        have hs : readU32 ((leBytes 4 n).take k') = none :=
          readU32_short _ (by simp; omega)
        simp [decompressLz, readU32, next]
        simp [readU32, next] at hs
        simp [hs]
      · rw [List.take_of_length_le (by omega), hlen]
        obtain ⟨s, hs1, hs2⟩ := readU32_header11x n (body.take (k - 8)) hb h0
        simp [decompressLz, hs1, hs2]
        exact hout _ (by omega)
    · have hn24 : n < 2 ^ 24 := by omega
      have hn0 : n ≠ 0 := by omega
      have hlen : (header true n).length = 4 := by simp [header, h0, leBytes]
      rw [List.take_of_length_le (by omega), hlen]
      simp only [decompressLz, readU32_header11 n _ hn24 hn0]
      have h1 : (17 + 256 * n) % 256 = 17 := by omega
      have h2 : (17 + 256 * n) / 256 = n := by omega
      simp [h1, h2, hn0]
      exact hout _ (by omega)

/-- A stream whose tokens are valid up to a reference that reaches before the start of the
output (and whose announced length is not reached before it) is rejected, whatever follows. -/
theorem decompressLz_badref (ext : Bool) (n : Nat) (toks : List Tok) (len disp : Nat) (s : Bytes)
    (he : Encodes ext n (toks ++ [.ref len disp]) s) (hv : Valid ext toks)
    (hl : lenOk ext len) (hd1 : 1 ≤ disp) (hd2 : disp ≤ 4096)
    (hn : tsize toks < n) (hbad : tsize toks < disp)
    (hb : n < (if ext then 2 ^ 32 else 2 ^ 24)) :
    decompressLz s = .err .Invalid := by
  obtain ⟨body, rfl, hg⟩ := he
  have hout := outerLoop_badref ext n len disp _ body hg hl hd1 hd2 toks #[] rfl
    (by simpa [Valid] using hv) (by simpa using hn) (by simpa using hbad)
  cases ext with
  | false =>
    simp at hb
    simp only [decompressLz, readU32_header10 n body hb]
    have h1 : (16 + 256 * n) % 256 = 16 := by omega
    have h2 : (16 + 256 * n) / 256 = n := by omega
    simp [h1, h2, hout]
  | true =>
    simp at hb
    by_cases h0 : n = 0 ∨ 2 ^ 24 ≤ n
    · obtain ⟨s, hs1, hs2⟩ := readU32_header11x n body hb h0
      simp [decompressLz, hs1, hs2, hout]
    · have hn24 : n < 2 ^ 24 := by omega
      have hn0 : n ≠ 0 := by omega
      simp only [decompressLz, readU32_header11 n body hn24 hn0]
      have h1 : (17 + 256 * n) % 256 = 17 := by omega
      have h2 : (17 + 256 * n) / 256 = n := by omega
      simp [h1, h2, hn0, hout]

end Mila.Lz
