/-
Composition glue, C01 → C18: every archive `Asset.build v` returns is `Tidy` (no labels at all,
one string per cell inside the data, no pointers / c-strings, strings in `D` when the specs' are),
hence — with the alignment from `Asset.build_layout` — in C01's domain.
-/
import MilaModel.Lemmas.ComposeTidy
import MilaModel.Lemmas.AssetBuild

namespace Mila.Compose
open Mila Mila.BinArchive Mila.Ser Mila.Layered Mila.Asset

/-- Every string of every spec (name and the 33 optional strings) lies in `D`. -/
def AssetStrsIn (D : Str → Prop) (v : AssetBinary) : Prop :=
  ∀ spec ∈ v.specs, (∀ s, spec.name = some s → D s) ∧ ∀ s, some s ∈ spec.strs → D s

variable {D : Str → Prop}

private theorem strField_mem {spec : AssetSpec} {i : Nat} {v : Str} (h : strField spec i = some v) :
    some v ∈ spec.strs := by
  unfold strField at h
  cases hk : spec.strs[i - 1]? with
  | none => rw [hk] at h; cases h
  | some o =>
    rw [hk] at h
    simp only [Option.join_some] at h
    rw [h] at hk
    exact List.mem_of_getElem? hk

theorem tidy_writeBytesR {w w' : Writer} {v : Bytes} (h : Tidy D w.archive)
    (hw : writeBytesR w v = .ok w') : Tidy D w'.archive := by
  have := h.wWriteBytes (v := v)
  unfold writeBytesR at hw
  split at hw
  · rename_i w1 he
    cases hw
    rw [he] at this; exact this
  · cases hw
  · cases hw

theorem tidy_writeField (spec : AssetSpec) (hs : ∀ s, some s ∈ spec.strs → D s) (w w' : Writer)
    (i : Nat) (h : Tidy D w.archive) (hw : writeField spec w i = .ok w') : Tidy D w'.archive := by
  unfold writeField at hw
  split at hw
  · unfold writeFlagStr at hw
    split at hw
    · rename_i s hv
      exact h.wWriteString (fun t e => by cases e; exact hs _ (strField_mem hv)) hw
    · cases hw; exact h
  · split at hw
    · exact tidy_writeBytesR h hw
    · cases hw; exact h
  · split at hw
    · exact h.wWriteU32 hw
    · cases hw; exact h

theorem tidy_writeFields (spec : AssetSpec) (hs : ∀ s, some s ∈ spec.strs → D s) :
    ∀ (is : List Nat) (w w' : Writer), Tidy D w.archive → writeFields spec is w = .ok w' →
      Tidy D w'.archive := by
  intro is
  induction is with
  | nil => intro w w' h hw; simp only [writeFields, Res.ok.injEq] at hw; rw [← hw]; exact h
  | cons i is ih =>
    intro w w' h hw
    unfold writeFields at hw
    split at hw
    · rename_i w1 hw1
      exact ih _ _ (tidy_writeField spec hs _ _ i h hw1) hw
    · cases hw
    · cases hw

theorem tidy_append (spec : AssetSpec) (hn : ∀ s, spec.name = some s → D s)
    (hs : ∀ s, some s ∈ spec.strs → D s) (a a' : BinArchive) (h : Tidy D a)
    (hw : Asset.append spec a = .ok a') : Tidy D a' := by
  unfold Asset.append at hw
  dsimp only at hw
  have h0 : Tidy D (a.allocateAtEnd (computeFlags spec).2) := h.allocateAtEnd _
  split at hw
  · rename_i w1 hw1
    have t1 : Tidy D w1.archive :=
      tidy_writeBytesR (w := ⟨a.allocateAtEnd (computeFlags spec).2, a.size⟩) h0 hw1
    split at hw
    · rename_i w2 hw2
      have t2 := t1.wWriteString hn hw2
      split at hw
      · rename_i w3 hw3
        have t3 := tidy_writeFields spec hs _ _ _ t2 hw3
        split at hw
        · split at hw
          · rename_i w4 hw4
            cases hw
            exact tidy_writeFields spec hs _ _ _ t3 hw4
          · cases hw
          · cases hw
        · cases hw; exact t3
      · cases hw
      · cases hw
    · cases hw
    · cases hw
  · cases hw
  · cases hw

theorem tidy_appendAll : ∀ (specs : List AssetSpec) (a a' : BinArchive),
    (∀ spec ∈ specs, (∀ s, spec.name = some s → D s) ∧ ∀ s, some s ∈ spec.strs → D s) →
    Tidy D a → appendAll specs a = .ok a' → Tidy D a' := by
  intro specs
  induction specs with
  | nil => intro a a' _ h hw; simp only [appendAll, Res.ok.injEq] at hw; rw [← hw]; exact h
  | cons spec rest ih =>
    intro a a' hD h hw
    unfold appendAll at hw
    split at hw
    · rename_i a1 h1
      have hsp := hD spec (List.mem_cons_self ..)
      exact ih _ _ (fun t ht => hD t (List.mem_cons_of_mem _ ht))
        (tidy_append spec hsp.1 hsp.2 _ _ h h1) hw
    · cases hw
    · cases hw

/-- **Every archive `AssetBinary::serialize` builds is tidy.** -/
theorem tidy_asset_build (v : AssetBinary) (hD : AssetStrsIn D v) {a : BinArchive}
    (ha : Asset.build v = .ok a) : Tidy D a := by
  unfold Asset.build at ha
  dsimp only at ha
  have h0 : Tidy D ((BinArchive.new .little).allocateAtEnd 4) := (tidy_new _).allocateAtEnd _
  split at ha
  · rename_i a1 h1
    split at ha
    · rename_i a2 h2
      cases ha
      exact (tidy_appendAll _ _ _ hD (h0.writeUInt4 h1) h2).allocateAtEnd 4
    · cases ha
    · cases ha
  · cases ha
  · cases ha

/-- The built archive carries no label. -/
theorem asset_build_tidy_plain (v : AssetBinary) (hwf : ∀ s ∈ v.specs, SpecWF s)
    (hsmall : 4 * (fileCells v).length < 2 ^ 64) (hD : AssetStrsIn D v) {a : BinArchive}
    (ha : Asset.build v = .ok a) : Tidy D a ∧ Plain a := by
  obtain ⟨a', ha', _, hp⟩ := build_layout v hwf hsmall
  rw [ha] at ha'
  cases ha'
  exact ⟨tidy_asset_build v hD ha, hp⟩

end Mila.Compose
