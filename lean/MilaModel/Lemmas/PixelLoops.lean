/-
Helper lemmas for C19: the invariant rule for `forRange`, reading a buffer after `setIfInBounds`,
what the four-byte pixel writes do, and row-major index arithmetic.
-/
import MilaModel.Model.Etc1

namespace Mila

/-- Invariant rule for `for j in i..i+n`. -/
theorem forRangeFrom_inv {σ : Type} (body : Nat → σ → Res σ) (I : Nat → σ → Prop) :
    ∀ n i s, I i s →
      (∀ j s, i ≤ j → j < i + n → I j s → ∃ s', body j s = .ok s' ∧ I (j + 1) s') →
      ∃ s', forRangeFrom body n i s = .ok s' ∧ I (i + n) s' := by
  intro n
  induction n with
  | zero => intro i s h _; exact ⟨s, rfl, by simpa using h⟩
  | succ n ih =>
    intro i s h step
    obtain ⟨s1, hb, h1⟩ := step i s (Nat.le_refl _) (by omega) h
    obtain ⟨s2, hr, h2⟩ := ih (i + 1) s1 h1 (fun j s hij hj hI => step j s (by omega) (by omega) hI)
    refine ⟨s2, ?_, ?_⟩
    · simp [forRangeFrom, hb, hr]
    · have : i + 1 + n = i + (n + 1) := by omega
      rw [← this]; exact h2

/-- Invariant rule for `for j in 0..n`. -/
theorem forRange_inv {σ : Type} (body : Nat → σ → Res σ) (I : Nat → σ → Prop) (n : Nat) (s : σ)
    (h0 : I 0 s) (step : ∀ j s, j < n → I j s → ∃ s', body j s = .ok s' ∧ I (j + 1) s') :
    ∃ s', forRange n body s = .ok s' ∧ I n s' := by
  have := forRangeFrom_inv body I n 0 s h0 (fun j s _ hj hI => step j s (by omega) hI)
  simpa [forRange] using this

theorem getD_setIfInBounds (a : Buf) (i j : Nat) (v d : UInt8) :
    (a.setIfInBounds i v).getD j d = if i = j ∧ i < a.size then v else a.getD j d := by
  simp only [Array.getD_eq_getD_getElem?, Array.getElem?_setIfInBounds]
  by_cases h : i = j
  · subst h
    by_cases h2 : i < a.size
    · simp [h2]
    · simp [h2]
  · simp [h]

namespace Pixel

/-- A colour channel as the byte that is stored. -/
def chanByte (c : Rgba) (j : Nat) : UInt8 := UInt8.ofNat (c.chan j)

/-- The effect of a four-byte pixel write at `o` (common to `write4` and `Etc1.put4`). -/
theorem set4_getD (bmp : Buf) (o : Nat) (c : Rgba) (h : o + 4 ≤ bmp.size) (i : Nat) :
    ((((bmp.setIfInBounds o (UInt8.ofNat c.r)).setIfInBounds (o + 1) (UInt8.ofNat c.g)).setIfInBounds
      (o + 2) (UInt8.ofNat c.b)).setIfInBounds (o + 3) (UInt8.ofNat c.a)).getD i 0 =
      if o ≤ i ∧ i < o + 4 then chanByte c (i - o) else bmp.getD i 0 := by
  simp only [getD_setIfInBounds, Array.size_setIfInBounds]
  by_cases h0 : o = i
  · subst h0; simp [chanByte, Rgba.chan]; omega
  by_cases h1 : o + 1 = i
  · subst h1; simp [chanByte, Rgba.chan]; omega
  by_cases h2 : o + 2 = i
  · subst h2; simp [chanByte, Rgba.chan]; omega
  by_cases h3 : o + 3 = i
  · subst h3; simp [chanByte, Rgba.chan]; omega
  · have : ¬ (o ≤ i ∧ i < o + 4) := by omega
    simp [h0, h1, h2, h3, this]

theorem write4_spec (bmp : Buf) (o : Nat) (c : Rgba) (h : o + 4 ≤ bmp.size) :
    ∃ bmp', write4 bmp o c = .ok bmp' ∧ bmp'.size = bmp.size ∧
      ∀ i, bmp'.getD i 0 = if o ≤ i ∧ i < o + 4 then chanByte c (i - o) else bmp.getD i 0 := by
  refine ⟨_, by simp [write4, h], by simp, fun i => set4_getD bmp o c h i⟩

/-- Row-major index is below the pixel count. -/
theorem idx_lt {w h x y : Nat} (hx : x < w) (hy : y < h) : y * w + x < h * w := by
  have : (y + 1) * w ≤ h * w := Nat.mul_le_mul_right w hy
  rw [Nat.succ_mul] at this
  omega

/-- Row-major indexing is injective on columns below the width. -/
theorem idx_inj {w x y x' y' : Nat} (hx : x < w) (hx' : x' < w) (h : y * w + x = y' * w + x') :
    x = x' ∧ y = y' := by
  have h1 : (y * w + x) % w = x := by rw [Nat.mul_comm, Nat.mul_add_mod]; exact Nat.mod_eq_of_lt hx
  have h2 : (y' * w + x') % w = x' := by rw [Nat.mul_comm, Nat.mul_add_mod]; exact Nat.mod_eq_of_lt hx'
  have hxx : x = x' := by rw [← h1, ← h2, h]
  subst hxx
  have hw : 0 < w := by omega
  have : y * w = y' * w := by omega
  exact ⟨rfl, Nat.eq_of_mul_eq_mul_right hw this⟩

end Pixel
end Mila
