/-
C17: `ASetFile::serialize` builds an archive that shows the declarative layout of the file
(`Aset.Layout`), for every file whose sets are non-empty lists.
-/
import MilaModel.Lemmas.AsetLayout
import MilaModel.Lemmas.AsetWriter

namespace Mila.Aset
open Mila BinArchive Layered

/-! ### counting cells -/

theorem slotCells_length (s : List (Option Str)) (i : Nat) :
    ∀ (n j : Nat), (slotCells s i n j).length
      = (List.range' j n).countP (fun bit => present s (i * 32 + bit + 1)) := by
  intro n
  induction n with
  | zero => intro j; rfl
  | succ n ih =>
    intro j
    rw [List.range'_succ, List.countP_cons]
    unfold slotCells
    cases hv : (s[i * 32 + j + 1]?).join with
    | some v =>
      have hp : present s (i * 32 + j + 1) = true := (present_iff _ _).2 ⟨v, hv⟩
      simp only [List.length_cons, ih, hp, if_true]
    | none =>
      have hp : present s (i * 32 + j + 1) = false := (present_false_iff _ _).2 hv
      simp only [ih, hp, Bool.false_eq_true, if_false, Nat.add_zero]

theorem slotCells_length_eq (s : List (Option Str)) (i : Nat) :
    (slotCells s i 32 0).length = stringsIn s i := by
  rw [slotCells_length, stringsIn, List.range_eq_range']

theorem stringsIn_eq_zero (s : List (Option Str)) (i : Nat) (h : setFlags s i = 0) :
    stringsIn s i = 0 := by
  unfold stringsIn
  rw [List.countP_eq_zero]
  intro j hj
  simp [(setFlags_eq_zero s i).1 h j (List.mem_range.1 hj)]

theorem groupCells_length (s : List (Option Str)) (i : Nat) :
    (groupCells s i).length = (if setFlags s i ≠ 0 then 1 else 0) + stringsIn s i := by
  unfold groupCells
  by_cases hz : setFlags s i = 0
  · simp [hz, stringsIn_eq_zero s i hz]
  · simp [hz, slotCells_length_eq]; omega

theorem groupsCells_length (s : List (Option Str)) :
    ∀ (n i : Nat), (groupsCells s n i).length
      = (List.range' i n).countP (fun g => setFlags s g ≠ 0) + ((List.range' i n).map (stringsIn s)).sum := by
  intro n
  induction n with
  | zero => intro i; rfl
  | succ n ih =>
    intro i
    rw [List.range'_succ, List.countP_cons, List.map_cons, List.sum_cons]
    simp only [groupsCells, List.length_append, ih, groupCells_length]
    by_cases hz : setFlags s i = 0 <;> simp [hz] <;> omega

theorem setCells_length (s : List (Option Str)) :
    (setCells s).length = flagsToWrite s + stringsToWrite s + 1 := by
  simp only [setCells, List.length_cons, groupsCells_length, flagsToWrite, stringsToWrite,
    List.range_eq_range']

/-! ### emission -/

theorem writeSlots_layout (s : List (Option Str)) (i : Nat) :
    ∀ (n j : Nat) (a : BinArchive) (pos : Nat) (cs : List Cell), WInv a pos cs →
      pos + 4 * (slotCells s i n j).length ≤ a.size →
      ∃ a' pos', writeSlots s i n j ⟨a, pos⟩ = .ok ⟨a', pos'⟩ ∧ WInv a' pos' (cs ++ slotCells s i n j)
        ∧ a'.size = a.size ∧ a'.labels = a.labels := by
  intro n
  induction n with
  | zero => intro j a pos cs h _; exact ⟨a, pos, rfl, by simpa [slotCells] using h, rfl, rfl⟩
  | succ n ih =>
    intro j a pos cs h hfit
    unfold writeSlots
    cases hv : (s[i * 32 + j + 1]?).join with
    | some v =>
      simp only [slotCells, hv, List.length_cons] at hfit ⊢
      obtain ⟨a1, hw, hi1, hs1, hl1⟩ := h.writeString_some (by omega) v
      rw [hw]
      simp only
      obtain ⟨a', pos', hw', hi', hs', hl'⟩ := ih (j + 1) a1 (pos + 4) _ hi1 (by rw [hs1]; omega)
      exact ⟨a', pos', hw', by simpa using hi', by rw [hs', hs1], by rw [hl', hl1]⟩
    | none =>
      simp only [slotCells, hv] at hfit ⊢
      exact ih (j + 1) a pos cs h hfit

theorem writeGroups_layout (s : List (Option Str)) :
    ∀ (n i : Nat) (a : BinArchive) (pos : Nat) (cs : List Cell), WInv a pos cs →
      pos + 4 * (groupsCells s n i).length ≤ a.size →
      ∃ a' pos', writeGroups s ((List.range' i n).map (setFlags s)) i ⟨a, pos⟩ = .ok ⟨a', pos'⟩
        ∧ WInv a' pos' (cs ++ groupsCells s n i) ∧ a'.size = a.size ∧ a'.labels = a.labels := by
  intro n
  induction n with
  | zero => intro i a pos cs h _; exact ⟨a, pos, rfl, by simpa [groupsCells] using h, rfl, rfl⟩
  | succ n ih =>
    intro i a pos cs h hfit
    rw [List.range'_succ, List.map_cons]
    unfold writeGroups
    simp only [groupsCells, List.length_append] at hfit ⊢
    by_cases hz : setFlags s i = 0
    · have hg : groupCells s i = [] := by simp [groupCells, hz]
      rw [hg] at hfit ⊢
      simp only [hz, ne_eq, not_true_eq_false, if_false, List.nil_append]
      exact ih (i + 1) a pos cs h (by simpa using hfit)
    · have hg : groupCells s i = .raw (leBytes 4 (setFlags s i)) :: slotCells s i 32 0 := by
        simp [groupCells, hz]
      rw [hg] at hfit ⊢
      simp only [List.length_cons] at hfit
      simp only [ne_eq, hz, not_false_eq_true, if_true]
      obtain ⟨a1, hw1, hi1, hs1, hl1⟩ := h.writeU32 (by omega) (setFlags s i)
      rw [hw1]
      simp only
      obtain ⟨a2, pos2, hw2, hi2, hs2, hl2⟩ :=
        writeSlots_layout s i 32 0 a1 (pos + 4) _ hi1 (by rw [hs1]; omega)
      rw [hw2]
      simp only
      have hp2 := hi2.pos_eq
      have hp0 := h.pos_eq
      simp only [List.length_append, List.length_cons, List.length_nil] at hp2
      obtain ⟨a', pos', hw', hi', hs', hl'⟩ := ih (i + 1) a2 pos2 _ hi2 (by rw [hs2, hs1]; omega)
      exact ⟨a', pos', hw', by simpa using hi', by rw [hs', hs2, hs1], by rw [hl', hl2, hl1]⟩

/-- The label map after the optional `write_label` of a set that starts at `p`. -/
def labelsAfter (m : UMap Nat (List Str)) (p : Nat) : Option Str → UMap Nat (List Str)
  | none => m
  | some l =>
    match m.get p with
    | some bucket => m.insert p (bucket ++ [l])
    | none => m.insert p [l]

theorem compiledFlags_take (s : List (Option Str)) :
    (compiledFlags s).take 8 = (List.range' 0 8).map (setFlags s) := by
  unfold compiledFlags
  rw [List.range_eq_range', List.take_of_length_le (by simp)]

theorem writeSetBody_layout (s : List (Option Str)) (a1 : BinArchive) (pos : Nat)
    (cs : List Cell) (hi1 : WInv a1 pos cs) (hfit : pos + 4 * (setCells s).length = a1.size) :
    ∃ a', writeSetBody s ⟨a1, pos⟩ = .ok ⟨a', a'.size⟩ ∧ WInv a' a'.size (cs ++ setCells s)
      ∧ a'.size = a1.size ∧ a'.labels = a1.labels := by
  unfold writeSetBody
  simp only [setCells, List.length_cons] at hfit
  obtain ⟨a2, hw2, hi2, hs2, hl2⟩ := hi1.writeU32 (by omega) (mainFlags s)
  rw [hw2]
  simp only
  rw [compiledFlags_take]
  obtain ⟨a3, pos3, hw3, hi3, hs3, hl3⟩ :=
    writeGroups_layout s 8 0 a2 (pos + 4) _ hi2 (by rw [hs2]; omega)
  have hp3 := hi3.pos_eq
  have hp0 := hi1.pos_eq
  simp only [List.length_append, List.length_cons, List.length_nil] at hp3
  have hpos3 : pos3 = a3.size := by rw [hs3, hs2]; omega
  rw [hw3, hpos3]
  refine ⟨a3, rfl, ?_, by rw [hs3, hs2], by rw [hl3, hl2]⟩
  rw [← hpos3]
  simpa [setCells] using hi3

theorem writeSet_layout (s : List (Option Str)) (hne : s ≠ []) (a : BinArchive) (pos : Nat)
    (cs : List Cell) (h : WInv a pos cs) (hend : pos = a.size) :
    ∃ a', writeSet ⟨a, pos⟩ s = .ok ⟨a', a'.size⟩ ∧ WInv a' a'.size (cs ++ setCells s)
      ∧ a'.size = a.size + 4 * (setCells s).length
      ∧ a'.labels = labelsAfter a.labels pos (s[0]?).join := by
  obtain ⟨l0, rest, rfl⟩ : ∃ l0 rest, s = l0 :: rest := by
    cases s with
    | nil => exact absurd rfl hne
    | cons x xs => exact ⟨x, xs, rfl⟩
  unfold writeSet Writer.allocateAtEnd
  simp only [List.getElem?_cons_zero, Option.join_some]
  have hlen := setCells_length (l0 :: rest)
  generalize hn : (flagsToWrite (l0 :: rest) + stringsToWrite (l0 :: rest) + 1) * 4 = n
  have h0 : WInv (a.allocateAtEnd n) pos cs := h.allocateAtEnd n
  have hs0 : (a.allocateAtEnd n).size = a.size + n := size_allocateAtEnd a n
  cases l0 with
  | none =>
    simp only
    obtain ⟨a', hw, hi, hs, hl⟩ := writeSetBody_layout (none :: rest) _ pos cs h0 (by rw [hs0, hlen]; omega)
    exact ⟨a', hw, hi, by rw [hs, hs0, hlen]; omega, by rw [hl]; rfl⟩
  | some label =>
    simp only
    have hv : validateAddress pos (a.allocateAtEnd n).size true = .ok () := by
      unfold validateAddress
      have : ¬ pos > (a.allocateAtEnd n).size := by rw [hs0]; omega
      simp [this]
    have hlbl : (a.allocateAtEnd n).labels = a.labels := rfl
    have hw1 : ∃ a1, Writer.writeLabel ⟨a.allocateAtEnd n, pos⟩ label = .ok ⟨a1, pos⟩
        ∧ WInv a1 pos cs ∧ a1.size = a.size + n ∧ a1.labels = labelsAfter a.labels pos (some label) := by
      unfold Writer.writeLabel Writer.step BinArchive.writeLabel
      simp only [hv, hlbl]
      cases hg : a.labels.get pos with
      | some bucket => exact ⟨_, rfl, h0.withLabels _, hs0, by simp [labelsAfter, hg]⟩
      | none => exact ⟨_, rfl, h0.withLabels _, hs0, by simp [labelsAfter, hg]⟩
    obtain ⟨a1, hw1, hi1, hs1, hl1⟩ := hw1
    rw [hw1]
    simp only
    obtain ⟨a', hw, hi, hs, hl⟩ := writeSetBody_layout (some label :: rest) a1 pos cs hi1 (by rw [hs1, hlen]; omega)
    exact ⟨a', hw, hi, by rw [hs, hs1, hlen]; omega, by rw [hl, hl1]⟩

/-! ### labels -/

/-- Label invariant of `serialize`: the table label sits alone at 12, every other label key lies
in `(12, bound)`. -/
structure LInv (m : UMap Nat (List Str)) (bound : Nat) : Prop where
  table : m.get 12 = some [tableLabel]
  range : ∀ x, m.get x ≠ none → 12 ≤ x ∧ x < bound

theorem get_labelsAfter_ne (m : UMap Nat (List Str)) (p x : Nat) (l : Option Str) (hx : x ≠ p) :
    (labelsAfter m p l).get x = m.get x := by
  cases l with
  | none => rfl
  | some l =>
    unfold labelsAfter
    cases m.get p <;> simp [UMap.get_insert, hx]

theorem labelAt_labelsAfter (a a' : BinArchive) (p : Nat) (l : Option Str)
    (hfresh : a.labels.get p = none) (hl : a'.labels = labelsAfter a.labels p l) :
    labelAt a' p = l := by
  unfold labelAt
  rw [hl]
  cases l with
  | none => simp [labelsAfter, hfresh]
  | some l => simp [labelsAfter, hfresh, UMap.get_insert]

theorem LInv.after {m : UMap Nat (List Str)} {bound p : Nat} (h : LInv m bound) (hp : bound ≤ p)
    (h12 : 12 < p) (l : Option Str) (bound' : Nat) (hb : p < bound') :
    LInv (labelsAfter m p l) bound' := by
  refine ⟨by rw [get_labelsAfter_ne _ _ _ _ (by omega)]; exact h.table, ?_⟩
  intro x hx
  by_cases e : x = p
  · omega
  · rw [get_labelsAfter_ne _ _ _ _ e] at hx
    have := h.range x hx
    omega

theorem writeSets_layout :
    ∀ (sets : List (List (Option Str))) (a : BinArchive) (pos : Nat) (cs : List Cell),
      WInv a pos cs → pos = a.size → LInv a.labels pos → 12 < pos → (∀ s ∈ sets, s ≠ []) →
      ∃ a', writeSets sets ⟨a, pos⟩ = .ok ⟨a', a'.size⟩ ∧ WInv a' a'.size (cs ++ setsCells sets)
        ∧ LInv a'.labels a'.size ∧ labelsAt a' pos sets
        ∧ (∀ x, x < pos → a'.labels.get x = a.labels.get x)
        ∧ a'.size = pos + 4 * (setsCells sets).length := by
  intro sets
  induction sets with
  | nil =>
    intro a pos cs h hend hl _ _
    refine ⟨a, by rw [← hend]; rfl, by rw [← hend]; simpa [setsCells] using h, by rw [← hend]; exact hl,
      trivial, fun _ _ => rfl, by simp [setsCells, hend]⟩
  | cons s rest ih =>
    intro a pos cs h hend hl h12 hne
    obtain ⟨a1, hw1, hi1, hs1, hl1⟩ := writeSet_layout s (hne s (by simp)) a pos cs h hend
    have hpos := setCells_length_pos s
    have hfresh : a.labels.get pos = none := by
      cases hg : a.labels.get pos with
      | none => rfl
      | some v => have := (hl.range pos (by rw [hg]; simp)).2; omega
    have hl1' : LInv a1.labels a1.size := by
      rw [hl1]; exact hl.after (Nat.le_refl _) h12 _ _ (by omega)
    obtain ⟨a', hw', hi', hl', hla', hlt', hs'⟩ :=
      ih a1 a1.size _ hi1 rfl hl1' (by omega) (fun t ht => hne t (by simp [ht]))
    unfold writeSets
    rw [hw1]
    simp only
    refine ⟨a', hw', by simpa [setsCells] using hi', hl', ⟨?_, ?_⟩, ?_, ?_⟩
    · have := hlt' pos (by omega)
      unfold labelAt at *
      rw [this]
      exact labelAt_labelsAfter a a1 pos _ hfresh hl1
    · have : pos + 4 * (setCells s).length = a1.size := by omega
      rw [this]; exact hla'
    · intro x hx
      rw [hlt' x (by omega), hl1, get_labelsAfter_ne _ _ _ _ (by omega)]
    · rw [hs', hs1]; simp only [setsCells, List.flatMap_cons, List.length_append]; omega

theorem writeTable_layout :
    ∀ (t : List (Option Str)) (a : BinArchive) (pos : Nat) (cs : List Cell), WInv a pos cs →
      pos + 4 * t.length ≤ a.size →
      ∃ a', writeTable t ⟨a, pos⟩ = .ok ⟨a', pos + 4 * t.length⟩
        ∧ WInv a' (pos + 4 * t.length) (cs ++ t.map .str) ∧ a'.size = a.size ∧ a'.labels = a.labels := by
  intro t
  induction t with
  | nil => intro a pos cs h _; exact ⟨a, rfl, by simpa using h, rfl, rfl⟩
  | cons x t ih =>
    intro a pos cs h hfit
    simp only [List.length_cons] at hfit
    obtain ⟨a1, hw1, hi1, hs1, hl1⟩ := h.writeString (by omega) x
    obtain ⟨a', hw', hi', hs', hl'⟩ := ih a1 (pos + 4) _ hi1 (by rw [hs1]; omega)
    unfold writeTable
    rw [hw1]
    simp only
    have e : pos + 4 + 4 * t.length = pos + 4 * (x :: t).length := by simp only [List.length_cons]; omega
    rw [e] at hw' hi'
    exact ⟨a', hw', by simpa using hi', by rw [hs', hs1], by rw [hl', hl1]⟩

/-! ### the whole file -/

theorem writeU32_positional {a a' : BinArchive} {pos pos' v : Nat}
    (h : Writer.writeU32 ⟨a, pos⟩ v = .ok ⟨a', pos'⟩) : a.writeUInt pos 4 v = .ok a' := by
  unfold Writer.writeU32 Writer.step at h
  simp only at h
  cases hh : a.writeUInt pos 4 v with
  | ok x => rw [hh] at h; simp at h; rw [h.1]
  | err e => rw [hh] at h; simp at h
  | panic => rw [hh] at h; simp at h

theorem writeString_positional {a a' : BinArchive} {pos pos' : Nat} {v : Option Str}
    (h : Writer.writeString ⟨a, pos⟩ v = .ok ⟨a', pos'⟩) : a.writeString pos v = .ok a' := by
  unfold Writer.writeString Writer.step at h
  simp only at h
  cases hh : a.writeString pos v with
  | ok x => rw [hh] at h; simp at h; rw [h.1]
  | err e => rw [hh] at h; simp at h
  | panic => rw [hh] at h; simp at h

/-- **Writer correctness**: `serialize` builds an archive with the layout of `f`. -/
theorem build_layout (f : ASetFile) (hne : ∀ s ∈ f.sets, s ≠ []) (hclip : 0 < f.animClipTable.length) :
    ∃ a, build f = .ok a ∧ Layout f a ∧ Plain a := by
  have h0 : WInv ((BinArchive.new .little).allocateAtEnd 12) 0 [] :=
    ⟨rfl, Nat.zero_le _, rfl, trivial, fun _ _ => rfl, fun x hx => absurd rfl hx, rfl⟩
  have hs0 : ((BinArchive.new .little).allocateAtEnd 12).size = 12 := by
    rw [size_allocateAtEnd]; rfl
  have hl0 : ((BinArchive.new .little).allocateAtEnd 12).labels = [] := rfl
  obtain ⟨a1, hw1, hi1, hs1, hl1⟩ := h0.writeU32 (by rw [hs0]; omega) 4
  obtain ⟨a2, hw2, hi2, hs2, hl2⟩ := hi1.writeString (by rw [hs1, hs0]; omega) f.metaStr
  obtain ⟨a3, hw3, hi3, hs3, hl3⟩ := hi2.writeU32 (by rw [hs2, hs1, hs0]; omega) 0x100
  have hw2 : Writer.writeString ⟨a1, 4⟩ f.metaStr = .ok ⟨a2, 8⟩ := hw2
  have hw3 : Writer.writeU32 ⟨a2, 8⟩ 256 = .ok ⟨a3, 12⟩ := hw3
  have hi4 := hi3.allocateAtEnd (f.animClipTable.length * 4)
  have hs4 : (a3.allocateAtEnd (f.animClipTable.length * 4)).size = 12 + f.animClipTable.length * 4 := by
    rw [size_allocateAtEnd, hs3, hs2, hs1, hs0]
  have hl4 : (a3.allocateAtEnd (f.animClipTable.length * 4)).labels = [] := by
    show a3.labels = []; rw [hl3, hl2, hl1, hl0]
  -- the table label
  have hv : validateAddress 12 (a3.allocateAtEnd (f.animClipTable.length * 4)).size true = .ok () := by
    unfold validateAddress
    have : ¬ 12 > (a3.allocateAtEnd (f.animClipTable.length * 4)).size := by rw [hs4]; omega
    simp [this]
  have hw5 : Writer.writeLabel ⟨a3.allocateAtEnd (f.animClipTable.length * 4), 12⟩ tableLabel
      = .ok ⟨{ a3.allocateAtEnd (f.animClipTable.length * 4) with labels := [(12, [tableLabel])] }, 12⟩ := by
    unfold Writer.writeLabel Writer.step BinArchive.writeLabel
    simp only [hv, hl4]
    rfl
  have hi5 := hi4.withLabels [(12, [tableLabel])]
  obtain ⟨a6, hw6, hi6, hs6, hl6⟩ := writeTable_layout f.animClipTable _ (0 + 4 + 4 + 4) _ hi5
    (by show 0 + 4 + 4 + 4 + 4 * f.animClipTable.length ≤ (a3.allocateAtEnd (f.animClipTable.length * 4)).size
        rw [hs4]; omega)
  have hs6' : a6.size = 12 + f.animClipTable.length * 4 := by rw [hs6]; exact hs4
  have hl6' : a6.labels = [(12, [tableLabel])] := hl6
  have hend : 0 + 4 + 4 + 4 + 4 * f.animClipTable.length = a6.size := by rw [hs6']; omega
  have hlinv : LInv a6.labels (0 + 4 + 4 + 4 + 4 * f.animClipTable.length) := by
    rw [hl6']
    refine ⟨by simp [UMap.get_cons], ?_⟩
    intro x hx
    rw [UMap.get_cons] at hx
    by_cases e : 12 = x
    · omega
    · simp [e, UMap.get_nil] at hx
  obtain ⟨a7, hw7, hi7, hl7, hla7, _, hs7⟩ :=
    writeSets_layout f.sets a6 _ _ hi6 hend hlinv (by omega) hne
  have hw6 : writeTable f.animClipTable
      ⟨{ a3.allocateAtEnd (f.animClipTable.length * 4) with labels := [(12, [tableLabel])] }, 12⟩
      = .ok ⟨a6, 0 + 4 + 4 + 4 + 4 * f.animClipTable.length⟩ := hw6
  refine ⟨a7, ?_, ?_, hi7.plain⟩
  · simp only [build, writeU32_positional hw1, writeString_positional hw2, writeU32_positional hw3,
      hw5, hw6, hw7]
  · have hcells : fileCells f = [] ++ [Cell.raw (leBytes 4 4)] ++ [Cell.str f.metaStr]
        ++ [Cell.raw (leBytes 4 256)] ++ f.animClipTable.map .str ++ setsCells f.sets := by
      simp [fileCells, headerCells]
    refine ⟨hi7.little, ?_, ?_, ⟨[tableLabel], hl7.table, by simp⟩, fun x hx => (hl7.range x hx).1, ?_⟩
    · rw [hcells]; exact hi7.pos_eq
    · rw [hcells]; exact hi7.cells
    · have : 4 * (headerCells f).length = 0 + 4 + 4 + 4 + 4 * f.animClipTable.length := by
        simp [headerCells]; omega
      rw [this]; exact hla7

end Mila.Aset
