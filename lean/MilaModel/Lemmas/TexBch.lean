/-
C20, BCH: a conforming file is read as the packed textures (symbolic execution of `bchProg`
against `Spec.Tex.ConformsBch`), with the read high-water mark above every payload; a file with a
wrong magic number is rejected.
-/
import MilaModel.Lemmas.TexSpec

namespace Mila.Containers
open Prog Spec.Tex Pixel

/-- side condition "the read fits in the data" -/
macro "fitsB" : tactic => `(tactic| first | omega | (simp; omega))

/-- the optional header field, present -/
theorem run_optU32 (f : Buf) (s : St) (hfit : s.pos + 4 ≤ f.size) :
    run (do let _ ← u32le; pure ()) f s = .ok ((), s.rd 4) := by
  rw [run_bind_ok (run_u32le _ _ hfit)]; rfl

/-- `Header::new` on a file with the right magic that is long enough for its header shape. -/
theorem bchHeader_run (f : Buf) (hmagic : f.leN 0 4 = 0x484342) (h56 : 56 ≤ f.size)
    (h64 : 20 < f.leN 4 1 → 64 ≤ f.size) :
    ∃ s, run bchHeader f ⟨0, [], 0⟩ = .ok (⟨f.leN 8 4, f.leN 12 4, f.leN 16 4, f.leN 20 4⟩, s) ∧
      s.names = [] := by
  unfold bchHeader
  rw [run_bind_ok (run_u32le _ _ (by fitsB))]
  simp only [hmagic, decide_true]
  rw [run_bind_ok (run_require_true _ _ _)]
  rw [run_bind_ok (run_u8 _ _ (by fitsB))]
  rw [run_bind_ok (run_u8 _ _ (by fitsB))]
  rw [run_bind_ok (run_u16le _ _ (by fitsB))]
  rw [run_bind_ok (run_u32le _ _ (by fitsB))]
  rw [run_bind_ok (run_u32le _ _ (by fitsB))]
  rw [run_bind_ok (run_u32le _ _ (by fitsB))]
  rw [run_bind_ok (run_u32le _ _ (by fitsB))]
  simp only [St.rd_pos, Nat.zero_add, Nat.reduceAdd]
  by_cases hb : 20 < f.leN 4 1
  · have h := h64 hb
    simp only [gt_iff_lt, hb, if_true]
    rw [run_bind_ok (run_optU32 _ _ (by fitsB))]
    rw [run_bind_ok (run_u32le _ _ (by fitsB))]
    rw [run_bind_ok (run_u32le _ _ (by fitsB))]
    rw [run_bind_ok (run_u32le _ _ (by fitsB))]
    rw [run_bind_ok (run_u32le _ _ (by fitsB))]
    rw [run_bind_ok (run_u32le _ _ (by fitsB))]
    rw [run_bind_ok (run_optU32 _ _ (by fitsB))]
    rw [run_bind_ok (run_u32le _ _ (by fitsB))]
    rw [run_bind_ok (run_u32le _ _ (by fitsB))]
    rw [run_bind_ok (run_u32le _ _ (by fitsB))]
    exact ⟨_, rfl, by simp⟩
  · simp only [gt_iff_lt, hb, if_false]
    rw [run_bind_ok (run_u32le _ _ (by fitsB))]
    rw [run_bind_ok (run_u32le _ _ (by fitsB))]
    rw [run_bind_ok (run_u32le _ _ (by fitsB))]
    rw [run_bind_ok (run_u32le _ _ (by fitsB))]
    rw [run_bind_ok (run_u32le _ _ (by fitsB))]
    rw [run_bind_ok (run_u32le _ _ (by fitsB))]
    rw [run_bind_ok (run_u32le _ _ (by fitsB))]
    rw [run_bind_ok (run_u32le _ _ (by fitsB))]
    exact ⟨_, rfl, by simp⟩

/-- `ContentTable::new`. -/
theorem bchContentTable_run (p : Profile) (f : Buf) (s : St) (hsize : f.size < 2 ^ 32)
    (hct : f.leN 8 4 + 0x2C ≤ f.size) (htbl : bchTable f < 2 ^ 32) :
    ∃ s', run (bchContentTable p (f.leN 8 4)) f s =
        .ok ((bchTable f, f.leN (f.leN 8 4 + 0x28) 4), s') ∧ s'.names = s.names ∧ s.hi ≤ s'.hi := by
  have e : f.leN (f.leN 8 4 + 0x24) 4 + f.leN 8 4 = bchTable f := by
    simp only [bchTable, u32At_eq]; omega
  unfold bchContentTable
  rw [add32_ok p _ _ (by omega), run_bind_ok (run_lift_ok _ _ _)]
  rw [run_bind_ok (run_seekStart _ _ _)]
  rw [run_bind_ok (run_u32le _ _ (by fitsB))]
  simp only [St.seek_pos]
  rw [add32_ok p _ _ (by omega), run_bind_ok (run_lift_ok _ _ _)]
  rw [run_bind_ok (run_u32le _ _ (by fitsB))]
  simp only [St.seek_pos, St.rd_pos, e]
  exact ⟨_, rfl, by simp, by simp; omega⟩

/-- One texture of a conforming file. -/
theorem bchEntry_run (p : Profile) (f : Buf) (i : Nat) (t : Tex) (s : St)
    (htex : bchTexture f i t = true) (hvalid : valid3ds t = true) (hname : utf8Name t = true) :
    ∃ s', run (bchEntry p (f.leN 8 4) (f.leN 12 4) (f.leN 16 4) (f.leN 20 4) (bchTable f) i) f s =
        .ok ((t.width, t.height, pixelsOf p t), s') ∧
      s'.names = t.name :: s.names ∧ s.hi ≤ s'.hi ∧ bchPayloadAt f i + t.payload.size ≤ s'.hi := by
  simp only [bchTexture, Bool.and_eq_true, decide_eq_true_eq, beq_iff_eq, u32At_eq, u16At_eq] at htex
  obtain ⟨⟨⟨⟨⟨⟨⟨⟨⟨⟨⟨⟨hent, hdesc⟩, hcmd⟩, hent32⟩, hdesc32⟩, hcmd32⟩, hname32⟩, hdata32⟩, hcstr⟩,
    hhei⟩, hwid⟩, hfmt⟩, hbytes⟩ := htex
  obtain ⟨hfit, hext⟩ := hasBytes_spec hbytes
  obtain ⟨hps, b, hdec⟩ := valid3ds_decodes p t hvalid
  have hpos := valid3ds_pos t hvalid
  have hraw := rawName_of_hasCStr hcstr
  have hdn := utf8Name_decodes hname
  have e_ent : bchTable f + i * 4 = bchTable f + 4 * i := by omega
  have e_desc : f.leN (bchTable f + 4 * i) 4 + f.leN 8 4 = bchDesc f i := by
    simp only [bchDesc, u32At_eq]; omega
  have e_cmd : f.leN (bchDesc f i) 4 + f.leN 16 4 = bchCmd f i := by
    simp only [bchCmd, u32At_eq]; omega
  have e_data : f.leN (bchCmd f i + 0x10) 4 + f.leN 20 4 = bchPayloadAt f i := by
    simp only [bchPayloadAt, u32At_eq]; omega
  unfold bchEntry
  rw [mul32_ok p i 4 (by omega), run_bind_ok (run_lift_ok _ _ _)]
  rw [add32_ok p _ _ (by omega), run_bind_ok (run_lift_ok _ _ _)]
  rw [run_bind_ok (run_seekStart _ _ _)]
  rw [run_bind_ok (run_u32le _ _ (by fitsB))]
  simp only [St.seek_pos, e_ent]
  rw [add32_ok p _ _ (by omega), run_bind_ok (run_lift_ok _ _ _), e_desc]
  rw [run_bind_ok (run_seekStart _ _ _)]
  rw [run_bind_ok (run_u32le _ _ (by fitsB))]
  simp only [St.seek_pos]
  rw [add32_ok p _ _ (by omega), run_bind_ok (run_lift_ok _ _ _), e_cmd]
  rw [run_bind_ok (run_skip _ _ _)]
  rw [run_bind_ok (run_u32le _ _ (by fitsB))]
  simp only [St.seek_pos, St.rd_pos, Nat.add_assoc, Nat.reduceAdd]
  rw [add32_ok p _ _ (by omega), run_bind_ok (run_lift_ok _ _ _)]
  rw [run_bind_ok (run_seekStart _ _ _)]
  rw [run_bind_ok (run_readName .utf8 f _ t.name (by simp [hraw, hdn]))]
  rw [run_bind_ok (run_seekStart _ _ _)]
  rw [run_bind_ok (run_u16le _ _ (by fitsB))]
  rw [run_bind_ok (run_u16le _ _ (by fitsB))]
  rw [run_bind_ok (run_skip _ _ _)]
  rw [run_bind_ok (run_u32le _ _ (by fitsB))]
  simp only [St.seek_pos, St.rd_pos, Nat.add_assoc, Nat.reduceAdd]
  rw [add32_ok p _ _ (by omega), run_bind_ok (run_lift_ok _ _ _), e_data]
  rw [run_bind_ok (run_skip _ _ _)]
  rw [run_bind_ok (run_u32le _ _ (by fitsB))]
  simp only [St.seek_pos, St.rd_pos, Nat.add_assoc, Nat.reduceAdd]
  rw [run_bind_ok (run_seekStart _ _ _)]
  unfold readAndDecode
  rw [hfmt, hwid, hhei, hps]
  rw [run_bind_ok (run_readBytes _ _ _ hpos (by fitsB))]
  simp only [St.seek_pos]
  rw [hext, hdec, run_bind_ok (run_lift_ok _ _ _)]
  have hpx : pixelsOf p t = b := by simp [pixelsOf, hdec]
  rw [hpx]
  exact ⟨_, rfl, by simp, by simp; omega, by simp; omega⟩

theorem bch_full (p : Profile) (f : Buf) (texs : List Tex) (hc : ConformsBch f texs = true) :
    ∃ raws sf, run (bchProg p) f ⟨0, [], 0⟩ = .ok (raws, sf) ∧
      assemble sf.names.reverse raws = texs.map (unpack p) ∧
      ∀ i t, texs[i]? = some t → bchPayloadAt f i + t.payload.size ≤ sf.hi := by
  simp only [ConformsBch, Bool.and_eq_true, decide_eq_true_eq, beq_iff_eq] at hc
  obtain ⟨⟨⟨hsize, h8⟩, hmagic⟩, hrest⟩ := hc
  cases hext : bchExtended (u8At f 4) with
  | none => simp [hext] at hrest
  | some ext =>
    simp only [hext, Bool.and_eq_true, decide_eq_true_eq, beq_iff_eq, u32At_eq] at hrest
    obtain ⟨⟨⟨⟨hhl, hct⟩, htbl32⟩, hcount⟩, hall⟩ := hrest
    have hent := allIdx_spec _ texs 0 hall
    rw [u32At_eq] at hmagic
    -- the header
    have hlen : 56 ≤ f.size ∧ (20 < f.leN 4 1 → 64 ≤ f.size) := by
      simp only [bchExtended, u8At_eq] at hext
      simp only [bchHeaderLen] at hhl
      split at hext
      · cases hext; simp at hhl; omega
      · split at hext
        · cases hext; simp at hhl; omega
        · cases hext
    obtain ⟨s0, hhdr, hn0⟩ := bchHeader_run f hmagic hlen.1 hlen.2
    -- the content table
    obtain ⟨s1, hctr, hn1, _⟩ := bchContentTable_run p f (s0.seek (f.leN 8 4)) hsize hct htbl32
    -- the textures
    obtain ⟨raws, s2, hraws, hrlen, hrq, hn2, _, hH⟩ :=
      forIdx_run_named (bchEntry p (f.leN 8 4) (f.leN 12 4) (f.leN 16 4) (f.leN 20 4) (bchTable f)) f
        (fun i raw => ∀ t, texs[i]? = some t → raw = (t.width, t.height, pixelsOf p t))
        (fun i => ((texs.map (unpack p)).getD i ⟨[], 0, 0, #[]⟩).name)
        (fun i => bchPayloadAt f i + ((texs[i]?.map (fun t => t.payload.size)).getD 0)) texs.length 0 s1
        (by
          intro i s _ hil
          have hil : i < texs.length := by omega
          have hti : texs[i]? = some texs[i] := List.getElem?_eq_getElem hil
          have he := hent i _ hti
          simp only [Nat.zero_add, Bool.and_eq_true] at he
          obtain ⟨⟨he1, he2⟩, he3⟩ := he
          obtain ⟨s', hr, hn, hh, hH⟩ := bchEntry_run p f i texs[i] s he1 he2 he3
          refine ⟨_, s', hr, ?_, ?_, hh, ?_⟩
          · intro t ht; rw [hti] at ht; cases ht; rfl
          · simp only [List.getD_eq_getElem?_getD, List.getElem?_map, hti, Option.map_some,
              Option.getD_some, unpack]
            exact hn
          · simp only [hti, Option.map_some, Option.getD_some]
            exact hH)
    refine ⟨raws, s2, ?_, ?_, ?_⟩
    · unfold bchProg
      rw [run_bind_ok hhdr]
      simp only []
      rw [run_bind_ok (run_seekStart _ _ _)]
      rw [run_bind_ok hctr]
      simp only []
      rw [hcount]
      exact hraws
    · rw [hn2, hn1]
      simp only [St.seek_names, hn0, List.append_nil, List.reverse_reverse, Nat.zero_add]
      apply assemble_eq texs raws (unpack p) (by omega)
      intro i r t hr ht
      have := hrq i r hr t (by simpa using ht)
      rw [this]; rfl
    · intro i t ht
      have hil : i < texs.length := (List.getElem?_eq_some_iff.mp ht).1
      have := hH i (by omega)
      simpa [ht] using this

/-- wrong magic (or fewer than four bytes) is rejected -/
theorem bch_bad_magic (p : Profile) (f : Buf) (h : f.size < 4 ∨ u32At f 0 ≠ 0x484342) :
    ∃ e, run (bchProg p) f ⟨0, [], 0⟩ = .err e := by
  unfold bchProg
  by_cases h4 : f.size < 4
  · refine ⟨.Eof, run_bind_err ?_⟩
    unfold bchHeader
    apply run_bind_err
    have : ¬ (0 + 4 ≤ f.size) := by omega
    simp [u32le, run, this]
  · have hm : f.leN 0 4 ≠ 0x484342 := by
      rcases h with h | h
      · omega
      · rwa [u32At_eq] at h
    refine ⟨.BadMagic, run_bind_err ?_⟩
    unfold bchHeader
    rw [run_bind_ok (run_u32le _ _ (by fitsB))]
    apply run_bind_err
    have : decide (f.leN 0 4 = 0x484342) = false := by simp [hm]
    simp only [this]
    rfl

end Mila.Containers
