/-
C05, part 1: the readers layered on `BinArchive.parse` never produce the `panic` outcome —
text archive (both formats), aset, asset binary — for an arbitrary archive (hence for whatever an
untrusted buffer parses to) and an arbitrary codec.  Termination of the three `while` loops
(`TextArchive.fromLoop`, `Aset.readSets`, `Asset.readSpecs`) is part of the *definitions*: they are
well-founded recursions on the bytes that remain, accepted by Lean with an explicit progress proof
(`readMessage_progress`, `readSet_pos`, `fromStream_pos`); the remaining loops are structural.

Also here: the shape of what the aset reader accepts (every set has exactly 257 entries), which
is what makes `ASetFile::serialize`'s `set[0]` safe on accepted values.
-/
import MilaModel.Lemmas.Arc
import MilaModel.Lemmas.BinSys
import MilaModel.Model.TextArchive
import MilaModel.Model.Aset
import MilaModel.Model.AssetBinary

namespace Mila.ParsersLemmas
open Mila BinArchive

/-! ### generic -/

/-- A `foldlM` in `Res` whose step never panics never panics. -/
theorem foldlM_ne_panic {α β : Type} (f : β → α → Res β) (hf : ∀ b a, f b a ≠ .panic) :
    ∀ (l : List α) (b : β), l.foldlM f b ≠ .panic := by
  intro l
  induction l with
  | nil => intro b; simp [List.foldlM, pure]
  | cons x xs ih =>
    intro b
    simp only [List.foldlM_cons]
    cases hfx : f b x with
    | ok b1 => simpa [bind, Res.bind] using ih b1
    | err er => simp [bind, Res.bind]
    | panic => exact absurd hfx (hf b x)

/-- An invariant of the accumulator that every successful step preserves holds of the result. -/
theorem foldlM_inv {α β : Type} (f : β → α → Res β) (P : β → Prop)
    (hf : ∀ b a b', P b → f b a = .ok b' → P b') :
    ∀ (l : List α) (b b' : β), P b → l.foldlM f b = .ok b' → P b' := by
  intro l
  induction l with
  | nil =>
    intro b b' hb h
    simp only [List.foldlM, pure] at h
    rw [← Res.ok.inj h]; exact hb
  | cons x xs ih =>
    intro b b' hb h
    simp only [List.foldlM_cons] at h
    cases hfx : f b x with
    | ok b1 =>
      rw [hfx] at h
      exact ih b1 b' (hf b x b1 hb hfx) (by simpa [bind, Res.bind] using h)
    | err er => rw [hfx] at h; simp [bind, Res.bind] at h
    | panic => rw [hfx] at h; simp [bind, Res.bind] at h

theorem bind_ne_panic {α β : Type} (r : Res α) (f : α → Res β) (hr : r ≠ .panic)
    (hf : ∀ a, f a ≠ .panic) : r.bind f ≠ .panic := by
  cases r with
  | ok a => exact hf a
  | err e => simp [Res.bind]
  | panic => exact absurd rfl hr

theorem bind_err {α β : Type} {r : Res α} {x : Err} (f : α → Res β) (h : r = .err x) :
    r.bind f = .err x := by
  rw [h]; rfl

/-- Case-split a goal `(match … with …) ≠ .panic` all the way down (zeta-reducing `let`s met on
the way) and close every leaf with the `≠ .panic` simp lemmas of the callees. -/
macro "total_tac" : tactic =>
  `(tactic| ((repeat' (first | split | simp only [])) <;> simp_all))

/-! ### stream reader calls -/

theorem step_ne_panic {α : Type} (r : Reader) (w : Nat) (call : Nat → Res α)
    (h : ∀ p, call p ≠ .panic) : r.step w call ≠ .panic := by
  unfold Reader.step; split <;> simp_all

@[simp] theorem reader_readU8 (a : BinArchive) (r : Reader) : Reader.readU8 a r ≠ .panic :=
  step_ne_panic _ _ _ (readU8_ne_panic a)

@[simp] theorem reader_readU32 (a : BinArchive) (r : Reader) : Reader.readU32 a r ≠ .panic :=
  step_ne_panic _ _ _ (fun p => readUInt_ne_panic a p 4)

@[simp] theorem reader_readString (a : BinArchive) (r : Reader) : Reader.readString a r ≠ .panic :=
  step_ne_panic _ _ _ (readString_ne_panic a)

@[simp] theorem readLabels_total (a : BinArchive) (p : Nat) : a.readLabels p ≠ .panic :=
  readLabels_ne_panic a p

@[simp] theorem reader_readLabel (a : BinArchive) (r : Reader) (i : Nat) :
    Reader.readLabel a r i ≠ .panic := by
  unfold Reader.readLabel
  split <;> simp_all

@[simp] theorem reader_readBytes (a : BinArchive) (r : Reader) (n : Nat) :
    Reader.readBytes a r n ≠ .panic := by
  unfold Reader.readBytes
  have := readBytes_ne_panic a r.pos n
  total_tac

@[simp] theorem reader_readSjisAligned (c : Codec) (a : BinArchive) (r : Reader) :
    Reader.readSjisAligned c a r ≠ .panic := by
  unfold Reader.readSjisAligned; split <;> simp

/-! ### text archive -/

section text
open TextArchive

@[simp] theorem decodeUtf16_total (raw : Bytes) : Utf.decodeUtf16 raw ≠ .panic := by
  unfold Utf.decodeUtf16; split <;> simp

@[simp] theorem readUtf16Aligned_total (a : BinArchive) (r : Reader) : readUtf16Aligned a r ≠ .panic := by
  unfold readUtf16Aligned
  total_tac

@[simp] theorem readMessage_total (c : Codec) (f : TextFormat) (a : BinArchive) (r : Reader) :
    readMessage c f a r ≠ .panic := by
  cases f <;> simp [readMessage]

/-- The message loop never panics.  (That it terminates is the well-founded definition itself:
`fromLoop` recurses on `a.size - pos` with `readMessage_progress`.) -/
@[simp] theorem fromLoop_total (c : Codec) (f : TextFormat) (a : BinArchive) (pos : Nat)
    (es : List (Str × Str)) : fromLoop c f a pos es ≠ .panic := by
  fun_induction fromLoop c f a pos es <;> simp_all

theorem text_fromArchive_total (c : Codec) (a : BinArchive) (f : TextFormat) (e : Endian) :
    TextArchive.fromArchive c a f e ≠ .panic := by
  unfold TextArchive.fromArchive
  total_tac

theorem text_fromBytes_total (c : Codec) (raw : Bytes) (f : TextFormat) (e : Endian) :
    TextArchive.fromBytes c raw f e ≠ .panic := by
  unfold TextArchive.fromBytes
  split
  · exact text_fromArchive_total _ _ _ _
  · simp
  · rename_i h; exact absurd h (ArcLemmas.parse_total c e raw)

end text

/-! ### aset -/

section aset
open Aset

@[simp] theorem readTable_total (a : BinArchive) (n : Nat) (r : Reader) : readTable a n r ≠ .panic := by
  fun_induction readTable a n r <;> simp_all

@[simp] theorem readSlots_total (a : BinArchive) (fl n bit : Nat) (r : Reader) :
    readSlots a fl n bit r ≠ .panic := by
  fun_induction readSlots a fl n bit r <;> simp_all

@[simp] theorem readGroups_total (a : BinArchive) (mf n i : Nat) (r : Reader) :
    readGroups a mf n i r ≠ .panic := by
  fun_induction readGroups a mf n i r <;> simp_all

@[simp] theorem readSet_total (a : BinArchive) (r : Reader) : readSet a r ≠ .panic := by
  unfold readSet
  total_tac

/-- The set loop never panics (termination: well-founded on `a.size - r.pos`, `readSet_pos`). -/
@[simp] theorem readSets_total (a : BinArchive) (r : Reader) (acc : List (List (Option Str))) :
    readSets a r acc ≠ .panic := by
  fun_induction readSets a r acc <;> simp_all

theorem aset_fromArchive_total (a : BinArchive) : Aset.fromArchive a ≠ .panic := by
  unfold Aset.fromArchive
  total_tac

/-! #### every accepted set has 257 entries -/

theorem readSlots_length (a : BinArchive) (fl n bit : Nat) (r : Reader) :
    ∀ {l r'}, readSlots a fl n bit r = .ok (l, r') → l.length = n := by
  fun_induction readSlots a fl n bit r
  all_goals intro l r' h
  all_goals first
    | (simp only [Res.ok.injEq, Prod.mk.injEq] at h
       obtain ⟨h1, _⟩ := h
       subst h1
       simp_all)
    | simp_all

theorem readGroups_length (a : BinArchive) (mf n i : Nat) (r : Reader) :
    ∀ {l r'}, readGroups a mf n i r = .ok (l, r') → l.length = 32 * n := by
  fun_induction readGroups a mf n i r
  all_goals intro l r' h
  all_goals simp_all
  · obtain ⟨rfl, _⟩ := h
    have := readSlots_length _ _ _ _ _ ‹readSlots a _ 32 0 _ = _›
    simp only [List.length_append]; omega
  · obtain ⟨rfl, _⟩ := h
    simp only [List.length_cons]; omega

theorem readSet_length {a : BinArchive} {r : Reader} {s r'} (h : readSet a r = .ok (s, r')) :
    s.length = 257 := by
  unfold readSet at h
  split at h
  · split at h
    · split at h
      · rename_i hg
        simp only [Res.ok.injEq, Prod.mk.injEq] at h
        rw [← h.1, List.length_cons, readGroups_length _ _ _ _ _ hg]
      · simp at h
      · simp at h
    · simp at h
    · simp at h
  · simp at h
  · simp at h

theorem readSets_length (a : BinArchive) (r : Reader) (acc : List (List (Option Str))) :
    (∀ s ∈ acc, s.length = 257) → ∀ {sets}, readSets a r acc = .ok sets →
      ∀ s ∈ sets, s.length = 257 := by
  fun_induction readSets a r acc
  · rename_i r acc hlt set r' hset ih
    intro hacc sets h
    apply ih _ h
    intro s hs
    rcases List.mem_append.mp hs with hs | hs
    · exact hacc s hs
    · rw [List.mem_singleton.mp hs]; exact readSet_length hset
  · intro _ sets h; simp at h
  · intro _ sets h; simp at h
  · intro hacc sets h
    rw [← Res.ok.inj h]; exact hacc

/-- What `ASetFile::from_archive` accepts: the table has 257 entries and every set has exactly
257 (label + 8 × 32 slots) — in particular no set is empty. -/
theorem aset_fromArchive_shape {a : BinArchive} {f : ASetFile} (h : Aset.fromArchive a = .ok f) :
    ∀ s ∈ f.sets, s.length = 257 := by
  unfold Aset.fromArchive at h
  simp only [] at h
  split at h
  · simp at h
  · split at h
    · split at h
      · split at h
        · rename_i hs
          rw [← Res.ok.inj h]
          exact readSets_length _ _ _ (by simp) hs
        · simp at h
        · simp at h
      · simp at h
      · simp at h
    · simp at h
    · simp at h

end aset

/-! ### asset binary -/

section asset
open Asset

@[simp] theorem readFlagStr_total (a : BinArchive) (r : Reader) (fl : List Nat) (i : Nat) :
    readFlagStr a r fl i ≠ .panic := by
  unfold readFlagStr; split <;> simp

@[simp] theorem readColor_total (a : BinArchive) (r : Reader) : readColor a r ≠ .panic := by
  unfold readColor
  total_tac

@[simp] theorem readStrs_total (a : BinArchive) (fl : List Nat) (is : List Nat) (r : Reader) :
    readStrs a fl is r ≠ .panic := by
  fun_induction readStrs a fl is r <;> simp_all

@[simp] theorem readVal_total (a : BinArchive) (fl : List Nat) (i : Nat) (r : Reader) :
    readVal a fl i r ≠ .panic := by
  unfold readVal
  total_tac

@[simp] theorem readVals_total (a : BinArchive) (fl : List Nat) (is : List Nat) (r : Reader) :
    readVals a fl is r ≠ .panic := by
  fun_induction readVals a fl is r <;> simp_all

@[simp] theorem fromStream_total (a : BinArchive) (r : Reader) : fromStream a r ≠ .panic := by
  unfold fromStream
  total_tac

/-- The record loop never panics (termination: well-founded on `a.size - r.pos`,
`fromStream_pos`). -/
@[simp] theorem readSpecs_total (a : BinArchive) (r : Reader) (acc : List AssetSpec) :
    readSpecs a r acc ≠ .panic := by
  fun_induction readSpecs a r acc <;> simp_all

theorem asset_fromArchive_total (a : BinArchive) : Asset.fromArchive a ≠ .panic := by
  unfold Asset.fromArchive
  total_tac

end asset

end Mila.ParsersLemmas
