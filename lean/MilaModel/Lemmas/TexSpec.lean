/-
C20: bridges between the container specification (`Spec/TexContainers.lean`) and the model's
primitives: the specification's field readers are the model's, `hasBytes` / `hasCStr` give what
`read_exact` / `read_until` return, and a texture of the property's domain decodes (C19).
-/
import MilaModel.Lemmas.TexProg
import MilaModel.Lemmas.PixelDecode
import MilaModel.Spec.TexContainers

namespace Mila.Containers
open Spec.Tex Pixel

theorem leAt_eq (d : Buf) (pos n : Nat) : Spec.Linear.leAt d pos n = d.leN pos n := by
  induction n generalizing pos with
  | zero => rfl
  | succ n ih => simp only [Spec.Linear.leAt, Buf.leN, Buf.byteAt, ih]

theorem u8At_eq (d : Buf) (o : Nat) : u8At d o = d.leN o 1 := leAt_eq d o 1
theorem u16At_eq (d : Buf) (o : Nat) : u16At d o = d.leN o 2 := leAt_eq d o 2
theorem u32At_eq (d : Buf) (o : Nat) : u32At d o = d.leN o 4 := leAt_eq d o 4

theorem be16_eq (d : Buf) (o : Nat) : be16 d o = d.beN o 2 := by
  simp [be16, Spec.Linear.be16At, Buf.beN, Buf.byteAt]

theorem be32_eq (d : Buf) (o : Nat) : be32 d o = d.beN o 4 := by
  simp only [be32, Spec.Linear.be16At, Buf.beN, Buf.byteAt, Nat.add_assoc, Nat.reduceAdd]
  omega

theorem hasBytes_spec {f : Buf} {off : Nat} {b : Buf} (h : hasBytes f off b = true) :
    off + b.size ≤ f.size ∧ f.extract off (off + b.size) = b := by
  simpa [hasBytes] using h

theorem isPow2From8_spec {n : Nat} (h : isPow2From8 n = true) : Spec.Morton.PowerOfTwoFrom8 n := by
  simp only [isPow2From8, Bool.and_eq_true, decide_eq_true_eq, beq_iff_eq] at h
  refine ⟨n.log2, ?_, h.2⟩
  by_cases hk : 3 ≤ n.log2
  · exact hk
  · have : 2 ^ n.log2 ≤ 2 ^ 2 := Nat.pow_le_pow_right (by decide) (by omega)
    omega

/-- A NUL-terminated string in the data is what `read_until(0)` + `pop()` return. -/
theorem rawName_of_hasCStr {f : Buf} {off : Nat} {str : Bytes} (h : hasCStr f off str = true) :
    rawName f off = str := by
  simp only [hasCStr, Bool.and_eq_true, Bool.not_eq_true', decide_eq_true_eq, beq_iff_eq] at h
  obtain ⟨⟨⟨hnz, hfit⟩, hbytes⟩, hz⟩ := h
  have hlen : nameLen f off (f.size - off) = str.length := by
    apply nameLen_of_cstr f off str
    · omega
    · omega
    · intro i hi
      have : (f.extract off (off + str.length)).toList.getD i 0 = str.getD i 0 := by rw [hbytes]
      rw [← this]
      simp only [List.getD_eq_getElem?_getD, Array.getElem?_toList, Array.getElem?_extract,
        Array.getD_eq_getD_getElem?]
      have : i < min (off + str.length) f.size - off := by omega
      simp [this]
    · intro i hi hzero
      rw [List.getD_eq_getElem?_getD, List.getElem?_eq_getElem hi] at hzero
      simp only [Option.getD_some] at hzero
      have hm : (0 : UInt8) ∈ str := by rw [← hzero]; exact List.getElem_mem hi
      have hc : str.contains 0 = true := List.contains_iff_mem.mpr hm
      rw [hnz] at hc
      exact Bool.noConfusion hc
    · have : f.getD (off + str.length) 1 = f.getD (off + str.length) 0 := by
        simp only [Array.getD_eq_getD_getElem?]
        have : off + str.length < f.size := by omega
        simp [this]
      rw [← this]; exact hz
  unfold rawName
  simp only [hlen]
  have : off + str.length < f.size := by omega
  rw [if_pos this]
  exact hbytes

theorem area_tiles {w h : Nat} (hw : w % 8 = 0) (hh : h % 8 = 0) : w * h = 64 * (h / 8 * (w / 8)) := by
  have e1 : w = w / 8 * 8 := by omega
  have e2 : h = h / 8 * 8 := by omega
  calc w * h = (w / 8 * 8) * (h / 8 * 8) := by rw [← e1, ← e2]
    _ = 64 * (h / 8 * (w / 8)) := by
      rw [Nat.mul_mul_mul_comm, Nat.mul_comm (w / 8) (h / 8), Nat.mul_comm]

/-- A texture of the property's domain: the library computes its payload size exactly, and the
payload decodes (in both profiles). -/
theorem valid3ds_pos (t : Tex) (h : valid3ds t = true) : 0 < t.payload.size := by
  unfold valid3ds at h
  cases hb : bitsPerPixel t.format with
  | none => simp [hb] at h
  | some bits =>
    simp only [hb, Bool.and_eq_true, decide_eq_true_eq, beq_iff_eq] at h
    obtain ⟨⟨⟨⟨hw, hh⟩, _⟩, _⟩, hsz⟩ := h
    have hbits : 0 < bits := by
      unfold bitsPerPixel at hb
      split at hb <;> simp_all <;> omega
    simp only [isPow2From8, Bool.and_eq_true, decide_eq_true_eq] at hw hh
    have : 0 < bits * t.width * t.height :=
      Nat.mul_pos (Nat.mul_pos hbits (by omega)) (by omega)
    omega

theorem valid3ds_decodes (p : Profile) (t : Tex) (h : valid3ds t = true) :
    payloadSize t.format t.width t.height = t.payload.size ∧
    ∃ b, decodePixelData p t.payload t.width t.height t.format = .ok b := by
  unfold valid3ds at h
  cases hb : bitsPerPixel t.format with
  | none => simp [hb] at h
  | some bits =>
    simp only [hb, Bool.and_eq_true, decide_eq_true_eq, beq_iff_eq] at h
    obtain ⟨⟨⟨⟨hw, hh⟩, hwb⟩, hhb⟩, hsz⟩ := h
    have hw8 := Etc1.pow2_mod8 (isPow2From8_spec hw)
    have hh8 := Etc1.pow2_mod8 (isPow2From8_spec hh)
    have harea := area_tiles hw8 hh8
    rw [Nat.mul_assoc] at hsz
    have hfmt : (t.format = 0 ∧ bits = 32) ∨ (t.format = 2 ∧ bits = 16) ∨ (t.format = 3 ∧ bits = 16) ∨
        (t.format = 4 ∧ bits = 16) ∨ (t.format = 5 ∧ bits = 16) ∨ (t.format = 7 ∧ bits = 8) ∨
        (t.format = 8 ∧ bits = 8) ∨ (t.format = 12 ∧ bits = 4) ∨ (t.format = 13 ∧ bits = 8) := by
      unfold bitsPerPixel at hb
      split at hb <;> simp_all
    have tiled : ∀ fmt, t.format = fmt → FixedFmt fmt → t.payload.size = texelBytes fmt * (t.width * t.height) →
        ∃ b, decodePixelData p t.payload t.width t.height t.format = .ok b := by
      intro fmt hf hfix hd
      subst hf
      have hle : t.format ≤ 11 := by rcases hfix with h | h | h | h | h | h | h | h | h <;> omega
      obtain ⟨b, hb, _⟩ := decodeRgba_ok p t.payload t.width t.height t.format hfix hw8 hh8 hwb hhb hd
      exact ⟨b, by rw [decodePixelData_tiled p _ _ _ _ hle, hb]⟩
    have etc : ∀ alpha : Bool, (t.format = 12 ∨ t.format = 13) → alpha = decide (t.format = 13) →
        t.payload.size = (t.height / 8 * (t.width / 8) * 4) * Etc1.blockBytes alpha →
        ∃ b, decodePixelData p t.payload t.width t.height t.format = .ok b := by
      intro alpha hf ha hd
      obtain ⟨b, hb, _⟩ := Etc1.decode_ok p t.payload t.width t.height alpha (isPow2From8_spec hw)
        (isPow2From8_spec hh) hwb hhb hd
      exact ⟨b, by rw [decodePixelData_etc p _ _ _ _ hf, ← ha, hb]⟩
    rcases hfmt with ⟨hf, rfl⟩ | ⟨hf, rfl⟩ | ⟨hf, rfl⟩ | ⟨hf, rfl⟩ | ⟨hf, rfl⟩ | ⟨hf, rfl⟩ | ⟨hf, rfl⟩ |
        ⟨hf, rfl⟩ | ⟨hf, rfl⟩
    · refine ⟨by simp only [payloadSize, hf, bppTimes2]; rw [Nat.mul_assoc]; omega,
        tiled 0 hf (Or.inl rfl) (by simp only [texelBytes]; omega)⟩
    · refine ⟨by simp only [payloadSize, hf, bppTimes2]; rw [Nat.mul_assoc]; omega,
        tiled 2 hf (Or.inr (Or.inl rfl)) (by simp only [texelBytes]; omega)⟩
    · refine ⟨by simp only [payloadSize, hf, bppTimes2]; rw [Nat.mul_assoc]; omega,
        tiled 3 hf (Or.inr (Or.inr (Or.inl rfl))) (by simp only [texelBytes]; omega)⟩
    · refine ⟨by simp only [payloadSize, hf, bppTimes2]; rw [Nat.mul_assoc]; omega,
        tiled 4 hf (Or.inr (Or.inr (Or.inr (Or.inl rfl)))) (by simp only [texelBytes]; omega)⟩
    · refine ⟨by simp only [payloadSize, hf, bppTimes2]; rw [Nat.mul_assoc]; omega,
        tiled 5 hf (Or.inr (Or.inr (Or.inr (Or.inr (Or.inl rfl))))) (by simp only [texelBytes]; omega)⟩
    · refine ⟨by simp only [payloadSize, hf, bppTimes2]; rw [Nat.mul_assoc]; omega,
        tiled 7 hf (Or.inr (Or.inr (Or.inr (Or.inr (Or.inr (Or.inr (Or.inl rfl))))))) (by simp only [texelBytes]; omega)⟩
    · refine ⟨by simp only [payloadSize, hf, bppTimes2]; rw [Nat.mul_assoc]; omega,
        tiled 8 hf (Or.inr (Or.inr (Or.inr (Or.inr (Or.inr (Or.inr (Or.inr (Or.inl rfl)))))))) (by simp only [texelBytes]; omega)⟩
    · refine ⟨by simp only [payloadSize, hf, bppTimes2]; rw [Nat.mul_assoc]; omega,
        etc false (Or.inl hf) (by simp [hf]) (by simp only [Etc1.blockBytes]; simp; omega)⟩
    · refine ⟨by simp only [payloadSize, hf, bppTimes2]; rw [Nat.mul_assoc]; omega,
        etc true (Or.inr hf) (by simp [hf]) (by simp only [Etc1.blockBytes]; simp; omega)⟩


/-- The pixels the library's decoder makes of a packed 3DS texture's own payload. -/
def pixelsOf (p : Profile) (t : Tex) : Buf :=
  match decodePixelData p t.payload t.width t.height t.format with
  | .ok b => b
  | _ => #[]

/-- The texture a reader must return for a packed 3DS texture. -/
def unpack (p : Profile) (t : Tex) : Texture := ⟨t.name, t.width, t.height, pixelsOf p t⟩

/-- The pixels of a packed CI8 image (TPL). -/
def pixelsOfTpl (t : Tex) : Buf :=
  match tplDecodeImage 2 t.palette 9 t.height t.width t.payload with
  | .ok b => b
  | _ => #[]

def unpackTpl (t : Tex) : Texture := ⟨[], t.width, t.height, pixelsOfTpl t⟩

theorem allIdx_spec {α : Type} (P : Nat → α → Bool) :
    ∀ (xs : List α) (k : Nat), allIdx P k xs = true → ∀ i x, xs[i]? = some x → P (k + i) x = true := by
  intro xs
  induction xs with
  | nil => intro k _ i x h; simp at h
  | cons y ys ih =>
    intro k h i x hx
    simp only [allIdx, Bool.and_eq_true] at h
    cases i with
    | zero => simp at hx; subst hx; simpa using h.1
    | succ j =>
      simp at hx
      have := ih (k + 1) h.2 j x hx
      have e : k + 1 + j = k + (j + 1) := by omega
      rw [e] at this; exact this

/-- Pairing the logged names with the decoded textures gives the expected list. -/
theorem assemble_eq (texs : List Tex) (raws : List Raw) (want : Tex → Texture)
    (hlen : raws.length = texs.length)
    (hraw : ∀ (i : Nat) (r : Raw) (t : Tex), raws[i]? = some r → texs[i]? = some t →
      r = ((want t).width, (want t).height, (want t).pixels)) :
    assemble ((List.range texs.length).map (fun i => ((texs.map want).getD i ⟨[], 0, 0, #[]⟩).name)) raws =
      texs.map want := by
  apply List.ext_getElem?
  intro i
  simp only [assemble, List.getElem?_zipWith, List.getElem?_map, List.getElem?_range]
  by_cases hi : i < texs.length
  · have hr : i < raws.length := by omega
    have ht : texs[i]? = some texs[i] := List.getElem?_eq_getElem hi
    have hrr : raws[i]? = some raws[i] := List.getElem?_eq_getElem hr
    have := hraw i _ _ hrr ht
    simp [hi, hr, ht, List.getD_eq_getElem?_getD, this]
  · have hr : ¬ i < raws.length := by omega
    have h1 : texs[i]? = none := by simp; omega
    have h2 : raws[i]? = none := by simp; omega
    simp [hi, h1, h2]

macro "u8arith" : tactic => `(tactic| (simp only [UInt8.le_iff_toNat_le, UInt8.lt_iff_toNat_lt, UInt8.reduceToNat, ← UInt8.toNat_inj] at * <;> omega))

/-- The specification's well-formedness check implies the model's (`encoding_rs`) validity check. -/
theorem utf8_spec_valid : ∀ (b : Bytes), Spec.Tex.utf8 b = true → utf8Valid b = true := by
  intro b
  fun_induction Spec.Tex.utf8 b
  case case1 => intro _; rfl
  case case2 a rest ha ih =>
    intro h
    have : a < 0x80 := by u8arith
    have hv := ih h
    unfold utf8Valid
    simp only [this, if_true]
    exact hv
  all_goals (
    intro h
    try simp only [Bool.and_eq_true, decide_eq_true_eq, beq_iff_eq, cont, Bool.false_eq_true,
      not_and] at *
    try rw [utf8Valid]
    try simp only [isCont, Bool.and_eq_true, Bool.or_eq_true, decide_eq_true_eq, beq_iff_eq])
  all_goals (repeat' split)
  all_goals (try (exfalso; u8arith))
  all_goals (try simp_all)
  all_goals (try u8arith)


/-- A UTF-8 name stored verbatim is what the reader reports. -/
theorem utf8Name_decodes {t : Tex} (h : utf8Name t = true) : decodeName .utf8 t.stored = some t.name := by
  simp only [utf8Name, Bool.and_eq_true, beq_iff_eq] at h
  simp [decodeName, h.1, utf8_spec_valid _ h.2]

end Mila.Containers
