/-
Composition glue, C01 → C16: the arc layout (`Spec.Arc.ConformsArcAt`) only looks at the data
bytes, at membership in the string cells and at membership in the `(address, label)` pairs, so it is
carried from the content `K` of a conforming bin image (`Spec.Image.Conforms`) to the archive the
parser returns for that image (`Ser.parse_conforming`).

One point needs care.  `Spec.Image.Conforms` leaves the bytes of `K.data` *inside annotated cells*
unconstrained (the words stored there are file offsets / targets), whereas the arc reader reads the
data block of the image as it is.  The composed statement therefore asks `K.data` to record the
stored words too (`hraw`): then `K.data` is literally the image's data block.
-/
import MilaModel.Lemmas.SerRound
import MilaModel.Lemmas.Arc

namespace Mila.Compose
open Mila Mila.BinArchive Mila.Ser
open Mila.Spec.Arc (LowestLabel StringsFunctional HeaderOk RecordAt BodyAt FileOk ConformsArcAt ConformsArc)

/-- What arc extraction sees of a bin-archive content: data, string cells, `(address, label)` pairs. -/
def arcOf (K : Spec.Image.Content) : Spec.Arc.Content :=
  ⟨K.data, K.strings, K.labels.flatMap (fun p => p.2.map (fun l => (p.1, l)))⟩

/-- The arc layout depends on the data, on the string cells as a finite map and on the set of
`(address, label)` pairs only. -/
theorem conformsArcAt_congr {K K' : Spec.Arc.Content} (hd : K'.data = K.data)
    (hs : K'.strings.Perm K.strings) (hl : ∀ q, q ∈ K'.labels ↔ q ∈ K.labels)
    {files : Spec.Arc.Files} {padded : Bool} {ca ia : Nat}
    (h : ConformsArcAt K files padded ca ia) : ConformsArcAt K' files padded ca ia := by
  obtain ⟨d', s', l'⟩ := K'
  simp only at hd hs hl
  subst hd
  obtain ⟨hsf, hcount, hinfo, hhead, hn, hfiles⟩ := h
  refine ⟨?_, ?_, ?_, hhead, hn, ?_⟩
  · exact ((hs.map (fun q : Nat × Bytes => q.1)).nodup_iff).mpr hsf
  · exact ⟨(hl _).mpr hcount.1, fun q hq e => hcount.2 q ((hl q).mp hq) e⟩
  · exact ⟨(hl _).mpr hinfo.1, fun q hq e => hinfo.2 q ((hl q).mp hq) e⟩
  · intro i hi
    have hf := hfiles i hi
    unfold FileOk at hf ⊢
    simp only at hf ⊢
    cases hu : Spec.Arc.u32le K.data (ia + 16 * i + 12) with
    | none => rw [hu] at hf; exact hf.elim
    | some off =>
      rw [hu] at hf
      simp only at hf ⊢
      obtain ⟨⟨r1, r2, r3, r4⟩, hb⟩ := hf
      exact ⟨⟨hs.mem_iff.mpr r1, r2, r3, r4⟩, hb⟩

/-- Membership in the flattened label pairs, through the lookup. -/
theorem mem_flat_labels (m : UMap Nat (List Str)) (nd : (m.map (·.1)).Nodup) (x : Nat) (l : Str) :
    (x, l) ∈ m.flatMap (fun p => p.2.map (fun n => (p.1, n))) ↔ l ∈ (UMap.get m x).getD [] := by
  simp only [List.mem_flatMap, List.mem_map]
  constructor
  · rintro ⟨p, hp, n, hn, he⟩
    have h1 : p.1 = x := (Prod.mk.inj he).1
    have h2 : n = l := (Prod.mk.inj he).2
    subst h1; subst h2
    rw [(mem_iff_get nd p).mp hp]
    exact hn
  · intro h
    cases hg : UMap.get m x with
    | none => rw [hg] at h; simp at h
    | some bucket =>
      rw [hg] at h
      exact ⟨(x, bucket), (mem_iff_get nd (x, bucket)).mpr hg, l, h, rfl⟩

section
variable {c : Codec} {D : Str → Prop} {e : Endian} {f : Bytes} {K : Spec.Image.Content}

/-- When `K.data` also records the words stored in annotated cells, the parsed archive's data block
is `K.data`. -/
theorem parsed_data_eq (ctx : Ctx c D e f K) {b : BinArchive} (hp : Parsed e f K b)
    (hraw : ∀ i, K.covered i → f[0x20 + i]? = K.data[i]?) : b.data = K.data := by
  rw [hp.data]
  apply List.ext_getElem?
  intro i
  by_cases hi : i < K.data.length
  · rw [Ser.getElem?_slice f 0x20 K.data.length i hi]
    by_cases hc : K.covered i
    · exact hraw i hc
    · exact ctx.conf.dataEq i hi hc
  · rw [List.getElem?_eq_none (by rw [slice_length _ _ _ ctx.data_fits]; omega),
      List.getElem?_eq_none (by omega)]

/-- **The arc layout of the content is the arc layout of the parsed archive.** -/
theorem conformsArc_parsed (ctx : Ctx c D e f K) {b : BinArchive} (hp : Parsed e f K b)
    (hraw : ∀ i, K.covered i → f[0x20 + i]? = K.data[i]?)
    {files : Spec.Arc.Files} {padded : Bool} (h : ConformsArc (arcOf K) files padded) :
    ConformsArc (ArcLemmas.contentOf b) files padded := by
  obtain ⟨ca, ia, h⟩ := h
  refine ⟨ca, ia, conformsArcAt_congr (K := arcOf K) ?_ ?_ ?_ h⟩
  · exact parsed_data_eq ctx hp hraw
  · exact hp.text
  · rintro ⟨x, l⟩
    show (x, l) ∈ b.labels.flatMap _ ↔ (x, l) ∈ K.labels.flatMap _
    rw [mem_flat_labels _ hp.labelKeys, mem_flat_labels _ ctx.wf.labelKeys, hp.labels x]
    rfl

/-- `hraw` holds when `K.data` is given as the image's data block. -/
theorem hraw_of_slice (wf : K.WF) (h : K.data = slice f 0x20 K.data.length) :
    ∀ i, K.covered i → f[0x20 + i]? = K.data[i]? := by
  rintro i ⟨x, hx, _, h2⟩
  have hin := wf.inside x hx
  have : K.data[i]? = (slice f 0x20 K.data.length)[i]? := congrArg (·[i]?) h
  rw [this, Ser.getElem?_slice _ _ _ _ (by omega)]

end

end Mila.Compose
