/-
Flag-bit lemmas shared by C17 and C18: a word accumulated by `f |= 1 << b` over the indices `b`
that satisfy a predicate has bit `j` set exactly when `j` is one of those indices; the test
`(x & (1 << i)) != 0` reads bit `i`.
-/
import MilaModel.Basic

namespace Mila.Layered

/-- `for b in l { if p b { f |= 1 << b } }`. -/
def orFold (p : Nat → Prop) [DecidablePred p] (l : List Nat) (acc : Nat) : Nat :=
  l.foldl (fun f b => if p b then f ||| (1 <<< b) else f) acc

theorem testBit_orFold (p : Nat → Prop) [DecidablePred p] (l : List Nat) (acc j : Nat) :
    (orFold p l acc).testBit j = (acc.testBit j || decide (j ∈ l ∧ p j)) := by
  induction l generalizing acc with
  | nil => simp [orFold]
  | cons b l ih =>
    unfold orFold at ih ⊢
    rw [List.foldl_cons, ih]
    by_cases hb : p b
    · rw [if_pos hb, Nat.testBit_or, Nat.one_shiftLeft, Nat.testBit_two_pow]
      by_cases hj : b = j
      · subst hj; simp [hb]
      · have : ¬ j = b := fun e => hj e.symm
        simp [hj, this]
    · rw [if_neg hb]
      by_cases hj : j = b
      · subst hj; simp [hb]
      · simp [hj]

/-- `(x & (1 << i)) != 0` is bit `i` of `x`. -/
theorem and_shift_ne_zero (x i : Nat) : (x &&& (1 <<< i) != 0) = x.testBit i := by
  rw [Nat.one_shiftLeft]
  cases h : x.testBit i with
  | false =>
    have : x &&& 2 ^ i = 0 := by
      apply Nat.eq_of_testBit_eq
      intro k
      rw [Nat.testBit_and, Nat.testBit_two_pow, Nat.zero_testBit]
      by_cases hk : i = k
      · subst hk; simp [h]
      · simp [hk]
    simp [this]
  | true =>
    have : x &&& 2 ^ i ≠ 0 := by
      intro e
      have := congrArg (fun y => y.testBit i) e
      simp [Nat.testBit_and, h] at this
    simpa using this

theorem orFold_lt (p : Nat → Prop) [DecidablePred p] (l : List Nat) (n : Nat)
    (h : ∀ b ∈ l, b < n) : orFold p l 0 < 2 ^ n := by
  apply Nat.lt_pow_two_of_testBit
  intro i hi
  rw [testBit_orFold]
  simp
  intro hm
  have := h i hm
  omega

theorem orFold_eq_zero_iff (p : Nat → Prop) [DecidablePred p] (l : List Nat) :
    orFold p l 0 = 0 ↔ ∀ b ∈ l, ¬ p b := by
  constructor
  · intro h b hb hp
    have := testBit_orFold p l 0 b
    rw [h] at this
    simp [hb, hp] at this
  · intro h
    apply Nat.eq_of_testBit_eq
    intro i
    rw [testBit_orFold]
    simp
    intro hm
    exact h i hm

theorem sum_countP_flatMap (P : Nat → Bool) (L : List Nat) (M : Nat → List Nat) :
    (L.map (fun g => (M g).countP P)).sum = (L.flatMap M).countP P := by
  induction L with
  | nil => rfl
  | cons x L ih => simp [List.flatMap_cons, List.countP_append, ih]

end Mila.Layered
