/-
Closed forms of the validation helpers and of every typed cell access of the bin-archive model
(C04): each call is `if InRange … then ok … else err OutOfBounds`.
-/
import MilaModel.Lemmas.BinBytes

namespace Mila
open BinArchive Spec.Cell

theorem ofLe_eq_foldr (b : Bytes) : ofLe b = b.foldr (fun x acc => x.toNat + 256 * acc) 0 := by
  induction b with
  | nil => rfl
  | cons x xs ih => simp [ofLe, ih]

theorem dec_eq_valueOf (e : Endian) (b : Bytes) : e.dec b = valueOf e b := by
  cases e <;> simp only [Endian.dec, valueOf, ofBe, ofLe_eq_foldr]

theorem toSigned_eq_signedOf (bits n : Nat) : toSigned bits n = signedOf bits n := rfl

theorem validateAddress_false (addr size : Nat) :
    validateAddress addr size false = if addr < size then .ok () else .err .OutOfBounds := by
  unfold validateAddress
  by_cases h : addr < size
  · simp [h]
  · simp [h]

theorem validateAddress_true (addr size : Nat) :
    validateAddress addr size true = if addr ≤ size then .ok () else .err .OutOfBounds := by
  unfold validateAddress
  by_cases h : addr ≤ size
  · simp [h]
  · simp [h]

theorem validateCell_eq (a : BinArchive) (addr w : Nat) :
    validateCell a addr w = if InRange a.size addr w then .ok () else .err .OutOfBounds := by
  unfold validateCell InRange
  rw [validateAddress_false, validateAddress_true]
  by_cases h1 : addr < a.size <;> by_cases h2 : addr + w ≤ a.size <;> simp [h1, h2]

theorem validateRange_eq (addr len size : Nat) (hs : size < 2 ^ 64) :
    validateRange addr len size = if InRange size addr len then .ok (addr + len) else .err .OutOfBounds := by
  unfold validateRange InRange
  rw [validateAddress_false, validateAddress_true]
  by_cases h1 : addr < size <;> by_cases h2 : addr + len ≤ size <;> simp [h1, h2]
  all_goals omega

theorem readBytes_eq (a : BinArchive) (addr len : Nat) (hs : a.size < 2 ^ 64) :
    a.readBytes addr len = if InRange a.size addr len then .ok (slice a.data addr len) else .err .OutOfBounds := by
  unfold readBytes
  rw [validateRange_eq _ _ _ hs]
  by_cases h : InRange a.size addr len <;> simp [h]

theorem readUInt_eq (a : BinArchive) (addr w : Nat) :
    a.readUInt addr w = if InRange a.size addr w then .ok (valueOf a.endian (slice a.data addr w))
      else .err .OutOfBounds := by
  unfold readUInt
  rw [validateCell_eq, dec_eq_valueOf]
  by_cases h : InRange a.size addr w <;> simp [h]

theorem slice_one (d : Bytes) (addr : Nat) (h : addr < d.length) : slice d addr 1 = [d.getD addr 0] := by
  unfold slice
  rw [List.drop_eq_getElem_cons h]
  simp [List.getD, List.getElem?_eq_getElem h, List.take]

theorem valueOf_single (e : Endian) (b : UInt8) : valueOf e [b] = b.toNat := by
  cases e <;> simp [valueOf]

theorem readU8_eq (a : BinArchive) (addr : Nat) :
    a.readU8 addr = if InRange a.size addr 1 then .ok (valueOf a.endian (slice a.data addr 1))
      else .err .OutOfBounds := by
  unfold readU8 InRange
  rw [validateAddress_false]
  by_cases h : addr < a.size
  · have h' : addr + 1 ≤ a.size := h
    simp only [h, h', and_self, if_true]
    rw [slice_one _ _ h, valueOf_single]
  · simp [h]

theorem writeBytes_eq (a : BinArchive) (addr : Nat) (v : Bytes) :
    a.writeBytes addr v = if InRange a.size addr v.length then .ok { a with data := patch a.data addr v }
      else .err .OutOfBounds := by
  unfold writeBytes InRange
  rw [validateAddress_false, validateAddress_true]
  by_cases h1 : addr < a.size <;> by_cases h2 : addr + v.length ≤ a.size <;> simp [h1, h2]

theorem writeUInt_eq (a : BinArchive) (addr w v : Nat) :
    a.writeUInt addr w v = if InRange a.size addr w then
      .ok { a with data := patch a.data addr (a.endian.enc w v) } else .err .OutOfBounds := by
  unfold writeUInt
  rw [validateCell_eq]
  by_cases h : InRange a.size addr w <;> simp [h]

theorem writeU8_eq (a : BinArchive) (addr v : Nat) :
    a.writeU8 addr v = if InRange a.size addr 1 then
      .ok { a with data := patch a.data addr [UInt8.ofNat v] } else .err .OutOfBounds := by
  unfold writeU8 InRange
  rw [validateAddress_false]
  by_cases h : addr < a.size
  · have h' : addr + 1 ≤ a.size := h
    simp [h, h']
  · simp [h]

end Mila
