/-
C20, TPL: a conforming file is read as the packed CI8 textures (symbolic execution of `tplProg`,
the hand model of the `binread` derive reader, against `Spec.Tex.ConformsTpl`), with the read
high-water mark above every image-data and palette-data block; a wrong magic is rejected.
-/
import MilaModel.Lemmas.TexSpec
import MilaModel.Lemmas.PixelCi8

namespace Mila.Containers
open Prog Pixel

/-- side condition "the read fits in the data" -/
macro "fitsT" : tactic => `(tactic| first | omega | (simp; omega))

/-! ### `FilePtr32` -/

/-- `FilePtr32::parse`: the target is parsed at the pointer, then the cursor returns to just after
the pointer field. -/
theorem filePtr32_run {α : Type} (inner : Prog α) (f : Buf) (s s1 : St) (a : α)
    (hfit : s.pos + 4 ≤ f.size)
    (h : run inner f ⟨f.beN s.pos 4, s.names, max s.hi (s.pos + 4)⟩ = .ok (a, s1)) :
    run (filePtr32 inner) f s = .ok (a, ⟨s.pos + 4, s1.names, s1.hi⟩) := by
  unfold filePtr32
  rw [run_bind_ok (run_u32be _ _ hfit)]
  rw [run_bind_ok (run_position _ _)]
  rw [run_bind_ok (run_seekStart _ _ _)]
  rw [run_bind_ok (run_skip _ _ _)]
  have e : ((s.rd 4).seek 0).seek (((s.rd 4).seek 0).pos + f.beN s.pos 4) =
      ⟨f.beN s.pos 4, s.names, max s.hi (s.pos + 4)⟩ := by
    simp [St.seek, St.rd]
  rw [e, run_bind_ok h]
  rw [run_bind_ok (run_seekStart _ _ _)]
  rw [run_bind_ok (run_seekStart _ _ _)]
  rfl

/-! ### the two headers -/

/-- The palette header at the cursor: entry count, format 2, data pointer; the data are read. -/
theorem tplPalette_run (f : Buf) (s : St) (pal : Buf)
    (hfit : s.pos + 12 ≤ f.size) (hfmt : f.beN (s.pos + 4) 4 = 2)
    (hsz : f.beN s.pos 2 * 2 = pal.size) (hpos : 0 < pal.size)
    (hdfit : f.beN (s.pos + 8) 4 + pal.size ≤ f.size)
    (hext : f.extract (f.beN (s.pos + 8) 4) (f.beN (s.pos + 8) 4 + pal.size) = pal) :
    ∃ s', run tplPalette f s = .ok (⟨2, pal⟩, s') ∧ s'.pos = s.pos + 12 ∧ s'.names = s.names ∧
      s.hi ≤ s'.hi ∧ f.beN (s.pos + 8) 4 + pal.size ≤ s'.hi := by
  unfold tplPalette
  rw [run_bind_ok (run_u16be _ _ (by fitsT))]
  rw [run_bind_ok (run_u8 _ _ (by fitsT))]
  rw [run_bind_ok (run_u8 _ _ (by fitsT))]
  rw [run_bind_ok (run_u32be _ _ (by fitsT))]
  simp only [St.rd_pos, Nat.add_assoc, Nat.reduceAdd, hfmt, hsz, Nat.le_refl, decide_true]
  rw [run_bind_ok (run_require_true _ _ _)]
  rw [run_bind_ok (filePtr32_run _ f _ _ _ (by fitsT) (run_readBytes _ _ _ hpos (by fitsT)))]
  simp only [St.rd_pos, Nat.add_assoc, Nat.reduceAdd, hext]
  refine ⟨_, rfl, ?_, ?_, ?_, ?_⟩ <;> simp <;> omega

/-- The ten trailing fields of the image header. -/
theorem tplImageTail_run (f : Buf) (s : St) (x : TplImage) (hfit : s.pos + 24 ≤ f.size) :
    ∃ s', run (do
        let _ ← u32be
        let _ ← u32be
        let _ ← u32be
        let _ ← u32be
        let _ ← u32be
        let _ ← u8
        let _ ← u8
        let _ ← u8
        let _ ← u8
        pure x : Prog TplImage) f s = .ok (x, s') ∧
      s'.pos = s.pos + 24 ∧ s'.names = s.names ∧ s.hi ≤ s'.hi := by
  rw [run_bind_ok (run_u32be _ _ (by fitsT))]
  rw [run_bind_ok (run_u32be _ _ (by fitsT))]
  rw [run_bind_ok (run_u32be _ _ (by fitsT))]
  rw [run_bind_ok (run_u32be _ _ (by fitsT))]
  rw [run_bind_ok (run_u32be _ _ (by fitsT))]
  rw [run_bind_ok (run_u8 _ _ (by fitsT))]
  rw [run_bind_ok (run_u8 _ _ (by fitsT))]
  rw [run_bind_ok (run_u8 _ _ (by fitsT))]
  rw [run_bind_ok (run_u8 _ _ (by fitsT))]
  refine ⟨_, rfl, ?_, ?_, ?_⟩ <;> simp <;> omega

/-- The image header at the cursor (36 bytes): height, width, format 9 (CI8), data pointer, ten
further fields; the data are read. -/
theorem tplImage_run (f : Buf) (s : St) (img : Buf)
    (hfit : s.pos + 36 ≤ f.size) (hfmt : f.beN (s.pos + 4) 4 = 9)
    (hsz : align (f.beN s.pos 2) 4 * align (f.beN (s.pos + 2) 2) 8 = img.size) (hpos : 0 < img.size)
    (hdfit : f.beN (s.pos + 8) 4 + img.size ≤ f.size)
    (hext : f.extract (f.beN (s.pos + 8) 4) (f.beN (s.pos + 8) 4 + img.size) = img) :
    ∃ s', run tplImage f s = .ok (⟨f.beN s.pos 2, f.beN (s.pos + 2) 2, 9, img⟩, s') ∧
      s'.pos = s.pos + 36 ∧ s'.names = s.names ∧
      s.hi ≤ s'.hi ∧ f.beN (s.pos + 8) 4 + img.size ≤ s'.hi := by
  have hbytes : tplImageBytes 9 (f.beN s.pos 2) (f.beN (s.pos + 2) 2) = img.size := by
    rw [← hsz]; simp [tplImageBytes, tplBlockDims]
  have hok : tplImageFormatOk 9 = true := by simp [tplImageFormatOk]
  obtain ⟨s2, h2, hp2, hn2, hh2, hH2⟩ : ∃ s2, run (filePtr32 (readBytes img.size)) f (((s.rd 2).rd 2).rd 4) =
      .ok (img, s2) ∧ s2.pos = s.pos + 12 ∧ s2.names = s.names ∧ s.hi ≤ s2.hi ∧
      f.beN (s.pos + 8) 4 + img.size ≤ s2.hi := by
    have h := filePtr32_run _ f (((s.rd 2).rd 2).rd 4) _ _ (by fitsT) (run_readBytes _ _ _ hpos (by fitsT))
    simp only [St.rd_pos, Nat.add_assoc, Nat.reduceAdd, hext] at h
    refine ⟨_, h, ?_, ?_, ?_, ?_⟩ <;> simp <;> omega
  obtain ⟨s3, h3, hp3, hn3, hh3⟩ := tplImageTail_run f s2 ⟨f.beN s.pos 2, f.beN (s.pos + 2) 2, 9, img⟩ (by omega)
  unfold tplImage
  rw [run_bind_ok (run_u16be _ _ (by fitsT))]
  rw [run_bind_ok (run_u16be _ _ (by fitsT))]
  rw [run_bind_ok (run_u32be _ _ (by fitsT))]
  simp only [St.rd_pos, Nat.add_assoc, Nat.reduceAdd, hfmt, hbytes, hok]
  rw [run_bind_ok (run_require_true _ _ _)]
  rw [run_bind_ok h2]
  exact ⟨s3, h3, by omega, by rw [hn3, hn2], by omega, by omega⟩

/-! ### what `validTpl` gives -/

theorem pad_4 (h : Nat) : Spec.Tex.pad h 4 = (h + 3) / 4 * 4 := by
  simp [Spec.Tex.pad]

theorem pad_8 (w : Nat) : Spec.Tex.pad w 8 = Spec.Morton.pad8 w := by
  simp [Spec.Tex.pad, Spec.Morton.pad8]

/-- A valid CI8 texture: format, sizes as the library computes them, and the image decodes. -/
theorem validTpl_spec {t : Spec.Tex.Tex} (h : Spec.Tex.validTpl t = true) :
    t.format = 9 ∧ align t.height 4 * align t.width 8 = t.payload.size ∧ 0 < t.payload.size ∧
    0 < t.palette.size ∧
    tplDecodeImage 2 t.palette 9 t.height t.width t.payload = .ok (pixelsOfTpl t) := by
  simp only [Spec.Tex.validTpl, Bool.and_eq_true, decide_eq_true_eq, beq_iff_eq, pad_4, pad_8] at h
  obtain ⟨⟨⟨⟨⟨⟨⟨⟨⟨⟨⟨hfmt, hw1⟩, hh1⟩, _⟩, _⟩, hsz⟩, heven⟩, h2⟩, _⟩, hall⟩, _⟩, _⟩ := h
  have hidx : ∀ x y, x < t.width → y < t.height →
      (t.payload.getD (Spec.Morton.ci8Offset (Spec.Morton.pad8 t.width) x y) 0).toNat < t.palette.size / 2 := by
    intro x y hx hy
    rw [List.all_eq_true] at hall
    have h1 := hall y (List.mem_range.mpr hy)
    rw [List.all_eq_true] at h1
    have h2 := h1 x (List.mem_range.mpr hx)
    simpa using h2
  obtain ⟨out, hdec, _, _⟩ := ci8_decode t.palette t.payload t.width t.height (by omega) (by omega) heven hsz hidx
  have hp4 : 4 ≤ (t.height + 3) / 4 * 4 := by omega
  have hp8 : 8 ≤ Spec.Morton.pad8 t.width := by unfold Spec.Morton.pad8; omega
  refine ⟨hfmt, ?_, ?_, by omega, ?_⟩
  · rw [align_4, align_8, hsz]
  · rw [hsz]; exact Nat.mul_pos (by omega) (by omega)
  · simp [pixelsOfTpl, hdec]

/-! ### one table entry -/

/-- `TplImageTableItem` at the cursor, for an entry that the specification relates to `t`. -/
theorem tplItem_run (f : Buf) (s : St) (t : Spec.Tex.Tex)
    (hit : Spec.Tex.tplItem f s.pos t = true) (hv : Spec.Tex.validTpl t = true) :
    ∃ s', run tplItem f s = .ok ((⟨t.height, t.width, 9, t.payload⟩, ⟨2, t.palette⟩), s') ∧
      s'.pos = s.pos + 8 ∧ s'.names = s.names ∧ s.hi ≤ s'.hi ∧
      f.beN (f.beN s.pos 4 + 8) 4 + t.payload.size ≤ s'.hi ∧
      f.beN (f.beN (s.pos + 4) 4 + 8) 4 + t.palette.size ≤ s'.hi := by
  obtain ⟨hfmt, hsz, hppos, hqpos, _⟩ := validTpl_spec hv
  simp only [Spec.Tex.tplItem, Bool.and_eq_true, decide_eq_true_eq, beq_iff_eq, be16_eq, be32_eq] at hit
  obtain ⟨⟨⟨⟨⟨⟨⟨⟨⟨hi8, hi36⟩, hp12⟩, hhei⟩, hwid⟩, hifmt⟩, hpay⟩, hcnt⟩, hpfmt⟩, hpal⟩ := hit
  obtain ⟨hpfit, hpext⟩ := hasBytes_spec hpay
  obtain ⟨hqfit, hqext⟩ := hasBytes_spec hpal
  -- the image header
  obtain ⟨s1, h1, _, hn1, hh1, hH1⟩ := tplImage_run f ⟨f.beN s.pos 4, s.names, max s.hi (s.pos + 4)⟩ t.payload
    hi36 (by rw [hifmt, hfmt]) (by rw [hhei, hwid]; exact hsz) hppos hpfit hpext
  have h2 := filePtr32_run tplImage f s s1 _ (by omega) h1
  -- the palette header
  obtain ⟨s3, h3, _, hn3, hh3, hH3⟩ := tplPalette_run f ⟨f.beN (s.pos + 4) 4, s1.names, max s1.hi (s.pos + 4 + 4)⟩
    t.palette hp12 hpfmt hcnt hqpos hqfit hqext
  have h4 := filePtr32_run tplPalette f ⟨s.pos + 4, s1.names, s1.hi⟩ s3 _ (by simp; omega) h3
  unfold tplItem
  rw [run_bind_ok h2, run_bind_ok h4, hhei, hwid]
  dsimp only at hn1 hh1 hH1 hn3 hh3 hH3
  have hnames : s3.names = s.names := by rw [hn3, hn1]
  exact ⟨_, rfl, by show s.pos + 4 + 4 = s.pos + 8; omega, hnames, by show s.hi ≤ s3.hi; omega,
    by show _ ≤ s3.hi; omega, by show _ ≤ s3.hi; omega⟩

/-! ### the table -/

/-- `repeatN_run` with a per-index lower bound `H` on the read high-water mark. -/
theorem repeatN_run_hi {α : Type} (p : Prog α) (f : Buf) (Q : Nat → α → Prop) (H : Nat → Nat)
    (stride base : Nat) :
    ∀ (n k : Nat) (s : St), s.pos = base + stride * k →
      (∀ i s, k ≤ i → i < k + n → s.pos = base + stride * i →
        ∃ a s', run p f s = .ok (a, s') ∧ Q i a ∧ s'.pos = s.pos + stride ∧ s'.names = s.names ∧
          s.hi ≤ s'.hi ∧ H i ≤ s'.hi) →
      ∃ as s', run (repeatN p n) f s = .ok (as, s') ∧ as.length = n ∧
        (∀ i a, as[i]? = some a → Q (k + i) a) ∧
        s'.pos = base + stride * (k + n) ∧ s'.names = s.names ∧ s.hi ≤ s'.hi ∧
        (∀ i, i < n → H (k + i) ≤ s'.hi) := by
  intro n
  induction n with
  | zero =>
    intro k s hs _
    exact ⟨[], s, rfl, rfl, by intro i a h; simp at h, by simpa using hs, rfl, Nat.le_refl _,
      by intro i h; omega⟩
  | succ n ih =>
    intro k s hs hstep
    obtain ⟨a, s1, h1, hq, hp1, hn1, hh1, hH1⟩ := hstep k s (Nat.le_refl _) (by omega) hs
    obtain ⟨as, s2, h2, hl2, hq2, hp2, hn2, hh2, hH2⟩ := ih (k + 1) s1
      (by rw [hp1, hs, Nat.mul_add, Nat.mul_one, Nat.add_assoc])
      (fun i s hki hik hsp => hstep i s (by omega) (by omega) hsp)
    refine ⟨a :: as, s2, ?_, by simp [hl2], ?_, ?_, by rw [hn2, hn1], by omega, ?_⟩
    · simp only [repeatN]
      rw [run_bind, h1]
      simp only []
      rw [run_bind, h2]
      rfl
    · intro i b hb
      cases i with
      | zero => simp at hb; subst hb; simpa using hq
      | succ j =>
        simp at hb
        have := hq2 j b hb
        have e : k + 1 + j = k + (j + 1) := by omega
        rw [e] at this; exact this
    · rw [hp2]; congr 2; omega
    · intro i hi
      cases i with
      | zero => simp; omega
      | succ j =>
        have := hH2 j (by omega)
        have e : k + 1 + j = k + (j + 1) := by omega
        rw [e] at this; exact this

/-- `Tpl::read`: magic, count, pointer to the table of `count` entries. -/
theorem tplParse_run (f : Buf) (items : List (TplImage × TplPalette)) (s1 : St)
    (h12 : 12 ≤ f.size) (hmagic : f.beN 0 4 = 0x0020AF30)
    (hrep : run (repeatN tplItem (f.beN 4 4)) f ⟨f.beN 8 4, [], 12⟩ = .ok (items, s1)) :
    run tplParse f ⟨0, [], 0⟩ = .ok (items, ⟨12, s1.names, s1.hi⟩) := by
  unfold tplParse
  rw [run_bind_ok (run_u32be _ _ (by fitsT))]
  simp only [hmagic, decide_true]
  rw [run_bind_ok (run_require_true _ _ _)]
  rw [run_bind_ok (run_u32be _ _ (by fitsT))]
  have e : (⟨f.beN ((St.rd ⟨0, [], 0⟩ 4).rd 4).pos 4, ((St.rd ⟨0, [], 0⟩ 4).rd 4).names,
      max ((St.rd ⟨0, [], 0⟩ 4).rd 4).hi (((St.rd ⟨0, [], 0⟩ 4).rd 4).pos + 4)⟩ : St) = ⟨f.beN 8 4, [], 12⟩ := by
    simp [St.rd]
  have h := filePtr32_run (repeatN tplItem (f.beN 4 4)) f ((St.rd ⟨0, [], 0⟩ 4).rd 4) s1 items
    (by fitsT) (by rw [e]; exact hrep)
  simp only [St.rd_pos, Nat.zero_add, Nat.reduceAdd] at h ⊢
  exact h

/-! ### decoding -/

theorem tplTexture_run (f : Buf) (s : St) (t : Spec.Tex.Tex) (hv : Spec.Tex.validTpl t = true) :
    run (tplTexture (⟨t.height, t.width, 9, t.payload⟩, ⟨2, t.palette⟩)) f s =
      .ok ((t.width, t.height, pixelsOfTpl t), s) := by
  obtain ⟨_, _, _, _, hdec⟩ := validTpl_spec hv
  unfold tplTexture
  simp only [hdec]
  rw [run_bind_ok (run_lift_ok _ _ _)]
  rfl

/-! ### the whole reader -/

/-- **A conforming TPL file is read as the packed textures**, and the reader has read every image
data block and every palette data block to its end. -/
theorem tpl_full (f : Buf) (texs : List Spec.Tex.Tex) (hc : Spec.Tex.ConformsTpl f texs = true) :
    ∃ raws sf, run tplProg f ⟨0, [], 0⟩ = .ok (raws, sf) ∧
      raws.map (fun r => (⟨[], r.1, r.2.1, r.2.2⟩ : Texture)) = texs.map unpackTpl ∧
      ∀ i t, texs[i]? = some t →
        Spec.Tex.tplPayloadAt f i + t.payload.size ≤ sf.hi ∧
        Spec.Tex.tplPaletteAt f i + t.palette.size ≤ sf.hi := by
  simp only [Spec.Tex.ConformsTpl, Bool.and_eq_true, decide_eq_true_eq, beq_iff_eq] at hc
  obtain ⟨⟨⟨⟨_, h12⟩, hmagic⟩, hcount⟩, hall⟩ := hc
  rw [be32_eq] at hmagic hcount
  have hent := allIdx_spec _ texs 0 hall
  simp only [Nat.zero_add, Bool.and_eq_true, be32_eq] at hent
  -- the table entries
  obtain ⟨items, s1, hitems, hilen, hiq, _, hn1, _, hH⟩ :=
    repeatN_run_hi tplItem f
      (fun i item => ∀ t, texs[i]? = some t → item = (⟨t.height, t.width, 9, t.payload⟩, ⟨2, t.palette⟩))
      (fun i => max
        (f.beN (f.beN (f.beN 8 4 + 8 * i) 4 + 8) 4 + (texs[i]?.map (fun t => t.payload.size)).getD 0)
        (f.beN (f.beN (f.beN 8 4 + 8 * i + 4) 4 + 8) 4 + (texs[i]?.map (fun t => t.palette.size)).getD 0))
      8 (f.beN 8 4) texs.length 0 ⟨f.beN 8 4, [], 12⟩ (by simp)
      (by
        intro i s _ hi hs
        have hti : texs[i]? = some texs[i] := List.getElem?_eq_getElem (by omega)
        obtain ⟨he1, he2⟩ := hent i _ hti
        rw [← hs] at he1
        obtain ⟨s', hr, hp, hn, hh, hH1, hH2⟩ := tplItem_run f s texs[i] he1 he2
        refine ⟨_, s', hr, ?_, hp, hn, hh, ?_⟩
        · intro t ht; rw [hti] at ht; cases ht; rfl
        · simp only [hti, Option.map_some, Option.getD_some, ← hs]
          exact Nat.max_le.mpr ⟨hH1, hH2⟩)
  rw [← hcount] at hitems
  have hparse := tplParse_run f items s1 h12 hmagic hitems
  -- decoding
  obtain ⟨raws, s2, hraws, hrlen, hrq, _, hh2⟩ :=
    mapM'_run_plain tplTexture f
      (fun i raw => ∀ t, texs[i]? = some t → raw = (t.width, t.height, pixelsOfTpl t)) items 0
      ⟨12, s1.names, s1.hi⟩
      (by
        intro i item s hi
        have hil : i < texs.length := by
          have := (List.getElem?_eq_some_iff.mp hi).1; omega
        have hti : texs[i]? = some texs[i] := List.getElem?_eq_getElem hil
        obtain ⟨_, he2⟩ := hent i _ hti
        have hq := hiq i item hi texs[i] (by rw [Nat.zero_add]; exact hti)
        refine ⟨_, s, by rw [hq]; exact tplTexture_run f s texs[i] he2, ?_, rfl, Nat.le_refl _⟩
        intro t ht; simp only [Nat.zero_add] at ht; rw [hti] at ht; cases ht; rfl)
  refine ⟨raws, s2, ?_, ?_, ?_⟩
  · unfold tplProg
    rw [run_bind_ok hparse]
    exact hraws
  · apply List.ext_getElem?
    intro i
    simp only [List.getElem?_map]
    by_cases hi : i < texs.length
    · have hti : texs[i]? = some texs[i] := List.getElem?_eq_getElem hi
      have hri : raws[i]? = some raws[i] := List.getElem?_eq_getElem (by omega)
      have := hrq i _ hri texs[i] (by rw [Nat.zero_add]; exact hti)
      rw [hti, hri, this]
      rfl
    · have h1 : texs[i]? = none := by simp; omega
      have h2 : raws[i]? = none := by simp; omega
      rw [h1, h2]; rfl
  · intro i t ht
    have hil : i < texs.length := (List.getElem?_eq_some_iff.mp ht).1
    have := hH i hil
    simp only [Nat.zero_add, ht, Option.map_some, Option.getD_some] at this
    have hle : s1.hi ≤ s2.hi := hh2
    simp only [Spec.Tex.tplPayloadAt, Spec.Tex.tplPaletteAt, be32_eq]
    have := Nat.max_le.mp this
    omega

/-- wrong magic (or fewer than four bytes) is rejected -/
theorem tpl_bad_magic (f : Buf) (h : f.size < 4 ∨ Spec.Tex.be32 f 0 ≠ 0x0020AF30) :
    ∃ e, run tplProg f ⟨0, [], 0⟩ = .err e := by
  unfold tplProg tplParse
  by_cases hsz : f.size < 4
  · refine ⟨.Eof, ?_⟩
    apply run_bind_err
    apply run_bind_err
    have : ¬ (0 + 4 ≤ f.size) := by omega
    simp [u32be, run, this]
  · have hm : f.beN 0 4 ≠ 0x0020AF30 := by
      rcases h with h | h
      · exact absurd h hsz
      · rwa [be32_eq] at h
    refine ⟨.BadMagic, ?_⟩
    apply run_bind_err
    rw [run_bind_ok (run_u32be _ _ (by fitsT))]
    apply run_bind_err
    simp only [hm, decide_false]
    exact run_require_false _ _ _

end Mila.Containers
