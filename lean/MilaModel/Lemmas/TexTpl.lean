/-
C20, TPL: a conforming file is read as the packed CI8 textures (symbolic execution of `tplProg`,
the hand model of the `binread` derive reader, against `Spec.Tex.ConformsTpl`), with the read
high-water mark above every image-data and palette-data block; a wrong magic is rejected.
-/
import MilaModel.Lemmas.TexSpec
import MilaModel.Lemmas.PixelCi8

namespace Mila.Containers
open Prog Pixel

/-- side condition "the read fits in the data" -/
macro "fitsT" : tactic => `(tactic| first | omega | (simp; omega))

/-! ### `FilePtr32` -/

/-- `FilePtr32::parse`: the target is parsed at the pointer, then the cursor returns to just after
the pointer field. -/
theorem filePtr32_run {α : Type} (inner : Prog α) (f : Buf) (s s1 : St) (a : α)
    (hfit : s.pos + 4 ≤ f.size)
    (h : run inner f ⟨f.beN s.pos 4, s.names, max s.hi (s.pos + 4)⟩ = .ok (a, s1)) :
    run (filePtr32 inner) f s = .ok (a, ⟨s.pos + 4, s1.names, s1.hi⟩) := by
  unfold filePtr32
  rw [run_bind_ok (run_u32be _ _ hfit)]
  rw [run_bind_ok (run_position _ _)]
  rw [run_bind_ok (run_seekStart _ _ _)]
  rw [run_bind_ok (run_skip _ _ _)]
  have e : ((s.rd 4).seek 0).seek (((s.rd 4).seek 0).pos + f.beN s.pos 4) =
      ⟨f.beN s.pos 4, s.names, max s.hi (s.pos + 4)⟩ := by
    simp [St.seek, St.rd]
  rw [e, run_bind_ok h]
  rw [run_bind_ok (run_seekStart _ _ _)]
  rw [run_bind_ok (run_seekStart _ _ _)]
  rfl

/-! ### the two headers -/

/-- The palette header at the cursor: entry count, format 2, data pointer; the data are read. -/
theorem tplPalette_run (f : Buf) (s : St) (pal : Buf)
    (hfit : s.pos + 12 ≤ f.size) (hfmt : f.beN (s.pos + 4) 4 = 2)
    (hsz : f.beN s.pos 2 * 2 = pal.size) (hpos : 0 < pal.size)
    (hdfit : f.beN (s.pos + 8) 4 + pal.size ≤ f.size)
    (hext : f.extract (f.beN (s.pos + 8) 4) (f.beN (s.pos + 8) 4 + pal.size) = pal) :
    ∃ s', run tplPalette f s = .ok (⟨2, pal⟩, s') ∧ s'.pos = s.pos + 12 ∧ s'.names = s.names ∧
      s.hi ≤ s'.hi ∧ f.beN (s.pos + 8) 4 + pal.size ≤ s'.hi := by
  unfold tplPalette
  rw [run_bind_ok (run_u16be _ _ (by fitsT))]
  rw [run_bind_ok (run_u8 _ _ (by fitsT))]
  rw [run_bind_ok (run_u8 _ _ (by fitsT))]
  rw [run_bind_ok (run_u32be _ _ (by fitsT))]
  simp only [St.rd_pos, Nat.add_assoc, Nat.reduceAdd, hfmt, hsz, Nat.le_refl, decide_true]
  rw [run_bind_ok (run_require_true _ _ _)]
  rw [run_bind_ok (filePtr32_run _ f _ _ _ (by fitsT) (run_readBytes _ _ _ hpos (by fitsT)))]
  simp only [St.rd_pos, Nat.add_assoc, Nat.reduceAdd, hext]
  refine ⟨_, rfl, ?_, ?_, ?_, ?_⟩ <;> simp <;> omega

/-- The image header at the cursor (36 bytes): height, width, format 9 (CI8), data pointer, ten
further fields; the data are read. -/
theorem tplImage_run (f : Buf) (s : St) (img : Buf)
    (hfit : s.pos + 36 ≤ f.size) (hfmt : f.beN (s.pos + 4) 4 = 9)
    (hsz : align (f.beN s.pos 2) 4 * align (f.beN (s.pos + 2) 2) 8 = img.size) (hpos : 0 < img.size)
    (hdfit : f.beN (s.pos + 8) 4 + img.size ≤ f.size)
    (hext : f.extract (f.beN (s.pos + 8) 4) (f.beN (s.pos + 8) 4 + img.size) = img) :
    ∃ s', run tplImage f s = .ok (⟨f.beN s.pos 2, f.beN (s.pos + 2) 2, 9, img⟩, s') ∧
      s'.pos = s.pos + 36 ∧ s'.names = s.names ∧
      s.hi ≤ s'.hi ∧ f.beN (s.pos + 8) 4 + img.size ≤ s'.hi := by
  have hbytes : tplImageBytes 9 (f.beN s.pos 2) (f.beN (s.pos + 2) 2) = img.size := by
    rw [← hsz]; simp [tplImageBytes, tplBlockDims]
  have hok : tplImageFormatOk 9 = true := by simp [tplImageFormatOk]
  unfold tplImage
  rw [run_bind_ok (run_u16be _ _ (by fitsT))]
  rw [run_bind_ok (run_u16be _ _ (by fitsT))]
  rw [run_bind_ok (run_u32be _ _ (by fitsT))]
  simp only [St.rd_pos, Nat.add_assoc, Nat.reduceAdd, hfmt, hbytes, hok]
  rw [run_bind_ok (run_require_true _ _ _)]
  rw [run_bind_ok (filePtr32_run _ f _ _ _ (by fitsT) (run_readBytes _ _ _ hpos (by fitsT)))]
  simp only [St.rd_pos, Nat.add_assoc, Nat.reduceAdd, hext]
  rw [run_bind_ok (run_u32be _ _ (by fitsT))]
  rw [run_bind_ok (run_u32be _ _ (by fitsT))]
  rw [run_bind_ok (run_u32be _ _ (by fitsT))]
  rw [run_bind_ok (run_u32be _ _ (by fitsT))]
  rw [run_bind_ok (run_u32be _ _ (by fitsT))]
  rw [run_bind_ok (run_u8 _ _ (by fitsT))]
  rw [run_bind_ok (run_u8 _ _ (by fitsT))]
  rw [run_bind_ok (run_u8 _ _ (by fitsT))]
  rw [run_bind_ok (run_u8 _ _ (by fitsT))]
  refine ⟨_, rfl, ?_, ?_, ?_, ?_⟩ <;> simp <;> omega

end Mila.Containers
