/- Localisation keeps the compressed-suffix decision for paths with a directory part (C12/C14). -/
import MilaModel.Model.LayeredFs
import MilaModel.Spec.LocalizeTable
import MilaModel.Lemmas.Split

namespace Mila.LayeredFs
open Mila.Localize (slash)

/-- If the element right before `l` does not occur in `sfx`, then `sfx` is a suffix of the whole
string iff it is a suffix of `l`. -/
theorem suffix_append_last_notin {α : Type} (sfx Y l : List α) (c : α) (hc : c ∉ sfx) :
    sfx <:+ Y ++ c :: l ↔ sfx <:+ l := by
  have hrew : Y ++ c :: l = (Y ++ [c]) ++ l := by simp
  constructor
  · intro h
    by_cases hle : sfx.length ≤ l.length
    · exact List.suffix_of_suffix_length_le h (hrew ▸ List.suffix_append (Y ++ [c]) l) hle
    · exfalso
      have hl : l <:+ sfx :=
        List.suffix_of_suffix_length_le (hrew ▸ List.suffix_append (Y ++ [c]) l) h (by omega)
      obtain ⟨u, hu⟩ := hl
      obtain ⟨t, ht⟩ := h
      have hune : u ≠ [] := by
        intro e; subst e; simp at hu; subst hu; omega
      rw [← hu, hrew, ← List.append_assoc] at ht
      have h2 : t ++ u = Y ++ [c] := List.append_cancel_right ht
      obtain ⟨u', x, rfl⟩ : ∃ u' x, u = u' ++ [x] := by
        refine ⟨u.dropLast, u.getLast hune, ?_⟩
        exact (List.dropLast_concat_getLast hune).symm
      rw [← List.append_assoc] at h2
      have hx : [x] = [c] := List.append_inj_right' h2 rfl
      have : x = c := by simpa using hx
      subst this
      apply hc
      rw [← hu]; simp
  · intro h
    exact h.trans (hrew ▸ List.suffix_append (Y ++ [c]) l)

/-- Every non-empty language marker ends in `/` (3DS language directory) or `_` (file-name prefix). -/
theorem marker_last (g : Spec.Loc.Game) (lang : Spec.Loc.Language) (m : Bytes)
    (h : Spec.Loc.langDir g lang = some m) :
    m = [] ∨ m.getLast? = some slash ∨ m.getLast? = some 0x5F := by
  cases g <;> cases lang <;> simp only [Spec.Loc.langDir, Option.some.injEq, reduceCtorEq] at h <;>
    subst h <;> decide

theorem suffix_byte_free (k : LzKind) (sfx : Bytes)
    (h : sfx ∈ (match k with
      | .lz10 => [bs ['.', 'c', 'm', 's'], bs ['.', 'c', 'm', 'p']]
      | .lz13 => [bs ['.', 'l', 'z']])) : slash ∉ sfx ∧ (0x5F : UInt8) ∉ sfx := by
  cases k <;> simp only [List.mem_cons, List.mem_nil_iff, or_false] at h
  · rcases h with rfl | rfl <;> decide
  · subst h; decide

/-- For a path `dir/…/l` with a non-empty directory part, the localised path
`dir/… ++ "/" ++ marker ++ l` has the compressed suffix iff the unlocalised one has. -/
theorem isCompressed_localized (k : LzKind) (g : Spec.Loc.Game) (lang : Spec.Loc.Language)
    (dir : List Bytes) (l qs : Bytes) (hdir : dir ≠ [])
    (h : Spec.Loc.expected g lang dir l = some qs) :
    isCompressed k qs = isCompressed k (joinWith slash (dir ++ [l])) := by
  unfold Spec.Loc.expected at h
  cases hm : Spec.Loc.langDir g lang with
  | none => simp [hm] at h
  | some m =>
    have hde : dir.isEmpty = false := by cases dir <;> simp_all
    simp only [hm, hde, Bool.false_eq_true, if_false, Option.some.injEq] at h
    subst h
    have hp : joinWith slash (dir ++ [l]) = joinWith slash dir ++ slash :: l :=
      joinWith_append_singleton slash dir l hdir
    have hsl : Spec.Loc.slash = slash := rfl
    rw [hp, hsl]
    have key : ∀ sfx : Bytes, slash ∉ sfx → (0x5F : UInt8) ∉ sfx →
        sfx.isSuffixOf (joinWith slash dir ++ slash :: (m ++ l)) =
        sfx.isSuffixOf (joinWith slash dir ++ slash :: l) := by
      intro sfx h1 h2
      rw [Bool.eq_iff_iff, List.isSuffixOf_iff_suffix, List.isSuffixOf_iff_suffix,
        suffix_append_last_notin sfx _ l slash h1]
      rcases marker_last g lang m hm with rfl | hl | hl
      · simp [suffix_append_last_notin sfx _ l slash h1]
      · obtain ⟨ys, rfl⟩ := List.getLast?_eq_some_iff.mp hl
        have : joinWith slash dir ++ slash :: (ys ++ [slash] ++ l) =
            (joinWith slash dir ++ slash :: ys) ++ slash :: l := by simp
        rw [this, suffix_append_last_notin sfx _ l slash h1]
      · obtain ⟨ys, rfl⟩ := List.getLast?_eq_some_iff.mp hl
        have : joinWith slash dir ++ slash :: (ys ++ [0x5F] ++ l) =
            (joinWith slash dir ++ slash :: ys) ++ 0x5F :: l := by simp
        rw [this, suffix_append_last_notin sfx _ l 0x5F h2]
    cases k with
    | lz10 =>
      have h1 := suffix_byte_free .lz10 (bs ['.', 'c', 'm', 's']) (by simp)
      have h2 := suffix_byte_free .lz10 (bs ['.', 'c', 'm', 'p']) (by simp)
      simp only [isCompressed, key _ h1.1 h1.2, key _ h2.1 h2.2]
    | lz13 =>
      have h1 := suffix_byte_free .lz13 (bs ['.', 'l', 'z']) (by simp)
      simp only [isCompressed, key _ h1.1 h1.2]

end Mila.LayeredFs
