/-
The tree invariant of a model layer (C12 / C13): every stored path's proper prefixes are stored as
directories, no path is stored twice, the root is not stored — hence nothing is stored below a
regular file.  It holds for layers read off a real directory walk, is preserved by every operation
of the model (so by every history), and is what makes the model's flat lookup `Layer.get` coincide
with the kernel's component-wise path walk.
-/
import MilaModel.Model.LayeredFs
import MilaModel.Spec.OverlayFs
import MilaModel.Lemmas.FsLayer
import MilaModel.Lemmas.FsBridge

namespace Mila.LayeredFs
open Mila.Spec.Overlay (Walk Kind)

/-- `x` is a non-empty proper prefix of `c` (an ancestor directory below the layer root). -/
def IsAncestor (x c : Comps) : Prop := x ≠ [] ∧ x <+: c ∧ x.length < c.length

theorem isAncestor_iff_mem {x c : Comps} : IsAncestor x c ↔ x ∈ prefixes c.dropLast :=
  mem_prefixes_dropLast.symm

namespace Layer

def keys (l : Layer) : List Comps := l.map (·.1)

/-- **The tree invariant.** -/
structure Closed (l : Layer) : Prop where
  nodup : l.keys.Nodup                                          -- no path is stored twice
  noRoot : ∀ e ∈ l, e.1 ≠ []                                     -- the root is implicit
  parents : ∀ e ∈ l, ∀ x, IsAncestor x e.1 → l.get x = some .dir  -- ancestors are stored directories

theorem closed_nil : Closed ([] : Layer) :=
  ⟨by simp [keys], by simp, by simp⟩

theorem mem_of_get {l : Layer} {c : Comps} {n : Node} (hc : c ≠ []) (h : l.get c = some n) : (c, n) ∈ l := by
  unfold get at h
  simp only [hc, if_false] at h
  cases hf : l.find? (fun e => decide (e.1 = c)) with
  | none => simp [hf] at h
  | some e =>
    simp only [hf, Option.map_some, Option.some.injEq] at h
    have h1 := List.mem_of_find?_eq_some hf
    have h2 : e.1 = c := by simpa using List.find?_some hf
    have : e = (c, n) := by cases e; simp_all
    exact this ▸ h1

theorem get_isSome_of_mem {l : Layer} {e : Comps × Node} (he : e ∈ l) (hne : e.1 ≠ []) : (l.get e.1).isSome := by
  unfold get
  simp only [hne, if_false]
  cases hf : l.find? (fun x => decide (x.1 = e.1)) with
  | none => have := List.find?_eq_none.mp hf e he; simp at this
  | some x => simp

/-- With unique keys the lookup returns the stored node. -/
theorem get_of_mem {l : Layer} (hn : l.keys.Nodup) {e : Comps × Node} (he : e ∈ l) (hne : e.1 ≠ []) :
    l.get e.1 = some e.2 := by
  induction l with
  | nil => cases he
  | cons a rest ih =>
    rw [get_cons a rest e.1 hne]
    have hn' : (a.1 :: keys rest).Nodup := hn
    rcases List.mem_cons.mp he with rfl | h
    · simp
    · have hne' : a.1 ≠ e.1 := by
        intro heq
        have : e.1 ∈ keys rest := List.mem_map.mpr ⟨e, h, rfl⟩
        exact (List.nodup_cons.mp hn').1 (heq ▸ this)
      simp only [hne', if_false]
      exact ih (List.nodup_cons.mp hn').2 h

/-- On a closed layer nothing is stored below a regular file. -/
theorem Closed.no_child_of_file {l : Layer} (hc : Closed l) {x : Comps} {b : Bytes}
    (hx : l.get x = some (.file b)) : ∀ e ∈ l, ¬ IsAncestor x e.1 := by
  intro e he ha
  have := hc.parents e he x ha
  rw [hx] at this; cases this

/-! #### `set` -/

theorem keys_set (l : Layer) (c : Comps) (n : Node) :
    (l.set c n).keys = if c ∈ l.keys then l.keys else l.keys ++ [c] := by
  induction l with
  | nil => simp [set, keys]
  | cons e rest ih =>
    unfold set
    by_cases h : e.1 = c
    · subst h; simp [keys]
    · have ih' : keys (Layer.set rest c n) = if c ∈ keys rest then keys rest else keys rest ++ [c] := ih
      have hne : ¬ c = e.1 := fun x => h x.symm
      simp only [h, if_false]
      show e.1 :: keys (Layer.set rest c n) = _
      rw [ih']
      simp only [keys, List.map_cons, List.mem_cons, hne, false_or]
      by_cases hm : c ∈ List.map (fun x => x.fst) rest <;> simp [hm]

theorem nodup_set (l : Layer) (c : Comps) (n : Node) (h : l.keys.Nodup) : (l.set c n).keys.Nodup := by
  rw [keys_set]
  by_cases hc : c ∈ l.keys
  · simp [hc, h]
  · simp only [hc, if_false]
    exact List.nodup_append.mpr ⟨h, by simp, by
      intro a ha b hb; simp at hb; subst hb; intro e; exact hc (e ▸ ha)⟩

/-- Storing a node at `c` keeps the invariant when `c`'s ancestors are directories and either the
node is a directory or `c` is not currently a directory (so nothing lives below it). -/
theorem closed_set {l : Layer} (hc : Closed l) (c : Comps) (n : Node) (hne : c ≠ [])
    (hanc : ∀ x, IsAncestor x c → l.get x = some .dir)
    (hn : n = .dir ∨ l.get c ≠ some .dir) : Closed (l.set c n) := by
  refine ⟨nodup_set l c n hc.nodup, ?_, ?_⟩
  · intro e he
    rcases mem_set l c n e he with h | h
    · exact hc.noRoot e h
    · rw [h]; exact hne
  · intro e he x hx
    rw [get_set l c x n hne]
    by_cases hxc : x = c
    · subst hxc
      simp only [if_true]
      rcases mem_set l x n e he with h | h
      · -- an old entry lies below `x`: then `x` was a directory, so the new node must be one
        have hd := hc.parents e h x hx
        rcases hn with hn | hn
        · rw [hn]
        · exact absurd hd hn
      · rw [h] at hx
        exact absurd hx.2.2 (Nat.lt_irrefl _)
    · simp only [hxc, if_false]
      rcases mem_set l c n e he with h | h
      · exact hc.parents e h x hx
      · rw [h] at hx; exact hanc x hx

/-! #### `create_dir_all` -/

theorem closed_mkStep {l : Layer} (hc : Closed l) (q : Comps) (hne : q ≠ [])
    (hanc : ∀ x, IsAncestor x q → l.get x = some .dir) : Closed (l.mkStep q) := by
  unfold mkStep
  by_cases h : (l.get q).isNone = true
  · simp only [h, if_true]
    exact closed_set hc q .dir hne hanc (Or.inl rfl)
  · simp only [h]; exact hc

/-- Creating a length-sorted, ancestor-closed list of directories (none of which is a regular file). -/
theorem closed_foldl_mkStep (qs : List Comps) (l : Layer) (hc : Closed l)
    (hne : ∀ q ∈ qs, q ≠ [])
    (hsorted : qs.Pairwise (fun a b => a.length < b.length))
    (hanc : ∀ q ∈ qs, ∀ x, IsAncestor x q → x ∈ qs ∨ l.get x = some .dir)
    (hnf : ∀ q ∈ qs, isFileNode (l.get q) = false) :
    Closed (qs.foldl mkStep l) ∧ ∀ q ∈ qs, (qs.foldl mkStep l).get q = some .dir := by
  induction qs generalizing l with
  | nil => exact ⟨hc, by simp⟩
  | cons q rest ih =>
    have hq0 : q ≠ [] := hne q (by simp)
    have hsort := List.pairwise_cons.mp hsorted
    have hancq : ∀ x, IsAncestor x q → l.get x = some .dir := by
      intro x hx
      rcases hanc q (by simp) x hx with h | h
      · rcases List.mem_cons.mp h with rfl | h
        · exact absurd hx.2.2 (Nat.lt_irrefl _)
        · have := hsort.1 x h
          have := hx.2.2
          omega
      · exact h
    have hc' := closed_mkStep hc q hq0 hancq
    -- after the step `q` is a directory
    have hqdir : (l.mkStep q).get q = some .dir := by
      rw [get_mkStep l q q hq0]
      cases hg : l.get q with
      | none => simp
      | some n =>
        have := hnf q (by simp)
        rw [hg] at this
        cases n with
        | dir => simp
        | file b => simp [isFileNode] at this
    have hkeep : ∀ x, l.get x = some .dir → (l.mkStep q).get x = some .dir := by
      intro x hx
      rw [get_mkStep l q x hq0]
      by_cases hxq : x = q ∧ l.get q = none
      · simp [hxq]
      · simp only [hxq, if_false]; exact hx
    rw [List.foldl_cons]
    have := ih (l.mkStep q) hc' (fun r hr => hne r (by simp [hr])) hsort.2
      (by
        intro r hr x hx
        rcases hanc r (by simp [hr]) x hx with h | h
        · rcases List.mem_cons.mp h with rfl | h
          · exact Or.inr hqdir
          · exact Or.inl h
        · exact Or.inr (hkeep x h))
      (by
        intro r hr
        have hrq : r ≠ q := by
          intro e; have := hsort.1 r hr; rw [e] at this; exact Nat.lt_irrefl _ this
        rw [get_mkStep l q r hq0]
        simp only [hrq, false_and, if_false]
        exact hnf r (by simp [hr]))
    refine ⟨this.1, ?_⟩
    intro r hr
    rcases List.mem_cons.mp hr with rfl | hr
    · -- later steps do not touch `q`
      rw [get_foldl_mkStep rest (fun x hx => hne x (by simp [hx])) (l.mkStep r) r, hqdir]
      simp
    · exact this.2 r hr

theorem prefixes_sorted (c : Comps) : (prefixes c).Pairwise (fun a b => a.length < b.length) := by
  unfold prefixes
  rw [List.pairwise_map]
  have h := List.pairwise_lt_range (n := c.length)
  refine List.Pairwise.imp_of_mem ?_ h
  intro a b ha hb hab
  have ha' := List.mem_range.mp ha
  have hb' := List.mem_range.mp hb
  simp only [List.length_take]
  omega

theorem closed_mkdirAll {l : Layer} (hc : Closed l) (c : Comps) :
    Closed (l.mkdirAll c).1 ∧
    ((l.mkdirAll c).2 = .ok () → ∀ q ∈ prefixes c, (l.mkdirAll c).1.get q = some .dir) := by
  unfold mkdirAll
  by_cases h : (prefixes c).any (fun q => isFileNode (l.get q)) = true
  · simp only [h, if_true]
    exact ⟨hc, by intro hh; cases hh⟩
  · simp only [h]
    have hnf : ∀ q ∈ prefixes c, isFileNode (l.get q) = false := by
      intro q hq
      cases hf : isFileNode (l.get q) with
      | false => rfl
      | true => exact absurd (List.any_eq_true.mpr ⟨q, hq, hf⟩) h
    have := closed_foldl_mkStep (prefixes c) l hc (fun q hq => prefixes_ne_nil hq) (prefixes_sorted c)
      (by
        intro q hq x hx
        left
        exact mem_prefixes.mpr ⟨hx.1, hx.2.1.trans (mem_prefixes.mp hq).2⟩)
      hnf
    exact ⟨this.1, fun _ => this.2⟩

/-! #### `write`, `create_dir` -/

/-- **A write keeps the invariant** — also a rejected one that has created leading directories. -/
theorem closed_write {l : Layer} (hc : Closed l) (p b : Bytes) : Closed (l.write p b).1 := by
  rw [write_eq]
  obtain ⟨hm, hdirs⟩ := closed_mkdirAll hc (parsePath p).comps.dropLast
  by_cases hok : (l.mkdirAll (parsePath p).comps.dropLast).2 = .ok ()
  · simp only [hok, if_true]
    by_cases hbad : ((parsePath p).comps.isEmpty || (parsePath p).mustDir) = true
    · simp only [hbad, if_true]; exact hm
    · simp only [hbad, Bool.false_eq_true, if_false]
      have hne : (parsePath p).comps ≠ [] := by
        intro e; apply hbad; simp [e]
      by_cases hd : (l.mkdirAll (parsePath p).comps.dropLast).1.get (parsePath p).comps = some .dir
      · simp only [hd, if_true]; exact hm
      · simp only [hd, if_false]
        exact closed_set hm _ _ hne
          (fun x hx => hdirs hok x (isAncestor_iff_mem.mp hx)) (Or.inr hd)
  · simp only [hok, if_false]; exact hm

theorem closed_createDir {l : Layer} (hc : Closed l) (p : Bytes) : Closed (l.createDir p).1 :=
  (closed_mkdirAll hc (parsePath p).comps).1

/-! #### layers read off a directory walk -/

theorem keys_walkOf (l : Layer) : (walkOf l).map (·.1) = l.keys := by
  simp [walkOf, keys, List.map_map]

/-- **A layer whose walk is the walk of a real tree is closed**: from "the parent of every entry is
reported as a directory" all ancestors follow by induction on the depth. -/
theorem closed_of_isTree (l : Layer) (h : (walkOf l).IsTree) : Closed l := by
  obtain ⟨hnd, hroot, hpar⟩ := h
  have hroot' : ∀ e ∈ l, e.1 ≠ [] := by
    intro e he
    exact hroot (e.1, kindOf e.2) (List.mem_map.mpr ⟨e, he, rfl⟩)
  have hpar' : ∀ e ∈ l, l.get e.1.dropLast = some .dir := by
    intro e he
    have := hpar (e.1, kindOf e.2) (List.mem_map.mpr ⟨e, he, rfl⟩)
    exact (at_dir_iff l _).mp this
  refine ⟨keys_walkOf l ▸ hnd, hroot', ?_⟩
  -- strong induction on the depth of the entry
  have key : ∀ n, ∀ e ∈ l, e.1.length = n → ∀ x, IsAncestor x e.1 → l.get x = some .dir := by
    intro n
    induction n using Nat.strongRecOn with
    | _ n ih =>
      intro e he hlen x hx
      have hparent := hpar' e he
      have hxp : x <+: e.1.dropLast := by
        rw [List.dropLast_eq_take]
        have h1 := List.prefix_iff_eq_take.mp hx.2.1
        rw [List.prefix_iff_eq_take, List.take_take]
        have : min x.length (e.1.length - 1) = x.length := by have := hx.2.2; omega
        rw [this]; exact h1
      by_cases heq : x.length = e.1.dropLast.length
      · have : x = e.1.dropLast := hxp.eq_of_length heq
        rw [this]; exact hparent
      · have hpne : e.1.dropLast ≠ [] := by
          intro e0
          have := hxp.length_le
          rw [e0] at this
          have h0 : x.length = 0 := by simpa using this
          exact hx.1 (List.length_eq_zero_iff.mp h0)
        have hmem := mem_of_get hpne hparent
        have hlt : e.1.dropLast.length < n := by
          rw [List.length_dropLast]
          have := hx.2.2
          omega
        exact ih _ hlt (e.1.dropLast, .dir) hmem rfl x
          ⟨hx.1, hxp, by
            show x.length < e.1.dropLast.length
            have := hxp.length_le; omega⟩
  intro e he x hx
  exact key _ e he rfl x hx

/-- The precondition is decidable: an executable check for initial trees. -/
def isTreeB (l : Layer) : Bool :=
  decide (l.keys.Nodup) && l.all (fun e => !e.1.isEmpty) &&
  l.all (fun e => decide (l.get e.1.dropLast = some .dir))

theorem closed_of_isTreeB (l : Layer) (h : isTreeB l = true) : Closed l := by
  apply closed_of_isTree
  simp only [isTreeB, Bool.and_eq_true, decide_eq_true_eq, List.all_eq_true, Bool.not_eq_true',
    List.isEmpty_eq_false_iff] at h
  obtain ⟨⟨h1, h2⟩, h3⟩ := h
  refine ⟨keys_walkOf l ▸ h1, ?_, ?_⟩
  · intro e he
    obtain ⟨e0, he0, rfl⟩ := List.mem_map.mp he
    exact h2 e0 he0
  · intro e he
    obtain ⟨e0, he0, rfl⟩ := List.mem_map.mp he
    exact (at_dir_iff l _).mpr (h3 e0 he0)

/-! #### the flat lookup is the kernel's path walk -/

/-- Component-wise lookup: every ancestor must be a directory. -/
def posixGet (l : Layer) (c : Comps) : Option Node :=
  if (prefixes c.dropLast).all (fun x => decide (l.get x = some .dir)) then l.get c else none

/-- **On a closed layer the flat lookup *is* the path walk.** -/
theorem posixGet_eq_get {l : Layer} (hc : Closed l) (c : Comps) : l.posixGet c = l.get c := by
  unfold posixGet
  by_cases hall : (prefixes c.dropLast).all (fun x => decide (l.get x = some .dir)) = true
  · simp [hall]
  · simp only [hall]
    cases hg : l.get c with
    | none => rfl
    | some n =>
      exfalso
      apply hall
      by_cases hne : c = []
      · subst hne; simp [prefixes]
      · have hm := mem_of_get hne hg
        apply List.all_eq_true.mpr
        intro x hx
        simpa using hc.parents (c, n) hm x (isAncestor_iff_mem.mpr hx)

end Layer

theorem ancestors_eq (c : Comps) : Spec.Overlay.ancestors c = Spec.Overlay.properPrefixes c := rfl

/-- The specification's kernel path walk on the walk of a closed layer is the plain lookup. -/
theorem posixAt_walkOf {l : Layer} (hc : l.Closed) (c : Comps) : (walkOf l).posixAt c = (walkOf l).at c := by
  unfold Spec.Overlay.Walk.posixAt
  have h := Layer.posixGet_eq_get hc c
  unfold Layer.posixGet at h
  have hcond : ((Spec.Overlay.ancestors c).all fun a => decide ((walkOf l).at a = some Kind.dir)) =
      ((prefixes c.dropLast).all fun x => decide (l.get x = some Node.dir)) := by
    rw [Bool.eq_iff_iff]
    simp only [List.all_eq_true, decide_eq_true_eq, ancestors_eq]
    constructor
    · intro h1 x hx
      exact (at_dir_iff l x).mp (h1 x ((properPrefixes_eq c x).mp hx))
    · intro h1 x hx
      exact (at_dir_iff l x).mpr (h1 x ((properPrefixes_eq c x).mpr hx))
  rw [hcond]
  by_cases hall : ((prefixes c.dropLast).all fun x => decide (l.get x = some Node.dir)) = true
  · simp [hall]
  · simp only [hall] at h ⊢
    rw [at_walkOf, ← h]; rfl

end Mila.LayeredFs
