/-
C02 refinement: on every archive of the property's domain the model's `serialize` returns the
specification's `canonical` image (of the content extended by the c-string pool).
One lemma per loop of `serialize`, then the assembly.
-/
import MilaModel.Lemmas.SerPool
import MilaModel.Lemmas.SerSort

namespace Mila.Ser
open Mila.BinArchive
open Spec.Image

/-! ### the pointer loop -/

theorem patchWord_eq (e : Endian) (d : Bytes) (x v : Nat) (h : x + 4 ≤ d.length) :
    patchWord e d x v = .ok (patch1 e d x v) := by
  unfold patchWord patch patch1
  rw [if_pos h, enc4_mod, enc4_length]

theorem fold_patchWord (e : Endian) : ∀ (ws : List (Nat × Nat)) (d : Bytes),
    (∀ w ∈ ws, w.1 + 4 ≤ d.length) →
    ws.foldlM (fun d p => patchWord e d p.1 p.2) d = .ok (patchWords e d ws) := by
  intro ws
  induction ws with
  | nil => intro d _; rfl
  | cons w ws ih =>
    intro d h
    rw [List.foldlM_cons, patchWord_eq e d w.1 w.2 (h w (by simp)), patchWords_cons]
    show ws.foldlM _ _ = _
    apply ih
    intro w' hw'
    rw [length_patch1 e d w.1 w.2 (h w (by simp))]
    exact h w' (by simp [hw'])

theorem patch1_append_right (e : Endian) (d raw : Bytes) (x v : Nat) (h : x + 4 ≤ d.length) :
    patch1 e (d ++ raw) x v = patch1 e d x v ++ raw := by
  unfold patch1
  rw [List.take_append, List.drop_append]
  have h1 : x - d.length = 0 := by omega
  have h2 : x + 4 - d.length = 0 := by omega
  rw [h1, h2]
  simp

theorem patchWords_append_right (e : Endian) : ∀ (ws : List (Nat × Nat)) (d raw : Bytes),
    (∀ w ∈ ws, w.1 + 4 ≤ d.length) → patchWords e (d ++ raw) ws = patchWords e d ws ++ raw := by
  intro ws
  induction ws with
  | nil => intro _ _ _; rfl
  | cons w ws ih =>
    intro d raw h
    rw [patchWords_cons, patchWords_cons, patch1_append_right e d raw w.1 w.2 (h w (by simp))]
    apply ih
    intro w' hw'
    rw [length_patch1 e d w.1 w.2 (h w (by simp))]
    exact h w' (by simp [hw'])

/-! ### the label loop -/

theorem foldl_append_flatMap {α β : Type} (f : α → List β) : ∀ (l : List α) (init : List β),
    l.foldl (fun acc x => acc ++ f x) init = init ++ l.flatMap f := by
  intro l
  induction l with
  | nil => intro init; simp
  | cons x xs ih => intro init; rw [List.foldl_cons, ih]; simp

theorem label_fold (c : Codec) (entries : List (Nat × Str))
    (henc : ∀ x ∈ entries, ∃ b, c.enc x.2 = some b) :
    entries.foldlM (labelStep c) ((⟨[], []⟩ : TextPool), ([] : List Nat)) =
      .ok (poolOf c.enc (dedup (entries.map (·.2))),
           entries.flatMap (fun al => [al.1, offsetIn c.enc (dedup (entries.map (·.2))) al.2])) := by
  have h := fold_addText c (fun al : Nat × Str => al.2) (fun (acc : List Nat) al off => acc ++ [al.1, off])
    (fun _ => True) (fun _ => True) (labelStep c)
    (by intro tp s x tp' off _ _ ha; simp only [labelStep, ha])
    (by intros; trivial) entries [] [] trivial (by intros; trivial) henc
  rw [addKeys_nil, foldl_append_flatMap] at h
  simpa [poolOf] using h

/-! ### the string loop -/

theorem foldl_pair {α β ι : Type} (f : α → ι → α) (g : β → ι → β) : ∀ (l : List ι) (a : α) (b : β),
    l.foldl (fun (s : α × β) x => (f s.1 x, g s.2 x)) (a, b) = (l.foldl f a, l.foldl g b) := by
  intro l
  induction l with
  | nil => intro a b; rfl
  | cons x xs ih => intro a b; rw [List.foldl_cons, ih]; rfl

theorem text_fold (c : Codec) (e : Endian) (ts : Nat) (strs : List (Nat × Str)) (ks : List Str)
    (d : Bytes) (hin : ∀ p ∈ strs, p.1 + 4 ≤ d.length)
    (henc : ∀ p ∈ strs, ∃ b, c.enc p.2 = some b) :
    strs.foldlM (textStep c e ts) (poolOf c.enc ks, d, ([] : List (Nat × List Nat))) =
      .ok (poolOf c.enc (addKeys ks (strs.map (·.2))),
           patchWords e d (strs.map (fun p => (p.1, ts + offsetIn c.enc (addKeys ks (strs.map (·.2))) p.2))),
           groupsOf (strs.map (fun p => (offsetIn c.enc (addKeys ks (strs.map (·.2))) p.2, p.1)))) := by
  have h := fold_addText c (fun p : Nat × Str => p.2)
    (fun (s : Bytes × List (Nat × List Nat)) p off => (patch1 e s.1 p.1 (ts + off), pushGroup s.2 off p.1))
    (fun s => s.1.length = d.length) (fun p => p.1 + 4 ≤ d.length) (textStep c e ts)
    (by
      intro tp s x tp' off hI hP ha
      simp only [textStep, ha]
      rw [patchWord_eq e s.1 x.1 _ (by rw [hI]; exact hP)])
    (by intro s x off hI hP; simp only; rw [length_patch1 e s.1 x.1 _ (by rw [hI]; exact hP)]; exact hI)
    strs ks (d, []) rfl hin henc
  rw [h]
  congr 2
  rw [foldl_pair (fun (dd : Bytes) (p : Nat × Str) =>
        patch1 e dd p.1 (ts + offsetIn c.enc (addKeys ks (strs.map (·.2))) p.2))
      (fun (gr : List (Nat × List Nat)) (p : Nat × Str) =>
        pushGroup gr (offsetIn c.enc (addKeys ks (strs.map (·.2))) p.2) p.1)]
  congr 1
  · simp [patchWords, List.foldl_map, patch1]
  · rw [← foldl_pushGroup, List.foldl_map]

/-! ### string-pointer groups -/

theorem flatMap_congr_mem {α β : Type} {f g : α → List β} : ∀ (l : List α),
    (∀ x ∈ l, f x = g x) → l.flatMap f = l.flatMap g := by
  intro l
  induction l with
  | nil => intro _; rfl
  | cons x xs ih =>
    intro h
    rw [List.flatMap_cons, List.flatMap_cons, h x (by simp), ih (fun y hy => h y (by simp [hy]))]

theorem groups_flat (enc : Bytes → Option Bytes) (ks : List Str) (strs : List (Nat × Str))
    (hmem : ∀ p ∈ strs, p.2 ∈ ks) (hsorted : strs.Pairwise (fun a b => a.1 ≤ b.1))
    (hlt : ∀ p ∈ strs, p.1 < 2 ^ 32) :
    (groupsOf (strs.map (fun p => (offsetIn enc ks p.2, p.1)))).flatMap
        (fun g => sortNat (g.2.map (· % 2 ^ 32))) =
      (dedup (strs.map (·.2))).flatMap (fun s => (strs.filter (fun p => p.2 = s)).map (·.1)) := by
  unfold groupsOf
  have hkeys : (strs.map (fun p => (offsetIn enc ks p.2, p.1))).map (·.1)
      = (strs.map (·.2)).map (offsetIn enc ks) := by
    simp [List.map_map, Function.comp_def]
  have hinj : ∀ x ∈ strs.map (·.2) ++ [], ∀ y ∈ strs.map (·.2) ++ [],
      offsetIn enc ks x = offsetIn enc ks y → x = y := by
    intro x hx y hy
    simp only [List.append_nil, List.mem_map] at hx hy
    obtain ⟨p, hp, rfl⟩ := hx
    obtain ⟨q, hq, rfl⟩ := hy
    exact offsetIn_inj enc ks _ _ (hmem p hp) (hmem q hq)
  have hd : dedup ((strs.map (·.2)).map (offsetIn enc ks)) = (dedup (strs.map (·.2))).map (offsetIn enc ks) := by
    have := dedup_map_of_inj (offsetIn enc ks) (strs.map (·.2)) [] hinj
    simpa [dedup] using this
  rw [hkeys, hd, List.map_map, List.flatMap_map]
  apply flatMap_congr_mem
  intro s hs
  have hs' : s ∈ strs.map (·.2) := (mem_dedup _ _).mp hs
  obtain ⟨q, hq, rfl⟩ := List.mem_map.mp hs'
  simp only [Function.comp]
  have hfilter : (strs.map (fun p => (offsetIn enc ks p.2, p.1))).filter
        (fun it => it.1 = offsetIn enc ks q.2)
      = (strs.filter (fun p => p.2 = q.2)).map (fun p => (offsetIn enc ks p.2, p.1)) := by
    rw [List.filter_map]
    congr 1
    apply List.filter_congr
    intro p hp
    simp only [Function.comp]
    by_cases hpq : p.2 = q.2
    · simp [hpq]
    · have : ¬ offsetIn enc ks p.2 = offsetIn enc ks q.2 :=
        fun h => hpq (offsetIn_inj enc ks _ _ (hmem p hp) (hmem q hq) h)
      simp [hpq, this]
  rw [hfilter]
  have hmod : (((strs.filter (fun p => p.2 = q.2)).map (fun p => (offsetIn enc ks p.2, p.1))).map (·.2)).map
        (· % 2 ^ 32) = (strs.filter (fun p => p.2 = q.2)).map (·.1) := by
    rw [List.map_map, List.map_map]
    apply List.map_congr_left
    intro p hp
    have := hlt p (List.mem_filter.mp hp).1
    simp only [Function.comp]
    exact Nat.mod_eq_of_lt this
  rw [hmod]
  unfold sortNat
  apply List.mergeSort_of_pairwise
  rw [List.pairwise_map]
  apply List.Pairwise.imp _ (hsorted.filter _)
  intro a b h
  simpa using h

/-- The string groups list every string cell exactly once. -/
theorem stringGroups_perm (strs : List (Nat × Str)) :
    ((dedup (strs.map (·.2))).flatMap (fun s => (strs.filter (fun p => p.2 = s)).map (·.1))).Perm
      (strs.map (·.1)) := by
  have key : ∀ (ss : List Str), ss.Nodup → ∀ (l : List (Nat × Str)), (∀ p ∈ l, p.2 ∈ ss) →
      (ss.flatMap (fun s => (l.filter (fun p => p.2 = s)).map (·.1))).Perm (l.map (·.1)) := by
    intro ss
    induction ss with
    | nil =>
      intro _ l h
      cases l with
      | nil => simp
      | cons p ps => exact absurd (h p (by simp)) (by simp)
    | cons s ss ih =>
      intro nd l h
      rw [List.nodup_cons] at nd
      rw [List.flatMap_cons]
      have hsplit : (l.map (·.1)).Perm
          ((l.filter (fun p => p.2 = s)).map (·.1) ++ (l.filter (fun p => ¬ p.2 = s)).map (·.1)) := by
        rw [← List.map_append]
        apply List.Perm.map
        have := List.filter_append_perm (fun p : Nat × Str => decide (p.2 = s)) l
        refine (this.symm.trans ?_)
        apply List.Perm.append_left
        apply List.Perm.of_eq
        apply List.filter_congr
        intro p _; simp
      refine List.Perm.trans ?_ hsplit.symm
      apply List.Perm.append_left
      have h' : ∀ p ∈ l.filter (fun p => ¬ p.2 = s), p.2 ∈ ss := by
        intro p hp
        obtain ⟨hp1, hp2⟩ := List.mem_filter.mp hp
        have := h p hp1
        simp only [decide_not, Bool.not_eq_eq_eq_not, Bool.not_true, decide_eq_false_iff_not] at hp2
        rcases List.mem_cons.mp this with e | e
        · exact absurd e hp2
        · exact e
      have := ih nd.2 (l.filter (fun p => ¬ p.2 = s)) h'
      refine List.Perm.trans (List.Perm.of_eq ?_) this
      apply flatMap_congr_mem
      intro t ht
      congr 1
      rw [List.filter_filter]
      apply List.filter_congr
      intro p _
      have hts : t ≠ s := fun e => nd.1 (e ▸ ht)
      by_cases hpt : p.2 = t
      · have : ¬ p.2 = s := fun e => hts (hpt.symm.trans e)
        simp [hpt, hts]
      · simp [hpt]
  exact key _ (nodup_dedup _) strs (fun p hp => (mem_dedup _ _).mpr (List.mem_map_of_mem hp))

/-! ### assembly -/

theorem serializeTail_ok (c : Codec) (e : Endian) (d0 raw : Bytes) (P : List (Nat × Nat))
    (L : UMap Nat (List Str)) (T : UMap Nat Str)
    (ptrs : List (Nat × Nat)) (entries strs : List (Nat × Str))
    (hp : P.mergeSort bySource = ptrs)
    (hl : (L.mergeSort (labelLe e)).flatMap (fun p => p.2.map (fun l => (p.1, l))) = entries)
    (hs : T.mergeSort bySource = strs)
    (data1 : Bytes) (tp1 : TextPool) (rawLabels : List Nat) (tp2 : TextPool) (data2 : Bytes)
    (groups : List (Nat × List Nat))
    (h1 : ptrs.foldlM (fun d p => patchWord e d p.1 p.2) d0 = .ok data1)
    (h2 : entries.foldlM (labelStep c) ((⟨[], []⟩ : TextPool), ([] : List Nat)) = .ok (tp1, rawLabels))
    (h3 : strs.foldlM (textStep c e (d0.length + raw.length
        + ((ptrs.map (·.1)).length + T.length + rawLabels.length) * 4))
        (tp1, data1, ([] : List (Nat × List Nat))) = .ok (tp2, data2, groups)) :
    serializeTail c e d0 raw P L T =
      .ok (assemble e d0.length data2 raw (ptrs.map (·.1)) groups rawLabels tp2.raw) := by
  subst hp hl hs
  unfold serializeTail
  rw [h1]
  simp only []
  rw [h2]
  simp only []
  rw [h3]

theorem sortedLabels_eq (e : Endian) (K : Content) : K.labels.mergeSort (labelLe e) = sortedLabels e K := by
  cases e <;> simp [sortedLabels, labelLe_little, labelLe_big]

theorem labelEntries_length_flat (enc : Bytes → Option Bytes) (l : List (Nat × Str)) (ks : List Str) :
    (l.flatMap (fun al => [al.1, offsetIn enc ks al.2])).length = 2 * l.length := by
  induction l with
  | nil => rfl
  | cons x xs ih => simp only [List.flatMap_cons, List.length_append, List.length_cons, ih]; simp; omega

/-- **`serializeTail` writes the canonical image** of the content `K` whose data is `d ++ raw`
(`raw` = the padded c-string pool, `K.pointers` includes the c-string pointers). -/
theorem serializeTail_eq_canonical (c : Codec) (e : Endian) (d raw : Bytes) (K : Content)
    (hK : K.data = d ++ raw)
    (hP : ∀ p ∈ K.pointers, p.1 + 4 ≤ d.length) (hT : ∀ p ∈ K.strings, p.1 + 4 ≤ d.length)
    (encT : ∀ p ∈ K.strings, ∃ b, c.enc p.2 = some b)
    (encL : ∀ p ∈ K.labels, ∀ n ∈ p.2, ∃ b, c.enc n = some b)
    (hsz : d.length + raw.length < 2 ^ 32) :
    serializeTail c e d raw K.pointers K.labels K.strings = .ok (canonical c.enc e K) := by
  have hptrs : K.pointers.mergeSort bySource = sortedPointers K := by
    simp [sortedPointers, bySource_eq_byAddr]
  have hstrs : K.strings.mergeSort bySource = sortedStrings K := by
    simp [sortedStrings, bySource_eq_byAddr]
  have hlbls : (K.labels.mergeSort (labelLe e)).flatMap (fun p => p.2.map (fun l => (p.1, l)))
      = labelEntries e K := by
    rw [labelEntries, ← sortedLabels_eq]
  have hPs : ∀ w ∈ sortedPointers K, w.1 + 4 ≤ d.length := by
    intro w hw; rw [← hptrs] at hw; exact hP w (List.mem_mergeSort.mp hw)
  have hTs : ∀ w ∈ sortedStrings K, w.1 + 4 ≤ d.length := by
    intro w hw; rw [← hstrs] at hw; exact hT w (List.mem_mergeSort.mp hw)
  have encTs : ∀ p ∈ sortedStrings K, ∃ b, c.enc p.2 = some b := by
    intro w hw; rw [← hstrs] at hw; exact encT w (List.mem_mergeSort.mp hw)
  have encLs : ∀ x ∈ labelEntries e K, ∃ b, c.enc x.2 = some b := by
    intro x hx
    rw [← hlbls] at hx
    obtain ⟨p, hp, hx⟩ := List.mem_flatMap.mp hx
    obtain ⟨n, hn, rfl⟩ := List.mem_map.mp hx
    exact encL p (List.mem_mergeSort.mp hp) n hn
  -- the three loops
  have h1 := fold_patchWord e (sortedPointers K) d hPs
  have h2 := label_fold c (labelEntries e K) encLs
  have hlen1 : (patchWords e d (sortedPointers K)).length = d.length := length_patchWords e _ d hPs
  have hstored : addKeys (dedup ((labelEntries e K).map (·.2))) ((sortedStrings K).map (·.2)) = stored e K := by
    rw [← addKeys_nil, ← addKeys_append]; rw [addKeys_nil]; rfl
  have h3 := fun ts => text_fold c e ts (sortedStrings K) (dedup ((labelEntries e K).map (·.2)))
    (patchWords e d (sortedPointers K)) (by intro p hp; rw [hlen1]; exact hTs p hp) encTs
  rw [hstored] at h3
  rw [serializeTail_ok c e d raw K.pointers K.labels K.strings _ _ _ hptrs hlbls hstrs _ _ _ _ _ _ h1 h2 (h3 _)]
  congr 1
  -- stability of the label-name offsets
  have hoff : ∀ x ∈ labelEntries e K, offsetIn c.enc (dedup ((labelEntries e K).map (·.2))) x.2
      = offsetIn c.enc (stored e K) x.2 := by
    intro x hx
    rw [← hstored, offsetIn_addKeys]
    exact (mem_dedup _ _).mpr (List.mem_map_of_mem hx)
  have hlabtab : (labelEntries e K).flatMap
        (fun al => [al.1, offsetIn c.enc (dedup ((labelEntries e K).map (·.2))) al.2])
      = labelTable c.enc e K := by
    unfold labelTable
    apply flatMap_congr_mem
    intro x hx; rw [hoff x hx]
  -- the groups
  have hsortedS : (sortedStrings K).Pairwise (fun a b => a.1 ≤ b.1) := by
    have := sorted_mergeSort (bySource_preorder (β := Str)) K.strings
    rw [hstrs] at this
    exact this.imp (by intro a b h; simpa [bySource] using h)
  have hgroups : (groupsOf ((sortedStrings K).map (fun p => (offsetIn c.enc (stored e K) p.2, p.1)))).flatMap
        (fun g => sortNat (g.2.map (· % 2 ^ 32))) = stringGroups K := by
    apply groups_flat c.enc (stored e K) (sortedStrings K) _ hsortedS
    · intro p hp; have := hTs p hp; omega
    · intro p hp
      unfold stored
      rw [mem_dedup]
      exact List.mem_append_right _ (List.mem_map_of_mem hp)
  have hTlen : K.strings.length = (stringGroups K).length := by
    have := (stringGroups_perm (sortedStrings K)).length_eq
    unfold stringGroups
    rw [this, List.length_map, ← hstrs, (List.mergeSort_perm K.strings bySource).length_eq]
  have hrawLen := labelEntries_length_flat c.enc (labelEntries e K) (dedup ((labelEntries e K).map (·.2)))
  have hts : d.length + raw.length + (((sortedPointers K).map (·.1)).length + K.strings.length
        + ((labelEntries e K).flatMap
            (fun al => [al.1, offsetIn c.enc (dedup ((labelEntries e K).map (·.2))) al.2])).length) * 4
      = canonTextStart e K := by
    rw [hrawLen, hTlen]
    simp only [canonTextStart, ptrTable, List.length_append, hK]
    omega
  rw [hts]
  have hdata : patchWords e (patchWords e d (sortedPointers K))
        ((sortedStrings K).map (fun p => (p.1, canonTextStart e K + offsetIn c.enc (stored e K) p.2))) ++ raw
      = canonData c.enc e K := by
    unfold canonData
    rw [hK, patchWords_append_right e _ d raw, patchWords_append]
    intro w hw
    rcases List.mem_append.mp hw with h | h
    · exact hPs w h
    · obtain ⟨p, hp, rfl⟩ := List.mem_map.mp h
      exact hTs p hp
  unfold assemble canonical
  simp only [poolOf, u32s_eq_words]
  rw [hgroups, hlabtab]
  have hlen2 : (patchWords e (patchWords e d (sortedPointers K))
      ((sortedStrings K).map (fun p => (p.1, canonTextStart e K + offsetIn c.enc (stored e K) p.2)))).length
      = d.length := by
    rw [length_patchWords e _ _ (by
      intro w hw
      obtain ⟨p, hp, rfl⟩ := List.mem_map.mp hw
      rw [hlen1]; exact hTs p hp), hlen1]
  have hhdr : [d.length + raw.length + ((sortedPointers K).map (·.1) ++ stringGroups K).length * 4
        + (labelTable c.enc e K).length * 4 + ((stored e K).flatMap (entry c.enc)).length + 0x20,
        (patchWords e (patchWords e d (sortedPointers K))
          ((sortedStrings K).map (fun p => (p.1, canonTextStart e K + offsetIn c.enc (stored e K) p.2)))).length
          % 2 ^ 32 + raw.length % 2 ^ 32,
        ((sortedPointers K).map (·.1) ++ stringGroups K).length, (labelTable c.enc e K).length / 2]
      = [0x20 + canonTextStart e K + (textSection c.enc e K).length, K.data.length,
        (ptrTable K).length, (labelEntries e K).length] := by
    have hl : (labelTable c.enc e K).length = 2 * (labelEntries e K).length := by
      rw [← hlabtab]; exact hrawLen
    rw [hlen2, hl]
    simp only [canonTextStart, ptrTable, textSection, List.length_append, hK]
    congr 1
    · omega
    congr 1
    · omega
    congr 1
    congr 1
    omega
  rw [hhdr, ← hdata]
  simp only [ptrTable, textSection, List.append_assoc]


/-! ### the c-string loop and the whole of `serialize` -/

/-- The content of an archive without pending c-strings. -/
def contentOf (a : BinArchive) : Content := ⟨a.data, a.text, a.pointers, a.labels⟩

def cstrSorted (c : Codec) (a : BinArchive) : List (Str × List Nat) := a.cstrings.mergeSort (cstrLe c)

/-- The distinct pending c-strings in pool order. -/
def cstrKeys (c : Codec) (a : BinArchive) : List Str := dedup ((cstrSorted c a).map (·.1))

/-- The c-string pool appended to the data: every pending c-string once, NUL-terminated, in
the order of their encodings, padded with zeros to a multiple of four bytes. -/
def cstrPool (c : Codec) (a : BinArchive) : Bytes := padTo4 ((cstrKeys c a).flatMap (entry c.enc))

/-- One internal pointer per c-string use, into the pool. -/
def cstrPointers (c : Codec) (a : BinArchive) : List (Nat × Nat) :=
  (cstrSorted c a).flatMap (fun p => p.2.map (fun addr =>
    (addr, a.data.length + offsetIn c.enc (cstrKeys c a) p.1)))

/-- `contentOf⁺` (DESIGN §6 C01): the content that the image of an archive with pending c-strings
denotes — the pool has become data and every c-string use an internal pointer into it. -/
def contentPlus (c : Codec) (a : BinArchive) : Content :=
  ⟨a.data ++ cstrPool c a, a.text, a.pointers ++ cstrPointers c a, a.labels⟩

theorem cstring_fold (c : Codec) (n : Nat) (cstrs : List (Str × List Nat))
    (henc : ∀ p ∈ cstrs, ∃ b, c.enc p.1 = some b) :
    cstrs.foldlM (cstringStep c n) ((⟨[], []⟩ : TextPool), ([] : List (Nat × Nat))) =
      .ok (poolOf c.enc (dedup (cstrs.map (·.1))),
           cstrs.flatMap (fun p => p.2.map (fun addr =>
             (addr, n + offsetIn c.enc (dedup (cstrs.map (·.1))) p.1)))) := by
  have h := fold_addText c (fun p : Str × List Nat => p.1)
    (fun (acc : List (Nat × Nat)) p off => acc ++ p.2.map (fun addr => (addr, n + off)))
    (fun _ => True) (fun _ => True) (cstringStep c n)
    (by intro tp s x tp' off _ _ ha; simp only [cstringStep, ha])
    (by intros; trivial) cstrs [] [] trivial (by intros; trivial) henc
  rw [addKeys_nil, foldl_append_flatMap] at h
  simpa [poolOf] using h

/-- The part of the quantifier of C01/C02 that `serialize` needs in order to succeed: annotated
cells inside the data, every string encodable, image smaller than 4 GiB. -/
structure SerDomain (c : Codec) (a : BinArchive) : Prop where
  ptrIn : ∀ p ∈ a.pointers, p.1 + 4 ≤ a.data.length
  textIn : ∀ p ∈ a.text, p.1 + 4 ≤ a.data.length
  cstrIn : ∀ p ∈ a.cstrings, ∀ x ∈ p.2, x + 4 ≤ a.data.length
  encText : ∀ p ∈ a.text, ∃ b, c.enc p.2 = some b
  encLabels : ∀ p ∈ a.labels, ∀ n ∈ p.2, ∃ b, c.enc n = some b
  encCStr : ∀ p ∈ a.cstrings, ∃ b, c.enc p.1 = some b
  small : a.data.length + (cstrPool c a).length < 2 ^ 32

/-- **`serialize` writes the canonical image of `contentPlus`.** -/
theorem serialize_eq_canonical_plus (c : Codec) (a : BinArchive) (h : SerDomain c a) :
    serialize c a = .ok (canonical c.enc a.endian (contentPlus c a)) := by
  unfold serialize
  have henc : ∀ p ∈ cstrSorted c a, ∃ b, c.enc p.1 = some b := by
    intro p hp; exact h.encCStr p (List.mem_mergeSort.mp hp)
  have hf := cstring_fold c a.data.length (cstrSorted c a) henc
  unfold cstrSorted at hf
  rw [hf]
  simp only [poolOf]
  apply serializeTail_eq_canonical c a.endian a.data _ (contentPlus c a) rfl
  · intro p hp
    rcases List.mem_append.mp hp with hp | hp
    · exact h.ptrIn p hp
    · obtain ⟨q, hq, hp⟩ := List.mem_flatMap.mp hp
      obtain ⟨x, hx, rfl⟩ := List.mem_map.mp hp
      exact h.cstrIn q (List.mem_mergeSort.mp hq) x hx
  · exact h.textIn
  · exact h.encText
  · exact h.encLabels
  · exact h.small

theorem contentPlus_of_no_cstrings (c : Codec) (a : BinArchive) (h : a.cstrings = []) :
    contentPlus c a = contentOf a := by
  simp [contentPlus, contentOf, cstrPool, cstrKeys, cstrSorted, cstrPointers, h, dedup, dedupAux, padTo4]

end Mila.Ser
