/-
The specification's encoder produces conforming streams: every valid token list has a
conforming stream (non-vacuity of the decoder theorems for all token lists).
-/
import MilaModel.Spec.LzStream
import MilaModel.Lemmas.LzBasic

namespace Mila.Spec.Lz

theorem flagOf_lt : ∀ (g : List Tok) (i : Nat), i + g.length ≤ 8 → flagOf i g < 2 ^ (8 - i) := by
  intro g
  induction g with
  | nil => intro i _; simp [flagOf]; exact Nat.pow_pos (by omega)
  | cons t ts ih =>
    intro i h
    simp at h
    simp only [flagOf]
    apply Nat.or_lt_two_pow
    · split
      · exact Nat.pow_lt_pow_right (by omega) (by omega)
      · exact Nat.pow_pos (by omega)
    · have := ih (i + 1) (by omega)
      exact Nat.lt_of_lt_of_le this (Nat.pow_le_pow_right (by omega) (by omega))

theorem flagOf_testBit : ∀ (g : List Tok) (i j : Nat) (hj : j < g.length), i + g.length ≤ 8 →
    (flagOf i g).testBit (7 - (i + j)) = (g[j]).isRef := by
  intro g
  induction g with
  | nil => intro i j hj; simp at hj
  | cons t ts ih =>
    intro i j hj h
    simp at h hj
    simp only [flagOf, Nat.testBit_or]
    cases j with
    | zero =>
      have hlt := flagOf_lt ts (i + 1) (by omega)
      have e : 8 - (i + 1) = 7 - i := by omega
      rw [e] at hlt
      have hb : (flagOf (i + 1) ts).testBit (7 - i) = false := Nat.testBit_lt_two_pow hlt
      simp only [Nat.add_zero, hb, Bool.or_false, List.getElem_cons_zero]
      cases t.isRef <;> simp
    | succ j =>
      have hih := ih (i + 1) j (by omega) (by omega)
      have e : i + 1 + j = i + (j + 1) := by omega
      rw [e] at hih
      simp only [List.getElem_cons_succ, hih]
      have hne : ¬ (7 - i = 7 - (i + (j + 1))) := by omega
      cases t.isRef <;> simp [hne]

theorem encodeGroups_groups (ext : Bool) (junk : UInt8) :
    ∀ (fuel : Nat) (toks : List Tok), toks.length ≤ fuel →
      Groups ext toks (encodeGroups ext junk fuel toks) := by
  intro fuel
  induction fuel with
  | zero =>
    intro toks h
    have : toks = [] := List.eq_nil_of_length_eq_zero (by omega)
    subst this
    simp [encodeGroups]; exact Groups.nil
  | succ fuel ih =>
    intro toks h
    cases htoks : toks with
    | nil => simp [encodeGroups]; exact Groups.nil
    | cons t ts =>
      rw [← htoks]
      have hne : toks ≠ [] := by rw [htoks]; simp
      have hlen : 0 < toks.length := by rw [htoks]; simp
      have hdef : encodeGroups ext junk (fuel + 1) toks =
          UInt8.ofNat (if (toks.drop 8).isEmpty then flagOf 0 (toks.take 8) ||| junk.toNat % 2 ^ (8 - (toks.take 8).length)
            else flagOf 0 (toks.take 8)) ::
            ((toks.take 8).flatMap (tokBytes ext) ++ encodeGroups ext junk fuel (toks.drop 8)) := by
        rw [htoks]; simp [encodeGroups]
      rw [hdef]
      have hg := Groups.group (ext := ext)
        (UInt8.ofNat (if (toks.drop 8).isEmpty then flagOf 0 (toks.take 8) ||| junk.toNat % 2 ^ (8 - (toks.take 8).length)
            else flagOf 0 (toks.take 8)))
        (toks.take 8) (toks.drop 8) (encodeGroups ext junk fuel (toks.drop 8))
        (by intro h0; have := congrArg List.length h0; rw [List.length_take, List.length_nil] at this; omega)
        (by simp; omega)
        (by
          intro hr
          have : ¬ toks.length ≤ 8 := fun hc => hr (List.drop_eq_nil_of_le hc)
          rw [List.length_take]; omega)
        ?_ (ih _ (by rw [List.length_drop]; omega))
      · simpa using hg
      · intro i hi
        have hl8 : (toks.take 8).length ≤ 8 := by simp; omega
        have hf := flagOf_testBit (toks.take 8) 0 i hi (by omega)
        have hlt := flagOf_lt (toks.take 8) 0 (by omega)
        simp only [Nat.zero_add, Nat.sub_zero] at hf hlt
        rw [UInt8.toNat_ofNat']
        split
        · have hj : junk.toNat % 2 ^ (8 - (toks.take 8).length) < 2 ^ 8 :=
            Nat.lt_of_lt_of_le (Nat.mod_lt _ (Nat.pow_pos (by omega)))
              (Nat.pow_le_pow_right (by omega) (by omega))
          rw [Nat.mod_eq_of_lt (Nat.or_lt_two_pow hlt hj), Nat.testBit_or, hf, Nat.testBit_mod_two_pow]
          have : ¬ (7 - i < 8 - (toks.take 8).length) := by omega
          simp only [this, decide_false, Bool.false_and, Bool.or_false]
        · rw [Nat.mod_eq_of_lt hlt, hf]

/-- Every valid token list (whose expansion length is representable) has a conforming stream,
for every choice of the unused flag bits. -/
theorem encode_conforms (ext : Bool) (junk : UInt8) (toks : List Tok) (hv : Valid ext toks)
    (hb : (expand toks).size < (if ext then 2 ^ 32 else 2 ^ 24)) :
    Conforms ext toks (encode ext junk toks) :=
  ⟨hv, ⟨_, rfl, encodeGroups_groups ext junk _ toks (Nat.le_refl _)⟩, hb⟩

end Mila.Spec.Lz
