/-
Composition glue, C01 → C17: every archive `Aset.build f` returns is `Tidy` (one string per cell,
inside the data, no pointers / c-strings, label buckets non-empty with addresses `≤ size`, every
string and label name in `D` when the file's strings are), hence — with the alignment from
`Aset.build_layout` — in C01's domain, and `BinRoundTrip` holds of it.
-/
import MilaModel.Lemmas.ComposeTidy
import MilaModel.Lemmas.AsetBuild

namespace Mila.Compose
open Mila Mila.BinArchive Mila.Ser Mila.Layered Mila.Aset

/-- Every string of the file (meta string, clip names, set labels and slot names) and the reserved
table label lie in `D`. -/
structure AsetStrsIn (D : Str → Prop) (f : ASetFile) : Prop where
  tableLabel : D Aset.tableLabel
  metaStr : ∀ s, f.metaStr = some s → D s
  clips : ∀ s, some s ∈ f.animClipTable → D s
  sets : ∀ set ∈ f.sets, ∀ s, some s ∈ set → D s

variable {D : Str → Prop}

private theorem join_mem {set : List (Option Str)} {k : Nat} {v : Str}
    (h : (set[k]?).join = some v) : some v ∈ set := by
  cases hk : set[k]? with
  | none => rw [hk] at h; cases h
  | some o =>
    rw [hk] at h
    simp only [Option.join_some] at h
    rw [h] at hk
    exact List.mem_of_getElem? hk

theorem tidy_writeSlots (set : List (Option Str)) (hs : ∀ s, some s ∈ set → D s) (i : Nat) :
    ∀ (n j : Nat) (w w' : Writer), Tidy D w.archive → writeSlots set i n j w = .ok w' →
      Tidy D w'.archive := by
  intro n
  induction n with
  | zero => intro j w w' h hw; simp only [writeSlots, Res.ok.injEq] at hw; rw [← hw]; exact h
  | succ n ih =>
    intro j w w' h hw
    unfold writeSlots at hw
    split at hw
    · rename_i v hv
      split at hw
      · rename_i w1 hw1
        exact ih _ _ _ (h.wWriteString (fun s e => by cases e; exact hs _ (join_mem hv)) hw1) hw
      · cases hw
      · cases hw
    · exact ih _ _ _ h hw

theorem tidy_writeGroups (set : List (Option Str)) (hs : ∀ s, some s ∈ set → D s) :
    ∀ (flags : List Nat) (i : Nat) (w w' : Writer), Tidy D w.archive →
      writeGroups set flags i w = .ok w' → Tidy D w'.archive := by
  intro flags
  induction flags with
  | nil => intro i w w' h hw; simp only [writeGroups, Res.ok.injEq] at hw; rw [← hw]; exact h
  | cons flag rest ih =>
    intro i w w' h hw
    unfold writeGroups at hw
    split at hw
    · split at hw
      · rename_i w1 hw1
        split at hw
        · rename_i w2 hw2
          exact ih _ _ _ (tidy_writeSlots set hs i 32 0 _ _ (h.wWriteU32 hw1) hw2) hw
        · cases hw
        · cases hw
      · cases hw
      · cases hw
    · exact ih _ _ _ h hw

theorem tidy_writeSetBody (set : List (Option Str)) (hs : ∀ s, some s ∈ set → D s) (w w' : Writer)
    (h : Tidy D w.archive) (hw : writeSetBody set w = .ok w') : Tidy D w'.archive := by
  unfold writeSetBody at hw
  split at hw
  · rename_i w2 hw2
    exact tidy_writeGroups set hs _ _ _ _ (h.wWriteU32 hw2) hw
  · cases hw
  · cases hw

theorem tidy_writeSet (set : List (Option Str)) (hs : ∀ s, some s ∈ set → D s) (w w' : Writer)
    (h : Tidy D w.archive) (hw : writeSet w set = .ok w') : Tidy D w'.archive := by
  unfold writeSet at hw
  dsimp only at hw
  have h0 : Tidy D (w.allocateAtEnd ((flagsToWrite set + stringsToWrite set + 1) * 4)).archive :=
    h.allocateAtEnd _
  split at hw
  · cases hw
  · exact tidy_writeSetBody set hs _ _ h0 hw
  · rename_i label hl
    split at hw
    · rename_i w1 hw1
      exact tidy_writeSetBody set hs _ _ (h0.wWriteLabel (hs _ (List.mem_of_getElem? hl)) hw1) hw
    · cases hw
    · cases hw

theorem tidy_writeSets : ∀ (sets : List (List (Option Str))) (w w' : Writer),
    (∀ set ∈ sets, ∀ s, some s ∈ set → D s) → Tidy D w.archive → writeSets sets w = .ok w' →
      Tidy D w'.archive := by
  intro sets
  induction sets with
  | nil => intro w w' _ h hw; simp only [writeSets, Res.ok.injEq] at hw; rw [← hw]; exact h
  | cons set rest ih =>
    intro w w' hs h hw
    unfold writeSets at hw
    split at hw
    · rename_i w1 hw1
      exact ih _ _ (fun t ht => hs t (List.mem_cons_of_mem _ ht))
        (tidy_writeSet set (hs set (List.mem_cons_self ..)) _ _ h hw1) hw
    · cases hw
    · cases hw

theorem tidy_writeTable : ∀ (t : List (Option Str)) (w w' : Writer),
    (∀ s, some s ∈ t → D s) → Tidy D w.archive → writeTable t w = .ok w' → Tidy D w'.archive := by
  intro t
  induction t with
  | nil => intro w w' _ h hw; simp only [writeTable, Res.ok.injEq] at hw; rw [← hw]; exact h
  | cons name rest ih =>
    intro w w' hs h hw
    unfold writeTable at hw
    split at hw
    · rename_i w1 hw1
      exact ih _ _ (fun s hs' => hs s (List.mem_cons_of_mem _ hs'))
        (h.wWriteString (fun s e => hs s (by rw [e]; exact List.mem_cons_self ..)) hw1) hw
    · cases hw
    · cases hw

/-- **Every archive `ASetFile::serialize` builds is tidy.** -/
theorem tidy_aset_build (f : ASetFile) (hD : AsetStrsIn D f) {a : BinArchive}
    (ha : Aset.build f = .ok a) : Tidy D a := by
  unfold Aset.build at ha
  dsimp only at ha
  have h0 : Tidy D ((BinArchive.new .little).allocateAtEnd 12) := (tidy_new _).allocateAtEnd _
  split at ha
  · rename_i a1 h1
    split at ha
    · rename_i a2 h2
      split at ha
      · rename_i a3 h3
        have t3 : Tidy D a3 :=
          ((h0.writeUInt4 h1).writeString hD.metaStr h2).writeUInt4 h3
        split at ha
        · rename_i w5 h5
          split at ha
          · rename_i w6 h6
            split at ha
            · rename_i w7 h7
              cases ha
              have t5 : Tidy D w5.archive :=
                Tidy.wWriteLabel (w := ⟨a3.allocateAtEnd (f.animClipTable.length * 4), 12⟩)
                  (t3.allocateAtEnd _) hD.tableLabel h5
              exact tidy_writeSets _ _ _ hD.sets (tidy_writeTable _ _ _ hD.clips t5 h6) h7
            · cases ha
            · cases ha
          · cases ha
          · cases ha
        · cases ha
        · cases ha
      · cases ha
      · cases ha
    · cases ha
    · cases ha
  · cases ha
  · cases ha

/-- **C01 discharged for C17**: `BinRoundTrip` holds of every archive `Aset.build f` can return,
for a file of the 257-entry domain whose strings are in `D`, when the image stays below 4 GiB. -/
theorem aset_binRoundTrip (c : Codec) (D : Str → Prop) (hf : c.Faithful D) (f : ASetFile)
    (hne : ∀ s ∈ f.sets, s ≠ []) (hclip : 0 < f.animClipTable.length) (hD : AsetStrsIn D f)
    {a : BinArchive} (ha : Aset.build f = .ok a) (small : imageSize c a < 2 ^ 32) :
    BinRoundTrip c a := by
  obtain ⟨a', ha', _, hp⟩ := build_layout f hne hclip
  rw [ha] at ha'
  cases ha'
  exact (tidy_aset_build f hD ha).binRoundTrip hp c hf small

end Mila.Compose
