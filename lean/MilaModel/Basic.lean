/-
Shared foundations for the mila model (DESIGN.md §3).  No Mathlib, no Std: everything here is
linked into the `mila_model` driver executable.
-/

namespace Mila

/-- Bytes are lists of `UInt8` in models and proofs. -/
abbrev Bytes := List UInt8

/-- Coarse error classes (M1).  Rust error values are mapped onto these by the harness. -/
inductive Err
  | OutOfBounds | Unaligned | TooSmall | Unterminated | Encoding | Decoding | Eof | BadMagic
  | NoCount | NoInfo | MissingName | NotFound | Unsupported | MissingParent | MissingFileName
  | LabelIndex | Invalid | Io | Other
  deriving DecidableEq, Repr, Inhabited

def Err.name : Err → String
  | .OutOfBounds => "OutOfBounds" | .Unaligned => "Unaligned" | .TooSmall => "TooSmall"
  | .Unterminated => "Unterminated" | .Encoding => "Encoding" | .Decoding => "Decoding"
  | .Eof => "Eof" | .BadMagic => "BadMagic" | .NoCount => "NoCount" | .NoInfo => "NoInfo"
  | .MissingName => "MissingName" | .NotFound => "NotFound" | .Unsupported => "Unsupported"
  | .MissingParent => "MissingParent" | .MissingFileName => "MissingFileName"
  | .LabelIndex => "LabelIndex" | .Invalid => "Invalid" | .Io => "Io" | .Other => "Other"

/-- Outcome of a modelled Rust call: `Ok`, `Err`, or a panic (M1). -/
inductive Res (α : Type)
  | ok (a : α)
  | err (e : Err)
  | panic
  deriving Repr, DecidableEq

namespace Res
variable {α β : Type}

@[inline] def bind (r : Res α) (f : α → Res β) : Res β :=
  match r with
  | ok a => f a
  | err e => err e
  | panic => panic

instance : Monad Res where
  pure := ok
  bind := bind

def isOk : Res α → Bool
  | ok _ => true
  | _ => false
def isErr : Res α → Bool
  | err _ => true
  | _ => false
def isPanic : Res α → Bool
  | panic => true
  | _ => false

def map (f : α → β) : Res α → Res β
  | ok a => ok (f a)
  | err e => err e
  | panic => panic

def toOption : Res α → Option α
  | ok a => some a
  | _ => none

@[simp] theorem bind_ok (a : α) (f : α → Res β) : (ok a >>= f) = f a := rfl
@[simp] theorem bind_err (e : Err) (f : α → Res β) : ((err e : Res α) >>= f) = err e := rfl
@[simp] theorem bind_panic (f : α → Res β) : ((panic : Res α) >>= f) = panic := rfl
@[simp] theorem pure_eq (a : α) : (pure a : Res α) = ok a := rfl

end Res

/-- Arithmetic profile (M2): `checked` panics on overflow, `wrapping` wraps. -/
inductive Profile
  | checked | wrapping
  deriving DecidableEq, Repr

def addN (bits : Nat) (p : Profile) (a b : Nat) : Res Nat :=
  if a + b < 2 ^ bits then .ok (a + b)
  else match p with
    | .checked => .panic
    | .wrapping => .ok ((a + b) % 2 ^ bits)

def subN (bits : Nat) (p : Profile) (a b : Nat) : Res Nat :=
  if b ≤ a then .ok (a - b)
  else match p with
    | .checked => .panic
    | .wrapping => .ok ((a + 2 ^ bits - b) % 2 ^ bits)

def mulN (bits : Nat) (p : Profile) (a b : Nat) : Res Nat :=
  if a * b < 2 ^ bits then .ok (a * b)
  else match p with
    | .checked => .panic
    | .wrapping => .ok ((a * b) % 2 ^ bits)

abbrev add64 := addN 64
abbrev sub64 := subN 64
abbrev add32 := addN 32
abbrev mul32 := mulN 32

/-! ### Hex and line-protocol helpers (driver side; also usable in `#eval`) -/

def hexDigit (n : Nat) : Char :=
  if n < 10 then Char.ofNat (48 + n) else Char.ofNat (87 + n)

def hexOfBytes (b : Bytes) : String :=
  if b.isEmpty then "-" else
  String.ofList (b.foldr (fun x acc => hexDigit (x.toNat / 16) :: hexDigit (x.toNat % 16) :: acc) [])

def hexVal (c : Char) : Option Nat :=
  if '0' ≤ c ∧ c ≤ '9' then some (c.toNat - 48)
  else if 'a' ≤ c ∧ c ≤ 'f' then some (c.toNat - 87)
  else if 'A' ≤ c ∧ c ≤ 'F' then some (c.toNat - 55)
  else none

def bytesOfHexChars : List Char → Option Bytes
  | [] => some []
  | [_] => none
  | a :: b :: rest => do
    let x ← hexVal a
    let y ← hexVal b
    let r ← bytesOfHexChars rest
    pure (UInt8.ofNat (16 * x + y) :: r)

def bytesOfHex (s : String) : Option Bytes :=
  if s == "-" then some [] else bytesOfHexChars s.toList

/-- Little/big-endian encodings of naturals (reduced mod 2^(8k)). -/
def leBytes : Nat → Nat → Bytes
  | 0, _ => []
  | k + 1, n => UInt8.ofNat (n % 256) :: leBytes k (n / 256)

def ofLe : Bytes → Nat
  | [] => 0
  | b :: bs => b.toNat + 256 * ofLe bs

def beBytes (k n : Nat) : Bytes := (leBytes k n).reverse
def ofBe (b : Bytes) : Nat := ofLe b.reverse

inductive Endian
  | little | big
  deriving DecidableEq, Repr

def Endian.enc (e : Endian) (k n : Nat) : Bytes :=
  match e with
  | .little => leBytes k n
  | .big => beBytes k n

def Endian.dec (e : Endian) (b : Bytes) : Nat :=
  match e with
  | .little => ofLe b
  | .big => ofBe b

/-- ASCII text as bytes, from a character list (reduces in the kernel, unlike string literals). -/
def bs (cs : List Char) : Bytes := cs.map (fun c => UInt8.ofNat c.toNat)

/-- Split a list on a separator element (like `str::split`): always at least one piece. -/
def splitOn' {α : Type} [DecidableEq α] (sep : α) : List α → List (List α)
  | [] => [[]]
  | x :: xs =>
    if x = sep then [] :: splitOn' sep xs
    else match splitOn' sep xs with
      | [] => [[x]]
      | p :: ps => (x :: p) :: ps

def joinWith {α : Type} (sep : α) : List (List α) → List α
  | [] => []
  | [p] => p
  | p :: ps => p ++ sep :: joinWith sep ps

end Mila
